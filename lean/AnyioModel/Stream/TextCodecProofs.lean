/-
Round-trip lemmas for the wide codecs of `TextCodecs` - part 1: facts shared by the codecs
(`Char` validity, `mkChar`, what `sendAll` puts on the wire for a BOM-writing encoder, latin-1)
and UTF-16: the incremental decoder, fed `utf16EncodeChar le c` byte by byte from the state
"nothing pending, byte order `le` known", emits exactly `[c]` and is back in that state.
-/
import AnyioModel.Stream.TextCodecs
import AnyioModel.Stream.TextProofs

namespace AnyioModel.Stream.Text

/-! ### characters -/

theorem char_valid (c : Char) : c.toNat < 0xD800 ∨ (0xDFFF < c.toNat ∧ c.toNat < 0x110000) :=
  c.valid

theorem mkChar_toNat (c : Char) : mkChar c.toNat = some c := by
  simp only [mkChar, if_pos (char_valid c), Char.ofNat_toNat]

theorem mkChar_of_eq {n : Nat} {c : Char} (h : n = c.toNat) : mkChar n = some c := by
  rw [h]; exact mkChar_toNat c

theorem toNat_ofNat_of_lt {n : Nat} (h : n < 256) : (UInt8.ofNat n).toNat = n := by
  rw [UInt8.toNat_ofNat']
  exact Nat.mod_eq_of_lt h

/-! ### the fold over a text, one character at a time -/

/-- if every character's encoding decodes, from the rest state `st`, to that character and
leaves the decoder in `st`, so does the encoding of a whole text -/
theorem decode_flatMap {σ : Type} (D : Decoder σ Char) (st : σ) (enc : Char → List Byte)
    (h : ∀ c, D.decode st (enc c) = some (st, [c])) :
    ∀ s : List Char, D.decode st (s.flatMap enc) = some (st, s)
  | [] => rfl
  | c :: s => by
    rw [List.flatMap_cons]
    have := D.decode_append_some (h c) (decode_flatMap D st enc h s)
    simpa using this

/-! ### what a BOM-writing encoder sends -/

theorem sendAll_wide_false (ec : Bool → Char → List Byte) (bom : List Byte) (le wb : Bool) :
    ∀ items : List (List Char), sendAll (wideEncoder ec bom le wb) false items =
      (items.map (fun s => s.flatMap (ec le)), none)
  | [] => rfl
  | item :: items => by
    have ih := sendAll_wide_false ec bom le wb items
    simp only [wideEncoder] at ih ⊢
    simp [sendAll, ih]

theorem sendAll_wide_true (ec : Bool → Char → List Byte) (bom : List Byte) (le wb : Bool)
    (item : List Char) (items : List (List Char)) :
    sendAll (wideEncoder ec bom le wb) true (item :: items) =
      ((bom ++ item.flatMap (ec le)) :: items.map (fun s => s.flatMap (ec le)), none) := by
  have h := sendAll_wide_false ec bom le wb items
  simp only [wideEncoder] at h
  simp [sendAll, wideEncoder, h]

theorem flatten_map_flatMap' {α β : Type} (f : α → List β) : ∀ items : List (List α),
    (items.map (fun s => s.flatMap f)).flatten = items.flatten.flatMap f
  | [] => rfl
  | a :: l => by simp [List.flatMap_append, flatten_map_flatMap' f l]

/-- the transport bytes of a wide encoder: never an encode error; the BOM (when the codec
writes one) exactly once, in front, as soon as there is at least one item - also an empty one -/
theorem sendAll_wide (ec : Bool → Char → List Byte) (bom : List Byte) (le wb : Bool)
    (items : List (List Char)) :
    (sendAll (wideEncoder ec bom le wb) wb items).2 = none ∧
    (sendAll (wideEncoder ec bom le wb) wb items).1.flatten =
      (if wb = true ∧ items ≠ [] then bom else []) ++ items.flatten.flatMap (ec le) := by
  cases wb with
  | false =>
    rw [sendAll_wide_false]
    simp [flatten_map_flatMap']
  | true =>
    cases items with
    | nil => simp [sendAll]
    | cons item items =>
      rw [sendAll_wide_true]
      simp [flatten_map_flatMap', List.flatMap_append]

/-! ### latin-1 -/

theorem latin1_encode_ok {s : List Char} (h : ∀ c ∈ s, c.toNat < 256) :
    latin1Encoder.encode () s = some ((), s.map (fun c => UInt8.ofNat c.toNat)) := by
  have : (s.all fun c => decide (c.toNat < 256)) = true := by
    simpa [List.all_eq_true] using h
  simp only [latin1Encoder, this, if_true]

theorem latin1_sendAll : ∀ (items : List (List Char)), (∀ s ∈ items, ∀ c ∈ s, c.toNat < 256) →
    sendAll latin1Encoder () items =
      (items.map (fun s => s.map (fun c => UInt8.ofNat c.toNat)), none)
  | [], _ => rfl
  | item :: items, h => by
    have h1 := latin1_encode_ok (h item (by simp))
    have h2 := latin1_sendAll items (fun s hs => h s (by simp [hs]))
    simp only [sendAll, h1, h2, List.map_cons]

theorem latin1_decode_encode : ∀ (s : List Char), (∀ c ∈ s, c.toNat < 256) →
    latin1Decoder.decode () (s.map (fun c => UInt8.ofNat c.toNat)) = some ((), s)
  | [], _ => rfl
  | c :: s, h => by
    have hc : c.toNat < 256 := h c (by simp)
    have ih := latin1_decode_encode s (fun c hc => h c (by simp [hc]))
    simp only [latin1Decoder] at ih
    simp only [List.map_cons, Decoder.decode, latin1Decoder, ih, toNat_ofNat_of_lt hc,
      Char.ofNat_toNat, List.singleton_append]

/-! ### UTF-16 -/

/-- a code unit written by `unitBytes` is read back by `unitOf` -/
theorem unitOf_unitBytes (le : Bool) {u : Nat} (h : u < 0x10000) :
    ∃ a b, unitBytes le u = [a, b] ∧ unitOf le a b = u := by
  have h1 : u % 256 < 256 := Nat.mod_lt _ (by decide)
  have h2 : u / 256 < 256 := by omega
  cases le with
  | true =>
    refine ⟨_, _, rfl, ?_⟩
    simp only [unitOf, if_true, toNat_ofNat_of_lt h1, toNat_ofNat_of_lt h2]
    omega
  | false =>
    refine ⟨_, _, rfl, ?_⟩
    simp only [unitOf, toNat_ofNat_of_lt h1, toNat_ofNat_of_lt h2]
    simp
    omega

/-- one code unit that is not a high surrogate -/
theorem utf16_decode_unit (le : Bool) {a b : Byte} {ch : Char}
    (hu : ¬ (0xD800 ≤ unitOf le a b ∧ unitOf le a b < 0xDC00))
    (hc : mkChar (unitOf le a b) = some ch) (x : Option Bool) :
    (utf16Decoder x).decode ⟨[], some le⟩ [a, b] = some (⟨[], some le⟩, [ch]) := by
  simp only [Decoder.decode, utf16Decoder, utf16Step, utf16Units, List.nil_append,
    List.cons_append, Option.map_some, if_neg hu, hc, List.append_nil]

/-- a surrogate pair -/
theorem utf16_decode_pair (le : Bool) {a b c d : Byte} {ch : Char}
    (hu : 0xD800 ≤ unitOf le a b ∧ unitOf le a b < 0xDC00)
    (hv : 0xDC00 ≤ unitOf le c d ∧ unitOf le c d < 0xE000)
    (hc : mkChar (0x10000 + (unitOf le a b - 0xD800) * 0x400 + (unitOf le c d - 0xDC00)) = some ch)
    (x : Option Bool) :
    (utf16Decoder x).decode ⟨[], some le⟩ [a, b, c, d] = some (⟨[], some le⟩, [ch]) := by
  simp only [Decoder.decode, utf16Decoder, utf16Step, utf16Units, List.nil_append,
    List.cons_append, Option.map_some, if_pos hu, if_pos hv, hc, List.append_nil]

/-- **one character**: BMP characters are one unit, the others a surrogate pair -/
theorem utf16_decode_char (le : Bool) (x : Option Bool) (c : Char) :
    (utf16Decoder x).decode ⟨[], some le⟩ (utf16EncodeChar le c) = some (⟨[], some le⟩, [c]) := by
  have hv := char_valid c
  by_cases hb : c.toNat < 0x10000
  · obtain ⟨a, b, he, hu⟩ := unitOf_unitBytes le hb
    simp only [utf16EncodeChar, if_pos hb, he]
    apply utf16_decode_unit le _ _ x
    · rw [hu]; omega
    · rw [hu]; exact mkChar_toNat c
  · have hm : c.toNat - 0x10000 < 0x100000 := by omega
    obtain ⟨a, b, he1, hu⟩ := unitOf_unitBytes le
      (show 0xD800 + (c.toNat - 0x10000) / 0x400 < 0x10000 by omega)
    obtain ⟨c', d, he2, hw⟩ := unitOf_unitBytes le
      (show 0xDC00 + (c.toNat - 0x10000) % 0x400 < 0x10000 by omega)
    simp only [utf16EncodeChar, if_neg hb, he1, he2, List.cons_append, List.nil_append]
    apply utf16_decode_pair le _ _ _ x
    · rw [hu]; omega
    · rw [hw]; omega
    · rw [hu, hw]
      apply mkChar_of_eq
      omega

/-- a whole text, byte order known -/
theorem utf16_decode_encode (le : Bool) (x : Option Bool) (s : List Char) :
    (utf16Decoder x).decode ⟨[], some le⟩ (s.flatMap (utf16EncodeChar le)) =
      some (⟨[], some le⟩, s) :=
  decode_flatMap _ _ _ (utf16_decode_char le x) s

/-- the little-endian BOM switches the detecting decoder to little endian and emits nothing -/
theorem utf16_decode_bom (x : Option Bool) :
    (utf16Decoder x).decode ⟨[], none⟩ [0xFF, 0xFE] = some (⟨[], some true⟩, []) := by
  simp [Decoder.decode, utf16Decoder, utf16Step]

theorem utf16_decode_bom_be (x : Option Bool) :
    (utf16Decoder x).decode ⟨[], none⟩ [0xFE, 0xFF] = some (⟨[], some false⟩, []) := by
  simp [Decoder.decode, utf16Decoder, utf16Step]

end AnyioModel.Stream.Text
