/-
Model of `anyio._backends._asyncio.StreamProtocol` + `SocketStream`
(src/anyio/_backends/_asyncio.py), cut at the awaits into atomic segments, and of the
`UNIXSocketStream` send/receive loops over an abstract non-blocking socket.

State mirrors the fields:
* protocol: `read_queue` (`queue`, list of chunks), `read_event` (`readEvent`), `is_at_eof`
  (`eof`), `exception` (`exc`, only whether one is recorded), `write_event` (`writeOpen`);
* stream: `_closed` (`closed`), `_receive_guard` / `_send_guard` (`rowner` / `sowner`: the task
  inside the guard, `none` = not guarded);
* what the stream asked of its transport: reading resumed (`reading`), `is_closing()`
  (`closing`, true after `close()` and after `connection_lost`), `write_eof()` done (`weof`),
  the bytes handed to `write()` (`written`), connection lost (`lost`).
* ghosts: `arrived` = every byte passed to `data_received`, `delivered` = every byte returned by
  `receive`.

Tasks blocked on `read_event.wait()` sit at `recvWait`; `Event.set()` resolves the future of
every waiter, which the model records by moving them to `recvWoken` (the wake-up itself is a
later `step t`).  The same for the write gate (`sendWait` / `sendWoken`).  `fc t` = the
cancellation of task `t` lands while it is suspended inside an operation (its waiter future is
cancelled, or `_must_cancel` is set): the next `step t` raises the cancellation exception.

Environment events are the calls an asyncio transport makes on its protocol.  Assumed
transport discipline (enabling conditions): `data_received` (never empty) and `eof_received`
only while reading is resumed, the transport is not closing and no EOF was seen;
`pause_writing` / `resume_writing` alternate; nothing after `connection_lost`.
-/
import AnyioModel.Util.LTS

namespace AnyioModel.Stream.Socket

abbrev Bytes := List Nat

inductive Pc where
  | idle
  | recvWait     -- in `await read_event.wait()`, future pending (reading resumed)
  | recvWoken    -- future resolved by `read_event.set()`, wake-up not yet run
  | recvChk      -- in the `else: await checkpoint()` branch of receive
  | sendChk      -- in send's initial checkpoint
  | sendWait     -- item written, in `await write_event.wait()` on an unset event
  | sendWoken    -- that event was set, wake-up not yet run
  | acloseYield  -- in aclose's `sleep(0)` between close() and abort()
  deriving DecidableEq, Repr, Inhabited

inductive Out where
  | susp
  | ret
  | retData (d : Bytes)
  | eos            -- EndOfStream
  | closedErr      -- ClosedResourceError
  | broken         -- BrokenResourceError
  | busy           -- BusyResourceError
  | valueError
  | runtimeError   -- transport.write() after write_eof() re-raised
  | cancelled
  | env
  deriving DecidableEq, Repr

inductive Ev where
  | receive (t : Nat) (maxBytes : Nat)
  | send (t : Nat) (item : Bytes)
  | sendEof (t : Nat)
  | aclose (t : Nat)
  | step (t : Nat)
  | fc (t : Nat)
  | dataReceived (chunk : Bytes)
  | eofReceived
  | connectionLost (withExc : Bool)
  | pauseWriting
  | resumeWriting
  deriving DecidableEq, Repr

structure State where
  queue     : List Bytes
  readEvent : Bool
  eof       : Bool
  exc       : Bool
  writeOpen : Bool
  closed    : Bool
  rowner    : Option Nat
  sowner    : Option Nat
  reading   : Bool
  closing   : Bool
  weof      : Bool
  lost      : Bool
  written   : Bytes
  pc        : Nat → Pc
  canc      : Nat → Bool
  arg       : Nat → Nat      -- max_bytes of the receive task `t` is inside of
  item      : Nat → Bytes    -- item of the send task `t` is inside of
  arrived   : Bytes
  delivered : Bytes

/-- a stream as its constructors hand it out: the transport's reading is paused -/
def init : State :=
  { queue := [], readEvent := false, eof := false, exc := false, writeOpen := true,
    closed := false, rowner := none, sowner := none, reading := false, closing := false,
    weof := false, lost := false, written := [], pc := fun _ => .idle, canc := fun _ => false,
    arg := fun _ => 0, item := fun _ => [], arrived := [], delivered := [] }

/-- `read_event.set()`: the future of every task waiting on it is resolved -/
def setReadEvent (s : State) : State :=
  { s with readEvent := true,
           pc := fun t => if s.pc t = .recvWait ∧ s.canc t = false then .recvWoken else s.pc t }

/-- `write_event.set()` -/
def openGate (s : State) : State :=
  { s with writeOpen := true,
           pc := fun t => if s.pc t = .sendWait ∧ s.canc t = false then .sendWoken else s.pc t }

/-- tail of `receive` after the wait/checkpoint: pop a chunk, split, clear the event -/
def recvFinish (s : State) (t : Nat) : State × Out :=
  match s.queue with
  | [] =>
    ({ s with rowner := none, pc := upd s.pc t .idle },
      if s.closed then .closedErr else if s.exc then .broken else .eos)
  | c :: rest =>
    let n := s.arg t
    let out := if c.length > n then c.take n else c
    let q := if c.length > n then c.drop n :: rest else rest
    ({ s with queue := q, readEvent := if q.isEmpty then false else s.readEvent,
              rowner := none, pc := upd s.pc t .idle, delivered := s.delivered ++ out },
      .retData out)

/-- `send` after its checkpoint: closed/broken checks, `transport.write`, the gate -/
def sendWrite (s : State) (t : Nat) : State × Out :=
  if s.closed then ({ s with sowner := none, pc := upd s.pc t .idle }, .closedErr)
  else if s.exc then ({ s with sowner := none, pc := upd s.pc t .idle }, .broken)
  else if s.weof then
    ({ s with sowner := none, pc := upd s.pc t .idle }, if s.closing then .broken else .runtimeError)
  else
    let s1 := if s.lost then s else { s with written := s.written ++ s.item t }
    if s1.writeOpen then ({ s1 with sowner := none, pc := upd s1.pc t .idle }, .ret)
    else ({ s1 with pc := upd s1.pc t .sendWait }, .susp)

def isRecvPc : Pc → Bool
  | .recvWait | .recvWoken | .recvChk => true
  | _ => false

def isSendPc : Pc → Bool
  | .sendChk | .sendWait | .sendWoken => true
  | _ => false

def step (s : State) : Ev → Option (State × Out)
  | .receive t n =>
    if s.pc t ≠ .idle then none
    else if n < 1 then some (s, .valueError)
    else if s.rowner.isSome then some (s, .busy)
    else if s.readEvent = false ∧ s.closing = false ∧ s.eof = false then
      some ({ s with rowner := some t, reading := true, pc := upd s.pc t .recvWait,
                     arg := upd s.arg t n }, .susp)
    else
      some ({ s with rowner := some t, pc := upd s.pc t .recvChk, arg := upd s.arg t n }, .susp)
  | .send t item =>
    if s.pc t ≠ .idle then none
    else if s.sowner.isSome then some (s, .busy)
    else some ({ s with sowner := some t, pc := upd s.pc t .sendChk, item := upd s.item t item },
               .susp)
  | .sendEof t =>
    if s.pc t ≠ .idle then none
    else some ({ s with weof := s.weof || !s.closing }, .ret)
  | .aclose t =>
    if s.pc t ≠ .idle then none
    else if s.closing then some ({ s with closed := true }, .ret)
    else some ({ s with closed := true, weof := true, closing := true,
                        pc := upd s.pc t .acloseYield }, .susp)
  | .fc t =>
    if s.pc t ≠ .idle ∧ s.canc t = false then some ({ s with canc := upd s.canc t true }, .env)
    else none
  | .step t =>
    if s.canc t then
      match s.pc t with
      | .idle => none
      | .recvWait | .recvWoken =>
        -- `finally: pause_reading()` around the wait
        some ({ s with rowner := none, reading := false, pc := upd s.pc t .idle,
                       canc := upd s.canc t false }, .cancelled)
      | .recvChk =>
        some ({ s with rowner := none, pc := upd s.pc t .idle, canc := upd s.canc t false },
              .cancelled)
      | .sendChk | .sendWait | .sendWoken =>
        some ({ s with sowner := none, pc := upd s.pc t .idle, canc := upd s.canc t false },
              .cancelled)
      | .acloseYield =>
        some ({ s with pc := upd s.pc t .idle, canc := upd s.canc t false }, .cancelled)
    else
      match s.pc t with
      | .idle => none
      | .recvWait => none
      | .sendWait => none
      | .recvWoken => some (recvFinish { s with reading := false } t)
      | .recvChk => some (recvFinish s t)
      | .sendChk => some (sendWrite s t)
      | .sendWoken => some ({ s with sowner := none, pc := upd s.pc t .idle }, .ret)
      | .acloseYield => some ({ s with pc := upd s.pc t .idle }, .ret)
  | .dataReceived c =>
    if c ≠ [] ∧ s.reading = true ∧ s.closing = false ∧ s.eof = false ∧ s.lost = false then
      some (setReadEvent { s with queue := s.queue ++ [c], arrived := s.arrived ++ c }, .env)
    else none
  | .eofReceived =>
    if s.reading = true ∧ s.closing = false ∧ s.eof = false ∧ s.lost = false then
      some (setReadEvent { s with eof := true }, .env)
    else none
  | .connectionLost e =>
    if s.lost then none
    else some (openGate (setReadEvent { s with lost := true, closing := true,
                                               exc := s.exc || e }), .env)
  | .pauseWriting =>
    if s.writeOpen = true ∧ s.lost = false then some ({ s with writeOpen := false }, .env)
    else none
  | .resumeWriting =>
    if s.writeOpen = false ∧ s.lost = false then some (openGate s, .env) else none

abbrev Reach (s : State) : Prop :=
  Reachable (fun s0 => s0 = init) step s

/-! ### UNIX stream loops (`UNIXSocketStream.send` / `.receive`) over an abstract socket

`send`: the socket accepts `k` bytes (1 ≤ k ≤ what is offered; the script entry is clamped) or
raises BlockingIOError (entry 0), after which the loop waits for writability and retries.  An
exhausted script means "accepts everything".  Result: the bytes the socket took, in order. -/

def unixSendLoop : (fuel : Nat) → Bytes → List Nat → Bytes → Bytes × List Nat
  | 0, _, script, acc => (acc, script)
  | _ + 1, [], script, acc => (acc, script)
  | _ + 1, view, [], acc => (acc ++ view, [])
  | fuel + 1, view, 0 :: script, acc => unixSendLoop fuel view script acc
  | fuel + 1, view, (k + 1) :: script, acc =>
    unixSendLoop fuel (view.drop (min (k + 1) view.length)) script
      (acc ++ view.take (min (k + 1) view.length))

/-- every script entry makes progress or is consumed: `script.length + 1` rounds suffice.
Returns the bytes the socket took, in order, and the unused rest of the script. -/
def unixSend (item : Bytes) (script : List Nat) : Bytes × List Nat :=
  unixSendLoop (script.length + 1) item script []

/-- kernel side of `recv`: `pending` = bytes of the chunk being consumed; script entries:
`some chunk` = that chunk is available next (non-empty), `none` = BlockingIOError once (the loop
waits for readability and retries); exhausted script = EOF. -/
inductive RecvOut where
  | data (d : Bytes)
  | eos
  | valueError
  deriving DecidableEq, Repr

def unixRecvOne : (fuel : Nat) → Nat → Bytes → List (Option Bytes) →
    RecvOut × Bytes × List (Option Bytes)
  | 0, _, p, sc => (.eos, p, sc)
  | fuel + 1, n, p, sc =>
    if p ≠ [] then (.data (p.take n), p.drop n, sc)
    else match sc with
      | [] => (.eos, [], [])
      | none :: sc' => unixRecvOne fuel n [] sc'
      | some c :: sc' =>
        if c = [] then (.eos, [], sc') else (.data (c.take n), c.drop n, sc')

/-- a sequence of `receive(n)` calls -/
def unixRecv : List Nat → Bytes → List (Option Bytes) → List RecvOut
  | [], _, _ => []
  | n :: ns, p, sc =>
    if n < 1 then .valueError :: unixRecv ns p sc
    else
      let r := unixRecvOne (sc.length + 1) n p sc
      r.1 :: unixRecv ns r.2.1 r.2.2

end AnyioModel.Stream.Socket
