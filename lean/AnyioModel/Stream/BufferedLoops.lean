/-
Specifications of the two loops of BufferedByteReceiveStream (`receive_exactly`,
`receive_until`) for every fuel, state and argument, by induction on the fuel; the fuel
`fuel s` chosen by the top-level operations is always sufficient.
-/
import AnyioModel.Stream.BufferedProofs

namespace AnyioModel.Stream.Buffered

/-- state after a wrapped `receive` whose chunk was appended to the buffer -/
abbrev pulled (s1 : State) (c : List Byte) : State := { s1 with buf := s1.buf ++ c }

theorem pulled_pending {s s1 : State} {max : Nat} {c : List Byte}
    (h : srcRecv s max = .ok (c, s1)) : (pulled s1 c).pending = s.pending := by
  obtain ⟨h1, h2, -⟩ := srcRecv_ok h
  simp only [State.pending, State.rest] at *
  rw [h2, h1, List.append_assoc]

theorem pulled_facts {s s1 : State} {max : Nat} {c : List Byte}
    (h : srcRecv s max = .ok (c, s1)) :
    fuel (pulled s1 c) < fuel s ∧ (pulled s1 c).buf = s.buf ++ c ∧ s.closed = false ∧
    (NonemptyChunks s → NonemptyChunks (pulled s1 c)) := by
  obtain ⟨-, h2, -, -, h5, h6⟩ := srcRecv_ok h
  refine ⟨h6, by simp [h2], h5, fun hn => (srcRecv_nonempty h hn).2.1⟩

theorem take_delim_drop {d l : List Byte} {i : Nat} (h : d <+: l.drop i) :
    l.take i ++ (d ++ l.drop (i + d.length)) = l := by
  obtain ⟨t, ht⟩ := h
  have : l.drop (i + d.length) = t := by
    rw [← List.drop_drop, ← ht, List.drop_left]
  rw [this, ht, List.take_append_drop]

/-! ### receive_exactly -/

theorem exactlyLoop_spec : ∀ (f : Nat) (s s' : State) (n : Nat) (r : Res),
    exactlyLoop f s n = (r, s') →
    Moves s s' (handed (.exactly n) r) ∧
    (∀ bs, r = .ok bs → bs.length = n) ∧
    (∀ e, r = .error e →
      (e = .incomplete ∧ s'.chunks = [] ∧ s'.buf.length < n ∧ s.closed = false) ∨
      (e = .closed ∧ s.closed = true) ∨ e = .diverge) ∧
    (fuel s ≤ f → r ≠ .error .diverge) ∧
    (NonemptyChunks s → NonemptyChunks s')
  | 0, s, s', n, r, h => by
    simp only [exactlyLoop] at h
    cases h
    refine ⟨Moves.refl s, fun bs hbs => (by cases hbs), fun e he => ?_, fun hf => ?_, id⟩
    · cases he; exact .inr (.inr rfl)
    · simp [fuel] at hf
  | f + 1, s, s', n, r, h => by
    simp only [exactlyLoop] at h
    split at h
    · rename_i hle
      cases h
      refine ⟨⟨⟨[], by simp [State.rest], by simp [handed]⟩, rfl, rfl⟩, ?_,
        fun e he => (by cases he), fun _ => (by simp), id⟩
      intro bs hbs
      cases hbs
      simp
      omega
    · rename_i hle
      split at h
      · rename_i hr
        cases h
        rcases srcRecv_error hr with ⟨he, -⟩ | ⟨-, hch, hcl⟩
        · cases he
        · refine ⟨Moves.refl s, fun bs hbs => (by cases hbs), fun e he => ?_, fun _ => (by simp), id⟩
          cases he
          exact .inl ⟨rfl, hch, by omega, hcl⟩
      · rename_i e hne hr
        cases h
        rcases srcRecv_error hr with ⟨rfl, hcl⟩ | ⟨rfl, -, -⟩
        · refine ⟨Moves.refl s, fun bs hbs => (by cases hbs), fun e he => ?_, fun _ => (by simp), id⟩
          cases he
          exact .inr (.inl ⟨rfl, hcl⟩)
        · exact absurd rfl hne
      · rename_i c s1 hr
        obtain ⟨ih1, ih2, ih3, ih4, ih5⟩ := exactlyLoop_spec f (pulled s1 c) s' n r h
        obtain ⟨g1, -, g3, g4⟩ := pulled_facts hr
        refine ⟨Moves.after_pull hr ih1, ih2, ?_, fun hf => ih4 (by omega), fun hn => ih5 (g4 hn)⟩
        intro e he
        rcases ih3 e he with ⟨a, b, c', -⟩ | ⟨a, b⟩ | a
        · exact .inl ⟨a, b, c', g3⟩
        · have hcl : (pulled s1 c).closed = s.closed := (srcRecv_ok hr).2.2.1
          rw [hcl] at b
          exact .inr (.inl ⟨a, b⟩)
        · exact .inr (.inr a)

/-! ### receive_until -/

theorem untilLoop_spec : ∀ (f : Nat) (s s' : State) (d : List Byte) (m off : Nat) (r : Res),
    untilLoop f s d m off = (r, s') → (∀ j, j < off → ¬ Occ d s.buf j) →
    Moves s s' (handed (.until d m) r) ∧
    (∀ bs, r = .ok bs → ∃ i, FirstOcc d s.pending i ∧ bs = s.pending.take i ∧
      s'.pending = s.pending.drop (i + d.length)) ∧
    (∀ e, r = .error e →
      (e = .notFound ∧ m ≤ s'.buf.length ∧ ∀ j, ¬ Occ d s'.buf j) ∨
      (e = .incomplete ∧ s'.chunks = [] ∧ s.closed = false ∧ ∀ j, ¬ Occ d s'.buf j) ∨
      (e = .closed ∧ s.closed = true) ∨ e = .diverge) ∧
    (fuel s ≤ f → r ≠ .error .diverge) ∧
    (NonemptyChunks s → NonemptyChunks s')
  | 0, s, s', d, m, off, r, h, _ => by
    simp only [untilLoop] at h
    cases h
    refine ⟨Moves.refl s, fun bs hbs => (by cases hbs), fun e he => ?_, fun hf => ?_, id⟩
    · cases he; exact .inr (.inr (.inr rfl))
    · simp [fuel] at hf
  | f + 1, s, s', d, m, off, r, h, hinv => by
    simp only [untilLoop] at h
    have hfs := find_spec d s.buf off
    split at h
    · rename_i i hfind
      cases h
      obtain ⟨-, hocc, hmin⟩ := hfs.1 i hfind
      have hfirst : FirstOcc d s.buf i := by
        refine ⟨hocc, fun j hj hc => ?_⟩
        by_cases hjo : j < off
        · exact hinv j hjo hc
        · exact hmin j (by omega) hj hc
      have hb := hocc.bound
      refine ⟨⟨⟨[], by simp [State.rest], ?_⟩, rfl, rfl⟩, ?_, fun e he => (by cases he),
        fun _ => (by simp), id⟩
      · simp only [handed, List.append_nil, List.append_assoc]
        exact take_delim_drop hocc.2
      · intro bs hbs
        cases hbs
        refine ⟨i, firstOcc_append hfirst, ?_, ?_⟩
        · simp only [State.pending]
          rw [List.take_append_of_le_length (by omega)]
        · simp only [State.pending]
          rw [List.drop_append_of_le_length (by omega)]
          rfl
    · rename_i hfind
      have hnone : ∀ j, ¬ Occ d s.buf j := by
        intro j hc
        by_cases hjo : j < off
        · exact hinv j hjo hc
        · exact hfs.2 hfind j (by omega) hc
      split at h
      · rename_i hge
        cases h
        refine ⟨Moves.refl s, fun bs hbs => (by cases hbs), fun e he => ?_, fun _ => (by simp), id⟩
        cases he
        exact .inl ⟨rfl, hge, hnone⟩
      · rename_i hlt
        split at h
        · rename_i hr
          cases h
          rcases srcRecv_error hr with ⟨he, -⟩ | ⟨-, hch, hcl⟩
          · cases he
          · refine ⟨Moves.refl s, fun bs hbs => (by cases hbs), fun e he => ?_, fun _ => (by simp), id⟩
            cases he
            exact .inr (.inl ⟨rfl, hch, hcl, hnone⟩)
        · rename_i e hne hr
          cases h
          rcases srcRecv_error hr with ⟨rfl, hcl⟩ | ⟨rfl, -, -⟩
          · refine ⟨Moves.refl s, fun bs hbs => (by cases hbs), fun e he => ?_, fun _ => (by simp), id⟩
            cases he
            exact .inr (.inr (.inl ⟨rfl, hcl⟩))
          · exact absurd rfl hne
        · rename_i c s1 hr
          obtain ⟨g1, g2, g3, g4⟩ := pulled_facts hr
          have hinv' : ∀ j, j < s.buf.length + 1 - d.length → ¬ Occ d (pulled s1 c).buf j := by
            rw [g2]
            exact no_occ_below_offset hnone
          obtain ⟨ih1, ih2, ih3, ih4, ih5⟩ :=
            untilLoop_spec f (pulled s1 c) s' d m _ r h hinv'
          have hp := pulled_pending hr
          refine ⟨Moves.after_pull hr ih1, ?_, ?_, fun hf => ih4 (by omega), fun hn => ih5 (g4 hn)⟩
          · intro bs hbs
            have := ih2 bs hbs
            rwa [hp] at this
          · intro e he
            rcases ih3 e he with a | ⟨a, b, -, c'⟩ | ⟨a, b⟩ | a
            · exact .inl a
            · exact .inr (.inl ⟨a, b, g3, c'⟩)
            · have hcl : (pulled s1 c).closed = s.closed := (srcRecv_ok hr).2.2.1
              rw [hcl] at b
              exact .inr (.inr (.inl ⟨a, b⟩))
            · exact .inr (.inr (.inr a))

/-! ### call sequences -/

/-- bytes pulled out of the wrapped stream between two states -/
def pulledBy (s s' : State) : List Byte := s.rest.take (s.rest.length - s'.rest.length)

/-- the bytes that entered the wrapper during a run, in the order they entered: pulled from
the wrapped stream by a call, or fed by `feed_data` -/
def entered : State → List Call → List Byte
  | _, [] => []
  | s, c :: cs => pulledBy s (call s c).2 ++ fedBy c ++ entered (call s c).2 cs

/-- the part of `entered` that came from the wrapped stream -/
def sourced : State → List Call → List Byte
  | _, [] => []
  | s, c :: cs => pulledBy s (call s c).2 ++ sourced (call s c).2 cs

/-- what the calls handed out (results, plus consumed delimiters), in call order -/
def handedOf : List Call → List Res → List Byte
  | c :: cs, r :: rs => handed c r ++ handedOf cs rs
  | _, _ => []

theorem call_conserves {s s' : State} {c : Call} {r : Res} (h : call s c = (r, s')) :
    ∃ p, s.rest = p ++ s'.rest ∧ handed c r ++ s'.buf = s.buf ++ p ++ fedBy c := by
  cases c with
  | receive n =>
    obtain ⟨p, h1, h2⟩ := (receive_spec h).1.src
    exact ⟨p, h1, by simp [fedBy, h2]⟩
  | exactly n =>
    obtain ⟨p, h1, h2⟩ := (exactlyLoop_spec _ _ _ _ _ h).1.src
    exact ⟨p, h1, by simp [fedBy, h2]⟩
  | «until» d m =>
    obtain ⟨p, h1, h2⟩ := (untilLoop_spec _ _ _ _ _ _ _ h (by simp)).1.src
    exact ⟨p, h1, by simp [fedBy, h2]⟩
  | feed bs =>
    simp only [call] at h
    cases h
    exact ⟨[], by simp [State.rest, feed], by simp [handed, fedBy, feed]⟩
  | close =>
    simp only [call] at h
    cases h
    exact ⟨[], by simp [State.rest, close], by simp [handed, fedBy, close]⟩

theorem pulledBy_eq {s s' : State} {p : List Byte} (h : s.rest = p ++ s'.rest) :
    pulledBy s s' = p := by
  simp [pulledBy, h]

theorem call_nonempty {s s' : State} {c : Call} {r : Res} (h : call s c = (r, s'))
    (hn : NonemptyChunks s) : NonemptyChunks s' := by
  cases c with
  | receive n => exact (receive_spec h).2.2.2.2.2 hn
  | exactly n => exact (exactlyLoop_spec _ _ _ _ _ h).2.2.2.2 hn
  | «until» d m => exact (untilLoop_spec _ _ _ _ _ _ _ h (by simp)).2.2.2.2 hn
  | feed bs => simp only [call] at h; cases h; exact hn
  | close => simp only [call] at h; cases h; exact hn

end AnyioModel.Stream.Buffered
