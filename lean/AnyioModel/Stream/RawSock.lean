/-
Model of the readiness-wait / close mechanism of `_RawSocketMixin` (UNIX socket streams of the
asyncio backend): src/anyio/_backends/_asyncio.py, class `_RawSocketMixin`
(`_wait_until_readable`, `_wait_until_writable`, `aclose`) and the retry loops of
`UNIXSocketStream.receive / send / receive_fds / send_fds`, over an ABSTRACT event loop.

    def _wait_until_readable(self, loop):
        def callback(f):
            del self._receive_future
            if not self._closing:                      # <- only since afa90d6 (`fixed`)
                loop.remove_reader(self.__raw_socket)
        f = self._receive_future = asyncio.Future()
        loop.add_reader(self.__raw_socket, f.set_result, None)
        f.add_done_callback(callback)
        return f

    async def aclose(self):
        if not self._closing:
            self._closing = True
            if self.__raw_socket.fileno() != -1:
                if self._receive_future is not None:   # <- only since afa90d6 (`fixed`)
                    loop.remove_reader(self.__raw_socket)
                if self._send_future is not None:      # <- only since afa90d6 (`fixed`)
                    loop.remove_writer(self.__raw_socket)
                self.__raw_socket.close()
            if self._receive_future and not self._receive_future.done():
                self._receive_future.set_result(None)
            if self._send_future and not self._send_future.done():
                self._send_future.set_result(None)

    receive():  while True:
                    try: data = self._raw_socket.recv(max_bytes)
                    except BlockingIOError: await self._wait_until_readable(loop)
                    except OSError: raise ClosedResourceError if self._closing else BrokenResourceError
                    else: return data                   (send / *_fds: same shape)

Two parameters (`Cfg`):
* `fixed`      true = the code as it is now; false = the code before commit afa90d6 (defect F13):
               `aclose` closed the socket without removing the registrations and the done
               callbacks always called `remove_reader` / `remove_writer`.
* `deferClose` the loop kind.  true = uvloop-like: `add_reader(sock)` takes an io-reference on the
               socket object, so `sock.close()` only marks the Python object closed while a
               registration exists; the file descriptor stays open (socket calls still give
               BlockingIOError, `fileno()` is still the fd) until the last registration is removed.
               false = the stock selector loop: `close()` closes the descriptor at once and a
               registration that still exists is a stale selector entry for a closed fd.

There is one receiving task (direction `r`) and one sending task (direction `w`); the
`ResourceGuard`s admit one task per direction.  Each direction (`Side`) has
  pc     idle | waiting (suspended in `await f`, f pending) | woken (f done, the task's wake-up is
         in the ready queue) | done outcome
  field  `_receive_future` / `_send_future` (`some k` = the k-th future of this direction)
  gen    number of futures created so far for this direction; the newest one is number `gen`
  fut    state of the newest future: none | pending | resolved | cancelled
  reg    the loop's registration: `some k` = `add_reader(sock, f_k.set_result, None)` is in force
  cb     the done-callback of the newest future was scheduled with `call_soon` and has not run

`Future.set_result` / `cancel` only SCHEDULE the done callbacks (`call_soon`); they run in a later
step (`runCallback`), and because `callback` was added to the future before the task awaited it
and the ready queue is FIFO, `callback` runs before the task's wake-up: `resume d` is enabled only
once `cb` is false.

Events
* `call d block`   a task calls receive() (`d = r`) / send() (`d = w`) and reaches the socket call.
                   `block` is the environment's answer for an open fd: true = BlockingIOError
                   (the task registers and waits), false = the call succeeds.  On a closed fd the
                   call raises OSError -> ClosedResourceError if `_closing` else BrokenResourceError.
                   (`recvBlock = call r true`, `sendBlock = call w true`.)
* `fire d`         the loop fires the registration (`readable` / `writable`): `f.set_result(None)`.
* `runCallback d`  the future's done callback runs.
* `resume d block` the woken task runs: CancelledError if its future was cancelled, else it retries
                   the socket call exactly as in `call`.
* `cancel d`       the scope of the waiting task is cancelled: `f.cancel()`.
* `aclose`         `aclose()` (it has no await: one atomic segment).

Ghost counters: `badRemove` = number of `remove_reader`/`remove_writer` calls made for a file
descriptor that is already closed while the registration still exists (what makes the stock loop
log "Exception in callback ... Bad file descriptor"); `lateRemove` = number of such calls for a
closed descriptor, registration or not (on the stock loop the second one raises
"ValueError: Invalid file descriptor: -1").
-/
import AnyioModel.Util.LTS

namespace AnyioModel.Stream.RawSock

inductive Dir where
  | r
  | w
  deriving DecidableEq, Repr

def Dir.other : Dir → Dir
  | .r => .w
  | .w => .r

inductive Outcome where
  | ok
  | closed        -- ClosedResourceError
  | broken        -- BrokenResourceError
  | cancelled     -- CancelledError
  deriving DecidableEq, Repr

inductive Pc where
  | idle
  | waiting
  | woken
  | done (o : Outcome)
  deriving DecidableEq, Repr

inductive Fut where
  | none
  | pending
  | resolved
  | cancelled
  deriving DecidableEq, Repr

structure Side where
  pc : Pc := .idle
  field : Option Nat := none
  gen : Nat := 0
  fut : Fut := .none
  reg : Option Nat := none
  cb : Bool := false
  deriving DecidableEq, Repr

structure State where
  closing : Bool := false      -- `_closing`
  closed : Bool := false       -- `socket.close()` was called (Python-level flag)
  fdOpen : Bool := true        -- the file descriptor is really open (`fileno() != -1`)
  rd : Side := {}
  wr : Side := {}
  badRemove : Nat := 0
  lateRemove : Nat := 0
  deriving DecidableEq, Repr

structure Cfg where
  fixed : Bool
  deferClose : Bool
  deriving DecidableEq, Repr

inductive Ev where
  | call (d : Dir) (block : Bool)
  | fire (d : Dir)
  | runCallback (d : Dir)
  | resume (d : Dir) (block : Bool)
  | cancel (d : Dir)
  | aclose
  deriving DecidableEq, Repr

abbrev Ev.recvBlock : Ev := .call .r true
abbrev Ev.sendBlock : Ev := .call .w true
abbrev Ev.readable : Ev := .fire .r
abbrev Ev.writable : Ev := .fire .w

inductive Out where
  | env                   -- nothing for the API user to observe
  | blocked               -- the operation suspended in `await f`
  | fin (o : Outcome)     -- the operation ended
  deriving DecidableEq, Repr

def init : State := {}

def State.side (s : State) : Dir → Side
  | .r => s.rd
  | .w => s.wr

def State.setSide (s : State) (d : Dir) (x : Side) : State :=
  match d with
  | .r => { s with rd := x }
  | .w => { s with wr := x }

/-- `loop.remove_reader(sock)` / `loop.remove_writer(sock)`.  Under a deferring loop the removal
of the last registration of a socket object whose `close()` was already called closes the fd. -/
def removeReg (s : State) (d : Dir) : State :=
  let x := s.side d
  let s1 := s.setSide d { x with reg := none }
  { s1 with
    badRemove := if !s.fdOpen && x.reg.isSome then s.badRemove + 1 else s.badRemove
    lateRemove := if !s.fdOpen then s.lateRemove + 1 else s.lateRemove
    fdOpen := if s.closed && x.reg.isSome && (s.side d.other).reg.isNone then false else s.fdOpen }

/-- `sock.close()` -/
def closeSock (c : Cfg) (s : State) : State :=
  { s with closed := true
           fdOpen := s.fdOpen && c.deferClose && (s.rd.reg.isSome || s.wr.reg.isSome) }

/-- `Future.set_result` / `Future.cancel` guarded by `not f.done()`: the callbacks (first
`callback`, then the task's wake-up) are scheduled, nothing runs yet. -/
def settle (x : Side) (f : Fut) : Side :=
  if x.fut = .pending then
    { x with fut := f, cb := true, pc := if x.pc = .waiting then .woken else x.pc }
  else x

/-- one pass of the `while True:` body: the socket call and what follows it -/
def attempt (s : State) (d : Dir) (block : Bool) : State × Out :=
  let x := s.side d
  if s.fdOpen then
    if block then
      -- BlockingIOError: `_wait_until_*`: new future, field, registration, done callback; await
      let k := x.gen + 1
      (s.setSide d { x with pc := .waiting, gen := k, fut := .pending, field := some k,
                            reg := some k, cb := false }, .blocked)
    else
      (s.setSide d { x with pc := .done .ok }, .fin .ok)
  else
    -- OSError (EBADF)
    let o := if s.closing then Outcome.closed else Outcome.broken
    (s.setSide d { x with pc := .done o }, .fin o)

/-- `if self._x_future and not self._x_future.done(): self._x_future.set_result(None)` -/
def wakeIfField (x : Side) : Side :=
  if x.field.isSome then settle x .resolved else x

def doAclose (c : Cfg) (s : State) : State :=
  if s.closing then s
  else
    let s1 := { s with closing := true }
    let s2 :=
      if s1.fdOpen then
        let s3 :=
          if c.fixed then
            let a := if s1.rd.field.isSome then removeReg s1 .r else s1
            if a.wr.field.isSome then removeReg a .w else a
          else s1
        closeSock c s3
      else s1
    { s2 with rd := wakeIfField s2.rd, wr := wakeIfField s2.wr }

def step (c : Cfg) (s : State) : Ev → Option (State × Out)
  | .call d block =>
    match (s.side d).pc with
    | .idle => some (attempt s d block)
    | .done _ => some (attempt s d block)
    | _ => none
  | .fire d =>
    let x := s.side d
    if s.fdOpen = true ∧ x.reg = some x.gen ∧ x.fut = .pending then
      some (s.setSide d (settle x .resolved), .env)
    else none
  | .runCallback d =>
    let x := s.side d
    if x.cb = true then
      let s1 := s.setSide d { x with cb := false, field := none }
      some (if c.fixed && s.closing then s1 else removeReg s1 d, .env)
    else none
  | .resume d block =>
    let x := s.side d
    if x.pc = .woken ∧ x.cb = false then
      if x.fut = .cancelled then
        some (s.setSide d { x with pc := .done .cancelled }, .fin .cancelled)
      else some (attempt s d block)
    else none
  | .cancel d =>
    let x := s.side d
    if x.pc = .waiting ∧ x.fut = .pending then
      some (s.setSide d (settle x .cancelled), .env)
    else none
  | .aclose => some (doAclose c s, .env)

abbrev Reach (c : Cfg) : State → Prop := Reachable (· = init) (step c)

end AnyioModel.Stream.RawSock
