/-
The incremental UTF-8 decoder of the model, fed the UTF-8 encoding (Lean core's
`String.utf8EncodeChar`) of any character sequence byte by byte, emits exactly that sequence
and ends with nothing pending.  Uses core's `ByteArray.utf8DecodeChar?_utf8EncodeChar_append`,
`ByteArray.utf8DecodeChar?_append_eq_some`, `ByteArray.le_size_of_utf8DecodeChar?_eq_some`.
-/
import AnyioModel.Stream.TextCodecs
import AnyioModel.Stream.TextProofs

namespace AnyioModel.Stream.Text

theorem utf8_decode_whole (c : Char) :
    ByteArray.utf8DecodeChar? (String.utf8EncodeChar c).toByteArray 0 = some c := by
  have := ByteArray.utf8DecodeChar?_utf8EncodeChar_append (b := ByteArray.empty) (c := c)
  simpa using this

/-- a proper prefix of a character's encoding does not decode to a character -/
theorem utf8_decode_proper_prefix {c : Char} {q t : List Byte}
    (h : q ++ t = String.utf8EncodeChar c) (ht : t ≠ []) :
    ByteArray.utf8DecodeChar? q.toByteArray 0 = none := by
  cases hq : ByteArray.utf8DecodeChar? q.toByteArray 0 with
  | none => rfl
  | some c' =>
    exfalso
    have h1 := ByteArray.utf8DecodeChar?_append_eq_some hq t.toByteArray
    rw [← List.toByteArray_append, h, utf8_decode_whole] at h1
    cases h1
    have h2 := ByteArray.le_size_of_utf8DecodeChar?_eq_some hq
    have h3 := congrArg List.length h
    rw [String.length_utf8EncodeChar, List.length_append] at h3
    have h4 : 0 < t.length := List.length_pos_iff.2 ht
    simp at h2
    omega

theorem utf8_decode_rest (c : Char) : ∀ (t p : List Byte), p ++ t = String.utf8EncodeChar c →
    t ≠ [] → utf8Decoder.decode p t = some ([], [c])
  | [], _, _, ht => absurd rfl ht
  | b :: t, p, h, _ => by
    have hq : (p ++ [b]) ++ t = String.utf8EncodeChar c := by simpa using h
    by_cases ht : t = []
    · subst ht
      have hw : ByteArray.utf8DecodeChar? (p ++ [b]).toByteArray 0 = some c := by
        rw [List.append_nil] at hq
        rw [hq]; exact utf8_decode_whole c
      simp only [Decoder.decode, utf8Decoder, utf8Step, hw, List.append_nil]
    · have hn := utf8_decode_proper_prefix hq ht
      have hlen : (p ++ [b]).length < 4 := by
        have h3 := congrArg List.length hq
        rw [String.length_utf8EncodeChar, List.length_append] at h3
        have h4 : 0 < t.length := List.length_pos_iff.2 ht
        have := c.utf8Size_le_four
        omega
      have ih := utf8_decode_rest c t (p ++ [b]) hq ht
      simp only [Decoder.decode, utf8Decoder, utf8Step, hn, hlen, if_true]
      simp only [utf8Decoder] at ih
      rw [ih]
      simp

theorem utf8_decode_char (c : Char) :
    utf8Decoder.decode [] (String.utf8EncodeChar c) = some ([], [c]) := by
  apply utf8_decode_rest c _ [] (by simp)
  intro h
  have := congrArg List.length h
  rw [String.length_utf8EncodeChar] at this
  have := c.utf8Size_pos
  simp at *

theorem utf8_decode_encode : ∀ s : List Char,
    utf8Decoder.decode [] (s.flatMap String.utf8EncodeChar) = some ([], s)
  | [] => rfl
  | c :: s => by
    rw [List.flatMap_cons]
    have := utf8Decoder.decode_append_some (utf8_decode_char c) (utf8_decode_encode s)
    simpa using this

theorem flatten_map_flatMap {α β : Type} (f : α → List β) : ∀ items : List (List α),
    (items.map (fun s => s.flatMap f)).flatten = items.flatten.flatMap f
  | [] => rfl
  | a :: l => by simp [List.flatMap_append, flatten_map_flatMap f l]

/-- the model's encoder is Lean core's UTF-8 encoder -/
theorem utf8Encoder_eq_core (s : List Char) :
    (s.flatMap String.utf8EncodeChar).toByteArray = s.utf8Encode := by
  simp [List.utf8Encode]

end AnyioModel.Stream.Text
