/-
Chunking transparency of `TextReceiveStream.receive` over an arbitrary incremental decoder.
-/
import AnyioModel.Stream.Text

namespace AnyioModel.Stream.Text

variable {σ χ : Type}

/-- the fold law: decoding `a ++ b` is decoding `a`, then `b` from the state reached -/
theorem Decoder.decode_append (D : Decoder σ χ) : ∀ (st : σ) (a b : List Byte),
    D.decode st (a ++ b) =
      match D.decode st a with
      | none => none
      | some (s1, o1) =>
        match D.decode s1 b with
        | none => none
        | some (s2, o2) => some (s2, o1 ++ o2)
  | st, [], b => by
    simp only [List.nil_append, Decoder.decode]
    cases D.decode st b with
    | none => rfl
    | some v => simp
  | st, x :: a, b => by
    simp only [List.cons_append, Decoder.decode]
    cases D.step st x with
    | none => rfl
    | some v =>
      obtain ⟨s1, o1⟩ := v
      simp only
      rw [Decoder.decode_append D s1 a b]
      cases D.decode s1 a with
      | none => rfl
      | some w =>
        obtain ⟨s2, o2⟩ := w
        simp only
        cases D.decode s2 b with
        | none => rfl
        | some u => simp [List.append_assoc]

theorem Decoder.decode_append_some (D : Decoder σ χ) {st s1 s2 : σ} {a b : List Byte}
    {o1 o2 : List χ} (h1 : D.decode st a = some (s1, o1)) (h2 : D.decode s1 b = some (s2, o2)) :
    D.decode st (a ++ b) = some (s2, o1 ++ o2) := by
  rw [D.decode_append, h1]; simp only; rw [h2]

/-- if the whole decodes, so does every prefix, and the rest decodes from the state reached -/
theorem Decoder.decode_split (D : Decoder σ χ) {st sf : σ} {a b : List Byte} {out : List χ}
    (h : D.decode st (a ++ b) = some (sf, out)) :
    ∃ s1 o1 o2, D.decode st a = some (s1, o1) ∧ D.decode s1 b = some (sf, o2) ∧ out = o1 ++ o2 := by
  rw [D.decode_append] at h
  cases h1 : D.decode st a with
  | none => simp [h1] at h
  | some v =>
    obtain ⟨s1, o1⟩ := v
    simp only [h1] at h
    cases h2 : D.decode s1 b with
    | none => simp [h2] at h
    | some w =>
      obtain ⟨s2, o2⟩ := w
      simp only [h2, Option.some.injEq, Prod.mk.injEq] at h
      obtain ⟨rfl, rfl⟩ := h
      exact ⟨s1, o1, o2, rfl, h2, rfl⟩

/-- one `receive()`: it consumed a non-empty group `used` of chunks whose concatenation decodes,
from the decoder state before, to exactly the non-empty string returned -/
theorem receive_spec (D : Decoder σ χ) : ∀ (st : σ) (cs : List (List Byte)),
    (∀ out, (receive D st cs).1 = .ok out → out ≠ [] ∧ ∃ used, used ≠ [] ∧
      cs = used ++ (receive D st cs).2.chunks ∧
      D.decode st used.flatten = some ((receive D st cs).2.dec, out)) ∧
    ((receive D st cs).1 = .error .eos →
      D.decode st cs.flatten = some ((receive D st cs).2.dec, [])) ∧
    ((receive D st cs).1 = .error .decode → D.decode st cs.flatten = none) ∧
    (receive D st cs).1 ≠ .error .encode
  | st, [] => by simp [receive, Decoder.decode]
  | st, c :: cs => by
    simp only [receive]
    cases hc : D.decode st c with
    | none =>
      simp only [List.flatten_cons]
      refine ⟨by simp, by simp, fun _ => ?_, by simp⟩
      rw [D.decode_append, hc]
    | some v =>
      obtain ⟨st', out⟩ := v
      simp only
      by_cases ho : out = []
      · subst ho
        simp only [ne_eq, not_true_eq_false, if_false]
        obtain ⟨ih1, ih2, ih3, ih4⟩ := receive_spec D st' cs
        refine ⟨fun o h => ?_, fun h => ?_, fun h => ?_, ih4⟩
        · obtain ⟨hne, used, hu, hcs, hdec⟩ := ih1 o h
          refine ⟨hne, c :: used, by simp, by rw [List.cons_append, ← hcs], ?_⟩
          rw [List.flatten_cons, D.decode_append_some hc hdec, List.nil_append]
        · rw [List.flatten_cons, D.decode_append_some hc (ih2 h), List.nil_append]
        · rw [List.flatten_cons, D.decode_append, hc]
          simp only
          rw [ih3 h]
      · simp only [ne_eq, ho, not_false_eq_true, if_true]
        refine ⟨fun o h => ?_, by simp, by simp, by simp⟩
        cases h
        exact ⟨ho, [c], by simp, by simp, by simpa using hc⟩

/-- Calling `receive()` until it raises: if the concatenation of the chunks decodes (from the
current decoder state) to `out`, then the calls return non-empty strings whose concatenation is
`out`, and the sequence ends with `EndOfStream` - whatever the chunk boundaries are. -/
theorem receiveAllAux_spec (D : Decoder σ χ) : ∀ (f : Nat) (st sf : σ) (cs : List (List Byte))
    (out : List χ), D.decode st cs.flatten = some (sf, out) → cs.length < f →
    ∃ outs, receiveAllAux D f st cs = (outs, .eos) ∧ outs.flatten = out ∧ ∀ o ∈ outs, o ≠ []
  | 0, _, _, _, _, _, hf => by omega
  | f + 1, st, sf, cs, out, hd, hf => by
    obtain ⟨h1, h2, h3, h4⟩ := receive_spec D st cs
    simp only [receiveAllAux]
    cases hr : receive D st cs with
    | mk r s' =>
      rw [hr] at h1 h2 h3 h4
      cases r with
      | error e =>
        simp only
        cases e with
        | eos =>
          have := h2 rfl
          rw [hd] at this
          simp only [Option.some.injEq, Prod.mk.injEq] at this
          exact ⟨[], rfl, by simp [this.2], by simp⟩
        | decode =>
          have := h3 rfl
          rw [hd] at this
          cases this
        | encode => exact absurd rfl h4
      | ok o =>
        simp only
        obtain ⟨hne, used, hu, hcs, hdec⟩ := h1 o rfl
        have hd' := hd
        rw [hcs, List.flatten_append] at hd'
        obtain ⟨s1, o1, o2, g1, g2, g3⟩ := D.decode_split hd'
        rw [hdec] at g1
        simp only [Option.some.injEq, Prod.mk.injEq] at g1
        obtain ⟨rfl, rfl⟩ := g1
        have hlen : s'.chunks.length < f := by
          have := congrArg List.length hcs
          have hul : 0 < used.length := List.length_pos_iff.2 hu
          simp at this
          omega
        obtain ⟨outs, ih1, ih2, ih3⟩ := receiveAllAux_spec D f s'.dec sf s'.chunks o2 g2 hlen
        rw [ih1]
        refine ⟨o :: outs, rfl, by simp [ih2, g3], ?_⟩
        intro x hx
        simp only [List.mem_cons] at hx
        rcases hx with rfl | hx
        · exact hne
        · exact ih3 x hx

/-- A malformed input is reported as a decode error however it is chunked. -/
theorem receiveAllAux_error (D : Decoder σ χ) : ∀ (f : Nat) (st : σ) (cs : List (List Byte)),
    D.decode st cs.flatten = none → cs.length < f → (receiveAllAux D f st cs).2 = .decode
  | 0, _, _, _, hf => by omega
  | f + 1, st, cs, hd, hf => by
    obtain ⟨h1, h2, h3, h4⟩ := receive_spec D st cs
    simp only [receiveAllAux]
    cases hr : receive D st cs with
    | mk r s' =>
      rw [hr] at h1 h2 h3 h4
      cases r with
      | error e =>
        simp only
        cases e with
        | eos =>
          have := h2 rfl
          rw [hd] at this
          cases this
        | decode => rfl
        | encode => exact absurd rfl h4
      | ok o =>
        simp only
        obtain ⟨hne, used, hu, hcs, hdec⟩ := h1 o rfl
        have hd' := hd
        rw [hcs, List.flatten_append, D.decode_append, hdec] at hd'
        simp only at hd'
        have g2 : D.decode s'.dec s'.chunks.flatten = none := by
          cases hx : D.decode s'.dec s'.chunks.flatten with
          | none => rfl
          | some v => rw [hx] at hd'; cases hd'
        have hlen : s'.chunks.length < f := by
          have := congrArg List.length hcs
          have hul : 0 < used.length := List.length_pos_iff.2 hu
          simp at this
          omega
        exact receiveAllAux_error D f s'.dec s'.chunks g2 hlen

/-- the transport chunks written by `sendAll`, when no item fails to encode -/
theorem sendAll_stateless {τ : Type} (E : Encoder τ χ) (enc : List χ → List Byte)
    (h : ∀ st s, ∃ st', E.encode st s = some (st', enc s)) :
    ∀ (st : τ) (items : List (List χ)), sendAll E st items = (items.map enc, none)
  | _, [] => rfl
  | st, item :: items => by
    obtain ⟨st', he⟩ := h st item
    simp only [sendAll, he, sendAll_stateless E enc h st' items, List.map_cons]

end AnyioModel.Stream.Text
