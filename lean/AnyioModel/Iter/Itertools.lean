/-
Model of `anyio.itertools` (src/anyio/itertools.py) over finite element sequences.

For every function `f` of the module there are two definitions:

* `impl_f`  follows AnyIO's control flow.  A source iterator is the list of the elements it
  will still produce; `await anext(iterator)` is a pattern match on that list (`[]` =
  `StopAsyncIteration`).  The adaptor `_iterate` (sync iterable / async iterable / async
  iterator -> async iterator) is the identity on the element sequence, so one model covers
  both kinds of source.  `while True` loops are structural recursions on the source (or carry a
  fuel that is shown to suffice in the proofs); every `await checkpoint()` is dropped (it
  produces no element and raises nothing when nobody cancels).  The result is
  `Except ErrKind (List β)`: the list of yielded values, or the class of the exception.
* `spec_f`  the textbook definition of the standard-library function, written with core
  `List` combinators (`take`, `drop`, `zip`, `filter`, `takeWhile`, `flatten`, `scanl`, `range`
  + indexing), including the argument validation CPython performs.

The generators that are infinite (`count`, `cycle`, `repeat` without `times`) are modelled
under a bound `take n` (the first `n` elements the consumer pulls).

`combinations`, `combinations_with_replacement`, `permutations` and `product` collect their
input into pools and delegate to the standard library; they take that stdlib function as a
parameter `std`.  `std_*` at the end of the file are reference definitions of these four, used
only by the driver (the harness compares them with CPython's), never by a theorem.

Not modelled: `sys.maxsize` upper bounds of `islice`, arguments of types other than
`int`/`None`, callbacks that raise, cancellation.
-/
namespace AnyioModel.Iter

inductive ErrKind where
  | typeError
  | valueError
  deriving DecidableEq, Repr

abbrev Res (β : Type) := Except ErrKind (List β)

deriving instance DecidableEq for Except

section
variable {α β κ : Type}

/-! ### accumulate -/

/-- `async for element in iterator: total = await function(total, element); yield total` -/
def accLoop (f : α → α → α) (total : α) : List α → List α
  | [] => []
  | x :: xs => f total x :: accLoop f (f total x) xs

def impl_accumulate (f : α → α → α) (initial : Option α) (xs : List α) : Res α :=
  match initial with
  | none =>
    match xs with
    | [] => .ok []                          -- StopAsyncIteration on the first anext: return
    | x :: rest => .ok (x :: accLoop f x rest)
  | some i => .ok (i :: accLoop f i xs)

/-- running left folds (`scanl`) seeded with `initial`, or with the first element -/
def spec_accumulate (f : α → α → α) (initial : Option α) (xs : List α) : Res α :=
  match initial.toList ++ xs with
  | [] => .ok []
  | y :: ys => .ok (List.scanl f y ys)

/-! ### batched -/

/-- the inner `for _ in range(n)`: returns (batch, rest of the source, source ended) -/
def fillBatch : Nat → List α → List α → List α × List α × Bool
  | 0, batch, xs => (batch, xs, false)
  | _ + 1, batch, [] => (batch, [], true)
  | k + 1, batch, x :: xs => fillBatch k (batch ++ [x]) xs

/-- the outer `while True` (fuel: one iteration per batch) -/
def batchedLoop (n : Nat) (strict : Bool) : Nat → List α → Except ErrKind (List (List α))
  | 0, _ => .ok []
  | fuel + 1, xs =>
    match fillBatch n [] xs with
    | (batch, _, true) =>
      if batch.isEmpty then .ok []
      else if strict then .error .valueError
      else .ok [batch]
    | (batch, rest, false) => (batchedLoop n strict fuel rest).map (batch :: ·)

/-- `n = none` stands for Python `None` (`None < 1` raises TypeError) -/
def impl_batched (n : Option Int) (strict : Bool) (xs : List α) : Res (List α) :=
  match n with
  | none => .error .typeError
  | some n =>
    if n < 1 then .error .valueError
    else batchedLoop n.toNat strict (xs.length + 1) xs

/-- batch `i` is `xs[i*n : (i+1)*n]`, there are `ceil(len/n)` batches; with `strict` a length
that is not a multiple of `n` is a ValueError -/
def spec_batched (n : Option Int) (strict : Bool) (xs : List α) : Res (List α) :=
  match n with
  | none => .error .typeError
  | some n =>
    if n ≤ 0 then .error .valueError
    else
      let m := n.toNat
      if strict ∧ xs.length % m ≠ 0 then .error .valueError
      else .ok ((List.range ((xs.length + m - 1) / m)).map fun i => (xs.drop (i * m)).take m)

/-! ### chain, chain.from_iterable -/

/-- `async for element in _iterate(iterable): yield element`, then the rest -/
def chainInner (rest : List α) : List α → List α
  | [] => rest
  | x :: xs => x :: chainInner rest xs

def chainLoop : List (List α) → List α
  | [] => []
  | xs :: xss => chainInner (chainLoop xss) xs

def impl_chain_from_iterable (xss : List (List α)) : Res α := .ok (chainLoop xss)
/-- `Chain.__call__(*iterables)` is `self.from_iterable(iterables)` -/
def impl_chain (xss : List (List α)) : Res α := impl_chain_from_iterable xss

def spec_chain_from_iterable (xss : List (List α)) : Res α := .ok xss.flatten
def spec_chain (xss : List (List α)) : Res α := .ok xss.flatten

/-! ### combinatorics: collect the pool, delegate -/

/-- `[element async for element in _iterate(iterable)]` -/
def collect : List α → List α
  | [] => []
  | x :: xs => x :: collect xs

def impl_combinations (std : List α → Option Int → Res (List α)) (r : Option Int)
    (xs : List α) : Res (List α) := std (collect xs) r
def spec_combinations (std : List α → Option Int → Res (List α)) (r : Option Int)
    (xs : List α) : Res (List α) := std xs r

def impl_combinations_with_replacement (std : List α → Option Int → Res (List α))
    (r : Option Int) (xs : List α) : Res (List α) := std (collect xs) r
def spec_combinations_with_replacement (std : List α → Option Int → Res (List α))
    (r : Option Int) (xs : List α) : Res (List α) := std xs r

/-- `permutations` validates `r` itself before delegating -/
def impl_permutations (std : List α → Option Int → Res (List α)) (r : Option Int)
    (xs : List α) : Res (List α) :=
  let pool := collect xs
  match r with
  | none => std pool (some (pool.length : Int))
  | some r => if r < 0 then .error .valueError else std pool (some r)
def spec_permutations (std : List α → Option Int → Res (List α)) (r : Option Int)
    (xs : List α) : Res (List α) := std xs r

/-- `repeat = operator.index(repeat)` (TypeError for None), negative -> ValueError, then the
pools are collected and handed to `itertools.product` -/
def impl_product (std : List (List α) → Option Int → Res (List α)) (rep : Option Int)
    (xss : List (List α)) : Res (List α) :=
  match rep with
  | none => .error .typeError
  | some r => if r < 0 then .error .valueError else std (xss.map collect) (some r)
def spec_product (std : List (List α) → Option Int → Res (List α)) (rep : Option Int)
    (xss : List (List α)) : Res (List α) := std xss rep

/-! ### compress -/

/-- `datum = await anext(data)`, `selector = await anext(selectors)`, either ending stops -/
def compressLoop : List α → List Bool → List α
  | [], _ => []
  | _ :: _, [] => []
  | d :: ds, s :: ss => if s then d :: compressLoop ds ss else compressLoop ds ss

def impl_compress (ds : List α) (ss : List Bool) : Res α := .ok (compressLoop ds ss)
def spec_compress (ds : List α) (ss : List Bool) : Res α :=
  .ok (((ds.zip ss).filter (·.2)).map (·.1))

/-! ### count / cycle / repeat under `take n` -/

def countLoop (step : Int) : Nat → Int → List Int
  | 0, _ => []
  | k + 1, n => n :: countLoop step k (n + step)      -- value = n; n += step; yield value

def impl_count (take : Nat) (start step : Int) : Res Int := .ok (countLoop step take start)
def spec_count (take : Nat) (start step : Int) : Res Int :=
  .ok ((List.range take).map fun (i : Nat) => start + (i : Int) * step)

/-- first pass: yield and save; `fuel` = elements the consumer still pulls -/
def cycleFirst : Nat → List α → List α → List α × Nat × List α × Bool
  | 0, _, saved => ([], 0, saved, false)
  | k + 1, [], saved => ([], k + 1, saved, true)
  | k + 1, x :: xs, saved =>
    let (out, k', saved', done) := cycleFirst k xs (saved ++ [x])
    (x :: out, k', saved', done)

/-- `while True: for element in saved: yield element`; `cur` = rest of the current `for` -/
def cycleRest (saved : List α) : Nat → List α → List α
  | 0, _ => []
  | k + 1, x :: cur => x :: cycleRest saved k cur
  | k + 1, [] =>
    match saved with
    | [] => []
    | s :: ss => s :: cycleRest saved k ss

def impl_cycle (take : Nat) (xs : List α) : Res α :=
  let (out, k, saved, done) := cycleFirst take xs []
  if !done then .ok out
  else if saved.isEmpty then .ok out            -- `if not saved: return`
  else .ok (out ++ cycleRest saved k [])

/-- the first `take` elements of `xs` repeated over and over -/
def spec_cycle (take : Nat) (xs : List α) : Res α :=
  .ok ((List.replicate take xs).flatten.take take)

def repeatLoop (x : α) : Nat → Nat → List α
  | 0, _ => []
  | _ + 1, 0 => []                                 -- `while remaining > 0` fails
  | k + 1, rem + 1 => x :: repeatLoop x k rem

def impl_repeat (take : Nat) (x : α) (times : Option Int) : Res α :=
  match times with
  | none => .ok (List.replicate take x)            -- `while True: yield element`, cut at `take`
  | some t => if t ≤ 0 then .ok [] else .ok (repeatLoop x take t.toNat)
def spec_repeat (take : Nat) (x : α) (times : Option Int) : Res α :=
  .ok (List.replicate (match times with | none => take | some t => min take t.toNat) x)

/-! ### dropwhile / filterfalse / takewhile -/

def dropwhileLoop (p : α → Bool) : Bool → List α → List α
  | _, [] => []
  | dropping, x :: xs =>
    if dropping && p x then dropwhileLoop p true xs      -- continue
    else x :: dropwhileLoop p false xs                    -- dropping = False; yield

def impl_dropwhile (p : α → Bool) (xs : List α) : Res α := .ok (dropwhileLoop p true xs)
def spec_dropwhile (p : α → Bool) (xs : List α) : Res α := .ok (xs.dropWhile p)

def filterfalseLoop (p : α → Bool) : List α → List α
  | [] => []
  | x :: xs => if !p x then x :: filterfalseLoop p xs else filterfalseLoop p xs

def impl_filterfalse (p : α → Bool) (xs : List α) : Res α := .ok (filterfalseLoop p xs)
def spec_filterfalse (p : α → Bool) (xs : List α) : Res α := .ok (xs.filter fun x => !p x)

def takewhileLoop (p : α → Bool) : List α → List α
  | [] => []
  | x :: xs => if !p x then [] else x :: takewhileLoop p xs

def impl_takewhile (p : α → Bool) (xs : List α) : Res α := .ok (takewhileLoop p xs)
def spec_takewhile (p : α → Bool) (xs : List α) : Res α := .ok (xs.takeWhile p)

/-! ### groupby -/

/-- the carry `(group_key, values)`; a key change emits the completed group -/
def groupbyLoop [DecidableEq κ] (key : α → κ) (gk : κ) (values : List α) :
    List α → List (κ × List α)
  | [] => [(gk, values)]
  | x :: xs =>
    if key x ≠ gk then (gk, values) :: groupbyLoop key (key x) [x] xs
    else groupbyLoop key gk (values ++ [x]) xs

/-- `key = None` is `key := id` (with `κ := α`) -/
def impl_groupby [DecidableEq κ] (key : α → κ) (xs : List α) : Res (κ × List α) :=
  match xs with
  | [] => .ok []
  | x :: rest => .ok (groupbyLoop key (key x) [x] rest)

/-- maximal runs of equal keys (`span`-based, as Haskell's `groupBy`) -/
def groupRuns [DecidableEq κ] (key : α → κ) : List α → List (κ × List α)
  | [] => []
  | x :: xs =>
    (key x, x :: xs.takeWhile (fun y => key y = key x)) ::
      groupRuns key (xs.dropWhile (fun y => key y = key x))
termination_by xs => xs.length
decreasing_by
  simp only [List.length_cons]
  have := (List.dropWhile_sublist (l := xs) (fun y => decide (key y = key x))).length_le
  omega

def spec_groupby [DecidableEq κ] (key : α → κ) (xs : List α) : Res (κ × List α) :=
  .ok (groupRuns key xs)

/-! ### islice -/

/-- `slice(*args)` for one to three positional arguments -/
def sliceArgs : List (Option Int) → Option (Option Int × Option Int × Option Int)
  | [b] => some (none, b, none)
  | [a, b] => some (a, b, none)
  | [a, b, c] => some (a, b, c)
  | _ => none

/-- `normalize_index` (all three messages are ValueError) -/
def normalizeIndex (v : Int) : Except ErrKind Nat :=
  if v < 0 then .error .valueError else .ok v.toNat

/-- `while stop is None or index < stop:` with `index` counting consumed elements -/
def isliceLoop (start : Nat) (stop : Option Nat) (step : Nat) : Nat → List α → List α
  | i, xs =>
    if (match stop with | none => true | some s => decide (i < s)) then
      match xs with
      | [] => []
      | x :: rest =>
        if start ≤ i ∧ (i - start) % step = 0 then x :: isliceLoop start stop step (i + 1) rest
        else isliceLoop start stop step (i + 1) rest
    else []

/-- after the three indices are normalised: the step check, the empty-range shortcut, the loop -/
def isliceRun (start : Nat) (stop : Option Nat) (step : Nat) (xs : List α) :
    Except ErrKind (List α) :=
  if step ≤ 0 then .error .valueError
  else if stop = some 0 ∨ some start = stop then .ok []
  else .ok (isliceLoop start stop step 0 xs)

/-- the body of `islice` once `slice(*args)` has split the arguments -/
def isliceCore (a b c : Option Int) (xs : List α) : Except ErrKind (List α) := do
  let start ← match a with | none => pure 0 | some v => normalizeIndex v
  let stop ← match b with | none => pure none | some v => (normalizeIndex v).map some
  let step ← match c with | none => pure 1 | some v => normalizeIndex v
  isliceRun start stop step xs

def impl_islice (args : List (Option Int)) (xs : List α) : Res α :=
  if args.length = 0 then .error .typeError
  else if args.length > 3 then .error .typeError
  else
    match sliceArgs args with
    | none => .error .typeError       -- not reachable: 1 <= len(args) <= 3
    | some (a, b, c) => isliceCore a b c xs

/-- every `k`-th element, starting with the first -/
def everyNth (k : Nat) (ys : List α) : List α :=
  (ys.zipIdx.filter fun p => p.2 % k = 0).map (·.1)

def takeOpt (stop : Option Nat) (xs : List α) : List α :=
  match stop with
  | none => xs
  | some s => xs.take s

/-- `xs[start:stop:step]` with CPython's validation: start/stop `None` or `>= 0`, step `None`
or `>= 1`, else ValueError -/
def specSlice (a b c : Option Int) (xs : List α) : Res α :=
  if a.any (· < 0) ∨ b.any (· < 0) then .error .valueError
  else if c.any (· < 1) then .error .valueError
  else .ok (everyNth (c.getD 1).toNat ((takeOpt (b.map Int.toNat) xs).drop (a.getD 0).toNat))

def spec_islice (args : List (Option Int)) (xs : List α) : Res α :=
  match args with
  | [] => .error .typeError
  | [b] => specSlice none b none xs
  | [a, b] => specSlice a b none xs
  | [a, b, c] => specSlice a b c xs
  | _ :: _ :: _ :: _ :: _ => .error .typeError

/-! ### pairwise -/

def pairwiseLoop (previous : α) : List α → List (α × α)
  | [] => []
  | x :: xs => (previous, x) :: pairwiseLoop x xs

def impl_pairwise (xs : List α) : Res (α × α) :=
  match xs with
  | [] => .ok []
  | x :: rest => .ok (pairwiseLoop x rest)
def spec_pairwise (xs : List α) : Res (α × α) := .ok (xs.zip xs.tail)

/-! ### starmap -/

def starmapLoop (f : List α → β) : List (List α) → List β
  | [] => []
  | args :: rest => f (collect args) :: starmapLoop f rest

def impl_starmap (f : List α → β) (xss : List (List α)) : Res β := .ok (starmapLoop f xss)
def spec_starmap (f : List α → β) (xss : List (List α)) : Res β := .ok (xss.map f)

/-! ### zip_longest -/

/-- one pass of `for index, iterator in enumerate(iterators)`.  An iterator is
`(active, elements left)`.  `none` = the last active iterator ended: `return`.  Otherwise the
tuple of values, the iterators after the pass and `num_active`. -/
def zlRound (fill : α) : List (Bool × List α) → Nat →
    Option (List α × List (Bool × List α) × Nat)
  | [], na => some ([], [], na)
  | (false, r) :: its, na =>
    (zlRound fill its na).map fun (v, d, n) => (fill :: v, (false, r) :: d, n)
  | (true, []) :: its, na =>
    if na - 1 = 0 then none
    else (zlRound fill its (na - 1)).map fun (v, d, n) => (fill :: v, (false, []) :: d, n)
  | (true, x :: r) :: its, na =>
    (zlRound fill its na).map fun (v, d, n) => (x :: v, (true, r) :: d, n)

def zlLoop (fill : α) : Nat → List (Bool × List α) → Nat → List (List α)
  | 0, _, _ => []
  | fuel + 1, its, na =>
    match zlRound fill its na with
    | none => []
    | some (vals, its', na') => vals :: zlLoop fill fuel its' na'

def maxLen : List (List α) → Nat
  | [] => 0
  | xs :: xss => max xs.length (maxLen xss)

def impl_zip_longest (fill : α) (xss : List (List α)) : Res (List α) :=
  if xss.length = 0 then .ok []
  else .ok (zlLoop fill (maxLen xss + 1) (xss.map fun xs => (true, xs)) xss.length)

/-- row `i` holds the `i`-th element of every input, `fill` where the input is shorter; as
many rows as the longest input has elements -/
def spec_zip_longest (fill : α) (xss : List (List α)) : Res (List α) :=
  .ok ((List.range (maxLen xss)).map fun i => xss.map fun xs => xs.getD i fill)

end

/-! ### reference definitions of the delegated stdlib functions (driver only) -/

section
variable {α : Type}

def combs : Nat → List α → List (List α)
  | 0, _ => [[]]
  | _ + 1, [] => []
  | k + 1, x :: xs => (combs k xs).map (x :: ·) ++ combs (k + 1) xs

def cwrs : Nat → Nat → List α → List (List α)   -- fuel, r, pool
  | 0, _, _ => []
  | _ + 1, 0, _ => [[]]
  | _ + 1, _ + 1, [] => []
  | f + 1, k + 1, x :: xs => (cwrs f k (x :: xs)).map (x :: ·) ++ cwrs f (k + 1) xs

def perms : Nat → List α → List (List α)
  | 0, _ => [[]]
  | k + 1, xs =>
    (List.range xs.length).flatMap fun i =>
      match xs[i]? with
      | none => []
      | some x => (perms k (xs.eraseIdx i)).map (x :: ·)

def cart : List (List α) → List (List α)
  | [] => [[]]
  | p :: ps => p.flatMap fun x => (cart ps).map (x :: ·)

def rArg (r : Option Int) (k : Nat → Res (List α)) : Res (List α) :=
  match r with
  | none => .error .typeError
  | some r => if r < 0 then .error .valueError else k r.toNat

def std_combinations (pool : List α) (r : Option Int) : Res (List α) :=
  rArg r fun k => .ok (combs k pool)
def std_combinations_with_replacement (pool : List α) (r : Option Int) : Res (List α) :=
  rArg r fun k => .ok (cwrs (k + pool.length + 1) k pool)
/-- `itertools.permutations(pool, None)` uses `r = len(pool)` -/
def std_permutations (pool : List α) (r : Option Int) : Res (List α) :=
  match r with
  | none => .ok (perms pool.length pool)
  | some r => if r < 0 then .error .valueError else .ok (perms r.toNat pool)
def std_product (pools : List (List α)) (r : Option Int) : Res (List α) :=
  rArg r fun k => .ok (cart (List.replicate k pools).flatten)

end
end AnyioModel.Iter
