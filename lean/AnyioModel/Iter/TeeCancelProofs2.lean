/-
Tee with cancellation: the data invariant `DCore` (what the links, the consumers' cursors and the
ghost histories have to do with the source sequence) and its preservation by the atomic data
transitions of the model.  `DCore` takes the suspension points `pc`, the element in the hands of
the synchronous adaptor `hl` and the number of pending source invocations `fl` as parameters, so
that the composite steps (store, release, rest of `__anext__`) can be chained.
-/
import AnyioModel.Iter.TeeCancelProofs
namespace AnyioModel.Iter.TeeCancel
variable {α : Type}

def endMark (b : Bool) : List (Option α) := if b then [none] else []

@[simp] theorem endMark_true : (endMark true : List (Option α)) = [none] := rfl
@[simp] theorem endMark_false : (endMark false : List (Option α)) = [] := rfl

/-! ### list facts -/

theorem somes_prefix {g C : List α} {t : List (Option α)} {b : Bool}
    (h : g.map some ++ t = C.map some ++ endMark b) : ∃ u, C = g ++ u := by
  induction g generalizing C with
  | nil => exact ⟨C, rfl⟩
  | cons a g ih =>
    cases C with
    | nil => cases b <;> simp at h
    | cons c C =>
      simp only [List.map_cons, List.cons_append, List.cons.injEq, Option.some.injEq] at h
      obtain ⟨u, hu⟩ := ih h.2
      exact ⟨u, by rw [h.1, hu]; rfl⟩

theorem somes_none {g C : List α} {u : List (Option α)} {b : Bool}
    (h : g.map some ++ none :: u = C.map some ++ endMark b) : C = g ∧ b = true ∧ u = [] := by
  induction g generalizing C with
  | nil =>
    cases C with
    | nil => cases b <;> simp at h; exact ⟨rfl, rfl, h⟩
    | cons c C => simp at h
  | cons a g ih =>
    cases C with
    | nil => cases b <;> simp at h
    | cons c C =>
      simp only [List.map_cons, List.cons_append, List.cons.injEq, Option.some.injEq] at h
      obtain ⟨h1, h2, h3⟩ := ih h.2
      exact ⟨by rw [h.1, h1], h2, h3⟩

theorem somes_all {g C : List α} {b : Bool}
    (h : g.map some = C.map some ++ endMark b) : C = g ∧ b = false := by
  induction g generalizing C with
  | nil =>
    cases C with
    | nil => cases b <;> simp at h; exact ⟨rfl, rfl⟩
    | cons c C => simp at h
  | cons a g ih =>
    cases C with
    | nil => cases b <;> simp at h
    | cons c C =>
      simp only [List.map_cons, List.cons_append, List.cons.injEq, Option.some.injEq] at h
      obtain ⟨h1, h2⟩ := ih h.2
      exact ⟨by rw [h.1, h1], h2⟩

theorem take_succ_of_get {β : Type} {c : List β} {k : Nat} {v : β} (h : c[k]? = some v) :
    c.take (k + 1) = c.take k ++ [v] := by
  rw [List.take_add_one, h]; rfl

theorem get_lt {β : Type} {c : List β} {k : Nat} {v : β} (h : c[k]? = some v) : k < c.length :=
  (List.getElem?_eq_some_iff.mp h).1

/-! ### the data invariant -/

/-- one suspension point may stand for another as far as `DCore` is concerned -/
def PcLe (p' p : Pc α) : Prop :=
  pend p' = pend p ∧ (p'.inSrc = true → p.inSrc = true) ∧ (p'.isEndck = true → p.isEndck = true)

theorem PcLe.rfl {p : Pc α} : PcLe p p := ⟨Eq.refl _, id, id⟩

structure DCore (xs : List α) (s : State α) (pc : Nat → Pc α) (hl : List (Option α)) (fl : Nat) :
    Prop where
  src_ok : s.consumed ++ s.src = xs
  links_ok : s.links ++ hl = s.consumed.map some ++ endMark s.ended
  ended_src : s.ended = true → s.src = []
  got_ok : ∀ i, (s.got i ++ pend (pc i)).map some = s.links.take (s.cursor i)
  cur_le : ∀ i, s.cursor i ≤ s.links.length
  insrc : ∀ i, (pc i).inSrc = true → s.cursor i = s.links.length
  fin_pend : ∀ i, s.finished i = true → pend (pc i) = []
  fin_ok : ∀ i, (s.finished i = true ∨ (pc i).isEndck = true) → s.links[s.cursor i]? = some none
  calls : s.srcCalls = s.consumed.length + (if s.ended then 1 else 0) + s.srcCancels + fl

/-- the fields `DCore` reads -/
def dview (s : State α) :=
  (s.src, s.consumed, s.links, s.ended, s.srcCalls, s.srcCancels, s.got, s.cursor, s.finished)

theorem dcore_frame {xs : List α} {s s' : State α} {pc pc' : Nat → Pc α} {hl : List (Option α)}
    {fl : Nat} (h : DCore xs s pc hl fl) (hv : dview s' = dview s) (hp : ∀ j, PcLe (pc' j) (pc j)) :
    DCore xs s' pc' hl fl := by
  simp only [dview, Prod.mk.injEq] at hv
  obtain ⟨e1, e2, e3, e4, e5, e6, e7, e8, e9⟩ := hv
  obtain ⟨h1, h2, h3, h4, h5, h6, h7, h8, h9⟩ := h
  refine ⟨by rw [e1, e2]; exact h1, by rw [e2, e3, e4]; exact h2, by rw [e1, e4]; exact h3, ?_,
    by rw [e3, e8]; exact h5, ?_, ?_, ?_, by rw [e2, e4, e5, e6]; exact h9⟩
  · intro j; rw [e3, e7, e8, (hp j).1]; exact h4 j
  · intro j hj; rw [e3, e8]; exact h6 j ((hp j).2.1 hj)
  · intro j hj; rw [e9] at hj; rw [(hp j).1]; exact h7 j hj
  · intro j hj; rw [e3, e8]; rw [e9] at hj
    exact h8 j (hj.imp id (hp j).2.2)

theorem release_dview (s : State α) : dview (release s) = dview s := by
  unfold release; split <;> rfl

/-- when consumer `i` stands before an unfilled link, every link is a value and the source has
not ended -/
theorem dcore_unfilled {xs : List α} {s : State α} {pc : Nat → Pc α} {fl : Nat} {i : Nat}
    (h : DCore xs s pc [] fl) (hl : s.links[s.cursor i]? = none) :
    s.cursor i = s.links.length ∧ s.ended = false ∧ s.links = s.consumed.map some := by
  have hc : s.cursor i = s.links.length := by
    have := List.getElem?_eq_none_iff.mp hl
    have := h.cur_le i
    omega
  have hg := h.got_ok i
  rw [hc, List.take_length] at hg
  have hk := h.links_ok
  rw [List.append_nil, ← hg] at hk
  obtain ⟨e1, e2⟩ := somes_all hk
  refine ⟨hc, e2, ?_⟩
  rw [← hg, e1]

/-- the rest of `__anext__` once the consumer's link is known to be filled with `l` -/
theorem dcore_afterFill {xs : List α} {s : State α} {q : Nat → Pc α} {hl : List (Option α)}
    {fl : Nat} {i : Nat} {l : Option α} (b : Bool) (h : DCore xs s q hl fl)
    (hlk : s.links[s.cursor i]? = some l) (hpi : pend (q i) = [])
    (hq : ∀ j, j ≠ i → PcLe (s.pc j) (q j)) :
    DCore xs (afterFill s i l b).1 (afterFill s i l b).1.pc hl fl := by
  obtain ⟨h1, h2, h3, h4, h5, h6, h7, h8, h9⟩ := h
  have g4 := h4 i
  rw [hpi, List.append_nil] at g4
  unfold afterFill
  cases l with
  | none =>
    simp only []
    split
    · -- StopAsyncIteration at once
      refine ⟨h1, h2, h3, ?_, h5, ?_, ?_, ?_, h9⟩
      · intro j
        by_cases hj : j = i
        · subst hj; simpa [leave] using g4
        · simp only [leave, upd_other _ _ _ _ hj, (hq j hj).1]; exact h4 j
      · intro j hj'
        by_cases hj : j = i
        · subst hj; simp [leave] at hj'
        · simp only [leave, upd_other _ _ _ _ hj] at hj'; exact h6 j ((hq j hj).2.1 hj')
      · intro j hj'
        by_cases hj : j = i
        · subst hj; simp [leave]
        · simp only [leave, upd_other _ _ _ _ hj] at hj' ⊢; rw [(hq j hj).1]; exact h7 j hj'
      · intro j hj'
        by_cases hj : j = i
        · subst hj; exact hlk
        · simp only [leave, upd_other _ _ _ _ hj] at hj'
          exact h8 j (hj'.imp id (hq j hj).2.2)
    · -- the cancellable checkpoint before StopAsyncIteration
      refine ⟨h1, h2, h3, ?_, h5, ?_, ?_, ?_, h9⟩
      · intro j
        by_cases hj : j = i
        · subst hj; simpa using g4
        · simp only [upd_other _ _ _ _ hj, (hq j hj).1]; exact h4 j
      · intro j hj'
        by_cases hj : j = i
        · subst hj; simp at hj'
        · simp only [upd_other _ _ _ _ hj] at hj'; exact h6 j ((hq j hj).2.1 hj')
      · intro j hj'
        by_cases hj : j = i
        · subst hj; simp
        · simp only [upd_other _ _ _ _ hj] at hj' ⊢; rw [(hq j hj).1]; exact h7 j hj'
      · intro j hj'
        by_cases hj : j = i
        · subst hj; exact hlk
        · simp only [upd_other _ _ _ _ hj] at hj'
          exact h8 j (hj'.imp id (hq j hj).2.2)
  | some v =>
    have hlt := get_lt hlk
    have htk := take_succ_of_get hlk
    have hnf : s.finished i = false := by
      cases hf : s.finished i with
      | false => rfl
      | true => have := h8 i (Or.inl hf); rw [hlk] at this; simp at this
    simp only []
    split
    · -- returns the value at once
      refine ⟨h1, h2, h3, ?_, ?_, ?_, ?_, ?_, h9⟩
      · intro j
        by_cases hj : j = i
        · subst hj; simp [leave, htk, ← g4]
        · simp only [leave, upd_other _ _ _ _ hj, (hq j hj).1]; exact h4 j
      · intro j
        by_cases hj : j = i
        · subst hj; simp [leave]; omega
        · simp only [upd_other _ _ _ _ hj]; exact h5 j
      · intro j hj'
        by_cases hj : j = i
        · subst hj; simp [leave] at hj'
        · simp only [leave, upd_other _ _ _ _ hj] at hj' ⊢; exact h6 j ((hq j hj).2.1 hj')
      · intro j hj'
        by_cases hj : j = i
        · subst hj; simp [leave]
        · simp only [leave, upd_other _ _ _ _ hj] at hj' ⊢; rw [(hq j hj).1]; exact h7 j hj'
      · intro j hj'
        by_cases hj : j = i
        · subst hj; simp [leave, hnf] at hj'
        · simp only [leave, upd_other _ _ _ _ hj] at hj' ⊢
          exact h8 j (hj'.imp id (hq j hj).2.2)
    · split
      · -- scope cancelled: `checkpoint_if_cancelled()` before anything is advanced
        refine ⟨h1, h2, h3, ?_, h5, ?_, ?_, ?_, h9⟩
        · intro j
          by_cases hj : j = i
          · subst hj; simpa using g4
          · simp only [upd_other _ _ _ _ hj, (hq j hj).1]; exact h4 j
        · intro j hj'
          by_cases hj : j = i
          · subst hj; simp at hj'
          · simp only [upd_other _ _ _ _ hj] at hj'; exact h6 j ((hq j hj).2.1 hj')
        · intro j hj'
          by_cases hj : j = i
          · subst hj; simp
          · simp only [upd_other _ _ _ _ hj] at hj' ⊢; rw [(hq j hj).1]; exact h7 j hj'
        · intro j hj'
          by_cases hj : j = i
          · subst hj
            simp [hnf] at hj'
          · simp only [upd_other _ _ _ _ hj] at hj'
            exact h8 j (hj'.imp id (hq j hj).2.2)
      · -- advanced, shielded checkpoint
        refine ⟨h1, h2, h3, ?_, ?_, ?_, ?_, ?_, h9⟩
        · intro j
          by_cases hj : j = i
          · subst hj; simp [htk, ← g4]
          · simp only [upd_other _ _ _ _ hj, (hq j hj).1]; exact h4 j
        · intro j
          by_cases hj : j = i
          · subst hj; simp; omega
          · simp only [upd_other _ _ _ _ hj]; exact h5 j
        · intro j hj'
          by_cases hj : j = i
          · subst hj; simp at hj'
          · simp only [upd_other _ _ _ _ hj] at hj' ⊢; exact h6 j ((hq j hj).2.1 hj')
        · intro j hj'
          by_cases hj : j = i
          · subst hj; simp [hnf] at hj'
          · simp only [upd_other _ _ _ _ hj] at hj' ⊢; rw [(hq j hj).1]; exact h7 j hj'
        · intro j hj'
          by_cases hj : j = i
          · subst hj; simp [hnf] at hj'
          · simp only [upd_other _ _ _ _ hj] at hj' ⊢
            exact h8 j (hj'.imp id (hq j hj).2.2)


/-- consumer `i` moves to another suspension point, nothing else changes -/
theorem dcore_setpc {xs : List α} {s : State α} {q : Nat → Pc α} {hl : List (Option α)} {fl : Nat}
    {i : Nat} {p : Pc α} (h : DCore xs s q hl fl) (hp : pend p = pend (q i))
    (hin : p.inSrc = true → s.cursor i = s.links.length)
    (hen : p.isEndck = true → s.links[s.cursor i]? = some none) :
    DCore xs s (upd q i p) hl fl := by
  obtain ⟨h1, h2, h3, h4, h5, h6, h7, h8, h9⟩ := h
  refine ⟨h1, h2, h3, ?_, h5, ?_, ?_, ?_, h9⟩
  · intro j
    by_cases hj : j = i
    · subst hj; rw [upd_same, hp]; exact h4 j
    · rw [upd_other _ _ _ _ hj]; exact h4 j
  · intro j hj'
    by_cases hj : j = i
    · subst hj; rw [upd_same] at hj'; exact hin hj'
    · rw [upd_other _ _ _ _ hj] at hj'; exact h6 j hj'
  · intro j hj'
    by_cases hj : j = i
    · subst hj; rw [upd_same, hp]; exact h7 j hj'
    · rw [upd_other _ _ _ _ hj]; exact h7 j hj'
  · intro j hj'
    by_cases hj : j = i
    · subst hj; rw [upd_same] at hj'
      rcases hj' with hf | he
      · exact h8 j (Or.inl hf)
      · exact hen he
    · rw [upd_other _ _ _ _ hj] at hj'; exact h8 j hj'

/-- the source-side fields change, the links and the consumers do not -/
theorem dcore_global {xs : List α} {s s' : State α} {q : Nat → Pc α} {hl hl' : List (Option α)}
    {fl fl' : Nat} (h : DCore xs s q hl fl)
    (e1 : s'.links = s.links) (e2 : s'.got = s.got) (e3 : s'.cursor = s.cursor)
    (e4 : s'.finished = s.finished)
    (g1 : s'.consumed ++ s'.src = xs)
    (g2 : s'.links ++ hl' = s'.consumed.map some ++ endMark s'.ended)
    (g3 : s'.ended = true → s'.src = [])
    (g4 : s'.srcCalls = s'.consumed.length + (if s'.ended then 1 else 0) + s'.srcCancels + fl') :
    DCore xs s' q hl' fl' := by
  obtain ⟨h1, h2, h3, h4, h5, h6, h7, h8, h9⟩ := h
  refine ⟨g1, g2, g3, ?_, ?_, ?_, ?_, ?_, g4⟩
  · intro j; rw [e1, e2, e3]; exact h4 j
  · intro j; rw [e1, e3]; exact h5 j
  · intro j hj; rw [e1, e3]; exact h6 j hj
  · intro j hj; rw [e4] at hj; exact h7 j hj
  · intro j hj; rw [e1, e3]; rw [e4] at hj; exact h8 j hj

/-- the lock owner `i`, which stands at the end of the chain, stores `r` in its link -/
theorem dcore_append {xs : List α} {s s' : State α} {q : Nat → Pc α} {hl hl' : List (Option α)}
    {fl fl' : Nat} {i : Nat} {r : Option α} (h : DCore xs s q hl fl)
    (hc : s.cursor i = s.links.length) (ho : ∀ j, j ≠ i → (q j).inSrc = false)
    (hpi : pend (q i) = [])
    (e1 : s'.links = s.links ++ [r]) (e2 : s'.got = s.got) (e3 : s'.cursor = s.cursor)
    (e4 : s'.finished = s.finished)
    (g1 : s'.consumed ++ s'.src = xs)
    (g2 : s'.links ++ hl' = s'.consumed.map some ++ endMark s'.ended)
    (g3 : s'.ended = true → s'.src = [])
    (g4 : s'.srcCalls = s'.consumed.length + (if s'.ended then 1 else 0) + s'.srcCancels + fl') :
    DCore xs s' (upd q i .lockGranted) hl' fl' ∧ s'.links[s'.cursor i]? = some r := by
  obtain ⟨h1, h2, h3, h4, h5, h6, h7, h8, h9⟩ := h
  refine ⟨⟨g1, g2, g3, ?_, ?_, ?_, ?_, ?_, g4⟩, ?_⟩
  · intro j
    rw [e1, e2, e3, List.take_append_of_le_length (h5 j)]
    by_cases hj : j = i
    · subst hj; rw [upd_same]; have := h4 j; rw [hpi] at this; simpa using this
    · rw [upd_other _ _ _ _ hj]; exact h4 j
  · intro j; rw [e1, e3]; have := h5 j; simp; omega
  · intro j hj'
    by_cases hj : j = i
    · subst hj; simp at hj'
    · rw [upd_other _ _ _ _ hj, ho j hj] at hj'; simp at hj'
  · intro j hj'
    rw [e4] at hj'
    by_cases hj : j = i
    · subst hj; simp
    · rw [upd_other _ _ _ _ hj]; exact h7 j hj'
  · intro j hj'
    rw [e4] at hj'
    rw [e1, e3]
    by_cases hj : j = i
    · subst hj
      simp at hj'
      have := h8 j (Or.inl hj')
      rw [hc] at this; simp at this
    · rw [upd_other _ _ _ _ hj] at hj'
      have := h8 j hj'
      have hlt := get_lt this
      rw [List.getElem?_append_left hlt]; exact this
  · rw [e1, e3, hc]; simp

/-- the cancellable checkpoint before StopAsyncIteration is over without a cancellation -/
theorem dcore_finish {xs : List α} {s s' : State α} {q : Nat → Pc α} {hl : List (Option α)}
    {fl : Nat} {i : Nat} (h : DCore xs s q hl fl) (hq : (q i).isEndck = true)
    (hv : dview s' = (s.src, s.consumed, s.links, s.ended, s.srcCalls, s.srcCancels, s.got,
      s.cursor, upd s.finished i true)) :
    DCore xs s' (upd q i .idle) hl fl := by
  simp only [dview, Prod.mk.injEq] at hv
  obtain ⟨e1, e2, e3, e4, e5, e6, e7, e8, e9⟩ := hv
  have hpi : pend (q i) = [] := by cases hh : q i <;> simp_all
  obtain ⟨h1, h2, h3, h4, h5, h6, h7, h8, h9⟩ := h
  refine ⟨by rw [e1, e2]; exact h1, by rw [e2, e3, e4]; exact h2, by rw [e1, e4]; exact h3, ?_,
    by rw [e3, e8]; exact h5, ?_, ?_, ?_, by rw [e2, e4, e5, e6]; exact h9⟩
  · intro j
    rw [e3, e7, e8]
    by_cases hj : j = i
    · subst hj; rw [upd_same]; have := h4 j; rw [hpi] at this; simpa using this
    · rw [upd_other _ _ _ _ hj]; exact h4 j
  · intro j hj'
    rw [e3, e8]
    by_cases hj : j = i
    · subst hj; simp at hj'
    · rw [upd_other _ _ _ _ hj] at hj'; exact h6 j hj'
  · intro j hj'
    rw [e9] at hj'
    by_cases hj : j = i
    · subst hj; simp
    · rw [upd_other _ _ _ _ hj] at hj' ⊢; exact h7 j hj'
  · intro j hj'
    rw [e9] at hj'
    rw [e3, e8]
    by_cases hj : j = i
    · subst hj; exact h8 j (Or.inr hq)
    · rw [upd_other _ _ _ _ hj, upd_other _ _ _ _ hj] at hj'; exact h8 j hj'

/-- the shielded checkpoint after advancing is over: the value is handed out -/
theorem dcore_yielded {xs : List α} {s s' : State α} {q : Nat → Pc α} {hl : List (Option α)}
    {fl : Nat} {i : Nat} {v : α} (h : DCore xs s q hl fl) (hq : q i = .yielding v)
    (hv : dview s' = (s.src, s.consumed, s.links, s.ended, s.srcCalls, s.srcCancels,
      upd s.got i (s.got i ++ [v]), s.cursor, s.finished)) :
    DCore xs s' (upd q i .idle) hl fl := by
  simp only [dview, Prod.mk.injEq] at hv
  obtain ⟨e1, e2, e3, e4, e5, e6, e7, e8, e9⟩ := hv
  obtain ⟨h1, h2, h3, h4, h5, h6, h7, h8, h9⟩ := h
  refine ⟨by rw [e1, e2]; exact h1, by rw [e2, e3, e4]; exact h2, by rw [e1, e4]; exact h3, ?_,
    by rw [e3, e8]; exact h5, ?_, ?_, ?_, by rw [e2, e4, e5, e6]; exact h9⟩
  · intro j
    rw [e3, e7, e8]
    by_cases hj : j = i
    · subst hj; rw [upd_same, upd_same]; have := h4 j; rw [hq] at this; simpa using this
    · rw [upd_other _ _ _ _ hj, upd_other _ _ _ _ hj]; exact h4 j
  · intro j hj'
    rw [e3, e8]
    by_cases hj : j = i
    · subst hj; simp at hj'
    · rw [upd_other _ _ _ _ hj] at hj'; exact h6 j hj'
  · intro j hj'
    rw [e9] at hj'
    by_cases hj : j = i
    · subst hj; simp
    · rw [upd_other _ _ _ _ hj]; exact h7 j hj'
  · intro j hj'
    rw [e9] at hj'
    rw [e3, e8]
    by_cases hj : j = i
    · subst hj
      simp at hj'
      exact h8 j (Or.inl hj')
    · rw [upd_other _ _ _ _ hj] at hj'; exact h8 j hj'

end AnyioModel.Iter.TeeCancel
