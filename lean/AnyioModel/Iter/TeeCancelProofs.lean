/-
Tee with cancellation (`AnyioModel.Iter.TeeCancel`): classification of the suspension points,
the lock invariant `LInv` and its preservation by every event.
-/
import AnyioModel.Iter.TeeCancel
namespace AnyioModel.Iter.TeeCancel
variable {α : Type}

/-- the task owns the lock at this suspension point -/
def Pc.holdsLock : Pc α → Bool
  | .lockGranted => true
  | .srcCic => true
  | .srcShield _ => true
  | .srcWait => true
  | .srcCancelled => true
  | _ => false

/-- the task has an entry in `Lock._waiters` (its future pending or cancelled) -/
def Pc.queued : Pc α → Bool
  | .lockWait => true
  | .lockCancelled => true
  | _ => false

/-- inside `await anext(self.iterator, _tee_end)` -/
def Pc.inSrc : Pc α → Bool
  | .srcCic => true
  | .srcShield _ => true
  | .srcWait => true
  | .srcCancelled => true
  | _ => false

def Pc.isEndck : Pc α → Bool
  | .endck => true
  | _ => false

/-- the value a consumer has taken from its link but not yet returned -/
def pend : Pc α → List α
  | .yielding v => [v]
  | _ => []

/-- what the synchronous adaptor has taken from the iterator and not yet returned to `fill()` -/
def heldOf : Pc α → List (Option α)
  | .srcShield r => [r]
  | _ => []

/-- 1 while an invocation of the source's `__anext__` has neither taken anything nor been cancelled -/
def flying : Pc α → Nat
  | .srcCic => 1
  | .srcWait => 1
  | .srcCancelled => 1
  | _ => 0

def held (s : State α) : List (Option α) :=
  match s.owner with
  | some i => heldOf (s.pc i)
  | none => []

def inflight (s : State α) : Nat :=
  match s.owner with
  | some i => flying (s.pc i)
  | none => 0


/-! per-constructor simp lemmas -/

@[simp] theorem holdsLock_shield (r : Option α) : (Pc.srcShield r : Pc α).holdsLock = true := rfl
@[simp] theorem holdsLock_yielding (v : α) : (Pc.yielding v : Pc α).holdsLock = false := rfl
@[simp] theorem holdsLock_simps :
    (Pc.idle : Pc α).holdsLock = false ∧
    (Pc.cicReplay : Pc α).holdsLock = false ∧
    (Pc.cicAcquire : Pc α).holdsLock = false ∧
    (Pc.lockWait : Pc α).holdsLock = false ∧
    (Pc.lockCancelled : Pc α).holdsLock = false ∧
    (Pc.lockGranted : Pc α).holdsLock = true ∧
    (Pc.srcCic : Pc α).holdsLock = true ∧
    (Pc.srcWait : Pc α).holdsLock = true ∧
    (Pc.srcCancelled : Pc α).holdsLock = true ∧
    (Pc.endck : Pc α).holdsLock = false := by
  simp [Pc.holdsLock]
@[simp] theorem queued_shield (r : Option α) : (Pc.srcShield r : Pc α).queued = false := rfl
@[simp] theorem queued_yielding (v : α) : (Pc.yielding v : Pc α).queued = false := rfl
@[simp] theorem queued_simps :
    (Pc.idle : Pc α).queued = false ∧
    (Pc.cicReplay : Pc α).queued = false ∧
    (Pc.cicAcquire : Pc α).queued = false ∧
    (Pc.lockWait : Pc α).queued = true ∧
    (Pc.lockCancelled : Pc α).queued = true ∧
    (Pc.lockGranted : Pc α).queued = false ∧
    (Pc.srcCic : Pc α).queued = false ∧
    (Pc.srcWait : Pc α).queued = false ∧
    (Pc.srcCancelled : Pc α).queued = false ∧
    (Pc.endck : Pc α).queued = false := by
  simp [Pc.queued]
@[simp] theorem inSrc_shield (r : Option α) : (Pc.srcShield r : Pc α).inSrc = true := rfl
@[simp] theorem inSrc_yielding (v : α) : (Pc.yielding v : Pc α).inSrc = false := rfl
@[simp] theorem inSrc_simps :
    (Pc.idle : Pc α).inSrc = false ∧
    (Pc.cicReplay : Pc α).inSrc = false ∧
    (Pc.cicAcquire : Pc α).inSrc = false ∧
    (Pc.lockWait : Pc α).inSrc = false ∧
    (Pc.lockCancelled : Pc α).inSrc = false ∧
    (Pc.lockGranted : Pc α).inSrc = false ∧
    (Pc.srcCic : Pc α).inSrc = true ∧
    (Pc.srcWait : Pc α).inSrc = true ∧
    (Pc.srcCancelled : Pc α).inSrc = true ∧
    (Pc.endck : Pc α).inSrc = false := by
  simp [Pc.inSrc]
@[simp] theorem isEndck_shield (r : Option α) : (Pc.srcShield r : Pc α).isEndck = false := rfl
@[simp] theorem isEndck_yielding (v : α) : (Pc.yielding v : Pc α).isEndck = false := rfl
@[simp] theorem isEndck_simps :
    (Pc.idle : Pc α).isEndck = false ∧
    (Pc.cicReplay : Pc α).isEndck = false ∧
    (Pc.cicAcquire : Pc α).isEndck = false ∧
    (Pc.lockWait : Pc α).isEndck = false ∧
    (Pc.lockCancelled : Pc α).isEndck = false ∧
    (Pc.lockGranted : Pc α).isEndck = false ∧
    (Pc.srcCic : Pc α).isEndck = false ∧
    (Pc.srcWait : Pc α).isEndck = false ∧
    (Pc.srcCancelled : Pc α).isEndck = false ∧
    (Pc.endck : Pc α).isEndck = true := by
  simp [Pc.isEndck]
@[simp] theorem isIdle_shield (r : Option α) : (Pc.srcShield r : Pc α).isIdle = false := rfl
@[simp] theorem isIdle_yielding (v : α) : (Pc.yielding v : Pc α).isIdle = false := rfl
@[simp] theorem isIdle_simps :
    (Pc.idle : Pc α).isIdle = true ∧
    (Pc.cicReplay : Pc α).isIdle = false ∧
    (Pc.cicAcquire : Pc α).isIdle = false ∧
    (Pc.lockWait : Pc α).isIdle = false ∧
    (Pc.lockCancelled : Pc α).isIdle = false ∧
    (Pc.lockGranted : Pc α).isIdle = false ∧
    (Pc.srcCic : Pc α).isIdle = false ∧
    (Pc.srcWait : Pc α).isIdle = false ∧
    (Pc.srcCancelled : Pc α).isIdle = false ∧
    (Pc.endck : Pc α).isIdle = false := by
  simp [Pc.isIdle]
@[simp] theorem isLockCancelled_shield (r : Option α) : (Pc.srcShield r : Pc α).isLockCancelled = false := rfl
@[simp] theorem isLockCancelled_yielding (v : α) : (Pc.yielding v : Pc α).isLockCancelled = false := rfl
@[simp] theorem isLockCancelled_simps :
    (Pc.idle : Pc α).isLockCancelled = false ∧
    (Pc.cicReplay : Pc α).isLockCancelled = false ∧
    (Pc.cicAcquire : Pc α).isLockCancelled = false ∧
    (Pc.lockWait : Pc α).isLockCancelled = false ∧
    (Pc.lockCancelled : Pc α).isLockCancelled = true ∧
    (Pc.lockGranted : Pc α).isLockCancelled = false ∧
    (Pc.srcCic : Pc α).isLockCancelled = false ∧
    (Pc.srcWait : Pc α).isLockCancelled = false ∧
    (Pc.srcCancelled : Pc α).isLockCancelled = false ∧
    (Pc.endck : Pc α).isLockCancelled = false := by
  simp [Pc.isLockCancelled]
@[simp] theorem pend_shield (r : Option α) : pend (Pc.srcShield r : Pc α) = [] := rfl
@[simp] theorem pend_yielding (v : α) : pend (Pc.yielding v : Pc α) = [v] := rfl
@[simp] theorem pend_simps :
    pend (Pc.idle : Pc α) = [] ∧
    pend (Pc.cicReplay : Pc α) = [] ∧
    pend (Pc.cicAcquire : Pc α) = [] ∧
    pend (Pc.lockWait : Pc α) = [] ∧
    pend (Pc.lockCancelled : Pc α) = [] ∧
    pend (Pc.lockGranted : Pc α) = [] ∧
    pend (Pc.srcCic : Pc α) = [] ∧
    pend (Pc.srcWait : Pc α) = [] ∧
    pend (Pc.srcCancelled : Pc α) = [] ∧
    pend (Pc.endck : Pc α) = [] := by
  simp [pend]
@[simp] theorem heldOf_shield (r : Option α) : heldOf (Pc.srcShield r : Pc α) = [r] := rfl
@[simp] theorem heldOf_yielding (v : α) : heldOf (Pc.yielding v : Pc α) = [] := rfl
@[simp] theorem heldOf_simps :
    heldOf (Pc.idle : Pc α) = [] ∧
    heldOf (Pc.cicReplay : Pc α) = [] ∧
    heldOf (Pc.cicAcquire : Pc α) = [] ∧
    heldOf (Pc.lockWait : Pc α) = [] ∧
    heldOf (Pc.lockCancelled : Pc α) = [] ∧
    heldOf (Pc.lockGranted : Pc α) = [] ∧
    heldOf (Pc.srcCic : Pc α) = [] ∧
    heldOf (Pc.srcWait : Pc α) = [] ∧
    heldOf (Pc.srcCancelled : Pc α) = [] ∧
    heldOf (Pc.endck : Pc α) = [] := by
  simp [heldOf]
@[simp] theorem flying_shield (r : Option α) : flying (Pc.srcShield r : Pc α) = 0 := rfl
@[simp] theorem flying_yielding (v : α) : flying (Pc.yielding v : Pc α) = 0 := rfl
@[simp] theorem flying_simps :
    flying (Pc.idle : Pc α) = 0 ∧
    flying (Pc.cicReplay : Pc α) = 0 ∧
    flying (Pc.cicAcquire : Pc α) = 0 ∧
    flying (Pc.lockWait : Pc α) = 0 ∧
    flying (Pc.lockCancelled : Pc α) = 0 ∧
    flying (Pc.lockGranted : Pc α) = 0 ∧
    flying (Pc.srcCic : Pc α) = 1 ∧
    flying (Pc.srcWait : Pc α) = 1 ∧
    flying (Pc.srcCancelled : Pc α) = 1 ∧
    flying (Pc.endck : Pc α) = 0 := by
  simp [flying]

theorem isIdle_iff {p : Pc α} : p.isIdle = true ↔ p = .idle := by cases p <;> simp [Pc.isIdle]
theorem isLockCancelled_iff {p : Pc α} : p.isLockCancelled = true ↔ p = .lockCancelled := by
  cases p <;> simp [Pc.isLockCancelled]

theorem inSrc_holdsLock {p : Pc α} (h : p.inSrc = true) : p.holdsLock = true := by
  cases p <;> simp_all

/-! ### `release` -/

/-- what `Lock.release()` does: either every queued entry was cancelled (all dropped, lock free),
or the first entry `w` whose future is not cancelled gets the lock -/
theorem release_cases (s : State α) :
    (release s = { s with owner := none, waiters := [] }) ∨
    (∃ pre w ws, s.waiters = pre ++ w :: ws ∧ (s.pc w).isLockCancelled = false ∧
      release s = { s with owner := some w, waiters := ws, pc := upd s.pc w .lockGranted }) := by
  unfold release
  have happ := List.takeWhile_append_dropWhile (p := fun w => (s.pc w).isLockCancelled) (l := s.waiters)
  cases hd : s.waiters.dropWhile (fun w => (s.pc w).isLockCancelled) with
  | nil => left; rfl
  | cons w ws =>
    right
    refine ⟨s.waiters.takeWhile (fun w => (s.pc w).isLockCancelled), w, ws, ?_, ?_, rfl⟩
    · rw [hd] at happ; exact happ.symm
    · have := List.head_dropWhile_not (fun w => (s.pc w).isLockCancelled) (l := s.waiters)
        (by rw [hd]; simp)
      simpa [hd] using this

/-! ### the lock invariant -/

structure LInv (s : State α) : Prop where
  holder : ∀ i, (s.pc i).holdsLock = true ↔ s.owner = some i
  wq : ∀ w ∈ s.waiters, (s.pc w).queued = true
  nodup : s.waiters.Nodup
  free : s.owner = none → s.waiters = []
  range : ∀ i, s.n ≤ i → s.pc i = .idle

theorem linv_init (n : Nat) (sync : Bool) (xs : List α) : LInv (init n sync xs) := by
  constructor <;> simp [init]

/-- a step of consumer `i` that touches neither the lock nor the queue -/
theorem linv_local {s s' : State α} {i : Nat} (h : LInv s) (hn : s'.n = s.n)
    (ho : s'.owner = s.owner) (hw : s'.waiters = s.waiters)
    (hpc : ∀ j, j ≠ i → s'.pc j = s.pc j)
    (hh : (s'.pc i).holdsLock = (s.pc i).holdsLock)
    (hq : (s.pc i).queued = true → (s'.pc i).queued = true)
    (hr : s.n ≤ i → s'.pc i = .idle) : LInv s' := by
  obtain ⟨h1, h2, h3, h4, h5⟩ := h
  refine ⟨?_, ?_, by rw [hw]; exact h3, by rw [ho, hw]; exact h4, ?_⟩
  · intro j
    by_cases hj : j = i
    · subst hj; rw [hh, ho]; exact h1 j
    · rw [hpc j hj, ho]; exact h1 j
  · intro w hwm
    rw [hw] at hwm
    by_cases hj : w = i
    · subst hj; exact hq (h2 w hwm)
    · rw [hpc w hj]; exact h2 w hwm
  · intro j hj
    rw [hn] at hj
    by_cases hji : j = i
    · subst hji; exact hr hj
    · rw [hpc j hji]; exact h5 j hj

/-- the lock owner `i` releases the lock and leaves the lock states: `s0` is `s` up to fields the
lock does not look at, `s'` is `release s0` up to such fields and the new suspension point `p` of `i` -/
theorem linv_release {s s0 s' : State α} {i : Nat} {p : Pc α} (h : LInv s)
    (hoi : s.owner = some i) (e2 : s0.waiters = s.waiters) (e3 : s0.pc = s.pc)
    (hn : s'.n = s.n)
    (f1 : s'.owner = (release s0).owner) (f2 : s'.waiters = (release s0).waiters)
    (f3 : s'.pc = upd (release s0).pc i p)
    (hp1 : p.holdsLock = false) (hp3 : s.n ≤ i → p = .idle) : LInv s' := by
  obtain ⟨h1, h2, h3, h4, h5⟩ := h
  have hi : (s.pc i).holdsLock = true := (h1 i).mpr hoi
  have hothers : ∀ j, j ≠ i → (s.pc j).holdsLock = false := by
    intro j hj
    cases hh : (s.pc j).holdsLock with
    | false => rfl
    | true => have := (h1 j).mp hh; rw [hoi] at this; exact absurd (Option.some.inj this).symm hj
  rcases release_cases s0 with hr | ⟨pre, w, ws, hws, hnc, hr⟩
  · rw [hr] at f1 f2 f3
    simp only [] at f1 f2 f3
    rw [e3] at f3
    refine ⟨?_, by simp [f2], by simp [f2], by simp [f2], ?_⟩
    · intro j
      rw [f1, f3]
      by_cases hj : j = i
      · subst hj; simp [hp1]
      · simp [hj, hothers j hj]
    · intro j hj
      rw [f3]; rw [hn] at hj
      by_cases hji : j = i
      · subst hji; simp [hp3 hj]
      · simp [hji, h5 j hj]
  · rw [hr] at f1 f2 f3
    simp only [] at f1 f2 f3
    rw [e3] at f3 hnc
    rw [e2] at hws
    have hwm : w ∈ s.waiters := by rw [hws]; simp
    have hwq := h2 w hwm
    have hwi : w ≠ i := by
      intro e; subst e
      cases hh : s.pc w <;> simp_all
    have hnd : w ∉ ws ∧ ws.Nodup := by
      rw [hws] at h3
      have := (List.nodup_append.mp h3).2.1
      exact List.nodup_cons.mp this
    have hsub : ∀ x ∈ ws, x ∈ s.waiters := by
      intro x hx; rw [hws]; simp [hx]
    refine ⟨?_, ?_, by rw [f2]; exact hnd.2, by simp [f1], ?_⟩
    · intro j
      rw [f1, f3]
      by_cases hj : j = i
      · subst hj; simp [hp1]; first | exact hwi | exact fun e => hwi e.symm
      · by_cases hjw : j = w
        · subst hjw; simp [hj]
        · simp [hj, hjw, hothers j hj]; exact fun e => hjw e.symm
    · intro x hx
      rw [f2] at hx; rw [f3]
      have hxw : x ≠ w := fun e => hnd.1 (e ▸ hx)
      have hxq := h2 x (hsub x hx)
      by_cases hxi : x = i
      · subst hxi
        cases hh : s.pc x <;> simp_all
      · simp [hxi, hxw, hxq]
    · intro j hj
      rw [f3]; rw [hn] at hj
      by_cases hji : j = i
      · subst hji; simp [hp3 hj]
      · by_cases hjw : j = w
        · subst hjw
          have := h5 j hj
          rw [this] at hwq; simp at hwq
        · simp [hji, hjw, h5 j hj]

/-! facts about `afterFill` the lock invariant needs -/

theorem afterFill_n (s : State α) (i : Nat) (l : Option α) (b : Bool) :
    (afterFill s i l b).1.n = s.n := by
  unfold afterFill; cases l <;> simp only [] <;> split <;> (try split) <;> rfl

theorem afterFill_owner (s : State α) (i : Nat) (l : Option α) (b : Bool) :
    (afterFill s i l b).1.owner = s.owner := by
  unfold afterFill; cases l <;> simp only [] <;> split <;> (try split) <;> rfl

theorem afterFill_waiters (s : State α) (i : Nat) (l : Option α) (b : Bool) :
    (afterFill s i l b).1.waiters = s.waiters := by
  unfold afterFill; cases l <;> simp only [] <;> split <;> (try split) <;> rfl

theorem afterFill_pc (s : State α) (i : Nat) (l : Option α) (b : Bool) :
    ∃ p, (afterFill s i l b).1.pc = upd s.pc i p ∧ p.holdsLock = false ∧ p.queued = false ∧
      (b = true → p = .idle ∨ p = .endck) := by
  unfold afterFill
  cases l with
  | none =>
    simp only []
    split
    · exact ⟨.idle, rfl, rfl, rfl, fun _ => Or.inl rfl⟩
    · exact ⟨.endck, rfl, rfl, rfl, fun _ => Or.inr rfl⟩
  | some v =>
    simp only []
    split
    · exact ⟨.idle, rfl, rfl, rfl, fun _ => Or.inl rfl⟩
    · split
      · exact ⟨.cicReplay, rfl, rfl, rfl, fun hb => by simp_all⟩
      · exact ⟨.yielding v, rfl, rfl, rfl, fun hb => by simp_all⟩


theorem raiseCancelled_fst (s : State α) (i : Nat) :
    (raiseCancelled s i).1 = { leave s i with ncanc := upd s.ncanc i (s.ncanc i + 1) } := rfl

/-- in the lock states of the owner `i`, `i` is in range -/
theorem LInv.owner_lt {s : State α} (h : LInv s) {i : Nat} (hh : (s.pc i).holdsLock = true) :
    ¬ s.n ≤ i := by
  intro hr
  have := h.range i hr
  rw [this] at hh; simp at hh

theorem linv_step {s s' : State α} {e : Ev} {o : Out α} (h : LInv s)
    (hs : step s e = some (s', o)) : LInv s' := by
  cases e with
  | cancel i =>
    simp only [step] at hs
    split at hs
    · cases hs
      exact linv_local (i := i) h rfl rfl rfl (fun _ _ => rfl) rfl id (fun hr => h.range i hr)
    · contradiction
  | deliver i =>
    simp only [step] at hs
    split at hs
    · split at hs
      · rename_i hpc; cases hs
        exact linv_local (i := i) h rfl rfl rfl (fun j hj => by simp [hj]) (by simp [hpc]) (by simp)
          (fun hr => by have := h.range i hr; simp_all)
      · rename_i hpc; cases hs
        exact linv_local (i := i) h rfl rfl rfl (fun j hj => by simp [hj]) (by simp [hpc]) (by simp [hpc])
          (fun hr => by have := h.range i hr; simp_all)
      · contradiction
    · contradiction
  | next i =>
    simp only [step] at hs
    split at hs
    · contradiction
    rename_i hidle
    have hg : i < s.n ∧ (s.pc i).isIdle = true := by simpa using hidle
    have hpc : s.pc i = .idle := isIdle_iff.mp hg.2
    have hlt : ¬ s.n ≤ i := by omega
    clear hidle
    split at hs
    · rename_i l hl
      have e : s' = (afterFill s i l false).1 := (congrArg Prod.fst (Option.some.inj hs)).symm
      obtain ⟨p, hp, hp1, hp2, -⟩ := afterFill_pc s i l false
      subst e
      exact linv_local (i := i) h (afterFill_n ..) (afterFill_owner ..) (afterFill_waiters ..)
        (fun j hj => by rw [hp]; simp [hj]) (by rw [hp]; simp [hpc, hp1]) (by simp [hpc])
        (fun hr => absurd hr hlt)
    · split at hs
      · rename_i hfree
        split at hs
        · cases hs
          exact linv_local (i := i) h rfl rfl rfl (fun j hj => by simp [hj]) (by simp [hpc]) (by simp [hpc])
            (fun hr => absurd hr hlt)
        · cases hs
          obtain ⟨h1, h2, h3, h4, h5⟩ := h
          refine ⟨?_, ?_, h3, by simp, ?_⟩
          · intro j
            by_cases hj : j = i
            · subst hj; simp
            · have := h1 j
              simp only [upd_other _ _ _ _ hj]
              rw [hfree.1] at this
              simp at this
              simp [this]; exact fun e => hj e.symm
          · intro w hw; rw [hfree.2] at hw; simp at hw
          · intro j hj
            by_cases hji : j = i
            · subst hji; exact absurd hj hlt
            · simp [hji, h5 j hj]
      · rename_i hbusy
        split at hs
        · cases hs; exact h
        · cases hs
          obtain ⟨h1, h2, h3, h4, h5⟩ := h
          have hni : i ∉ s.waiters := by
            intro hm; have := h2 i hm; rw [hpc] at this; simp at this
          refine ⟨?_, ?_, ?_, ?_, ?_⟩
          · intro j
            by_cases hj : j = i
            · subst hj
              have := h1 j
              rw [hpc] at this; simp at this
              simp; exact this
            · simp [hj]; exact h1 j
          · intro w hw
            simp at hw
            rcases hw with hw | hw
            · by_cases hj : w = i
              · subst hj; exact absurd hw hni
              · simp [hj]; exact h2 w hw
            · subst hw; simp
          · simp only []
            rw [List.nodup_append]
            refine ⟨h3, by simp, ?_⟩
            intro a ha b hb
            simp at hb; subst hb
            intro e; subst e; exact hni ha
          · intro ho
            simp only [] at ho
            have := h4 ho
            exact absurd ⟨ho, this⟩ hbusy
          · intro j hj
            by_cases hji : j = i
            · subst hji; exact absurd hj hlt
            · simp [hji, h5 j hj]
  | step i =>
    simp only [step] at hs
    split at hs
    · contradiction
    · contradiction
    · contradiction
    · rename_i hpc; cases hs
      exact linv_local (i := i) h rfl rfl rfl (fun j hj => by simp [leave, hj])
        (by simp [leave, hpc]) (by simp [hpc]) (fun _ => by simp [leave])
    · rename_i hpc; cases hs
      exact linv_local (i := i) h rfl rfl rfl (fun j hj => by simp [leave, hj])
        (by simp [leave, hpc]) (by simp [hpc]) (fun _ => by simp [leave])
    · -- lockCancelled
      rename_i hpc; cases hs
      obtain ⟨h1, h2, h3, h4, h5⟩ := h
      simp only [leave]
      refine ⟨?_, ?_, ?_, ?_, ?_⟩
      · intro j
        by_cases hj : j = i
        · subst hj
          have := h1 j
          rw [hpc] at this; simp at this
          simp; exact this
        · simp [hj]; exact h1 j
      · intro w hw
        simp only [] at hw
        have hw1 : w ∈ s.waiters := List.mem_of_mem_erase hw
        by_cases hj : w = i
        · subst hj
          exact absurd hw (List.Nodup.not_mem_erase h3)
        · simp [hj]; exact h2 w hw1
      · exact List.Nodup.erase _ h3
      · intro ho
        simp only [] at ho ⊢
        rw [h4 ho]; simp
      · intro j hj
        by_cases hji : j = i
        · subst hji; simp
        · simp [hji, h5 j hj]
    · -- lockGranted
      rename_i hpc
      have hoi : s.owner = some i := (h.holder i).mp (by simp [hpc])
      have hlt := h.owner_lt (i := i) (by simp [hpc])
      split at hs
      · rename_i l hl
        have e : s' = (afterFill (release s) i l true).1 := (congrArg Prod.fst (Option.some.inj hs)).symm
        obtain ⟨p, hp, hp1, hp2, -⟩ := afterFill_pc (release s) i l true
        subst e
        exact linv_release (s0 := s) (p := p) h hoi rfl rfl (by rw [afterFill_n]; unfold release; split <;> rfl)
          (afterFill_owner ..) (afterFill_waiters ..) hp hp1 (fun hr => absurd hr hlt)
      · split at hs
        · split at hs
          · cases hs
            exact linv_local (i := i) h rfl rfl rfl (fun j hj => by simp [hj]) (by simp [hpc]) (by simp [hpc])
              (fun hr => absurd hr hlt)
          · split at hs
            · cases hs
              exact linv_local (i := i) h rfl rfl rfl (fun j hj => by simp [hj]) (by simp [hpc]) (by simp [hpc])
                (fun hr => absurd hr hlt)
            · cases hs
              exact linv_local (i := i) h rfl rfl rfl (fun j hj => by simp [hj]) (by simp [hpc]) (by simp [hpc])
                (fun hr => absurd hr hlt)
        · cases hs
          exact linv_local (i := i) h rfl rfl rfl (fun j hj => by simp [hj]) (by simp [hpc]) (by simp [hpc])
            (fun hr => absurd hr hlt)
    · -- srcCic
      rename_i hpc
      have hoi : s.owner = some i := (h.holder i).mp (by simp [hpc])
      cases hs
      exact linv_release (s0 := s) (p := .idle) h hoi rfl rfl (by simp [leave]; unfold release; split <;> rfl)
        rfl rfl rfl rfl (fun _ => rfl)
    · -- srcCancelled
      rename_i hpc
      have hoi : s.owner = some i := (h.holder i).mp (by simp [hpc])
      cases hs
      exact linv_release (s0 := s) (p := .idle) h hoi rfl rfl (by simp [leave]; unfold release; split <;> rfl)
        rfl rfl rfl rfl (fun _ => rfl)
    · -- srcShield
      rename_i r hpc
      have hoi : s.owner = some i := (h.holder i).mp (by simp [hpc])
      have hlt := h.owner_lt (i := i) (by simp [hpc])
      have e : s' = (afterFill (release { s with links := s.links ++ [r] }) i r true).1 := (congrArg Prod.fst (Option.some.inj hs)).symm
      obtain ⟨p, hp, hp1, hp2, -⟩ := afterFill_pc (release { s with links := s.links ++ [r] }) i r true
      subst e
      exact linv_release (s0 := { s with links := s.links ++ [r] }) (p := p) h hoi rfl rfl
        (by rw [afterFill_n]; unfold release; split <;> rfl)
        (afterFill_owner ..) (afterFill_waiters ..) hp hp1 (fun hr => absurd hr hlt)
    · -- endck
      rename_i hpc
      split at hs
      · cases hs
        exact linv_local (i := i) h rfl rfl rfl (fun j hj => by simp [leave, hj])
          (by simp [leave, hpc]) (by simp [hpc]) (fun _ => by simp [leave])
      · cases hs
        exact linv_local (i := i) h rfl rfl rfl (fun j hj => by simp [leave, hj])
          (by simp [leave, hpc]) (by simp [hpc]) (fun _ => by simp [leave])
    · -- yielding
      rename_i v hpc; cases hs
      exact linv_local (i := i) h rfl rfl rfl (fun j hj => by simp [leave, hj])
        (by simp [leave, hpc]) (by simp [hpc]) (fun _ => by simp [leave])
  | srcYield =>
    simp only [step] at hs
    split at hs
    · rename_i i v rest hoi hsrc
      split at hs
      · rename_i hpc
        split at hs
        · contradiction
        · have hlt := h.owner_lt (i := i) (by simp [hpc])
          have e : s' = (afterFill (release { s with src := rest, consumed := s.consumed ++ [v], links := s.links ++ [some v] }) i (some v) true).1 := (congrArg Prod.fst (Option.some.inj hs)).symm
          obtain ⟨p, hp, hp1, hp2, -⟩ := afterFill_pc (release { s with src := rest, consumed := s.consumed ++ [v], links := s.links ++ [some v] }) i (some v) true
          subst e
          exact linv_release (s0 := { s with src := rest, consumed := s.consumed ++ [v], links := s.links ++ [some v] }) (p := p) h hoi rfl rfl
            (by rw [afterFill_n]; unfold release; split <;> rfl)
            (afterFill_owner ..) (afterFill_waiters ..) hp hp1 (fun hr => absurd hr hlt)
      · contradiction
    · contradiction
  | srcEnd =>
    simp only [step] at hs
    split at hs
    · rename_i i hoi hsrc
      split at hs
      · rename_i hpc
        split at hs
        · contradiction
        · have hlt := h.owner_lt (i := i) (by simp [hpc])
          have e : s' = (afterFill (release { s with ended := true, links := s.links ++ [none] })
              i none true).1 := (congrArg Prod.fst (Option.some.inj hs)).symm
          obtain ⟨p, hp, hp1, hp2, -⟩ := afterFill_pc (release { s with ended := true, links := s.links ++ [none] }) i none true
          subst e
          exact linv_release (s0 := { s with ended := true, links := s.links ++ [none] }) (p := p) h hoi
            rfl rfl (by rw [afterFill_n]; unfold release; split <;> rfl)
            (afterFill_owner ..) (afterFill_waiters ..) hp hp1 (fun hr => absurd hr hlt)
      · contradiction
    · contradiction

end AnyioModel.Iter.TeeCancel
