/-
Model of `anyio.itertools.tee` WITH CANCELLATION (src/anyio/itertools.py:53-66 `_IterableAsyncIterator`,
79-143 `_TeeLink`/`_TeeState.fill`/`_TeeAsyncIterator.__anext__`, 558-571 `tee`; the lock is
`anyio.Lock()` = `_backends/_asyncio.py:Lock` with `fast_acquire = False`).  `Iter/Tee.lean` is the
cancellation-free model; this file adds what a cancelled `CancelScope` around a consumer's
`anext()` does at every suspension point.

Every call `anext(it_i)` of consumer `i` runs inside its own cancel scope; the environment may
cancel that scope at any time (`cancel i`: `CancelScope.cancel()` / the deadline fires), also
before the call starts.  The flag `canc i` is `scope.cancel_called`.  It is dropped when the call
is over (value, StopAsyncIteration or CancelledError: the scope is left; the next call has a
fresh scope).

Suspension points of one call, as in the code (C = cancellable, S = shielded):

  `__anext__`, link already filled (`fill()` returns False without suspending)
    cicReplay    C  `checkpoint_if_cancelled()` BEFORE the link is advanced: suspends only if the
                    scope is cancelled, and then always raises; nothing has changed
    yielding v   S  `cancel_shielded_checkpoint()` AFTER `_link` was advanced; returns `v`
    endck        C  `checkpoint()` before `raise StopAsyncIteration` when nothing was yielded yet
  `fill()`: `async with self.lock` -> `Lock.acquire()`
    cicAcquire   C  uncontended: `checkpoint_if_cancelled()` BEFORE `_owner_task` is set
    lockGranted  S  uncontended: `cancel_shielded_checkpoint()` after `_owner_task` was set;
                    contended: the hand-over (`fut.set_result`) happened, the future is done,
                    `_deliver_cancellation` skips tasks whose `_fut_waiter` is done
    lockWait     C  contended: `await fut`, the future pending.  Cancellation = `fut.cancel()`
                    (`deliver i`); the entry stays in `_waiters` until the task runs
                    (`lockCancelled`), `release()` skips and drops cancelled entries
  `await anext(self.iterator, _tee_end)` holding the lock
    synchronous source (`_IterableAsyncIterator.__anext__`):
    srcCic       C  `checkpoint_if_cancelled()` BEFORE `next(self.iterator)`: nothing taken
    srcShield r  S  `cancel_shielded_checkpoint()` AFTER `next(self.iterator)` returned `r`
                    (`none` = StopIteration): the element is in a local variable only
    asynchronous source (environment, assumed cancel-safe: a cancelled `__anext__` takes nothing):
    srcWait      C  the source's `__anext__` is pending; `deliver i` cancels what it awaits
    srcCancelled    ... and the task has not run yet
  A CancelledError raised inside `async with self.lock` releases the lock (`__aexit__`).

Events
* `next i`     consumer `i` (idle) calls `__anext__`; runs up to the first suspension.
* `step i`     the loop resumes consumer `i` (not while it waits for a pending future).
* `srcYield`/`srcEnd`  (async source) the pending `__anext__` of the source returns / raises
               StopAsyncIteration; the lock owner stores the value and runs on.
* `cancel i`   the scope of consumer `i`'s current (or, when idle, next) call is cancelled.
* `deliver i`  `_deliver_cancellation` cancels the pending future consumer `i` waits for
               (lock queue or asynchronous source).  Suspensions in `sleep(0)` need no such event:
               a cancelled scope makes the resumption raise.
-/
import AnyioModel.Util.LTS

namespace AnyioModel.Iter.TeeCancel

inductive Pc (α : Type) where
  | idle
  | cicReplay
  | cicAcquire
  | lockWait
  | lockCancelled
  | lockGranted
  | srcCic
  | srcShield (r : Option α)
  | srcWait
  | srcCancelled
  | endck
  | yielding (v : α)
  deriving Repr

inductive Out (α : Type) where
  | susp
  | ret (v : α)
  | stop                          -- StopAsyncIteration
  | cancelled                     -- CancelledError out of `__anext__`
  | runtimeError                  -- Lock.acquire by the owner (shown unreachable)
  | env                           -- environment event, nothing to observe
  deriving DecidableEq, Repr

inductive Ev where
  | next (i : Nat)
  | step (i : Nat)
  | srcYield
  | srcEnd
  | cancel (i : Nat)
  | deliver (i : Nat)
  deriving DecidableEq, Repr

structure State (α : Type) where
  n          : Nat                   -- number of consumers
  sync       : Bool                  -- the source is a plain iterator behind `_IterableAsyncIterator`
  src        : List α                -- what the source will still produce
  links      : List (Option α)       -- filled links in chain order; `none` = `_tee_end`
  owner      : Option Nat
  waiters    : List Nat
  cursor     : Nat → Nat
  pc         : Nat → Pc α
  ey         : Nat → Bool            -- `_element_yielded`
  canc       : Nat → Bool            -- `cancel_called` of the scope around the current/next call
  -- ghosts
  consumed   : List α                -- what the source has produced
  ended      : Bool                  -- the source has raised StopIteration / StopAsyncIteration
  srcCalls   : Nat                   -- invocations of the source's `__anext__`
  srcCancels : Nat                   -- ... that ended with CancelledError
  got        : Nat → List α          -- values `__anext__` has returned to consumer i
  finished   : Nat → Bool            -- consumer i has received StopAsyncIteration
  ncanc      : Nat → Nat             -- calls of consumer i that ended with CancelledError

variable {α : Type}

def init (n : Nat) (sync : Bool) (xs : List α) : State α :=
  { n, sync, src := xs, links := [], owner := none, waiters := [], cursor := fun _ => 0,
    pc := fun _ => .idle, ey := fun _ => false, canc := fun _ => false, consumed := [],
    ended := false, srcCalls := 0, srcCancels := 0, got := fun _ => [],
    finished := fun _ => false, ncanc := fun _ => 0 }

def Pc.isIdle : Pc α → Bool
  | .idle => true
  | _ => false

def Pc.isLockCancelled : Pc α → Bool
  | .lockCancelled => true
  | _ => false

/-- `Lock.release()`: entries whose future is cancelled are dropped, the first other waiter gets
the lock at once (it resumes later) -/
def release (s : State α) : State α :=
  match s.waiters.dropWhile (fun w => (s.pc w).isLockCancelled) with
  | [] => { s with owner := none, waiters := [] }
  | w :: ws => { s with owner := some w, waiters := ws, pc := upd s.pc w .lockGranted }

/-- the call of consumer `i` is over: its scope is left -/
def leave (s : State α) (i : Nat) : State α :=
  { s with pc := upd s.pc i .idle, canc := upd s.canc i false }

/-- CancelledError leaves `__anext__` -/
def raiseCancelled (s : State α) (i : Nat) : State α × Out α :=
  ({ leave s i with ncanc := upd s.ncanc i (s.ncanc i + 1) }, .cancelled)

/-- `__anext__` after `fill()` returned, the consumer's link being filled with `l`.
`hadYp` = `had_yieldpoint`. -/
def afterFill (s : State α) (i : Nat) (l : Option α) (hadYp : Bool) : State α × Out α :=
  match l with
  | none =>
    if s.ey i then ({ leave s i with finished := upd s.finished i true }, .stop)
    else ({ s with pc := upd s.pc i .endck }, .susp)                  -- `await checkpoint()`
  | some v =>
    if hadYp then
      ({ leave s i with ey := upd s.ey i true, cursor := upd s.cursor i (s.cursor i + 1),
                        got := upd s.got i (s.got i ++ [v]) }, .ret v)
    else if s.canc i then
      ({ s with pc := upd s.pc i .cicReplay }, .susp)                 -- checkpoint_if_cancelled
    else
      ({ s with ey := upd s.ey i true, cursor := upd s.cursor i (s.cursor i + 1),
                pc := upd s.pc i (.yielding v) }, .susp)              -- cancel_shielded_checkpoint

def step (s : State α) : Ev → Option (State α × Out α)
  | .cancel i =>
    if i < s.n ∧ s.canc i = false then some ({ s with canc := upd s.canc i true }, .env) else none
  | .deliver i =>
    if s.canc i then
      match s.pc i with
      | .lockWait => some ({ s with pc := upd s.pc i .lockCancelled }, .env)
      | .srcWait => some ({ s with pc := upd s.pc i .srcCancelled }, .env)
      | _ => none
    else none
  | .next i =>
    if i ≥ s.n ∨ !(s.pc i).isIdle then none else
    match s.links[s.cursor i]? with
    | some l => some (afterFill s i l false)              -- `if link.filled: return False`
    | none =>                                               -- `async with self.lock`
      if s.owner = none ∧ s.waiters = [] then
        if s.canc i then some ({ s with pc := upd s.pc i .cicAcquire }, .susp)
        else some ({ s with owner := some i, pc := upd s.pc i .lockGranted }, .susp)
      else if s.owner = some i then some (s, .runtimeError)
      else some ({ s with waiters := s.waiters ++ [i], pc := upd s.pc i .lockWait }, .susp)
  | .step i =>
    match s.pc i with
    | .idle => none
    | .lockWait => none
    | .srcWait => none
    | .cicReplay => some (raiseCancelled s i)
    | .cicAcquire => some (raiseCancelled s i)
    | .lockCancelled =>                                     -- `self._waiters.remove(item)`; raise
      some (raiseCancelled { s with waiters := s.waiters.erase i } i)
    | .lockGranted =>
      match s.links[s.cursor i]? with
      | some l => some (afterFill (release s) i l true)    -- `if link.filled: return True`
      | none =>                                             -- `await anext(self.iterator, _tee_end)`
        if s.sync then
          if s.canc i then
            some ({ s with pc := upd s.pc i .srcCic, srcCalls := s.srcCalls + 1 }, .susp)
          else
            match s.src with
            | v :: rest =>
              some ({ s with src := rest, consumed := s.consumed ++ [v], srcCalls := s.srcCalls + 1,
                             pc := upd s.pc i (.srcShield (some v)) }, .susp)
            | [] =>
              some ({ s with ended := true, srcCalls := s.srcCalls + 1,
                             pc := upd s.pc i (.srcShield none) }, .susp)
        else some ({ s with pc := upd s.pc i .srcWait, srcCalls := s.srcCalls + 1 }, .susp)
    | .srcCic =>                                            -- raised inside `async with`: release
      some (raiseCancelled { release s with srcCancels := s.srcCancels + 1 } i)
    | .srcCancelled =>
      some (raiseCancelled { release s with srcCancels := s.srcCancels + 1 } i)
    | .srcShield r =>                                       -- store, release, rest of `__anext__`
      some (afterFill (release { s with links := s.links ++ [r] }) i r true)
    | .endck =>
      if s.canc i then some (raiseCancelled s i)
      else some ({ leave s i with finished := upd s.finished i true }, .stop)
    | .yielding v =>
      some ({ leave s i with got := upd s.got i (s.got i ++ [v]) }, .ret v)
  | .srcYield =>
    match s.owner, s.src with
    | some i, v :: rest =>
      match s.pc i with
      | .srcWait =>
        if s.sync then none else
        some (afterFill (release { s with src := rest, consumed := s.consumed ++ [v],
                                          links := s.links ++ [some v] }) i (some v) true)
      | _ => none
    | _, _ => none
  | .srcEnd =>
    match s.owner, s.src with
    | some i, [] =>
      match s.pc i with
      | .srcWait =>
        if s.sync then none else
        some (afterFill (release { s with ended := true, links := s.links ++ [none] }) i none true)
      | _ => none
    | _, _ => none

abbrev Reach (n : Nat) (sync : Bool) (xs : List α) (s : State α) : Prop :=
  Reachable (fun s0 => s0 = init n sync xs) step s

end AnyioModel.Iter.TeeCancel
