/-
Tee LTS: every event preserves the invariant (`inv_step`).
-/
import AnyioModel.Iter.TeeProofs2
namespace AnyioModel.Iter.Tee
variable {α : Type}

theorem inv_release {xs : List α} {s : State α} {i : Nat} {l : Option α}
    (h : InvOwner xs s i) (hl : s.links[s.cursor i]? = some l) :
    Inv xs (afterFill (release s) i l true).1 := by
  cases hw : s.waiters with
  | nil => exact inv_release_nil h hl hw
  | cons w ws =>
    cases l with
    | none => exact inv_release_cons_none h hl hw
    | some v => exact inv_release_cons_some h hl hw

theorem invOwner_of_granted {xs : List α} {s : State α} {i : Nat} (h : Inv xs s)
    (hpc : s.pc i = .lockGranted) : InvOwner xs s i := by
  obtain ⟨h1, h2, h3, h4, h5, h6, h7, h8, h9, h10⟩ := h
  have ho : s.owner = some i := (h6 i).mp (by simp [hpc])
  refine ⟨h1, h2, h3, h4, h5, ho, by simp [hpc], ?_, ?_, h9, h10⟩
  · intro j hj
    cases hh : (s.pc j).holdsLock with
    | false => rfl
    | true => have := (h6 j).mp hh; rw [ho] at this; exact absurd (Option.some.inj this).symm hj
  · rw [h8, ho, pendingCall_some, hpc]; simp

theorem append_ne_self {β : Type} (l : List β) (x : β) : l ≠ l ++ [x] := by
  intro h; have := congrArg List.length h; simp at this

theorem invOwner_srcYield {xs : List α} {s : State α} {i : Nat} {v : α} {rest : List α}
    (h : Inv xs s) (ho : s.owner = some i) (hsrc : s.src = v :: rest) (hpc : s.pc i = .srcWait) :
    InvOwner xs { s with src := rest, consumed := s.consumed ++ [v], links := s.links ++ [some v] } i ∧
    (s.links ++ [some v])[s.cursor i]? = some (some v) := by
  obtain ⟨h1, h2, h3, h4, h5, h6, h7, h8, h9, h10⟩ := h
  obtain ⟨u1, u2⟩ := h7 i (by simp [hpc])
  have hne := append_ne_self (s.consumed.map some) none
  refine ⟨⟨?_, ?_, ?_, ?_, ?_, ho, by simp [hpc], ?_, ?_, h9, h10⟩, ?_⟩
  · simp only []; rw [← h1, hsrc]; simp
  · left; simp [u1]
  · intro j; have := h3 j; simp; omega
  · intro j; simp only []; rw [List.take_append_of_le_length (h3 j)]; exact h4 j
  · intro j hj; have := (h5 j hj).1; rw [u1] at this; exact absurd this hne
  · intro j hj
    cases hh : (s.pc j).holdsLock with
    | false => rfl
    | true => have := (h6 j).mp hh; rw [ho] at this; exact absurd (Option.some.inj this).symm hj
  · simp only []; rw [h8, ho, pendingCall_some, hpc]; simp
  · rw [u2]; simp [u1]

theorem invOwner_srcEnd {xs : List α} {s : State α} {i : Nat}
    (h : Inv xs s) (ho : s.owner = some i) (hsrc : s.src = []) (hpc : s.pc i = .srcWait) :
    InvOwner xs { s with links := s.links ++ [none] } i ∧
    (s.links ++ [none])[s.cursor i]? = some none := by
  obtain ⟨h1, h2, h3, h4, h5, h6, h7, h8, h9, h10⟩ := h
  obtain ⟨u1, u2⟩ := h7 i (by simp [hpc])
  have hne := append_ne_self (s.consumed.map some) none
  refine ⟨⟨h1, ?_, h3, h4, ?_, ho, by simp [hpc], ?_, ?_, h9, h10⟩, ?_⟩
  · right; simp [u1, hsrc]
  · intro j hj; have := (h5 j hj).1; rw [u1] at this; exact absurd this hne
  · intro j hj
    cases hh : (s.pc j).holdsLock with
    | false => rfl
    | true => have := (h6 j).mp hh; rw [ho] at this; exact absurd (Option.some.inj this).symm hj
  · simp only []; rw [h8, ho, pendingCall_some, hpc]; simp
  · rw [u2]; simp [u1]

set_option hygiene false in
local macro "tee_simp" : tactic => `(tactic|
  (simp_all <;> (try (rw [pendingCall_upd_same] <;> simp [*] <;> done)) <;> (try omega) <;>
    (try (intros; simp_all; done)) <;> (try (simp [pendingCall_some, *]; done)) <;> (try grind)))

set_option hygiene false in
local macro "tee_fields2" : tactic => `(tactic|
  (constructor <;> simp only [] <;> (try intro j) <;>
    (try (have b3 := h3 j; have b4 := h4 j; have b5 := h5 j; have b6 := h6 j; have b7 := h7 j;
          have b9 := h9 j)) <;>
    (try by_cases hj : j = i) <;> (try by_cases hjw : j = w) <;> tee_simp))

theorem inv_step_yielding {xs : List α} {s s' : State α} {o : Out α} {i : Nat} {r : Option α}
    (h : Inv xs s) (hpc : s.pc i = .yielding r)
    (hs : step s (.step i) = some (s', o)) : Inv xs s' := by
  obtain ⟨h1, h2, h3, h4, h5, h6, h7, h8, h9, h10⟩ := h
  simp only [step, hpc] at hs
  have a3 := h3 i; have a4 := h4 i; have a5 := h5 i; have a6 := h6 i; have a7 := h7 i
  have a9 := h9 i
  rw [hpc] at a4 a5 a6 a7 a9
  simp at a6 a9
  cases r with
  | some v => simp only [] at hs; cases hs; tee_fields2
  | none => simp only [] at hs; cases hs; tee_fields2



theorem inv_step_unfilled {xs : List α} {s : State α} {i : Nat}
    (h : Inv xs s) (hpc : s.pc i = .lockGranted) (hl : s.links[s.cursor i]? = none) :
    Inv xs { s with pc := upd s.pc i .srcWait, srcCalls := s.srcCalls + 1 } := by
  obtain ⟨h1, h2, h3, h4, h5, h6, h7, h8, h9, h10⟩ := h
  have a3 := h3 i; have a4 := h4 i; have a5 := h5 i; have a6 := h6 i; have a7 := h7 i
  have a9 := h9 i
  rw [hpc] at a4 a5 a6 a7 a9
  simp at a4 a6 a9
  obtain ⟨u1, u2⟩ := links_unfilled h2 (h3 i) hl
  tee_fields2

theorem inv_step {xs : List α} {s s' : State α} {e : Ev} {o : Out α} (h : Inv xs s)
    (hs : step s e = some (s', o)) : Inv xs s' := by
  cases e with
  | next i => exact inv_next h hs
  | step i =>
    cases hpc : s.pc i with
    | idle => simp [step, hpc] at hs
    | lockWait => simp [step, hpc] at hs
    | srcWait => simp [step, hpc] at hs
    | yielding r => exact inv_step_yielding h hpc hs
    | lockGranted =>
      simp only [step, hpc] at hs
      split at hs
      · rename_i l hl
        have e1 := congrArg Prod.fst (Option.some.inj hs)
        simp only [] at e1
        subst e1
        exact inv_release (invOwner_of_granted h hpc) hl
      · rename_i hl
        cases hs
        exact inv_step_unfilled h hpc hl
  | srcYield =>
    simp only [step] at hs
    split at hs
    · rename_i i v rest ho hsrc
      split at hs
      · contradiction
      · rename_i hsw
        have hpc : s.pc i = .srcWait := isSrcWait_iff.mp (by simpa using hsw)
        have e1 := congrArg Prod.fst (Option.some.inj hs)
        simp only [] at e1
        subst e1
        obtain ⟨a, b⟩ := invOwner_srcYield h ho hsrc hpc
        exact inv_release a b
    · contradiction
  | srcEnd =>
    simp only [step] at hs
    split at hs
    · rename_i i ho hsrc
      split at hs
      · contradiction
      · rename_i hsw
        have hpc : s.pc i = .srcWait := isSrcWait_iff.mp (by simpa using hsw)
        have e1 := congrArg Prod.fst (Option.some.inj hs)
        simp only [] at e1
        subst e1
        obtain ⟨a, b⟩ := invOwner_srcEnd h ho hsrc hpc
        exact inv_release a b
    · contradiction

end AnyioModel.Iter.Tee
