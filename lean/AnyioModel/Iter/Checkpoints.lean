/-
Checkpoint discipline of `anyio.itertools` (C08, itertools part): two small, self-contained
schemas.  Core Lean only.

(i)  `_IterableAsyncIterator.__anext__` (src/anyio/itertools.py:54-66), the adaptor `_iterate`
     puts around every *synchronous* source:

         await checkpoint_if_cancelled()
         try:    result = next(self.iterator)
         except StopIteration:
             await cancel_shielded_checkpoint(); raise StopAsyncIteration
         await cancel_shielded_checkpoint()
         return result

     One call is a short trace of micro-events (`Mu`); a full traversal (`async for`) of a
     source `xs : List α` is the concatenation of `xs.length + 1` calls.  Theorems: the
     traversal of *any* list (including `[]`) contains exactly -- hence at least --
     `xs.length + 1` yields, a yield precedes every emitted element and the final stop, and a
     call made in a cancelled scope consists of the raising check alone: nothing is pulled
     from the source.

(ii) the tail `if not element_yielded: await checkpoint()` that ends the generator functions
     (`compress`, `dropwhile`, `filterfalse`, `islice`, `pairwise`, `takewhile`, `Chain`,
     `_TeeAsyncIterator`, ...): for a consumer whose loop over an *arbitrary* source trace
     (one that may contain no yield at all, e.g. an empty async generator) emits nothing, the
     tail adds a yield; so a full traversal either emitted an element or passed a yield.

What these lemmas do **not** establish: that each of the 20 functions of the module is an
instance of schema (ii) with its loop correctly keeping `element_yielded`, nor how the functions
that collect their input first (`combinations`, `permutations`, `product`, ...) or have no
source (`repeat`, `count`) place their checkpoints.  That per-function instantiation is decided
by the exhaustive probe matrix of `harness/c08.py` (every function × {`[]`, `[1]`, `[1,0,2]`,
empty async source} × 3 loop configurations on the real code), not by these two lemmas.
-/
namespace AnyioModel.Iter.Checkpoints

/-- micro-events of a traversal, as the event loop and the consumer see them -/
inductive Mu (α : Type) where
  /-- `checkpoint_if_cancelled()`: `raised = false` falls through, `raised = true` raises the
  cancellation exception (the scope is effectively cancelled) -/
  | chk (raised : Bool)
  /-- `cancel_shielded_checkpoint()`: the task yields to the event loop -/
  | yield
  /-- the iterator hands `x` to its consumer -/
  | emit (x : α)
  /-- the iterator raises `StopAsyncIteration` -/
  | stop
  deriving DecidableEq, Repr

variable {α β : Type}

/-- number of yields to the event loop in a trace -/
def yields : List (Mu α) → Nat
  | [] => 0
  | .yield :: tr => yields tr + 1
  | _ :: tr => yields tr

/-- the elements a trace hands to the consumer, in order -/
def emits : List (Mu α) → List α
  | [] => []
  | .emit x :: tr => x :: emits tr
  | _ :: tr => emits tr

/-- the trace contains a cancellation raised by a check -/
def raises : List (Mu α) → Bool
  | [] => false
  | .chk true :: _ => true
  | _ :: tr => raises tr

@[simp] theorem yields_append (a b : List (Mu α)) : yields (a ++ b) = yields a + yields b := by
  induction a with
  | nil => simp [yields]
  | cons e a ih => cases e <;> simp [yields, ih] <;> omega

@[simp] theorem emits_append (a b : List (Mu α)) : emits (a ++ b) = emits a ++ emits b := by
  induction a with
  | nil => simp [emits]
  | cons e a ih => cases e <;> simp [emits, ih]

/-! ### (i) the synchronous-source adaptor -/

/-- one `__anext__` call on the remaining source `xs`; `cancelled` = the caller's scope is
effectively cancelled at the call.  Result: the call's trace and the source afterwards. -/
def anext (cancelled : Bool) : List α → List (Mu α) × List α
  | xs =>
    if cancelled then ([.chk true], xs)            -- raises before `next(self.iterator)`
    else match xs with
      | [] => ([.chk false, .yield, .stop], [])     -- StopIteration: yield, then StopAsyncIteration
      | x :: rest => ([.chk false, .yield, .emit x], rest)

/-- `async for _ in _iterate(xs)` to exhaustion, nobody cancels -/
def traverse : List α → List (Mu α)
  | [] => (anext false ([] : List α)).1
  | x :: xs => (anext false (x :: xs)).1 ++ traverse xs

/-- the same traversal when the scope becomes cancelled just before call number `k` (0-based);
the traversal ends with that call's exception -/
def traverseCancelledAt : Nat → List α → List (Mu α)
  | 0, xs => (anext true xs).1
  | _ + 1, [] => (anext false ([] : List α)).1
  | k + 1, x :: xs => (anext false (x :: xs)).1 ++ traverseCancelledAt k xs

/-- A call in a cancelled scope: the first (and only) micro-event is the raising check; no
yield, no element, no stop, and the source is exactly as before -- nothing was consumed. -/
theorem anext_cancelled (xs : List α) :
    anext true xs = ([.chk true], xs) ∧ (anext true xs).1.head? = some (.chk true) ∧
    emits (anext true xs).1 = [] ∧ yields (anext true xs).1 = 0 ∧ (anext true xs).2 = xs := by
  simp [anext, emits, yields]

/-- A call in a live scope checks first, then yields, and only then returns the next element of
the source (or signals exhaustion): the yield precedes the result in every call. -/
theorem anext_live (xs : List α) :
    ∃ last, (anext false xs).1 = [.chk false, .yield, last] ∧
      ((xs = [] ∧ last = .stop ∧ (anext false xs).2 = []) ∨
       (∃ x rest, xs = x :: rest ∧ last = .emit x ∧ (anext false xs).2 = rest)) := by
  cases xs with
  | nil => exact ⟨.stop, by simp [anext], Or.inl ⟨rfl, rfl, by simp [anext]⟩⟩
  | cons x rest => exact ⟨.emit x, by simp [anext], Or.inr ⟨x, rest, rfl, rfl, by simp [anext]⟩⟩

theorem traverse_nil : traverse ([] : List α) = [.chk false, .yield, .stop] := by
  simp [traverse, anext]

theorem traverse_cons (x : α) (xs : List α) :
    traverse (x :: xs) = .chk false :: .yield :: .emit x :: traverse xs := by
  simp [traverse, anext]

/-- **Full traversal of any synchronous source** (by induction on the list, `[]` included):
exactly `xs.length + 1` yields -- one per element and one for the exhaustion -- ... -/
theorem traverse_yields (xs : List α) : yields (traverse xs) = xs.length + 1 := by
  induction xs with
  | nil => simp [traverse, anext, yields]
  | cons x xs ih => simp [traverse, anext, yields, ih]

/-- ... in particular at least `xs.length + 1`, and at least one even for the empty source. -/
theorem traverse_yields_ge (xs : List α) :
    xs.length + 1 ≤ yields (traverse xs) ∧ 1 ≤ yields (traverse xs) := by
  rw [traverse_yields]; omega

/-- the traversal hands over exactly the source's elements, in order, and never raises -/
theorem traverse_emits (xs : List α) : emits (traverse xs) = xs ∧ raises (traverse xs) = false := by
  induction xs with
  | nil => simp [traverse, anext, emits, raises]
  | cons x xs ih => simp [traverse, anext, emits, raises, ih]

/-- before the `n`-th element is handed over, `n + 1` yields have happened: every prefix of the
traversal that ends with an `emit` contains one more yield than emits -/
theorem traverse_yield_before_each_emit (xs : List α) (pre suf : List (Mu α)) (x : α)
    (h : traverse xs = pre ++ .emit x :: suf) : yields pre = (emits pre).length + 1 := by
  induction xs generalizing pre with
  | nil =>
    rw [traverse_nil] at h
    have : Mu.emit x ∈ [Mu.chk false, Mu.yield, Mu.stop] := by rw [h]; simp
    simp at this
  | cons y ys ih =>
    rw [traverse_cons] at h
    -- `pre` ends inside the first call, or extends past the first emit
    match pre, h with
    | [], h => simp at h
    | [_], h => simp at h
    | [a, b], h =>
      simp at h
      obtain ⟨rfl, rfl, _, _⟩ := h
      simp [yields, emits]
    | a :: b :: c :: pre', h =>
      simp at h
      obtain ⟨rfl, rfl, rfl, h⟩ := h
      have := ih pre' h
      simp [yields, emits, this]

/-- **Cancelled on entry**: the traversal is the raising check alone; no element of the source
is consumed or handed over, whatever the source is. -/
theorem traverse_cancelled_at_entry (xs : List α) :
    traverseCancelledAt 0 xs = [.chk true] ∧ emits (traverseCancelledAt 0 xs) = [] ∧
    raises (traverseCancelledAt 0 xs) = true := by
  simp [traverseCancelledAt, anext, emits, raises]

/-- Cancelled before call `k ≤ xs.length`: exactly the first `k` elements were handed over (each
after its own yield, `k` yields in all), then the check raises; element `k` is not consumed. -/
theorem traverse_cancelled_at (k : Nat) (xs : List α) (hk : k ≤ xs.length) :
    emits (traverseCancelledAt k xs) = xs.take k ∧ yields (traverseCancelledAt k xs) = k ∧
    raises (traverseCancelledAt k xs) = true := by
  induction k generalizing xs with
  | zero => simp [traverseCancelledAt, anext, emits, yields, raises]
  | succ k ih =>
    cases xs with
    | nil => simp at hk
    | cons x xs =>
      have := ih xs (by simpa using hk)
      simp [traverseCancelledAt, anext, emits, yields, raises, this]

/-! ### (ii) "nothing was yielded ⇒ checkpoint" -/

/-- `await checkpoint()` in a live scope -/
def checkpoint : List (Mu β) := [.chk false, .yield]

/-- the generator's end: `if not element_yielded: await checkpoint()`, then `StopAsyncIteration`.
`body` is the trace of the generator's loop; `element_yielded` is true iff the loop handed an
element to the consumer. -/
def withTail (body : List (Mu β)) : List (Mu β) :=
  body ++ (if emits body = [] then checkpoint else []) ++ [.stop]

/-- **Tail schema.**  For *any* loop trace: if it emitted nothing, the complete traversal
contains a yield (the tail's); the tail never adds or removes an element. -/
theorem withTail_checkpoint (body : List (Mu β)) :
    emits (withTail body) = emits body ∧
    (emits body = [] → yields (withTail body) = yields body + 1) ∧
    (emits body ≠ [] → yields (withTail body) = yields body) := by
  unfold withTail checkpoint
  by_cases h : emits body = [] <;> simp [h, emits, yields]

/-- hence: a complete traversal either handed over an element or passed a yield -/
theorem withTail_emits_or_yields (body : List (Mu β)) :
    emits (withTail body) ≠ [] ∨ 1 ≤ yields (withTail body) := by
  obtain ⟨h1, h2, _⟩ := withTail_checkpoint body
  by_cases h : emits body = []
  · right; rw [h2 h]; omega
  · left; rw [h1]; exact h

/-- A consumer loop of the shape `async for element in source: [maybe] yield g(element)`:
it sees the source's micro-events (it awaits the source's `__anext__`, so the source's checks and
yields are part of its own traversal), hands over `f x` for the source elements it keeps
(`f x = none`: dropped, as in `filterfalse`, `dropwhile`, `compress`, `takewhile` before the
break), and swallows the source's stop. -/
def consume (f : α → Option β) : List (Mu α) → List (Mu β)
  | [] => []
  | .chk r :: tr => .chk r :: consume f tr
  | .yield :: tr => .yield :: consume f tr
  | .emit x :: tr =>
    match f x with
    | some y => .emit y :: consume f tr
    | none => consume f tr
  | .stop :: tr => consume f tr

theorem consume_yields (f : α → Option β) (src : List (Mu α)) :
    yields (consume f src) = yields src := by
  induction src with
  | nil => rfl
  | cons e src ih =>
    cases e <;> simp [consume, yields, ih]
    split <;> simp [yields, ih]

theorem consume_emits (f : α → Option β) (src : List (Mu α)) :
    emits (consume f src) = (emits src).filterMap f := by
  induction src with
  | nil => rfl
  | cons e src ih =>
    cases e <;> simp [consume, emits, ih]
    split <;> simp_all [emits]

/-- **Consumer over an arbitrary source trace** (synchronous or asynchronous source, with or
without yields of its own -- e.g. `src = [.stop]`, an empty async generator): if the complete
traversal of the consumer hands over nothing, it contains a yield. -/
theorem consumer_nothing_emitted_yields (f : α → Option β) (src : List (Mu α))
    (h : emits (withTail (consume f src)) = []) : 1 ≤ yields (withTail (consume f src)) := by
  rcases withTail_emits_or_yields (consume f src) with h' | h'
  · exact absurd h h'
  · exact h'

/-- ... and over a synchronous source `xs` it contains at least `xs.length + 1` yields whatever
it hands over: the adaptor's yields are all part of the consumer's traversal. -/
theorem consumer_over_sync_source_yields (f : α → Option β) (xs : List α) :
    xs.length + 1 ≤ yields (withTail (consume f (traverse xs))) := by
  obtain ⟨_, h2, h3⟩ := withTail_checkpoint (consume f (traverse xs))
  by_cases h : emits (consume f (traverse xs)) = []
  · rw [h2 h, consume_yields, traverse_yields]; omega
  · rw [h3 h, consume_yields, traverse_yields]; omega

/-! ### non-vacuity -/

example : traverse ([] : List Nat) = [.chk false, .yield, .stop] := by decide
example : traverse [7, 8] =
    [.chk false, .yield, .emit 7, .chk false, .yield, .emit 8, .chk false, .yield, .stop] := by
  decide
example : traverseCancelledAt 1 [7, 8] = [.chk false, .yield, .emit 7, .chk true] := by decide
/-- `filterfalse(truthy, [1, 0, 2])`-like: keeps one element, three source yields + none from the tail -/
example : withTail (consume (fun x => if x = 0 then some x else none) (traverse [1, 0, 2])) =
    [.chk false, .yield, .chk false, .yield, .emit 0, .chk false, .yield, .chk false, .yield,
     .stop] := by decide
/-- an empty asynchronous source (no yield of its own): the tail supplies the only yield -/
example : withTail (consume (fun x : Nat => some x) [.stop]) = [.chk false, .yield, .stop] := by
  decide

end AnyioModel.Iter.Checkpoints
