/-
Helper lemmas for C19: each loop of `AnyioModel.Iter.Itertools` expressed with core `List`
combinators.
-/
import AnyioModel.Iter.Itertools
import AnyioModel.Iter.Reduce

namespace AnyioModel.Iter

section
variable {α β κ : Type}

/-! accumulate -/

theorem accLoop_eq_scanl (f : α → α → α) (t : α) (xs : List α) :
    t :: accLoop f t xs = List.scanl f t xs := by
  induction xs generalizing t with
  | nil => simp [accLoop]
  | cons x xs ih => simp [accLoop, List.scanl_cons, ih]

/-! chain -/

theorem chainInner_eq (rest xs : List α) : chainInner rest xs = xs ++ rest := by
  induction xs with
  | nil => rfl
  | cons x xs ih => simp [chainInner, ih]

theorem chainLoop_eq (xss : List (List α)) : chainLoop xss = xss.flatten := by
  induction xss with
  | nil => rfl
  | cons xs xss ih => simp [chainLoop, chainInner_eq, ih]

theorem collect_eq (xs : List α) : collect xs = xs := by
  induction xs with
  | nil => rfl
  | cons x xs ih => simp [collect, ih]

/-! compress -/

theorem compressLoop_eq (ds : List α) (ss : List Bool) :
    compressLoop ds ss = ((ds.zip ss).filter (·.2)).map (·.1) := by
  induction ds generalizing ss with
  | nil => simp [compressLoop]
  | cons d ds ih =>
    cases ss with
    | nil => simp [compressLoop]
    | cons s ss => cases s <;> simp [compressLoop, ih]

/-! dropwhile / filterfalse / takewhile -/

theorem dropwhileLoop_false (p : α → Bool) (xs : List α) : dropwhileLoop p false xs = xs := by
  induction xs with
  | nil => rfl
  | cons x xs ih => simp [dropwhileLoop, ih]

theorem dropwhileLoop_true (p : α → Bool) (xs : List α) :
    dropwhileLoop p true xs = xs.dropWhile p := by
  induction xs with
  | nil => rfl
  | cons x xs ih =>
    cases h : p x <;> simp [dropwhileLoop, h, ih, dropwhileLoop_false]

theorem filterfalseLoop_eq (p : α → Bool) (xs : List α) :
    filterfalseLoop p xs = xs.filter fun x => !p x := by
  induction xs with
  | nil => rfl
  | cons x xs ih => cases h : p x <;> simp [filterfalseLoop, h, ih]

theorem takewhileLoop_eq (p : α → Bool) (xs : List α) :
    takewhileLoop p xs = xs.takeWhile p := by
  induction xs with
  | nil => rfl
  | cons x xs ih => cases h : p x <;> simp [takewhileLoop, h, ih]

/-! pairwise -/

theorem pairwiseLoop_eq (a : α) (xs : List α) : pairwiseLoop a xs = (a :: xs).zip xs := by
  induction xs generalizing a with
  | nil => simp [pairwiseLoop]
  | cons x xs ih => simp [pairwiseLoop, ih]

/-! starmap -/

theorem starmapLoop_eq (f : List α → β) (xss : List (List α)) : starmapLoop f xss = xss.map f := by
  induction xss with
  | nil => rfl
  | cons xs xss ih => simp [starmapLoop, collect_eq, ih]

/-! reduce -/

theorem reduceLoopSync_eq (f : β → α → β) (v : β) (xs : List α) :
    reduceLoopSync f v xs = xs.foldl f v := by
  induction xs generalizing v with
  | nil => rfl
  | cons x xs ih => simp [reduceLoopSync, ih]

theorem reduceLoopAsync_eq (f : β → α → β) (v : β) (xs : List α) :
    reduceLoopAsync f v xs = xs.foldl f v := by
  induction xs generalizing v with
  | nil => rfl
  | cons x xs ih => simp [reduceLoopAsync, ih]

/-! islice -/

theorem isliceLoop_nil (start : Nat) (stop : Option Nat) (step i : Nat) :
    isliceLoop start stop step i ([] : List α) = [] := by
  unfold isliceLoop; split <;> simp

theorem isliceLoop_none_cons (start step i : Nat) (x : α) (xs : List α) :
    isliceLoop start none step i (x :: xs) =
      if start ≤ i ∧ (i - start) % step = 0 then x :: isliceLoop start none step (i + 1) xs
      else isliceLoop start none step (i + 1) xs := by
  rw [isliceLoop]; simp

/-- a `stop` is a `take` -/
theorem isliceLoop_stop (start s step i : Nat) (xs : List α) :
    isliceLoop start (some s) step i xs = isliceLoop start none step i (xs.take (s - i)) := by
  induction xs generalizing i with
  | nil => simp [isliceLoop_nil]
  | cons x xs ih =>
    by_cases h : i < s
    · have e : s - i = (s - (i + 1)) + 1 := by omega
      rw [e, List.take_succ_cons, isliceLoop_none_cons, isliceLoop]
      simp only [h, decide_true, if_true]
      rw [ih (i + 1)]
    · have e : s - i = 0 := by omega
      rw [e, List.take_zero, isliceLoop_nil, isliceLoop]
      simp [h]

/-- before `start` nothing is yielded: a `drop` -/
theorem isliceLoop_start (start step i : Nat) (xs : List α) (h : i ≤ start) :
    isliceLoop start none step i xs = isliceLoop start none step start (xs.drop (start - i)) := by
  induction xs generalizing i with
  | nil => simp [isliceLoop_nil]
  | cons x xs ih =>
    by_cases e : i = start
    · subst e; simp
    · have h1 : ¬ start ≤ i := by omega
      have e2 : start - i = (start - (i + 1)) + 1 := by omega
      rw [isliceLoop_none_cons, e2, List.drop_succ_cons]
      simp only [h1, false_and, if_false]
      exact ih (i + 1) (by omega)

/-- from `start` on: the elements whose offset is a multiple of `step` -/
theorem isliceLoop_stride (start step i : Nat) (xs : List α) (h : start ≤ i) :
    isliceLoop start none step i xs =
      ((xs.zipIdx (i - start)).filter fun p => p.2 % step = 0).map (·.1) := by
  induction xs generalizing i with
  | nil => simp [isliceLoop_nil]
  | cons x xs ih =>
    rw [isliceLoop_none_cons, List.zipIdx_cons, ih (i + 1) (by omega)]
    have e : i + 1 - start = i - start + 1 := by omega
    rw [e]
    by_cases hm : (i - start) % step = 0
    · simp [h, hm]
    · simp [h, hm]

theorem isliceLoop_eq (start : Nat) (stop : Option Nat) (step : Nat) (xs : List α) :
    isliceLoop start stop step 0 xs = everyNth step ((takeOpt stop xs).drop start) := by
  have key : ∀ ys : List α, isliceLoop start none step 0 ys = everyNth step (ys.drop start) := by
    intro ys
    rw [isliceLoop_start start step 0 ys (Nat.zero_le _), isliceLoop_stride _ _ _ _ (Nat.le_refl _)]
    simp [everyNth]
  cases stop with
  | none => simpa [takeOpt] using key xs
  | some s => rw [isliceLoop_stop]; simpa [takeOpt] using key (xs.take s)

theorem normalizeIndex_neg {v : Int} (h : v < 0) : normalizeIndex v = .error .valueError := by
  simp [normalizeIndex, h]
theorem normalizeIndex_nonneg {v : Int} (h : ¬ v < 0) : normalizeIndex v = .ok v.toNat := by
  simp [normalizeIndex, h]

theorem isliceRun_eq (start : Nat) (stop : Option Nat) (step : Nat) (xs : List α) :
    isliceRun start stop step xs =
      if step = 0 then .error .valueError
      else .ok (everyNth step ((takeOpt stop xs).drop start)) := by
  unfold isliceRun
  by_cases h0 : step = 0
  · simp [h0]
  · have h1 : ¬ step ≤ 0 := by omega
    simp only [h0, h1, if_false]
    split
    · rename_i h
      rcases h with h | h
      · subst h; simp [takeOpt, everyNth]
      · subst h
        have : (List.take start xs).drop start = [] := by
          apply List.drop_eq_nil_of_le; simp [List.length_take]; omega
        simp [takeOpt, this, everyNth]
    · rw [isliceLoop_eq]

theorem isliceCore_eq (a b c : Option Int) (xs : List α) :
    isliceCore a b c xs = specSlice a b c xs := by
  unfold isliceCore specSlice
  rcases a with _ | va <;> rcases b with _ | vb <;> rcases c with _ | vc
  all_goals
    simp only [Option.any_none, Option.any_some, Option.getD_none, Option.getD_some,
      Option.map_none, Option.map_some]
  all_goals
    (try by_cases ha : va < 0) <;> (try by_cases hb : vb < 0) <;> (try by_cases hc : vc < 0) <;>
    (try (have hc1 : (vc.toNat = 0) = (vc < 1) := by (apply propext; omega))) <;>
    simp [*, normalizeIndex_neg, normalizeIndex_nonneg, isliceRun_eq, Except.map, bind, Except.bind,
      pure, Except.pure] <;> omega

/-! batched -/

theorem fillBatch_eq (k : Nat) (batch xs : List α) :
    fillBatch k batch xs = (batch ++ xs.take k, xs.drop k, decide (xs.length < k)) := by
  induction k generalizing batch xs with
  | zero => simp [fillBatch]
  | succ k ih =>
    cases xs with
    | nil => simp [fillBatch]
    | cons x xs => simp [fillBatch, ih]

def batchesOf (m : Nat) (xs : List α) : List (List α) :=
  (List.range ((xs.length + m - 1) / m)).map fun i => (xs.drop (i * m)).take m

theorem batchesOf_short (m : Nat) (xs : List α) (h0 : xs ≠ []) (h : xs.length < m) :
    batchesOf m xs = [xs] := by
  have hl : 0 < xs.length := List.length_pos_iff.mpr h0
  have e : xs.length + m - 1 = (xs.length - 1) + m := by omega
  have hm : 0 < m := by omega
  unfold batchesOf
  rw [e, Nat.add_div_right _ hm, Nat.div_eq_of_lt (by omega)]
  simp [List.take_of_length_le (Nat.le_of_lt h)]

theorem batchesOf_nil (m : Nat) (hm : 0 < m) : batchesOf m ([] : List α) = [] := by
  unfold batchesOf
  have : (([] : List α).length + m - 1) / m = 0 := by
    simp only [List.length_nil, Nat.zero_add]; exact Nat.div_eq_of_lt (by omega)
  rw [this]; rfl

theorem batchesOf_long (m : Nat) (xs : List α) (hm : 0 < m) (h : m ≤ xs.length) :
    batchesOf m xs = xs.take m :: batchesOf m (xs.drop m) := by
  unfold batchesOf
  have e : xs.length + m - 1 = ((xs.drop m).length + m - 1) + m := by
    simp [List.length_drop]; omega
  rw [e, Nat.add_div_right _ hm, List.range_succ_eq_map]
  simp only [List.map_cons, List.map_map, Nat.zero_mul, List.drop_zero]
  congr 1
  apply List.map_congr_left
  intro i _
  simp only [Function.comp, List.drop_drop, Nat.succ_mul]
  rw [Nat.add_comm]

theorem batchedLoop_eq (m : Nat) (strict : Bool) (hm : 0 < m) (fuel : Nat) (xs : List α)
    (hf : xs.length < fuel) :
    batchedLoop m strict fuel xs =
      if strict ∧ xs.length % m ≠ 0 then .error .valueError else .ok (batchesOf m xs) := by
  induction fuel generalizing xs with
  | zero => omega
  | succ fuel ih =>
    rw [batchedLoop, fillBatch_eq]
    by_cases hlt : xs.length < m
    · simp only [hlt, decide_true, List.nil_append, List.take_of_length_le (Nat.le_of_lt hlt)]
      by_cases h0 : xs = []
      · subst h0; simp [batchesOf_nil m hm]
      · have hl : 0 < xs.length := List.length_pos_iff.mpr h0
        have hmod : xs.length % m ≠ 0 := by rw [Nat.mod_eq_of_lt hlt]; omega
        cases strict <;> simp [h0, hmod, batchesOf_short m xs h0 hlt]
    · have hle : m ≤ xs.length := by omega
      simp only [hlt, decide_false, List.nil_append]
      rw [ih (xs.drop m) (by simp [List.length_drop]; omega)]
      have hmod : (xs.drop m).length % m = xs.length % m := by
        have : xs.length = (xs.drop m).length + m := by simp [List.length_drop]; omega
        rw [this, Nat.add_mod_right]
      rw [hmod, batchesOf_long m xs hm hle]
      split <;> simp [Except.map]


/-! groupby -/

theorem groupRuns_cons [DecidableEq κ] (key : α → κ) (x : α) (xs : List α) :
    groupRuns key (x :: xs) =
      (key x, x :: xs.takeWhile (fun y => key y = key x)) ::
        groupRuns key (xs.dropWhile (fun y => key y = key x)) := by
  rw [groupRuns]

theorem groupbyLoop_eq [DecidableEq κ] (key : α → κ) (gk : κ) (values xs : List α) :
    groupbyLoop key gk values xs =
      (gk, values ++ xs.takeWhile (fun y => key y = gk)) ::
        groupRuns key (xs.dropWhile (fun y => key y = gk)) := by
  induction xs generalizing gk values with
  | nil => simp [groupbyLoop, groupRuns]
  | cons x xs ih =>
    by_cases h : key x = gk
    · simp [groupbyLoop, h, ih]
    · simp [groupbyLoop, h, ih, groupRuns_cons]


/-! count / repeat / cycle -/

theorem countLoop_eq (step : Int) (k : Nat) (n : Int) :
    countLoop step k n = (List.range k).map fun (i : Nat) => n + (i : Int) * step := by
  induction k generalizing n with
  | zero => simp [countLoop]
  | succ k ih =>
    rw [countLoop, ih, List.range_succ_eq_map]
    simp only [List.map_cons, List.map_map]
    congr 1
    · simp
    · apply List.map_congr_left
      intro i _
      simp only [Function.comp, Nat.succ_eq_add_one, Int.natCast_add, Int.add_mul]
      omega

theorem repeatLoop_eq (x : α) (k r : Nat) : repeatLoop x k r = List.replicate (min k r) x := by
  induction k generalizing r with
  | zero => simp [repeatLoop]
  | succ k ih =>
    cases r with
    | zero => simp [repeatLoop]
    | succ r => simp [repeatLoop, ih, Nat.succ_min_succ, List.replicate_succ]

theorem cycleFirst_eq (k : Nat) (xs saved : List α) :
    cycleFirst k xs saved = (xs.take k, k - xs.length, saved ++ xs.take k, decide (xs.length < k)) := by
  induction k generalizing xs saved with
  | zero => simp [cycleFirst]
  | succ k ih =>
    cases xs with
    | nil => simp [cycleFirst]
    | cons x xs => simp [cycleFirst, ih]

theorem cycleRest_eq (saved : List α) (hs : saved ≠ []) (k : Nat) (cur : List α) (m : Nat)
    (hm : k ≤ m) :
    cycleRest saved k cur = (cur ++ (List.replicate m saved).flatten).take k := by
  induction k generalizing cur m with
  | zero => simp [cycleRest]
  | succ k ih =>
    cases cur with
    | cons x cur => simp [cycleRest, ih cur m (by omega)]
    | nil =>
      cases saved with
      | nil => exact absurd rfl hs
      | cons s ss =>
        obtain ⟨m', rfl⟩ : ∃ m', m = m' + 1 := ⟨m - 1, by omega⟩
        rw [cycleRest, ih ss m' (by omega)]
        simp [List.replicate_succ]

theorem impl_cycle_eq (take : Nat) (xs : List α) : impl_cycle take xs = spec_cycle take xs := by
  unfold impl_cycle spec_cycle
  rw [cycleFirst_eq]
  simp only [List.nil_append]
  by_cases h : xs.length < take
  · have ht : xs.take take = xs := List.take_of_length_le (by omega)
    simp only [h, decide_true, Bool.not_true, ht]
    by_cases h0 : xs = []
    · subst h0; simp
    · have hl : 0 < xs.length := List.length_pos_iff.mpr h0
      obtain ⟨t, rfl⟩ : ∃ t, take = t + 1 := ⟨take - 1, by omega⟩
      simp only [h0, List.isEmpty_iff, if_false, Bool.false_eq_true]
      rw [cycleRest_eq xs h0 _ [] t (by omega)]
      have e : t + 1 = xs.length + (t + 1 - xs.length) := by omega
      rw [List.replicate_succ, List.flatten_cons]
      conv => rhs; rw [e, List.take_length_add_append]
      simp
  · simp only [h, decide_false, Bool.not_false, if_true]
    cases take with
    | zero => simp
    | succ t =>
      rw [List.replicate_succ, List.flatten_cons, List.take_append_of_le_length (by omega)]


/-! zip_longest -/

/-- number of iterators still marked active whose source is exhausted -/
def zlE : List (Bool × List α) → Nat
  | [] => 0
  | (true, []) :: its => zlE its + 1
  | _ :: its => zlE its

/-- number of active iterators that still have an element -/
def zlN : List (Bool × List α) → Nat
  | [] => 0
  | (true, _ :: _) :: its => zlN its + 1
  | _ :: its => zlN its

def zlRow (fill : α) : List (Bool × List α) → List α
  | [] => []
  | (true, x :: _) :: its => x :: zlRow fill its
  | _ :: its => fill :: zlRow fill its

def zlAdv : List (Bool × List α) → List (Bool × List α)
  | [] => []
  | (true, _ :: r) :: its => (true, r) :: zlAdv its
  | (true, []) :: its => (false, []) :: zlAdv its
  | (false, r) :: its => (false, r) :: zlAdv its

theorem zlRound_eq (fill : α) (its : List (Bool × List α)) (na : Nat) :
    zlRound fill its na =
      if zlE its = 0 ∨ zlE its < na then some (zlRow fill its, zlAdv its, na - zlE its)
      else none := by
  induction its generalizing na with
  | nil => simp [zlRound, zlE, zlRow, zlAdv]
  | cons p its ih =>
    obtain ⟨a, r⟩ := p
    cases a with
    | false =>
      simp only [zlRound, ih, zlE, zlRow, zlAdv]
      split <;> simp [*]
    | true =>
      cases r with
      | cons x r =>
        simp only [zlRound, ih, zlE, zlRow, zlAdv]
        split <;> simp [*]
      | nil =>
        simp only [zlRound, ih, zlE, zlRow, zlAdv]
        by_cases h1 : na - 1 = 0
        · have : ¬ (zlE its + 1 = 0 ∨ zlE its + 1 < na) := by omega
          simp [h1]; omega
        · simp only [h1, if_false]
          by_cases h2 : zlE its = 0 ∨ zlE its < na - 1
          · have : zlE its + 1 = 0 ∨ zlE its + 1 < na := by omega
            simp only [h2, this, if_true, Option.map_some]
            congr 3; omega
          · have : ¬ (zlE its + 1 = 0 ∨ zlE its + 1 < na) := by omega
            simp [h2]; omega

/-- loop invariant: a deactivated iterator is exhausted -/
def zlInv (its : List (Bool × List α)) : Prop := ∀ p ∈ its, p.1 = false → p.2 = []

theorem zlInv_adv (its : List (Bool × List α)) (h : zlInv its) : zlInv (zlAdv its) := by
  induction its with
  | nil => intro p hp; simp [zlAdv] at hp
  | cons q its ih =>
    have hq := h q (List.mem_cons_self ..)
    have ht : zlInv its := fun p hp => h p (List.mem_cons_of_mem _ hp)
    obtain ⟨a, r⟩ := q
    cases a <;> cases r <;> intro p hp <;> simp only [zlAdv, List.mem_cons] at hp <;>
      rcases hp with rfl | hp <;> first | exact ih ht p hp | simp_all

theorem zlN_eq_zero_iff (its : List (Bool × List α)) (h : zlInv its) :
    zlN its = 0 ↔ maxLen (its.map (·.2)) = 0 := by
  induction its with
  | nil => simp [zlN, maxLen]
  | cons q its ih =>
    have hq := h q (List.mem_cons_self ..)
    have ht : zlInv its := fun p hp => h p (List.mem_cons_of_mem _ hp)
    obtain ⟨a, r⟩ := q
    cases a <;> cases r <;> simp_all [zlN, maxLen] <;> omega

/-- active iterators after a pass = those that produced an element -/
theorem zl_active_adv (its : List (Bool × List α)) :
    zlN (zlAdv its) + zlE (zlAdv its) = zlN its := by
  induction its with
  | nil => simp [zlN, zlE, zlAdv]
  | cons q its ih =>
    obtain ⟨a, r⟩ := q
    cases a <;> cases r <;> (try rename_i x r; cases r) <;> simp_all [zlN, zlE, zlAdv] <;> omega

theorem maxLen_tail (xss : List (List α)) : maxLen (xss.map List.tail) = maxLen xss - 1 := by
  induction xss with
  | nil => simp [maxLen]
  | cons xs xss ih => simp [maxLen, ih]; omega

theorem zlAdv_rests (its : List (Bool × List α)) (h : zlInv its) :
    (zlAdv its).map (·.2) = (its.map (·.2)).map List.tail := by
  induction its with
  | nil => simp [zlAdv]
  | cons q its ih =>
    have hq := h q (List.mem_cons_self ..)
    have ht : zlInv its := fun p hp => h p (List.mem_cons_of_mem _ hp)
    obtain ⟨a, r⟩ := q
    cases a <;> cases r <;> simp_all [zlAdv]

theorem zlRow_eq (fill : α) (its : List (Bool × List α)) (h : zlInv its) :
    zlRow fill its = (its.map (·.2)).map fun xs => xs.getD 0 fill := by
  induction its with
  | nil => simp [zlRow]
  | cons q its ih =>
    have hq := h q (List.mem_cons_self ..)
    have ht : zlInv its := fun p hp => h p (List.mem_cons_of_mem _ hp)
    obtain ⟨a, r⟩ := q
    cases a <;> cases r <;> simp_all [zlRow]

def rowsOf (fill : α) (xss : List (List α)) : List (List α) :=
  (List.range (maxLen xss)).map fun i => xss.map fun xs => xs.getD i fill

theorem rowsOf_step (fill : α) (xss : List (List α)) (h : maxLen xss ≠ 0) :
    rowsOf fill xss = (xss.map fun xs => xs.getD 0 fill) :: rowsOf fill (xss.map List.tail) := by
  unfold rowsOf
  obtain ⟨m, hm⟩ : ∃ m, maxLen xss = m + 1 := ⟨maxLen xss - 1, by omega⟩
  rw [maxLen_tail, hm, List.range_succ_eq_map]
  simp only [List.map_cons, List.map_map, Nat.add_sub_cancel]
  congr 1
  apply List.map_congr_left
  intro i _
  simp only [Function.comp]
  apply List.map_congr_left
  intro xs _
  cases xs <;> simp

theorem zlLoop_eq (fill : α) (fuel : Nat) (its : List (Bool × List α)) (hi : zlInv its)
    (hf : maxLen (its.map (·.2)) < fuel) (ha : 0 < zlN its + zlE its) :
    zlLoop fill fuel its (zlN its + zlE its) = rowsOf fill (its.map (·.2)) := by
  induction fuel generalizing its with
  | zero => omega
  | succ fuel ih =>
    rw [zlLoop, zlRound_eq]
    by_cases hn : zlN its = 0
    · have hm := (zlN_eq_zero_iff its hi).mp hn
      have : ¬ (zlE its = 0 ∨ zlE its < zlN its + zlE its) := by omega
      rw [if_neg this]
      simp [rowsOf, hm]
    · have hm : maxLen (its.map (·.2)) ≠ 0 := fun h => hn ((zlN_eq_zero_iff its hi).mpr h)
      have : zlE its = 0 ∨ zlE its < zlN its + zlE its := by omega
      rw [if_pos this]
      simp only []
      have e : zlN its + zlE its - zlE its = zlN (zlAdv its) + zlE (zlAdv its) := by
        rw [zl_active_adv]; omega
      rw [e, ih (zlAdv its) (zlInv_adv its hi)
        (by rw [zlAdv_rests its hi, maxLen_tail]; omega) (by rw [zl_active_adv]; omega),
        rowsOf_step fill _ hm, zlRow_eq fill its hi, zlAdv_rests its hi]


theorem zl_init (xss : List (List α)) :
    zlInv (xss.map fun xs => (true, xs)) ∧
    zlN (xss.map fun xs => (true, xs)) + zlE (xss.map fun xs => (true, xs)) = xss.length ∧
    (xss.map fun xs => (true, xs)).map (·.2) = xss := by
  refine ⟨?_, ?_, ?_⟩
  · intro p hp; simp at hp; obtain ⟨_, _, rfl⟩ := hp; simp
  · induction xss with
    | nil => simp [zlN, zlE]
    | cons xs xss ih => cases xs <;> simp_all [zlN, zlE] <;> omega
  · induction xss with
    | nil => rfl
    | cons xs xss ih => simp_all

theorem impl_zip_longest_eq (fill : α) (xss : List (List α)) :
    impl_zip_longest fill xss = spec_zip_longest fill xss := by
  unfold impl_zip_longest spec_zip_longest
  by_cases h : xss.length = 0
  · have : xss = [] := List.eq_nil_of_length_eq_zero h
    subst this; simp [maxLen]
  · obtain ⟨hi, hc, hr⟩ := zl_init xss
    simp only [h, if_false]
    have := zlLoop_eq fill (maxLen xss + 1) _ hi (by rw [hr]; omega) (by rw [hc]; omega)
    rw [hc, hr] at this
    rw [this]; rfl

end
end AnyioModel.Iter
