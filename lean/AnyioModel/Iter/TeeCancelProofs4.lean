/-
Tee with cancellation: every event preserves the data invariant (`dinv_step`), hence `Inv`
(`inv_step`), hence `Inv` holds in every reachable state (`inv_reach`).
-/
import AnyioModel.Iter.TeeCancelProofs3
namespace AnyioModel.Iter.TeeCancel
variable {α : Type}

theorem plain_idle {q : Pc α} (h : pend q = []) : PcLe (.idle : Pc α) q :=
  pcle_of_plain rfl rfl rfl h

theorem dinv_step {xs : List α} {s s' : State α} {e : Ev} {o : Out α} (hL : LInv s)
    (hD : DInv xs s) (hs : step s e = some (s', o)) : DInv xs s' := by
  cases e with
  | cancel i =>
    simp only [step] at hs
    split at hs
    · cases hs
      have hc := held_congr (s := s) (s' := { s with canc := upd s.canc i true }) rfl (fun _ _ => rfl)
      unfold DInv
      rw [hc.1, hc.2]
      exact dcore_frame hD rfl (fun _ => PcLe.rfl)
    · contradiction
  | deliver i =>
    simp only [step] at hs
    split at hs
    · split at hs
      · rename_i hpc; cases hs
        exact dinv_local (i := i) hL (by simp [hpc]) rfl (fun j hj => by simp [hj])
          (dcore_frame hD rfl (pcle_upd (by rw [hpc]; exact pcle_of_plain rfl rfl rfl rfl)))
      · rename_i hpc; cases hs
        have hoi : s.owner = some i := (hL.holder i).mp (by simp [hpc])
        have hh := held_owner hoi
        unfold DInv at hD
        rw [hh.1, hh.2, hpc] at hD
        refine dinv_owner_move (i := i) (p := .srcCancelled) hoi rfl rfl ?_
        exact dcore_frame (dcore_setpc hD (by simp [hpc]) (fun _ => hD.insrc i (by simp [hpc])) (by simp))
          rfl (fun _ => PcLe.rfl)
      · contradiction
    · contradiction
  | next i =>
    simp only [step] at hs
    split at hs
    · contradiction
    rename_i hidle
    have hg : i < s.n ∧ (s.pc i).isIdle = true := by simpa using hidle
    have hpc : s.pc i = .idle := isIdle_iff.mp hg.2
    clear hidle
    split at hs
    · rename_i l hl
      have e : s' = (afterFill s i l false).1 := (congrArg Prod.fst (Option.some.inj hs)).symm
      subst e
      have d := dcore_afterFill false hD hl (by simp [hpc]) (fun j _ => PcLe.rfl)
      exact dinv_local (i := i) hL (by simp [hpc]) (afterFill_owner ..)
        (fun j hj => by obtain ⟨p, hp, -⟩ := afterFill_pc s i l false; rw [hp]; simp [hj]) d
    · split at hs
      · rename_i hfree
        split at hs
        · cases hs
          exact dinv_local (i := i) hL (by simp [hpc]) rfl (fun j hj => by simp [hj])
            (dcore_frame hD rfl (pcle_upd (by rw [hpc]; exact pcle_of_plain rfl rfl rfl rfl)))
        · cases hs
          have h0 := held_none hfree.1
          have h1 := held_owner (s := { s with owner := some i, pc := upd s.pc i .lockGranted }) (i := i) rfl
          unfold DInv at hD ⊢
          rw [h0.1, h0.2] at hD
          rw [h1.1, h1.2]
          simp only [upd_same, heldOf_simps, flying_simps]
          exact dcore_frame hD rfl (pcle_upd (by rw [hpc]; exact pcle_of_plain rfl rfl rfl rfl))
      · split at hs
        · cases hs; exact hD
        · cases hs
          exact dinv_local (i := i) hL (by simp [hpc]) rfl (fun j hj => by simp [hj])
            (dcore_frame hD rfl (pcle_upd (by rw [hpc]; exact pcle_of_plain rfl rfl rfl rfl)))
  | step i =>
    simp only [step] at hs
    split at hs
    · contradiction
    · contradiction
    · contradiction
    · rename_i hpc; cases hs
      exact dinv_local (i := i) hL (by simp [hpc]) rfl (fun j hj => by simp [leave, hj])
        (dcore_frame hD rfl (pcle_upd (i := i) (p := .idle) (by rw [hpc]; exact plain_idle rfl)))
    · rename_i hpc; cases hs
      exact dinv_local (i := i) hL (by simp [hpc]) rfl (fun j hj => by simp [leave, hj])
        (dcore_frame hD rfl (pcle_upd (i := i) (p := .idle) (by rw [hpc]; exact plain_idle rfl)))
    · rename_i hpc; cases hs
      exact dinv_local (i := i) hL (by simp [hpc]) rfl (fun j hj => by simp [leave, hj])
        (dcore_frame hD rfl (pcle_upd (i := i) (p := .idle) (by rw [hpc]; exact plain_idle rfl)))
    · -- lockGranted
      rename_i hpc
      have hoi : s.owner = some i := (hL.holder i).mp (by simp [hpc])
      have hh := held_owner hoi
      have d0 : DCore xs s s.pc [] 0 := by
        have := hD; unfold DInv at this; rw [hh.1, hh.2, hpc] at this; simpa using this
      split at hs
      · rename_i l hl
        have e : s' = (afterFill (release s) i l true).1 := (congrArg Prod.fst (Option.some.inj hs)).symm
        subst e
        exact dinv_leave hL hoi rfl rfl d0 (fun _ _ => PcLe.rfl) (by simp [hpc]) hl
      · rename_i hl
        obtain ⟨hc, hend, hlinks⟩ := dcore_unfilled d0 hl
        have hcalls := d0.calls
        simp only [hend, Bool.false_eq_true, if_false, Nat.add_zero] at hcalls
        split at hs
        · split at hs
          · cases hs
            refine dinv_owner_move (i := i) (p := .srcCic) hoi rfl rfl ?_
            exact dcore_global (dcore_setpc d0 (by simp [hpc]) (fun _ => hc) (by simp)) rfl rfl rfl rfl
              d0.src_ok d0.links_ok d0.ended_src (by simp [hend]; omega)
          · split at hs
            · rename_i v rest hsrc
              cases hs
              refine dinv_owner_move (i := i) (p := .srcShield (some v)) hoi rfl rfl ?_
              refine dcore_global (dcore_setpc d0 (by simp [hpc]) (fun _ => hc) (by simp)) rfl rfl rfl rfl
                ?_ ?_ ?_ ?_
              · simp only []; rw [← d0.src_ok, hsrc]; simp
              · simp [hend, hlinks]
              · intro h; simp only [] at h; rw [hend] at h; contradiction
              · simp [hend]; omega
            · rename_i hsrc
              cases hs
              refine dinv_owner_move (i := i) (p := .srcShield none) hoi rfl rfl ?_
              refine dcore_global (dcore_setpc d0 (by simp [hpc]) (fun _ => hc) (by simp)) rfl rfl rfl rfl
                d0.src_ok ?_ (fun _ => hsrc) ?_
              · simp [hlinks]
              · simp; omega
        · cases hs
          refine dinv_owner_move (i := i) (p := .srcWait) hoi rfl rfl ?_
          exact dcore_global (dcore_setpc d0 (by simp [hpc]) (fun _ => hc) (by simp)) rfl rfl rfl rfl
            d0.src_ok d0.links_ok d0.ended_src (by simp [hend]; omega)
    · -- srcCic
      rename_i hpc
      have hoi : s.owner = some i := (hL.holder i).mp (by simp [hpc])
      cases hs
      exact dinv_srccancel hL hD hoi (by simp [hpc]) (by simp [hpc])
    · -- srcCancelled
      rename_i hpc
      have hoi : s.owner = some i := (hL.holder i).mp (by simp [hpc])
      cases hs
      exact dinv_srccancel hL hD hoi (by simp [hpc]) (by simp [hpc])
    · -- srcShield
      rename_i r hpc
      have hoi : s.owner = some i := (hL.holder i).mp (by simp [hpc])
      have hh := held_owner hoi
      have d0 : DCore xs s s.pc [r] 0 := by
        have := hD; unfold DInv at this; rw [hh.1, hh.2, hpc] at this; simpa using this
      have hc := d0.insrc i (by simp [hpc])
      have e : s' = (afterFill (release { s with links := s.links ++ [r] }) i r true).1 :=
        (congrArg Prod.fst (Option.some.inj hs)).symm
      subst e
      obtain ⟨da, hlk⟩ := dcore_append (s' := { s with links := s.links ++ [r] }) (hl' := []) (fl' := 0)
        (i := i) (r := r) d0 hc (others_not_inSrc hL hoi) (by simp [hpc]) rfl rfl rfl rfl d0.src_ok
        (by simpa using d0.links_ok) d0.ended_src d0.calls
      exact dinv_leave hL hoi rfl rfl da
        (fun j hj => by rw [upd_other _ _ _ _ hj]; exact PcLe.rfl) (by simp) hlk
    · -- endck
      rename_i hpc
      split at hs
      · cases hs
        exact dinv_local (i := i) hL (by simp [hpc]) rfl (fun j hj => by simp [leave, hj])
          (dcore_frame hD rfl (pcle_upd (i := i) (p := .idle) (by rw [hpc]; exact plain_idle rfl)))
      · cases hs
        exact dinv_local (i := i) hL (by simp [hpc]) rfl (fun j hj => by simp [leave, hj])
          (dcore_finish hD (by simp [hpc]) rfl)
    · -- yielding
      rename_i v hpc; cases hs
      exact dinv_local (i := i) hL (by simp [hpc]) rfl (fun j hj => by simp [leave, hj])
        (dcore_yielded hD hpc rfl)
  | srcYield =>
    simp only [step] at hs
    split at hs
    · rename_i i v rest hoi hsrc
      split at hs
      · rename_i hpc
        split at hs
        · contradiction
        · have hh := held_owner hoi
          have d0 : DCore xs s s.pc [] 1 := by
            have := hD; unfold DInv at this; rw [hh.1, hh.2, hpc] at this; simpa using this
          have hc := d0.insrc i (by simp [hpc])
          obtain ⟨-, hend, hlinks⟩ := dcore_unfilled d0 (i := i) (by rw [hc]; simp)
          have hcalls := d0.calls
          simp only [hend, Bool.false_eq_true, if_false, Nat.add_zero] at hcalls
          have e : s' = (afterFill (release { s with src := rest, consumed := s.consumed ++ [v], links := s.links ++ [some v] }) i (some v) true).1 :=
            (congrArg Prod.fst (Option.some.inj hs)).symm
          subst e
          obtain ⟨da, hlk⟩ := dcore_append
            (s' := { s with src := rest, consumed := s.consumed ++ [v], links := s.links ++ [some v] })
            (hl' := []) (fl' := 0) (i := i) (r := some v) d0 hc (others_not_inSrc hL hoi) (by simp [hpc])
            rfl rfl rfl rfl (by simp only []; rw [← d0.src_ok, hsrc]; simp) (by simp [hend, hlinks])
            (by intro h; simp only [] at h; rw [hend] at h; contradiction) (by simp [hend]; omega)
          exact dinv_leave hL hoi rfl rfl da
            (fun j hj => by rw [upd_other _ _ _ _ hj]; exact PcLe.rfl) (by simp) hlk
      · contradiction
    · contradiction
  | srcEnd =>
    simp only [step] at hs
    split at hs
    · rename_i i hoi hsrc
      split at hs
      · rename_i hpc
        split at hs
        · contradiction
        · have hh := held_owner hoi
          have d0 : DCore xs s s.pc [] 1 := by
            have := hD; unfold DInv at this; rw [hh.1, hh.2, hpc] at this; simpa using this
          have hc := d0.insrc i (by simp [hpc])
          obtain ⟨-, hend, hlinks⟩ := dcore_unfilled d0 (i := i) (by rw [hc]; simp)
          have hcalls := d0.calls
          simp only [hend, Bool.false_eq_true, if_false, Nat.add_zero] at hcalls
          have e : s' = (afterFill (release { s with ended := true, links := s.links ++ [none] }) i none true).1 :=
            (congrArg Prod.fst (Option.some.inj hs)).symm
          subst e
          obtain ⟨da, hlk⟩ := dcore_append
            (s' := { s with ended := true, links := s.links ++ [none] })
            (hl' := []) (fl' := 0) (i := i) (r := none) d0 hc (others_not_inSrc hL hoi) (by simp [hpc])
            rfl rfl rfl rfl d0.src_ok (by simp [hlinks]) (fun _ => hsrc) (by simp; omega)
          exact dinv_leave hL hoi rfl rfl da
            (fun j hj => by rw [upd_other _ _ _ _ hj]; exact PcLe.rfl) (by simp) hlk
      · contradiction
    · contradiction

theorem inv_step {xs : List α} {s s' : State α} {e : Ev} {o : Out α} (h : Inv xs s)
    (hs : step s e = some (s', o)) : Inv xs s' :=
  ⟨linv_step h.lock hs, dinv_step h.lock h.data hs⟩

theorem inv_reach {n : Nat} {sync : Bool} {xs : List α} {s : State α} (h : Reach n sync xs s) :
    Inv xs s := by
  refine Reachable.invariant (Inv xs) ?_ ?_ s h
  · rintro s rfl; exact inv_init n sync xs
  · intro s e s' o hi hs; exact inv_step hi hs

end AnyioModel.Iter.TeeCancel
