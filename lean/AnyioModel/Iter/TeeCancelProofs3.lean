/-
Tee with cancellation: the invariant `Inv = LInv ∧ DInv` is preserved by every event (`inv_step`).
-/
import AnyioModel.Iter.TeeCancelProofs2
namespace AnyioModel.Iter.TeeCancel
variable {α : Type}

/-- the data invariant of a state -/
def DInv (xs : List α) (s : State α) : Prop := DCore xs s s.pc (held s) (inflight s)

structure Inv (xs : List α) (s : State α) : Prop where
  lock : LInv s
  data : DInv xs s

theorem inv_init (n : Nat) (sync : Bool) (xs : List α) : Inv xs (init n sync xs) := by
  refine ⟨linv_init n sync xs, ?_⟩
  constructor <;> simp [init, held, inflight]

/-! ### `held` / `inflight` -/

theorem held_owner {s : State α} {i : Nat} (ho : s.owner = some i) :
    held s = heldOf (s.pc i) ∧ inflight s = flying (s.pc i) := by
  simp [held, inflight, ho]

theorem held_none {s : State α} (ho : s.owner = none) : held s = [] ∧ inflight s = 0 := by
  simp [held, inflight, ho]

theorem held_congr {s s' : State α} (ho : s'.owner = s.owner)
    (hp : ∀ j, s.owner = some j → s'.pc j = s.pc j) : held s' = held s ∧ inflight s' = inflight s := by
  unfold held inflight
  rw [ho]
  cases h : s.owner with
  | none => exact ⟨rfl, rfl⟩
  | some j => simp only []; rw [hp j h]; exact ⟨rfl, rfl⟩

theorem held_nil {s : State α} (h : ∀ j, (s.pc j).inSrc = false) : held s = [] ∧ inflight s = 0 := by
  unfold held inflight
  cases ho : s.owner with
  | none => exact ⟨rfl, rfl⟩
  | some j =>
    have := h j
    simp only []
    cases hh : s.pc j <;> simp_all

/-! ### `PcLe` -/

theorem PcLe.trans {a b c : Pc α} (h1 : PcLe a b) (h2 : PcLe b c) : PcLe a c :=
  ⟨h1.1.trans h2.1, fun h => h2.2.1 (h1.2.1 h), fun h => h2.2.2 (h1.2.2 h)⟩

theorem pcle_upd {pc : Nat → Pc α} {i : Nat} {p : Pc α} (h : PcLe p (pc i)) :
    ∀ j, PcLe (upd pc i p j) (pc j) := by
  intro j
  by_cases hj : j = i
  · subst hj; rw [upd_same]; exact h
  · rw [upd_other _ _ _ _ hj]; exact PcLe.rfl

theorem pcle_of_plain {p q : Pc α} (h1 : pend p = []) (h2 : p.inSrc = false) (h3 : p.isEndck = false)
    (h4 : pend q = []) : PcLe p q := by
  refine ⟨by rw [h1, h4], ?_, ?_⟩ <;> intro h <;> simp_all

@[simp] theorem release_links (s : State α) : (release s).links = s.links := by
  unfold release; split <;> rfl
@[simp] theorem release_cursor (s : State α) : (release s).cursor = s.cursor := by
  unfold release; split <;> rfl
@[simp] theorem release_src (s : State α) : (release s).src = s.src := by
  unfold release; split <;> rfl
@[simp] theorem release_consumed (s : State α) : (release s).consumed = s.consumed := by
  unfold release; split <;> rfl
@[simp] theorem release_ended (s : State α) : (release s).ended = s.ended := by
  unfold release; split <;> rfl
@[simp] theorem release_srcCalls (s : State α) : (release s).srcCalls = s.srcCalls := by
  unfold release; split <;> rfl
@[simp] theorem release_srcCancels (s : State α) : (release s).srcCancels = s.srcCancels := by
  unfold release; split <;> rfl
@[simp] theorem release_got (s : State α) : (release s).got = s.got := by
  unfold release; split <;> rfl
@[simp] theorem release_finished (s : State α) : (release s).finished = s.finished := by
  unfold release; split <;> rfl

theorem release_pcle {s s0 : State α} (h : LInv s) (e2 : s0.waiters = s.waiters) (e3 : s0.pc = s.pc) :
    ∀ j, PcLe ((release s0).pc j) (s.pc j) := by
  intro j
  rcases release_cases s0 with hr | ⟨pre, w, ws, hws, hnc, hr⟩
  · rw [hr]; simp only []; rw [e3]; exact PcLe.rfl
  · rw [hr]; simp only []; rw [e3]
    by_cases hj : j = w
    · subst hj
      rw [upd_same]
      have hq := h.wq j (by rw [← e2, hws]; simp)
      apply pcle_of_plain <;> (try rfl)
      cases hh : s.pc j <;> simp_all
    · rw [upd_other _ _ _ _ hj]; exact PcLe.rfl

theorem others_not_inSrc {s : State α} (h : LInv s) {i : Nat} (hoi : s.owner = some i) :
    ∀ j, j ≠ i → (s.pc j).inSrc = false := by
  intro j hj
  cases hh : (s.pc j).inSrc with
  | false => rfl
  | true =>
    have := (h.holder j).mp (inSrc_holdsLock hh)
    rw [hoi] at this
    exact absurd (Option.some.inj this).symm hj

/-! ### the shapes of steps -/

/-- a step of a consumer that does not own the lock -/
theorem dinv_local {xs : List α} {s s' : State α} {i : Nat} (hL : LInv s)
    (hni : (s.pc i).holdsLock = false) (ho : s'.owner = s.owner)
    (hpc : ∀ j, j ≠ i → s'.pc j = s.pc j)
    (d : DCore xs s' s'.pc (held s) (inflight s)) : DInv xs s' := by
  have hc := held_congr (s := s) (s' := s') ho (by
    intro j hj
    apply hpc
    intro e; subst e
    have := (hL.holder j).mpr hj
    rw [hni] at this; simp at this)
  unfold DInv
  rw [hc.1, hc.2]; exact d

/-- the lock owner `i`, its link filled with `l`, releases the lock and finishes `__anext__` -/
theorem dinv_leave {xs : List α} {s s0 : State α} {i : Nat} {l : Option α} {q : Nat → Pc α}
    (hL : LInv s) (hoi : s.owner = some i) (e2 : s0.waiters = s.waiters) (e3 : s0.pc = s.pc)
    (d : DCore xs s0 q [] 0) (hq : ∀ j, j ≠ i → PcLe (s.pc j) (q j)) (hpi : pend (q i) = [])
    (hlk : s0.links[s0.cursor i]? = some l) : DInv xs (afterFill (release s0) i l true).1 := by
  have d1 : DCore xs (release s0) q [] 0 := dcore_frame d (release_dview s0) (fun _ => PcLe.rfl)
  have hle := release_pcle hL e2 e3
  have d2 := dcore_afterFill true d1 (i := i) (l := l) (by simpa using hlk) hpi
    (fun j hj => (hle j).trans (hq j hj))
  obtain ⟨p, hp, -, -, hp4⟩ := afterFill_pc (release s0) i l true
  have hnil := held_nil (s := (afterFill (release s0) i l true).1) (by
    intro j
    rw [hp]
    by_cases hj : j = i
    · subst hj; rw [upd_same]; rcases hp4 rfl with e | e <;> rw [e] <;> simp
    · rw [upd_other _ _ _ _ hj]
      cases hh : ((release s0).pc j).inSrc with
      | false => rfl
      | true =>
        have := (hle j).2.1 hh
        rw [others_not_inSrc hL hoi j hj] at this; simp at this)
  unfold DInv
  rw [hnil.1, hnil.2]; exact d2

/-- the invocation of the source's `__anext__` by the lock owner `i` ends with CancelledError -/
theorem dinv_srccancel {xs : List α} {s : State α} {i : Nat} (hL : LInv s) (hD : DInv xs s)
    (hoi : s.owner = some i) (hfl : flying (s.pc i) = 1) (hhl : heldOf (s.pc i) = []) :
    DInv xs (raiseCancelled { release s with srcCancels := s.srcCancels + 1 } i).1 := by
  have hh := held_owner hoi
  unfold DInv at hD
  rw [hh.1, hh.2, hfl, hhl] at hD
  have dg : DCore xs { s with srcCancels := s.srcCancels + 1 } s.pc [] 0 :=
    dcore_global hD rfl rfl rfl rfl hD.src_ok hD.links_ok hD.ended_src (by
      have := hD.calls; simp only []; omega)
  have hle := release_pcle hL (s0 := s) rfl rfl
  have hpi : pend (s.pc i) = [] := by cases hh : s.pc i <;> simp_all
  have d2 : DCore xs (raiseCancelled { release s with srcCancels := s.srcCancels + 1 } i).1
      (raiseCancelled { release s with srcCancels := s.srcCancels + 1 } i).1.pc [] 0 := by
    apply dcore_frame dg
    · simp [dview, raiseCancelled, leave]
    · intro j
      simp only [raiseCancelled, leave]
      by_cases hj : j = i
      · subst hj; rw [upd_same]; exact pcle_of_plain rfl rfl rfl hpi
      · rw [upd_other _ _ _ _ hj]; exact hle j
  have hnil := held_nil (s := (raiseCancelled { release s with srcCancels := s.srcCancels + 1 } i).1) (by
    intro j
    simp only [raiseCancelled, leave]
    by_cases hj : j = i
    · subst hj; simp
    · rw [upd_other _ _ _ _ hj]
      cases hh : ((release s).pc j).inSrc with
      | false => rfl
      | true =>
        have := (hle j).2.1 hh
        rw [others_not_inSrc hL hoi j hj] at this; simp at this)
  unfold DInv
  rw [hnil.1, hnil.2]; exact d2

/-- the lock owner `i` moves on inside `fill()` (into the source call), keeping the lock -/
theorem dinv_owner_move {xs : List α} {s s' : State α} {i : Nat} {p : Pc α}
    (hoi : s.owner = some i) (ho : s'.owner = s.owner) (hpc : s'.pc = upd s.pc i p)
    (d : DCore xs s' (upd s.pc i p) (heldOf p) (flying p)) : DInv xs s' := by
  have hh := held_owner (s := s') (i := i) (by rw [ho, hoi])
  unfold DInv
  rw [hh.1, hh.2, hpc, upd_same]; exact d

end AnyioModel.Iter.TeeCancel
