/-
Model of `anyio.itertools.tee` (src/anyio/itertools.py:79-143, 558-571): `n` consumer
iterators sharing one `_TeeState` (source iterator + `Lock`) and a linked list of `_TeeLink`s,
cut at the awaits into atomic segments.

* The linked list is `links : List (Option α)`: the filled links in chain order, `some v` a
  value, `none` the `_tee_end` sentinel.  A consumer's `_link` is an index into the chain
  (`cursor`); link `k` is filled iff `k < links.length`; `link.next` of a filled value link is
  link `k+1` (allocated when the value is stored, as the code does).
* The lock is `anyio.Lock()` (fast_acquire = False) reduced to what `async with` uses: an owner
  and a FIFO queue; `release()` hands the lock to the first waiter at once (the waiter resumes
  later, event `step`).  An uncontended `acquire()` takes the lock and suspends once in
  `cancel_shielded_checkpoint()`; both ways the task is then in `lockGranted`.
* The source is environment: `src` is what it will still produce, `srcCalls` counts the
  invocations of its `__anext__` (ghost), `consumed` what it has produced (ghost).

Events:
* `next i`   consumer `i` (idle) calls `__anext__`; runs up to the first suspension.
* `step i`   the loop resumes consumer `i`: after the lock was obtained (uncontended yield or
             hand-over from the previous owner), or out of a trailing checkpoint.
* `srcYield` the source's pending `__anext__` returns its next element to the lock owner, which
             runs on: stores the value, allocates the next link, releases the lock (hand-over)
             and returns the value to its caller (`had_yieldpoint` is true: no more checkpoints).
* `srcEnd`   same with `StopAsyncIteration` (`_tee_end` is stored).

No cancellation events: C19 is about values under interleavings, not about cancel safety.
-/
import AnyioModel.Util.LTS

namespace AnyioModel.Iter.Tee

inductive Pc (α : Type) where
  | idle
  | lockWait                      -- queued on the lock
  | lockGranted                   -- owns the lock, not yet resumed
  | srcWait                       -- owns the lock, inside `await anext(self.iterator, _tee_end)`
  | yielding (r : Option α)       -- in a trailing checkpoint; will return `r` (none = stop)
  deriving Repr

def Pc.isIdle {α : Type} : Pc α → Bool
  | .idle => true
  | _ => false

def Pc.isSrcWait {α : Type} : Pc α → Bool
  | .srcWait => true
  | _ => false

inductive Out (α : Type) where
  | susp
  | ret (v : α)
  | stop                          -- StopAsyncIteration
  | runtimeError                  -- Lock.acquire by the owner (shown unreachable)
  deriving DecidableEq, Repr

inductive Ev where
  | next (i : Nat)
  | step (i : Nat)
  | srcYield
  | srcEnd
  deriving DecidableEq, Repr

structure State (α : Type) where
  n        : Nat                   -- number of consumers
  src      : List α
  links    : List (Option α)
  owner    : Option Nat
  waiters  : List Nat
  cursor   : Nat → Nat
  pc       : Nat → Pc α
  ey       : Nat → Bool            -- `_element_yielded`
  -- ghosts
  consumed : List α
  srcCalls : Nat
  seen     : Nat → List α          -- values `__anext__` has returned to consumer i
  finished : Nat → Bool            -- consumer i has received StopAsyncIteration

variable {α : Type}

def init (n : Nat) (xs : List α) : State α :=
  { n, src := xs, links := [], owner := none, waiters := [], cursor := fun _ => 0,
    pc := fun _ => .idle, ey := fun _ => false, consumed := [], srcCalls := 0,
    seen := fun _ => [], finished := fun _ => false }

/-- `Lock.release()`: hand over to the first waiter -/
def release (s : State α) : State α :=
  match s.waiters with
  | [] => { s with owner := none }
  | w :: ws => { s with owner := some w, waiters := ws, pc := upd s.pc w .lockGranted }

/-- `__anext__` after `fill()` returned, the consumer's link being filled with `l`.
`hadYp` = `had_yieldpoint`. -/
def afterFill (s : State α) (i : Nat) (l : Option α) (hadYp : Bool) : State α × Out α :=
  match l with
  | none =>
    if s.ey i then
      ({ s with pc := upd s.pc i .idle, finished := upd s.finished i true }, .stop)
    else ({ s with pc := upd s.pc i (.yielding none) }, .susp)        -- `await checkpoint()`
  | some v =>
    let s1 := { s with ey := upd s.ey i true, cursor := upd s.cursor i (s.cursor i + 1) }
    if hadYp then
      ({ s1 with pc := upd s1.pc i .idle, seen := upd s1.seen i (s1.seen i ++ [v]) }, .ret v)
    else ({ s1 with pc := upd s1.pc i (.yielding (some v)) }, .susp)  -- cancel_shielded_checkpoint

def step (s : State α) : Ev → Option (State α × Out α)
  | .next i =>
    if i ≥ s.n ∨ !(s.pc i).isIdle then none else
    match s.links[s.cursor i]? with
    | some l => some (afterFill s i l false)            -- `if link.filled: return False`
    | none =>                                             -- `async with self.lock`
      if s.owner = none ∧ s.waiters = [] then
        some ({ s with owner := some i, pc := upd s.pc i .lockGranted }, .susp)
      else if s.owner = some i then some (s, .runtimeError)
      else some ({ s with waiters := s.waiters ++ [i], pc := upd s.pc i .lockWait }, .susp)
  | .step i =>
    match s.pc i with
    | .idle => none
    | .lockWait => none
    | .srcWait => none
    | .lockGranted =>
      match s.links[s.cursor i]? with
      | some l => some (afterFill (release s) i l true)   -- `if link.filled: return True`
      | none => some ({ s with pc := upd s.pc i .srcWait, srcCalls := s.srcCalls + 1 }, .susp)
    | .yielding r =>
      match r with
      | some v =>
        some ({ s with pc := upd s.pc i .idle, seen := upd s.seen i (s.seen i ++ [v]) }, .ret v)
      | none => some ({ s with pc := upd s.pc i .idle, finished := upd s.finished i true }, .stop)
  | .srcYield =>
    match s.owner, s.src with
    | some i, v :: rest =>
      if !(s.pc i).isSrcWait then none else
      let s1 := { s with src := rest, consumed := s.consumed ++ [v], links := s.links ++ [some v] }
      some (afterFill (release s1) i (some v) true)
    | _, _ => none
  | .srcEnd =>
    match s.owner, s.src with
    | some i, [] =>
      if !(s.pc i).isSrcWait then none else
      let s1 := { s with links := s.links ++ [none] }
      some (afterFill (release s1) i none true)
    | _, _ => none

abbrev Reach (n : Nat) (xs : List α) (s : State α) : Prop :=
  Reachable (fun s0 => s0 = init n xs) step s

end AnyioModel.Iter.Tee
