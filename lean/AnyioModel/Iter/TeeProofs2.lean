/-
Tee LTS: the owner leaving `fill()` (release + the rest of `__anext__`) preserves the invariant.
-/
import AnyioModel.Iter.TeeProofs
namespace AnyioModel.Iter.Tee
variable {α : Type}

/-- the invariant at the moment the lock owner `i` leaves `fill()`: its link is filled, the
source call (if any) is over, the lock not yet released -/
structure InvOwner (xs : List α) (s : State α) (i : Nat) : Prop where
  src_ok : s.consumed ++ s.src = xs
  links_ok : s.links = s.consumed.map some ∨
    (s.links = s.consumed.map some ++ [none] ∧ s.src = [])
  cursor_le : ∀ j, s.cursor j ≤ s.consumed.length
  seen_ok : ∀ j, s.seen j ++ pend (s.pc j) = s.consumed.take (s.cursor j)
  fin_ok : ∀ j, (s.finished j = true ∨ (s.pc j).isYNone = true) →
    s.links = s.consumed.map some ++ [none] ∧ s.src = [] ∧ s.cursor j = s.consumed.length ∧
      pend (s.pc j) = []
  owner_i : s.owner = some i
  pc_i : (s.pc i).holdsLock = true
  others : ∀ j, j ≠ i → (s.pc j).holdsLock = false
  calls : s.srcCalls = s.links.length
  waiters_ok : ∀ w ∈ s.waiters, (s.pc w).isLockWait = true
  waiters_nodup : s.waiters.Nodup

set_option hygiene false in
local macro "tee_simp" : tactic => `(tactic|
  (simp_all <;> (try omega) <;>
    (try (intros; simp_all; done)) <;> (try (simp [pendingCall_some, *]; done)) <;> (try grind)))

set_option hygiene false in
local macro "tee_fields3" : tactic => `(tactic|
  (constructor <;> simp only [] <;> (try intro j) <;>
    (try (have b3 := h3 j; have b4 := h4 j; have b5 := h5 j; have b7 := h7 j)) <;>
    (try by_cases hj : j = i) <;> tee_simp))

theorem holdsLock_not_srcWait {p : Pc α} (h : p.holdsLock = false) : p.isSrcWait = false := by
  cases p <;> simp_all

theorem inv_release_nil {xs : List α} {s : State α} {i : Nat} {l : Option α}
    (h : InvOwner xs s i) (hl : s.links[s.cursor i]? = some l) (hw : s.waiters = []) :
    Inv xs (afterFill (release s) i l true).1 := by
  obtain ⟨h1, h2, h3, h4, h5, ho, hp, h7, h8, h9, h10⟩ := h
  have a4 := h4 i; have a5 := h5 i
  have hpe : pend (s.pc i) = [] := by
    cases hh : s.pc i <;> simp_all
  have hsw : ∀ j, j ≠ i → (s.pc j).isSrcWait = false := fun j hj => holdsLock_not_srcWait (h7 j hj)
  cases l with
  | none =>
    obtain ⟨e1, e2, e3⟩ := links_none h2 (h3 i) hl
    simp only [afterFill, release, hw]
    split <;> tee_fields3
  | some v =>
    have g := links_val h2 hl
    have glt := get_lt g
    have gt := take_succ_of_get g
    simp only [afterFill, release, hw, ↓reduceIte]
    tee_fields3


set_option hygiene false in
local macro "tee_fields4" : tactic => `(tactic|
  (constructor <;> simp only [] <;> (try intro j) <;>
    (try (have b3 := h3 j; have b4 := h4 j; have b5 := h5 j; have b7 := h7 j; have b9 := h9 j)) <;>
    (try by_cases hj : j = i) <;> (try by_cases hjw : j = w) <;> tee_simp))

theorem inv_release_cons_none {xs : List α} {s : State α} {i w : Nat} {ws : List Nat}
    (h : InvOwner xs s i) (hl : s.links[s.cursor i]? = some none) (hw : s.waiters = w :: ws) :
    Inv xs (afterFill (release s) i none true).1 := by
  obtain ⟨h1, h2, h3, h4, h5, ho, hp, h7, h8, h9, h10⟩ := h
  have a4 := h4 i; have a5 := h5 i
  have hpe : pend (s.pc i) = [] := by
    cases hh : s.pc i <;> simp_all
  have hpw : s.pc w = .lockWait := isLockWait_iff.mp (h9 w (by simp [hw]))
  have hwi : w ≠ i := by intro e; rw [e] at hpw; rw [hpw] at hp; simp at hp
  have hiw : i ≠ w := fun e => hwi e.symm
  have hnd := List.nodup_cons.mp (hw ▸ h10)
  have c4 := h4 w; have c5 := h5 w
  rw [hpw] at c4 c5
  have hiws : i ∉ ws := by
    intro hi
    have := h9 i (by simp [hw, hi])
    cases hh : s.pc i <;> simp_all
  have hsw : ∀ j, j ≠ i → (s.pc j).isSrcWait = false := fun j hj => holdsLock_not_srcWait (h7 j hj)
  obtain ⟨e1, e2, e3⟩ := links_none h2 (h3 i) hl
  simp only [afterFill, release, hw]
  split <;> tee_fields4

theorem inv_release_cons_some {xs : List α} {s : State α} {i w : Nat} {ws : List Nat} {v : α}
    (h : InvOwner xs s i) (hl : s.links[s.cursor i]? = some (some v)) (hw : s.waiters = w :: ws) :
    Inv xs (afterFill (release s) i (some v) true).1 := by
  obtain ⟨h1, h2, h3, h4, h5, ho, hp, h7, h8, h9, h10⟩ := h
  have a4 := h4 i; have a5 := h5 i
  have hpe : pend (s.pc i) = [] := by
    cases hh : s.pc i <;> simp_all
  have hpw : s.pc w = .lockWait := isLockWait_iff.mp (h9 w (by simp [hw]))
  have hwi : w ≠ i := by intro e; rw [e] at hpw; rw [hpw] at hp; simp at hp
  have hiw : i ≠ w := fun e => hwi e.symm
  have hnd := List.nodup_cons.mp (hw ▸ h10)
  have c4 := h4 w; have c5 := h5 w
  rw [hpw] at c4 c5
  have hiws : i ∉ ws := by
    intro hi
    have := h9 i (by simp [hw, hi])
    cases hh : s.pc i <;> simp_all
  have hsw : ∀ j, j ≠ i → (s.pc j).isSrcWait = false := fun j hj => holdsLock_not_srcWait (h7 j hj)
  have g := links_val h2 hl
  have glt := get_lt g
  have gt := take_succ_of_get g
  clear hl h10
  simp only [afterFill, release, hw, ↓reduceIte]
  tee_fields4

end AnyioModel.Iter.Tee
