/-
Invariant of the tee LTS (`AnyioModel.Iter.Tee`) and its preservation by `next`.
The other events are in `TeeProofs2`.
-/
import AnyioModel.Iter.Tee
namespace AnyioModel.Iter.Tee
variable {α : Type}

/-- the value a consumer has taken from its link but not yet returned -/
def pend : Pc α → List α
  | .yielding (some v) => [v]
  | _ => []

def Pc.holdsLock : Pc α → Bool
  | .lockGranted => true
  | .srcWait => true
  | _ => false

def Pc.isLockWait : Pc α → Bool
  | .lockWait => true
  | _ => false

/-- in the checkpoint before raising StopAsyncIteration -/
def Pc.isYNone : Pc α → Bool
  | .yielding none => true
  | _ => false

/-- 1 while the source's `__anext__` is running -/
def pendingCall (owner : Option Nat) (pc : Nat → Pc α) : Nat :=
  match owner with
  | some i => if (pc i).isSrcWait then 1 else 0
  | none => 0

@[simp] theorem pend_idle : pend (.idle : Pc α) = [] := rfl
@[simp] theorem pend_lockWait : pend (.lockWait : Pc α) = [] := rfl
@[simp] theorem pend_lockGranted : pend (.lockGranted : Pc α) = [] := rfl
@[simp] theorem pend_srcWait : pend (.srcWait : Pc α) = [] := rfl
@[simp] theorem pend_ynone : pend (.yielding none : Pc α) = [] := rfl
@[simp] theorem pend_ysome (v : α) : pend (.yielding (some v) : Pc α) = [v] := rfl
@[simp] theorem hl_idle : (Pc.idle : Pc α).holdsLock = false := rfl
@[simp] theorem hl_lockWait : (Pc.lockWait : Pc α).holdsLock = false := rfl
@[simp] theorem hl_lockGranted : (Pc.lockGranted : Pc α).holdsLock = true := rfl
@[simp] theorem hl_srcWait : (Pc.srcWait : Pc α).holdsLock = true := rfl
@[simp] theorem hl_yielding (r : Option α) : (Pc.yielding r : Pc α).holdsLock = false := rfl
@[simp] theorem sw_idle : (Pc.idle : Pc α).isSrcWait = false := rfl
@[simp] theorem sw_lockWait : (Pc.lockWait : Pc α).isSrcWait = false := rfl
@[simp] theorem sw_lockGranted : (Pc.lockGranted : Pc α).isSrcWait = false := rfl
@[simp] theorem sw_srcWait : (Pc.srcWait : Pc α).isSrcWait = true := rfl
@[simp] theorem sw_yielding (r : Option α) : (Pc.yielding r : Pc α).isSrcWait = false := rfl
@[simp] theorem lw_idle : (Pc.idle : Pc α).isLockWait = false := rfl
@[simp] theorem lw_lockWait : (Pc.lockWait : Pc α).isLockWait = true := rfl
@[simp] theorem lw_lockGranted : (Pc.lockGranted : Pc α).isLockWait = false := rfl
@[simp] theorem lw_srcWait : (Pc.srcWait : Pc α).isLockWait = false := rfl
@[simp] theorem lw_yielding (r : Option α) : (Pc.yielding r : Pc α).isLockWait = false := rfl

@[simp] theorem yn_idle : (Pc.idle : Pc α).isYNone = false := rfl
@[simp] theorem yn_lockWait : (Pc.lockWait : Pc α).isYNone = false := rfl
@[simp] theorem yn_lockGranted : (Pc.lockGranted : Pc α).isYNone = false := rfl
@[simp] theorem yn_srcWait : (Pc.srcWait : Pc α).isYNone = false := rfl
@[simp] theorem yn_ynone : (Pc.yielding none : Pc α).isYNone = true := rfl
@[simp] theorem yn_ysome (v : α) : (Pc.yielding (some v) : Pc α).isYNone = false := rfl

theorem isIdle_iff {p : Pc α} : p.isIdle = true ↔ p = .idle := by cases p <;> simp [Pc.isIdle]
theorem isLockWait_iff {p : Pc α} : p.isLockWait = true ↔ p = .lockWait := by
  cases p <;> simp [Pc.isLockWait]
theorem isSrcWait_iff {p : Pc α} : p.isSrcWait = true ↔ p = .srcWait := by
  cases p <;> simp [Pc.isSrcWait]

@[simp] theorem pendingCall_none (pc : Nat → Pc α) : pendingCall none pc = 0 := rfl
theorem pendingCall_some (i : Nat) (pc : Nat → Pc α) :
    pendingCall (some i) pc = if (pc i).isSrcWait then 1 else 0 := rfl

theorem pendingCall_upd_same (o : Option Nat) (pc : Nat → Pc α) (i : Nat) (p : Pc α)
    (h : p.isSrcWait = (pc i).isSrcWait) : pendingCall o (upd pc i p) = pendingCall o pc := by
  cases o with
  | none => rfl
  | some k =>
    simp only [pendingCall_some, upd]
    by_cases hk : k = i
    · subst hk; simp [h]
    · simp [hk]

structure Inv (xs : List α) (s : State α) : Prop where
  src_ok : s.consumed ++ s.src = xs
  links_ok : s.links = s.consumed.map some ∨
    (s.links = s.consumed.map some ++ [none] ∧ s.src = [])
  cursor_le : ∀ i, s.cursor i ≤ s.consumed.length
  seen_ok : ∀ i, s.seen i ++ pend (s.pc i) = s.consumed.take (s.cursor i)
  fin_ok : ∀ i, (s.finished i = true ∨ (s.pc i).isYNone = true) →
    s.links = s.consumed.map some ++ [none] ∧ s.src = [] ∧ s.cursor i = s.consumed.length ∧
      pend (s.pc i) = []
  holder : ∀ i, (s.pc i).holdsLock = true ↔ s.owner = some i
  srcwait : ∀ i, (s.pc i).isSrcWait = true →
    s.links = s.consumed.map some ∧ s.cursor i = s.consumed.length
  calls : s.srcCalls = s.links.length + pendingCall s.owner s.pc
  waiters_ok : ∀ w ∈ s.waiters, (s.pc w).isLockWait = true
  waiters_nodup : s.waiters.Nodup

theorem inv_init (n : Nat) (xs : List α) : Inv xs (init n xs) := by
  constructor <;> simp [init]

/-! list facts about the link chain -/

theorem links_val {c : List α} {links : List (Option α)} {k : Nat} {v : α} {P : Prop}
    (h : links = c.map some ∨ (links = c.map some ++ [none] ∧ P))
    (hk : links[k]? = some (some v)) : c[k]? = some v := by
  rcases h with h | ⟨h, _⟩
  · subst h; simpa using hk
  · subst h
    by_cases hlt : k < c.length
    · rw [List.getElem?_append_left (by simpa using hlt)] at hk; simpa using hk
    · have : (c.map some).length ≤ k := by simp; omega
      rw [List.getElem?_append_right this] at hk
      simp at hk
      cases hh : k - c.length <;> simp [hh] at hk

theorem links_none {c : List α} {links : List (Option α)} {k : Nat} {P : Prop}
    (h : links = c.map some ∨ (links = c.map some ++ [none] ∧ P)) (hle : k ≤ c.length)
    (hk : links[k]? = some none) : links = c.map some ++ [none] ∧ P ∧ k = c.length := by
  rcases h with h | ⟨h, hp⟩
  · subst h; simp at hk
  · refine ⟨h, hp, ?_⟩
    subst h
    by_cases hlt : k < c.length
    · rw [List.getElem?_append_left (by simpa using hlt)] at hk; simp at hk
    · omega

theorem links_unfilled {c : List α} {links : List (Option α)} {k : Nat} {P : Prop}
    (h : links = c.map some ∨ (links = c.map some ++ [none] ∧ P)) (hle : k ≤ c.length)
    (hk : links[k]? = none) : links = c.map some ∧ k = c.length := by
  rw [List.getElem?_eq_none_iff] at hk
  rcases h with h | ⟨h, _⟩
  · subst h; simp at hk; exact ⟨rfl, by omega⟩
  · subst h; simp at hk; omega

theorem take_succ_of_get {c : List α} {k : Nat} {v : α} (h : c[k]? = some v) :
    c.take (k + 1) = c.take k ++ [v] := by
  rw [List.take_add_one, h]; rfl

theorem get_lt {c : List α} {k : Nat} {v : α} (h : c[k]? = some v) : k < c.length := by
  have := List.getElem?_eq_some_iff.mp h; exact this.1


set_option hygiene false in
local macro "tee_simp" : tactic => `(tactic|
  (simp_all <;> (try (rw [pendingCall_upd_same] <;> simp [*])) <;> (try omega) <;>
    (try (intros; simp_all; done)) <;> (try (simp [pendingCall_some]; done)) <;> (try grind)))

set_option hygiene false in
local macro "tee_fields" : tactic => `(tactic|
  (constructor <;> simp only [] <;> (try intro j) <;>
    (try (have b3 := h3 j; have b4 := h4 j; have b5 := h5 j; have b6 := h6 j; have b7 := h7 j)) <;>
    (try by_cases hj : j = i) <;> tee_simp))

theorem inv_next {xs : List α} {s s' : State α} {o : Out α} {i : Nat} (h : Inv xs s)
    (hs : step s (.next i) = some (s', o)) : Inv xs s' := by
  obtain ⟨h1, h2, h3, h4, h5, h6, h7, h8, h9, h10⟩ := h
  simp only [step] at hs
  split at hs
  · contradiction
  rename_i hidle
  have hpc : s.pc i = .idle := by
    have : i < s.n ∧ (s.pc i).isIdle = true := by simpa using hidle
    exact isIdle_iff.mp this.2
  clear hidle
  have a3 := h3 i; have a4 := h4 i; have a5 := h5 i; have a6 := h6 i; have a7 := h7 i
  have a9 := h9 i
  rw [hpc] at a4 a5 a6 a7 a9
  simp at a4 a6 a9
  split at hs
  · rename_i l hl
    cases l with
    | none =>
      obtain ⟨e1, e2, e3⟩ := links_none h2 (h3 i) hl
      simp only [afterFill] at hs
      split at hs
      · cases hs; tee_fields
      · cases hs; tee_fields
    | some v =>
      have g := links_val h2 hl
      have glt := get_lt g
      have gt := take_succ_of_get g
      simp only [afterFill, Bool.false_eq_true, if_false] at hs
      cases hs; tee_fields
  · rename_i hl
    split at hs <;> (cases hs; tee_fields)

end AnyioModel.Iter.Tee
