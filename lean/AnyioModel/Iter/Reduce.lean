/-
Model of `anyio.functools.reduce` (src/anyio/functools.py:358-414).

The function has two textually separate branches, one for asynchronous iterables
(`async_it.__anext__()` / `async for`) and one for synchronous ones (`next(it)` / `for`); both
are modelled (`Src`).  In each: without `initial` the first element seeds the value and an
empty source is a TypeError; with `initial` it seeds the value.  The final
`if not function_called: await checkpoint()` produces nothing and is dropped.
-/
import AnyioModel.Iter.Itertools

namespace AnyioModel.Iter

inductive Src where
  | sync
  | async
  deriving DecidableEq, Repr

section
variable {α β : Type}

/-- `for element in it: value = await function(value, element)` -/
def reduceLoopSync (f : β → α → β) (value : β) : List α → β
  | [] => value
  | x :: xs => reduceLoopSync f (f value x) xs

/-- `async for element in async_it: value = await function(value, element)` -/
def reduceLoopAsync (f : β → α → β) (value : β) : List α → β
  | [] => value
  | x :: xs => reduceLoopAsync f (f value x) xs

/-- `reduce(function, iterable, initial)` -/
def impl_reduce_init (src : Src) (f : β → α → β) (initial : β) (xs : List α) :
    Except ErrKind β :=
  match src with
  | .async => .ok (reduceLoopAsync f initial xs)
  | .sync => .ok (reduceLoopSync f initial xs)

/-- `reduce(function, iterable)` -/
def impl_reduce_noinit (src : Src) (f : α → α → α) (xs : List α) : Except ErrKind α :=
  match src with
  | .async =>
    match xs with
    | [] => .error .typeError          -- StopAsyncIteration from `__anext__`
    | x :: rest => .ok (reduceLoopAsync f x rest)
  | .sync =>
    match xs with
    | [] => .error .typeError          -- StopIteration from `next(it)`
    | x :: rest => .ok (reduceLoopSync f x rest)

/-- both call shapes in one (`initial = none`: argument missing); what the driver evaluates -/
def impl_reduce (src : Src) (f : α → α → α) (initial : Option α) (xs : List α) :
    Except ErrKind α :=
  match initial with
  | none => impl_reduce_noinit src f xs
  | some i => impl_reduce_init src f i xs

/-- `functools.reduce`: left fold -/
def spec_reduce_init (f : β → α → β) (initial : β) (xs : List α) : Except ErrKind β :=
  .ok (xs.foldl f initial)

def spec_reduce_noinit (f : α → α → α) (xs : List α) : Except ErrKind α :=
  match xs.head? with
  | none => .error .typeError
  | some x => .ok (xs.tail.foldl f x)

def spec_reduce (f : α → α → α) (initial : Option α) (xs : List α) : Except ErrKind α :=
  match initial with
  | none => spec_reduce_noinit f xs
  | some i => spec_reduce_init f i xs

end
end AnyioModel.Iter
