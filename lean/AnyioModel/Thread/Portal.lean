/-
Model of `anyio.from_thread.BlockingPortal` (src/anyio/from_thread.py: `_check_running`, `stop`,
`_call_func`, `_spawn_task_from_thread`, `start_task_soon`, `start_task`, `__aexit__`) together
with the loop-side entry `AsyncIOBackend.run_sync_from_thread`.

Portal: `running` (`_event_loop_thread_id` is the loop thread) → `stopping` (`stop()` has run:
`_event_loop_thread_id = None`, `_stop_event` set; the portal's task group is still open and is
being joined) → `stopped` (`_task_group.__aexit__` has returned).  `exit` is enabled only when
`live = []`: this *is* the task group join (C01_join), taken from the kernel model as a named
assumption, not re-proved here.  `groupCancel` = the portal task group's scope was cancelled
(`stop(cancel_remaining=True)`).

Per call `c` (one `call` / `start_task_soon` / `start_task` from a foreign thread):
    `none`     not issued
    `issued`   `_check_running()` passed in the caller thread, `Future()` created, the
               `start_soon` request is on its way into the loop (`call_soon_threadsafe`)
    `refused`  the caller got `RuntimeError` (portal not running / task group not active)
    `spawned`  `start_soon` ran in the loop: the task exists (`c ∈ live`), `_call_func` has not
               begun; the caller holds the Future from now on
    `running`  `_call_func` called the callable (ghost `execs c` incremented), it returned an
               awaitable which is being awaited inside the call's own `CancelScope`
    `resolved` `_call_func` is over (task left `live`)

`fut c` is the `concurrent.futures.Future` (single assignment: `pending → done r`), `futSets c`
counts its transitions out of `pending` (ghost).  `cancelReq c` = the call's own scope was
cancelled through the future's done-callback.  `byStop c` = the callback captured
`event_loop_thread_id = None` because `_call_func` began after `stop()`: for such a call
cancelling the future -- from a foreign thread, or before the task began -- does *not* reach
the scope (from_thread.py, `callback`: neither branch is taken).  `status c` is the `task_status` future of `start_task`.

Environment events: `spawn` / `begin` (loop scheduling), `finish c o` (the awaited callable
completes: returns, raises, or lets a cancellation propagate -- the latter only if one was
requested), `started c n`, `cancelFuture c` (caller thread calls `Future.cancel()`),
`stop cancel_remaining`, `exit`.

Not modelled (named assumptions): the check-then-set on the Future inside `_call_func`
(`if not future.cancelled(): future.set_result(..)`) is atomic w.r.t. `Future.cancel()` in caller
threads; `call_soon_threadsafe` delivers every callback exactly once in FIFO order; non-`Exception`
`BaseException`s raised by a callable (they are re-raised into the portal's task group).
-/
import AnyioModel.Util.LTS

namespace AnyioModel.Thread.Portal

inductive PState where
  | running | stopping | stopped
  deriving DecidableEq, Repr, Inhabited

inductive Pc where
  | none | issued | refused | spawned | running | resolved
  deriving DecidableEq, Repr, Inhabited

/-- kind of call: plain callable, coroutine function, coroutine function through `start_task` -/
inductive Kind where
  | sync | coro | task
  deriving DecidableEq, Repr, Inhabited

/-- what the callable did -/
inductive Outcome where
  | val (n : Nat)
  | exc (n : Nat)
  | cancelled          -- the cancellation exception propagated out of the awaitable
  deriving DecidableEq, Repr, Inhabited

/-- state of a `concurrent.futures.Future` as seen through result()/exception()/cancelled() -/
inductive Res where
  | result (n : Nat)
  | exception (n : Nat)
  | cancelled
  deriving DecidableEq, Repr, Inhabited

inductive Fut where
  | pending
  | done (r : Res)
  deriving DecidableEq, Repr, Inhabited

/-- the `task_status` future of `start_task` -/
inductive Status where
  | pending
  | started (n : Nat)
  | failed (r : Res)       -- task ended first: its exception / cancellation
  | noStarted              -- task returned without calling started(): RuntimeError
  deriving DecidableEq, Repr, Inhabited

inductive Out where
  | ok
  | runtimeError
  | env
  deriving DecidableEq, Repr

inductive Ev where
  | issue (c : Nat) (k : Kind)
  | spawn (c : Nat)
  | beginSync (c : Nat) (o : Outcome)   -- first step of the task, plain callable: runs to the end
  | begin (c : Nat)                     -- first step of the task, awaitable
  | started (c : Nat) (n : Nat)
  | finish (c : Nat) (o : Outcome)
  | cancelFuture (c : Nat)
  | stop (cancelRemaining : Bool)
  | exit
  deriving DecidableEq, Repr

structure State where
  portal      : PState
  groupCancel : Bool
  live        : List Nat
  pc          : Nat → Pc
  kind        : Nat → Kind
  fut         : Nat → Fut
  status      : Nat → Status
  cancelReq   : Nat → Bool
  byStop      : Nat → Bool
  -- ghost
  execs       : Nat → Nat
  outcome     : Nat → Option Outcome
  futSets     : Nat → Nat
  callerCancelled : Nat → Bool     -- `Future.cancel()` by the caller succeeded

def init : State :=
  { portal := .running, groupCancel := false, live := [], pc := fun _ => .none,
    kind := fun _ => .sync, fut := fun _ => .pending, status := fun _ => .pending,
    cancelReq := fun _ => false, byStop := fun _ => false, execs := fun _ => 0,
    outcome := fun _ => none, futSets := fun _ => 0, callerCancelled := fun _ => false }

def IsInit (s : State) : Prop := s = init

def resOf : Outcome → Res
  | .val n => .result n
  | .exc n => .exception n
  | .cancelled => .cancelled

/-- `task_done` callback of `start_task`: the status future follows the main future if it is
still pending -/
def statusAfter (k : Kind) (st : Status) (r : Res) : Status :=
  match k, st, r with
  | .task, .pending, .result _ => .noStarted
  | .task, .pending, r => .failed r
  | _, st, _ => st

/-- the tail of `_call_func`: route the callable's outcome into the Future.
`except cancelled: future.cancel()`; otherwise `if not future.cancelled(): set_result/exception` -/
def resolve (s : State) (c : Nat) (o : Outcome) : State :=
  let s1 := { s with pc := upd s.pc c .resolved, live := s.live.erase c,
                     outcome := upd s.outcome c (some o) }
  match s.fut c with
  | .pending =>
    { s1 with fut := upd s.fut c (.done (resOf o)), futSets := upd s.futSets c (s.futSets c + 1),
              status := upd s.status c (statusAfter (s.kind c) (s.status c) (resOf o)) }
  | .done _ => s1

def step (s : State) : Ev → Option (State × Out)
  | .issue c k =>
    if s.pc c ≠ .none then none else
    if s.portal = .running then
      some ({ s with pc := upd s.pc c .issued, kind := upd s.kind c k }, .env)
    else some ({ s with pc := upd s.pc c .refused, kind := upd s.kind c k }, .runtimeError)
  | .spawn c =>
    if s.pc c ≠ .issued then none else
    if s.portal = .stopped then
      -- `TaskGroup.start_soon` on a group that is no longer active
      some ({ s with pc := upd s.pc c .refused }, .runtimeError)
    else some ({ s with pc := upd s.pc c .spawned, live := c :: s.live }, .ok)
  | .beginSync c o =>
    if s.pc c = .spawned ∧ s.kind c = .sync ∧ o ≠ .cancelled then
      some (resolve { s with execs := upd s.execs c (s.execs c + 1) } c o, .env)
    else none
  | .begin c =>
    if s.pc c = .spawned ∧ s.kind c ≠ .sync then
      -- `future.add_done_callback(callback)` runs the callback at once (in the loop thread) if
      -- the future is already cancelled; it compares the *captured* `event_loop_thread_id` with
      -- `get_ident()`, so after `stop()` (captured value `None`) it does nothing either
      some ({ s with pc := upd s.pc c .running, execs := upd s.execs c (s.execs c + 1),
                     byStop := upd s.byStop c (decide (s.portal ≠ .running)),
                     cancelReq := upd s.cancelReq c
                       (decide (s.fut c = .done .cancelled ∧ s.portal = .running)) }, .env)
    else none
  | .started c n =>
    if s.pc c = .running ∧ s.kind c = .task ∧ s.status c = .pending then
      some ({ s with status := upd s.status c (.started n) }, .env)
    else none
  | .finish c o =>
    if s.pc c ≠ .running then none else
    if o = .cancelled ∧ ¬ (s.cancelReq c = true ∨ s.groupCancel = true) then none else
    some (resolve s c o, .env)
  | .cancelFuture c =>
    if s.pc c ≠ .spawned ∧ s.pc c ≠ .running ∧ s.pc c ≠ .resolved then none else
    match s.fut c with
    | .done _ => some (s, .env)          -- `cancel()` returns False / is a no-op
    | .pending =>
      let s1 := { s with fut := upd s.fut c (.done .cancelled),
                         futSets := upd s.futSets c (s.futSets c + 1),
                         callerCancelled := upd s.callerCancelled c true,
                         status := upd s.status c (statusAfter (s.kind c) (s.status c) .cancelled) }
      if s.pc c = .running ∧ s.byStop c = false then
        some ({ s1 with cancelReq := upd s.cancelReq c true }, .env)
      else some (s1, .env)
  | .stop cr =>
    if s.portal = .stopped then none else
    some ({ s with portal := .stopping, groupCancel := s.groupCancel || cr }, .env)
  | .exit =>
    if s.portal = .stopping ∧ s.live = [] then some ({ s with portal := .stopped }, .env)
    else none

abbrev Reach (s : State) : Prop := Reachable IsInit step s

end AnyioModel.Thread.Portal
