/-
Invariant and helper lemmas for the `BlockingPortal` model (`AnyioModel.Thread.Portal`).
The property theorems are in `AnyioModel.Props.C15`.
-/
import AnyioModel.Thread.Portal

namespace AnyioModel.Thread.Portal

/-! ### `statusAfter` -/

theorem statusAfter_ne_pending_of_task (st : Status) (r : Res) :
    statusAfter .task st r ≠ .pending := by
  unfold statusAfter; split <;> simp_all

theorem statusAfter_started (k : Kind) (n : Nat) (r : Res) :
    statusAfter k (.started n) r = .started n := by
  unfold statusAfter; split <;> simp_all

theorem statusAfter_of_ne_pending (k : Kind) (st : Status) (r : Res) (h : st ≠ .pending) :
    statusAfter k st r = st := by
  unfold statusAfter; split <;> simp_all

/-! ### `resolve`: frame and effect -/

@[simp] theorem resolve_portal (s : State) (c : Nat) (o : Outcome) :
    (resolve s c o).portal = s.portal := by unfold resolve; split <;> rfl

@[simp] theorem resolve_groupCancel (s : State) (c : Nat) (o : Outcome) :
    (resolve s c o).groupCancel = s.groupCancel := by unfold resolve; split <;> rfl

@[simp] theorem resolve_live (s : State) (c : Nat) (o : Outcome) :
    (resolve s c o).live = s.live.erase c := by unfold resolve; split <;> rfl

@[simp] theorem resolve_pc (s : State) (c : Nat) (o : Outcome) :
    (resolve s c o).pc = upd s.pc c .resolved := by unfold resolve; split <;> rfl

@[simp] theorem resolve_kind (s : State) (c : Nat) (o : Outcome) :
    (resolve s c o).kind = s.kind := by unfold resolve; split <;> rfl

@[simp] theorem resolve_cancelReq (s : State) (c : Nat) (o : Outcome) :
    (resolve s c o).cancelReq = s.cancelReq := by unfold resolve; split <;> rfl

@[simp] theorem resolve_byStop (s : State) (c : Nat) (o : Outcome) :
    (resolve s c o).byStop = s.byStop := by unfold resolve; split <;> rfl

@[simp] theorem resolve_execs (s : State) (c : Nat) (o : Outcome) :
    (resolve s c o).execs = s.execs := by unfold resolve; split <;> rfl

@[simp] theorem resolve_outcome (s : State) (c : Nat) (o : Outcome) :
    (resolve s c o).outcome = upd s.outcome c (some o) := by unfold resolve; split <;> rfl

@[simp] theorem resolve_callerCancelled (s : State) (c : Nat) (o : Outcome) :
    (resolve s c o).callerCancelled = s.callerCancelled := by unfold resolve; split <;> rfl

/-- everything of another call is untouched by `resolve` -/
theorem resolve_other (s : State) (c : Nat) (o : Outcome) (d : Nat) (h : d ≠ c) :
    (resolve s c o).fut d = s.fut d ∧ (resolve s c o).futSets d = s.futSets d ∧
    (resolve s c o).status d = s.status d := by
  unfold resolve; split <;> simp [h]

/-- `resolve` on a pending future: the future takes the callable's outcome -/
theorem resolve_pending (s : State) (c : Nat) (o : Outcome) (h : s.fut c = .pending) :
    (resolve s c o).fut c = .done (resOf o) ∧ (resolve s c o).futSets c = s.futSets c + 1 ∧
    (resolve s c o).status c = statusAfter (s.kind c) (s.status c) (resOf o) := by
  unfold resolve; split <;> simp_all

/-- `resolve` on a future that is already done (cancelled by the caller): nothing is written -/
theorem resolve_done (s : State) (c : Nat) (o : Outcome) (r : Res) (h : s.fut c = .done r) :
    (resolve s c o).fut c = .done r ∧ (resolve s c o).futSets c = s.futSets c ∧
    (resolve s c o).status c = s.status c := by
  unfold resolve; split <;> simp_all

/-- single assignment inside `resolve` -/
theorem resolve_fut_stable (s : State) (c : Nat) (o : Outcome) (d : Nat) (r : Res)
    (h : s.fut d = .done r) : (resolve s c o).fut d = .done r := by
  by_cases hd : d = c
  · subst hd; exact (resolve_done s d o r h).1
  · rw [(resolve_other s c o d hd).1]; exact h

theorem resolve_status_started (s : State) (c : Nat) (o : Outcome) (d : Nat) (n : Nat)
    (h : s.status d = .started n) : (resolve s c o).status d = .started n := by
  by_cases hd : d = c
  · subst hd
    cases hf : s.fut d with
    | pending => rw [(resolve_pending s d o hf).2.2, h, statusAfter_started]
    | done r => rw [(resolve_done s d o r hf).2.2]; exact h
  · rw [(resolve_other s c o d hd).2.2]; exact h

/-! ### the invariant -/

structure Inv (s : State) : Prop where
  nodup : s.live.Nodup
  live_exact : ∀ c, c ∈ s.live ↔ (s.pc c = .spawned ∨ s.pc c = .running)
  stopped_empty : s.portal = .stopped → s.live = []
  execs0 : ∀ c, (s.pc c = .none ∨ s.pc c = .issued ∨ s.pc c = .refused ∨ s.pc c = .spawned) →
    s.execs c = 0
  execs1 : ∀ c, (s.pc c = .running ∨ s.pc c = .resolved) → s.execs c = 1
  pre : ∀ c, (s.pc c = .none ∨ s.pc c = .issued ∨ s.pc c = .refused) → s.fut c = .pending
  fut_sets : ∀ c, s.fut c = .pending ↔ s.futSets c = 0
  sets_le : ∀ c, s.futSets c ≤ 1
  resolved_done : ∀ c, s.pc c = .resolved → s.fut c ≠ .pending
  outcome_none : ∀ c, s.pc c ≠ .resolved → s.outcome c = none
  outcome_some : ∀ c, s.pc c = .resolved → s.outcome c ≠ none
  caller : ∀ c, s.callerCancelled c = true → s.fut c = .done .cancelled
  carries : ∀ c r, s.fut c = .done r → s.callerCancelled c = false →
    ∃ o, s.outcome c = some o ∧ r = resOf o ∧ s.pc c = .resolved
  cancelReq_fut : ∀ c, s.cancelReq c = true → s.fut c = .done .cancelled
  byStop_portal : ∀ c, s.byStop c = true → s.portal ≠ .running
  group_portal : s.groupCancel = true → s.portal ≠ .running
  status_task : ∀ c, s.kind c = .task → s.fut c ≠ .pending → s.status c ≠ .pending

theorem inv_init : Inv init := by
  constructor <;> simp [init]

/-- `resolve` of a spawned-or-running call re-establishes the invariant; `s` is the state in
which the callable has been entered (`execs c = 1`) -/
theorem inv_resolve {s : State} {c : Nat} {o : Outcome}
    (hpc : s.pc c = .spawned ∨ s.pc c = .running) (hex : s.execs c = 1)
    (h_nodup : s.live.Nodup)
    (h_live : ∀ d, d ∈ s.live ↔ (s.pc d = .spawned ∨ s.pc d = .running))
    (h_stopped : s.portal = .stopped → s.live = [])
    (h_e0 : ∀ d, d ≠ c →
      (s.pc d = .none ∨ s.pc d = .issued ∨ s.pc d = .refused ∨ s.pc d = .spawned) →
      s.execs d = 0)
    (h_e1 : ∀ d, d ≠ c → (s.pc d = .running ∨ s.pc d = .resolved) → s.execs d = 1)
    (h_pre : ∀ d, (s.pc d = .none ∨ s.pc d = .issued ∨ s.pc d = .refused) → s.fut d = .pending)
    (h_fs : ∀ d, s.fut d = .pending ↔ s.futSets d = 0)
    (h_le : ∀ d, s.futSets d ≤ 1)
    (h_rd : ∀ d, s.pc d = .resolved → s.fut d ≠ .pending)
    (h_on : ∀ d, s.pc d ≠ .resolved → s.outcome d = none)
    (h_os : ∀ d, s.pc d = .resolved → s.outcome d ≠ none)
    (h_cc : ∀ d, s.callerCancelled d = true → s.fut d = .done .cancelled)
    (h_car : ∀ d r, s.fut d = .done r → s.callerCancelled d = false →
      ∃ o, s.outcome d = some o ∧ r = resOf o ∧ s.pc d = .resolved)
    (h_cr : ∀ d, s.cancelReq d = true → s.fut d = .done .cancelled)
    (h_bs : ∀ d, s.byStop d = true → s.portal ≠ .running)
    (h_gp : s.groupCancel = true → s.portal ≠ .running)
    (h_st : ∀ d, s.kind d = .task → s.fut d ≠ .pending → s.status d ≠ .pending) :
    Inv (resolve s c o) := by
  have hother := resolve_other s c o
  have hpend := resolve_pending s c o
  have hdone := resolve_done s c o
  have hsa := statusAfter_ne_pending_of_task (s.status c) (resOf o)
  constructor
  · simpa using h_nodup.erase c
  · intro d
    simp only [resolve_live, resolve_pc, h_nodup.mem_erase_iff, upd_apply]
    grind
  · intro h; simp only [resolve_portal] at h; simp [h_stopped h]
  · intro d; simp only [resolve_pc, resolve_execs, upd_apply]; grind
  · intro d; simp only [resolve_pc, resolve_execs, upd_apply]; grind
  · intro d; simp only [resolve_pc, upd_apply]; grind
  · intro d
    by_cases hd : d = c
    · subst hd; cases hf : s.fut d <;> grind
    · grind
  · intro d
    by_cases hd : d = c
    · subst hd; cases hf : s.fut d <;> grind
    · grind
  · intro d
    by_cases hd : d = c
    · subst hd; cases hf : s.fut d <;> grind
    · simp only [resolve_pc, upd_apply]; grind
  · intro d; simp only [resolve_pc, resolve_outcome, upd_apply]; grind
  · intro d; simp only [resolve_pc, resolve_outcome, upd_apply]; grind
  · intro d
    simp only [resolve_callerCancelled]
    intro h
    exact resolve_fut_stable s c o d _ (h_cc d h)
  · intro d r
    simp only [resolve_callerCancelled, resolve_outcome, resolve_pc, upd_apply]
    by_cases hd : d = c
    · subst hd; cases hf : s.fut d <;> grind
    · grind
  · intro d
    simp only [resolve_cancelReq]
    intro h
    exact resolve_fut_stable s c o d _ (h_cr d h)
  · simpa using h_bs
  · simpa using h_gp
  · intro d
    simp only [resolve_kind]
    by_cases hd : d = c
    · subst hd; cases hf : s.fut d <;> grind
    · grind

theorem inv_step {s s' : State} {e : Ev} {o : Out} (hi : Inv s) (hs : step s e = some (s', o)) :
    Inv s' := by
  obtain ⟨h1, h2, h3, h4, h5, h6, h7, h8, h9, h10, h11, h12, h13, h14, h15, h16, h17⟩ := hi
  cases e with
  | issue c k =>
    simp only [step] at hs
    split at hs; · contradiction
    split at hs <;> (cases hs; constructor <;> simp only [upd_apply] <;> grind)
  | spawn c =>
    simp only [step] at hs
    split at hs; · contradiction
    split at hs
    · cases hs; constructor <;> simp only [upd_apply] <;> grind
    · cases hs; constructor <;> simp only [upd_apply, List.nodup_cons, List.mem_cons] <;> grind
  | beginSync c oc =>
    simp only [step] at hs
    split at hs
    · cases hs
      apply inv_resolve <;> simp only [upd_apply] <;> grind
    · contradiction
  | «begin» c =>
    simp only [step] at hs
    split at hs
    · cases hs; constructor <;> simp only [upd_apply] <;> grind
    · contradiction
  | started c n =>
    simp only [step] at hs
    split at hs
    · cases hs; constructor <;> simp only [upd_apply] <;> grind
    · contradiction
  | finish c oc =>
    simp only [step] at hs
    split at hs; · contradiction
    split at hs; · contradiction
    cases hs
    apply inv_resolve <;> grind
  | cancelFuture c =>
    simp only [step] at hs
    split at hs; · contradiction
    split at hs
    · cases hs; exact ⟨h1, h2, h3, h4, h5, h6, h7, h8, h9, h10, h11, h12, h13, h14, h15, h16, h17⟩
    · have hsa := statusAfter_ne_pending_of_task (s.status c) .cancelled
      split at hs <;> (cases hs; constructor <;> simp only [upd_apply] <;> grind)
  | stop cr =>
    simp only [step] at hs
    split at hs; · contradiction
    cases hs; constructor <;> grind
  | exit =>
    simp only [step] at hs
    split at hs
    · cases hs; constructor <;> grind
    · contradiction

end AnyioModel.Thread.Portal
