/-
Invariant of the `to_thread.run_sync` model (`AnyioModel.Thread.Worker`) and helper lemmas.
The property theorems are in `AnyioModel.Props.C14`.
-/
import AnyioModel.Thread.Worker

namespace AnyioModel.Thread.Worker

/-! ### list helpers -/

/-- pigeonhole: a duplicate-free list all of whose members are in `bs` is no longer than `bs` -/
theorem nodup_subset_length_le {cs bs : List Nat} (hnd : cs.Nodup) (hsub : ∀ c ∈ cs, c ∈ bs) :
    cs.length ≤ bs.length := by
  induction cs generalizing bs with
  | nil => simp
  | cons c cs ih =>
    have hc : c ∈ bs := hsub c (by simp)
    obtain ⟨hnc, hnd'⟩ := List.nodup_cons.mp hnd
    have h1 : cs.length ≤ (bs.erase c).length := by
      apply ih hnd'
      intro d hd
      have hdc : d ≠ c := by intro h; subst h; exact hnc hd
      exact (List.mem_erase_of_ne hdc).mpr (hsub d (by simp [hd]))
    rw [List.length_erase_of_mem hc] at h1
    have : 0 < bs.length := List.length_pos_of_mem hc
    simp only [List.length_cons]
    omega

theorem getLast?_eq_some_split {l : List Nat} {w : Nat} (h : l.getLast? = some w) :
    l = l.dropLast ++ [w] := by
  have hne : l ≠ [] := by intro h0; simp [h0] at h
  have h1 := List.dropLast_concat_getLast hne
  have h2 : l.getLast hne = w := by
    rw [List.getLast?_eq_some_getLast hne] at h; exact Option.some.inj h
  rw [h2] at h1; exact h1.symm

theorem getLast?_eq_none_nil {l : List Nat} (h : l.getLast? = none) : l = [] := by
  simpa using h

/-! ### `interrupt` -/

theorem interrupt_cases (s : State) (c : Nat) :
    interrupt s c = s ∨
    (s.pc c = .waitingToken ∧
      interrupt s c = { s with waitq := s.waitq.erase c, pc := upd s.pc c .wcancel }) ∨
    (s.pc c = .awaiting ∧ s.abandon c = true ∧
      interrupt s c = { s with fut := upd s.fut c .cancelled, pc := upd s.pc c .abandoned }) := by
  unfold interrupt
  split
  · right; left; simp_all
  · split
    · right; right; simp_all
    · left; rfl
  · left; rfl

@[simp] theorem interrupt_cancelReq (s : State) (c : Nat) :
    (interrupt s c).cancelReq = s.cancelReq := by
  rcases interrupt_cases s c with h | ⟨_, h⟩ | ⟨_, _, h⟩ <;> rw [h]

/-! ### the invariant -/

structure Inv (s : State) : Prop where
  /-- before the dispatch nothing exists on the thread side -/
  pre_idle : ∀ c, (s.pc c = .none ∨ s.pc c = .early ∨ s.pc c = .waitingToken ∨ s.pc c = .wcancel ∨
      s.pc c = .granted) → s.th c = .idle ∧ s.fut c = .pending
  bor_iff : ∀ c, c ∈ s.borrowers ↔
      (s.pc c = .granted ∨ s.pc c = .awaiting ∨ s.pc c = .resolved ∨ s.pc c = .abandoned)
  wq_iff : ∀ c, c ∈ s.waitq ↔ s.pc c = .waitingToken
  wq_nodup : s.waitq.Nodup
  bor_nodup : s.borrowers.Nodup
  bor_le : s.lowered = false → s.borrowers.length ≤ s.total
  awaiting : ∀ c, s.pc c = .awaiting → s.fut c = .pending ∧ Occupies s c
  resolved : ∀ c, s.pc c = .resolved → ∃ o, s.fut c = .done o
  abandoned : ∀ c, s.pc c = .abandoned → s.fut c = .cancelled
  fut_cancelled : ∀ c, s.fut c = .cancelled →
      s.abandon c = true ∧ s.cancelReq c = true ∧ (s.pc c = .abandoned ∨ s.pc c = .returned)
  fut_done : ∀ c o, s.fut c = .done o →
      s.outcome c = some o ∧ s.th c = .over ∧ (s.pc c = .resolved ∨ s.pc c = .returned)
  fut_pending : ∀ c, s.fut c = .pending → s.th c ≠ .idle → s.pc c = .awaiting
  finished_outcome : ∀ c, s.th c = .finished → s.outcome c ≠ none
  got_outcome : ∀ c o, s.got c = some (.outcome o) → s.fut c = .done o
  got_cancelled : ∀ c, s.got c = some .cancelled → s.cancelReq c = true
  returned_iff : ∀ c, s.pc c = .returned ↔ s.got c ≠ none
  shielded : ∀ c, s.abandon c = false → s.pc c = .returned → s.th c ≠ .idle →
      ∃ o, s.got c = some (.outcome o)
  -- workers
  busy_iff : ∀ w c, s.busy w = some c ↔ (Occupies s c ∧ s.worker c = w)
  idle_lt : ∀ w, w ∈ s.idle → w < s.nworkers
  busy_lt : ∀ w c, s.busy w = some c → w < s.nworkers
  lost_lt : ∀ w, w ∈ s.lost → w < s.nworkers
  idle_nodup : s.idle.Nodup
  idle_free : ∀ w, w ∈ s.idle → s.busy w = none ∧ w ∉ s.lost
  lost_free : ∀ w, w ∈ s.lost → s.busy w = none
  cancel_req : ∀ c, (s.pc c = .early ∨ s.pc c = .wcancel) → s.cancelReq c = true

set_option hygiene false in
/-- name the clauses of `hi : Inv s` as `h1 … h25` -/
macro "inv_destruct" : tactic =>
  `(tactic| obtain ⟨h1, h2, h3, h4, h5, h6, h7, h8, h9, h10, h11, h12, h13, h14, h15, h16, h17, h18,
      h19, h20, h21, h22, h23, h24, h25⟩ := hi)

theorem inv_init (n : Nat) : Inv (init n) := by
  constructor <;> simp [init, Occupies]

theorem inv_setCancel {s : State} (hi : Inv s) (c : Nat) :
    Inv { s with cancelReq := upd s.cancelReq c true } := by
  inv_destruct
  constructor <;> simp only [Occupies] at * <;> first | assumption | grind

theorem inv_interrupt {s : State} (hi : Inv s) (c : Nat) (hc : s.cancelReq c = true) :
    Inv (interrupt s c) := by
  rcases interrupt_cases s c with h | ⟨hp, h⟩ | ⟨hp, ha, h⟩
  · rw [h]; exact hi
  · rw [h]
    inv_destruct
    constructor <;> simp only [Occupies] at * <;> first | assumption | grind [List.Nodup.mem_erase_iff, List.Nodup.erase]
  · rw [h]
    inv_destruct
    constructor <;> simp only [Occupies] at * <;> first | assumption | grind

macro "inv_close" : tactic =>
  `(tactic| (constructor <;> simp only [Occupies] at * <;>
      first | assumption | grind [List.Nodup.mem_erase_iff, List.Nodup.erase, List.nodup_append]))

theorem inv_step_call {s s' : State} {o : Out} (hi : Inv s) {c : Nat} {ab pre : Bool}
    (hs : step s (.call c ab pre) = some (s', o)) : Inv s' := by
  inv_destruct
  simp only [step] at hs
  split at hs; · contradiction
  split at hs <;> (cases hs; inv_close)

theorem inv_step_tokenGranted {s s' : State} {o : Out} (hi : Inv s) {c : Nat}
    (hs : step s (.tokenGranted c) = some (s', o)) : Inv s' := by
  inv_destruct
  simp only [step] at hs
  split at hs; · contradiction
  split at hs
  · cases hs; inv_close
  · contradiction

theorem inv_step_dispatch {s s' : State} {o : Out} (hi : Inv s) {c : Nat}
    (hs : step s (.dispatch c) = some (s', o)) : Inv s' := by
  inv_destruct
  simp only [step] at hs
  split at hs; · contradiction
  split at hs
  · rename_i hl
    have hl' := getLast?_eq_none_nil hl
    cases hs; inv_close
  · rename_i w hl
    have hl' := getLast?_eq_some_split hl
    have hmem : ∀ x, x ∈ s.idle ↔ (x ∈ s.idle.dropLast ∨ x = w) := by
      intro x; rw [hl']; simp
    have hnd : s.idle.dropLast.Nodup ∧ w ∉ s.idle.dropLast := by
      rw [hl'] at h22; simp [List.nodup_append] at h22 ⊢; grind
    clear hl' hl
    cases hs; inv_close

theorem inv_step_threadStart {s s' : State} {o : Out} (hi : Inv s) {c : Nat}
    (hs : step s (.threadStart c) = some (s', o)) : Inv s' := by
  inv_destruct
  simp only [step] at hs
  split at hs
  · cases hs; inv_close
  · contradiction

theorem inv_step_threadSkip {s s' : State} {o : Out} (hi : Inv s) {c : Nat}
    (hs : step s (.threadSkip c) = some (s', o)) : Inv s' := by
  inv_destruct
  simp only [step] at hs
  split at hs
  · rename_i hq
    have hb : s.busy (s.worker c) = some c := (h18 _ _).mpr ⟨Or.inl hq.1, rfl⟩
    have hlt := h20 _ _ hb
    have huniq : ∀ d, Occupies s d → s.worker d = s.worker c → d = c := by
      intro d hd hw
      have := (h18 (s.worker c) d).mpr ⟨hd, hw⟩
      rw [hb] at this; exact (Option.some.inj this).symm
    cases hs; inv_close
  · contradiction

theorem inv_step_threadFinish {s s' : State} {o : Out} (hi : Inv s) {c : Nat} {r : Outcome}
    (hs : step s (.threadFinish c r) = some (s', o)) : Inv s' := by
  inv_destruct
  simp only [step] at hs
  split at hs
  · cases hs; inv_close
  · contradiction

theorem inv_step_report {s s' : State} {o : Out} (hi : Inv s) {c : Nat}
    (hs : step s (.report c) = some (s', o)) : Inv s' := by
  inv_destruct
  simp only [step] at hs
  split at hs; · contradiction
  rename_i hq; simp only [ne_eq, Decidable.not_not] at hq
  split at hs; · contradiction
  have hb : s.busy (s.worker c) = some c := (h18 _ _).mpr ⟨Or.inr (Or.inr hq), rfl⟩
  have hlt := h20 _ _ hb
  have huniq : ∀ d, Occupies s d → s.worker d = s.worker c → d = c := by
    intro d hd hw
    have := (h18 (s.worker c) d).mpr ⟨hd, hw⟩
    rw [hb] at this; exact (Option.some.inj this).symm
  have hni : s.worker c ∉ s.idle := by
    intro hm; have := (h23 _ hm).1; rw [hb] at this; cases this
  split at hs <;> (cases hs; inv_close)

theorem inv_step_resume {s s' : State} {o : Out} (hi : Inv s) {c : Nat}
    (hs : step s (.resume c) = some (s', o)) : Inv s' := by
  inv_destruct
  simp only [step] at hs
  split at hs
  · cases hs; inv_close
  · cases hs; inv_close
  · split at hs
    · cases hs; inv_close
    · contradiction
  · cases hs; inv_close
  · contradiction

theorem inv_step_setTotal {s s' : State} {o : Out} (hi : Inv s) {n : Nat}
    (hs : step s (.setTotal n) = some (s', o)) : Inv s' := by
  inv_destruct
  simp only [step] at hs
  cases hs; inv_close

theorem inv_step_prune {s s' : State} {o : Out} (hi : Inv s)
    (hs : step s (.prune) = some (s', o)) : Inv s' := by
  inv_destruct
  simp only [step] at hs
  split at hs
  · contradiction
  · cases hs; inv_close

theorem inv_step {s s' : State} {e : Ev} {o : Out} (hi : Inv s) (hs : step s e = some (s', o)) :
    Inv s' := by
  cases e with
  | callerCancelled c =>
    simp only [step] at hs
    split at hs; · contradiction
    cases hs
    exact inv_interrupt (inv_setCancel hi c) c (by simp)
  | deliver c =>
    simp only [step] at hs
    split at hs
    · rename_i hc; cases hs; exact inv_interrupt hi c hc
    · contradiction
  | call c ab pre => exact inv_step_call hi hs
  | tokenGranted c => exact inv_step_tokenGranted hi hs
  | dispatch c => exact inv_step_dispatch hi hs
  | threadStart c => exact inv_step_threadStart hi hs
  | threadSkip c => exact inv_step_threadSkip hi hs
  | threadFinish c r => exact inv_step_threadFinish hi hs
  | report c => exact inv_step_report hi hs
  | resume c => exact inv_step_resume hi hs
  | setTotal n => exact inv_step_setTotal hi hs
  | prune => exact inv_step_prune hi hs

end AnyioModel.Thread.Worker
