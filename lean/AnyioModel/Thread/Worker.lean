/-
Model of `anyio.to_thread.run_sync` on the asyncio backend
(`AsyncIOBackend.run_sync_in_worker_thread`, `class WorkerThread`, src/anyio/_backends/_asyncio.py)
cut at the caller task's awaits and at the worker thread's hand-over points.

Per call `c` (one `to_thread.run_sync(...)` invocation by one task) the state has two
coordinates, because with `abandon_on_cancel=True` the function keeps running after the caller
has left:

* `pc c`  the caller task:
    `none`          not called yet
    `early`         entered with an already cancelled scope: `await checkpoint()` will raise
    `waitingToken`  in the limiter's `_wait_queue`
    `wcancel`       its wait was cancelled (entry popped), wake-up which raises not yet run
    `granted`       holds a token (`c ∈ borrowers`), has not dispatched yet (it is in
                    `cancel_shielded_checkpoint()` or has been woken by `event.set()`)
    `awaiting`      job put into a worker's queue, `await future` (= DESIGN's *dispatched* /
                    *running*, refined by `th c`)
    `resolved`      `_report_result` resolved the future, wake-up pending (DESIGN: *reported*)
    `abandoned`     the future was cancelled by the caller's cancellation
                    (`abandon_on_cancel=True` only), wake-up which raises pending
    `returned`      terminal; `got c` is what the caller received
* `th c`  the job on the worker-thread side:
    `idle` (not dispatched) → `queued` → `running` → `finished` (function left, the
    `call_soon_threadsafe(_report_result)` callback not yet run by the loop) → `over`;
    `queued → over` directly by `threadSkip` (the worker sees `future.cancelled()`).

Limiter: `total`, `borrowers` (duplicate free), FIFO `waitq`; it is the CapacityLimiter of C10
restricted to `async with limiter` by the calling task (borrower = call).  `tokenGranted c`
is `acquire_on_behalf_of_nowait` succeeding for the head of the queue, or a releaser's
`_notify_next_waiter` / the `total_tokens` setter waking it.

Workers: `idle` is the per-loop `deque` `_threadpool_idle_workers`, last element = top of the
stack (`append` in `_report_result`, `pop()` at dispatch); `busy w` the job worker `w` has taken
and not yet reported; `nworkers` the number of `WorkerThread`s created so far; `lost` the
workers that skipped a cancelled job and therefore never re-entered the idle deque (see the
comment on `threadSkip`).  Pruning of workers idle for `MAX_IDLE_TIME` is the event `prune`
(oldest idle worker is stopped), time itself is not modelled.

Environment events: `threadStart`, `threadSkip`, `threadFinish c o` (OS scheduling + the wrapped
function: `o` is what it returned or raised), `report c` (the loop runs the
`call_soon_threadsafe` callback), `callerCancelled c` (a cancel scope enclosing the call is
cancelled: `cancelReq c` becomes and stays true, and -- as `CancelScope.cancel()` delivers
synchronously -- a caller blocked *cancellably* is interrupted at once), `deliver c` (a later
round of `_deliver_cancellation` reaching the caller), `setTotal n`.

Only cancel-scope (level) cancellation is modelled; a native `Task.cancel()` landing in the
hand-over cycle of the limiter is C10's business (F8).
-/
import AnyioModel.Util.LTS

namespace AnyioModel.Thread.Worker

inductive Pc where
  | none | early | waitingToken | wcancel | granted | awaiting | resolved | abandoned | returned
  deriving DecidableEq, Repr, Inhabited

inductive Th where
  | idle | queued | running | finished | over
  deriving DecidableEq, Repr, Inhabited

/-- what the wrapped function did: returned value number `n` / raised exception number `n` -/
inductive Outcome where
  | val (n : Nat)
  | exc (n : Nat)
  deriving DecidableEq, Repr, Inhabited

/-- the `asyncio.Future` of a call -/
inductive Fut where
  | pending
  | done (o : Outcome)
  | cancelled
  deriving DecidableEq, Repr, Inhabited

/-- what `run_sync` handed to its caller -/
inductive Got where
  | outcome (o : Outcome)
  | cancelled
  deriving DecidableEq, Repr, Inhabited

inductive Out where
  | susp                         -- the caller suspended
  | ret (o : Outcome) (pendingCancel : Bool)   -- run_sync returned / raised the function's outcome
  | cancelled                    -- run_sync raised the cancellation exception
  | env
  deriving DecidableEq, Repr

inductive Ev where
  | call (c : Nat) (abandonable : Bool) (pre : Bool)
  | tokenGranted (c : Nat)
  | dispatch (c : Nat)
  | threadStart (c : Nat)
  | threadSkip (c : Nat)
  | threadFinish (c : Nat) (o : Outcome)
  | report (c : Nat)
  | callerCancelled (c : Nat)
  | deliver (c : Nat)
  | resume (c : Nat)
  | setTotal (n : Nat)
  | prune
  deriving DecidableEq, Repr

structure State where
  total     : Nat
  borrowers : List Nat
  waitq     : List Nat
  pc        : Nat → Pc
  th        : Nat → Th
  abandon   : Nat → Bool
  cancelReq : Nat → Bool
  fut       : Nat → Fut
  worker    : Nat → Nat          -- meaningful once `th c ≠ idle`
  idle      : List Nat
  busy      : Nat → Option Nat
  nworkers  : Nat
  lost      : List Nat
  -- ghost
  outcome   : Nat → Option Outcome   -- what `threadFinish c` carried
  got       : Nat → Option Got       -- what the caller received
  lowered   : Bool                   -- some `setTotal` went below the current total

def init (total : Nat) : State :=
  { total, borrowers := [], waitq := [], pc := fun _ => .none, th := fun _ => .idle,
    abandon := fun _ => false, cancelReq := fun _ => false, fut := fun _ => .pending,
    worker := fun _ => 0, idle := [], busy := fun _ => none, nworkers := 0, lost := [],
    outcome := fun _ => none, got := fun _ => none, lowered := false }

def IsInit (s : State) : Prop := ∃ n, s = init n

/-- the effect of a cancellation reaching call `c`'s caller task: only a caller blocked in the
limiter's queue, or awaiting the future *without* the shield, is interrupted -/
def interrupt (s : State) (c : Nat) : State :=
  match s.pc c with
  | .waitingToken => { s with waitq := s.waitq.erase c, pc := upd s.pc c .wcancel }
  | .awaiting =>
    if s.abandon c then { s with fut := upd s.fut c .cancelled, pc := upd s.pc c .abandoned }
    else s
  | _ => s

def step (s : State) : Ev → Option (State × Out)
  | .call c ab pre =>
    if s.pc c ≠ .none then none else
    if pre then
      some ({ s with pc := upd s.pc c .early, abandon := upd s.abandon c ab,
                     cancelReq := upd s.cancelReq c true }, .susp)
    else
      some ({ s with pc := upd s.pc c .waitingToken, abandon := upd s.abandon c ab,
                     waitq := s.waitq ++ [c] }, .susp)
  | .tokenGranted c =>
    match s.waitq with
    | [] => none
    | d :: q =>
      if d = c ∧ s.borrowers.length < s.total then
        some ({ s with waitq := q, borrowers := c :: s.borrowers, pc := upd s.pc c .granted }, .env)
      else none
  | .dispatch c =>
    if s.pc c ≠ .granted then none else
    match s.idle.getLast? with
    | none =>
      -- `if not idle_workers: worker = WorkerThread(...)`
      some ({ s with pc := upd s.pc c .awaiting, th := upd s.th c .queued,
                     worker := upd s.worker c s.nworkers, busy := upd s.busy s.nworkers (some c),
                     nworkers := s.nworkers + 1 }, .susp)
    | some w =>
      -- `worker = idle_workers.pop()`
      some ({ s with pc := upd s.pc c .awaiting, th := upd s.th c .queued,
                     worker := upd s.worker c w, busy := upd s.busy w (some c),
                     idle := s.idle.dropLast }, .susp)
  | .threadStart c =>
    if s.th c = .queued ∧ s.fut c = .pending then
      some ({ s with th := upd s.th c .running }, .env)
    else none
  | .threadSkip c =>
    -- `if not future.cancelled():` is false: the function is not run and nothing is reported, so
    -- the worker goes back to `queue.get()` without being appended to the idle deque
    if s.th c = .queued ∧ s.fut c = .cancelled then
      some ({ s with th := upd s.th c .over, busy := upd s.busy (s.worker c) none,
                     lost := s.worker c :: s.lost }, .env)
    else none
  | .threadFinish c o =>
    if s.th c = .running then
      some ({ s with th := upd s.th c .finished, outcome := upd s.outcome c (some o) }, .env)
    else none
  | .report c =>
    if s.th c ≠ .finished then none else
    match s.outcome c with
    | none => none
    | some o =>
      let s1 := { s with th := upd s.th c .over, busy := upd s.busy (s.worker c) none,
                         idle := s.idle ++ [s.worker c] }
      if s.fut c = .pending then
        some ({ s1 with fut := upd s.fut c (.done o), pc := upd s.pc c .resolved }, .env)
      else some (s1, .env)
  | .callerCancelled c =>
    if s.pc c = .none then none else
    some (interrupt { s with cancelReq := upd s.cancelReq c true } c, .env)
  | .deliver c =>
    if s.cancelReq c = true then some (interrupt s c, .env) else none
  | .resume c =>
    match s.pc c with
    | .early => some ({ s with pc := upd s.pc c .returned, got := upd s.got c (some .cancelled) },
                      .cancelled)
    | .wcancel => some ({ s with pc := upd s.pc c .returned, got := upd s.got c (some .cancelled) },
                        .cancelled)
    | .resolved =>
      match s.fut c with
      | .done o =>
        some ({ s with pc := upd s.pc c .returned, got := upd s.got c (some (.outcome o)),
                       borrowers := s.borrowers.erase c }, .ret o (s.cancelReq c))
      | _ => none
    | .abandoned =>
      some ({ s with pc := upd s.pc c .returned, got := upd s.got c (some .cancelled),
                     borrowers := s.borrowers.erase c }, .cancelled)
    | _ => none
  | .setTotal n =>
    some ({ s with total := n, lowered := s.lowered || decide (n < s.total) }, .env)
  | .prune =>
    match s.idle with
    | [] => none
    | _ :: ws => some ({ s with idle := ws }, .env)

abbrev Reach (s : State) : Prop := Reachable IsInit step s

/-- the function of call `c` is executing and its result is still wanted -/
def RunningLive (s : State) (c : Nat) : Prop := s.th c = .running ∧ s.fut c = .pending

/-- the job of call `c` occupies a worker -/
def Occupies (s : State) (c : Nat) : Prop :=
  s.th c = .queued ∨ s.th c = .running ∨ s.th c = .finished

/-! ### `from_thread.check_cancelled()` (pure)

`AsyncIOBackend.check_cancelled` walks from `threadlocals.current_cancel_scope` outwards:
a scope with `cancel_called` raises, a shielded scope stops the walk. A scope is the pair
`(cancel_called, shield)`; the list is innermost first. -/
def checkCancelled : List (Bool × Bool) → Bool
  | [] => false
  | (cc, sh) :: rest => if cc then true else if sh then false else checkCancelled rest

end AnyioModel.Thread.Worker
