import AnyioModel.Sync.Limiter

namespace AnyioModel.Sync.Limiter

/-! ### small helpers -/

theorem mem_keys {l : List (Nat × Nat)} {b : Nat} : b ∈ l.map Prod.fst ↔ ∃ u, (b, u) ∈ l := by
  simp

theorem nodup_keys_filter {l : List (Nat × Nat)} (p : Nat × Nat → Bool)
    (h : (l.map Prod.fst).Nodup) : ((l.filter p).map Prod.fst).Nodup :=
  List.Nodup.sublist (List.Sublist.map _ List.filter_sublist) h

/-- in a list with duplicate-free keys an entry is determined by its key -/
theorem key_unique {l : List (Nat × Nat)} (h : (l.map Prod.fst).Nodup) {b u u' : Nat}
    (h1 : (b, u) ∈ l) (h2 : (b, u') ∈ l) : u = u' := by
  induction l with
  | nil => simp at h1
  | cons e l ih =>
    simp only [List.map_cons, List.nodup_cons, List.mem_map, not_exists, not_and] at h
    simp only [List.mem_cons] at h1 h2
    rcases h1 with rfl | h1 <;> rcases h2 with h2 | h2
    · cases h2; rfl
    · exact absurd rfl (h.1 (b, u') h2)
    · cases h2; exact absurd rfl (h.1 (b, u) h1)
    · exact ih h.2 h1 h2

theorem ltTot_succ_le {n : Nat} {v : Option Nat} (h : ltTot n v = true) : leTot (n + 1) v = true := by
  cases v <;> simp_all [ltTot, leTot]; omega

theorem leTot_mono {n m : Nat} {v : Option Nat} (h : leTot n v = true) (hm : m ≤ n) :
    leTot m v = true := by
  cases v <;> simp_all [leTot]; omega

/-! ### the invariant -/

/-- a token is reserved for the task's borrower, the acquire call has not returned -/
def reserving (p : Pc) : Prop :=
  p = .fastYield ∨ p = .fastYieldMC ∨ p = .granted ∨ p = .grantedMC ∨ p = .grantedFC

/-- the task has an entry in the wait queue whose event is not set -/
def queued (p : Pc) : Prop := p = .waiting ∨ p = .waitFC

theorem wakePc_queued {p : Pc} (h : queued p) : reserving (wakePc p) ∧ ¬ queued (wakePc p) := by
  rcases h with rfl | rfl <;> simp [wakePc, reserving, queued]

theorem not_queued_reserving {p : Pc} (h : queued p) : ¬ reserving p := by
  rcases h with rfl | rfl <;> simp [reserving]

/-- everything except "no idle token": preserved by each single wake-up -/
structure InvW (s : State) : Prop where
  nodupB : s.borrowers.Nodup
  nodupQ : (s.queue.map Prod.fst).Nodup
  disj : ∀ b u, (b, u) ∈ s.queue → b ∉ s.borrowers
  q_pc : ∀ b u, (b, u) ∈ s.queue → s.beh u = b ∧ queued (s.pc u)
  pc_q : ∀ u, queued (s.pc u) → (s.beh u, u) ∈ s.queue
  r_pc : ∀ b u, (b, u) ∈ s.resv → s.beh u = b ∧ reserving (s.pc u)
  pc_r : ∀ u, reserving (s.pc u) → (s.beh u, u) ∈ s.resv
  nodupR : (s.resv.map Prod.fst).Nodup
  nodupH : s.holders.Nodup
  mem_B : ∀ b, b ∈ s.borrowers ↔ (b ∈ s.holders ∨ ∃ u, (b, u) ∈ s.resv)
  disjHR : ∀ b u, b ∈ s.holders → (b, u) ∉ s.resv
  counts : s.holders.length + s.rels = s.grants
  bound : s.lowered = false → leTot s.borrowers.length s.total = true

structure Inv (s : State) : Prop extends InvW s where
  no_idle : s.queue ≠ [] → ltTot s.borrowers.length s.total = false

theorem inv_init {s : State} (h : IsInit s) : Inv s := by
  obtain ⟨v, rfl⟩ := h
  refine ⟨?_, ?_⟩
  · constructor <;> simp [init, queued, reserving]
    cases v <;> simp [leTot]
  · simp [init]

/-- one wake-up keeps `InvW`, adds exactly one borrower, and was permitted by a free token -/
theorem invW_wake1 {s s' : State} (hi : InvW s) (h : wake1 s = some s') :
    InvW s' ∧ s'.borrowers.length = s.borrowers.length + 1 ∧ s'.total = s.total ∧
      s'.queue.length + 1 = s.queue.length ∧ ltTot s.borrowers.length s.total = true ∧
      s'.holders = s.holders ∧ s'.lowered = s.lowered ∧ s'.grants = s.grants ∧ s'.rels = s.rels ∧
      (∃ b u, s.queue = (b, u) :: s'.queue ∧ s'.borrowers = b :: s.borrowers ∧
        s'.pc = upd s.pc u (wakePc (s.pc u)) ∧ s'.resv = (b, u) :: s.resv) ∧ s'.beh = s.beh := by
  obtain ⟨h1, h2, h3, h4, h5, h6, h7, h8, h9, h10, h11, h12, h13⟩ := hi
  unfold wake1 at h
  split at h
  · contradiction
  rename_i b u q hq
  split at h
  · rename_i hlt
    cases h
    have hbu : (b, u) ∈ s.queue := by simp [hq]
    have hbB : b ∉ s.borrowers := h3 b u hbu
    have hpu := h4 b u hbu
    have hadd : addB b s.borrowers = b :: s.borrowers := by simp [addB, hbB]
    have hbq : ∀ u', (b, u') ∉ q := by
      intro u' hm
      rw [hq] at h2
      simp only [List.map_cons, List.nodup_cons, List.mem_map, not_exists, not_and] at h2
      exact h2.1 (b, u') hm rfl
    have huq : ∀ b', (b', u) ∉ q := by
      intro b' hm
      have := (h4 b' u (by simp [hq, hm])).1
      rw [hpu.1] at this; subst this
      exact hbq u hm
    have hbr : ∀ u', (b, u') ∉ s.resv := by
      intro u' hm; exact hbB ((h10 b).mpr (Or.inr ⟨u', hm⟩))
    have hwq := wakePc_queued hpu.2
    refine ⟨⟨?_, ?_, ?_, ?_, ?_, ?_, ?_, ?_, h9, ?_, ?_, h12, ?_⟩, by simp [hadd], rfl, by simp [hq],
      hlt, rfl, rfl, rfl, rfl, ⟨b, u, by simp [hq], hadd, rfl, rfl⟩, rfl⟩
    · rw [hadd]; exact List.nodup_cons.mpr ⟨hbB, h1⟩
    · rw [hq] at h2; simp only [List.map_cons, List.nodup_cons] at h2; exact h2.2
    · intro b' u' hm
      rw [hadd]
      have hm' : (b', u') ∈ s.queue := by simp [hq, hm]
      have : b' ≠ b := by rintro rfl; exact hbq u' hm
      simp [this, h3 b' u' hm']
    · intro b' u' hm
      have hm' : (b', u') ∈ s.queue := by simp [hq, hm]
      have hne : u' ≠ u := by rintro rfl; exact huq b' hm
      simpa [hne] using h4 b' u' hm'
    · intro u' hu'
      by_cases hne : u' = u
      · subst hne; simp at hu'; exact absurd hu' hwq.2
      · simp [hne] at hu'
        have := h5 u' hu'
        rw [hq] at this
        simp only [List.mem_cons, Prod.mk.injEq] at this
        rcases this with ⟨_, hc⟩ | hm
        · exact absurd hc hne
        · exact hm
    · intro b' u' hm
      simp only [List.mem_cons, Prod.mk.injEq] at hm
      rcases hm with ⟨rfl, rfl⟩ | hm
      · simp [hpu.1, hwq.1]
      · have := h6 b' u' hm
        have hne : u' ≠ u := by rintro rfl; exact not_queued_reserving hpu.2 this.2
        simpa [hne] using this
    · intro u' hu'
      by_cases hne : u' = u
      · subst hne; simp [hpu.1]
      · simp [hne] at hu'; simp [h7 u' hu']
    · simp only [List.map_cons, List.nodup_cons, List.mem_map, not_exists, not_and]
      refine ⟨?_, h8⟩
      rintro ⟨b', u'⟩ hm rfl
      exact hbr u' hm
    · intro b'
      rw [hadd]
      simp only [List.mem_cons, Prod.mk.injEq]
      have := h10 b'
      constructor
      · rintro (rfl | hm)
        · exact Or.inr ⟨u, Or.inl ⟨rfl, rfl⟩⟩
        · rcases this.mp hm with hh | ⟨u', hr⟩
          · exact Or.inl hh
          · exact Or.inr ⟨u', Or.inr hr⟩
      · rintro (hh | ⟨u', ⟨rfl, rfl⟩ | hr⟩)
        · exact Or.inr (this.mpr (Or.inl hh))
        · exact Or.inl rfl
        · exact Or.inr (this.mpr (Or.inr ⟨u', hr⟩))
    · intro b' u' hh hm
      simp only [List.mem_cons, Prod.mk.injEq] at hm
      rcases hm with ⟨rfl, rfl⟩ | hm
      · exact hbB ((h10 b').mpr (Or.inl hh))
      · exact h11 b' u' hh hm
    · intro _
      rw [hadd]; exact ltTot_succ_le hlt
  · contradiction

theorem wake1_none {s : State} (h : wake1 s = none) :
    s.queue = [] ∨ ltTot s.borrowers.length s.total = false := by
  unfold wake1 at h
  split at h
  · left; assumption
  · split at h
    · contradiction
    · rename_i hn; right; simpa using hn

/-- `_notify_next_waiter()` after a token has been taken out of `_borrowers` -/
theorem inv_notify {s : State} (hi : InvW s)
    (hq : s.queue ≠ [] → ltTot (s.borrowers.length + 1) s.total = false) : Inv (notify s) := by
  unfold notify
  cases hw : wake1 s with
  | none =>
    simp only [Option.getD_none]
    refine ⟨hi, ?_⟩
    intro hne
    rcases wake1_none hw with h | h
    · exact absurd h hne
    · exact h
  | some s' =>
    simp only [Option.getD_some]
    obtain ⟨hi', hlen, htot, hql, _⟩ := invW_wake1 hi hw
    refine ⟨hi', ?_⟩
    intro _
    rw [hlen, htot]
    apply hq
    intro h0; rw [h0] at hql; simp at hql

theorem inv_wakeAll {s : State} (n : Nat) (hi : InvW s) (hn : s.queue.length ≤ n) :
    Inv (wakeAll n s) := by
  induction n generalizing s with
  | zero =>
    have : s.queue = [] := List.eq_nil_of_length_eq_zero (by omega)
    exact ⟨hi, fun h => absurd this h⟩
  | succ n ih =>
    unfold wakeAll
    cases hw : wake1 s with
    | none =>
      refine ⟨hi, ?_⟩
      intro hne
      rcases wake1_none hw with h | h
      · exact absurd h hne
      · exact h
    | some s' =>
      obtain ⟨hi', _, _, hql, _⟩ := invW_wake1 hi hw
      exact ih hi' (by omega)

/-! ### frame lemmas: what each kind of state change does to `InvW` -/

/-- a program-counter change that stays within its class (queued / reserving / neither) -/
theorem invW_pc_class {s : State} {t : Nat} {p : Pc} (hi : InvW s)
    (hq : queued p ↔ queued (s.pc t)) (hr : reserving p ↔ reserving (s.pc t)) :
    InvW { s with pc := upd s.pc t p } := by
  obtain ⟨h1, h2, h3, h4, h5, h6, h7, h8, h9, h10, h11, h12, h13⟩ := hi
  refine ⟨h1, h2, h3, ?_, ?_, ?_, ?_, h8, h9, h10, h11, h12, h13⟩
  · intro b u hm
    have := h4 b u hm
    by_cases hut : u = t
    · subst hut; simp; exact ⟨this.1, hq.mpr this.2⟩
    · simpa [hut] using this
  · intro u hu
    by_cases hut : u = t
    · subst hut; simp at hu; exact h5 u (hq.mp hu)
    · simp [hut] at hu; exact h5 u hu
  · intro b u hm
    have := h6 b u hm
    by_cases hut : u = t
    · subst hut; simp; exact ⟨this.1, hr.mpr this.2⟩
    · simpa [hut] using this
  · intro u hu
    by_cases hut : u = t
    · subst hut; simp at hu; exact h7 u (hr.mp hu)
    · simp [hut] at hu; exact h7 u hu

/-- a task that is in neither class starts an operation for borrower `b` without touching the
limiter (entry in a cancelled scope) -/
theorem invW_pc_neutral {s : State} {t b : Nat} {p : Pc} (hi : InvW s)
    (hq0 : ¬ queued (s.pc t)) (hr0 : ¬ reserving (s.pc t)) (hq : ¬ queued p) (hr : ¬ reserving p) :
    InvW { s with pc := upd s.pc t p, beh := upd s.beh t b } := by
  obtain ⟨h1, h2, h3, h4, h5, h6, h7, h8, h9, h10, h11, h12, h13⟩ := hi
  refine ⟨h1, h2, h3, ?_, ?_, ?_, ?_, h8, h9, h10, h11, h12, h13⟩
  · intro b' u hm
    have := h4 b' u hm
    have hut : u ≠ t := by rintro rfl; exact hq0 this.2
    simpa [hut] using this
  · intro u hu
    by_cases hut : u = t
    · subst hut; simp at hu; exact absurd hu hq
    · simp [hut] at hu; simpa [hut] using h5 u hu
  · intro b' u hm
    have := h6 b' u hm
    have hut : u ≠ t := by rintro rfl; exact hr0 this.2
    simpa [hut] using this
  · intro u hu
    by_cases hut : u = t
    · subst hut; simp at hu; exact absurd hu hr
    · simp [hut] at hu; simpa [hut] using h7 u hu

theorem mem_unresv {t : Nat} {r : List (Nat × Nat)} {e : Nat × Nat} :
    e ∈ unresv t r ↔ e ∈ r ∧ e.2 ≠ t := by
  simp [unresv]

theorem mem_dequeue {b : Nat} {q : List (Nat × Nat)} {e : Nat × Nat} :
    e ∈ dequeue b q ↔ e ∈ q ∧ e.1 ≠ b := by
  simp [dequeue]

theorem dequeue_of_not_mem {b : Nat} {q : List (Nat × Nat)} (h : ∀ u, (b, u) ∉ q) :
    dequeue b q = q := by
  unfold dequeue
  apply List.filter_eq_self.mpr
  rintro ⟨b', u⟩ hm
  have : b' ≠ b := by rintro rfl; exact h u hm
  simp [this]

/-- facts about the reservation of a task in a reserving state -/
theorem resv_facts {s : State} {t : Nat} (hi : InvW s) (hr : reserving (s.pc t)) :
    (s.beh t, t) ∈ s.resv ∧ s.beh t ∈ s.borrowers ∧ s.beh t ∉ s.holders ∧
    (∀ u, (s.beh t, u) ∉ unresv t s.resv) ∧ (∀ u, (s.beh t, u) ∉ s.queue) ∧ ¬ queued (s.pc t) := by
  have hm := hi.pc_r t hr
  refine ⟨hm, (hi.mem_B _).mpr (Or.inr ⟨t, hm⟩), fun hh => hi.disjHR _ t hh hm, ?_, ?_, ?_⟩
  · intro u hu
    obtain ⟨hu1, hu2⟩ := mem_unresv.mp hu
    exact hu2 (key_unique hi.nodupR hu1 hm)
  · intro u hu
    exact hi.disj _ u hu ((hi.mem_B _).mpr (Or.inr ⟨t, hm⟩))
  · intro hq; exact not_queued_reserving hq hr

/-- an acquire call returns normally: the reservation becomes a holding -/
theorem invW_return {s : State} {t : Nat} (hi : InvW s) (hr : reserving (s.pc t)) :
    InvW { s with pc := upd s.pc t .idle, resv := unresv t s.resv,
                  holders := s.beh t :: s.holders, grants := s.grants + 1 } := by
  obtain ⟨hm, hbB, hbH, hbU, hbQ, hnq⟩ := resv_facts hi hr
  obtain ⟨h1, h2, h3, h4, h5, h6, h7, h8, h9, h10, h11, h12, h13⟩ := hi
  refine ⟨h1, h2, h3, ?_, ?_, ?_, ?_, nodup_keys_filter _ h8, List.nodup_cons.mpr ⟨hbH, h9⟩,
    ?_, ?_, by simp; omega, h13⟩
  · intro b u hq
    have := h4 b u hq
    have hut : u ≠ t := by rintro rfl; exact hnq this.2
    simpa [hut] using this
  · intro u hu
    by_cases hut : u = t
    · subst hut; simp [queued] at hu
    · simp [hut] at hu; exact h5 u hu
  · intro b u hu
    obtain ⟨hu1, hu2⟩ := mem_unresv.mp hu
    simp only at hu2
    simpa [hu2] using h6 b u hu1
  · intro u hu
    by_cases hut : u = t
    · subst hut; simp [reserving] at hu
    · simp [hut] at hu
      exact mem_unresv.mpr ⟨h7 u hu, hut⟩
  · intro b
    have := h10 b
    simp only [List.mem_cons]
    constructor
    · intro hb
      rcases this.mp hb with hh | ⟨u, hu⟩
      · exact Or.inl (Or.inr hh)
      · by_cases hut : u = t
        · subst hut
          have := (h6 b u hu).1
          exact Or.inl (Or.inl this.symm)
        · exact Or.inr ⟨u, mem_unresv.mpr ⟨hu, hut⟩⟩
    · rintro ((rfl | hh) | ⟨u, hu⟩)
      · exact hbB
      · exact this.mpr (Or.inl hh)
      · exact this.mpr (Or.inr ⟨u, (mem_unresv.mp hu).1⟩)
  · intro b u hb hu
    simp only [List.mem_cons] at hb
    rcases hb with rfl | hb
    · exact hbU u hu
    · exact h11 b u hb (mem_unresv.mp hu).1

/-- a reserved token is given back: reservation and borrower entry disappear together -/
theorem invW_unreserve {s : State} {t : Nat} (hi : InvW s) (hr : reserving (s.pc t)) :
    InvW { s with pc := upd s.pc t .idle, resv := unresv t s.resv,
                  borrowers := s.borrowers.erase (s.beh t) } ∧
    (s.borrowers.erase (s.beh t)).length + 1 = s.borrowers.length := by
  obtain ⟨hm, hbB, hbH, hbU, hbQ, hnq⟩ := resv_facts hi hr
  obtain ⟨h1, h2, h3, h4, h5, h6, h7, h8, h9, h10, h11, h12, h13⟩ := hi
  have hlen := List.length_erase_of_mem hbB
  have hpos : 0 < s.borrowers.length := List.length_pos_of_mem hbB
  refine ⟨⟨List.Nodup.erase _ h1, h2, ?_, ?_, ?_, ?_, ?_, nodup_keys_filter _ h8, h9, ?_, ?_, h12, ?_⟩,
    by omega⟩
  · intro b u hq hb
    exact h3 b u hq (List.mem_of_mem_erase hb)
  · intro b u hq
    have := h4 b u hq
    have hut : u ≠ t := by rintro rfl; exact hnq this.2
    simpa [hut] using this
  · intro u hu
    by_cases hut : u = t
    · subst hut; simp [queued] at hu
    · simp [hut] at hu; exact h5 u hu
  · intro b u hu
    obtain ⟨hu1, hu2⟩ := mem_unresv.mp hu
    simp only at hu2
    simpa [hu2] using h6 b u hu1
  · intro u hu
    by_cases hut : u = t
    · subst hut; simp [reserving] at hu
    · simp [hut] at hu
      exact mem_unresv.mpr ⟨h7 u hu, hut⟩
  · intro b
    rw [List.Nodup.mem_erase_iff h1]
    have := h10 b
    constructor
    · rintro ⟨hne, hb⟩
      rcases this.mp hb with hh | ⟨u, hu⟩
      · exact Or.inl hh
      · by_cases hut : u = t
        · subst hut; exact absurd (h6 b u hu).1.symm hne
        · exact Or.inr ⟨u, mem_unresv.mpr ⟨hu, hut⟩⟩
    · rintro (hh | ⟨u, hu⟩)
      · exact ⟨by rintro rfl; exact hbH hh, this.mpr (Or.inl hh)⟩
      · exact ⟨by rintro rfl; exact hbU u hu, this.mpr (Or.inr ⟨u, (mem_unresv.mp hu).1⟩)⟩
  · intro b u hb hu
    exact h11 b u hb (mem_unresv.mp hu).1
  · intro hl
    exact leTot_mono (h13 hl) (by simp only; omega)

/-- the cancelled waiter pops its own, not yet notified, queue entry -/
theorem invW_dequeue {s : State} {t : Nat} (hi : InvW s) (hq : queued (s.pc t)) :
    InvW { s with queue := dequeue (s.beh t) s.queue, pc := upd s.pc t .idle } := by
  have hm := hi.pc_q t hq
  obtain ⟨h1, h2, h3, h4, h5, h6, h7, h8, h9, h10, h11, h12, h13⟩ := hi
  refine ⟨h1, nodup_keys_filter _ h2, ?_, ?_, ?_, ?_, ?_, h8, h9, h10, h11, h12, h13⟩
  · intro b u hu; exact h3 b u (mem_dequeue.mp hu).1
  · intro b u hu
    obtain ⟨hu1, hu2⟩ := mem_dequeue.mp hu
    have := h4 b u hu1
    have hut : u ≠ t := by rintro rfl; exact hu2 this.1.symm
    simpa [hut] using this
  · intro u hu
    by_cases hut : u = t
    · subst hut; simp [queued] at hu
    · simp [hut] at hu
      have hmu := h5 u hu
      refine mem_dequeue.mpr ⟨hmu, ?_⟩
      intro he
      simp only at he
      rw [he] at hmu
      exact hut (key_unique h2 hmu hm)
  · intro b u hu
    have := h6 b u hu
    have hut : u ≠ t := by rintro rfl; exact not_queued_reserving hq this.2
    simpa [hut] using this
  · intro u hu
    by_cases hut : u = t
    · subst hut; simp [reserving] at hu
    · simp [hut] at hu; exact h7 u hu

/-- `release_on_behalf_of(b)` for a holder: before the next waiter is notified -/
theorem invW_release {s : State} {b : Nat} (hi : InvW s) (hb : b ∈ s.borrowers)
    (hnr : ∀ u, (b, u) ∉ s.resv) :
    InvW { s with borrowers := s.borrowers.erase b, holders := s.holders.erase b,
                  rels := s.rels + 1 } ∧
    (s.borrowers.erase b).length + 1 = s.borrowers.length ∧ b ∈ s.holders := by
  obtain ⟨h1, h2, h3, h4, h5, h6, h7, h8, h9, h10, h11, h12, h13⟩ := hi
  have hbH : b ∈ s.holders := by
    rcases (h10 b).mp hb with hh | ⟨u, hu⟩
    · exact hh
    · exact absurd hu (hnr u)
  have hlen := List.length_erase_of_mem hb
  have hpos : 0 < s.borrowers.length := List.length_pos_of_mem hb
  have hlenH := List.length_erase_of_mem hbH
  have hposH : 0 < s.holders.length := List.length_pos_of_mem hbH
  refine ⟨⟨List.Nodup.erase _ h1, h2, ?_, h4, h5, h6, h7, h8, List.Nodup.erase _ h9, ?_, ?_, ?_, ?_⟩,
    by omega, hbH⟩
  · intro b' u hq hb'; exact h3 b' u hq (List.mem_of_mem_erase hb')
  · intro b'
    rw [List.Nodup.mem_erase_iff h1, List.Nodup.mem_erase_iff h9]
    have := h10 b'
    constructor
    · rintro ⟨hne, hb'⟩
      rcases this.mp hb' with hh | hr
      · exact Or.inl ⟨hne, hh⟩
      · exact Or.inr hr
    · rintro (⟨hne, hh⟩ | ⟨u, hu⟩)
      · exact ⟨hne, this.mpr (Or.inl hh)⟩
      · exact ⟨by rintro rfl; exact hnr u hu, this.mpr (Or.inr ⟨u, hu⟩)⟩
  · intro b' u hb' hu; exact h11 b' u (List.mem_of_mem_erase hb') hu
  · simp only; omega
  · intro hl; exact leTot_mono (h13 hl) (by simp only; omega)

theorem enqueue_new {b t : Nat} {q : List (Nat × Nat)} (h : ∀ u, (b, u) ∉ q) :
    enqueue b t q = q ++ [(b, t)] := by
  unfold enqueue
  have : b ∉ q.map Prod.fst := by
    intro hm; obtain ⟨u, hu⟩ := mem_keys.mp hm; exact h u hu
  simp [this]

/-- an acquire call that has to wait appends its entry -/
theorem invW_enqueue {s : State} {t b : Nat} (hi : InvW s) (hpc : s.pc t = .idle)
    (hb : b ∉ s.borrowers) (hnq : ∀ u, (b, u) ∉ s.queue) :
    InvW { s with queue := s.queue ++ [(b, t)], pc := upd s.pc t .waiting,
                  beh := upd s.beh t b } := by
  obtain ⟨h1, h2, h3, h4, h5, h6, h7, h8, h9, h10, h11, h12, h13⟩ := hi
  refine ⟨h1, ?_, ?_, ?_, ?_, ?_, ?_, h8, h9, h10, h11, h12, h13⟩
  · simp only [List.map_append, List.map_cons, List.map_nil]
    refine List.nodup_append.mpr ⟨h2, by simp, ?_⟩
    intro a ha c hc
    simp at hc; subst hc
    rintro rfl
    obtain ⟨u, hu⟩ := mem_keys.mp ha
    exact hnq u hu
  · intro b' u hm
    simp only [List.mem_append, List.mem_singleton, Prod.mk.injEq] at hm
    rcases hm with hm | ⟨rfl, rfl⟩
    · exact h3 b' u hm
    · exact hb
  · intro b' u hm
    simp only [List.mem_append, List.mem_singleton, Prod.mk.injEq] at hm
    rcases hm with hm | ⟨rfl, rfl⟩
    · have := h4 b' u hm
      have hut : u ≠ t := by rintro rfl; simp [hpc, queued] at this
      simpa [hut] using this
    · simp [queued]
  · intro u hu
    by_cases hut : u = t
    · subst hut; simp
    · simp [hut] at hu; simp [hut, h5 u hu]
  · intro b' u hm
    have := h6 b' u hm
    have hut : u ≠ t := by rintro rfl; simp [hpc, reserving] at this
    simpa [hut] using this
  · intro u hu
    by_cases hut : u = t
    · subst hut; simp [reserving] at hu
    · simp [hut] at hu; simpa [hut] using h7 u hu

/-- an acquire call that finds a free token and an empty queue takes it and yields -/
theorem invW_fast {s : State} {t b : Nat} (hi : InvW s) (hpc : s.pc t = .idle)
    (hb : b ∉ s.borrowers) (hq : s.queue = []) (hlt : ltTot s.borrowers.length s.total = true) :
    InvW { s with borrowers := b :: s.borrowers, pc := upd s.pc t .fastYield,
                  beh := upd s.beh t b, resv := (b, t) :: s.resv } := by
  obtain ⟨h1, h2, h3, h4, h5, h6, h7, h8, h9, h10, h11, h12, h13⟩ := hi
  have hbr : ∀ u, (b, u) ∉ s.resv := fun u hu => hb ((h10 b).mpr (Or.inr ⟨u, hu⟩))
  refine ⟨List.nodup_cons.mpr ⟨hb, h1⟩, h2, ?_, ?_, ?_, ?_, ?_, ?_, h9, ?_, ?_, h12, ?_⟩
  · intro b' u hm; simp [hq] at hm
  · intro b' u hm; simp [hq] at hm
  · intro u hu
    by_cases hut : u = t
    · subst hut; simp [queued] at hu
    · simp [hut] at hu; have := h5 u hu; simp [hq] at this
  · intro b' u hm
    simp only [List.mem_cons, Prod.mk.injEq] at hm
    rcases hm with ⟨rfl, rfl⟩ | hm
    · simp [reserving]
    · have := h6 b' u hm
      have hut : u ≠ t := by rintro rfl; simp [hpc, reserving] at this
      simpa [hut] using this
  · intro u hu
    by_cases hut : u = t
    · subst hut; simp
    · simp [hut] at hu; simp [hut, h7 u hu]
  · simp only [List.map_cons, List.nodup_cons, List.mem_map, not_exists, not_and]
    refine ⟨?_, h8⟩
    rintro ⟨b', u'⟩ hm rfl
    exact hbr u' hm
  · intro b'
    simp only [List.mem_cons, Prod.mk.injEq]
    have := h10 b'
    constructor
    · rintro (rfl | hm)
      · exact Or.inr ⟨t, Or.inl ⟨rfl, rfl⟩⟩
      · rcases this.mp hm with hh | ⟨u', hr⟩
        · exact Or.inl hh
        · exact Or.inr ⟨u', Or.inr hr⟩
    · rintro (hh | ⟨u', ⟨rfl, rfl⟩ | hr⟩)
      · exact Or.inr (this.mpr (Or.inl hh))
      · exact Or.inl rfl
      · exact Or.inr (this.mpr (Or.inr ⟨u', hr⟩))
  · intro b' u' hh hm
    simp only [List.mem_cons, Prod.mk.injEq] at hm
    rcases hm with ⟨rfl, rfl⟩ | hm
    · exact hb ((h10 b').mpr (Or.inl hh))
    · exact h11 b' u' hh hm
  · intro _; exact ltTot_succ_le hlt

/-- `acquire_on_behalf_of_nowait` succeeds -/
theorem invW_nowait {s : State} {b : Nat} (hi : InvW s) (hb : b ∉ s.borrowers)
    (hq : s.queue = []) (hlt : ltTot s.borrowers.length s.total = true) :
    InvW { s with borrowers := b :: s.borrowers, holders := b :: s.holders,
                  grants := s.grants + 1 } := by
  obtain ⟨h1, h2, h3, h4, h5, h6, h7, h8, h9, h10, h11, h12, h13⟩ := hi
  have hbh : b ∉ s.holders := fun hh => hb ((h10 b).mpr (Or.inl hh))
  refine ⟨List.nodup_cons.mpr ⟨hb, h1⟩, h2, ?_, h4, h5, h6, h7, h8, List.nodup_cons.mpr ⟨hbh, h9⟩,
    ?_, ?_, by simp only [List.length_cons]; omega, ?_⟩
  · intro b' u hm; simp [hq] at hm
  · intro b'
    simp only [List.mem_cons]
    have := h10 b'
    constructor
    · rintro (rfl | hm)
      · exact Or.inl (Or.inl rfl)
      · rcases this.mp hm with hh | hr
        · exact Or.inl (Or.inr hh)
        · exact Or.inr hr
    · rintro ((rfl | hh) | hr)
      · exact Or.inl rfl
      · exact Or.inr (this.mpr (Or.inl hh))
      · exact Or.inr (this.mpr (Or.inr hr))
  · intro b' u hh hm
    simp only [List.mem_cons] at hh
    rcases hh with rfl | hh
    · exact hb ((h10 b').mpr (Or.inr ⟨u, hm⟩))
    · exact h11 b' u hh hm
  · intro _; exact ltTot_succ_le hlt

/-! ### preservation by every disciplined event -/

theorem inv_acq {s s' : State} {t b : Nat} {pre : Bool} {o : Out} (hi : Inv s)
    (hok : pre = true ∨ ∀ u, (b, u) ∉ s.queue) (h : acq s t b pre = some (s', o)) : Inv s' := by
  unfold acq at h
  split at h; · contradiction
  rename_i hpc; simp only [ne_eq, Decidable.not_not] at hpc
  split at h
  · cases h
    exact ⟨invW_pc_neutral hi.toInvW (by simp [hpc, queued]) (by simp [hpc, reserving])
      (by simp [queued]) (by simp [reserving]), hi.no_idle⟩
  · rename_i hpre
    have hnq : ∀ u, (b, u) ∉ s.queue := by
      rcases hok with h1 | h1
      · exact absurd h1 hpre
      · exact h1
    split at h
    · cases h; exact hi
    · rename_i hb
      split at h
      · rename_i hwait
        cases h
        rw [enqueue_new hnq]
        refine ⟨invW_enqueue hi.toInvW hpc hb hnq, ?_⟩
        intro _
        rcases hwait with hne | hlt
        · exact hi.no_idle hne
        · exact hlt
      · rename_i hfree
        cases h
        have hq : s.queue = [] := by
          cases hqq : s.queue with
          | nil => rfl
          | cons e q => exact absurd (Or.inl (by simp [hqq])) hfree
        have hlt : ltTot s.borrowers.length s.total = true := by
          cases hl : ltTot s.borrowers.length s.total with
          | true => rfl
          | false => exact absurd (Or.inr hl) hfree
        exact ⟨invW_fast hi.toInvW hpc hb hq hlt, by intro hne; exact absurd hq hne⟩

theorem inv_acqNowait {s s' : State} {t b : Nat} {o : Out} (hi : Inv s)
    (h : acqNowait s t b = some (s', o)) : Inv s' := by
  unfold acqNowait at h
  split at h; · contradiction
  split at h
  · cases h; exact hi
  · rename_i hb
    split at h
    · cases h; exact hi
    · rename_i hfree
      cases h
      have hq : s.queue = [] := by
        cases hqq : s.queue with
        | nil => rfl
        | cons e q => exact absurd (Or.inl (by simp [hqq])) hfree
      have hlt : ltTot s.borrowers.length s.total = true := by
        cases hl : ltTot s.borrowers.length s.total with
        | true => rfl
        | false => exact absurd (Or.inr hl) hfree
      exact ⟨invW_nowait hi.toInvW hb hq hlt, by intro hne; exact absurd hq hne⟩

theorem inv_rel {s s' : State} {t b : Nat} {o : Out} (hi : Inv s)
    (hok : ∀ u, (b, u) ∉ s.resv) (h : rel s t b = some (s', o)) : Inv s' := by
  unfold rel at h
  split at h; · contradiction
  split at h
  · rename_i hb
    cases h
    obtain ⟨hw, hlen, _⟩ := invW_release hi.toInvW hb hok
    apply inv_notify hw
    intro hne
    have := hi.no_idle hne
    simp only at hlen ⊢
    rw [hlen]; exact this
  · cases h; exact hi

theorem inv_unreserve_notify {s : State} {t : Nat} (hi : Inv s) (hr : reserving (s.pc t)) :
    Inv (notify { s with pc := upd s.pc t .idle, resv := unresv t s.resv,
                         borrowers := s.borrowers.erase (s.beh t) }) := by
  obtain ⟨hw, hlen⟩ := invW_unreserve hi.toInvW hr
  apply inv_notify hw
  intro hne
  have := hi.no_idle hne
  simp only at hlen ⊢
  rw [hlen]; exact this

theorem giveBack_eq {s : State} {t : Nat} (hi : Inv s) (hr : reserving (s.pc t)) :
    giveBack s t = notify { s with pc := upd s.pc t .idle, resv := unresv t s.resv,
                                   borrowers := s.borrowers.erase (s.beh t) } := by
  obtain ⟨_, _, _, _, hbQ, _⟩ := resv_facts hi.toInvW hr
  unfold giveBack
  simp only [dequeue_of_not_mem hbQ]

theorem oneWaitOk_acq {s : State} {b : Nat} {pre : Bool}
    (h : (pre || !(s.queue.map Prod.fst).contains b) = true) :
    pre = true ∨ ∀ u, (b, u) ∉ s.queue := by
  cases pre with
  | true => left; rfl
  | false =>
    right
    intro u hu
    simp at h
    exact h u hu

theorem releaseOk_rel {s : State} {b : Nat} (h : (!(s.resv.map Prod.fst).contains b) = true) :
    ∀ u, (b, u) ∉ s.resv := by
  intro u hu
  simp at h
  exact h u hu

theorem inv_step {s s' : State} {e : Ev} {o : Out} (hi : Inv s) (hs : dstep s e = some (s', o)) :
    Inv s' := by
  unfold dstep at hs
  split at hs
  rotate_left
  · contradiction
  rename_i hok
  simp only [okEv, Bool.and_eq_true] at hok
  obtain ⟨hok1, hok2⟩ := hok
  cases e with
  | acquire t pre => exact inv_acq hi (oneWaitOk_acq hok1) hs
  | acquireOnBehalf t b pre => exact inv_acq hi (oneWaitOk_acq hok1) hs
  | acquireNowait t => exact inv_acqNowait hi hs
  | acquireOnBehalfNowait t b => exact inv_acqNowait hi hs
  | release t => exact inv_rel hi (releaseOk_rel hok2) hs
  | releaseOnBehalf t b => exact inv_rel hi (releaseOk_rel hok2) hs
  | setTotal v =>
    simp only [step] at hs
    cases hs
    obtain ⟨h1, h2, h3, h4, h5, h6, h7, h8, h9, h10, h11, h12, h13⟩ := hi.toInvW
    have hw : InvW { s with total := v, lowered := s.lowered || !leTot s.borrowers.length v } := by
      refine ⟨h1, h2, h3, h4, h5, h6, h7, h8, h9, h10, h11, h12, ?_⟩
      intro hl
      simp only [Bool.or_eq_false_iff, Bool.not_eq_false'] at hl
      exact hl.2
    exact inv_wakeAll s.queue.length hw (Nat.le_refl _)
  | fc t =>
    simp only [step] at hs
    split at hs
    · rename_i hpc
      cases hs
      exact ⟨invW_pc_class hi.toInvW (by simp [hpc, queued]) (by simp [hpc, reserving]), hi.no_idle⟩
    · contradiction
  | mc t =>
    simp only [step] at hs
    split at hs
    all_goals first
      | contradiction
      | (rename_i hpc
         cases hs
         exact ⟨invW_pc_class hi.toInvW (by simp [hpc, queued]) (by simp [hpc, reserving]),
           hi.no_idle⟩)
  | step t =>
    simp only [step] at hs
    split at hs
    · contradiction
    · contradiction
    · cases hs; exact hi
    · rename_i hpc
      cases hs
      exact ⟨invW_pc_class hi.toInvW (by simp [hpc, queued]) (by simp [hpc, reserving]), hi.no_idle⟩
    · rename_i hpc
      cases hs
      exact ⟨invW_return hi.toInvW (by simp [hpc, reserving]), hi.no_idle⟩
    · rename_i hpc
      have hr : reserving (s.pc t) := by simp [hpc, reserving]
      obtain ⟨_, hbB, _⟩ := resv_facts hi.toInvW hr
      simp only [hbB, if_true] at hs
      cases hs
      exact inv_unreserve_notify hi hr
    · rename_i hpc
      cases hs
      refine ⟨invW_dequeue hi.toInvW (by simp [hpc, queued]), ?_⟩
      intro hne
      apply hi.no_idle
      intro h0
      apply hne
      simp [dequeue, h0]
    · rename_i hpc
      cases hs
      exact ⟨invW_return hi.toInvW (by simp [hpc, reserving]), hi.no_idle⟩
    · rename_i hpc
      have hr : reserving (s.pc t) := by simp [hpc, reserving]
      cases hs
      rw [giveBack_eq hi hr]
      exact inv_unreserve_notify hi hr
    · rename_i hpc
      have hr : reserving (s.pc t) := by simp [hpc, reserving]
      cases hs
      rw [giveBack_eq hi hr]
      exact inv_unreserve_notify hi hr

end AnyioModel.Sync.Limiter
