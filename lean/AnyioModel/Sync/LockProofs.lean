import AnyioModel.Sync.Lock

namespace AnyioModel.Sync.Lock

/-! ### list helpers -/

theorem grant_some {ws : List (Nat × Bool)} {u rest} (h : grant ws = some (u, rest)) :
    ∃ pre, ws = pre ++ (u, false) :: rest ∧ ∀ w ∈ pre, w.2 = true := by
  induction ws with
  | nil => simp [grant] at h
  | cons w ws ih =>
    obtain ⟨v, c⟩ := w
    cases c with
    | true =>
      simp only [grant] at h
      obtain ⟨pre, hp, hc⟩ := ih h
      exact ⟨(v, true) :: pre, by simp [hp], by simpa using hc⟩
    | false =>
      simp only [grant, Option.some.injEq, Prod.mk.injEq] at h
      obtain ⟨rfl, rfl⟩ := h
      exact ⟨[], by simp, by simp⟩

theorem grant_none {ws : List (Nat × Bool)} (h : grant ws = none) : ∀ w ∈ ws, w.2 = true := by
  induction ws with
  | nil => simp
  | cons w ws ih =>
    obtain ⟨v, c⟩ := w
    cases c with
    | true => simp only [grant] at h; simpa using ih h
    | false => simp [grant] at h

theorem mem_markCancelled {t : Nat} {ws : List (Nat × Bool)} {u c} :
    (u, c) ∈ markCancelled t ws ↔
      (u = t ∧ c = true ∧ ∃ c', (t, c') ∈ ws) ∨ (u ≠ t ∧ (u, c) ∈ ws) := by
  simp only [markCancelled, List.mem_map, Prod.exists]
  constructor
  · rintro ⟨a, b, hm, he⟩
    by_cases hat : a = t
    · simp [hat] at he; grind
    · simp [hat] at he; grind
  · rintro (⟨rfl, rfl, c', hc⟩ | ⟨hne, hm⟩)
    · exact ⟨u, c', hc, by simp⟩
    · exact ⟨u, c, hm, by simp [hne]⟩

theorem map_fst_markCancelled (t : Nat) (ws : List (Nat × Bool)) :
    (markCancelled t ws).map Prod.fst = ws.map Prod.fst := by
  induction ws with
  | nil => rfl
  | cons w ws ih =>
    simp only [markCancelled, List.map_cons, List.map_map] at ih ⊢
    by_cases h : w.1 = t <;> simp [h, ih]

theorem mem_removeWaiter {t : Nat} {ws : List (Nat × Bool)} {w} :
    w ∈ removeWaiter t ws ↔ w ∈ ws ∧ w.1 ≠ t := by
  simp [removeWaiter]

/-! ### the invariant -/

def owning (p : Pc) : Prop :=
  p = .fastYield ∨ p = .fastYieldMC ∨ p = .granted ∨ p = .grantedMC

structure Inv (s : State) : Prop where
  free_no_waiters : s.owner = none → s.waiters = []
  holds_owner : ∀ t, s.holds t = true → s.owner = some t ∧ s.pc t = .idle
  owner_acct : ∀ t, s.owner = some t → s.holds t = true ∨ owning (s.pc t)
  owning_owner : ∀ t, owning (s.pc t) → s.owner = some t
  waiter_pc : ∀ t c, (t, c) ∈ s.waiters →
    (c = false ∧ s.pc t = .waiting) ∨ (c = true ∧ s.pc t = .waitFC)
  waiting_queued : ∀ t, s.pc t = .waiting → (t, false) ∈ s.waiters
  nodup : (s.waiters.map Prod.fst).Nodup

theorem inv_init (f : Bool) : Inv (init f) := by
  constructor <;> simp [init, owning]

/-- `release()`'s body re-establishes the invariant from a state in which the releasing task `t`
is the owner but is accounted for by nothing else any more. -/
theorem inv_doRelease {s : State} {t : Nat}
    (h1 : s.owner = some t) (hpc : ¬ owning (s.pc t)) (hh : s.holds t = false)
    (hho : ∀ u, s.holds u = true → s.owner = some u ∧ s.pc u = .idle)
    (hoo : ∀ u, owning (s.pc u) → s.owner = some u)
    (hw : ∀ u c, (u, c) ∈ s.waiters →
      (c = false ∧ s.pc u = .waiting) ∨ (c = true ∧ s.pc u = .waitFC))
    (hq : ∀ u, s.pc u = .waiting → (u, false) ∈ s.waiters)
    (hnd : (s.waiters.map Prod.fst).Nodup) :
    Inv (doRelease s) := by
  unfold doRelease
  split
  · rename_i u rest hg
    obtain ⟨pre, hws, hpre⟩ := grant_some hg
    have hu : s.pc u = .waiting := by
      have := hw u false (by simp [hws]); grind
    have hnr : ∀ c, (u, c) ∉ rest := by
      intro c hc
      rw [hws] at hnd
      simp only [List.map_append, List.map_cons] at hnd
      have := List.nodup_append.mp hnd
      have h2 := (List.nodup_cons.mp this.2.1).1
      exact h2 (List.mem_map.mpr ⟨(u, c), hc, rfl⟩)
    have hsub : ∀ w, w ∈ rest → w ∈ s.waiters := by intro w hw'; simp [hws, hw']
    constructor
    · simp
    · intro v hv; have := hho v hv; grind
    · intro v hv; simp at hv; subst hv; right; simp [owning]
    · intro v hv
      by_cases hvu : v = u
      · simp [hvu]
      · simp [hvu] at hv; have := hoo v hv; grind
    · intro v c hm
      have := hw v c (hsub _ hm)
      by_cases hvu : v = u
      · subst hvu; exact absurd hm (hnr c)
      · simpa [hvu] using this
    · intro v hv
      by_cases hvu : v = u
      · simp [hvu] at hv
      · simp [hvu] at hv
        have hm := hq v hv
        rw [hws] at hm
        simp only [List.mem_append, List.mem_cons, Prod.mk.injEq] at hm
        rcases hm with hm | hm | hm
        · have := hpre _ hm; simp at this
        · exact absurd hm.1 hvu
        · exact hm
    · rw [hws] at hnd
      simp only [List.map_append, List.map_cons] at hnd
      exact (List.nodup_cons.mp (List.nodup_append.mp hnd).2.1).2
  · rename_i hg
    have hall := grant_none hg
    constructor
    · simp
    · intro v hv; have := hho v hv; grind
    · intro v hv; simp at hv
    · intro v hv; have := hoo v hv; simp at hv; grind
    · intro v c hm; simp at hm
    · intro v hv
      have hm := hq v hv
      have := hall _ hm
      simp at this
    · simp

theorem inv_step {s s' : State} {e : Ev} {o : Out} (hi : Inv s) (hs : step s e = some (s', o)) :
    Inv s' := by
  obtain ⟨h1, h2, h3, h4, h5, h6, h7⟩ := hi
  cases e with
  | acquire t pre =>
    simp only [step] at hs
    split at hs; · contradiction
    rename_i hpc; simp only [ne_eq, Decidable.not_not] at hpc
    split at hs
    · rename_i hfree
      split at hs
      · cases hs
        constructor <;> simp_all [owning, upd_apply] <;> grind
      · split at hs
        · cases hs
          constructor <;> simp_all [owning, upd_apply] <;> grind
        · cases hs
          constructor <;> simp_all [owning, upd_apply] <;> grind
    · split at hs
      · cases hs; exact ⟨h1, h2, h3, h4, h5, h6, h7⟩
      · cases hs
        have hnq : t ∉ s.waiters.map Prod.fst := by
          intro hm
          obtain ⟨⟨u, c⟩, hm2, rfl⟩ := List.mem_map.mp hm
          have := h5 u c hm2; simp_all
        constructor <;> simp_all [owning, upd_apply, List.nodup_append] <;> grind
  | acquireNowait t =>
    simp only [step] at hs
    split at hs; · contradiction
    rename_i hpc; simp only [ne_eq, Decidable.not_not] at hpc
    split at hs
    · cases hs
      constructor <;> simp_all [owning, upd_apply] <;> grind
    · split at hs <;> (cases hs; exact ⟨h1, h2, h3, h4, h5, h6, h7⟩)
  | release t =>
    simp only [step] at hs
    split at hs; · contradiction
    rename_i hpc; simp only [ne_eq, Decidable.not_not] at hpc
    split at hs
    · cases hs; exact ⟨h1, h2, h3, h4, h5, h6, h7⟩
    · rename_i hown; simp only [ne_eq, Decidable.not_not] at hown
      cases hs
      apply inv_doRelease (t := t) <;> simp_all [owning, upd_apply] <;> grind
  | fc t =>
    simp only [step] at hs
    split at hs
    · rename_i hpc
      cases hs
      constructor
      · intro h; simp [markCancelled, h1 h]
      · intro u hu; have := h2 u hu; grind [upd_apply]
      · intro u hu; have := h3 u hu; have := h2 u; simp only [owning, upd_apply] at *; grind
      · intro u hu; have := h4 u; simp only [owning, upd_apply] at *; grind
      · intro u c hm
        rcases mem_markCancelled.mp hm with ⟨rfl, rfl, _⟩ | ⟨hne, hm⟩
        · simp
        · simpa [hne] using h5 u c hm
      · intro u hu
        by_cases hut : u = t
        · simp [hut] at hu
        · simp [hut] at hu
          exact mem_markCancelled.mpr (Or.inr ⟨hut, h6 u hu⟩)
      · simpa [map_fst_markCancelled] using h7
    · contradiction
  | mc t =>
    simp only [step] at hs
    split at hs
    all_goals first
      | contradiction
      | (cases hs; constructor <;> simp_all [owning, upd_apply] <;> grind)
  | step t =>
    simp only [step] at hs
    split at hs
    · contradiction
    · contradiction
    · cases hs; exact ⟨h1, h2, h3, h4, h5, h6, h7⟩
    · cases hs; constructor <;> simp_all [owning, upd_apply] <;> grind
    · cases hs; constructor <;> simp_all [owning, upd_apply] <;> grind
    · rename_i hpc; cases hs
      apply inv_doRelease (t := t) <;> simp_all [owning, upd_apply] <;> grind
    · rename_i hpc; cases hs
      constructor
      · intro h; simp [removeWaiter, h1 h]
      · intro u hu; have := h2 u hu; grind [upd_apply]
      · intro u hu; have := h3 u hu; have := h2 u; simp only [owning, upd_apply] at *; grind
      · intro u hu; have := h4 u; simp only [owning, upd_apply] at *; grind
      · intro u c hm
        obtain ⟨hm, hne⟩ := mem_removeWaiter.mp hm
        simp at hne
        simpa [hne] using h5 u c hm
      · intro u hu
        by_cases hut : u = t
        · simp [hut] at hu
        · simp [hut] at hu
          exact mem_removeWaiter.mpr ⟨h6 u hu, by simpa using hut⟩
      · simp only [removeWaiter]
        exact (List.Nodup.sublist (List.Sublist.map _ List.filter_sublist) h7)
    · cases hs; constructor <;> simp_all [owning, upd_apply] <;> grind
    · rename_i hpc; cases hs
      apply inv_doRelease (t := t) <;> simp_all [owning, upd_apply] <;> grind

end AnyioModel.Sync.Lock
