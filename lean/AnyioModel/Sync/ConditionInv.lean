/-
Condition model: the full invariant `Inv = InvA ∧ InvQ ∧ InvC` is preserved by every transition.
-/
import AnyioModel.Sync.ConditionNotify

namespace AnyioModel.Sync.Condition
open AnyioModel.Sync

/-- accounting of notifications: every event set by a notifier is consumed directly, consumed
after having been passed on, dropped on an empty queue, or still pending -/
def InvC (s : State) : Prop :=
  s.issued = s.consumedDirect + s.consumedPassed + s.dropped + s.notified.length

theorem upd_self {α : Type} (f : Nat → α) (k : Nat) : upd f k (f k) = f := by
  funext i; by_cases h : i = k <;> simp [upd, h]

theorem invQ_of_invQx_self {t : Nat} {s : State} (h : InvQx t s)
    (h1 : isQueued (s.cpc t) = false) (h2 : isSet (s.cpc t) = false)
    (h3 : s.cpc t = .reacq false → s.wasSet t = true) : InvQ s :=
  invQ_of_invQx (c := s.cpc t) h rfl rfl rfl (upd_self _ _).symm h1 h2 h3

/-- `t` moves between program counters of the same kind -/
theorem invQ_relabel {t : Nat} {s s' : State} {c : CPc} (hq : InvQ s)
    (hw : s'.waiters = s.waiters) (hn : s'.notified = s.notified) (hs : s'.wasSet = s.wasSet)
    (hc : s'.cpc = upd s.cpc t c) (h1 : isQueued c = isQueued (s.cpc t))
    (h2 : isSet c = isSet (s.cpc t)) (h3 : c ≠ .reacq false) : InvQ s' := by
  obtain ⟨a, b, d, e, f, g⟩ := hq
  constructor
  · intro u; rw [hw, hc]
    by_cases hut : u = t
    · subst hut; simp [h1, a u]
    · simp [hut, a u]
  · rw [hw]; exact b
  · intro u; rw [hn, hc]
    by_cases hut : u = t
    · subst hut; simp [h2, d u]
    · simp [hut, d u]
  · rw [hn]; exact e
  · intro u; rw [hs, hc]
    by_cases hut : u = t
    · subst hut; simp [h2, h3]; intro h; exact f u (Or.inl h)
    · simp [hut]; exact f u
  · intro u; rw [hs, hc]
    by_cases hut : u = t
    · subst hut; simp [h1]; exact g u
    · simp [hut]; exact g u

theorem invQx_eraseN {t : Nat} {s s1 : State} (hq : InvQ s) (ht : isSet (s.cpc t) = true)
    (h1 : s1.waiters = s.waiters) (h2 : s1.notified = s.notified.erase t) (h3 : s1.cpc = s.cpc)
    (h4 : s1.wasSet = s.wasSet) : InvQx t s1 := by
  obtain ⟨a, b, d, e, f, g⟩ := hq
  have htq : isQueued (s.cpc t) = false := by
    cases hcu : s.cpc t <;> simp [hcu, isQueued, isSet] at ht ⊢
  constructor
  · intro u _; rw [h1, h3]; exact a u
  · rw [h1]; intro hm; have := (a t).mp hm; simp [htq] at this
  · rw [h1]; exact b
  · intro u hut; rw [h2, h3, List.Nodup.mem_erase_iff e]; simp [hut, d u]
  · rw [h2, List.Nodup.mem_erase_iff e]; simp
  · rw [h2]; exact List.Nodup.erase _ e
  · intro u _; rw [h3, h4]; exact f u
  · intro u _; rw [h3, h4]; exact g u

theorem invQx_eraseQ {t : Nat} {s s1 : State} (hq : InvQ s) (ht : isQueued (s.cpc t) = true)
    (h1 : s1.waiters = s.waiters.erase t) (h2 : s1.notified = s.notified) (h3 : s1.cpc = s.cpc)
    (h4 : s1.wasSet = s.wasSet) : InvQx t s1 := by
  obtain ⟨a, b, d, e, f, g⟩ := hq
  have hts : isSet (s.cpc t) = false := by
    cases hcu : s.cpc t <;> simp [hcu, isQueued, isSet] at ht ⊢
  constructor
  · intro u hut; rw [h1, h3, List.Nodup.mem_erase_iff b]; simp [hut, a u]
  · rw [h1, List.Nodup.mem_erase_iff b]; simp
  · rw [h1]; exact List.Nodup.erase _ b
  · intro u _; rw [h2, h3]; exact d u
  · rw [h2]; intro hm; have := (d t).mp hm; simp [hts] at this
  · rw [h2]; exact e
  · intro u _; rw [h3, h4]; exact f u
  · intro u _; rw [h3, h4]; exact g u

theorem invQC_lockResult {s s' : State} {t : Nat} {during : CPc} {onRet o : Out}
    {r : Option (Lock.State × Out)} (hq : InvQx t s) (hc : InvC s)
    (hd1 : isQueued during = false) (hd2 : isSet during = false)
    (hd3 : during = .reacq false → s.wasSet t = true)
    (h : lockResult s t during onRet r = some (s', o)) : InvQ s' ∧ InvC s' := by
  obtain ⟨l, lo, _, _, ⟨q1, q2, q3, q4, q5, q6, q7⟩, hcase⟩ := lockResult_cases h
  constructor
  · rcases hcase with ⟨_, _, hcp, _⟩ | ⟨_, _, hcp, _⟩ | ⟨_, _, _, hcp, _⟩
    · exact invQ_of_invQx hq q1 q3 q2 hcp rfl rfl (by simp)
    · exact invQ_of_invQx hq q1 q3 q2 hcp hd1 hd2 hd3
    · exact invQ_of_invQx hq q1 q3 q2 hcp rfl rfl (by simp)
  · unfold InvC at *; rw [q3, q4, q5, q6, q7]; exact hc

theorem invQC_step {s s' : State} {e : Ev} {o : Out} (ha : InvA s) (hq : InvQ s) (hc : InvC s)
    (hs : step s e = some (s', o)) : InvQ s' ∧ InvC s' := by
  cases e with
  | acquire t pre =>
    simp only [step] at hs
    split at hs; · contradiction
    rename_i hcp; simp only [ne_eq, Decidable.not_not] at hcp
    exact invQC_lockResult (invQx_of_invQ hq (by simp [hcp, isQueued]) (by simp [hcp, isSet])) hc
      rfl rfl (by simp) hs
  | acquireNowait t =>
    simp only [step] at hs
    split at hs; · contradiction
    rename_i hcp; simp only [ne_eq, Decidable.not_not] at hcp
    exact invQC_lockResult (invQx_of_invQ hq (by simp [hcp, isQueued]) (by simp [hcp, isSet])) hc
      rfl rfl (by simp) hs
  | release t =>
    simp only [step] at hs
    split at hs; · contradiction
    split at hs
    · contradiction
    · cases hs; exact ⟨invQ_congr hq ⟨rfl, rfl, rfl, rfl⟩, hc⟩
    · cases hs; exact ⟨invQ_congr hq ⟨rfl, rfl, rfl, rfl⟩, hc⟩
  | wait t pre =>
    simp only [step] at hs
    split at hs; · contradiction
    rename_i hcp; simp only [ne_eq, Decidable.not_not] at hcp
    split at hs
    · cases hs
      exact ⟨invQ_relabel (t := t) (c := .waitPre) hq rfl rfl rfl rfl (by simp [hcp, isQueued])
        (by simp [hcp, isSet]) (by simp), hc⟩
    · unfold waitBody at hs
      split at hs
      · cases hs; exact ⟨hq, hc⟩
      · rename_i hown; simp only [ne_eq, Decidable.not_not] at hown
        simp only at hs
        split at hs
        · contradiction
        · cases hs
          refine ⟨?_, hc⟩
          obtain ⟨a, b, d, e, f, g⟩ := hq
          have htq : t ∉ s.waiters := by intro hm; have := (a t).mp hm; simp [hcp, isQueued] at this
          constructor
          · intro u
            by_cases hut : u = t
            · subst hut; simp [isQueued]
            · simp [hut, a u]
          · exact List.nodup_append.mpr ⟨b, by simp, by intro x hx y hy; simp at hy; grind⟩
          · intro u
            by_cases hut : u = t
            · subst hut; simp [isSet]; intro hm; have := (d u).mp hm; simp [hcp, isSet] at this
            · simp [hut, d u]
          · exact e
          · intro u
            by_cases hut : u = t
            · subst hut; simp [isSet]
            · simp [hut]; exact f u
          · intro u
            by_cases hut : u = t
            · subst hut; simp
            · simp [hut]; exact g u
        · rename_i l lo hne hr
          exfalso
          have hh : s.lock.holds t = true := (ha.owner_holds t).mp hown
          have hown2 := (ha.lockInv.holds_owner t hh).1
          obtain ⟨_, hcase⟩ := Lock.frame_release ha.lockInv hr
          rcases hcase with ⟨h1, _⟩ | ⟨_, h2, _⟩
          · exact hne h1
          · exact h2 hown2
  | notify t n =>
    simp only [step] at hs
    split at hs; · contradiction
    rename_i hcp; simp only [ne_eq, Decidable.not_not] at hcp
    split at hs
    · cases hs; exact ⟨hq, hc⟩
    · cases hs
      have hx := invQx_of_invQ (t := t) hq (by simp [hcp, isQueued]) (by simp [hcp, isSet])
      obtain ⟨hx', sp⟩ := notifyLoop_spec t n s hx
      have htk : t ∉ s.waiters.take n := fun hm => hx.t_notq (List.mem_of_mem_take hm)
      have hct := (sp.others t htk).1
      refine ⟨invQ_of_invQx_self hx' (by simp [hct, hcp, isQueued]) (by simp [hct, hcp, isSet])
        (by simp [hct, hcp]), ?_⟩
      unfold InvC at *
      rw [sp.issued, sp.pending, sp.cd, sp.cp, sp.dr]; omega
  | notifyAll t =>
    simp only [step] at hs
    split at hs; · contradiction
    rename_i hcp; simp only [ne_eq, Decidable.not_not] at hcp
    split at hs
    · cases hs; exact ⟨hq, hc⟩
    · cases hs
      have hx := invQx_of_invQ (t := t) hq (by simp [hcp, isQueued]) (by simp [hcp, isSet])
      obtain ⟨hx', sp⟩ := notifyLoop_spec t s.waiters.length s hx
      have htk : t ∉ s.waiters.take s.waiters.length :=
        fun hm => hx.t_notq (List.mem_of_mem_take hm)
      have hct := (sp.others t htk).1
      refine ⟨invQ_of_invQx_self hx' (by simp [hct, hcp, isQueued]) (by simp [hct, hcp, isSet])
        (by simp [hct, hcp]), ?_⟩
      unfold InvC at *
      rw [sp.issued, sp.pending, sp.cd, sp.cp, sp.dr]; omega
  | fc t =>
    simp only [step] at hs
    split at hs
    · rename_i hcp
      cases hs
      exact ⟨invQ_relabel (t := t) (c := .evFC) hq rfl rfl rfl rfl (by simp [hcp, isQueued])
        (by simp [hcp, isSet]) (by simp), hc⟩
    all_goals first
      | contradiction
      | (split at hs
         · cases hs; exact ⟨invQ_congr hq ⟨rfl, rfl, rfl, rfl⟩, hc⟩
         · contradiction)
  | mc t =>
    simp only [step] at hs
    split at hs
    · rename_i hcp
      cases hs
      exact ⟨invQ_relabel (t := t) (c := .waitPreMC) hq rfl rfl rfl rfl (by simp [hcp, isQueued])
        (by simp [hcp, isSet]) (by simp), hc⟩
    · rename_i p hcp
      cases hs
      exact ⟨invQ_relabel (t := t) (c := .evSetMC p) hq rfl rfl rfl rfl (by simp [hcp, isQueued])
        (by simp [hcp, isSet]) (by simp), hc⟩
    all_goals first
      | contradiction
      | (split at hs
         · cases hs; exact ⟨invQ_congr hq ⟨rfl, rfl, rfl, rfl⟩, hc⟩
         · contradiction)
  | step t =>
    simp only [step] at hs
    split at hs
    · contradiction
    · contradiction
    · cases hs; exact ⟨hq, hc⟩
    · rename_i hcp
      cases hs
      exact ⟨invQ_relabel (t := t) (c := .none) hq rfl rfl rfl rfl (by simp [hcp, isQueued])
        (by simp [hcp, isSet]) (by simp), hc⟩
    · rename_i hcp
      exact invQC_lockResult (invQx_of_invQ hq (by simp [hcp, isQueued]) (by simp [hcp, isSet])) hc
        rfl rfl (by simp) hs
    · rename_i exc hcp
      refine invQC_lockResult (invQx_of_invQ hq (by simp [hcp, isQueued]) (by simp [hcp, isSet])) hc
        rfl rfl ?_ hs
      intro h; cases h; exact hq.set_wasSet t (Or.inr hcp)
    · rename_i p hcp
      have hts : isSet (s.cpc t) = true := by simp [hcp, isSet]
      have htn : t ∈ s.notified := (hq.notified_iff t).mpr hts
      unfold reacquire at hs
      refine invQC_lockResult ?_ ?_ rfl rfl ?_ hs
      · exact invQx_eraseN hq hts rfl rfl rfl rfl
      · unfold InvC at *
        simp only [List.length_erase_of_mem htn]
        have : 0 < s.notified.length := List.length_pos_of_mem htn
        cases p <;> simp <;> omega
      · intro _; exact hq.set_wasSet t (Or.inl hts)
    · rename_i hcp
      unfold reacquire at hs
      refine invQC_lockResult ?_ ?_ rfl rfl (by simp) hs
      · exact invQx_eraseQ hq (by simp [hcp, isQueued]) rfl rfl rfl rfl
      · exact hc
    all_goals
      rename_i p hcp
      have hts : isSet (s.cpc t) = true := by simp [hcp, isSet]
      have htn : t ∈ s.notified := (hq.notified_iff t).mpr hts
      have hx0 : InvQx t { s with notified := s.notified.erase t } :=
        invQx_eraseN hq hts rfl rfl rfl rfl
      unfold reacquire at hs
      refine invQC_lockResult ?_ ?_ rfl rfl (by simp) hs
      · exact invQx_passOn hx0
      have hpos : 0 < s.notified.length := List.length_pos_of_mem htn
      unfold InvC at *
      by_cases hnil : s.waiters = []
      · rw [passOn_nil (by simp [hnil])]
        simp only [List.length_erase_of_mem htn]; omega
      · obtain ⟨u, rest, hw⟩ := List.exists_cons_of_ne_nil hnil
        obtain ⟨c', _, heq⟩ := passOn_cons hx0 (u := u) (rest := rest) (by simp [hw])
        rw [heq]
        simp only [List.length_cons, List.length_erase_of_mem htn]; omega

structure Inv (s : State) : Prop where
  a : InvA s
  q : InvQ s
  c : InvC s

theorem inv_init (f : Bool) : Inv (init f) :=
  ⟨invA_init f, invQ_init f, by simp [InvC, init]⟩

theorem inv_step {s s' : State} {e : Ev} {o : Out} (hi : Inv s) (hs : step s e = some (s', o)) :
    Inv s' :=
  let h := invQC_step hi.a hi.q hi.c hs
  ⟨invA_step hi.a hs, h.1, h.2⟩

theorem inv_reach {s : State} (h : Reach s) : Inv s := by
  refine Reachable.invariant Inv ?_ ?_ s h
  · rintro s ⟨f, rfl⟩; exact inv_init f
  · intro s e s' o hi hs; exact inv_step hi hs

end AnyioModel.Sync.Condition
