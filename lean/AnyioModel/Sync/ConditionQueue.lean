/-
Condition model: the invariant about the waiter queue and the notification ghosts (`InvQ`),
via a version `InvQx t` in which the acting task `t` is "in limbo" (already taken out of the
queue / the notified list, program counter not yet updated).
-/
import AnyioModel.Sync.ConditionProofs

namespace AnyioModel.Sync.Condition
open AnyioModel.Sync

/-- suspended on an event that is still queued (unset) -/
def isQueued : CPc → Bool
  | .evWait | .evFC => true
  | _ => false

/-- suspended on an event that has been set; wake-up not yet run -/
def isSet : CPc → Bool
  | .evSet _ | .evSetMC _ | .evFCSet _ => true
  | _ => false

structure InvQ (s : State) : Prop where
  queue_iff : ∀ u, u ∈ s.waiters ↔ isQueued (s.cpc u) = true
  q_nodup : s.waiters.Nodup
  notified_iff : ∀ u, u ∈ s.notified ↔ isSet (s.cpc u) = true
  n_nodup : s.notified.Nodup
  set_wasSet : ∀ u, (isSet (s.cpc u) = true ∨ s.cpc u = .reacq false) → s.wasSet u = true
  queued_unset : ∀ u, isQueued (s.cpc u) = true → s.wasSet u = false

structure InvQx (t : Nat) (s : State) : Prop where
  queue_iff : ∀ u, u ≠ t → (u ∈ s.waiters ↔ isQueued (s.cpc u) = true)
  t_notq : t ∉ s.waiters
  q_nodup : s.waiters.Nodup
  notified_iff : ∀ u, u ≠ t → (u ∈ s.notified ↔ isSet (s.cpc u) = true)
  t_notn : t ∉ s.notified
  n_nodup : s.notified.Nodup
  set_wasSet : ∀ u, u ≠ t → (isSet (s.cpc u) = true ∨ s.cpc u = .reacq false) → s.wasSet u = true
  queued_unset : ∀ u, u ≠ t → isQueued (s.cpc u) = true → s.wasSet u = false

theorem invQ_init (f : Bool) : InvQ (init f) := by
  constructor <;> simp [init, isQueued, isSet]

/-- `InvQ`/`InvQx` only read these four fields -/
def SameV (s s' : State) : Prop :=
  s'.waiters = s.waiters ∧ s'.cpc = s.cpc ∧ s'.wasSet = s.wasSet ∧ s'.notified = s.notified

theorem invQ_congr {s s' : State} (h : InvQ s) (hv : SameV s s') : InvQ s' := by
  obtain ⟨h1, h2, h3, h4⟩ := hv
  obtain ⟨a, b, c, d, e, f⟩ := h
  constructor <;> simp only [h1, h2, h3, h4] <;> assumption

theorem invQx_congr {t : Nat} {s s' : State} (h : InvQx t s) (hv : SameV s s') : InvQx t s' := by
  obtain ⟨h1, h2, h3, h4⟩ := hv
  obtain ⟨a, b, c, d, e, f, g, i⟩ := h
  constructor <;> simp only [h1, h2, h3, h4] <;> assumption

theorem invQx_of_invQ {t : Nat} {s : State} (h : InvQ s) (h1 : isQueued (s.cpc t) = false)
    (h2 : isSet (s.cpc t) = false) : InvQx t s := by
  obtain ⟨a, b, c, d, e, f⟩ := h
  refine ⟨fun u _ => a u, ?_, b, fun u _ => c u, ?_, d, fun u _ => e u, fun u _ => f u⟩
  · intro hm; have := (a t).mp hm; simp [h1] at this
  · intro hm; have := (c t).mp hm; simp [h2] at this

/-- leave limbo: `t` gets a program counter that is neither queued nor set -/
theorem invQ_of_invQx {t : Nat} {s s' : State} {c : CPc} (h : InvQx t s)
    (hw : s'.waiters = s.waiters) (hn : s'.notified = s.notified) (hs : s'.wasSet = s.wasSet)
    (hc : s'.cpc = upd s.cpc t c) (h1 : isQueued c = false) (h2 : isSet c = false)
    (h3 : c = .reacq false → s.wasSet t = true) : InvQ s' := by
  obtain ⟨a, a', b, d, d', e, f, g⟩ := h
  constructor
  · intro u; rw [hw, hc]
    by_cases hut : u = t
    · subst hut; simp [h1, a']
    · simp [hut, a u hut]
  · rw [hw]; exact b
  · intro u; rw [hn, hc]
    by_cases hut : u = t
    · subst hut; simp [h2, d']
    · simp [hut, d u hut]
  · rw [hn]; exact e
  · intro u; rw [hs, hc]
    by_cases hut : u = t
    · subst hut; simp [h2]; exact h3
    · simp [hut]; exact f u hut
  · intro u; rw [hs, hc]
    by_cases hut : u = t
    · subst hut; simp [h1]
    · simp [hut]; exact g u hut

/-- pop the head of the queue and set its event, `t` being in limbo -/
theorem invQx_popSet {t u : Nat} {rest : List Nat} {s s0 : State} {p : Bool} (h : InvQx t s)
    (hw : s.waiters = u :: rest) (h0w : s0.waiters = rest) (h0c : s0.cpc = s.cpc)
    (h0s : s0.wasSet = s.wasSet) (h0n : s0.notified = s.notified) :
    InvQx t (setEvent p u s0) := by
  obtain ⟨a, a', b, d, d', e, f, g⟩ := h
  have hut : u ≠ t := by intro h; subst h; exact a' (by simp [hw])
  have huq : isQueued (s.cpc u) = true := (a u hut).mp (by simp [hw])
  have hur : u ∉ rest := by rw [hw] at b; exact (List.nodup_cons.mp b).1
  have hrn : rest.Nodup := by rw [hw] at b; exact (List.nodup_cons.mp b).2
  have hun : u ∉ s.notified := by
    intro hm; have := (d u hut).mp hm
    cases hcu : s.cpc u <;> simp [hcu, isQueued, isSet] at huq this
  have hmem : ∀ v, v ∈ rest ↔ (v ≠ u ∧ v ∈ s.waiters) := by
    intro v; rw [hw]; simp; grind
  have key : ∀ c', (c' = .evSet p ∨ c' = .evFCSet p) →
      InvQx t { s0 with cpc := upd s0.cpc u c', wasSet := upd s0.wasSet u true,
                        notified := u :: s0.notified } := by
    intro c' hc'
    have hq' : isQueued c' = false := by rcases hc' with h | h <;> simp [h, isQueued]
    have hs' : isSet c' = true := by rcases hc' with h | h <;> simp [h, isSet]
    have hne : c' ≠ .reacq false := by rcases hc' with h | h <;> simp [h]
    constructor
    · intro v hvt
      simp only [h0w, h0c]
      by_cases hvu : v = u
      · subst hvu; simp [hq', hur]
      · simp [hvu, hmem v, a v hvt]
    · simp only [h0w]; intro hm; exact a' (by rw [hw]; simp [hm])
    · simp only [h0w]; exact hrn
    · intro v hvt
      simp only [h0n, h0c]
      by_cases hvu : v = u
      · subst hvu; simp [hs']
      · simp [hvu, d v hvt]
    · simp only [h0n]; simp [d', Ne.symm hut]
    · simp only [h0n]; exact List.nodup_cons.mpr ⟨hun, e⟩
    · intro v hvt
      simp only [h0s, h0c]
      by_cases hvu : v = u
      · subst hvu; simp
      · simp [hvu]; exact f v hvt
    · intro v hvt
      simp only [h0s, h0c]
      by_cases hvu : v = u
      · subst hvu; simp [hq']
      · simp [hvu]; exact g v hvt
  have huq0 : isQueued (s0.cpc u) = true := by rw [h0c]; exact huq
  unfold setEvent
  split
  · exact key _ (Or.inl rfl)
  · exact key _ (Or.inr rfl)
  · rename_i h1 h2
    cases hcu : s0.cpc u <;> simp [hcu, isQueued] at huq0 h1 h2

theorem invQx_passOn {t : Nat} {s : State} (h : InvQx t s) : InvQx t (passOn s) := by
  unfold passOn
  split
  · exact invQx_congr h ⟨rfl, rfl, rfl, rfl⟩
  · rename_i u rest hw
    exact invQx_popSet h hw rfl rfl rfl rfl

end AnyioModel.Sync.Condition
