import AnyioModel.Sync.Event

namespace AnyioModel.Sync.Event

/-- the task's future sits in `_waiters` -/
def queuedPc (p : Pc) : Prop :=
  p = .waiting ∨ p = .waitFC ∨ p = .woken ∨ p = .wokenMC

/-- the task is past a point that requires the flag to be set -/
def releasedPc (p : Pc) : Prop :=
  p = .yielding ∨ p = .yieldingMC ∨ p = .woken ∨ p = .wokenMC

structure Inv (s : State) : Prop where
  released_flag : ∀ t, releasedPc (s.pc t) → s.flag = true
  flag_no_pending : s.flag = true → ∀ t, s.pc t ≠ .waiting
  queued_iff : ∀ t, t ∈ s.waiters ↔ queuedPc (s.pc t)
  nodup : s.waiters.Nodup

theorem inv_init : Inv init := by
  constructor <;> simp [init, queuedPc, releasedPc]

theorem inv_step {s s' : State} {e : Ev} {o : Out} (hi : Inv s) (hs : step s e = some (s', o)) :
    Inv s' := by
  obtain ⟨h1, h2, h3, h4⟩ := hi
  cases e with
  | wait t pre =>
    simp only [step] at hs
    split at hs; · contradiction
    rename_i hpc; simp only [ne_eq, Decidable.not_not] at hpc
    have hnq : t ∉ s.waiters := by
      intro hm; have := (h3 t).mp hm; simp [queuedPc, hpc] at this
    split at hs
    · rename_i hf
      cases hs
      constructor
      · intro u _; exact hf
      · intro _ u; have := h2 hf u; grind [upd_apply]
      · intro u; have := h3 u; simp only [queuedPc, upd_apply] at *; grind
      · exact h4
    · rename_i hf
      cases hs
      constructor
      · intro u hu; have := h1 u; simp only [releasedPc, upd_apply] at *; grind
      · intro hf'; simp_all
      · intro u; have := h3 u
        simp only [queuedPc, upd_apply, List.mem_append, List.mem_singleton] at *; grind
      · exact List.nodup_append.mpr ⟨h4, by simp, by intro a ha b hb; simp at hb; grind⟩
  | set =>
    simp only [step] at hs
    split at hs
    · cases hs; exact ⟨h1, h2, h3, h4⟩
    · cases hs
      constructor
      · intro _ _; rfl
      · intro _ u
        have := h3 u
        simp only [queuedPc] at this
        show (if u ∈ s.waiters ∧ s.pc u = .waiting then Pc.woken else s.pc u) ≠ .waiting
        split <;> grind
      · intro u; have := h3 u
        simp only [queuedPc] at *
        show u ∈ s.waiters ↔ _
        split <;> grind
      · exact h4
  | fc t =>
    simp only [step] at hs
    split at hs
    · rename_i hpc
      cases hs
      constructor
      · intro u hu; have := h1 u; simp only [releasedPc, upd_apply] at *; grind
      · intro hf u; have := h2 hf u; have := h2 hf t; grind [upd_apply]
      · intro u; have := h3 u; simp only [queuedPc, upd_apply] at *; grind
      · exact h4
    · contradiction
  | mc t =>
    simp only [step] at hs
    split at hs
    · rename_i hpc
      cases hs
      constructor
      · intro u hu; have := h1 u; have := h1 t; simp only [releasedPc, upd_apply] at *; grind
      · intro hf u; have := h2 hf u; grind [upd_apply]
      · intro u; have := h3 u; simp only [queuedPc, upd_apply] at *; grind
      · exact h4
    · rename_i hpc
      cases hs
      constructor
      · intro u hu; have := h1 u; have := h1 t; simp only [releasedPc, upd_apply] at *; grind
      · intro hf u; have := h2 hf u; grind [upd_apply]
      · intro u; have := h3 u; simp only [queuedPc, upd_apply] at *; grind
      · exact h4
    · contradiction
  | step t =>
    have herase : ∀ u, u ∈ s.waiters.erase t ↔ (u ≠ t ∧ u ∈ s.waiters) := by
      intro u; exact List.Nodup.mem_erase_iff h4
    simp only [step] at hs
    split at hs
    · contradiction
    · contradiction
    all_goals
      rename_i hpc
      cases hs
      constructor
      · intro u hu; have := h1 u; simp only [releasedPc, upd_apply] at *; grind
      · intro hf u; have := h2 hf u; grind [upd_apply]
      · intro u; have := h3 u; have := h3 t; have := herase u
        simp only [queuedPc, upd_apply] at *; grind
      · first | exact h4 | exact List.Nodup.erase _ h4

end AnyioModel.Sync.Event
