/-
Frame lemmas about the Lock model (C09), used by the Condition model which embeds it: what one
`Lock.step` does to the ghost `holds`, to the idleness of every task's program counter and to the
acting task, as a function of the observable outcome.  Nothing of C09 is changed here.
-/
import AnyioModel.Sync.LockProofs

namespace AnyioModel.Sync.Lock

/-- tasks other than the acting one keep their `holds` bit and stay (non-)idle -/
structure Others (l l' : State) (t : Nat) : Prop where
  holds_other : ∀ u, u ≠ t → l'.holds u = l.holds u
  idle_other : ∀ u, u ≠ t → (l'.pc u = .idle ↔ l.pc u = .idle)

theorem doRelease_frame (s0 : State) (hw : ∀ u c, (u, c) ∈ s0.waiters → s0.pc u ≠ .idle) :
    (doRelease s0).holds = s0.holds ∧ ∀ u, ((doRelease s0).pc u = .idle ↔ s0.pc u = .idle) := by
  unfold doRelease
  split
  · rename_i u rest hg
    obtain ⟨pre, hws, _⟩ := grant_some hg
    have hu : s0.pc u ≠ .idle := hw u false (by simp [hws])
    refine ⟨rfl, ?_⟩
    intro v
    by_cases hvu : v = u
    · subst hvu; simp [hu]
    · simp [hvu]
  · exact ⟨rfl, fun _ => Iff.rfl⟩

theorem frame_acquire {l l' : State} {t : Nat} {pre : Bool} {o : Out}
    (hs : step l (.acquire t pre) = some (l', o)) :
    l.pc t = .idle ∧ Others l l' t ∧
    ((o = .ret ∧ l'.holds t = true ∧ l'.pc t = .idle) ∨
     (o = .susp ∧ l'.holds t = l.holds t ∧ l'.pc t ≠ .idle) ∨
     (o = .runtimeError ∧ l' = l)) := by
  simp only [step] at hs
  split at hs; · contradiction
  rename_i hpc; simp only [ne_eq, Decidable.not_not] at hpc
  refine ⟨hpc, ?_⟩
  split at hs
  · split at hs
    · cases hs; exact ⟨⟨by simp, by intro u hu; simp [hu]⟩, by simp⟩
    · split at hs
      · cases hs; exact ⟨⟨by intro u hu; simp [hu], by simp⟩, by simp [hpc]⟩
      · cases hs; exact ⟨⟨by simp, by intro u hu; simp [hu]⟩, by simp⟩
  · split at hs
    · cases hs; exact ⟨⟨by simp, by simp⟩, by simp⟩
    · cases hs; exact ⟨⟨by simp, by intro u hu; simp [hu]⟩, by simp⟩

theorem frame_acquireNowait {l l' : State} {t : Nat} {o : Out}
    (hs : step l (.acquireNowait t) = some (l', o)) :
    l.pc t = .idle ∧ Others l l' t ∧
    ((o = .ret ∧ l'.holds t = true ∧ l'.pc t = .idle) ∨
     ((o = .runtimeError ∨ o = .wouldBlock) ∧ l' = l)) := by
  simp only [step] at hs
  split at hs; · contradiction
  rename_i hpc; simp only [ne_eq, Decidable.not_not] at hpc
  refine ⟨hpc, ?_⟩
  split at hs
  · cases hs; exact ⟨⟨by intro u hu; simp [hu], by simp⟩, by simp [hpc]⟩
  · split at hs <;> (cases hs; exact ⟨⟨by simp, by simp⟩, by simp⟩)

theorem frame_release {l l' : State} {t : Nat} {o : Out} (hi : Inv l)
    (hs : step l (.release t) = some (l', o)) :
    l.pc t = .idle ∧
    ((o = .ret ∧ l.owner = some t ∧ l'.holds t = false ∧ l'.pc t = .idle ∧ Others l l' t) ∨
     (o = .runtimeError ∧ l.owner ≠ some t ∧ l' = l)) := by
  simp only [step] at hs
  split at hs; · contradiction
  rename_i hpc; simp only [ne_eq, Decidable.not_not] at hpc
  refine ⟨hpc, ?_⟩
  split at hs
  · rename_i hown; cases hs; right; exact ⟨rfl, hown, rfl⟩
  · rename_i hown; simp only [ne_eq, Decidable.not_not] at hown
    cases hs
    left
    have hfr := doRelease_frame { l with holds := upd l.holds t false } (by
      intro u c hm
      have := hi.waiter_pc u c hm
      show l.pc u ≠ .idle
      grind)
    obtain ⟨hh, hp⟩ := hfr
    refine ⟨rfl, hown, ?_, ?_, ⟨?_, ?_⟩⟩
    · rw [hh]; simp
    · exact (hp t).mpr hpc
    · intro u hu; rw [hh]; simp [hu]
    · intro u _; exact hp u

theorem frame_step {l l' : State} {t : Nat} {o : Out} (hi : Inv l)
    (hs : step l (.step t) = some (l', o)) :
    l.pc t ≠ .idle ∧ Others l l' t ∧
    ((o = .ret ∧ l'.holds t = true ∧ l'.pc t = .idle) ∨
     (o = .cancelled ∧ l'.holds t = l.holds t ∧ l'.pc t = .idle) ∨
     (o = .susp ∧ l' = l)) := by
  have hrel : ∀ (hne : l.pc t ≠ .waiting ∧ l.pc t ≠ .waitFC),
      let s0 : State := { l with pc := upd l.pc t .idle }
      (doRelease s0).holds t = l.holds t ∧ (doRelease s0).pc t = .idle ∧
        Others l (doRelease s0) t := by
    intro hne s0
    have hfr := doRelease_frame s0 (by
      intro u c hm
      have := hi.waiter_pc u c hm
      have hut : u ≠ t := by grind
      show upd l.pc t .idle u ≠ .idle
      simp [hut]; grind)
    obtain ⟨hh, hp⟩ := hfr
    refine ⟨by rw [hh], (hp t).mpr (by simp [s0]), ⟨by intro u _; rw [hh], ?_⟩⟩
    intro u hu
    rw [hp u]; simp [s0, hu]
  simp only [step] at hs
  split at hs
  · contradiction
  · contradiction
  · rename_i hpc; cases hs
    exact ⟨by simp [hpc], ⟨by simp, by simp⟩, by simp⟩
  · rename_i hpc; cases hs
    exact ⟨by simp [hpc], ⟨by simp, by intro u hu; simp [hu]⟩, by simp⟩
  · rename_i hpc; cases hs
    exact ⟨by simp [hpc], ⟨by intro u hu; simp [hu], by intro u hu; simp [hu]⟩, by simp⟩
  · rename_i hpc; cases hs
    obtain ⟨h1, h2, h3⟩ := hrel (by simp [hpc])
    exact ⟨by simp [hpc], h3, by simp [h1, h2]⟩
  · rename_i hpc; cases hs
    refine ⟨by simp [hpc], ⟨by simp, by intro u hu; simp [hu]⟩, by simp⟩
  · rename_i hpc; cases hs
    exact ⟨by simp [hpc], ⟨by intro u hu; simp [hu], by intro u hu; simp [hu]⟩, by simp⟩
  · rename_i hpc; cases hs
    obtain ⟨h1, h2, h3⟩ := hrel (by simp [hpc])
    exact ⟨by simp [hpc], h3, by simp [h1, h2]⟩

theorem frame_fc {l l' : State} {t : Nat} {o : Out} (hs : step l (.fc t) = some (l', o)) :
    l'.holds = l.holds ∧ l.pc t ≠ .idle ∧ l'.pc t ≠ .idle ∧ (∀ u, u ≠ t → l'.pc u = l.pc u) ∧
      l'.owner = l.owner := by
  simp only [step] at hs
  split at hs
  · rename_i hpc; cases hs
    exact ⟨rfl, by simp [hpc], by simp, by intro u hu; simp [hu], rfl⟩
  · contradiction

theorem frame_mc {l l' : State} {t : Nat} {o : Out} (hs : step l (.mc t) = some (l', o)) :
    l'.holds = l.holds ∧ l.pc t ≠ .idle ∧ l'.pc t ≠ .idle ∧ (∀ u, u ≠ t → l'.pc u = l.pc u) ∧
      l'.owner = l.owner := by
  simp only [step] at hs
  split at hs
  all_goals first
    | contradiction
    | (rename_i hpc; cases hs
       exact ⟨rfl, by simp [hpc], by simp, by intro u hu; simp [hu], rfl⟩)

end AnyioModel.Sync.Lock
