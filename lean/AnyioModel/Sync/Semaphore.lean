/-
Model of `anyio._backends._asyncio.Semaphore` (src/anyio/_backends/_asyncio.py, class
Semaphore), cut at its awaits into atomic segments.

Shared state mirrors the object's fields: `_value`, `_max_value`, `_fast_acquire`, `_waiters`
(deque of futures; a future is represented by the task waiting on it and a flag "cancelled").
A future resolved by `release()` is no longer in the deque; the woken task's program counter
records it (`granted`).

Events (same vocabulary as the Lock model):
* `acquire t pre` / `acquireNowait t` / `release t`: task `t`, currently running and not
  inside another Semaphore operation, calls the method.  `pre` = the caller's scope is already
  effectively cancelled, so `checkpoint_if_cancelled()` (reached only on the uncontended path)
  spins until the cancellation lands instead of falling through.
* `step t`: the event loop resumes `t` (one segment runs, up to the next suspension).
* `fc t`: `t`'s pending waiter future is cancelled.
* `mc t`: `Task._must_cancel` is set on `t` while it has no pending future to cancel (bare
  `sleep(0)`, or future already resolved by `release()`).

Ghost state (not in the code, used by the theorems only):
* `init0`   the initial value,
* `holders` multiset of tasks between a normal return of `acquire`/`acquire_nowait` and their
            `release` (a task may hold several permits),
* `infl`    tasks that have taken a permit (value decremented or future resolved) but whose
            `acquire` has not returned yet,
* `extra`   accepted `release()` calls by tasks that held no permit ("extra releases"),
* `lost`    permits given back by a cancelled `acquire` whose internal `release()` was refused
            because the value already was `max_value` (possible only after extra releases).
-/
import AnyioModel.Util.LTS

namespace AnyioModel.Sync.Semaphore

inductive Pc where
  | idle        -- not inside a Semaphore operation
  | preSpin     -- uncontended acquire entered in a cancelled scope: in checkpoint_if_cancelled's sleep(0)
  | preSpinMC   -- same, cancellation has landed (`_must_cancel`)
  | fastYield   -- decremented the value on the uncontended path, inside cancel_shielded_checkpoint
  | fastYieldMC -- same, with a native cancellation pending
  | waiting     -- queued in `_waiters`, future pending
  | waitFC      -- future cancelled; wake-up (which raises) not yet run
  | granted     -- future resolved by `release()`: has the permit, wake-up not yet run
  | grantedMC   -- same, with a native cancellation pending
  deriving DecidableEq, Repr, Inhabited

inductive Out where
  | susp          -- the task suspended; operation still in progress
  | ret           -- operation returned normally
  | wouldBlock
  | valueError    -- "semaphore released too many times"
  | cancelled     -- operation raised the cancellation exception
  | env           -- environment event, nothing observable
  deriving DecidableEq, Repr

inductive Ev where
  | acquire (t : Nat) (pre : Bool)
  | acquireNowait (t : Nat)
  | release (t : Nat)
  | step (t : Nat)
  | fc (t : Nat)
  | mc (t : Nat)
  deriving DecidableEq, Repr

structure State where
  fast    : Bool
  value   : Nat
  max     : Option Nat
  waiters : List (Nat × Bool)
  pc      : Nat → Pc
  -- ghost
  init0   : Nat
  holders : List Nat
  infl    : List Nat
  extra   : Nat
  lost    : Nat

def init (fast : Bool) (v : Nat) (max : Option Nat) : State :=
  { fast, value := v, max, waiters := [], pc := fun _ => .idle,
    init0 := v, holders := [], infl := [], extra := 0, lost := 0 }

/-- the constructor of the public class refuses `max_value < initial_value` -/
def IsInit (s : State) : Prop :=
  ∃ f v m, s = init f v m ∧ ∀ k, m = some k → v ≤ k

/-- `release()`'s loop: drop cancelled futures from the head, pick the first live one -/
def grant : List (Nat × Bool) → Option (Nat × List (Nat × Bool))
  | [] => none
  | (_, true) :: ws => grant ws
  | (u, false) :: ws => some (u, ws)

/-- body of `release()`; `none` = refused with `ValueError` -/
def doRelease (s : State) : Option State :=
  if s.max = some s.value then none else
  match grant s.waiters with
  | some (u, rest) =>
    some { s with waiters := rest, pc := upd s.pc u .granted, infl := u :: s.infl }
  | none => some { s with waiters := [], value := s.value + 1 }

def markCancelled (t : Nat) (ws : List (Nat × Bool)) : List (Nat × Bool) :=
  ws.map (fun w => if w.1 = t then (w.1, true) else w)

def removeWaiter (t : Nat) (ws : List (Nat × Bool)) : List (Nat × Bool) :=
  ws.filter (fun w => w.1 ≠ t)

/-- `except CancelledError: self.release(); raise` of a task that had already taken a permit:
the permit goes to the next live waiter or back into the value; if that internal `release()`
is refused the `ValueError` replaces the cancellation and the permit is dropped. -/
def giveBack (s : State) (t : Nat) : State × Out :=
  let s1 := { s with pc := upd s.pc t .idle, infl := s.infl.erase t }
  match doRelease s1 with
  | some s2 => (s2, .cancelled)
  | none => ({ s1 with lost := s1.lost + 1 }, .valueError)

def step (s : State) : Ev → Option (State × Out)
  | .acquire t pre =>
    if s.pc t ≠ .idle then none else
    if 0 < s.value ∧ s.waiters = [] then
      if pre then some ({ s with pc := upd s.pc t .preSpin }, .susp)
      else if s.fast then
        some ({ s with value := s.value - 1, holders := t :: s.holders }, .ret)
      else
        some ({ s with value := s.value - 1, pc := upd s.pc t .fastYield, infl := t :: s.infl },
              .susp)
    else some ({ s with waiters := s.waiters ++ [(t, false)], pc := upd s.pc t .waiting }, .susp)
  | .acquireNowait t =>
    if s.pc t ≠ .idle then none else
    if s.value = 0 then some (s, .wouldBlock)
    else some ({ s with value := s.value - 1, holders := t :: s.holders }, .ret)
  | .release t =>
    if s.pc t ≠ .idle then none else
    match doRelease s with
    | none => some (s, .valueError)
    | some s1 =>
      if t ∈ s.holders then some ({ s1 with holders := s.holders.erase t }, .ret)
      else some ({ s1 with extra := s.extra + 1 }, .ret)
  | .fc t =>
    if s.pc t = .waiting then
      some ({ s with waiters := markCancelled t s.waiters, pc := upd s.pc t .waitFC }, .env)
    else none
  | .mc t =>
    match s.pc t with
    | .preSpin => some ({ s with pc := upd s.pc t .preSpinMC }, .env)
    | .fastYield => some ({ s with pc := upd s.pc t .fastYieldMC }, .env)
    | .granted => some ({ s with pc := upd s.pc t .grantedMC }, .env)
    | _ => none
  | .step t =>
    match s.pc t with
    | .idle => none
    | .waiting => none
    | .preSpin => some (s, .susp)
    | .preSpinMC => some ({ s with pc := upd s.pc t .idle }, .cancelled)
    | .fastYield =>
      some ({ s with pc := upd s.pc t .idle, infl := s.infl.erase t, holders := t :: s.holders },
            .ret)
    | .fastYieldMC => some (giveBack s t)
    | .waitFC =>
      some ({ s with waiters := removeWaiter t s.waiters, pc := upd s.pc t .idle }, .cancelled)
    | .granted =>
      some ({ s with pc := upd s.pc t .idle, infl := s.infl.erase t, holders := t :: s.holders },
            .ret)
    | .grantedMC => some (giveBack s t)

abbrev Reach (s : State) : Prop := Reachable IsInit step s

end AnyioModel.Sync.Semaphore
