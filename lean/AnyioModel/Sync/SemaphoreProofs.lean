import AnyioModel.Sync.Semaphore

namespace AnyioModel.Sync.Semaphore

/-! ### list helpers -/

theorem grant_some {ws : List (Nat × Bool)} {u rest} (h : grant ws = some (u, rest)) :
    ∃ pre, ws = pre ++ (u, false) :: rest ∧ ∀ w ∈ pre, w.2 = true := by
  induction ws with
  | nil => simp [grant] at h
  | cons w ws ih =>
    obtain ⟨v, c⟩ := w
    cases c with
    | true =>
      simp only [grant] at h
      obtain ⟨pre, hp, hc⟩ := ih h
      exact ⟨(v, true) :: pre, by simp [hp], by simpa using hc⟩
    | false =>
      simp only [grant, Option.some.injEq, Prod.mk.injEq] at h
      obtain ⟨rfl, rfl⟩ := h
      exact ⟨[], by simp, by simp⟩

theorem grant_none {ws : List (Nat × Bool)} (h : grant ws = none) : ∀ w ∈ ws, w.2 = true := by
  induction ws with
  | nil => simp
  | cons w ws ih =>
    obtain ⟨v, c⟩ := w
    cases c with
    | true => simp only [grant] at h; simpa using ih h
    | false => simp [grant] at h

theorem mem_markCancelled {t : Nat} {ws : List (Nat × Bool)} {u c} :
    (u, c) ∈ markCancelled t ws ↔
      (u = t ∧ c = true ∧ ∃ c', (t, c') ∈ ws) ∨ (u ≠ t ∧ (u, c) ∈ ws) := by
  simp only [markCancelled, List.mem_map, Prod.exists]
  constructor
  · rintro ⟨a, b, hm, he⟩
    by_cases hat : a = t
    · simp [hat] at he; grind
    · simp [hat] at he; grind
  · rintro (⟨rfl, rfl, c', hc⟩ | ⟨hne, hm⟩)
    · exact ⟨u, c', hc, by simp⟩
    · exact ⟨u, c, hm, by simp [hne]⟩

theorem map_fst_markCancelled (t : Nat) (ws : List (Nat × Bool)) :
    (markCancelled t ws).map Prod.fst = ws.map Prod.fst := by
  induction ws with
  | nil => rfl
  | cons w ws ih =>
    simp only [markCancelled, List.map_cons, List.map_map] at ih ⊢
    by_cases h : w.1 = t <;> simp [h, ih]

theorem mem_removeWaiter {t : Nat} {ws : List (Nat × Bool)} {w} :
    w ∈ removeWaiter t ws ↔ w ∈ ws ∧ w.1 ≠ t := by
  simp [removeWaiter]

/-! ### the invariant -/

/-- the task has taken a permit but its `acquire` has not returned yet -/
def owning (p : Pc) : Prop :=
  p = .fastYield ∨ p = .fastYieldMC ∨ p = .granted ∨ p = .grantedMC

/-- the part of the invariant that does not mention the ghost counters -/
structure Struct (s : State) : Prop where
  pos_no_waiters : 0 < s.value → s.waiters = []
  le_max : ∀ m, s.max = some m → s.value ≤ m
  init_le_max : ∀ m, s.max = some m → s.init0 ≤ m
  waiter_pc : ∀ t c, (t, c) ∈ s.waiters →
    (c = false ∧ s.pc t = .waiting) ∨ (c = true ∧ s.pc t = .waitFC)
  waiting_queued : ∀ t, s.pc t = .waiting → (t, false) ∈ s.waiters
  nodup : (s.waiters.map Prod.fst).Nodup
  infl_iff : ∀ t, t ∈ s.infl ↔ owning (s.pc t)
  infl_nodup : s.infl.Nodup

structure Inv (s : State) : Prop extends Struct s where
  conserve : s.value + s.holders.length + s.infl.length + s.lost = s.init0 + s.extra
  lost_le : s.lost ≤ s.extra

theorem Struct.congr {s s' : State} (h : Struct s) (h1 : s'.value = s.value) (h2 : s'.max = s.max)
    (h3 : s'.init0 = s.init0) (h4 : s'.waiters = s.waiters) (h5 : s'.pc = s.pc)
    (h6 : s'.infl = s.infl) : Struct s' := by
  obtain ⟨a1, a2, a3, a4, a5, a6, a7, a8⟩ := h
  constructor <;> simp_all

theorem inv_init {s : State} (h : IsInit s) : Inv s := by
  obtain ⟨f, v, m, rfl, hm⟩ := h
  refine ⟨?_, ?_, ?_⟩
  · constructor <;> simp_all [init, owning]
  · simp [init]
  · simp [init]

theorem doRelease_none {s : State} : doRelease s = none ↔ s.max = some s.value := by
  unfold doRelease
  split
  · simp_all
  · split <;> simp_all

/-- `release()`'s body keeps the structural invariant, and moves exactly one permit into
`value` or to the first live waiter. -/
theorem struct_doRelease {s s' : State} (hi : Struct s) (h : doRelease s = some s') :
    Struct s' ∧ s'.value + s'.infl.length = s.value + s.infl.length + 1 ∧
      s'.holders = s.holders ∧ s'.lost = s.lost ∧ s'.extra = s.extra ∧ s'.init0 = s.init0 ∧
      s'.max = s.max := by
  obtain ⟨h1, h2, h3, h4, h5, h6, h7, h8⟩ := hi
  unfold doRelease at h
  split at h
  · contradiction
  rename_i hmax
  split at h
  · rename_i u rest hg
    cases h
    obtain ⟨pre, hws, hpre⟩ := grant_some hg
    have hu : s.pc u = .waiting := by
      have := h4 u false (by simp [hws]); grind
    have hui : u ∉ s.infl := by
      intro hm; have := (h7 u).mp hm; simp [owning, hu] at this
    have hnr : ∀ c, (u, c) ∉ rest := by
      intro c hc
      rw [hws] at h6
      simp only [List.map_append, List.map_cons] at h6
      have := List.nodup_append.mp h6
      have h2' := (List.nodup_cons.mp this.2.1).1
      exact h2' (List.mem_map.mpr ⟨(u, c), hc, rfl⟩)
    have hsub : ∀ w, w ∈ rest → w ∈ s.waiters := by intro w hw'; simp [hws, hw']
    have hval : s.value = 0 := by
      cases hv : s.value with
      | zero => rfl
      | succ n => have := h1 (by omega); simp [this, grant] at hg
    refine ⟨⟨?_, ?_, ?_, ?_, ?_, ?_, ?_, ?_⟩, by simp; omega, rfl, rfl, rfl, rfl, rfl⟩
    · intro hp; simp at hp; omega
    · exact h2
    · exact h3
    · intro v c hm
      have := h4 v c (hsub _ hm)
      by_cases hvu : v = u
      · subst hvu; exact absurd hm (hnr c)
      · simpa [hvu] using this
    · intro v hv
      by_cases hvu : v = u
      · simp [hvu] at hv
      · simp [hvu] at hv
        have hm := h5 v hv
        rw [hws] at hm
        simp only [List.mem_append, List.mem_cons, Prod.mk.injEq] at hm
        rcases hm with hm | hm | hm
        · have := hpre _ hm; simp at this
        · exact absurd hm.1 hvu
        · exact hm
    · rw [hws] at h6
      simp only [List.map_append, List.map_cons] at h6
      exact (List.nodup_cons.mp (List.nodup_append.mp h6).2.1).2
    · intro v
      by_cases hvu : v = u
      · subst hvu; simp [owning]
      · have := h7 v; simp [hvu]; exact this
    · exact List.nodup_cons.mpr ⟨hui, h8⟩
  · rename_i hg
    cases h
    have hall := grant_none hg
    refine ⟨⟨?_, ?_, ?_, ?_, ?_, ?_, ?_, ?_⟩, by simp; omega, rfl, rfl, rfl, rfl, rfl⟩
    · intro _; rfl
    · intro m hm
      have := h2 m hm
      have hne : m ≠ s.value := by intro he; subst he; exact hmax hm
      simp; omega
    · exact h3
    · intro v c hm; simp at hm
    · intro v hv
      have hm := h5 v hv
      have := hall _ hm
      simp at this
    · simp
    · exact h7
    · exact h8

/-- a task that had taken a permit leaves its `acquire` (normally or by giving the permit back):
removing it from the in-flight set keeps the structural invariant -/
theorem struct_leave {s : State} {t : Nat} (hi : Struct s) (ho : owning (s.pc t)) :
    Struct { s with pc := upd s.pc t .idle, infl := s.infl.erase t } ∧ t ∈ s.infl := by
  obtain ⟨h1, h2, h3, h4, h5, h6, h7, h8⟩ := hi
  have hti : t ∈ s.infl := (h7 t).mpr ho
  refine ⟨⟨h1, h2, h3, ?_, ?_, h6, ?_, ?_⟩, hti⟩
  · intro v c hm
    have := h4 v c hm
    have hvt : v ≠ t := by rintro rfl; simp only [owning] at ho; grind
    simpa [hvt] using this
  · intro v hv
    by_cases hvt : v = t
    · simp [hvt] at hv
    · simp [hvt] at hv; exact h5 v hv
  · intro v
    rw [List.Nodup.mem_erase_iff h8]
    by_cases hvt : v = t
    · simp [hvt, owning]
    · simp [hvt]; exact h7 v
  · exact List.Nodup.erase _ h8

theorem inv_giveBack {s s' : State} {t : Nat} {o : Out} (hi : Inv s) (ho : owning (s.pc t))
    (h : giveBack s t = (s', o)) : Inv s' := by
  obtain ⟨hst, hc, hl⟩ := hi
  obtain ⟨hs1, hti⟩ := struct_leave hst ho
  have hlen := List.length_erase_of_mem hti
  have hpos : 0 < s.infl.length := List.length_pos_of_mem hti
  unfold giveBack at h
  simp only at h
  split at h
  · rename_i s2 hr
    cases h
    obtain ⟨hs2, hcnt, e1, e2, e3, e4, e5⟩ := struct_doRelease hs1 hr
    refine ⟨hs2, ?_, ?_⟩
    · have hcnt' : s'.value + s'.infl.length = s.value + (s.infl.erase t).length + 1 := hcnt
      have e1' : s'.holders = s.holders := e1
      have e2' : s'.lost = s.lost := e2
      have e3' : s'.extra = s.extra := e3
      have e4' : s'.init0 = s.init0 := e4
      rw [e1', e2', e3', e4']; omega
    · have e2' : s'.lost = s.lost := e2
      have e3' : s'.extra = s.extra := e3
      rw [e2', e3']; exact hl
  · rename_i hr
    cases h
    have hmax := doRelease_none.mp hr
    simp only at hmax
    have hinit := hst.init_le_max _ hmax
    refine ⟨Struct.congr hs1 rfl rfl rfl rfl rfl rfl, ?_, ?_⟩
    · simp; omega
    · simp; omega

theorem inv_step {s s' : State} {e : Ev} {o : Out} (hi : Inv s) (hs : step s e = some (s', o)) :
    Inv s' := by
  have hi0 := hi
  obtain ⟨⟨h1, h2, h3, h4, h5, h6, h7, h8⟩, hc, hl⟩ := hi
  cases e with
  | acquire t pre =>
    simp only [step] at hs
    split at hs; · contradiction
    rename_i hpc; simp only [ne_eq, Decidable.not_not] at hpc
    have hti : t ∉ s.infl := by intro hm; have := (h7 t).mp hm; simp [owning, hpc] at this
    split at hs
    · rename_i hfree
      split at hs
      · cases hs
        refine ⟨⟨h1, h2, h3, ?_, ?_, h6, ?_, h8⟩, hc, hl⟩
        · intro v c hm; simp [hfree.2] at hm
        · intro v hv; by_cases hvt : v = t <;> simp [hvt] at hv; exact h5 v hv
        · intro v; by_cases hvt : v = t
          · subst hvt; simp [owning, hti]
          · simp [hvt]; exact h7 v
      · split at hs
        · cases hs
          refine ⟨⟨?_, ?_, h3, h4, h5, h6, h7, h8⟩, ?_, hl⟩
          · intro _; exact hfree.2
          · intro m hm; have := h2 m hm; simp; omega
          · simp; omega
        · cases hs
          refine ⟨⟨?_, ?_, h3, ?_, ?_, h6, ?_, ?_⟩, ?_, hl⟩
          · intro _; exact hfree.2
          · intro m hm; have := h2 m hm; simp; omega
          · intro v c hm; simp [hfree.2] at hm
          · intro v hv; by_cases hvt : v = t <;> simp [hvt] at hv; exact h5 v hv
          · intro v; by_cases hvt : v = t
            · subst hvt; simp [owning]
            · simp [hvt]; exact h7 v
          · exact List.nodup_cons.mpr ⟨hti, h8⟩
          · simp; omega
    · rename_i hbusy
      cases hs
      have hnq : t ∉ s.waiters.map Prod.fst := by
        intro hm
        obtain ⟨⟨u, c⟩, hm2, rfl⟩ := List.mem_map.mp hm
        have := h4 u c hm2; simp_all
      refine ⟨⟨?_, h2, h3, ?_, ?_, ?_, ?_, h8⟩, hc, hl⟩
      · intro hp
        have := h1 hp
        exact absurd ⟨hp, this⟩ hbusy
      · intro v c hm
        simp only [List.mem_append, List.mem_singleton, Prod.mk.injEq] at hm
        rcases hm with hm | ⟨rfl, rfl⟩
        · have := h4 v c hm
          have hvt : v ≠ t := by rintro rfl; simp_all
          simpa [hvt] using this
        · simp
      · intro v hv
        by_cases hvt : v = t
        · subst hvt; simp
        · simp [hvt] at hv; simp [h5 v hv]
      · simp only [List.map_append, List.map_cons, List.map_nil]
        exact List.nodup_append.mpr ⟨h6, by simp, by
          intro a ha b hb; simp at hb; subst hb; rintro rfl; exact hnq ha⟩
      · intro v; by_cases hvt : v = t
        · subst hvt; simp [owning, hti]
        · simp [hvt]; exact h7 v
  | acquireNowait t =>
    simp only [step] at hs
    split at hs; · contradiction
    split at hs
    · cases hs; exact hi0
    · rename_i hv
      cases hs
      have hw := h1 (by omega)
      refine ⟨⟨?_, ?_, h3, h4, h5, h6, h7, h8⟩, ?_, hl⟩
      · intro _; exact hw
      · intro m hm; have := h2 m hm; simp; omega
      · simp; omega
  | release t =>
    simp only [step] at hs
    split at hs; · contradiction
    split at hs
    · cases hs; exact hi0
    · rename_i s1 hr
      obtain ⟨hs1, hcnt, e1, e2, e3, e4, e5⟩ := struct_doRelease hi0.toStruct hr
      split at hs
      · rename_i hmem
        cases hs
        have := List.length_erase_of_mem hmem
        have hpos : 0 < s.holders.length := List.length_pos_of_mem hmem
        refine ⟨Struct.congr hs1 rfl rfl rfl rfl rfl rfl, ?_, ?_⟩
        · simp only [e2, e3, e4]; omega
        · simp only [e2, e3]; exact hl
      · cases hs
        refine ⟨Struct.congr hs1 rfl rfl rfl rfl rfl rfl, ?_, ?_⟩
        · simp only [e1, e2, e4]; omega
        · simp only [e2]; omega
  | fc t =>
    simp only [step] at hs
    split at hs
    · rename_i hpc
      cases hs
      refine ⟨⟨?_, h2, h3, ?_, ?_, ?_, ?_, h8⟩, hc, hl⟩
      · intro hp; simp [markCancelled, h1 hp]
      · intro u c hm
        rcases mem_markCancelled.mp hm with ⟨rfl, rfl, _⟩ | ⟨hne, hm⟩
        · simp
        · simpa [hne] using h4 u c hm
      · intro u hu
        by_cases hut : u = t
        · simp [hut] at hu
        · simp [hut] at hu
          exact mem_markCancelled.mpr (Or.inr ⟨hut, h5 u hu⟩)
      · simpa [map_fst_markCancelled] using h6
      · intro v; by_cases hvt : v = t
        · subst hvt; have := h7 v; simp [owning, hpc] at this ⊢; exact this
        · simp [hvt]; exact h7 v
    · contradiction
  | mc t =>
    simp only [step] at hs
    split at hs
    all_goals first
      | contradiction
      | (rename_i hpc
         cases hs
         refine ⟨⟨h1, h2, h3, ?_, ?_, h6, ?_, h8⟩, hc, hl⟩
         · intro v c hm
           have := h4 v c hm
           have hvt : v ≠ t := by rintro rfl; simp_all
           simpa [hvt] using this
         · intro v hv; by_cases hvt : v = t <;> simp [hvt] at hv; exact h5 v hv
         · intro v; by_cases hvt : v = t
           · subst hvt; have := h7 v; simp [owning, hpc] at this ⊢; exact this
           · simp [hvt]; exact h7 v)
  | step t =>
    simp only [step] at hs
    split at hs
    · contradiction
    · contradiction
    · cases hs; exact hi0
    · rename_i hpc
      cases hs
      refine ⟨⟨h1, h2, h3, ?_, ?_, h6, ?_, h8⟩, hc, hl⟩
      · intro v c hm
        have := h4 v c hm
        have hvt : v ≠ t := by rintro rfl; simp_all
        simpa [hvt] using this
      · intro v hv; by_cases hvt : v = t <;> simp [hvt] at hv; exact h5 v hv
      · intro v; by_cases hvt : v = t
        · subst hvt; have := h7 v; simp [owning, hpc] at this ⊢; exact this
        · simp [hvt]; exact h7 v
    · rename_i hpc
      cases hs
      obtain ⟨hs1, hti⟩ := struct_leave hi0.toStruct (t := t) (by simp [owning, hpc])
      have := List.length_erase_of_mem hti
      have hpos : 0 < s.infl.length := List.length_pos_of_mem hti
      refine ⟨Struct.congr hs1 rfl rfl rfl rfl rfl rfl, ?_, hl⟩
      simp; omega
    · rename_i hpc
      injection hs with hs
      exact inv_giveBack hi0 (by simp [owning, hpc]) hs
    · rename_i hpc
      cases hs
      refine ⟨⟨?_, h2, h3, ?_, ?_, ?_, ?_, h8⟩, hc, hl⟩
      · intro hp; simp [removeWaiter, h1 hp]
      · intro u c hm
        obtain ⟨hm, hne⟩ := mem_removeWaiter.mp hm
        simp at hne
        simpa [hne] using h4 u c hm
      · intro u hu
        by_cases hut : u = t
        · simp [hut] at hu
        · simp [hut] at hu
          exact mem_removeWaiter.mpr ⟨h5 u hu, by simpa using hut⟩
      · simp only [removeWaiter]
        exact (List.Nodup.sublist (List.Sublist.map _ List.filter_sublist) h6)
      · intro v; by_cases hvt : v = t
        · subst hvt; have := h7 v; simp [owning, hpc] at this ⊢; exact this
        · simp [hvt]; exact h7 v
    · rename_i hpc
      cases hs
      obtain ⟨hs1, hti⟩ := struct_leave hi0.toStruct (t := t) (by simp [owning, hpc])
      have := List.length_erase_of_mem hti
      have hpos : 0 < s.infl.length := List.length_pos_of_mem hti
      refine ⟨Struct.congr hs1 rfl rfl rfl rfl rfl rfl, ?_, hl⟩
      simp; omega
    · rename_i hpc
      injection hs with hs
      exact inv_giveBack hi0 (by simp [owning, hpc]) hs

/-! ### what one `release()` body does, without reference to the invariant -/

theorem doRelease_shape {s s' : State} (h : doRelease s = some s') :
    s.max ≠ some s.value ∧
    ((s'.value = s.value + 1 ∧ s'.waiters = [] ∧ s'.pc = s.pc ∧ s'.infl = s.infl ∧
        ∀ w ∈ s.waiters, w.2 = true) ∨
     (∃ u pre, s.waiters = pre ++ (u, false) :: s'.waiters ∧ (∀ w ∈ pre, w.2 = true) ∧
        s'.value = s.value ∧ s'.pc = upd s.pc u .granted ∧ s'.infl = u :: s.infl)) ∧
    s'.holders = s.holders ∧ s'.extra = s.extra ∧ s'.lost = s.lost ∧ s'.init0 = s.init0 ∧
    s'.max = s.max ∧ s'.fast = s.fast := by
  unfold doRelease at h
  split at h
  · contradiction
  rename_i hmax
  refine ⟨hmax, ?_⟩
  split at h
  · rename_i u rest hg
    cases h
    obtain ⟨pre, hws, hpre⟩ := grant_some hg
    exact ⟨Or.inr ⟨u, pre, hws, hpre, rfl, rfl, rfl⟩, rfl, rfl, rfl, rfl, rfl, rfl⟩
  · rename_i hg
    cases h
    exact ⟨Or.inl ⟨rfl, rfl, rfl, rfl, grant_none hg⟩, rfl, rfl, rfl, rfl, rfl, rfl⟩

end AnyioModel.Sync.Semaphore
