/-
Model of `anyio._backends._asyncio.Lock` (src/anyio/_backends/_asyncio.py, class Lock),
cut at its awaits into atomic segments.

Shared state mirrors the object's fields: `_owner_task`, `_waiters` (deque of
(task, future)), `_fast_acquire`.  A waiter's future is represented by a flag "cancelled";
a future resolved by `release()` is no longer in the deque, the woken task's program
counter records it (`granted`).

Events:
* `acquire t pre` / `acquireNowait t` / `release t`: task `t`, currently running and not
  inside another Lock operation, calls the method.  `pre` = the caller's scope is already
  effectively cancelled, so `checkpoint_if_cancelled()` will spin until the cancellation
  lands instead of falling through.
* `step t`: the event loop resumes `t` (one segment runs, up to the next suspension).
* `fc t`: `t`'s pending waiter future is cancelled (cancel-scope delivery, deadline or
  native `Task.cancel()` while the future is pending).
* `mc t`: `Task._must_cancel` is set on `t` while it has no pending future to cancel: it is
  suspended in a bare `sleep(0)`, or its future was already resolved (a native
  `Task.cancel()` landing between `release()` and the wake-up).  AnyIO's own delivery never
  produces the latter (`_deliver_cancellation` skips tasks whose waiter is done).
-/
import AnyioModel.Util.LTS

namespace AnyioModel.Sync.Lock

inductive Pc where
  | idle        -- not inside a Lock operation
  | preSpin     -- uncontended acquire entered in a cancelled scope: in checkpoint_if_cancelled's sleep(0)
  | preSpinMC   -- same, cancellation has landed (`_must_cancel`)
  | fastYield   -- took the lock on the uncontended path, inside cancel_shielded_checkpoint
  | fastYieldMC -- same, with a native cancellation pending
  | waiting     -- queued in `_waiters`, future pending
  | waitFC      -- future cancelled; wake-up (which raises) not yet run
  | granted     -- future resolved by `release()`: owns the lock, wake-up not yet run
  | grantedMC   -- same, with a native cancellation pending
  deriving DecidableEq, Repr, Inhabited

inductive Out where
  | susp          -- the task suspended; operation still in progress
  | ret           -- operation returned normally
  | wouldBlock
  | runtimeError
  | cancelled     -- operation raised the cancellation exception
  | env           -- environment event, nothing observable
  deriving DecidableEq, Repr

inductive Ev where
  | acquire (t : Nat) (pre : Bool)
  | acquireNowait (t : Nat)
  | release (t : Nat)
  | step (t : Nat)
  | fc (t : Nat)
  | mc (t : Nat)
  deriving DecidableEq, Repr

structure State where
  fast    : Bool
  owner   : Option Nat
  waiters : List (Nat × Bool)
  pc      : Nat → Pc
  /-- ghost: `acquire`/`acquire_nowait` returned normally to `t` and `t` has not released since -/
  holds   : Nat → Bool

def init (fast : Bool) : State :=
  { fast, owner := none, waiters := [], pc := fun _ => .idle, holds := fun _ => false }

/-- `release()`'s loop: drop cancelled waiters from the head, pick the first live one -/
def grant : List (Nat × Bool) → Option (Nat × List (Nat × Bool))
  | [] => none
  | (_, true) :: ws => grant ws
  | (u, false) :: ws => some (u, ws)

/-- body of `release()` once the owner check has passed -/
def doRelease (s : State) : State :=
  match grant s.waiters with
  | some (u, rest) => { s with owner := some u, waiters := rest, pc := upd s.pc u .granted }
  | none => { s with owner := none, waiters := [] }

/-- the (unique) queue entry of `t` now has a cancelled future -/
def markCancelled (t : Nat) (ws : List (Nat × Bool)) : List (Nat × Bool) :=
  ws.map (fun w => if w.1 = t then (w.1, true) else w)

def removeWaiter (t : Nat) (ws : List (Nat × Bool)) : List (Nat × Bool) :=
  ws.filter (fun w => w.1 ≠ t)

def step (s : State) : Ev → Option (State × Out)
  | .acquire t pre =>
    if s.pc t ≠ .idle then none else
    if s.owner = none ∧ s.waiters = [] then
      if pre then some ({ s with pc := upd s.pc t .preSpin }, .susp)
      else if s.fast then
        some ({ s with owner := some t, holds := upd s.holds t true }, .ret)
      else
        some ({ s with owner := some t, pc := upd s.pc t .fastYield }, .susp)
    else if s.owner = some t then some (s, .runtimeError)
    else some ({ s with waiters := s.waiters ++ [(t, false)], pc := upd s.pc t .waiting }, .susp)
  | .acquireNowait t =>
    if s.pc t ≠ .idle then none else
    if s.owner = none ∧ s.waiters = [] then
      some ({ s with owner := some t, holds := upd s.holds t true }, .ret)
    else if s.owner = some t then some (s, .runtimeError)
    else some (s, .wouldBlock)
  | .release t =>
    if s.pc t ≠ .idle then none else
    if s.owner ≠ some t then some (s, .runtimeError)
    else some (doRelease { s with holds := upd s.holds t false }, .ret)
  | .fc t =>
    if s.pc t = .waiting then
      some ({ s with waiters := markCancelled t s.waiters, pc := upd s.pc t .waitFC }, .env)
    else none
  | .mc t =>
    match s.pc t with
    | .preSpin => some ({ s with pc := upd s.pc t .preSpinMC }, .env)
    | .fastYield => some ({ s with pc := upd s.pc t .fastYieldMC }, .env)
    | .granted => some ({ s with pc := upd s.pc t .grantedMC }, .env)
    | _ => none
  | .step t =>
    match s.pc t with
    | .idle => none
    | .waiting => none
    | .preSpin => some (s, .susp)
    | .preSpinMC => some ({ s with pc := upd s.pc t .idle }, .cancelled)
    | .fastYield =>
      some ({ s with pc := upd s.pc t .idle, holds := upd s.holds t true }, .ret)
    | .fastYieldMC => some (doRelease { s with pc := upd s.pc t .idle }, .cancelled)
    | .waitFC =>
      some ({ s with waiters := removeWaiter t s.waiters, pc := upd s.pc t .idle }, .cancelled)
    | .granted =>
      some ({ s with pc := upd s.pc t .idle, holds := upd s.holds t true }, .ret)
    | .grantedMC => some (doRelease { s with pc := upd s.pc t .idle }, .cancelled)

abbrev Reach (s : State) : Prop :=
  Reachable (fun s0 => ∃ f, s0 = init f) step s

end AnyioModel.Sync.Lock
