/-
Condition model: step-level facts used by the C11 theorems (who can set `wasSet`, what a
cancelled notified waiter does, what a returning `wait()` looks like).
-/
import AnyioModel.Sync.ConditionInv

namespace AnyioModel.Sync.Condition
open AnyioModel.Sync

/-- the task is inside `wait()` -/
def inWait (c : CPc) : Prop := c ≠ .none ∧ c ≠ .acq

/-- a notified waiter that is being resumed by a cancellation -/
def cancelledNotified (c : CPc) : Prop := (∃ p, c = .evFCSet p) ∨ (∃ p, c = .evSetMC p)

theorem lockResult_wasSet {s s' : State} {t : Nat} {during : CPc} {onRet o : Out}
    {r : Option (Lock.State × Out)} (h : lockResult s t during onRet r = some (s', o)) :
    s'.wasSet = s.wasSet ∧ s'.waiters = s.waiters ∧ s'.dropped = s.dropped ∧
      s'.notified = s.notified := by
  obtain ⟨_, _, _, _, ⟨q1, q2, q3, _, _, _, q7⟩, _⟩ := lockResult_cases h
  exact ⟨q2, q1, q7, q3⟩

/-- `wasSet u` turns true only through `notify`/`notify_all` by the lock holder selecting `u`
among the oldest waiters, or through a cancelled notified waiter handing its notification to `u`,
the head of the queue. -/
theorem wasSet_rises {s s' : State} {e : Ev} {o : Out} (hi : Inv s) (hs : step s e = some (s', o))
    {u : Nat} (h0 : s.wasSet u = false) (h1 : s'.wasSet u = true) :
    (∃ t n, e = .notify t n ∧ s.ownerTask = some t ∧ u ∈ s.waiters.take n) ∨
    (∃ t, e = .notifyAll t ∧ s.ownerTask = some t ∧ u ∈ s.waiters) ∨
    (∃ t, e = .step t ∧ cancelledNotified (s.cpc t) ∧ s.waiters.head? = some u) := by
  have hsame : s'.wasSet = s.wasSet → False := by intro h; rw [h, h0] at h1; cases h1
  cases e with
  | acquire t pre =>
    simp only [step] at hs
    split at hs; · contradiction
    exact (hsame (lockResult_wasSet hs).1).elim
  | acquireNowait t =>
    simp only [step] at hs
    split at hs; · contradiction
    exact (hsame (lockResult_wasSet hs).1).elim
  | release t =>
    simp only [step] at hs
    split at hs; · contradiction
    split at hs
    · contradiction
    · cases hs; exact (hsame rfl).elim
    · cases hs; exact (hsame rfl).elim
  | wait t pre =>
    simp only [step] at hs
    split at hs; · contradiction
    split at hs
    · cases hs; exact (hsame rfl).elim
    · unfold waitBody at hs
      split at hs
      · cases hs; exact (hsame rfl).elim
      · simp only at hs
        split at hs
        · contradiction
        all_goals
          cases hs
          simp only [upd_apply] at h1
          split at h1
          · cases h1
          · rw [h0] at h1; cases h1
  | notify t n =>
    simp only [step] at hs
    split at hs; · contradiction
    rename_i hcp; simp only [ne_eq, Decidable.not_not] at hcp
    split at hs
    · cases hs; exact (hsame rfl).elim
    · rename_i hown; simp only [ne_eq, Decidable.not_not] at hown
      cases hs
      have hx := invQx_of_invQ (t := t) hi.q (by simp [hcp, isQueued]) (by simp [hcp, isSet])
      obtain ⟨_, sp⟩ := notifyLoop_spec t n s hx
      left
      refine ⟨t, n, rfl, hown, ?_⟩
      apply Classical.byContradiction
      intro hn
      have := (sp.others u hn).2
      rw [this, h0] at h1; cases h1
  | notifyAll t =>
    simp only [step] at hs
    split at hs; · contradiction
    rename_i hcp; simp only [ne_eq, Decidable.not_not] at hcp
    split at hs
    · cases hs; exact (hsame rfl).elim
    · rename_i hown; simp only [ne_eq, Decidable.not_not] at hown
      cases hs
      have hx := invQx_of_invQ (t := t) hi.q (by simp [hcp, isQueued]) (by simp [hcp, isSet])
      obtain ⟨_, sp⟩ := notifyLoop_spec t s.waiters.length s hx
      right; left
      refine ⟨t, rfl, hown, ?_⟩
      apply Classical.byContradiction
      intro hn
      have := (sp.others u (fun hm => hn (List.mem_of_mem_take hm))).2
      rw [this, h0] at h1; cases h1
  | fc t =>
    simp only [step] at hs
    split at hs
    · cases hs; exact (hsame rfl).elim
    all_goals first
      | contradiction
      | (split at hs
         · cases hs; exact (hsame rfl).elim
         · contradiction)
  | mc t =>
    simp only [step] at hs
    split at hs
    · cases hs; exact (hsame rfl).elim
    · cases hs; exact (hsame rfl).elim
    all_goals first
      | contradiction
      | (split at hs
         · cases hs; exact (hsame rfl).elim
         · contradiction)
  | step t =>
    simp only [step] at hs
    split at hs
    · contradiction
    · contradiction
    · cases hs; exact (hsame rfl).elim
    · cases hs; exact (hsame rfl).elim
    · exact (hsame (lockResult_wasSet hs).1).elim
    · exact (hsame (lockResult_wasSet hs).1).elim
    · unfold reacquire at hs; exact (hsame (lockResult_wasSet hs).1).elim
    · unfold reacquire at hs; exact (hsame (lockResult_wasSet hs).1).elim
    all_goals
      rename_i p hcp
      right; right
      refine ⟨t, rfl, by simp [cancelledNotified, hcp], ?_⟩
      unfold reacquire at hs
      have hw := (lockResult_wasSet hs).1
      have hts : isSet (s.cpc t) = true := by simp [hcp, isSet]
      have hx0 : InvQx t { s with notified := s.notified.erase t } :=
        invQx_eraseN hi.q hts rfl rfl rfl rfl
      by_cases hnil : s.waiters = []
      · rw [passOn_nil (by simp [hnil])] at hw
        exact (hsame hw).elim
      · obtain ⟨v, rest, hwv⟩ := List.exists_cons_of_ne_nil hnil
        obtain ⟨c', _, heq⟩ := passOn_cons hx0 (u := v) (rest := rest) (by simp [hwv])
        rw [heq] at hw
        simp only at hw
        rw [hw, upd_apply] at h1
        split at h1
        · rename_i huv; subst huv; simp [hwv]
        · rw [h0] at h1; cases h1

/-- what the wake-up of a notified waiter that is being cancelled does -/
theorem cancelledNotified_step {s s' : State} {t : Nat} {o : Out} (hi : Inv s)
    (hs : step s (.step t) = some (s', o)) (hc : cancelledNotified (s.cpc t)) :
    o ≠ .ret ∧ (s'.cpc t = .none ∨ s'.cpc t = .reacq true) ∧ t ∉ s'.notified ∧
    ((s.waiters = [] ∧ s'.waiters = [] ∧ s'.dropped = s.dropped + 1) ∨
     (∃ u rest, s.waiters = u :: rest ∧ s'.waiters = rest ∧ isSet (s'.cpc u) = true ∧
        s'.wasSet u = true ∧ u ∈ s'.notified ∧ s'.dropped = s.dropped)) := by
  have hts : isSet (s.cpc t) = true := by
    rcases hc with ⟨p, h⟩ | ⟨p, h⟩ <;> simp [h, isSet]
  have hx0 : InvQx t { s with notified := s.notified.erase t } :=
    invQx_eraseN hi.q hts rfl rfl rfl rfl
  have hs' : reacquire t true (passOn { s with notified := s.notified.erase t }) = some (s', o) := by
    rcases hc with ⟨p, h⟩ | ⟨p, h⟩ <;> (simp only [step, h] at hs; exact hs)
  unfold reacquire at hs'
  obtain ⟨hws, hww, hdr, hnn⟩ := lockResult_wasSet hs'
  obtain ⟨l, lo, _, _, _, hcase⟩ := lockResult_cases hs'
  have hx1 := invQx_passOn hx0
  have ho : o ≠ .ret := by
    rcases hcase with ⟨_, _, _, h⟩ | ⟨_, _, _, h⟩ | ⟨h1, _, _, _, h⟩
    · simp [h]
    · simp [h]
    · rw [h]; exact h1
  have hcp : s'.cpc t = .none ∨ s'.cpc t = .reacq true := by
    rcases hcase with ⟨_, _, h, _⟩ | ⟨_, _, h, _⟩ | ⟨_, _, _, h, _⟩ <;> simp [h]
  have hcu : ∀ u, u ≠ t → s'.cpc u = (passOn { s with notified := s.notified.erase t }).cpc u := by
    intro u hut
    rcases hcase with ⟨_, _, h, _⟩ | ⟨_, _, h, _⟩ | ⟨_, _, _, h, _⟩ <;> simp [h, hut]
  refine ⟨ho, hcp, by rw [hnn]; exact hx1.t_notn, ?_⟩
  by_cases hnil : s.waiters = []
  · left
    rw [passOn_nil (by simp [hnil])] at hww hdr
    exact ⟨hnil, by rw [hww]; exact hnil, hdr⟩
  · right
    obtain ⟨u, rest, hw⟩ := List.exists_cons_of_ne_nil hnil
    obtain ⟨c', hc', heq⟩ := passOn_cons hx0 (u := u) (rest := rest) (by simp [hw])
    have hut : u ≠ t := by intro h; subst h; exact hx0.t_notq (by simp [hw])
    rw [heq] at hww hdr hnn hws hcu
    refine ⟨u, rest, hw, hww, ?_, by rw [hws]; simp, by rw [hnn]; simp, hdr⟩
    rw [hcu u hut]
    rcases hc' with h | h <;> simp [h, isSet]

/-- a segment of `wait()` that ends the call with a normal return -/
theorem wait_ret {s s' : State} {t : Nat} (hi : Inv s)
    (hs : step s (.step t) = some (s', .ret)) (hw : inWait (s.cpc t)) :
    s.wasSet t = true ∧ s'.ownerTask = some t ∧ s'.cpc t = .none ∧
      (s.cpc t = .reacq false ∨ ∃ p, s.cpc t = .evSet p) := by
  have hfin : ∀ (s1 : State) (exc : Bool) (r : Option (Lock.State × Out)),
      lockResult s1 t (.reacq exc) (if exc then .cancelled else .ret) r = some (s', .ret) →
      exc = false ∧ s'.ownerTask = some t ∧ s'.cpc t = .none := by
    intro s1 exc r h
    obtain ⟨l, lo, _, _, _, hcase⟩ := lockResult_cases h
    rcases hcase with ⟨_, h2, h3, h4⟩ | ⟨_, _, _, h4⟩ | ⟨h1, _, _, _, h4⟩
    · refine ⟨?_, h2, by simp [h3]⟩
      cases exc <;> simp at h4 ⊢
    · cases h4
    · exact (h1 h4.symm).elim
  simp only [step] at hs
  split at hs
  · contradiction
  · contradiction
  · cases hs
  · cases hs
  · rename_i hcp; exact (hw.2 hcp).elim
  · rename_i exc hcp
    obtain ⟨h1, h2, h3⟩ := hfin s exc _ hs
    subst h1
    exact ⟨hi.q.set_wasSet t (Or.inr hcp), h2, h3, Or.inl hcp⟩
  · rename_i p hcp
    unfold reacquire at hs
    obtain ⟨_, h2, h3⟩ := hfin _ false _ hs
    exact ⟨hi.q.set_wasSet t (Or.inl (by simp [hcp, isSet])), h2, h3, Or.inr ⟨p, hcp⟩⟩
  all_goals
    unfold reacquire at hs
    obtain ⟨h1, _, _⟩ := hfin _ true _ hs
    cases h1

end AnyioModel.Sync.Condition
