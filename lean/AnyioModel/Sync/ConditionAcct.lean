/-
Condition model, history level: every queued `wait()` is accounted for exactly once - its event
was set, or it took itself out of the queue (cancelled before being notified), or it is still
queued.  Companion of `Sync/ConditionHistory.lean`; used by `Props/C11order.lean`.
-/
import AnyioModel.Sync.ConditionHistory

namespace AnyioModel.Sync.Condition
open AnyioModel.Sync

/-- queued events that this step removed from the queue without setting them -/
def leftQueue (s s' : State) : List Nat :=
  s.waiters.filter (fun u => !(s'.waiters.contains u) && !isSet (s'.cpc u))

structure ALog where
  n : NLog := {}
  left : List Nat := []

def alogStep (s : State) (l : ALog) (e : Ev) (s' : State) : ALog :=
  { n := nlogStep s l.n e s', left := l.left ++ leftQueue s s' }

def runALog : State → ALog → List Ev → Option (State × ALog)
  | s, l, [] => some (s, l)
  | s, l, e :: es =>
    match step s e with
    | none => none
    | some (s', _) => runALog s' (alogStep s l e s') es

def AInvL (s : State) (l : ALog) : Prop :=
  ∀ x, l.n.wq.count x = l.n.sig.count x + l.left.count x + s.waiters.count x

theorem leftQueue_nil_of_subset {s s' : State} (h : ∀ u ∈ s.waiters, u ∈ s'.waiters ∨ isSet (s'.cpc u) = true) :
    leftQueue s s' = [] := by
  unfold leftQueue
  rw [List.filter_eq_nil_iff]
  intro u hu
  rcases h u hu with h1 | h1
  · simp [h1]
  · simp [h1]

theorem mem_signalled_set {s s' : State} {u : Nat} (h : u ∈ signalled s s') : isSet (s'.cpc u) = true :=
  (List.mem_filter.mp h).2

theorem ainvl_step {s s' : State} {l : ALog} {e : Ev} {o : Out} (hq : InvQ s) (hl : AInvL s l)
    (hs : step s e = some (s', o)) : AInvL s' (alogStep s l e s') := by
  unfold AInvL at *
  intro x
  have hx := hl x
  cases qshape_step hq hs with
  | same hw h1 h2 =>
    have hlq : leftQueue s s' = [] := leftQueue_nil_of_subset (fun u hu => Or.inl (hw ▸ hu))
    simp only [alogStep, nlogStep, h1, h2, hlq, hw, Option.toList, List.append_nil]
    exact hx
  | push t hw h1 h2 =>
    have hlq : leftQueue s s' = [] :=
      leftQueue_nil_of_subset (fun u hu => Or.inl (by rw [hw]; exact List.mem_append_left _ hu))
    simp only [alogStep, nlogStep, h1, h2, hlq, hw, Option.toList, List.append_nil, List.count_append]
    omega
  | pop k hw h1 h2 =>
    have hlq : leftQueue s s' = [] := by
      apply leftQueue_nil_of_subset
      intro u hu
      rw [← List.take_append_drop k s.waiters] at hu
      rcases List.mem_append.mp hu with h | h
      · right; exact mem_signalled_set (h1 ▸ h)
      · left; rw [hw]; exact h
    have hc : s.waiters.count x = (s.waiters.take k).count x + (s.waiters.drop k).count x := by
      rw [← List.count_append, List.take_append_drop]
    simp only [alogStep, nlogStep, h1, h2, hlq, hw, Option.toList, List.append_nil, List.count_append]
    omega
  | leave t hw h1 h2 =>
    have hns : ∀ u ∈ s.waiters, isSet (s'.cpc u) = false := by
      intro u hu
      have : u ∉ signalled s s' := by rw [h1]; simp
      unfold signalled at this
      simpa [hu] using this
    have hnd := hq.q_nodup
    have hlq : ∀ y, (leftQueue s s').count y + (s.waiters.erase t).count y = s.waiters.count y := by
      intro y
      unfold leftQueue
      have hf : s.waiters.filter (fun u => !(s'.waiters.contains u) && !isSet (s'.cpc u))
          = s.waiters.filter (fun u => u == t) := by
        apply List.filter_congr
        intro u hu
        rw [hw, hns u hu]
        by_cases hut : u = t
        · subst hut; simp [List.Nodup.mem_erase_iff hnd]
        · simp [hut, List.Nodup.mem_erase_iff hnd, hu]
      rw [hf]
      have hle := List.nodup_iff_count.mp hnd t
      by_cases hyt : y = t
      · subst hyt
        rw [List.count_filter (by simp), List.count_erase]
        simp only [BEq.rfl, if_true]
        omega
      · have h0 : (s.waiters.filter (fun u => u == t)).count y = 0 := by
          rw [List.count_eq_zero]
          intro hm
          have := (List.mem_filter.mp hm).2
          exact hyt (by simpa using this)
        have hty : ¬ (t == y) = true := by simpa using Ne.symm hyt
        rw [h0, List.count_erase]
        simp [hty]
    simp only [alogStep, nlogStep, h1, h2, hw, Option.toList, List.append_nil, List.count_append]
    have := hlq x
    omega

theorem ainvl_init (f : Bool) : AInvL (init f) {} := by
  intro x; simp [init]

theorem ainvl_run {s s' : State} {l l' : ALog} (es : List Ev) (hi : Inv s) (hl : AInvL s l)
    (h : runALog s l es = some (s', l')) : Inv s' ∧ AInvL s' l' := by
  induction es generalizing s l with
  | nil => simp only [runALog, Option.some.injEq, Prod.mk.injEq] at h; obtain ⟨rfl, rfl⟩ := h; exact ⟨hi, hl⟩
  | cons e es ih =>
    simp only [runALog] at h
    split at h
    · contradiction
    · rename_i s1 o hs
      exact ih (inv_step hi hs) (ainvl_step hi.q hl hs) h

theorem ninv_runA {s s' : State} {l l' : ALog} (es : List Ev) (hi : Inv s) (hl : NInv s l.n)
    (h : runALog s l es = some (s', l')) : NInv s' l'.n := by
  induction es generalizing s l with
  | nil => simp only [runALog, Option.some.injEq, Prod.mk.injEq] at h; obtain ⟨rfl, rfl⟩ := h; exact hl
  | cons e es ih =>
    simp only [runALog] at h
    split at h
    · contradiction
    · rename_i s1 o hs
      exact ih (inv_step hi hs) (ninv_step hi.q hl hs) h

end AnyioModel.Sync.Condition
