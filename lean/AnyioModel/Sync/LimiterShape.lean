import AnyioModel.Sync.LimiterProofs

/-!
What the wake-up loops do, independently of the invariant: `Woke s s' pre` says that `s'`
results from `s` by notifying exactly the queue prefix `pre`, in order.
-/
namespace AnyioModel.Sync.Limiter

structure Woke (s s' : State) (pre : List (Nat × Nat)) : Prop where
  queue : s.queue = pre ++ s'.queue
  resv : s'.resv = pre.reverse ++ s.resv
  total : s'.total = s.total
  holders : s'.holders = s.holders
  lowered : s'.lowered = s.lowered
  grants : s'.grants = s.grants
  rels : s'.rels = s.rels
  beh : s'.beh = s.beh
  mono : ∀ c, c ∈ s.borrowers → c ∈ s'.borrowers
  new : ∀ c, c ∈ s'.borrowers → c ∈ s.borrowers ∨ ∃ u, (c, u) ∈ pre
  len : s'.borrowers.length ≤ s.borrowers.length + pre.length
  len_ge : s.borrowers.length ≤ s'.borrowers.length
  same : pre = [] → s' = s
  safe : pre ≠ [] → leTot s'.borrowers.length s.total = true
  pc : ∀ t, (∀ b, (b, t) ∉ pre) → s'.pc t = s.pc t

theorem Woke.refl (s : State) : Woke s s [] := by
  constructor <;> simp

theorem woke_wake1 {s s' : State} (h : wake1 s = some s') : ∃ b u, Woke s s' [(b, u)] := by
  unfold wake1 at h
  split at h
  · contradiction
  rename_i b u q hq
  split at h
  · rename_i hlt
    cases h
    refine ⟨b, u, ?_⟩
    have hadd : addB b s.borrowers = s.borrowers ∨ addB b s.borrowers = b :: s.borrowers := by
      unfold addB; split <;> simp
    refine { queue := by simp [hq], resv := by simp, total := rfl, holders := rfl, lowered := rfl,
             grants := rfl, rels := rfl, beh := rfl, mono := ?_, new := ?_, len := ?_, len_ge := ?_,
             same := by simp, safe := ?_, pc := ?_ }
    · intro c hc; rcases hadd with h | h <;> simp [h, hc]
    · intro c hc
      simp only at hc
      rcases hadd with h | h
      · rw [h] at hc; exact Or.inl hc
      · rw [h] at hc
        rcases List.mem_cons.mp hc with rfl | hc
        · exact Or.inr ⟨u, by simp⟩
        · exact Or.inl hc
    · rcases hadd with h | h <;> simp [h]
    · rcases hadd with h | h <;> simp [h]
    · intro _
      apply leTot_mono (ltTot_succ_le hlt)
      rcases hadd with h | h <;> simp [h]
    · intro t ht
      have : t ≠ u := by rintro rfl; exact ht b (by simp)
      simp [this]
  · contradiction

theorem Woke.trans {s s1 s2 : State} {p1 p2 : List (Nat × Nat)} (h1 : Woke s s1 p1)
    (h2 : Woke s1 s2 p2) : Woke s s2 (p1 ++ p2) := by
  constructor
  · rw [h1.queue, h2.queue]; simp
  · rw [h2.resv, h1.resv]; simp
  · rw [h2.total, h1.total]
  · rw [h2.holders, h1.holders]
  · rw [h2.lowered, h1.lowered]
  · rw [h2.grants, h1.grants]
  · rw [h2.rels, h1.rels]
  · rw [h2.beh, h1.beh]
  · intro c hc; exact h2.mono c (h1.mono c hc)
  · intro c hc
    rcases h2.new c hc with h | ⟨u, hu⟩
    · rcases h1.new c h with h | ⟨u, hu⟩
      · exact Or.inl h
      · exact Or.inr ⟨u, by simp [hu]⟩
    · exact Or.inr ⟨u, by simp [hu]⟩
  · have := h1.len; have := h2.len; simp; omega
  · have := h1.len_ge; have := h2.len_ge; omega
  · intro h
    simp at h
    rw [h2.same h.2, h1.same h.1]
  · intro _
    by_cases hp2 : p2 = []
    · have := h2.same hp2; subst this
      apply h1.safe
      intro hp1; simp_all
    · have := h2.safe hp2; rw [h1.total] at this; exact this
  · intro t ht
    rw [h2.pc t (fun b hb => ht b (by simp [hb])), h1.pc t (fun b hb => ht b (by simp [hb]))]

theorem notify_woke (s : State) : ∃ pre, Woke s (notify s) pre ∧ pre.length ≤ 1 := by
  unfold notify
  cases hw : wake1 s with
  | none => exact ⟨[], by simpa using Woke.refl s, by simp⟩
  | some s' =>
    obtain ⟨b, u, h⟩ := woke_wake1 hw
    exact ⟨[(b, u)], by simpa using h, by simp⟩

theorem wakeAll_woke (n : Nat) (s : State) : ∃ pre, Woke s (wakeAll n s) pre := by
  induction n generalizing s with
  | zero => exact ⟨[], by simpa [wakeAll] using Woke.refl s⟩
  | succ n ih =>
    unfold wakeAll
    cases hw : wake1 s with
    | none => exact ⟨[], by simpa using Woke.refl s⟩
    | some s' =>
      obtain ⟨b, u, h⟩ := woke_wake1 hw
      obtain ⟨p2, h2⟩ := ih s'
      exact ⟨[(b, u)] ++ p2, by simpa using h.trans h2⟩

/-! ### every disciplined step is quiet, a self-grant, or a wake-up of a queue prefix -/

/-- nothing is granted: borrowers and total unchanged, no new reservation -/
def Quiet (s s' : State) : Prop :=
  s'.total = s.total ∧ s'.borrowers = s.borrowers ∧ (∀ x ∈ s'.resv, x ∈ s.resv) ∧
  s'.lowered = s.lowered ∧
  (s'.queue = s.queue ∨ (∃ b t, s'.queue = s.queue ++ [(b, t)] ∧ s.pc t = .idle) ∨
    (∃ t, s'.queue = dequeue (s.beh t) s.queue ∧ s.pc t = .waitFC))

/-- the caller takes a free token itself: only with an empty queue -/
def SelfGrant (s s' : State) : Prop :=
  s.queue = [] ∧ s'.queue = [] ∧ ltTot s.borrowers.length s.total = true ∧ s'.total = s.total ∧
  s'.lowered = s.lowered ∧
  ∃ b, b ∉ s.borrowers ∧ s'.borrowers = b :: s.borrowers ∧
    (s'.resv = s.resv ∨ ∃ t, s'.resv = (b, t) :: s.resv ∧ s.pc t = .idle)

/-- tokens are taken out (or the total is changed), then a prefix of the queue is notified -/
def WakeStep (s s' : State) (e : Ev) : Prop :=
  ∃ s1 pre, Woke s1 s' pre ∧ s1.queue = s.queue ∧ (∀ x ∈ s1.resv, x ∈ s.resv) ∧
    (∀ c ∈ s1.borrowers, c ∈ s.borrowers) ∧ s1.borrowers.length ≤ s.borrowers.length ∧
    ((s1.total = s.total ∧ s1.lowered = s.lowered ∧ pre.length ≤ 1) ∨
     (∃ v, e = .setTotal v ∧ s1.total = v ∧ s1.borrowers = s.borrowers ∧
        s1.lowered = (s.lowered || !leTot s.borrowers.length v)))

theorem quiet_refl (s : State) : Quiet s s := ⟨rfl, rfl, fun _ h => h, rfl, Or.inl rfl⟩

theorem acq_cases {s s' : State} {t b : Nat} {pre : Bool} {o : Out}
    (hnq : pre = true ∨ ∀ u, (b, u) ∉ s.queue)
    (h : acq s t b pre = some (s', o)) : Quiet s s' ∨ SelfGrant s s' := by
  unfold acq at h
  split at h; · contradiction
  rename_i hpc; simp only [ne_eq, Decidable.not_not] at hpc
  split at h
  · cases h; left; exact ⟨rfl, rfl, fun _ h => h, rfl, Or.inl rfl⟩
  · rename_i hpre
    have hnq : ∀ u, (b, u) ∉ s.queue := by
      rcases hnq with h1 | h1
      · exact absurd h1 hpre
      · exact h1
    split at h
    · cases h; left; exact quiet_refl s
    · rename_i hb
      split at h
      · cases h; left
        rw [enqueue_new hnq]
        exact ⟨rfl, rfl, fun _ h => h, rfl, Or.inr (Or.inl ⟨b, t, rfl, hpc⟩)⟩
      · rename_i hfree
        cases h; right
        have hq : s.queue = [] := by
          cases hqq : s.queue with
          | nil => rfl
          | cons e q => exact absurd (Or.inl (by simp [hqq])) hfree
        have hlt : ltTot s.borrowers.length s.total = true := by
          cases hl : ltTot s.borrowers.length s.total with
          | true => rfl
          | false => exact absurd (Or.inr hl) hfree
        exact ⟨hq, hq, hlt, rfl, rfl, b, hb, rfl, Or.inr ⟨t, rfl, hpc⟩⟩

theorem acqNowait_cases {s s' : State} {t b : Nat} {o : Out}
    (h : acqNowait s t b = some (s', o)) : Quiet s s' ∨ SelfGrant s s' := by
  unfold acqNowait at h
  split at h; · contradiction
  split at h
  · cases h; left; exact quiet_refl s
  · rename_i hb
    split at h
    · cases h; left; exact quiet_refl s
    · rename_i hfree
      cases h; right
      have hq : s.queue = [] := by
        cases hqq : s.queue with
        | nil => rfl
        | cons e q => exact absurd (Or.inl (by simp [hqq])) hfree
      have hlt : ltTot s.borrowers.length s.total = true := by
        cases hl : ltTot s.borrowers.length s.total with
        | true => rfl
        | false => exact absurd (Or.inr hl) hfree
      exact ⟨hq, hq, hlt, rfl, rfl, b, hb, rfl, Or.inl rfl⟩

theorem rel_cases {s s' : State} {t b : Nat} {o : Out} {e : Ev}
    (h : rel s t b = some (s', o)) : Quiet s s' ∨ WakeStep s s' e := by
  unfold rel at h
  split at h; · contradiction
  split at h
  · cases h; right
    obtain ⟨pre, hw, hl⟩ := notify_woke
      { s with borrowers := s.borrowers.erase b, holders := s.holders.erase b, rels := s.rels + 1 }
    exact ⟨_, pre, hw, rfl, fun _ h => h, fun c hc => List.mem_of_mem_erase hc,
      by simp only; exact List.length_erase_le, Or.inl ⟨rfl, rfl, hl⟩⟩
  · cases h; left; exact quiet_refl s

theorem unreserve_wake {s : State} {t : Nat} {e : Ev} :
    WakeStep s (notify { s with pc := upd s.pc t .idle, resv := unresv t s.resv,
                                borrowers := s.borrowers.erase (s.beh t) }) e := by
  obtain ⟨pre, hw, hl⟩ := notify_woke
    { s with pc := upd s.pc t .idle, resv := unresv t s.resv,
             borrowers := s.borrowers.erase (s.beh t) }
  exact ⟨_, pre, hw, rfl, fun x hx => (mem_unresv.mp hx).1, fun c hc => List.mem_of_mem_erase hc,
    by simp only; exact List.length_erase_le, Or.inl ⟨rfl, rfl, hl⟩⟩

theorem dstep_cases {s s' : State} {e : Ev} {o : Out} (hi : Inv s)
    (hs : dstep s e = some (s', o)) : Quiet s s' ∨ SelfGrant s s' ∨ WakeStep s s' e := by
  unfold dstep at hs
  split at hs
  rotate_left
  · contradiction
  rename_i hok
  simp only [okEv, Bool.and_eq_true] at hok
  obtain ⟨hok1, hok2⟩ := hok
  have lift : ∀ {s'}, Quiet s s' ∨ SelfGrant s s' → Quiet s s' ∨ SelfGrant s s' ∨ WakeStep s s' e :=
    fun h => h.elim Or.inl (fun h => Or.inr (Or.inl h))
  have lift2 : ∀ {s'}, Quiet s s' ∨ WakeStep s s' e → Quiet s s' ∨ SelfGrant s s' ∨ WakeStep s s' e :=
    fun h => h.elim Or.inl (fun h => Or.inr (Or.inr h))
  cases e with
  | acquire t pre => exact lift (acq_cases (oneWaitOk_acq hok1) hs)
  | acquireOnBehalf t b pre => exact lift (acq_cases (oneWaitOk_acq hok1) hs)
  | acquireNowait t => exact lift (acqNowait_cases hs)
  | acquireOnBehalfNowait t b => exact lift (acqNowait_cases hs)
  | release t => exact lift2 (rel_cases hs)
  | releaseOnBehalf t b => exact lift2 (rel_cases hs)
  | setTotal v =>
    simp only [step] at hs
    cases hs
    right; right
    obtain ⟨pre, hw⟩ := wakeAll_woke s.queue.length
      { s with total := v, lowered := s.lowered || !leTot s.borrowers.length v }
    exact ⟨_, pre, hw, rfl, fun _ h => h, fun _ h => h, Nat.le_refl _, Or.inr ⟨v, rfl, rfl, rfl, rfl⟩⟩
  | fc t =>
    simp only [step] at hs
    split at hs
    · cases hs; left; exact ⟨rfl, rfl, fun _ h => h, rfl, Or.inl rfl⟩
    · contradiction
  | mc t =>
    simp only [step] at hs
    split at hs
    all_goals first
      | contradiction
      | (cases hs; left; exact ⟨rfl, rfl, fun _ h => h, rfl, Or.inl rfl⟩)
  | step t =>
    simp only [step] at hs
    split at hs
    · contradiction
    · contradiction
    · cases hs; left; exact quiet_refl s
    · cases hs; left; exact ⟨rfl, rfl, fun _ h => h, rfl, Or.inl rfl⟩
    · cases hs; left; exact ⟨rfl, rfl, fun x hx => (mem_unresv.mp hx).1, rfl, Or.inl rfl⟩
    · rename_i hpc
      have hr : reserving (s.pc t) := by simp [hpc, reserving]
      obtain ⟨_, hbB, _⟩ := resv_facts hi.toInvW hr
      simp only [hbB, if_true] at hs
      cases hs
      right; right; exact unreserve_wake
    · rename_i hpc
      cases hs; left
      exact ⟨rfl, rfl, fun _ h => h, rfl, Or.inr (Or.inr ⟨t, rfl, hpc⟩)⟩
    · cases hs; left; exact ⟨rfl, rfl, fun x hx => (mem_unresv.mp hx).1, rfl, Or.inl rfl⟩
    · rename_i hpc
      have hr : reserving (s.pc t) := by simp [hpc, reserving]
      cases hs
      rw [giveBack_eq hi hr]
      right; right; exact unreserve_wake
    · rename_i hpc
      have hr : reserving (s.pc t) := by simp [hpc, reserving]
      cases hs
      rw [giveBack_eq hi hr]
      right; right; exact unreserve_wake

end AnyioModel.Sync.Limiter
