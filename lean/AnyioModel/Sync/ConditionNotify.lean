/-
Condition model: what `notify(n)` / `notify_all` (`notifyLoop`) and the pass-on do, exactly.
-/
import AnyioModel.Sync.ConditionQueue

namespace AnyioModel.Sync.Condition
open AnyioModel.Sync

theorem setEvent_spec {p : Bool} {u : Nat} {s0 : State} (hq : isQueued (s0.cpc u) = true) :
    ∃ c', isSet c' = true ∧ (c' = .evSet p ∨ c' = .evFCSet p) ∧
      setEvent p u s0 = { s0 with cpc := upd s0.cpc u c', wasSet := upd s0.wasSet u true,
                                  notified := u :: s0.notified } := by
  unfold setEvent
  split
  · exact ⟨_, rfl, Or.inl rfl, rfl⟩
  · exact ⟨_, rfl, Or.inr rfl, rfl⟩
  · rename_i h1 h2
    cases hcu : s0.cpc u <;> simp [hcu, isQueued] at hq h1 h2

theorem setEvent_fields {p : Bool} {u : Nat} {s0 : State} (hq : isQueued (s0.cpc u) = true) :
    (setEvent p u s0).waiters = s0.waiters ∧ (setEvent p u s0).lock = s0.lock ∧
    (setEvent p u s0).ownerTask = s0.ownerTask ∧ (setEvent p u s0).issued = s0.issued ∧
    (setEvent p u s0).consumedDirect = s0.consumedDirect ∧
    (setEvent p u s0).consumedPassed = s0.consumedPassed ∧
    (setEvent p u s0).dropped = s0.dropped ∧
    (setEvent p u s0).notified = u :: s0.notified ∧
    (setEvent p u s0).wasSet = upd s0.wasSet u true ∧
    ∃ c', isSet c' = true ∧ (c' = .evSet p ∨ c' = .evFCSet p) ∧
      (setEvent p u s0).cpc = upd s0.cpc u c' := by
  obtain ⟨c', h1, h2, heq⟩ := setEvent_spec (p := p) hq
  rw [heq]
  exact ⟨rfl, rfl, rfl, rfl, rfl, rfl, rfl, rfl, rfl, c', h1, h2, rfl⟩

/-- the effect of `notifyLoop n` on a state in which the notifier `t` is not a waiter -/
structure NotifySpec (n : Nat) (s s' : State) : Prop where
  waiters : s'.waiters = s.waiters.drop n
  selected : ∀ u ∈ s.waiters.take n, isSet (s'.cpc u) = true ∧ s'.wasSet u = true
  others : ∀ u, u ∉ s.waiters.take n → s'.cpc u = s.cpc u ∧ s'.wasSet u = s.wasSet u
  issued : s'.issued = s.issued + (s.waiters.take n).length
  pending : s'.notified.length = s.notified.length + (s.waiters.take n).length
  cd : s'.consumedDirect = s.consumedDirect
  cp : s'.consumedPassed = s.consumedPassed
  dr : s'.dropped = s.dropped
  lock : s'.lock = s.lock
  owner : s'.ownerTask = s.ownerTask

theorem notifyLoop_spec (t : Nat) (n : Nat) (s : State) (h : InvQx t s) :
    InvQx t (notifyLoop n s) ∧ NotifySpec n s (notifyLoop n s) := by
  induction n generalizing s with
  | zero =>
    refine ⟨h, ?_⟩
    constructor <;> simp [notifyLoop]
  | succ n ih =>
    unfold notifyLoop
    split
    · rename_i hw
      refine ⟨h, ?_⟩
      constructor <;> simp [hw]
    · rename_i u rest hw
      have hut : u ≠ t := by intro h'; subst h'; exact h.t_notq (by simp [hw])
      have huq : isQueued (s.cpc u) = true := (h.queue_iff u hut).mp (by simp [hw])
      have hnd := h.q_nodup
      rw [hw] at hnd
      have hur : u ∉ rest := (List.nodup_cons.mp hnd).1
      have h1 : InvQx t (setEvent false u { s with waiters := rest, issued := s.issued + 1 }) :=
        invQx_popSet h hw rfl rfl rfl rfl
      obtain ⟨f1, f2, f3, f4, f5, f6, f7, f8, f9, c', hc's, _, f10⟩ :=
        setEvent_fields (p := false) (u := u)
          (s0 := { s with waiters := rest, issued := s.issued + 1 }) huq
      simp only at f1 f2 f3 f4 f5 f6 f7 f8 f9 f10
      generalize setEvent false u { s with waiters := rest, issued := s.issued + 1 } = s1 at *
      obtain ⟨hi2, sp⟩ := ih _ h1
      refine ⟨hi2, ?_⟩
      obtain ⟨a1, a2, a3, a4, a5, a6, a7, a8, a9, a10⟩ := sp
      rw [f1] at a1 a2 a3 a4 a5
      have hunt : u ∉ rest.take n := fun hm => hur (List.mem_of_mem_take hm)
      constructor
      · rw [hw]; simp [a1]
      · intro v hv
        rw [hw] at hv
        simp only [List.take_succ_cons, List.mem_cons] at hv
        rcases hv with rfl | hv
        · have := a3 v hunt
          simp [this.1, this.2, f9, f10, hc's]
        · exact a2 v hv
      · intro v hv
        rw [hw] at hv
        simp only [List.take_succ_cons, List.mem_cons, not_or] at hv
        have := a3 v hv.2
        simp [this.1, this.2, f9, f10, hv.1]
      · rw [hw]; simp [a4, f4]; omega
      · rw [hw]; simp [a5, f8]; omega
      · rw [a6, f5]
      · rw [a7, f6]
      · rw [a8, f7]
      · rw [a9, f2]
      · rw [a10, f3]

/-- `passOn` when the queue is non-empty: the head's event is set (with the `passed` tag) -/
theorem passOn_cons {t u : Nat} {rest : List Nat} {s : State} (h : InvQx t s)
    (hw : s.waiters = u :: rest) :
    ∃ c', (c' = .evSet true ∨ c' = .evFCSet true) ∧
      passOn s = { s with waiters := rest, cpc := upd s.cpc u c', wasSet := upd s.wasSet u true,
                          notified := u :: s.notified } := by
  have hut : u ≠ t := by intro h'; subst h'; exact h.t_notq (by simp [hw])
  have huq : isQueued (s.cpc u) = true := (h.queue_iff u hut).mp (by simp [hw])
  obtain ⟨c', _, hc, heq⟩ := setEvent_spec (p := true) (u := u) (s0 := { s with waiters := rest }) huq
  refine ⟨c', hc, ?_⟩
  unfold passOn
  rw [hw]
  simp only
  rw [heq]

theorem passOn_nil {s : State} (hw : s.waiters = []) :
    passOn s = { s with dropped := s.dropped + 1 } := by
  unfold passOn; rw [hw]

end AnyioModel.Sync.Condition
