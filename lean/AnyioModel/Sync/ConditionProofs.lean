/-
Condition model: characterisation of the helper functions and the part of the invariant that
ties the condition's own fields to the embedded Lock (`InvA`).
-/
import AnyioModel.Sync.Condition
import AnyioModel.Sync.LockFrame

namespace AnyioModel.Sync.Condition
open AnyioModel.Sync

/-- everything but `lock`, `ownerTask`, `cpc` is untouched -/
def SameQ (s s' : State) : Prop :=
  s'.waiters = s.waiters ∧ s'.wasSet = s.wasSet ∧ s'.notified = s.notified ∧
  s'.issued = s.issued ∧ s'.consumedDirect = s.consumedDirect ∧
  s'.consumedPassed = s.consumedPassed ∧ s'.dropped = s.dropped

theorem lockResult_cases {s s' : State} {t : Nat} {during : CPc} {onRet o : Out}
    {r : Option (Lock.State × Out)} (h : lockResult s t during onRet r = some (s', o)) :
    ∃ l lo, r = some (l, lo) ∧ s'.lock = l ∧ SameQ s s' ∧
      ((lo = .ret ∧ s'.ownerTask = some t ∧ s'.cpc = upd s.cpc t .none ∧ o = onRet) ∨
       (lo = .susp ∧ s'.ownerTask = s.ownerTask ∧ s'.cpc = upd s.cpc t during ∧ o = .susp) ∨
       (lo ≠ .ret ∧ lo ≠ .susp ∧ s'.ownerTask = s.ownerTask ∧ s'.cpc = upd s.cpc t .none ∧
         o = lo)) := by
  unfold lockResult at h
  split at h
  · contradiction
  · cases h; exact ⟨_, _, rfl, rfl, by simp [SameQ], by simp⟩
  · cases h; exact ⟨_, _, rfl, rfl, by simp [SameQ], by simp⟩
  · rename_i l lo h1 h2
    cases h
    refine ⟨_, _, rfl, rfl, by simp [SameQ], Or.inr (Or.inr ⟨?_, ?_, rfl, rfl, rfl⟩)⟩
    · intro hh; subst hh; exact h1 rfl
    · intro hh; subst hh; exact h2 rfl

/-- the task is inside the underlying `Lock.acquire` -/
def inLock (c : CPc) : Prop := c = .acq ∨ ∃ e, c = .reacq e

structure InvA (s : State) : Prop where
  lockInv : Lock.Inv s.lock
  owner_holds : ∀ t, s.ownerTask = some t ↔ s.lock.holds t = true
  pc_link : ∀ t, s.lock.pc t ≠ .idle ↔ inLock (s.cpc t)

theorem invA_init (f : Bool) : InvA (init f) := by
  refine ⟨Lock.inv_init f, ?_, ?_⟩ <;> simp [init, Lock.init, inLock]

/-- mutual exclusion of the Lock, in the form needed to re-establish `owner_holds` -/
theorem owner_holds_some {l : Lock.State} (hi : Lock.Inv l) {t : Nat} (ht : l.holds t = true) :
    ∀ u, (some t = some u) ↔ l.holds u = true := by
  intro u
  constructor
  · intro h; cases h; exact ht
  · intro hu
    have h1 := (hi.holds_owner t ht).1
    have h2 := (hi.holds_owner u hu).1
    rw [h1] at h2; exact h2

theorem invA_lockResult {s s' : State} {t : Nat} {during : CPc} {onRet o : Out} {e : Lock.Ev}
    (hi : InvA s) (hd : inLock during)
    (hfr : ∀ l lo, Lock.step s.lock e = some (l, lo) →
      Lock.Others s.lock l t ∧
      ((lo = .ret ∧ l.holds t = true ∧ l.pc t = .idle) ∨
       (lo = .susp ∧ l.holds t = s.lock.holds t ∧ l.pc t ≠ .idle) ∨
       (lo ≠ .ret ∧ lo ≠ .susp ∧ l.holds t = s.lock.holds t ∧ l.pc t = .idle)))
    (h : lockResult s t during onRet (Lock.step s.lock e) = some (s', o)) : InvA s' := by
  obtain ⟨l, lo, hr, hl, _, hcase⟩ := lockResult_cases h
  have hli : Lock.Inv l := Lock.inv_step hi.lockInv hr
  obtain ⟨hoth, hact⟩ := hfr l lo hr
  subst hl
  refine ⟨hli, ?_, ?_⟩
  · rcases hcase with ⟨hlo, hown, _, _⟩ | ⟨hlo, hown, _, _⟩ | ⟨hlo1, hlo2, hown, _, _⟩
    · rw [hown]
      have : s'.lock.holds t = true := by grind
      exact owner_holds_some hli this
    · intro u; rw [hown]
      have := hi.owner_holds u
      by_cases hut : u = t
      · subst hut; grind
      · rw [hoth.holds_other u hut]; exact this
    · intro u; rw [hown]
      have := hi.owner_holds u
      by_cases hut : u = t
      · subst hut; grind
      · rw [hoth.holds_other u hut]; exact this
  · intro u
    have hpl := hi.pc_link u
    by_cases hut : u = t
    · subst hut
      rcases hcase with ⟨hlo, _, hc, _⟩ | ⟨hlo, _, hc, _⟩ | ⟨hlo1, hlo2, _, hc, _⟩
      · rw [hc]; simp [inLock]; grind
      · rw [hc]; simp only [upd_same]; grind
      · rw [hc]; simp [inLock]; grind
    · have hio := hoth.idle_other u hut
      have hcu : s'.cpc u = s.cpc u := by
        rcases hcase with ⟨_, _, hc, _⟩ | ⟨_, _, hc, _⟩ | ⟨_, _, _, hc, _⟩ <;> simp [hc, hut]
      rw [hcu]
      constructor
      · intro h; exact hpl.mp (fun h' => h (hio.mpr h'))
      · intro h h'; exact hpl.mpr h (hio.mp h')


/-- `s1` looks the same as `s` as far as `InvA` is concerned -/
def ViewEq (s s1 : State) : Prop :=
  s1.lock = s.lock ∧ s1.ownerTask = s.ownerTask ∧ ∀ t, inLock (s1.cpc t) ↔ inLock (s.cpc t)

theorem ViewEq.refl (s : State) : ViewEq s s := ⟨rfl, rfl, fun _ => Iff.rfl⟩

theorem ViewEq.trans {a b c : State} (h1 : ViewEq a b) (h2 : ViewEq b c) : ViewEq a c :=
  ⟨h2.1.trans h1.1, h2.2.1.trans h1.2.1, fun t => (h2.2.2 t).trans (h1.2.2 t)⟩

theorem invA_of_view {s s1 : State} (hi : InvA s) (h : ViewEq s s1) : InvA s1 := by
  obtain ⟨h1, h2, h3⟩ := h
  refine ⟨h1 ▸ hi.lockInv, ?_, ?_⟩
  · intro t; rw [h1, h2]; exact hi.owner_holds t
  · intro t; rw [h1, h3]; exact hi.pc_link t

theorem view_setEvent (p : Bool) (u : Nat) (s : State) : ViewEq s (setEvent p u s) := by
  unfold setEvent
  split
  · rename_i hc
    refine ⟨rfl, rfl, ?_⟩
    intro t
    by_cases htu : t = u
    · subst htu; simp [inLock, hc]
    · simp [htu]
  · rename_i hc
    refine ⟨rfl, rfl, ?_⟩
    intro t
    by_cases htu : t = u
    · subst htu; simp [inLock, hc]
    · simp [htu]
  · exact ViewEq.refl s

theorem view_notifyLoop (n : Nat) (s : State) : ViewEq s (notifyLoop n s) := by
  induction n generalizing s with
  | zero => exact ViewEq.refl s
  | succ n ih =>
    unfold notifyLoop
    split
    · exact ViewEq.refl s
    · rename_i u rest hw
      refine ViewEq.trans ?_ (ih _)
      exact ViewEq.trans (a := s) (b := { s with waiters := rest, issued := s.issued + 1 })
        ⟨rfl, rfl, fun _ => Iff.rfl⟩ (view_setEvent _ _ _)

theorem view_passOn (s : State) : ViewEq s (passOn s) := by
  unfold passOn
  split
  · exact ⟨rfl, rfl, fun _ => Iff.rfl⟩
  · rename_i u rest hw
    exact ViewEq.trans (b := { s with waiters := rest }) ⟨rfl, rfl, fun _ => Iff.rfl⟩
      (view_setEvent _ _ _)

theorem invA_reacquire {s s' : State} {t : Nat} {exc : Bool} {o : Out} (hi : InvA s)
    (h : reacquire t exc s = some (s', o)) : InvA s' := by
  unfold reacquire at h
  refine invA_lockResult hi (Or.inr ⟨exc, rfl⟩) ?_ h
  intro l lo hr
  obtain ⟨hpc, hoth, hact⟩ := Lock.frame_acquire hr
  refine ⟨hoth, ?_⟩
  rcases hact with h1 | h1 | ⟨h1, h2⟩
  · exact Or.inl h1
  · exact Or.inr (Or.inl h1)
  · subst h2; exact Or.inr (Or.inr ⟨by simp [h1], by simp [h1], rfl, hpc⟩)

/-- `release()` of the underlying lock succeeded for `t` -/
theorem invA_released {s s' : State} {t : Nat} {l : Lock.State} {o : Out} (hi : InvA s)
    (hr : Lock.step s.lock (.release t) = some (l, o)) (ho : o = .ret)
    (hl : s'.lock = l) (hown : s'.ownerTask = none)
    (hc : ∀ u, inLock (s'.cpc u) ↔ inLock (s.cpc u)) : InvA s' := by
  have hli : Lock.Inv l := Lock.inv_step hi.lockInv hr
  obtain ⟨hpc, hcase⟩ := Lock.frame_release hi.lockInv hr
  rcases hcase with ⟨_, howner, hh, hp, hoth⟩ | ⟨h1, _⟩
  · subst hl
    refine ⟨hli, ?_, ?_⟩
    · intro u; rw [hown]
      simp only [reduceCtorEq, false_iff, Bool.not_eq_true]
      by_cases hut : u = t
      · subst hut; exact hh
      · rw [hoth.holds_other u hut]
        cases hhu : s.lock.holds u with
        | false => rfl
        | true =>
          have := (hi.lockInv.holds_owner u hhu).1
          rw [howner] at this; cases this; exact absurd rfl hut
    · intro u; rw [hc u]
      by_cases hut : u = t
      · subst hut
        have := hi.pc_link u
        constructor
        · intro h; exact absurd hp h
        · intro h; exact absurd hpc (this.mpr h)
      · have hio := hoth.idle_other u hut
        have := hi.pc_link u
        constructor
        · intro h; exact this.mp (fun h' => h (hio.mpr h'))
        · intro h h'; exact this.mpr h (hio.mp h')
  · rw [ho] at h1; cases h1

theorem invA_step {s s' : State} {e : Ev} {o : Out} (hi : InvA s) (hs : step s e = some (s', o)) :
    InvA s' := by
  cases e with
  | acquire t pre =>
    simp only [step] at hs
    split at hs; · contradiction
    refine invA_lockResult hi (Or.inl rfl) ?_ hs
    intro l lo hr
    obtain ⟨hpc, hoth, hact⟩ := Lock.frame_acquire hr
    refine ⟨hoth, ?_⟩
    rcases hact with h1 | h1 | ⟨h1, h2⟩
    · exact Or.inl h1
    · exact Or.inr (Or.inl h1)
    · subst h2; exact Or.inr (Or.inr ⟨by simp [h1], by simp [h1], rfl, hpc⟩)
  | acquireNowait t =>
    simp only [step] at hs
    split at hs; · contradiction
    refine invA_lockResult hi (Or.inl rfl) ?_ hs
    intro l lo hr
    obtain ⟨hpc, hoth, hact⟩ := Lock.frame_acquireNowait hr
    refine ⟨hoth, ?_⟩
    rcases hact with h1 | ⟨h1, h2⟩
    · exact Or.inl h1
    · subst h2
      refine Or.inr (Or.inr ⟨?_, ?_, rfl, hpc⟩) <;> rcases h1 with h1 | h1 <;> simp [h1]
  | release t =>
    simp only [step] at hs
    split at hs; · contradiction
    split at hs
    · contradiction
    · rename_i l hr
      cases hs
      exact invA_released hi hr rfl rfl rfl (fun _ => Iff.rfl)
    · rename_i l lo hne hr
      cases hs
      obtain ⟨_, hcase⟩ := Lock.frame_release hi.lockInv hr
      rcases hcase with ⟨h1, _⟩ | ⟨_, _, h3⟩
      · subst h1; exact (hne rfl).elim
      · subst h3; exact hi
  | wait t pre =>
    simp only [step] at hs
    split at hs; · contradiction
    rename_i hc; simp only [ne_eq, Decidable.not_not] at hc
    split at hs
    · cases hs
      refine invA_of_view hi ⟨rfl, rfl, ?_⟩
      intro u
      by_cases hut : u = t
      · subst hut; simp [inLock, hc]
      · simp [hut]
    · unfold waitBody at hs
      split at hs
      · cases hs; exact hi
      · simp only at hs
        split at hs
        · contradiction
        · rename_i l hr
          cases hs
          refine invA_released hi hr rfl rfl rfl ?_
          intro u
          by_cases hut : u = t
          · subst hut; simp [inLock, hc]
          · simp [hut]
        · rename_i l lo hne hr
          cases hs
          obtain ⟨_, hcase⟩ := Lock.frame_release hi.lockInv hr
          rcases hcase with ⟨h1, _⟩ | ⟨_, _, h3⟩
          · subst h1; exact (hne rfl).elim
          · subst h3; exact invA_of_view hi ⟨rfl, rfl, fun _ => Iff.rfl⟩
  | notify t n =>
    simp only [step] at hs
    split at hs; · contradiction
    split at hs
    · cases hs; exact hi
    · cases hs; exact invA_of_view hi (view_notifyLoop _ _)
  | notifyAll t =>
    simp only [step] at hs
    split at hs; · contradiction
    split at hs
    · cases hs; exact hi
    · cases hs; exact invA_of_view hi (view_notifyLoop _ _)
  | fc t =>
    simp only [step] at hs
    split at hs
    · rename_i hc
      cases hs
      refine invA_of_view hi ⟨rfl, rfl, ?_⟩
      intro u
      by_cases hut : u = t
      · subst hut; simp [inLock, hc]
      · simp [hut]
    all_goals first
      | contradiction
      | (rename_i hc
         split at hs
         · rename_i l lo hr
           cases hs
           obtain ⟨hh, hp1, hp2, hp3, _⟩ := Lock.frame_fc hr
           refine ⟨Lock.inv_step hi.lockInv hr, ?_, ?_⟩
           · intro u; rw [hh]; exact hi.owner_holds u
           · intro u
             have := hi.pc_link u
             by_cases hut : u = t
             · subst hut; simp only; grind
             · simp only; rw [hp3 u hut]; exact this
         · contradiction)
  | mc t =>
    simp only [step] at hs
    split at hs
    · rename_i hc
      cases hs
      refine invA_of_view hi ⟨rfl, rfl, ?_⟩
      intro u
      by_cases hut : u = t
      · subst hut; simp [inLock, hc]
      · simp [hut]
    · rename_i p hc
      cases hs
      refine invA_of_view hi ⟨rfl, rfl, ?_⟩
      intro u
      by_cases hut : u = t
      · subst hut; simp [inLock, hc]
      · simp [hut]
    all_goals first
      | contradiction
      | (rename_i hc
         split at hs
         · rename_i l lo hr
           cases hs
           obtain ⟨hh, hp1, hp2, hp3, _⟩ := Lock.frame_mc hr
           refine ⟨Lock.inv_step hi.lockInv hr, ?_, ?_⟩
           · intro u; rw [hh]; exact hi.owner_holds u
           · intro u
             have := hi.pc_link u
             by_cases hut : u = t
             · subst hut; simp only; grind
             · simp only; rw [hp3 u hut]; exact this
         · contradiction)
  | step t =>
    have hstep : ∀ during, inLock during → ∀ onRet,
        lockResult s t during onRet (Lock.step s.lock (.step t)) = some (s', o) → InvA s' := by
      intro during hd onRet h
      refine invA_lockResult hi hd ?_ h
      intro l lo hr
      obtain ⟨hpc, hoth, hact⟩ := Lock.frame_step hi.lockInv hr
      refine ⟨hoth, ?_⟩
      rcases hact with h1 | ⟨h1, h2, h3⟩ | ⟨h1, h2⟩
      · exact Or.inl h1
      · exact Or.inr (Or.inr ⟨by simp [h1], by simp [h1], h2, h3⟩)
      · subst h2; exact Or.inr (Or.inl ⟨h1, rfl, hpc⟩)
    simp only [step] at hs
    split at hs
    · contradiction
    · contradiction
    · cases hs; exact hi
    · rename_i hc
      cases hs
      refine invA_of_view hi ⟨rfl, rfl, ?_⟩
      intro u
      by_cases hut : u = t
      · subst hut; simp [inLock, hc]
      · simp [hut]
    · exact hstep _ (Or.inl rfl) _ hs
    · exact hstep _ (Or.inr ⟨_, rfl⟩) _ hs
    · refine invA_reacquire ?_ hs
      exact invA_of_view hi ⟨rfl, rfl, fun _ => Iff.rfl⟩
    · refine invA_reacquire ?_ hs
      exact invA_of_view hi ⟨rfl, rfl, fun _ => Iff.rfl⟩
    · refine invA_reacquire ?_ hs
      refine invA_of_view hi ?_
      exact ViewEq.trans (b := { s with notified := s.notified.erase t })
        ⟨rfl, rfl, fun _ => Iff.rfl⟩ (view_passOn _)
    · refine invA_reacquire ?_ hs
      refine invA_of_view hi ?_
      exact ViewEq.trans (b := { s with notified := s.notified.erase t })
        ⟨rfl, rfl, fun _ => Iff.rfl⟩ (view_passOn _)

end AnyioModel.Sync.Condition
