/-
History ghosts for the CapacityLimiter model: the order in which `(borrower, task)` entries entered
the wait queue (`enq`) and the order in which queue entries were notified (`woken`: their event was
set and a token reserved - by `release`, by a cancelled waiter giving its token back, or by the
`total_tokens` setter), each read off what a (disciplined) step did, and the invariant
`woken ++ queue <+ enq`.  Built on `dstep_cases` (`Sync/LimiterShape.lean`).  Used by
`Props/C10fifo.lean`.
-/
import AnyioModel.Sync.LimiterShape

namespace AnyioModel.Sync.Limiter

def isResv : Pc → Bool
  | .fastYield | .fastYieldMC | .granted | .grantedMC | .grantedFC => true
  | _ => false

theorem isResv_iff {p : Pc} : isResv p = true ↔ reserving p := by
  cases p <;> simp [isResv, reserving]

structure QLog where
  enq   : List (Nat × Nat) := []
  woken : List (Nat × Nat) := []

/-- entries that are in the queue after the step and were not before -/
def entered (s s' : State) : List (Nat × Nat) := s'.queue.filter (fun x => !(s.queue.contains x))

/-- queue entries whose task holds a reservation after the step (its event was set), in queue order -/
def wokenNow (s s' : State) : List (Nat × Nat) := s.queue.filter (fun x => isResv (s'.pc x.2))

def qlogStep (s : State) (l : QLog) (s' : State) : QLog :=
  { enq := l.enq ++ entered s s', woken := l.woken ++ wokenNow s s' }

def runQLog : State → QLog → List Ev → Option (State × QLog)
  | s, l, [] => some (s, l)
  | s, l, e :: es =>
    match dstep s e with
    | none => none
    | some (s', _) => runQLog s' (qlogStep s l s') es

def QInv (s : State) (l : QLog) : Prop := (l.woken ++ s.queue).Sublist l.enq

theorem entered_nil_of_subset {s s' : State} (h : ∀ x ∈ s'.queue, x ∈ s.queue) : entered s s' = [] := by
  unfold entered
  rw [List.filter_eq_nil_iff]
  intro x hx
  simp [h x hx]

theorem wokenNow_nil {s s' : State} (h : ∀ x ∈ s.queue, ¬ reserving (s'.pc x.2)) : wokenNow s s' = [] := by
  unfold wokenNow
  rw [List.filter_eq_nil_iff]
  intro x hx
  have := h x hx
  rw [← isResv_iff] at this
  simpa using this

theorem qinv_step {s s' : State} {l : QLog} {e : Ev} {o : Out} (hi : Inv s) (hl : QInv s l)
    (hs : dstep s e = some (s', o)) : QInv s' (qlogStep s l s') := by
  have hi' := inv_step hi hs
  unfold QInv at *
  rcases dstep_cases hi hs with hq | hg | ⟨s1, pre, hw, hq1, _, _, _, _⟩
  · -- quiet: nobody is notified
    obtain ⟨_, _, hres, _, hqq⟩ := hq
    have hwn : wokenNow s s' = [] := by
      apply wokenNow_nil
      intro x hx hr
      have h1 := hi'.pc_r x.2 hr
      have h2 := (hi.r_pc _ _ (hres _ h1)).2
      exact not_queued_reserving (hi.q_pc x.1 x.2 hx).2 h2
    rcases hqq with hqq | ⟨b, t, hqq, hpc⟩ | ⟨t, hqq, _⟩
    · have : entered s s' = [] := entered_nil_of_subset (fun x hx => hqq ▸ hx)
      simpa [qlogStep, hwn, this, hqq] using hl
    · have hnew : (b, t) ∉ s.queue := by
        intro hm; have := (hi.q_pc b t hm).2; simp [queued, hpc] at this
      have : entered s s' = [(b, t)] := by
        unfold entered
        rw [hqq, List.filter_append]
        have h1 : s.queue.filter (fun x => !(s.queue.contains x)) = [] := by
          rw [List.filter_eq_nil_iff]; intro x hx; simp [hx]
        rw [h1]
        simp [hnew]
      simp only [qlogStep, hwn, this, hqq, List.append_nil, ← List.append_assoc]
      exact List.Sublist.append hl (List.Sublist.refl _)
    · have : entered s s' = [] := entered_nil_of_subset (fun x hx => by
        rw [hqq] at hx; exact (mem_dequeue.mp hx).1)
      simp only [qlogStep, hwn, this, hqq, List.append_nil]
      refine List.Sublist.trans (List.Sublist.append (List.Sublist.refl _) ?_) hl
      unfold dequeue
      exact List.filter_sublist
  · -- the caller takes a token itself: the queue is and stays empty
    obtain ⟨hq0, hq0', _⟩ := hg
    have h1 : entered s s' = [] := by unfold entered; rw [hq0']; rfl
    have h2 : wokenNow s s' = [] := by unfold wokenNow; rw [hq0]; rfl
    simpa [qlogStep, h1, h2, hq0, hq0'] using hl
  · -- a prefix of the queue is notified
    have hqs : s.queue = pre ++ s'.queue := by rw [← hq1, hw.queue]
    have h1 : entered s s' = [] :=
      entered_nil_of_subset (fun x hx => by rw [hqs]; exact List.mem_append_right _ hx)
    have h2 : wokenNow s s' = pre := by
      unfold wokenNow
      rw [hqs, List.filter_append]
      have ha : pre.filter (fun x => isResv (s'.pc x.2)) = pre := by
        rw [List.filter_eq_self]
        intro x hx
        rw [isResv_iff]
        have : x ∈ s'.resv := by
          rw [hw.resv]; exact List.mem_append_left _ (List.mem_reverse.mpr hx)
        exact (hi'.r_pc x.1 x.2 this).2
      have hb : s'.queue.filter (fun x => isResv (s'.pc x.2)) = [] := by
        rw [List.filter_eq_nil_iff]
        intro x hx
        have := not_queued_reserving (hi'.q_pc x.1 x.2 hx).2
        rw [← isResv_iff] at this
        simpa using this
      rw [ha, hb, List.append_nil]
    simp only [qlogStep, h1, h2, List.append_nil, List.append_assoc]
    rw [← hqs]
    exact hl

theorem qinv_init {s : State} (h : IsInit s) : QInv s {} := by
  obtain ⟨v, rfl⟩ := h
  simp [QInv, init]

theorem qinv_run {s s' : State} {l l' : QLog} (es : List Ev) (hi : Inv s) (hl : QInv s l)
    (h : runQLog s l es = some (s', l')) : Inv s' ∧ QInv s' l' := by
  induction es generalizing s l with
  | nil => simp only [runQLog, Option.some.injEq, Prod.mk.injEq] at h; obtain ⟨rfl, rfl⟩ := h; exact ⟨hi, hl⟩
  | cons e es ih =>
    simp only [runQLog] at h
    split at h
    · contradiction
    · rename_i s1 o hs
      exact ih (inv_step hi hs) (qinv_step hi hl hs) h

end AnyioModel.Sync.Limiter
