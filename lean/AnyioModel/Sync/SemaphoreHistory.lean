/-
History ghosts for the Semaphore model (same construction as `Sync/LockHistory.lean`): who started waiting, who was handed a permit by a
`release()`, whose waiter future was cancelled - each computed from what a step *did*
(`step s e = some (s', _)`), not from a copy of the guards of `step` - and the invariant
tying the three logs to the queue.  Used by `Props/C10fifo.lean`.
-/
import AnyioModel.Sync.SemaphoreProofs

namespace AnyioModel.Sync.Semaphore

structure Log where
  enq       : List Nat := []
  granted   : List Nat := []
  cancelled : List Nat := []

/-- `acquire()` by `t` ended queued (`t` is now blocked on a waiter future) -/
def startedWaiting (s' : State) : Ev → Option Nat
  | .acquire t _ => if s'.pc t = .waiting then some t else none
  | _ => none

/-- queued tasks whose future is still pending, in queue order -/
def live (ws : List (Nat × Bool)) : List Nat := (ws.filter (fun w => !w.2)).map Prod.fst

/-- this step resolved the future of a queued task `u` (the first queued task with a pending future
whose future is now resolved; a step resolves at most one) -/
def handedTo (s s' : State) : Option Nat :=
  (live s.waiters).find? (fun u => s'.pc u = .granted)

/-- the waiter future of `t` was cancelled (the event is enabled only while `t` is queued) -/
def futureCancelled : Ev → Option Nat
  | .fc t => some t
  | _ => none

def logStep (s : State) (l : Log) (e : Ev) (s' : State) : Log :=
  { enq := l.enq ++ (startedWaiting s' e).toList
    granted := l.granted ++ (handedTo s s').toList
    cancelled := l.cancelled ++ (futureCancelled e).toList }

/-- run an event list, keeping the logs -/
def runLog : State → Log → List Ev → Option (State × Log)
  | s, l, [] => some (s, l)
  | s, l, e :: es =>
    match step s e with
    | none => none
    | some (s', _) => runLog s' (logStep s l e s') es

structure LInv (s : State) (l : Log) : Prop where
  order : (l.granted ++ s.waiters.map Prod.fst).Sublist l.enq
  acct : ∀ x, l.enq.count x = l.granted.count x + l.cancelled.count x + (live s.waiters).count x

/-! ### list facts -/

theorem live_append (a b : List (Nat × Bool)) : live (a ++ b) = live a ++ live b := by
  simp [live]

theorem live_all_cancelled {ws : List (Nat × Bool)} (h : ∀ w ∈ ws, w.2 = true) : live ws = [] := by
  simp only [live, List.map_eq_nil_iff, List.filter_eq_nil_iff]
  intro w hw; simp [h w hw]

theorem live_removeWaiter {t : Nat} {ws : List (Nat × Bool)} (h : ∀ c, (t, c) ∈ ws → c = true) :
    live (removeWaiter t ws) = live ws := by
  unfold live removeWaiter
  rw [List.filter_filter]
  congr 1
  apply List.filter_congr
  intro w hw
  obtain ⟨a, b⟩ := w
  by_cases hat : a = t
  · subst hat
    have := h b hw
    simp [this]
  · simp [hat]

theorem markCancelled_not_mem {t : Nat} {ws : List (Nat × Bool)} (h : t ∉ ws.map Prod.fst) :
    markCancelled t ws = ws := by
  induction ws with
  | nil => rfl
  | cons w ws ih =>
    simp only [List.map_cons, List.mem_cons, not_or] at h
    have := ih h.2
    simp only [markCancelled] at this ⊢
    simp [this, Ne.symm h.1]

theorem count_live_markCancelled {t : Nat} {ws : List (Nat × Bool)} (hm : (t, false) ∈ ws)
    (hnd : (ws.map Prod.fst).Nodup) (x : Nat) :
    (live ws).count x = (live (markCancelled t ws)).count x + (if x = t then 1 else 0) := by
  induction ws with
  | nil => simp at hm
  | cons w ws ih =>
    obtain ⟨a, b⟩ := w
    simp only [List.map_cons, List.nodup_cons] at hnd
    by_cases hat : a = t
    · subst hat
      have hb : b = false := by
        rcases List.mem_cons.mp hm with h | h
        · simpa using (Prod.mk.inj h).2.symm
        · exact absurd (List.mem_map.mpr ⟨(a, false), h, rfl⟩) hnd.1
      subst hb
      have hrest := markCancelled_not_mem hnd.1
      simp only [markCancelled] at hrest
      simp only [live, markCancelled, List.map_cons, hrest]
      by_cases hx : x = a <;> simp [hx, List.count_cons] <;> omega
    · have hm' : (t, false) ∈ ws := by
        rcases List.mem_cons.mp hm with h | h
        · exact absurd (Prod.mk.inj h).1.symm hat
        · exact h
      have := ih hm' hnd.2
      simp only [live, markCancelled] at this ⊢
      cases b <;> simp [hat, List.count_cons, this] <;> omega

/-! ### what one step does to the queue and the logs -/

theorem mem_live {u : Nat} {ws : List (Nat × Bool)} : u ∈ live ws ↔ (u, false) ∈ ws := by
  simp only [live, List.mem_map, List.mem_filter, Prod.exists]
  constructor
  · rintro ⟨a, b, ⟨hm, hb⟩, rfl⟩
    cases b <;> simp_all
  · intro h; exact ⟨u, false, ⟨h, by simp⟩, rfl⟩

theorem handedTo_none {s s' : State} (hi : Struct s)
    (h : ∀ u, s.pc u = .waiting → s'.pc u ≠ .granted) : handedTo s s' = none := by
  unfold handedTo
  rw [List.find?_eq_none]
  intro u hu
  have := hi.waiter_pc u false (mem_live.mp hu)
  have hw : s.pc u = .waiting := by grind
  simpa using h u hw

/-- the six things a step can do to the queue -/
inductive Shape (s : State) (e : Ev) (s' : State) : Prop
  | same : s'.waiters = s.waiters → startedWaiting s' e = none → handedTo s s' = none →
      futureCancelled e = none → Shape s e s'
  | enq (t : Nat) : s'.waiters = s.waiters ++ [(t, false)] → startedWaiting s' e = some t →
      handedTo s s' = none → futureCancelled e = none → Shape s e s'
  | fc (t : Nat) : (t, false) ∈ s.waiters → s'.waiters = markCancelled t s.waiters →
      startedWaiting s' e = none → handedTo s s' = none → futureCancelled e = some t → Shape s e s'
  | leave (t : Nat) : (∀ c, (t, c) ∈ s.waiters → c = true) → s'.waiters = removeWaiter t s.waiters →
      startedWaiting s' e = none → handedTo s s' = none → futureCancelled e = none → Shape s e s'
  | hand (u : Nat) (pre rest : List (Nat × Bool)) : s.waiters = pre ++ (u, false) :: rest →
      (∀ w ∈ pre, w.2 = true) → s'.waiters = rest → startedWaiting s' e = none →
      handedTo s s' = some u → futureCancelled e = none → Shape s e s'
  | drop : (∀ w ∈ s.waiters, w.2 = true) → s'.waiters = [] → startedWaiting s' e = none →
      handedTo s s' = none → futureCancelled e = none → Shape s e s'

/-- `release()`'s body run on `s0` (= `s` up to the program counter of the releasing task and the
ghost fields), result `s1`; `s'` = `s1` up to ghost fields -/
theorem shape_doRelease {s s0 s1 s' : State} {e : Ev} (hi : Struct s) (hw : s0.waiters = s.waiters)
    (hpc : ∀ u, s.pc u = .waiting → s0.pc u ≠ .granted) (hd : doRelease s0 = some s1)
    (hw' : s'.waiters = s1.waiters) (hpc' : s'.pc = s1.pc)
    (he1 : ∀ s', startedWaiting s' e = none) (he2 : futureCancelled e = none) :
    Shape s e s' := by
  unfold doRelease at hd
  split at hd; · contradiction
  split at hd
  · rename_i u rest hg
    cases hd
    rw [hw] at hg
    obtain ⟨pre, hws, hpre⟩ := grant_some hg
    refine .hand u pre rest hws hpre (by simpa using hw') (he1 _) ?_ he2
    unfold handedTo
    rw [hws, live_append, live_all_cancelled hpre]
    simp [live, hpc']
  · rename_i hg
    cases hd
    rw [hw] at hg
    refine .drop (grant_none hg) (by simpa using hw') (he1 _) (handedTo_none hi ?_) he2
    intro u hu; rw [hpc']; exact hpc u hu

theorem shape_giveBack {s : State} {t : Nat} {e : Ev} (hi : Struct s) (ht : s.pc t ≠ .waiting)
    (he1 : ∀ s', startedWaiting s' e = none) (he2 : futureCancelled e = none) :
    Shape s e (giveBack s t).1 := by
  have hpc : ∀ u, s.pc u = .waiting → (upd s.pc t .idle) u ≠ .granted := by
    intro u hu; simp only [upd_apply]; split <;> simp_all
  unfold giveBack
  dsimp only
  cases hd : doRelease { s with pc := upd s.pc t .idle, infl := s.infl.erase t } with
  | some s2 =>
    exact shape_doRelease (s0 := { s with pc := upd s.pc t .idle, infl := s.infl.erase t }) hi rfl hpc hd
      rfl rfl he1 he2
  | none => exact .same rfl (he1 _) (handedTo_none hi hpc) he2

theorem shape_step {s s' : State} {e : Ev} {o : Out} (hi : Struct s) (hs : step s e = some (s', o)) :
    Shape s e s' := by
  cases e with
  | acquire t pre =>
    simp only [step] at hs
    split at hs; · contradiction
    rename_i hpc; simp only [ne_eq, Decidable.not_not] at hpc
    split at hs
    · split at hs
      · cases hs
        refine .same rfl (by simp [startedWaiting]) (handedTo_none hi ?_) rfl
        intro u hu; simp only [upd_apply]; split <;> simp_all
      · split at hs
        · cases hs
          exact .same rfl (by simp [startedWaiting, hpc]) (handedTo_none hi (by intro u hu; simp [hu])) rfl
        · cases hs
          refine .same rfl (by simp [startedWaiting]) (handedTo_none hi ?_) rfl
          intro u hu; simp only [upd_apply]; split <;> simp_all
    · cases hs
      refine .enq t rfl (by simp [startedWaiting]) (handedTo_none hi ?_) rfl
      intro u hu; simp only [upd_apply]; split <;> simp_all
  | acquireNowait t =>
    simp only [step] at hs
    split at hs; · contradiction
    split at hs <;> (cases hs; exact .same rfl rfl (handedTo_none hi (by intro u hu; simp [hu])) rfl)
  | release t =>
    simp only [step] at hs
    split at hs; · contradiction
    split at hs
    · cases hs
      exact .same rfl rfl (handedTo_none hi (by intro u hu; simp [hu])) rfl
    · rename_i s1 hd
      split at hs <;>
        (cases hs
         exact shape_doRelease hi rfl (by intro u hu; simp [hu]) hd rfl rfl (fun _ => rfl) rfl)
  | fc t =>
    simp only [step] at hs
    split at hs
    · rename_i hpc
      cases hs
      refine .fc t (hi.waiting_queued t hpc) rfl rfl (handedTo_none hi ?_) rfl
      intro u hu; simp only [upd_apply]; split <;> simp_all
    · contradiction
  | mc t =>
    simp only [step] at hs
    split at hs <;> first
      | contradiction
      | (cases hs
         refine .same rfl rfl (handedTo_none hi ?_) rfl
         intro u hu; simp only [upd_apply]; split <;> simp_all)
  | step t =>
    simp only [step] at hs
    split at hs
    · contradiction
    · contradiction
    · cases hs
      exact .same rfl rfl (handedTo_none hi (by intro u hu; simp [hu])) rfl
    · cases hs
      refine .same rfl rfl (handedTo_none hi ?_) rfl
      intro u hu; simp only [upd_apply]; split <;> simp_all
    · cases hs
      refine .same rfl rfl (handedTo_none hi ?_) rfl
      intro u hu; simp only [upd_apply]; split <;> simp_all
    · rename_i hpc
      have h1 : (giveBack s t).1 = s' := by simp only [Option.some.injEq] at hs; rw [hs]
      rw [← h1]
      exact shape_giveBack hi (by simp [hpc]) (fun _ => rfl) rfl
    · rename_i hpc
      cases hs
      refine .leave t ?_ rfl rfl (handedTo_none hi ?_) rfl
      · intro c hc
        have := hi.waiter_pc t c hc
        simp_all
      · intro u hu; simp only [upd_apply]; split <;> simp_all
    · cases hs
      refine .same rfl rfl (handedTo_none hi ?_) rfl
      intro u hu; simp only [upd_apply]; split <;> simp_all
    · rename_i hpc
      have h1 : (giveBack s t).1 = s' := by simp only [Option.some.injEq] at hs; rw [hs]
      rw [← h1]
      exact shape_giveBack hi (by simp [hpc]) (fun _ => rfl) rfl

/-! ### the log invariant -/

theorem linv_init (f : Bool) (v : Nat) (m : Option Nat) : LInv (init f v m) {} := by
  constructor <;> simp [init, live]

theorem linv_step {s s' : State} {l : Log} {e : Ev} {o : Out} (hi : Struct s) (hl : LInv s l)
    (hs : step s e = some (s', o)) : LInv s' (logStep s l e s') := by
  obtain ⟨ho, ha⟩ := hl
  have hsh := shape_step hi hs
  cases hsh with
  | same hw h1 h2 h3 =>
    constructor
    · simpa [logStep, h1, h2, h3, hw] using ho
    · intro x; simpa [logStep, h1, h2, h3, hw] using ha x
  | enq t hw h1 h2 h3 =>
    constructor
    · simp only [logStep, h1, h2, h3, hw, Option.toList, List.append_nil, List.map_append,
        List.map_cons, List.map_nil, ← List.append_assoc]
      exact List.Sublist.append ho (List.Sublist.refl _)
    · intro x
      have := ha x
      simp only [logStep, h1, h2, h3, hw, Option.toList, List.append_nil, live_append,
        List.count_append]
      simp only [live, List.filter_cons, Bool.not_false, if_true, List.filter_nil, List.map_cons,
        List.map_nil]
      simp only [live] at this
      omega
  | fc t hm hw h1 h2 h3 =>
    constructor
    · simpa [logStep, h1, h2, h3, hw, map_fst_markCancelled] using ho
    · intro x
      have := ha x
      have hc := count_live_markCancelled hm hi.nodup x
      simp only [logStep, h1, h2, h3, hw, Option.toList, List.append_nil, List.count_append,
        List.count_cons, List.count_nil]
      by_cases hx : x = t
      · subst hx; simp at hc ⊢; omega
      · have hx' : ¬ (t == x) = true := by simpa using Ne.symm hx
        simp [hx] at hc; simp [hx']; omega
  | leave t hc hw h1 h2 h3 =>
    constructor
    · simp only [logStep, h1, h2, h3, hw, Option.toList, List.append_nil]
      refine List.Sublist.trans ?_ ho
      refine List.Sublist.append (List.Sublist.refl _) ?_
      exact List.Sublist.map _ (by simp [removeWaiter])
    · intro x
      simpa [logStep, h1, h2, h3, hw, live_removeWaiter hc] using ha x
  | hand u pre rest hws hpre hw h1 h2 h3 =>
    constructor
    · simp only [logStep, h1, h2, h3, hw, Option.toList, List.append_nil]
      refine List.Sublist.trans ?_ ho
      rw [hws, List.append_assoc]
      refine List.Sublist.append (List.Sublist.refl _) ?_
      simp only [List.map_append, List.map_cons, List.singleton_append]
      exact List.sublist_append_right _ _
    · intro x
      have := ha x
      rw [hws, live_append, live_all_cancelled hpre] at this
      simp only [logStep, h1, h2, h3, hw, Option.toList, List.append_nil, List.count_append]
      simp only [live, List.filter_cons, Bool.not_false, if_true, List.map_cons, List.nil_append,
        List.count_cons] at this
      simp only [live, List.count_cons, List.count_nil]
      omega
  | drop hall hw h1 h2 h3 =>
    constructor
    · simp only [logStep, h1, h2, h3, hw, Option.toList, List.append_nil, List.map_nil]
      exact List.Sublist.trans (List.sublist_append_left _ _) ho
    · intro x
      have := ha x
      rw [live_all_cancelled hall] at this
      simpa [logStep, h1, h2, h3, hw, live] using this

theorem linv_runLog {s s' : State} {l l' : Log} (es : List Ev) (hi : Inv s) (hl : LInv s l)
    (h : runLog s l es = some (s', l')) : Inv s' ∧ LInv s' l' := by
  induction es generalizing s l with
  | nil => simp only [runLog, Option.some.injEq, Prod.mk.injEq] at h; obtain ⟨rfl, rfl⟩ := h; exact ⟨hi, hl⟩
  | cons e es ih =>
    simp only [runLog] at h
    split at h
    · contradiction
    · rename_i s1 o hs
      exact ih (inv_step hi hs) (linv_step hi.toStruct hl hs) h

end AnyioModel.Sync.Semaphore
