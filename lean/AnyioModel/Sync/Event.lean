/-
Model of `anyio._backends._asyncio.Event` (src/anyio/_backends/_asyncio.py, class Event), a thin
wrapper over `asyncio.Event` (CPython 3.12 `asyncio/locks.py`), cut at its awaits.

```
    def set(self):                      # asyncio.Event.set
        if not self._value:
            self._value = True
            for fut in self._waiters:
                if not fut.done():
                    fut.set_result(True)

    async def wait(self):               # anyio wrapper
        if self.is_set():
            await AsyncIOBackend.checkpoint()      # bare sleep(0)
        else:
            await self._event.wait()               # fut = create_future(); _waiters.append(fut)
                                                   # try: await fut  finally: _waiters.remove(fut)
```

Shared state: the flag `_value` and the deque `_waiters`.  Each waiter's future is represented by
the waiting task's program counter: `waiting` = pending, `waitFC` = cancelled, `woken` = result set.
A future stays in `_waiters` until its task's wake-up segment removes it (this is what
`statistics().tasks_waiting` counts).

Events:
* `wait t pre`: task `t` (not inside an Event operation) calls `wait()`.  `pre` (the caller's scope
  is already cancelled) is carried for uniformity of the protocol only: `Event.wait` has no
  `checkpoint_if_cancelled`, the pending cancellation arrives as `fc`/`mc` like any other.
* `set`: somebody calls `set()` (synchronous, any caller).
* `step t`: the loop resumes `t`.
* `fc t`: `t`'s pending future is cancelled.  `mc t`: `Task._must_cancel` is set on `t` while it has
  no pending future to cancel (in the bare `sleep(0)` of the set-path, or between `set()` and its
  wake-up: a native `Task.cancel()`).  A waiter released by `set()` whose wake-up is hit by `mc`
  resumes with `CancelledError` thrown into `await fut`, so `wait()` raises; without `mc` it
  returns normally.
-/
import AnyioModel.Util.LTS

namespace AnyioModel.Sync.Event

inductive Pc where
  | idle        -- not inside wait()
  | yielding    -- flag was set on entry: inside checkpoint()'s sleep(0)
  | yieldingMC  -- same, `_must_cancel` set
  | waiting     -- queued in `_waiters`, future pending
  | waitFC      -- future cancelled, wake-up (which raises) not yet run
  | woken       -- future resolved by set(), wake-up not yet run
  | wokenMC     -- same, with a native cancellation pending
  deriving DecidableEq, Repr, Inhabited

inductive Out where
  | susp | ret | cancelled | env
  deriving DecidableEq, Repr

inductive Ev where
  | wait (t : Nat) (pre : Bool)
  | set
  | step (t : Nat)
  | fc (t : Nat)
  | mc (t : Nat)
  deriving DecidableEq, Repr

structure State where
  flag    : Bool
  waiters : List Nat
  pc      : Nat → Pc

def init : State := { flag := false, waiters := [], pc := fun _ => .idle }

def step (s : State) : Ev → Option (State × Out)
  | .wait t _pre =>
    if s.pc t ≠ .idle then none else
    if s.flag then some ({ s with pc := upd s.pc t .yielding }, .susp)
    else some ({ s with waiters := s.waiters ++ [t], pc := upd s.pc t .waiting }, .susp)
  | .set =>
    if s.flag then some (s, .ret)
    else
      some ({ s with flag := true,
                     pc := fun u => if u ∈ s.waiters ∧ s.pc u = .waiting then .woken else s.pc u },
            .ret)
  | .fc t =>
    if s.pc t = .waiting then some ({ s with pc := upd s.pc t .waitFC }, .env) else none
  | .mc t =>
    match s.pc t with
    | .yielding => some ({ s with pc := upd s.pc t .yieldingMC }, .env)
    | .woken => some ({ s with pc := upd s.pc t .wokenMC }, .env)
    | _ => none
  | .step t =>
    match s.pc t with
    | .idle => none
    | .waiting => none
    | .yielding => some ({ s with pc := upd s.pc t .idle }, .ret)
    | .yieldingMC => some ({ s with pc := upd s.pc t .idle }, .cancelled)
    | .woken =>
      some ({ s with waiters := s.waiters.erase t, pc := upd s.pc t .idle }, .ret)
    | .waitFC =>
      some ({ s with waiters := s.waiters.erase t, pc := upd s.pc t .idle }, .cancelled)
    | .wokenMC =>
      some ({ s with waiters := s.waiters.erase t, pc := upd s.pc t .idle }, .cancelled)

abbrev Reach (s : State) : Prop :=
  Reachable (fun s0 => s0 = init) step s

end AnyioModel.Sync.Event
