/-
Model of `anyio.Condition` (src/anyio/_core/_synchronization.py, class Condition, with the F7
repair: `release()` clears `_owner_task`) on top of the Lock model, cut at its awaits.

```
    def _check_acquired(self):
        if self._owner_task != get_current_task(): raise RuntimeError(...)
    async def acquire(self):   await self._lock.acquire(); self._owner_task = get_current_task()
    def acquire_nowait(self):  self._lock.acquire_nowait(); self._owner_task = get_current_task()
    def release(self):         self._lock.release(); self._owner_task = None
    def notify(self, n=1):
        self._check_acquired()
        for _ in range(n):
            try: event = self._waiters.popleft()
            except IndexError: break
            event.set()
    def notify_all(self):
        self._check_acquired()
        for event in self._waiters: event.set()
        self._waiters.clear()
    async def wait(self):
        await checkpoint_if_cancelled()
        self._check_acquired()
        event = Event(); self._waiters.append(event)
        self.release()
        try:
            await event.wait()
        except BaseException:
            if not event.is_set():  self._waiters.remove(event)
            elif self._waiters:     self._waiters.popleft().set()     # pass the notification on
            raise
        finally:
            with CancelScope(shield=True):
                await self.acquire()
```

State: the embedded `Lock.State` (all acquire/release work is done by `Lock.step`), the
condition's own `_owner_task`, and the deque `_waiters` of one-shot events.  An event is created
per `wait()` call and a task is inside at most one `wait()`, so an event is named by its task.
Only *unset* events are ever queued (they are popped before being set), so the "is set" bit and
the state of the waiter's future live in the task's program counter.

Segments of `wait()`:
 1. `wait t pre`: `checkpoint_if_cancelled` (spins in `sleep(0)` if `pre`), `_check_acquired`,
    enqueue the event, `release()` (hands the lock to the next Lock waiter), suspend on the event;
 2. wake-up from the event (`step t`): normal (`evSet`: notification consumed) or with an
    exception (`evFC`: remove self; `evFCSet`/`evSetMC`: notified *and* cancelled: pass the
    notification on to the next queued event, or drop it if the queue is empty); then the
    first segment of the shielded `Lock.acquire` (never `pre`: `checkpoint_if_cancelled` stops at
    the shield);
 3. further `step t`s while blocked in the Lock's queue or in its shielded yield (`reacq exc`).
    Being shielded, cancel-scope cancellation cannot reach the task here; a native `Task.cancel()`
    can (`fc` on the Lock future, or `mc`): `Lock.acquire` then raises `CancelledError` out of the
    `finally:` block, i.e. `wait()` raises *without holding the lock* (and a consumed notification
    is not passed on).  That is what the code does; see `C11_native_cancel_reacquire_witness`.

Ghost fields (never read by a transition's enabling/outcome): `wasSet`, `notified`, the four
counters.
-/
import AnyioModel.Sync.Lock

namespace AnyioModel.Sync.Condition
open AnyioModel.Sync

abbrev Out := Lock.Out

inductive CPc where
  | none                      -- not inside a Condition operation
  | acq                       -- inside `Condition.acquire()`: the Lock's acquire is in progress
  | waitPre                   -- `wait()` entered in a cancelled scope: in checkpoint_if_cancelled's sleep(0)
  | waitPreMC                 -- same, cancellation has landed
  | evWait                    -- event queued and unset, future pending
  | evFC                      -- future cancelled, event unset, still queued
  | evFCSet (passed : Bool)   -- future cancelled, *then* the event was popped and set
  | evSet (passed : Bool)     -- event popped and set, future resolved, wake-up not yet run
  | evSetMC (passed : Bool)   -- same, with a native cancellation pending
  | reacq (exc : Bool)        -- in the shielded re-acquire; `exc` = a cancellation is to be re-raised
  deriving DecidableEq, Repr, Inhabited

inductive Ev where
  | acquire (t : Nat) (pre : Bool)
  | acquireNowait (t : Nat)
  | release (t : Nat)
  | wait (t : Nat) (pre : Bool)
  | notify (t : Nat) (n : Nat)
  | notifyAll (t : Nat)
  | step (t : Nat)
  | fc (t : Nat)
  | mc (t : Nat)
  deriving DecidableEq, Repr

structure State where
  lock      : Lock.State
  ownerTask : Option Nat
  waiters   : List Nat
  cpc       : Nat → CPc
  /-- ghost: the event of `t`'s current/last `wait()` has been set -/
  wasSet    : Nat → Bool
  /-- ghost: tasks whose event is set and whose wake-up from the event has not run yet -/
  notified  : List Nat
  /-- ghost: events set by `notify`/`notify_all` -/
  issued    : Nat
  /-- ghost: notified waiters that woke up normally; the notification came from a notifier -/
  consumedDirect : Nat
  /-- ghost: same, the notification had been passed on by a cancelled waiter -/
  consumedPassed : Nat
  /-- ghost: a notified-and-cancelled waiter found the queue empty -/
  dropped   : Nat

def init (fast : Bool) : State :=
  { lock := Lock.init fast, ownerTask := none, waiters := [], cpc := fun _ => .none,
    wasSet := fun _ => false, notified := [], issued := 0, consumedDirect := 0,
    consumedPassed := 0, dropped := 0 }

/-- `event.set()` on the event of task `u` (already popped from the queue) -/
def setEvent (passed : Bool) (u : Nat) (s : State) : State :=
  match s.cpc u with
  | .evWait =>
    { s with cpc := upd s.cpc u (.evSet passed), wasSet := upd s.wasSet u true,
             notified := u :: s.notified }
  | .evFC =>
    { s with cpc := upd s.cpc u (.evFCSet passed), wasSet := upd s.wasSet u true,
             notified := u :: s.notified }
  | _ => s

/-- `notify(n)`'s loop (and `notify_all` with `n = len(_waiters)`) -/
def notifyLoop : Nat → State → State
  | 0, s => s
  | n + 1, s =>
    match s.waiters with
    | [] => s
    | u :: rest => notifyLoop n (setEvent false u { s with waiters := rest, issued := s.issued + 1 })

/-- `elif self._waiters: self._waiters.popleft().set()` -/
def passOn (s : State) : State :=
  match s.waiters with
  | [] => { s with dropped := s.dropped + 1 }
  | u :: rest => setEvent true u { s with waiters := rest }

/-- what a segment of the underlying `Lock.acquire` means for the Condition operation around it:
`onRet` is what the operation yields when the lock has been obtained, `during` the program counter
while it has not. -/
def lockResult (s : State) (t : Nat) (during : CPc) (onRet : Out) :
    Option (Lock.State × Out) → Option (State × Out)
  | none => none
  | some (l, .ret) =>
    some ({ s with lock := l, ownerTask := some t, cpc := upd s.cpc t .none }, onRet)
  | some (l, .susp) => some ({ s with lock := l, cpc := upd s.cpc t during }, .susp)
  | some (l, o) => some ({ s with lock := l, cpc := upd s.cpc t .none }, o)

/-- `finally: with CancelScope(shield=True): await self.acquire()`, first segment -/
def reacquire (t : Nat) (exc : Bool) (s : State) : Option (State × Out) :=
  lockResult s t (.reacq exc) (if exc then .cancelled else .ret) (Lock.step s.lock (.acquire t false))

/-- `wait()` after `checkpoint_if_cancelled` fell through -/
def waitBody (t : Nat) (s : State) : Option (State × Out) :=
  if s.ownerTask ≠ some t then some (s, .runtimeError) else
  let s1 := { s with waiters := s.waiters ++ [t], wasSet := upd s.wasSet t false }
  match Lock.step s1.lock (.release t) with
  | none => none
  | some (l, .ret) =>
    some ({ s1 with lock := l, ownerTask := none, cpc := upd s1.cpc t .evWait }, .susp)
  | some (l, o) => some ({ s1 with lock := l }, o)

def step (s : State) : Ev → Option (State × Out)
  | .acquire t pre =>
    if s.cpc t ≠ .none then none else
    lockResult s t .acq .ret (Lock.step s.lock (.acquire t pre))
  | .acquireNowait t =>
    if s.cpc t ≠ .none then none else
    lockResult s t .acq .ret (Lock.step s.lock (.acquireNowait t))
  | .release t =>
    if s.cpc t ≠ .none then none else
    match Lock.step s.lock (.release t) with
    | none => none
    | some (l, .ret) => some ({ s with lock := l, ownerTask := none }, .ret)
    | some (l, o) => some ({ s with lock := l }, o)
  | .wait t pre =>
    if s.cpc t ≠ .none then none else
    if pre then some ({ s with cpc := upd s.cpc t .waitPre }, .susp)
    else waitBody t s
  | .notify t n =>
    if s.cpc t ≠ .none then none else
    if s.ownerTask ≠ some t then some (s, .runtimeError)
    else some (notifyLoop n s, .ret)
  | .notifyAll t =>
    if s.cpc t ≠ .none then none else
    if s.ownerTask ≠ some t then some (s, .runtimeError)
    else some (notifyLoop s.waiters.length s, .ret)
  | .fc t =>
    match s.cpc t with
    | .evWait => some ({ s with cpc := upd s.cpc t .evFC }, .env)
    | .acq | .reacq _ =>
      match Lock.step s.lock (.fc t) with
      | some (l, _) => some ({ s with lock := l }, .env)
      | none => none
    | _ => none
  | .mc t =>
    match s.cpc t with
    | .waitPre => some ({ s with cpc := upd s.cpc t .waitPreMC }, .env)
    | .evSet p => some ({ s with cpc := upd s.cpc t (.evSetMC p) }, .env)
    | .acq | .reacq _ =>
      match Lock.step s.lock (.mc t) with
      | some (l, _) => some ({ s with lock := l }, .env)
      | none => none
    | _ => none
  | .step t =>
    match s.cpc t with
    | .none => none
    | .evWait => none
    | .waitPre => some (s, .susp)
    | .waitPreMC => some ({ s with cpc := upd s.cpc t .none }, .cancelled)
    | .acq => lockResult s t .acq .ret (Lock.step s.lock (.step t))
    | .reacq exc =>
      lockResult s t (.reacq exc) (if exc then .cancelled else .ret) (Lock.step s.lock (.step t))
    | .evSet p =>
      reacquire t false
        { s with notified := s.notified.erase t,
                 consumedDirect := if p then s.consumedDirect else s.consumedDirect + 1,
                 consumedPassed := if p then s.consumedPassed + 1 else s.consumedPassed }
    | .evFC => reacquire t true { s with waiters := s.waiters.erase t }
    | .evFCSet _ => reacquire t true (passOn { s with notified := s.notified.erase t })
    | .evSetMC _ => reacquire t true (passOn { s with notified := s.notified.erase t })

abbrev Reach (s : State) : Prop :=
  Reachable (fun s0 => ∃ f, s0 = init f) step s

end AnyioModel.Sync.Condition
