/-
C08 helper definitions and lemmas for the synchronisation primitives (Lock, Semaphore,
CapacityLimiter, Event, Condition).  No model is changed here.

Per model `M`:
* `M.actor e`     the task that executes event `e` (for `set`/`setTotal`, which have no task
                  argument, `none`);
* `M.SameBut t s s'`  "nothing observable happened": every field of the primitive's state, every
                  ghost field and every *other* task's program counter is the same in `s'` as in
                  `s`; only task `t`'s own program counter (and, in the limiter, its local
                  variable `beh t` = the borrower argument of the call in progress) may differ;
* `M.Parked t s`  task `t` sits in the `sleep(0)` of `checkpoint_if_cancelled` (`preSpin`), or
                  there with `_must_cancel` delivered (`preSpinMC`);
* `M.parked_undisturbed` / `M.other_keeps_pc`  no event executed by *another* task moves a
                  parked task.
-/
import AnyioModel.Sync.LockProofs
import AnyioModel.Sync.SemaphoreProofs
import AnyioModel.Sync.Limiter
import AnyioModel.Sync.Event
import AnyioModel.Sync.ConditionInv

namespace AnyioModel.Props.C08Aux

/-! ### Lock -/
namespace Lock
open AnyioModel.Sync.Lock

def actor : Ev → Nat
  | .acquire t _ => t | .acquireNowait t => t | .release t => t
  | .step t => t | .fc t => t | .mc t => t

def SameBut (t : Nat) (s s' : State) : Prop :=
  s'.fast = s.fast ∧ s'.owner = s.owner ∧ s'.waiters = s.waiters ∧ s'.holds = s.holds ∧
  ∀ u, u ≠ t → s'.pc u = s.pc u

def Parked (t : Nat) (s : State) : Prop := s.pc t = .preSpin ∨ s.pc t = .preSpinMC

theorem SameBut.refl (t : Nat) (s : State) : SameBut t s s := ⟨rfl, rfl, rfl, rfl, fun _ _ => rfl⟩

theorem doRelease_pc (s0 : State) (t : Nat) (hq : ∀ c, (t, c) ∉ s0.waiters) :
    (doRelease s0).pc t = s0.pc t := by
  unfold doRelease
  split
  · rename_i u rest hg
    obtain ⟨pre, hws, _⟩ := grant_some hg
    have : t ≠ u := by
      intro h; subst h; exact hq false (by simp [hws])
    simp [this]
  · rfl

/-- an event executed by another task does not move `t` as long as `t` is not in the queue -/
theorem other_keeps_pc {s s' : State} {e : Ev} {o : Out} {t : Nat}
    (hq : ∀ c, (t, c) ∉ s.waiters) (he : actor e ≠ t) (hs : step s e = some (s', o)) :
    s'.pc t = s.pc t := by
  have hne : t ≠ actor e := fun h => he h.symm
  cases e <;> simp only [actor] at hne <;> simp only [step] at hs
  case acquire u pre =>
    repeat' split at hs
    all_goals first | contradiction | (cases hs; simp [hne])
  case acquireNowait u =>
    repeat' split at hs
    all_goals first | contradiction | (cases hs; simp)
  case release u =>
    repeat' split at hs
    all_goals first | contradiction | (cases hs; first | rfl | exact doRelease_pc _ t hq)
  case fc u =>
    repeat' split at hs
    all_goals first | contradiction | (cases hs; simp [hne])
  case mc u =>
    repeat' split at hs
    all_goals first | contradiction | (cases hs; simp [hne])
  case step u =>
    repeat' split at hs
    all_goals first
      | contradiction
      | (cases hs; simp [hne]; done)
      | (cases hs; rw [doRelease_pc _ t (by simpa using hq)]; simp [hne])

theorem parked_not_queued {s : State} (hi : Inv s) {t : Nat} (hp : Parked t s) :
    ∀ c, (t, c) ∉ s.waiters := by
  intro c hm
  have := hi.waiter_pc t c hm
  rcases hp with hp | hp <;> simp [hp] at this

theorem parked_undisturbed {s s' : State} {e : Ev} {o : Out} {t : Nat} (hi : Inv s)
    (hp : Parked t s) (he : actor e ≠ t) (hs : step s e = some (s', o)) : s'.pc t = s.pc t :=
  other_keeps_pc (parked_not_queued hi hp) he hs

theorem inv_of_reach {s : State} (h : Reach s) : Inv s := by
  refine Reachable.invariant Inv ?_ ?_ s h
  · rintro s ⟨f, rfl⟩; exact inv_init f
  · intro s e s' o hi hs; exact inv_step hi hs

end Lock

/-! ### Semaphore -/
namespace Sem
open AnyioModel.Sync.Semaphore

def actor : Ev → Nat
  | .acquire t _ => t | .acquireNowait t => t | .release t => t
  | .step t => t | .fc t => t | .mc t => t

def SameBut (t : Nat) (s s' : State) : Prop :=
  s'.fast = s.fast ∧ s'.value = s.value ∧ s'.max = s.max ∧ s'.waiters = s.waiters ∧
  s'.init0 = s.init0 ∧ s'.holders = s.holders ∧ s'.infl = s.infl ∧ s'.extra = s.extra ∧
  s'.lost = s.lost ∧ ∀ u, u ≠ t → s'.pc u = s.pc u

def Parked (t : Nat) (s : State) : Prop := s.pc t = .preSpin ∨ s.pc t = .preSpinMC

theorem doRelease_pc {s0 s1 : State} (t : Nat) (hq : ∀ c, (t, c) ∉ s0.waiters)
    (h : doRelease s0 = some s1) : s1.pc t = s0.pc t := by
  unfold doRelease at h
  split at h; · contradiction
  split at h
  · rename_i u rest hg
    obtain ⟨pre, hws, _⟩ := grant_some hg
    have : t ≠ u := by
      intro h; subst h; exact hq false (by simp [hws])
    cases h; simp [this]
  · cases h; rfl

theorem giveBack_pc (s : State) (u t : Nat) (hne : t ≠ u) (hq : ∀ c, (t, c) ∉ s.waiters) :
    (giveBack s u).1.pc t = s.pc t := by
  unfold giveBack
  simp only
  split
  · rename_i s2 h
    rw [doRelease_pc t (by simpa using hq) h]; simp [hne]
  · simp [hne]

theorem other_keeps_pc {s s' : State} {e : Ev} {o : Out} {t : Nat}
    (hq : ∀ c, (t, c) ∉ s.waiters) (he : actor e ≠ t) (hs : step s e = some (s', o)) :
    s'.pc t = s.pc t := by
  have hne : t ≠ actor e := fun h => he h.symm
  cases e <;> simp only [actor] at hne <;> simp only [step] at hs
  case acquire u pre =>
    repeat' split at hs
    all_goals first | contradiction | (cases hs; simp [hne])
  case acquireNowait u =>
    repeat' split at hs
    all_goals first | contradiction | (cases hs; simp)
  case release u =>
    split at hs; · contradiction
    split at hs
    · cases hs; rfl
    · rename_i s1 h
      split at hs <;> (cases hs; show s1.pc t = s.pc t; exact doRelease_pc t hq h)
  case fc u =>
    repeat' split at hs
    all_goals first | contradiction | (cases hs; simp [hne])
  case mc u =>
    repeat' split at hs
    all_goals first | contradiction | (cases hs; simp [hne])
  case step u =>
    split at hs
    all_goals first
      | contradiction
      | (cases hs; simp [hne]; done)
      | (have h := Option.some.inj hs
         have h2 : s' = (giveBack s u).1 := by rw [h]
         rw [h2]; exact giveBack_pc s u t hne hq)

theorem parked_undisturbed {s s' : State} {e : Ev} {o : Out} {t : Nat} (hi : Inv s)
    (hp : Parked t s) (he : actor e ≠ t) (hs : step s e = some (s', o)) : s'.pc t = s.pc t := by
  refine other_keeps_pc ?_ he hs
  intro c hm
  have := hi.waiter_pc t c hm
  rcases hp with hp | hp <;> simp [hp] at this

theorem inv_of_reach {s : State} (h : Reach s) : Inv s := by
  refine Reachable.invariant Inv ?_ ?_ s h
  · intro s h; exact inv_init h
  · intro s e s' o hi hs; exact inv_step hi hs

end Sem

/-! ### CapacityLimiter -/
namespace Lim
open AnyioModel.Sync.Limiter

def actor : Ev → Option Nat
  | .acquire t _ => some t | .acquireNowait t => some t | .release t => some t
  | .acquireOnBehalf t _ _ => some t | .acquireOnBehalfNowait t _ => some t
  | .releaseOnBehalf t _ => some t | .setTotal _ => none
  | .step t => some t | .fc t => some t | .mc t => some t

def SameBut (t : Nat) (s s' : State) : Prop :=
  s'.total = s.total ∧ s'.borrowers = s.borrowers ∧ s'.queue = s.queue ∧
  s'.holders = s.holders ∧ s'.resv = s.resv ∧ s'.grants = s.grants ∧ s'.rels = s.rels ∧
  s'.lowered = s.lowered ∧ ∀ u, u ≠ t → s'.pc u = s.pc u ∧ s'.beh u = s.beh u

def Parked (t : Nat) (s : State) : Prop := s.pc t = .preSpin ∨ s.pc t = .preSpinMC

/-- the wake-up of queue entries only touches tasks that are `waiting`/`waitFC` -/
theorem wake1_pc {s s1 : State} {t : Nat} (hp : Parked t s) (h : wake1 s = some s1) :
    s1.pc t = s.pc t := by
  unfold wake1 at h
  split at h; · contradiction
  split at h
  · cases h
    simp only [upd]
    split
    · rename_i heq; subst heq; rcases hp with hp | hp <;> simp [hp, wakePc]
    · rfl
  · contradiction

theorem wake1_parked {s s1 : State} {t : Nat} (hp : Parked t s) (h : wake1 s = some s1) :
    Parked t s1 := by
  have := wake1_pc hp h
  unfold Parked at hp ⊢; rw [this]; exact hp

theorem notify_pc {s : State} {t : Nat} (hp : Parked t s) : (notify s).pc t = s.pc t := by
  unfold notify
  cases h : wake1 s with
  | none => rfl
  | some s1 => exact wake1_pc hp h

theorem wakeAll_pc (n : Nat) {s : State} {t : Nat} (hp : Parked t s) :
    (wakeAll n s).pc t = s.pc t := by
  induction n generalizing s with
  | zero => rfl
  | succ n ih =>
    simp only [wakeAll]
    cases h : wake1 s with
    | none => rfl
    | some s1 => simp only; rw [ih (wake1_parked hp h), wake1_pc hp h]

/-- no event of another task (nor `setTotal`) moves a parked task; holds in every state -/
theorem parked_undisturbed {s s' : State} {e : Ev} {o : Out} {t : Nat}
    (hp : Parked t s) (he : actor e ≠ some t) (hs : step s e = some (s', o)) :
    s'.pc t = s.pc t := by
  have hacq : ∀ u b pre, u ≠ t → acq s u b pre = some (s', o) → s'.pc t = s.pc t := by
    intro u b pre hne h
    have hne' : t ≠ u := fun h => hne h.symm
    unfold acq at h
    repeat' split at h
    all_goals first | contradiction | (cases h; simp [hne'])
  have hnw : ∀ u b, u ≠ t → acqNowait s u b = some (s', o) → s'.pc t = s.pc t := by
    intro u b hne h
    unfold acqNowait at h
    repeat' split at h
    all_goals first | contradiction | (cases h; simp)
  have hrel : ∀ u b, u ≠ t → rel s u b = some (s', o) → s'.pc t = s.pc t := by
    intro u b hne h
    unfold rel at h
    repeat' split at h
    all_goals first | contradiction | (cases h; first | rfl | exact notify_pc (s := {s with borrowers := _, holders := _, rels := _}) hp)
  cases e <;> simp only [actor, ne_eq, Option.some.injEq] at he <;> simp only [step] at hs
  case acquire u pre => exact hacq u u pre he hs
  case acquireNowait u => exact hnw u u he hs
  case release u => exact hrel u u he hs
  case acquireOnBehalf u b pre => exact hacq u b pre he hs
  case acquireOnBehalfNowait u b => exact hnw u b he hs
  case releaseOnBehalf u b => exact hrel u b he hs
  case setTotal v =>
    cases hs
    exact wakeAll_pc _ (s := {s with total := v, lowered := _}) hp
  case fc u =>
    have hne : t ≠ u := fun h => he h.symm
    split at hs
    · cases hs; simp [hne]
    · contradiction
  case mc u =>
    have hne : t ≠ u := fun h => he h.symm
    split at hs
    all_goals first | contradiction | (cases hs; simp [hne])
  case step u =>
    have hne : t ≠ u := fun h => he h.symm
    have hp' : ∀ (r : List (Nat × Nat)) (q : List (Nat × Nat)) (b : List Nat),
        Parked t { s with pc := upd s.pc u .idle, resv := r, queue := q, borrowers := b } := by
      intro r q b; unfold Parked at hp ⊢; simpa [hne] using hp
    repeat' split at hs
    all_goals first
      | contradiction
      | (cases hs; simp [hne]; done)
      | (cases hs; unfold giveBack; rw [notify_pc (hp' _ _ _)]; simp [hne]; done)
      | (cases hs; rw [notify_pc (hp' _ s.queue _)]; simp [hne])

end Lim

/-! ### Event -/
namespace Evt
open AnyioModel.Sync.Event

def actor : Ev → Option Nat
  | .wait t _ => some t | .set => none | .step t => some t | .fc t => some t | .mc t => some t

/-- `flag` and `_waiters` and everybody else's program counter are the same -/
def SameBut (t : Nat) (s s' : State) : Prop :=
  s'.flag = s.flag ∧ s'.waiters = s.waiters ∧ ∀ u, u ≠ t → s'.pc u = s.pc u

/-- in the `sleep(0)` of the set-path's `checkpoint()` -/
def Yielding (t : Nat) (s : State) : Prop := s.pc t = .yielding ∨ s.pc t = .yieldingMC

theorem yielding_undisturbed {s s' : State} {e : Ev} {o : Out} {t : Nat}
    (hp : Yielding t s) (he : actor e ≠ some t) (hs : step s e = some (s', o)) :
    s'.pc t = s.pc t := by
  cases e <;> simp only [actor, ne_eq, Option.some.injEq] at he <;> simp only [step] at hs
  case wait u pre =>
    have hne : t ≠ u := fun h => he h.symm
    repeat' split at hs
    all_goals first | contradiction | (cases hs; simp [hne])
  case set =>
    split at hs
    · cases hs; rfl
    · cases hs
      rcases hp with hp | hp <;> simp [hp]
  case step u =>
    have hne : t ≠ u := fun h => he h.symm
    repeat' split at hs
    all_goals first | contradiction | (cases hs; simp [hne])
  case fc u =>
    have hne : t ≠ u := fun h => he h.symm
    repeat' split at hs
    all_goals first | contradiction | (cases hs; simp [hne])
  case mc u =>
    have hne : t ≠ u := fun h => he h.symm
    repeat' split at hs
    all_goals first | contradiction | (cases hs; simp [hne])

end Evt

/-! ### Condition -/
namespace Cond
open AnyioModel.Sync AnyioModel.Sync.Condition

def actor : Condition.Ev → Nat
  | .acquire t _ => t | .acquireNowait t => t | .release t => t | .wait t _ => t
  | .notify t _ => t | .notifyAll t => t | .step t => t | .fc t => t | .mc t => t

/-- the condition's own fields (`_owner_task`, `_waiters`, ghosts) and everybody else's program
counter are the same; the embedded lock is related by `Lock.SameBut` -/
def SameBut (t : Nat) (s s' : Condition.State) : Prop :=
  Lock.SameBut t s.lock s'.lock ∧ s'.ownerTask = s.ownerTask ∧ s'.waiters = s.waiters ∧
  s'.wasSet = s.wasSet ∧ s'.notified = s.notified ∧ s'.issued = s.issued ∧
  s'.consumedDirect = s.consumedDirect ∧ s'.consumedPassed = s.consumedPassed ∧
  s'.dropped = s.dropped ∧ ∀ u, u ≠ t → s'.cpc u = s.cpc u

/-- `t` is parked in a `checkpoint_if_cancelled` of the condition (in `wait`, or in the embedded
lock's `acquire`) -/
def CParked (t : Nat) (s : Condition.State) : Prop :=
  s.cpc t = .waitPre ∨ s.cpc t = .waitPreMC ∨ s.cpc t = .acq

theorem setEvent_cpc (p : Bool) (u : Nat) (s : Condition.State) {t : Nat} (hp : CParked t s) :
    (setEvent p u s).cpc t = s.cpc t ∧ (setEvent p u s).lock = s.lock := by
  unfold setEvent
  split
  · rename_i h; refine ⟨?_, rfl⟩
    simp only [upd]; split
    · rename_i heq; subst heq; rcases hp with hp | hp | hp <;> simp [hp] at h
    · rfl
  · rename_i h; refine ⟨?_, rfl⟩
    simp only [upd]; split
    · rename_i heq; subst heq; rcases hp with hp | hp | hp <;> simp [hp] at h
    · rfl
  · exact ⟨rfl, rfl⟩

theorem notifyLoop_cpc (n : Nat) (s : Condition.State) {t : Nat} (hp : CParked t s) :
    (notifyLoop n s).cpc t = s.cpc t ∧ (notifyLoop n s).lock = s.lock := by
  induction n generalizing s with
  | zero => exact ⟨rfl, rfl⟩
  | succ n ih =>
    simp only [notifyLoop]
    split
    · exact ⟨rfl, rfl⟩
    · rename_i u rest _
      have hp1 : CParked t { s with waiters := rest, issued := s.issued + 1 } := hp
      have h1 := setEvent_cpc false u { s with waiters := rest, issued := s.issued + 1 } hp1
      have hp2 : CParked t (setEvent false u { s with waiters := rest, issued := s.issued + 1 }) := by
        unfold CParked; rw [h1.1]; exact hp
      have h2 := ih _ hp2
      exact ⟨by rw [h2.1, h1.1], by rw [h2.2, h1.2]⟩

theorem passOn_cpc (s : Condition.State) {t : Nat} (hp : CParked t s) :
    (passOn s).cpc t = s.cpc t ∧ (passOn s).lock = s.lock := by
  unfold passOn
  split
  · exact ⟨rfl, rfl⟩
  · rename_i u rest _
    exact setEvent_cpc true u { s with waiters := rest } hp

theorem lockResult_cpc {s s' : Condition.State} {u t : Nat} (hne : t ≠ u) {during : CPc}
    {onRet o : Condition.Out} {r : Option (Lock.State × Lock.Out)}
    (h : lockResult s u during onRet r = some (s', o)) :
    s'.cpc t = s.cpc t ∧ ∃ lo, r = some (s'.lock, lo) := by
  unfold lockResult at h
  split at h
  · contradiction
  all_goals (cases h; exact ⟨by simp [hne], _, rfl⟩)

theorem reacquire_cpc {s2 s' : Condition.State} {u t : Nat} (hne : t ≠ u) {exc : Bool}
    {o : Condition.Out} (h : reacquire u exc s2 = some (s', o)) :
    s'.cpc t = s2.cpc t ∧ ∃ lo, Lock.step s2.lock (.acquire u false) = some (s'.lock, lo) := by
  unfold reacquire at h
  exact lockResult_cpc hne h

/-- an event executed by another task moves neither the condition-level nor the lock-level program
counter of a task parked in `checkpoint_if_cancelled`, provided the task is not in the embedded
lock's queue -/
theorem other_keeps_pc {s s' : Condition.State} {e : Condition.Ev} {o : Condition.Out} {t : Nat}
    (hp : CParked t s) (hq : ∀ c, (t, c) ∉ s.lock.waiters) (he : actor e ≠ t)
    (hs : Condition.step s e = some (s', o)) :
    s'.cpc t = s.cpc t ∧ s'.lock.pc t = s.lock.pc t := by
  have hne : t ≠ actor e := fun h => he h.symm
  have via : ∀ {l' : Lock.State} {e' : Lock.Ev} {lo : Lock.Out}, Lock.actor e' ≠ t →
      Lock.step s.lock e' = some (l', lo) → l'.pc t = s.lock.pc t :=
    fun hn h => Lock.other_keeps_pc hq hn h
  cases e <;> simp only [actor] at hne he <;> simp only [Condition.step] at hs
  case acquire u pre =>
    split at hs; · contradiction
    obtain ⟨h1, lo, h2⟩ := lockResult_cpc hne hs
    exact ⟨h1, via (by simpa [Lock.actor] using he) h2⟩
  case acquireNowait u =>
    split at hs; · contradiction
    obtain ⟨h1, lo, h2⟩ := lockResult_cpc hne hs
    exact ⟨h1, via (by simpa [Lock.actor] using he) h2⟩
  case release u =>
    split at hs; · contradiction
    split at hs
    · contradiction
    · rename_i l h; cases hs; exact ⟨rfl, via (by simpa [Lock.actor] using he) h⟩
    · rename_i l lo _ h; cases hs; exact ⟨rfl, via (by simpa [Lock.actor] using he) h⟩
  case wait u pre =>
    split at hs; · contradiction
    split at hs
    · cases hs; exact ⟨by simp [hne], rfl⟩
    · unfold waitBody at hs
      split at hs
      · cases hs; exact ⟨rfl, rfl⟩
      · simp only at hs
        split at hs
        · contradiction
        · rename_i l h; cases hs; exact ⟨by simp [hne], via (by simpa [Lock.actor] using he) h⟩
        · rename_i l lo _ h; cases hs; exact ⟨rfl, via (by simpa [Lock.actor] using he) h⟩
  case notify u n =>
    split at hs; · contradiction
    split at hs
    · cases hs; exact ⟨rfl, rfl⟩
    · cases hs; have := notifyLoop_cpc n s hp; exact ⟨this.1, by rw [this.2]⟩
  case notifyAll u =>
    split at hs; · contradiction
    split at hs
    · cases hs; exact ⟨rfl, rfl⟩
    · cases hs; have := notifyLoop_cpc s.waiters.length s hp; exact ⟨this.1, by rw [this.2]⟩
  case fc u =>
    split at hs
    · cases hs; exact ⟨by simp [hne], rfl⟩
    all_goals try contradiction
    all_goals
      split at hs
      · rename_i l lo h; cases hs; exact ⟨rfl, via (by simpa [Lock.actor] using he) h⟩
      · contradiction
  case mc u =>
    split at hs
    · cases hs; exact ⟨by simp [hne], rfl⟩
    · cases hs; exact ⟨by simp [hne], rfl⟩
    all_goals try contradiction
    all_goals
      split at hs
      · rename_i l lo h; cases hs; exact ⟨rfl, via (by simpa [Lock.actor] using he) h⟩
      · contradiction
  case step u =>
    split at hs
    · contradiction
    · contradiction
    · cases hs; exact ⟨rfl, rfl⟩
    · cases hs; exact ⟨by simp [hne], rfl⟩
    · obtain ⟨h1, lo, h2⟩ := lockResult_cpc hne hs
      exact ⟨h1, via (by simpa [Lock.actor] using he) h2⟩
    · obtain ⟨h1, lo, h2⟩ := lockResult_cpc hne hs
      exact ⟨h1, via (by simpa [Lock.actor] using he) h2⟩
    · obtain ⟨h1, lo, h2⟩ := reacquire_cpc hne hs
      exact ⟨h1, via (by simpa [Lock.actor] using he) h2⟩
    · obtain ⟨h1, lo, h2⟩ := reacquire_cpc hne hs
      exact ⟨h1, via (by simpa [Lock.actor] using he) h2⟩
    · obtain ⟨h1, lo, h2⟩ := reacquire_cpc hne hs
      have hp' : CParked t { s with notified := s.notified.erase u } := hp
      have h3 := passOn_cpc _ hp'
      rw [h3.2] at h2
      exact ⟨by rw [h1, h3.1], via (by simpa [Lock.actor] using he) h2⟩
    · obtain ⟨h1, lo, h2⟩ := reacquire_cpc hne hs
      have hp' : CParked t { s with notified := s.notified.erase u } := hp
      have h3 := passOn_cpc _ hp'
      rw [h3.2] at h2
      exact ⟨by rw [h1, h3.1], via (by simpa [Lock.actor] using he) h2⟩

/-- in a reachable state a parked task is not in the embedded lock's queue -/
theorem cparked_not_queued {s : Condition.State} (hi : Condition.Inv s) {t : Nat}
    (hp : CParked t s) (hl : s.cpc t = .acq → Lock.Parked t s.lock) :
    ∀ c, (t, c) ∉ s.lock.waiters := by
  intro c hm
  have hw := hi.a.lockInv.waiter_pc t c hm
  rcases hp with hp | hp | hp
  · have := (hi.a.pc_link t).mp (by rcases hw with ⟨_, h⟩ | ⟨_, h⟩ <;> simp [h])
    simp [inLock, hp] at this
  · have := (hi.a.pc_link t).mp (by rcases hw with ⟨_, h⟩ | ⟨_, h⟩ <;> simp [h])
    simp [inLock, hp] at this
  · rcases hl hp with h | h <;> rcases hw with ⟨_, h'⟩ | ⟨_, h'⟩ <;> simp [h] at h'

end Cond

end AnyioModel.Props.C08Aux
