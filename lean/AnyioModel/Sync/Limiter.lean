/-
Model of `anyio._backends._asyncio.CapacityLimiter` (src/anyio/_backends/_asyncio.py, class
CapacityLimiter, with the repairs F1 = commit 4638e52 and F8 = commit 42dfeea), cut at its
awaits into atomic segments.

Shared state mirrors the object's fields: `_total_tokens` (`none` = `math.inf`), `_borrowers`
(a set, here a duplicate-free list), `_wait_queue` (an `OrderedDict` borrower ↦ `asyncio.Event`,
here the list of `(borrower, task waiting on that event)` in insertion order).  The event of a
queue entry is not set; an entry is popped at the moment its event is set (`wake1`), and the
woken task's program counter records "event set" (`granted*`).

Borrowers are natural numbers.  `acquire()` / `acquire_nowait()` / `release()` use
`current_task()` as the borrower: `acquire t pre` *is* `acquireOnBehalf t t pre`, etc.  (The
harness numbers explicit borrower objects from 100 so that they never coincide with a task.)

Events:
* `acquireOnBehalf t b pre`, `acquireOnBehalfNowait t b`, `releaseOnBehalf t b` and their
  current-task forms: task `t`, running and not inside another limiter operation, calls the
  method.  `pre` = the caller's scope is already effectively cancelled:
  `checkpoint_if_cancelled()` (the first statement of `acquire_on_behalf_of`) spins until the
  cancellation lands; nothing else happens.
* `setTotal v`: `limiter.total_tokens = v` with a valid value (`none` = infinity); wakes
  waiters while a token is free.
* `step t`: the event loop resumes `t`.
* `fc t`: the future inside `Event.wait()` on which `t` is blocked is cancelled.  The queue
  entry stays (only the waiter's own exception handler pops it), so the entry can still be
  *notified*: `Event.set()` skips the cancelled future, but `event.is_set()` is then true when
  the handler runs and the handler gives the token back (`grantedFC`).
* `mc t`: `Task._must_cancel` set on `t` while it has no pending future (bare `sleep(0)`, or
  event already set).

Ghost state (used by the theorems only):
* `holders`  borrowers between a normal return of an acquire call and the matching release,
* `resv`     `(borrower, task)`: a token is reserved for `borrower` (it is in `_borrowers`)
             but `task`'s acquire call has not returned yet,
* `grants`, `rels` number of acquire calls that returned normally / releases accepted,
* `lowered`  some `total_tokens` assignment set the total below the number borrowed.
-/
import AnyioModel.Util.LTS

namespace AnyioModel.Sync.Limiter

inductive Pc where
  | idle        -- not inside a limiter operation
  | preSpin     -- entered in a cancelled scope: in checkpoint_if_cancelled's sleep(0)
  | preSpinMC   -- same, cancellation has landed
  | fastYield   -- token taken by acquire_on_behalf_of_nowait, inside cancel_shielded_checkpoint
  | fastYieldMC -- same, with a native cancellation pending
  | waiting     -- entry in `_wait_queue`, event not set, future pending
  | waitFC      -- entry in `_wait_queue`, event not set, future cancelled (will raise)
  | granted     -- event set (token reserved, entry popped), future resolved, wake-up not yet run
  | grantedMC   -- same, with a native cancellation pending
  | grantedFC   -- event set after the future had been cancelled: will raise and give back
  deriving DecidableEq, Repr, Inhabited

inductive Out where
  | susp
  | ret
  | wouldBlock
  | runtimeError
  | cancelled
  | env
  deriving DecidableEq, Repr

inductive Ev where
  | acquire (t : Nat) (pre : Bool)
  | acquireNowait (t : Nat)
  | release (t : Nat)
  | acquireOnBehalf (t b : Nat) (pre : Bool)
  | acquireOnBehalfNowait (t b : Nat)
  | releaseOnBehalf (t b : Nat)
  | setTotal (v : Option Nat)
  | step (t : Nat)
  | fc (t : Nat)
  | mc (t : Nat)
  deriving DecidableEq, Repr

structure State where
  total     : Option Nat
  borrowers : List Nat
  queue     : List (Nat × Nat)
  pc        : Nat → Pc
  /-- the borrower of the operation task `t` is inside of -/
  beh       : Nat → Nat
  -- ghost
  holders   : List Nat
  resv      : List (Nat × Nat)
  grants    : Nat
  rels      : Nat
  lowered   : Bool

def init (total : Option Nat) : State :=
  { total, borrowers := [], queue := [], pc := fun _ => .idle, beh := fun _ => 0,
    holders := [], resv := [], grants := 0, rels := 0, lowered := false }

def IsInit (s : State) : Prop := ∃ v, s = init v

/-- `n < total` where `none` is infinity -/
def ltTot (n : Nat) : Option Nat → Bool
  | none => true
  | some m => decide (n < m)

/-- `n ≤ total` where `none` is infinity -/
def leTot (n : Nat) : Option Nat → Bool
  | none => true
  | some m => decide (n ≤ m)

/-- `set.add` -/
def addB (b : Nat) (bs : List Nat) : List Nat := if b ∈ bs then bs else b :: bs

def wakePc : Pc → Pc
  | .waiting => .granted
  | .waitFC => .grantedFC
  | p => p

/-- one iteration of "pop the first queue entry, add its borrower, set its event", enabled
exactly when `self._wait_queue and len(self._borrowers) < self._total_tokens` -/
def wake1 (s : State) : Option State :=
  match s.queue with
  | [] => none
  | (b, u) :: q =>
    if ltTot s.borrowers.length s.total then
      some { s with queue := q, borrowers := addB b s.borrowers,
                    pc := upd s.pc u (wakePc (s.pc u)), resv := (b, u) :: s.resv }
    else none

/-- `_notify_next_waiter()` -/
def notify (s : State) : State := (wake1 s).getD s

/-- the `while` loop of the `total_tokens` setter (fuel = queue length suffices) -/
def wakeAll : Nat → State → State
  | 0, s => s
  | n + 1, s =>
    match wake1 s with
    | none => s
    | some s' => wakeAll n s'

/-- `self._wait_queue[borrower] = event`: a new key goes to the end, an existing key keeps its
place and its value is overwritten (the misuse excluded by `OneWaitPerBorrower`) -/
def enqueue (b t : Nat) (q : List (Nat × Nat)) : List (Nat × Nat) :=
  if b ∈ q.map Prod.fst then q.map (fun e => if e.1 = b then (b, t) else e) else q ++ [(b, t)]

/-- `self._wait_queue.pop(borrower, None)` -/
def dequeue (b : Nat) (q : List (Nat × Nat)) : List (Nat × Nat) :=
  q.filter (fun e => e.1 ≠ b)

def unresv (t : Nat) (r : List (Nat × Nat)) : List (Nat × Nat) :=
  r.filter (fun e => e.2 ≠ t)

def acq (s : State) (t b : Nat) (pre : Bool) : Option (State × Out) :=
  if s.pc t ≠ .idle then none else
  if pre then some ({ s with pc := upd s.pc t .preSpin, beh := upd s.beh t b }, .susp) else
  if b ∈ s.borrowers then some (s, .runtimeError) else
  if s.queue ≠ [] ∨ ltTot s.borrowers.length s.total = false then
    some ({ s with queue := enqueue b t s.queue, pc := upd s.pc t .waiting,
                   beh := upd s.beh t b }, .susp)
  else
    some ({ s with borrowers := b :: s.borrowers, pc := upd s.pc t .fastYield,
                   beh := upd s.beh t b, resv := (b, t) :: s.resv }, .susp)

def acqNowait (s : State) (t b : Nat) : Option (State × Out) :=
  if s.pc t ≠ .idle then none else
  if b ∈ s.borrowers then some (s, .runtimeError) else
  if s.queue ≠ [] ∨ ltTot s.borrowers.length s.total = false then some (s, .wouldBlock)
  else
    some ({ s with borrowers := b :: s.borrowers, holders := b :: s.holders,
                   grants := s.grants + 1 }, .ret)

def rel (s : State) (t b : Nat) : Option (State × Out) :=
  if s.pc t ≠ .idle then none else
  if b ∈ s.borrowers then
    some (notify { s with borrowers := s.borrowers.erase b, holders := s.holders.erase b,
                          rels := s.rels + 1 }, .ret)
  else some (s, .runtimeError)

/-- the waiter's `except BaseException:` branch with `event.is_set()` true:
pop own entry (a no-op unless misused), discard the borrower, notify the next waiter, re-raise -/
def giveBack (s : State) (t : Nat) : State :=
  let b := s.beh t
  notify { s with pc := upd s.pc t .idle, resv := unresv t s.resv, queue := dequeue b s.queue,
                  borrowers := s.borrowers.erase b }

def step (s : State) : Ev → Option (State × Out)
  | .acquire t pre => acq s t t pre
  | .acquireNowait t => acqNowait s t t
  | .release t => rel s t t
  | .acquireOnBehalf t b pre => acq s t b pre
  | .acquireOnBehalfNowait t b => acqNowait s t b
  | .releaseOnBehalf t b => rel s t b
  | .setTotal v =>
    some (wakeAll s.queue.length
            { s with total := v,
                     lowered := s.lowered || !leTot s.borrowers.length v }, .ret)
  | .fc t =>
    if s.pc t = .waiting then some ({ s with pc := upd s.pc t .waitFC }, .env) else none
  | .mc t =>
    match s.pc t with
    | .preSpin => some ({ s with pc := upd s.pc t .preSpinMC }, .env)
    | .fastYield => some ({ s with pc := upd s.pc t .fastYieldMC }, .env)
    | .granted => some ({ s with pc := upd s.pc t .grantedMC }, .env)
    | _ => none
  | .step t =>
    match s.pc t with
    | .idle => none
    | .waiting => none
    | .preSpin => some (s, .susp)
    | .preSpinMC => some ({ s with pc := upd s.pc t .idle }, .cancelled)
    | .fastYield =>
      some ({ s with pc := upd s.pc t .idle, resv := unresv t s.resv,
                     holders := s.beh t :: s.holders, grants := s.grants + 1 }, .ret)
    | .fastYieldMC =>
      -- `except BaseException: self.release_on_behalf_of(borrower); raise`
      if s.beh t ∈ s.borrowers then
        some (notify { s with pc := upd s.pc t .idle, resv := unresv t s.resv,
                              borrowers := s.borrowers.erase (s.beh t) }, .cancelled)
      else
        some ({ s with pc := upd s.pc t .idle, resv := unresv t s.resv }, .runtimeError)
    | .waitFC =>
      some ({ s with queue := dequeue (s.beh t) s.queue, pc := upd s.pc t .idle }, .cancelled)
    | .granted =>
      some ({ s with pc := upd s.pc t .idle, resv := unresv t s.resv,
                     holders := s.beh t :: s.holders, grants := s.grants + 1 }, .ret)
    | .grantedMC => some (giveBack s t, .cancelled)
    | .grantedFC => some (giveBack s t, .cancelled)

/-! ### the precondition on histories (DESIGN section 4, scoping decision for C10)

Two operations concerning the same borrower must not overlap in the two ways that make the
borrower's own bookkeeping meaningless:
* `OneWaitPerBorrower`: an acquire for `b` that would enqueue is not issued while `b` already
  has an entry in the wait queue (the second call would overwrite the first one's event);
* `ReleaseAfterReturn`: `release_on_behalf_of(b)` is not issued while a token is reserved for
  `b` by an acquire call that has not returned yet.
Both are decidable properties of the event and the current state; `okEv` is their
conjunction, `Disciplined` lifts it to histories. -/

def oneWaitOk (s : State) : Ev → Bool
  | .acquire t pre => pre || !(s.queue.map Prod.fst).contains t
  | .acquireOnBehalf _ b pre => pre || !(s.queue.map Prod.fst).contains b
  | _ => true

def releaseOk (s : State) : Ev → Bool
  | .release t => !(s.resv.map Prod.fst).contains t
  | .releaseOnBehalf _ b => !(s.resv.map Prod.fst).contains b
  | _ => true

def okEv (s : State) (e : Ev) : Bool := oneWaitOk s e && releaseOk s e

/-- the history `es`, run from `s`, never has one borrower waiting twice -/
def OneWaitPerBorrower : State → List Ev → Bool
  | _, [] => true
  | s, e :: es =>
    oneWaitOk s e && match step s e with
      | none => true
      | some (s', _) => OneWaitPerBorrower s' es

def ReleaseAfterReturn : State → List Ev → Bool
  | _, [] => true
  | s, e :: es =>
    releaseOk s e && match step s e with
      | none => true
      | some (s', _) => ReleaseAfterReturn s' es

/-- the transition relation restricted to disciplined events -/
def dstep (s : State) (e : Ev) : Option (State × Out) :=
  if okEv s e then step s e else none

abbrev Reach (s : State) : Prop := Reachable IsInit dstep s

end AnyioModel.Sync.Limiter
