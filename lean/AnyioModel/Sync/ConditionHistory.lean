/-
History ghosts for the Condition model: the order in which `wait()` calls queued their event
(`wq`) and the order in which events were set - by `notify`, `notify_all` or a notification passed
on by a cancelled waiter - (`sig`), each read off what a step did, and the invariant
`sig ++ waiters <+ wq`.  Used by `Props/C11order.lean`.
-/
import AnyioModel.Sync.ConditionInv
import AnyioModel.Sync.ConditionNotify

namespace AnyioModel.Sync.Condition
open AnyioModel.Sync

structure NLog where
  wq  : List Nat := []
  sig : List Nat := []

/-- `wait()` by `t` queued its event -/
def startedWait (s s' : State) : Ev → Option Nat
  | .wait t _ => if t ∈ s'.waiters ∧ t ∉ s.waiters then some t else none
  | _ => none

/-- the queued events that this step set, in queue order -/
def signalled (s s' : State) : List Nat := s.waiters.filter (fun u => isSet (s'.cpc u))

def nlogStep (s : State) (l : NLog) (e : Ev) (s' : State) : NLog :=
  { wq := l.wq ++ (startedWait s s' e).toList, sig := l.sig ++ signalled s s' }

def runNLog : State → NLog → List Ev → Option (State × NLog)
  | s, l, [] => some (s, l)
  | s, l, e :: es =>
    match step s e with
    | none => none
    | some (s', _) => runNLog s' (nlogStep s l e s') es

/-- what a step can do to the queue of events -/
inductive QShape (s : State) (e : Ev) (s' : State) : Prop
  | same : s'.waiters = s.waiters → signalled s s' = [] → startedWait s s' e = none → QShape s e s'
  | push (t : Nat) : s'.waiters = s.waiters ++ [t] → signalled s s' = [] →
      startedWait s s' e = some t → QShape s e s'
  | pop (k : Nat) : s'.waiters = s.waiters.drop k → signalled s s' = s.waiters.take k →
      startedWait s s' e = none → QShape s e s'
  | leave (t : Nat) : s'.waiters = s.waiters.erase t → signalled s s' = [] →
      startedWait s s' e = none → QShape s e s'

theorem queued_not_set {c : CPc} (h : isQueued c = true) : isSet c = false := by
  cases c <;> simp_all [isQueued, isSet]

/-- nothing was signalled when every queued event's owner kept its program counter or moved to a
state that is not "event set" -/
theorem signalled_nil {s s' : State} (hq : InvQ s)
    (h : ∀ u, u ∈ s.waiters → s'.cpc u = s.cpc u ∨ isSet (s'.cpc u) = false) :
    signalled s s' = [] := by
  unfold signalled
  rw [List.filter_eq_nil_iff]
  intro u hu
  rcases h u hu with h1 | h1
  · rw [h1]; simp [queued_not_set ((hq.queue_iff u).mp hu)]
  · simp [h1]

theorem signalled_nil_upd {s s' : State} {t : Nat} {X : CPc} (hq : InvQ s)
    (hc : s'.cpc = upd s.cpc t X) (hX : isSet X = false) : signalled s s' = [] := by
  apply signalled_nil hq
  intro u _
  rw [hc]
  by_cases hut : u = t
  · subst hut; right; simp [hX]
  · left; simp [hut]

theorem signalled_nil_same {s s' : State} (hq : InvQ s) (hc : s'.cpc = s.cpc) :
    signalled s s' = [] :=
  signalled_nil hq (fun u _ => Or.inl (by rw [hc]))

theorem qshape_lockResult {s0 s s' : State} {e : Ev} {t : Nat} {during : CPc} {onRet o : Out}
    {r : Option (Lock.State × Out)} (hq : InvQ s0) (hw : s.waiters = s0.waiters) (hc : s.cpc = s0.cpc)
    (hd : isSet during = false) (he : ∀ s', startedWait s0 s' e = none)
    (h : lockResult s t during onRet r = some (s', o)) : QShape s0 e s' := by
  obtain ⟨l, lo, _, _, ⟨q1, _⟩, hcase⟩ := lockResult_cases h
  have hcp : ∃ X, isSet X = false ∧ s'.cpc = upd s0.cpc t X := by
    rcases hcase with ⟨_, _, hcp, _⟩ | ⟨_, _, hcp, _⟩ | ⟨_, _, _, hcp, _⟩
    · exact ⟨_, rfl, by rw [hcp, hc]⟩
    · exact ⟨_, hd, by rw [hcp, hc]⟩
    · exact ⟨_, rfl, by rw [hcp, hc]⟩
  obtain ⟨X, hX, hcp⟩ := hcp
  exact .same (by rw [q1, hw]) (signalled_nil_upd hq hcp hX) (he _)

theorem take_drop_filter {l : List Nat} {p : Nat → Bool} {k : Nat} (h1 : ∀ u ∈ l.take k, p u = true)
    (h2 : ∀ u ∈ l.drop k, p u = false) : l.filter p = l.take k := by
  conv => lhs; rw [← List.take_append_drop k l]
  rw [List.filter_append, List.filter_eq_self.mpr h1, List.filter_eq_nil_iff.mpr (by simpa using h2)]
  simp

theorem qshape_notify {s : State} {e : Ev} {t n : Nat} (hq : InvQ s) (hcp : s.cpc t = .none)
    (he : ∀ s', startedWait s s' e = none) : QShape s e (notifyLoop n s) := by
  have hx := invQx_of_invQ (t := t) hq (by simp [hcp, isQueued]) (by simp [hcp, isSet])
  obtain ⟨_, sp⟩ := notifyLoop_spec t n s hx
  refine .pop n sp.waiters ?_ (he _)
  unfold signalled
  apply take_drop_filter
  · intro u hu; exact (sp.selected u hu).1
  · intro u hu
    have hnd := hq.q_nodup
    rw [← List.take_append_drop n s.waiters] at hnd
    have hnt : u ∉ s.waiters.take n := fun hm => (List.nodup_append.mp hnd).2.2 u hm u hu rfl
    rw [(sp.others u hnt).1]
    exact queued_not_set ((hq.queue_iff u).mp (List.mem_of_mem_drop hu))

theorem qshape_passOn {s s' : State} {e : Ev} {t : Nat} {exc : Bool} {o : Out} (hq : InvQ s)
    (ht : isSet (s.cpc t) = true) (he : ∀ s', startedWait s s' e = none)
    (h : reacquire t exc (passOn { s with notified := s.notified.erase t }) = some (s', o)) :
    QShape s e s' := by
  have hx : InvQx t { s with notified := s.notified.erase t } := invQx_eraseN hq ht rfl rfl rfl rfl
  have htq : t ∉ s.waiters := hx.t_notq
  cases hw : s.waiters with
  | nil =>
    rw [passOn_nil (by simpa using hw)] at h
    unfold reacquire at h
    exact qshape_lockResult (h := h) hq (by rfl) (by rfl) (by simp [isSet]) he
  | cons u rest =>
    obtain ⟨c', hc', heq⟩ := passOn_cons hx (u := u) (rest := rest) (by simpa using hw)
    rw [heq] at h
    unfold reacquire at h
    obtain ⟨l, lo, _, _, ⟨q1, _⟩, hcase⟩ := lockResult_cases h
    simp only at q1
    have hcp : ∃ X, isSet X = false ∧ s'.cpc = upd (upd s.cpc u c') t X := by
      rcases hcase with ⟨_, _, hcp, _⟩ | ⟨_, _, hcp, _⟩ | ⟨_, _, _, hcp, _⟩
      · exact ⟨_, rfl, hcp⟩
      · exact ⟨_, by simp [isSet], hcp⟩
      · exact ⟨_, rfl, hcp⟩
    obtain ⟨X, hX, hcp⟩ := hcp
    have hut : u ≠ t := by intro h'; subst h'; exact htq (by simp [hw])
    have hnd := hq.q_nodup
    rw [hw] at hnd
    have hur : u ∉ rest := (List.nodup_cons.mp hnd).1
    refine .pop 1 (by rw [q1, hw]; simp) ?_ (he _)
    unfold signalled
    rw [hw]
    apply take_drop_filter
    · intro v hv
      simp only [List.take_succ_cons, List.take_zero, List.mem_singleton] at hv
      subst hv
      rw [hcp]
      simp only [upd_apply, hut, if_false, if_true]
      rcases hc' with rfl | rfl <;> simp [isSet]
    · intro v hv
      simp only [List.drop_succ_cons, List.drop_zero] at hv
      have hvu : v ≠ u := fun h' => hur (h' ▸ hv)
      have hvt : v ≠ t := fun h' => htq (by rw [hw]; exact List.mem_cons_of_mem _ (h' ▸ hv))
      rw [hcp]
      simp only [upd_apply, hvt, hvu, if_false]
      exact queued_not_set ((hq.queue_iff v).mp (by rw [hw]; exact List.mem_cons_of_mem _ hv))

theorem qshape_step {s s' : State} {e : Ev} {o : Out} (hq : InvQ s) (hs : step s e = some (s', o)) :
    QShape s e s' := by
  cases e with
  | acquire t pre =>
    simp only [step] at hs
    split at hs; · contradiction
    exact qshape_lockResult (h := hs) hq (by rfl) (by rfl) (by simp [isSet]) (fun _ => rfl)
  | acquireNowait t =>
    simp only [step] at hs
    split at hs; · contradiction
    exact qshape_lockResult (h := hs) hq (by rfl) (by rfl) (by simp [isSet]) (fun _ => rfl)
  | release t =>
    simp only [step] at hs
    split at hs; · contradiction
    split at hs
    · contradiction
    · cases hs; exact .same rfl (signalled_nil_same hq rfl) rfl
    · cases hs; exact .same rfl (signalled_nil_same hq rfl) rfl
  | wait t pre =>
    simp only [step] at hs
    split at hs; · contradiction
    rename_i hcp; simp only [ne_eq, Decidable.not_not] at hcp
    have htq : t ∉ s.waiters := by
      intro hm; have := (hq.queue_iff t).mp hm; simp [hcp, isQueued] at this
    split at hs
    · cases hs
      exact .same rfl (signalled_nil_upd hq rfl (by simp [isSet])) (by simp [startedWait, htq])
    · unfold waitBody at hs
      split at hs
      · cases hs
        exact .same rfl (signalled_nil_same hq rfl) (by simp [startedWait, htq])
      · simp only at hs
        split at hs
        · contradiction
        · cases hs
          exact .push t rfl (signalled_nil_upd hq rfl (by simp [isSet])) (by simp [startedWait, htq])
        · cases hs
          exact .push t rfl (signalled_nil_same hq rfl) (by simp [startedWait, htq])
  | notify t n =>
    simp only [step] at hs
    split at hs; · contradiction
    rename_i hcp; simp only [ne_eq, Decidable.not_not] at hcp
    split at hs
    · cases hs; exact .same rfl (signalled_nil_same hq rfl) rfl
    · cases hs; exact qshape_notify hq hcp (fun _ => rfl)
  | notifyAll t =>
    simp only [step] at hs
    split at hs; · contradiction
    rename_i hcp; simp only [ne_eq, Decidable.not_not] at hcp
    split at hs
    · cases hs; exact .same rfl (signalled_nil_same hq rfl) rfl
    · cases hs; exact qshape_notify hq hcp (fun _ => rfl)
  | fc t =>
    simp only [step] at hs
    split at hs
    · cases hs; exact .same rfl (signalled_nil_upd hq rfl (by simp [isSet])) rfl
    · split at hs
      · cases hs; exact .same rfl (signalled_nil_same hq rfl) rfl
      · contradiction
    · split at hs
      · cases hs; exact .same rfl (signalled_nil_same hq rfl) rfl
      · contradiction
    · contradiction
  | mc t =>
    simp only [step] at hs
    split at hs
    · cases hs; exact .same rfl (signalled_nil_upd hq rfl (by simp [isSet])) rfl
    · rename_i p hcp
      cases hs
      refine .same rfl (signalled_nil hq ?_) rfl
      intro u hu
      have hut : u ≠ t := by
        intro h'; subst h'; have := (hq.queue_iff u).mp hu; simp [hcp, isQueued] at this
      left; simp [upd_apply, hut]
    · split at hs
      · cases hs; exact .same rfl (signalled_nil_same hq rfl) rfl
      · contradiction
    · split at hs
      · cases hs; exact .same rfl (signalled_nil_same hq rfl) rfl
      · contradiction
    · contradiction
  | step t =>
    simp only [step] at hs
    split at hs
    · contradiction
    · contradiction
    · cases hs; exact .same rfl (signalled_nil_same hq rfl) rfl
    · cases hs; exact .same rfl (signalled_nil_upd hq rfl (by simp [isSet])) rfl
    · exact qshape_lockResult (h := hs) hq (by rfl) (by rfl) (by simp [isSet]) (fun _ => rfl)
    · exact qshape_lockResult (h := hs) hq (by rfl) (by rfl) (by simp [isSet]) (fun _ => rfl)
    · unfold reacquire at hs
      exact qshape_lockResult (h := hs) hq (by rfl) (by rfl) (by simp [isSet]) (fun _ => rfl)
    · rename_i hcp
      unfold reacquire at hs
      obtain ⟨l, lo, _, _, ⟨q1, _⟩, hcase⟩ := lockResult_cases hs
      simp only at q1
      have hcp' : ∃ X, isSet X = false ∧ s'.cpc = upd s.cpc t X := by
        rcases hcase with ⟨_, _, hc, _⟩ | ⟨_, _, hc, _⟩ | ⟨_, _, _, hc, _⟩
        · exact ⟨_, rfl, hc⟩
        · exact ⟨_, by simp [isSet], hc⟩
        · exact ⟨_, rfl, hc⟩
      obtain ⟨X, hX, hc⟩ := hcp'
      exact .leave t q1 (signalled_nil_upd hq hc hX) rfl
    · rename_i p hcp
      exact qshape_passOn hq (by simp [hcp, isSet]) (fun _ => rfl) hs
    · rename_i p hcp
      exact qshape_passOn hq (by simp [hcp, isSet]) (fun _ => rfl) hs

/-! ### the order invariant -/

def NInv (s : State) (l : NLog) : Prop := (l.sig ++ s.waiters).Sublist l.wq

theorem ninv_init (f : Bool) : NInv (init f) {} := by simp [NInv, init]

theorem ninv_step {s s' : State} {l : NLog} {e : Ev} {o : Out} (hq : InvQ s) (hl : NInv s l)
    (hs : step s e = some (s', o)) : NInv s' (nlogStep s l e s') := by
  unfold NInv at *
  cases qshape_step hq hs with
  | same hw h1 h2 => simpa [nlogStep, hw, h1, h2] using hl
  | push t hw h1 h2 =>
    simp only [nlogStep, hw, h1, h2, Option.toList, List.append_nil, ← List.append_assoc]
    exact List.Sublist.append hl (List.Sublist.refl _)
  | pop k hw h1 h2 =>
    simp only [nlogStep, hw, h1, h2, Option.toList, List.append_nil, List.append_assoc,
      List.take_append_drop]
    exact hl
  | leave t hw h1 h2 =>
    simp only [nlogStep, hw, h1, h2, Option.toList, List.append_nil]
    exact List.Sublist.trans (List.Sublist.append (List.Sublist.refl _) (List.erase_sublist)) hl

theorem ninv_runNLog {s s' : State} {l l' : NLog} (es : List Ev) (hi : Inv s) (hl : NInv s l)
    (h : runNLog s l es = some (s', l')) : Inv s' ∧ NInv s' l' := by
  induction es generalizing s l with
  | nil => simp only [runNLog, Option.some.injEq, Prod.mk.injEq] at h; obtain ⟨rfl, rfl⟩ := h; exact ⟨hi, hl⟩
  | cons e es ih =>
    simp only [runNLog] at h
    split at h
    · contradiction
    · rename_i s1 o hs
      exact ih (inv_step hi hs) (ninv_step hi.q hl hs) h

end AnyioModel.Sync.Condition
