/-
Delivery of cancellation, part 6: every transition of a well-formed state preserves `DI`;
`di_reach`.
-/
import AnyioModel.Kernel.DeliverInv5
import AnyioModel.Kernel.CountInv4

namespace AnyioModel.Kernel

/-! ### the helpers of part 3 and 4 from `WF` -/

theorem deliver_sched_self (a : State) (o : Nat)
    (h : ((deliver a o).scopes o).deliver = true) :
    Handle.deliver o ∈ (deliver a o).ready ++ (deliver a o).cur := by
  rw [deliver_flag_self] at h
  unfold deliver
  simp only [h, if_true]
  simp

theorem LiveAt.of_eq {a b : State} {o : Nat} (h : LiveAt a o) (h1 : b.scopes = a.scopes)
    (h2 : b.tasks = a.tasks) : LiveAt b o := by
  refine h.mono ?_ (fun _ hc => by rw [← h1]; exact hc) (by rw [h1])
  constructor <;> simp [h1, h2]

theorem WF.host_none_inactive {st : State} (w : WF st) (s : Nat)
    (hn : (st.scopes s).host = none) : (st.scopes s).active = false := by
  have := w.host_active s
  rw [hn] at this
  exact this.symm

theorem di_cancelScope' {st : State} (w : WF st) (h : DI st) (s : Nat) (b : Bool) :
    DI (cancelScope st s b) :=
  di_cancelScope w.tree h s b (w.host_none_inactive s)

theorem di_enterScope' {st st' : State} {t s : Nat} (w : WFR st t) (h : DI st)
    (hx : (st.scopes s).exists_ = true) (he : enterScope st t s = some st') : DI st' :=
  di_enterScope w.1 h hx w.st_running he

theorem DI.setTask {st : State} (h : DI st) (t : Nat) (f : Task → Task)
    (hf : (f (st.tasks t)).st = (st.tasks t).st) : DI (st.setTask t f) :=
  h.inert (Inert.of_setTask st t f hf)

theorem DI.setGroup {st : State} (h : DI st) (g : Nat) (f : Group → Group) :
    DI (st.setGroup g f) :=
  h.inert (Inert.of_setGroup st g f)

/-- allocate a future, do inert bookkeeping, block on the future -/
theorem di_newFut_blockOn {x y : State} {t : Nat} (w : WF x) (h : DI x)
    (i : Inert (newFut x).1 y) (hr : (x.tasks t).st = .running) :
    DI (blockOn y t (newFut x).2) :=
  di_blockOn ((h.df (df_newFut x)).inert i) (by rw [i.st]; exact hr)
    ((fresh_newFut w h.bw).inert i)

/-! ### `TaskGroup.__aexit__` -/

theorem di_aexitFinish {st st' : State} {t g : Nat} {ev : ExcVal} {o : Out} (w : WFR st t)
    (h : DI st) (he : aexitFinish st t g ev = some (st', o)) : DI st' := by
  unfold aexitFinish at he
  simp only [] at he
  split at he
  · contradiction
  · rename_i st1 r hex
    simp only [Option.some.injEq, Prod.mk.injEq] at he
    obtain ⟨rfl, _⟩ := he
    exact ((di_exitScope w.1 h hex).setGroup _ _).setTask _ _ rfl

theorem di_aexitLoop {st st' : State} {t g ws : Nat} {ev : ExcVal} {o : Out} (w : WFR st t)
    (h : DI st) (he : aexitLoop st t g ws ev = some (st', o)) : DI st' := by
  unfold aexitLoop at he
  split at he
  · simp only [Option.some.injEq, Prod.mk.injEq] at he
    obtain ⟨rfl, _⟩ := he
    exact di_newFut_blockOn w.1 h
      ((Inert.of_setGroup _ _ _).trans (Inert.of_setTask _ _ _ rfl)) w.st_running
  · split at he
    · contradiction
    · rename_i st1 r hex
      exact di_aexitFinish (w.exitScope hex) (di_exitScope w.1 h hex) he

theorem di_aexitAfterChk {st st' : State} {t g : Nat} {ev : ExcVal} {o : Out} (w : WFR st t)
    (h : DI st) (he : aexitAfterChk st t g ev = some (st', o)) : DI st' := by
  unfold aexitAfterChk at he
  split at he
  · have w1 := w.mkScope false none
    simp only [] at he
    split at he
    · contradiction
    · rename_i st1 hen
      exact di_aexitLoop (w1.1.enterScope w1.2 hen)
        (di_enterScope' w1.1 (di_newScope w.1 h false none) w1.2 hen) he
  · exact di_aexitFinish w h he

/-! ### `task_done` -/

theorem di_taskDoneTail {st st' : State} {g u : Nat} {o : Outcome} {sfo : Option Nat}
    (w : WF st) (h : DI st) (he : taskDoneTail st g u o sfo = some st') : DI st' := by
  unfold taskDoneTail at he
  simp only [] at he
  repeat' (split at he)
  all_goals
    simp only [Option.some.injEq] at he
    subst he
    first
    | exact h
    | exact h.df (df_resolveFut _ _ _)
    | exact h.setGroup _ _
    | exact di_cancelScope' w h _ _
    | exact di_cancelScope' (wf_setGroup_inert w g _ (fun x => by simp)) (h.setGroup _ _) _ _

theorem di_runTaskDone {st st' : State} {u : Nat} (w : WF st) (h : DI st)
    (he : runTaskDone st u = some st') : DI st' := by
  rw [runTaskDone_eq] at he
  split at he
  · rename_i g sc o hg hsc ho
    have hd := w.outcome_done u (by simp [ho])
    have w1 := wf_taskDoneCore (g := g) w hsc hd
    have d1 : DF st (((st.setScope sc (fun x => { x with tasks := x.tasks.erase u })).setGroup g
        (fun x => { x with tasks := x.tasks.erase u })).setTask u
        (fun x => { x with hasState := false, scope := none, doneCbRun := true })) := by
      have key : ∀ x, ((st.setScope sc (fun x => { x with tasks := x.tasks.erase u })).scopes
            x).parent = (st.scopes x).parent ∧
          ((st.setScope sc (fun x => { x with tasks := x.tasks.erase u })).scopes x).active =
            (st.scopes x).active ∧
          ((st.setScope sc (fun x => { x with tasks := x.tasks.erase u })).scopes x).shield =
            (st.scopes x).shield ∧
          ((st.setScope sc (fun x => { x with tasks := x.tasks.erase u })).scopes x).cancelCalled =
            (st.scopes x).cancelCalled ∧
          ((st.setScope sc (fun x => { x with tasks := x.tasks.erase u })).scopes x).deliver =
            (st.scopes x).deliver ∧
          (∀ v, v ∈ ((st.setScope sc (fun x => { x with tasks := x.tasks.erase u })).scopes
            x).tasks → v ∈ (st.scopes x).tasks) := by
        intro x
        by_cases hx : x = sc
        · subst hx; simp; exact fun v hv => List.mem_of_mem_erase hv
        · simp [hx]
      have hst : ∀ v, ((st.setTask u
          (fun x => { x with hasState := false, scope := none, doneCbRun := true })).tasks v).st =
          (st.tasks v).st := by
        intro v
        by_cases hv : v = u
        · subst hv; simp
        · simp [hv]
      refine ⟨?_, fun x => ⟨(key x).2.2.2.2.1, fun _ hc => by rw [← (key x).2.2.2.1]; exact hc⟩,
        fun _ h => h, ?_⟩
      · constructor
        · intro x hx; rw [← (key x).2.1]; exact hx
        · intro x _; exact (key x).1
        · intro x _ hx; rw [← (key x).2.2.1]; exact hx
        · intro x _ hx; rw [← (key x).2.2.2.1]; exact hx
        · intro x v hv; exact (key x).2.2.2.2.2 v hv
        · intro v hv; exact (hst v).trans hv
      · intro bw v f hb
        exact bw v f ((hst v).symm.trans hb)
    have h1 := h.df d1
    refine di_taskDoneTail ?_ ?_ he
    · unfold taskDoneMid
      split
      · split
        · exact wf_frame w1 (frame_resolveFut _ _ _)
        · exact w1
      · exact w1
    · unfold taskDoneMid
      split
      · split
        · exact h1.df (df_resolveFut _ _ _)
        · exact h1
      · exact h1
  · contradiction

/-! ### the end of a coroutine -/

/-- the running task becomes done -/
theorem df_setDone (st : State) (t : Nat) (f : Task → Task) (r : Option Nat)
    (hf : (f (st.tasks t)).st = .done) : DF st { st.setTask t f with running := r } := by
  refine ⟨⟨fun _ h => h, fun _ _ => rfl, fun _ _ h => h, fun _ _ h => h, fun _ _ h => h, ?_⟩,
    fun _ => ⟨rfl, fun _ h => h⟩, fun _ h => h, ?_⟩
  · intro u hu
    by_cases hut : u = t
    · subst hut; simpa using hf
    · simpa [hut] using hu
  · intro bw u g hu
    by_cases hut : u = t
    · subst hut
      have : ((st.setTask u f).tasks u).st = .done := by simpa using hf
      simp only [] at hu
      rw [this] at hu; cases hu
    · exact bw u g (by simpa [hut] using hu)

theorem inert_schedule (st : State) (x : Handle) : Inert st (st.schedule x) := by
  refine Inert.of_loop rfl rfl rfl rfl ?_
  intro y hy
  simp only [schedule_ready, schedule_cur, List.mem_append] at hy ⊢
  rcases hy with hy | hy
  · exact .inl (.inl hy)
  · exact .inr hy

theorem di_finishTask {st st' : State} {t : Nat} {o : Outcome} (w : WFR st t) (h : DI st)
    (he : finishTask st t o = some st') : DI st' := by
  unfold finishTask at he
  simp only [] at he
  split at he
  · rename_i hs hhs
    split at he
    · contradiction
    · rename_i st1 r hex
      simp only [Option.some.injEq] at he
      subst he
      have w1 := w.setTask_inert t (fun x => { x with hexc := o, finished := true }) (fun x => by simp)
      have w2 := wf_foldl_resolveFut w1.1 (st.tasks t).hwaiters .result
      have w3 : WFR _ t := ⟨w2.1, by rw [w2.2]; exact w1.2⟩
      have w4 := w3.setTask_inert t (fun x => { x with hwaiters := [] }) (fun x => by simp)
      have h1 := h.setTask t (fun x => { x with hexc := o, finished := true }) rfl
      have h2 := h1.df (df_foldl_resolveFut _ (st.tasks t).hwaiters .result)
      have h3 := h2.setTask t (fun x => { x with hwaiters := [] }) rfl
      have h4 := di_exitScope w4.1 h3 hex
      exact (h4.df (df_setDone st1 t _ none rfl)).inert (inert_schedule _ _)
  · simp only [Option.some.injEq] at he
    subst he
    exact h.df (df_setDone st t _ none rfl)

/-! ### resuming a task -/

theorem di_continueLib {st st' : State} {t : Nat} {r : Resume} {o : Out} (w : WFR st t)
    (h : DI st) (he : continueLib st t r = some (st', o)) : DI st' := by
  unfold continueLib at he
  split at he
  · simp only [Option.some.injEq, Prod.mk.injEq] at he
    obtain ⟨rfl, _⟩ := he; exact h
  · -- chkIf
    split at he
    · simp only [Option.some.injEq, Prod.mk.injEq] at he
      obtain ⟨rfl, _⟩ := he; exact h.df (df_doYield _ _ w.st_running)
    · simp only [Option.some.injEq, Prod.mk.injEq] at he
      obtain ⟨rfl, _⟩ := he
      exact h.setTask _ _ rfl
  · -- shChk
    split at he
    · contradiction
    · rename_i st1 x hex
      simp only [Option.some.injEq, Prod.mk.injEq] at he
      obtain ⟨rfl, _⟩ := he
      exact (di_exitScope w.1 h hex).setTask _ _ rfl
  · -- sleeping
    simp only [Option.some.injEq, Prod.mk.injEq] at he
    obtain ⟨rfl, _⟩ := he
    have hi : Inert st (st.unschedule (.sleepDone ‹Nat›)) := by
      refine Inert.of_loop rfl rfl rfl rfl ?_
      intro x hx
      simp only [unschedule_ready, unschedule_cur, List.mem_append, List.mem_filter] at hx ⊢
      rcases hx with hx | hx
      · exact .inl ⟨hx, by simp⟩
      · exact .inr ⟨hx, by simp⟩
    exact (h.inert hi).setTask _ _ rfl
  · -- aexitChk
    split at he
    · contradiction
    · rename_i st1 x hex
      have w1 := w.exitScope hex
      have h1 := di_exitScope w.1 h hex
      split at he
      · exact di_aexitAfterChk w1 h1 he
      · split at he
        · exact di_aexitAfterChk (w1.cframe (cframe_cancelScope _ _ _))
            (di_cancelScope' w1.1 h1 _ _) he
        · contradiction
  · -- aexitWait
    rename_i g ws ev hl
    have w1 := w.setGroup_inert g (fun x => { x with onCompleted := none }) (fun x => by simp)
    have h1 := h.setGroup g (fun x => { x with onCompleted := none })
    simp only [] at he
    split at he
    · exact di_aexitLoop w1 h1 he
    · split at he
      · have w2 : WFR (setShield (st.setGroup g (fun x => { x with onCompleted := none })) ws true)
            t := by
          refine WFR.frame ?_ (frame_setShield _ _ _)
          exact ⟨wf_setScope_inert w1.1 ws _ (by simp; exact fun h => .inl h), w1.2⟩
        exact di_aexitLoop (w2.cframe (cframe_cancelScope _ _ _))
          (di_cancelScope' w2.1 (di_setShield w1.1.tree h1 ws true) _ _) he
      · contradiction
  · -- startWait
    split at he
    · simp only [Option.some.injEq, Prod.mk.injEq] at he
      obtain ⟨rfl, _⟩ := he
      exact h.setTask _ _ rfl
    · simp only [] at he
      split at he
      · contradiction
      · rename_i hs hhs
        split at he
        · have w1 := w.cframe (cframe_cancelScope st hs false)
          have h1 := di_cancelScope' w.1 h hs false
          have w2 := w1.mkScope true none
          have h2 := di_newScope w1.1 h1 true none
          split at he
          · contradiction
          · rename_i st2 hen
            have w3 := w2.1.enterScope w2.2 hen
            have h3 := di_enterScope' w2.1 h2 w2.2 hen
            split at he
            · simp only [Option.some.injEq, Prod.mk.injEq] at he
              obtain ⟨rfl, _⟩ := he
              refine (h3.setTask _ _ rfl).df (df_doYield _ _ ?_)
              simpa using w3.st_running
            · simp only [Option.some.injEq, Prod.mk.injEq] at he
              obtain ⟨rfl, _⟩ := he
              have w4 := fun (l : Lib) => w3.setTask_inert t (fun x => { x with lib := l })
                (fun x => by simp)
              exact di_newFut_blockOn (w4 _).1 (h3.setTask _ _ rfl) (Inert.of_setTask _ _ _ rfl)
                (w4 _).st_running
        · simp only [Option.some.injEq, Prod.mk.injEq] at he
          obtain ⟨rfl, _⟩ := he
          exact h.setTask _ _ rfl
  · -- startJoin
    split at he
    · contradiction
    · rename_i st1 x hex
      have h1 := (di_exitScope w.1 h hex).setTask t (fun x => { x with lib := .none }) rfl
      simp only [] at he
      split at he <;>
      · simp only [Option.some.injEq, Prod.mk.injEq] at he
        obtain ⟨rfl, _⟩ := he
        exact h1

/-- `Task.__step` makes the task the running one -/
theorem df_runPre (st : State) (t : Nat) (hnd : (st.tasks t).st ≠ .done) :
    DF st { st.setTask t (fun x => { x with st := .running, mustCancel := false }) with
      running := some t } := by
  refine ⟨⟨fun _ h => h, fun _ _ => rfl, fun _ _ h => h, fun _ _ h => h, fun _ _ h => h, ?_⟩,
    fun _ => ⟨rfl, fun _ h => h⟩, fun _ h => h, ?_⟩
  · intro u hu
    by_cases hut : u = t
    · subst hut; exact absurd hu hnd
    · simpa [hut] using hu
  · intro bw u g hu
    by_cases hut : u = t
    · subst hut; simp at hu
    · exact bw u g (by simpa [hut] using hu)

theorem di_runTask {st st' : State} {t : Nat} {o : Out} (w : WF st) (h : DI st)
    (hr : st.running = none) (hlt : t < st.nTasks) (hnd : (st.tasks t).st ≠ .done)
    (he : runTask st t = some (st', o)) : DI st' := by
  have w1 := wfr_runPre w hr hlt hnd
  have h1 := h.df (df_runPre st t hnd)
  unfold runTask at he
  simp only [] at he
  split at he
  · rename_i hs hst hhs
    split at he
    · split at he
      · contradiction
      · rename_i st1 hen
        simp only [Option.some.injEq, Prod.mk.injEq] at he
        obtain ⟨rfl, _⟩ := he
        have hx : hs < st.nScopes := w.hscope_lt t hs hhs
        exact di_enterScope' w1 h1 (by simpa using (w.scope_exists hs).mpr hx) hen
    · simp only [Option.some.injEq, Prod.mk.injEq] at he
      obtain ⟨rfl, _⟩ := he
      exact (h1.df (df_setDone _ t _ none rfl)).inert (inert_schedule _ _)
  · exact di_continueLib w1 h1 he

theorem inert_shrinkCur (st : State) (x : Handle) (hx : ∀ s, x ≠ .deliver s) :
    Inert st { st with cur := st.cur.erase x } := by
  refine Inert.of_loop rfl rfl rfl rfl ?_
  intro y hy
  simp only [List.mem_append] at hy ⊢
  rcases hy with hy | hy
  · exact .inl hy
  · exact .inr ((List.mem_erase_of_ne (fun e => hx y e.symm)).mpr hy)

theorem di_runHandle {st st' : State} {x : Handle} {o : Out} (w : WF st) (h : DI st)
    (hs : step st (.run x) = some (st', o)) : DI st' := by
  simp only [step] at hs
  split at hs
  · contradiction
  · rename_i hg
    have hrun : st.running = none := by
      cases hr : st.running <;> simp_all
    have hxc : x ∈ st.cur := by
      apply Classical.byContradiction; intro hx; exact hg (.inr hx)
    have hok := w.cur_ok x hxc
    have w1 : WF { st with cur := st.cur.erase x } :=
      wf_shrinkCur w _ (fun y hy => List.mem_of_mem_erase hy)
    cases x with
    | step t =>
      have h1 := h.inert (inert_shrinkCur st (.step t) (fun s e => by cases e))
      simp only [] at hs
      split at hs
      · rename_i hst
        refine di_runTask w1 h1 hrun hok ?_ hs
        rcases hst with hst | hst <;> simp_all
      · contradiction
    | wakeup t =>
      have h1 := h.inert (inert_shrinkCur st (.wakeup t) (fun s e => by cases e))
      simp only [] at hs
      split at hs
      · rename_i f hst
        refine di_runTask w1 h1 hrun hok ?_ hs
        simp_all
      · contradiction
    | deliver s =>
      simp only [Option.some.injEq, Prod.mk.injEq] at hs
      obtain ⟨rfl, _⟩ := hs
      -- one `deliver s` handle is consumed; `deliver` re-establishes the flag and the handle
      have d := dw_deliver ({ st with cur := st.cur.erase (.deliver s) } : State) s
      constructor
      · intro x
        by_cases hx : x = s
        · subst hx; exact liveAt_deliver w1.tree x
        · exact ((h.live x).of_eq (b := { st with cur := st.cur.erase (.deliver s) }) rfl rfl).mono
            d.nle (fun _ hc => by rw [← (d.same x hx).2]; exact hc) (d.same x hx).1
      · intro x hd
        by_cases hx : x = s
        · subst hx; exact deliver_sched_self _ x hd
        · rw [(d.same x hx).1] at hd
          apply d.hk x
          have := h.sched x hd
          simp only [List.mem_append] at this ⊢
          rcases this with hm | hm
          · exact .inl hm
          · exact .inr ((List.mem_erase_of_ne (fun e => hx (by cases e; rfl))).mpr hm)
      · exact d.bw h.bw
    | timeout s =>
      have h1 := h.inert (inert_shrinkCur st (.timeout s) (fun s e => by cases e))
      simp only [Option.some.injEq, Prod.mk.injEq] at hs
      obtain ⟨rfl, _⟩ := hs
      have w2 : WF (({ st with cur := st.cur.erase (.timeout s) } : State).setScope s
          (fun x => { x with timer := false })) :=
        wf_setScope_inert w1 s _ (by simp; exact fun h => .inl h)
      exact di_armTimeout w2.tree
        (h1.df (DF.of_setScope _ s _ ⟨rfl, rfl, rfl, rfl, rfl, rfl⟩)) s (w2.host_none_inactive s)
    | sleepDone f =>
      have h1 := h.inert (inert_shrinkCur st (.sleepDone f) (fun s e => by cases e))
      simp only [Option.some.injEq, Prod.mk.injEq] at hs
      obtain ⟨rfl, _⟩ := hs
      exact h1.df (df_resolveFut _ _ _)
    | taskDone u =>
      have h1 := h.inert (inert_shrinkCur st (.taskDone u) (fun s e => by cases e))
      simp only [] at hs
      split at hs
      · rename_i st1 htd
        simp only [Option.some.injEq, Prod.mk.injEq] at hs
        obtain ⟨rfl, _⟩ := hs
        exact di_runTaskDone w1 h1 htd
      · contradiction

/-! ### `__aexit__`, first part -/

theorem di_aexitPrep' {st : State} (w : WF st) (h : DI st) (g : Nat) (ev : ExcVal) :
    DI (aexitPrep' st g ev) := by
  unfold aexitPrep'
  split
  · simp only []
    split
    · exact di_cancelScope' w h _ _
    · exact (di_cancelScope' w h _ _).setGroup _ _
  · exact h

theorem di_aexit {st st' : State} {g : Nat} {ev : ExcVal} {o : Out} (w : WF st) (h : DI st)
    (hs : step st (.aexit g ev) = some (st', o)) : DI st' := by
  rw [step_aexit'] at hs
  split at hs
  · contradiction
  · rename_i t hr
    split at hs
    · contradiction
    · have w1 := wfr_aexitPrep' ⟨w, hr⟩ g ev
      have h1 := di_aexitPrep' w h g ev
      simp only [] at hs
      split at hs
      · have w2 := w1.mkScope true none
        split at hs
        · contradiction
        · rename_i st1 hen
          simp only [Option.some.injEq, Prod.mk.injEq] at hs
          obtain ⟨rfl, _⟩ := hs
          have w3 := w2.1.enterScope w2.2 hen
          refine ((di_enterScope' w2.1 (di_newScope w1.1 h1 true none) w2.2 hen).setTask _ _
            rfl).df (df_doYield _ _ ?_)
          simpa using w3.st_running
      · exact di_aexitAfterChk w1 h1 hs

/-! ### every transition -/

theorem di_step {st st' : State} {e : Ev} {o : Out} (w : WF st) (h : DI st)
    (hs : step st e = some (st', o)) : DI st' := by
  cases e with
  | beginCycle now =>
    simp only [step] at hs
    split at hs
    · contradiction
    · rename_i hg
      simp only [Option.some.injEq, Prod.mk.injEq] at hs
      obtain ⟨rfl, _⟩ := hs
      have hc : st.cur = [] := by
        cases hc : st.cur with
        | nil => rfl
        | cons a l => exact absurd (.inr (.inl (by simp [hc]))) hg
      refine h.inert (Inert.of_loop rfl rfl rfl rfl ?_)
      intro x hx
      simp only [hc, List.append_nil] at hx
      simp only [List.mem_append]
      exact .inr (.inl hx)
  | run x => exact di_runHandle w h hs
  | mkScope sh d =>
    simp only [step, Option.some.injEq, Prod.mk.injEq] at hs
    obtain ⟨rfl, _⟩ := hs
    exact di_newScope w h sh d
  | enter s =>
    simp only [step] at hs
    split at hs
    · contradiction
    · rename_i t hr
      split at hs
      · contradiction
      · rename_i hg
        have hx : (st.scopes s).exists_ = true := by
          cases hx : (st.scopes s).exists_ <;> simp_all
        split at hs
        · simp only [Option.some.injEq, Prod.mk.injEq] at hs
          obtain ⟨rfl, _⟩ := hs; exact h
        · rename_i st1 hen
          simp only [Option.some.injEq, Prod.mk.injEq] at hs
          obtain ⟨rfl, _⟩ := hs
          exact di_enterScope' ⟨w, hr⟩ h hx hen
  | exit s ev =>
    simp only [step] at hs
    split at hs
    · contradiction
    · rename_i t hr
      split at hs
      · contradiction
      · split at hs
        · simp only [Option.some.injEq, Prod.mk.injEq] at hs
          obtain ⟨rfl, _⟩ := hs; exact h
        · rename_i st1 r hex
          simp only [Option.some.injEq, Prod.mk.injEq] at hs
          obtain ⟨rfl, _⟩ := hs
          exact di_exitScope w h hex
  | cancel s =>
    simp only [step] at hs
    split at hs
    · contradiction
    · simp only [Option.some.injEq, Prod.mk.injEq] at hs
      obtain ⟨rfl, _⟩ := hs
      exact di_cancelScope' w h _ _
  | setShield s b =>
    simp only [step] at hs
    split at hs
    · contradiction
    · simp only [Option.some.injEq, Prod.mk.injEq] at hs
      obtain ⟨rfl, _⟩ := hs
      exact di_setShield w.tree h _ _
  | setDeadline s d =>
    simp only [step] at hs
    split at hs
    · contradiction
    · simp only [Option.some.injEq, Prod.mk.injEq] at hs
      obtain ⟨rfl, _⟩ := hs
      exact di_setDeadline w.tree h _ _ (w.host_none_inactive s)
  | yield =>
    simp only [step] at hs
    split at hs
    · contradiction
    · rename_i t hr
      split at hs
      · contradiction
      · simp only [Option.some.injEq, Prod.mk.injEq] at hs
        obtain ⟨rfl, _⟩ := hs
        exact h.df (df_doYield _ _ (WFR.st_running ⟨w, hr⟩))
  | mkFut =>
    simp only [step, Option.some.injEq, Prod.mk.injEq] at hs
    obtain ⟨rfl, _⟩ := hs
    exact (h.df (df_newFut st)).inert (Inert.of_loop rfl rfl rfl rfl (fun _ h => h))
  | setFut f =>
    simp only [step] at hs
    split at hs
    · contradiction
    · simp only [Option.some.injEq, Prod.mk.injEq] at hs
      obtain ⟨rfl, _⟩ := hs
      exact h.df (df_resolveFut _ _ _)
  | awaitFut f =>
    simp only [step] at hs
    split at hs
    · contradiction
    · rename_i t hr
      split at hs
      · contradiction
      · split at hs
        · rename_i hp
          split at hs
          · contradiction
          · rename_i hw
            simp only [Option.some.injEq, Prod.mk.injEq] at hs
            obtain ⟨rfl, _⟩ := hs
            refine di_blockOn h (WFR.st_running ⟨w, hr⟩) ⟨hp, ?_⟩
            intro u hu
            have := (h.bw u f hu).1
            rw [this] at hw; exact hw rfl
        all_goals
          simp only [Option.some.injEq, Prod.mk.injEq] at hs
          obtain ⟨rfl, _⟩ := hs; exact h
  | sleep d =>
    simp only [step] at hs
    split at hs
    · contradiction
    · rename_i t hr
      split at hs
      · contradiction
      · simp only [Option.some.injEq, Prod.mk.injEq] at hs
        obtain ⟨rfl, _⟩ := hs
        have i1 : Inert (newFut st).1 { (newFut st).1 with timers := (newFut st).1.timers ++
            [((newFut st).1.now + d, Handle.sleepDone (newFut st).2)] } :=
          Inert.of_loop rfl rfl rfl rfl (fun _ h => h)
        exact di_newFut_blockOn w h (i1.trans (Inert.of_setTask _ _ _ rfl))
          (WFR.st_running ⟨w, hr⟩)
  | chkIfCancelled =>
    simp only [step] at hs
    split at hs
    · contradiction
    · rename_i t hr
      split at hs
      · contradiction
      · split at hs
        · split at hs
          · simp only [Option.some.injEq, Prod.mk.injEq] at hs
            obtain ⟨rfl, _⟩ := hs
            refine (h.setTask _ _ rfl).df (df_doYield _ _ ?_)
            simpa using WFR.st_running ⟨w, hr⟩
          · simp only [Option.some.injEq, Prod.mk.injEq] at hs
            obtain ⟨rfl, _⟩ := hs; exact h
        · simp only [Option.some.injEq, Prod.mk.injEq] at hs
          obtain ⟨rfl, _⟩ := hs; exact h
  | shieldedChk =>
    simp only [step] at hs
    split at hs
    · contradiction
    · rename_i t hr
      split at hs
      · contradiction
      · have w1 := WFR.mkScope ⟨w, hr⟩ true none
        split at hs
        · contradiction
        · rename_i st1 hen
          simp only [Option.some.injEq, Prod.mk.injEq] at hs
          obtain ⟨rfl, _⟩ := hs
          have w3 := w1.1.enterScope w1.2 hen
          refine ((di_enterScope' w1.1 (di_newScope w h true none) w1.2 hen).setTask _ _ rfl).df
            (df_doYield _ _ ?_)
          simpa using w3.st_running
  | nativeCancel u =>
    simp only [step] at hs
    split at hs
    · contradiction
    · simp only [Option.some.injEq, Prod.mk.injEq] at hs
      obtain ⟨rfl, _⟩ := hs
      have fr := frame_taskCancel st u false
      refine h.df ⟨NLe.of_cframe fr.cframe, fun s => ?_, fun _ h => mem_ready_cur_frame fr h, ?_⟩
      · rw [taskCancel_scopes]; exact ⟨rfl, fun _ h => h⟩
      · intro bw
        unfold taskCancel
        simp only []
        split
        · exact bw
        · split
          · refine bw_resolveFut ?_ _ _
            intro v k hv
            exact bw v k (by
              by_cases hvu : v = u
              · subst hvu; simpa using hv
              · simpa [hvu] using hv)
          · intro v k hv
            exact bw v k (by
              by_cases hvu : v = u
              · subst hvu; simpa using hv
              · simpa [hvu] using hv)
  | uncancel =>
    simp only [step] at hs
    split at hs
    · contradiction
    · rename_i t hr
      split at hs
      · contradiction
      · simp only [Option.some.injEq, Prod.mk.injEq] at hs
        obtain ⟨rfl, _⟩ := hs
        exact (h.setTask t _ rfl).setTask t _ rfl
  | mkGroup =>
    simp only [step, Option.some.injEq, Prod.mk.injEq] at hs
    obtain ⟨rfl, _⟩ := hs
    exact (di_newScope w h false none).inert (Inert.of_loop rfl rfl rfl rfl (fun _ h => h))
  | groupEnter g =>
    simp only [step] at hs
    split at hs
    · contradiction
    · rename_i t hr
      split at hs
      · contradiction
      · rename_i hg
        split at hs
        · simp only [Option.some.injEq, Prod.mk.injEq] at hs
          obtain ⟨rfl, _⟩ := hs; exact h
        · split at hs
          · contradiction
          · rename_i st1 hen
            simp only [Option.some.injEq, Prod.mk.injEq] at hs
            obtain ⟨rfl, _⟩ := hs
            have hx := (w.scope_exists _).mpr (w.group_scope_lt g (by omega))
            exact (di_enterScope' ⟨w, hr⟩ h hx hen).setGroup _ _
  | spawn g =>
    simp only [step] at hs
    split at hs
    · contradiction
    · rename_i hg
      split at hs
      · simp only [Option.some.injEq, Prod.mk.injEq] at hs
        obtain ⟨rfl, _⟩ := hs; exact h
      · rename_i hg2
        simp only [Option.some.injEq, Prod.mk.injEq] at hs
        obtain ⟨rfl, _⟩ := hs
        refine di_spawn none w h (by omega) ?_
        cases ha : (st.scopes (st.groups g).scope).active <;> simp_all
  | aexit g ev => exact di_aexit w h hs
  | start g =>
    simp only [step] at hs
    split at hs
    · contradiction
    · rename_i t hr
      split at hs
      · contradiction
      · rename_i hg
        split at hs
        · simp only [Option.some.injEq, Prod.mk.injEq] at hs
          obtain ⟨rfl, _⟩ := hs; exact h
        · rename_i hg2
          simp only [Option.some.injEq, Prod.mk.injEq] at hs
          obtain ⟨rfl, _⟩ := hs
          have w0 := wf_newFut w
          have h0 := h.df (df_newFut st)
          have hg' : g < (newFut st).1.nGroups := by simp [newFut]; omega
          have ha : ((newFut st).1.scopes ((newFut st).1.groups g).scope).active = true := by
            cases ha : (st.scopes (st.groups g).scope).active <;> simp_all [newFut]
          have w2 := wf_spawn (some (newFut st).2) w0 hg' ha
          have h2 := di_spawn (some (newFut st).2) w0 h0 hg' ha
          have f2 := spawn_fresh (g := g) (some (newFut st).2) h0.bw (fresh_newFut w h.bw)
          have hr2 : (spawn (newFut st).1 g (some (newFut st).2)).1.running = some t := by
            rw [w2.2.1]; exact hr
          have hst := (w2.1.running_spec t).mp hr2
          exact di_blockOn (h2.setTask _ _ rfl) (by simpa using hst)
            (f2.inert (Inert.of_setTask _ _ _ rfl))
  | started =>
    simp only [step] at hs
    split at hs
    · contradiction
    · rename_i t hr
      split at hs
      · contradiction
      · split at hs
        · simp only [Option.some.injEq, Prod.mk.injEq] at hs
          obtain ⟨rfl, _⟩ := hs
          exact h.df (df_resolveFut _ _ _)
        all_goals
          simp only [Option.some.injEq, Prod.mk.injEq] at hs
          obtain ⟨rfl, _⟩ := hs; exact h
  | handleCancel u =>
    simp only [step] at hs
    split at hs
    · contradiction
    · simp only [Option.some.injEq, Prod.mk.injEq] at hs
      obtain ⟨rfl, _⟩ := hs
      split
      · exact h
      · exact di_cancelScope' w h _ _
  | handleWait u =>
    simp only [step] at hs
    split at hs
    · contradiction
    · rename_i t hr
      split at hs
      · contradiction
      · split at hs
        · simp only [Option.some.injEq, Prod.mk.injEq] at hs
          obtain ⟨rfl, _⟩ := hs
          exact h.df (df_doYield _ _ (WFR.st_running ⟨w, hr⟩))
        · simp only [Option.some.injEq, Prod.mk.injEq] at hs
          obtain ⟨rfl, _⟩ := hs
          exact di_newFut_blockOn w h (Inert.of_setTask _ _ _ rfl) (WFR.st_running ⟨w, hr⟩)
  | finish o' =>
    simp only [step] at hs
    split at hs
    · contradiction
    · rename_i t hr
      split at hs
      · contradiction
      · split at hs
        · contradiction
        · split at hs
          · contradiction
          · rename_i st1 hf
            simp only [Option.some.injEq, Prod.mk.injEq] at hs
            obtain ⟨rfl, _⟩ := hs
            exact di_finishTask ⟨w, hr⟩ h hf

theorem di_init : DI init := by
  refine ⟨?_, ?_, ?_⟩
  · intro o _ hc; simp [init] at hc
  · intro o hd; simp [init] at hd
  · intro t f hb
    by_cases ht : t = 0 <;> simp [init, ht] at hb

/-- the delivery invariant holds in every reachable state -/
theorem di_reach {st : State} (hr : Reach st) : DI st := by
  induction hr with
  | start h => subst h; exact di_init
  | next hr hs ih => exact di_step (wf_reach hr) ih hs

end AnyioModel.Kernel
