/-
Timer invariant, part 6: consequences used by `Props/C06.lean`.
-/
import AnyioModel.Kernel.TimerInv5
import AnyioModel.Kernel.WF10

namespace AnyioModel.Kernel

theorem tmL_length (l : List (Nat × Handle)) (s : Nat) :
    (tmL l s).length = (l.filter (fun p => p.2 = Handle.timeout s)).length := by
  induction l with
  | nil => rfl
  | cons p l ih =>
    rw [tmL_cons]
    by_cases hh : p.2 = Handle.timeout s <;> simp [hh, ih]

/-- the readable form of the per-scope invariant -/
theorem TInv.facts {st : State} (h : TInv st) (s : Nat) :
    ((st.scopes s).timer = true ↔
      (∃ w, (w, Handle.timeout s) ∈ st.timers) ∨ Handle.timeout s ∈ st.cur) ∧
    Handle.timeout s ∉ st.ready ∧
    (st.timers.filter (fun p => p.2 = Handle.timeout s)).length +
      st.cur.count (Handle.timeout s) ≤ 1 ∧
    (∀ w, (w, Handle.timeout s) ∈ st.timers → (st.scopes s).deadline = some w ∧ st.now < w) ∧
    (Handle.timeout s ∈ st.cur → ∃ d, (st.scopes s).deadline = some d ∧ d ≤ st.now) ∧
    ((st.scopes s).timer = true → (st.scopes s).active = true ∧ (st.scopes s).entered = true ∧
      ∃ d, (st.scopes s).deadline = some d) ∧
    (∀ d, (st.scopes s).active = true → (st.scopes s).cancelCalled = false →
      (st.scopes s).deadline = some d → (st.scopes s).timer = true) := by
  have hs := h s
  have hcnt := hs.count
  have hex : (st.scopes s).timer = true →
      (∃ w, (w, Handle.timeout s) ∈ st.timers) ∨ Handle.timeout s ∈ st.cur := by
    intro ht
    rw [ht] at hcnt
    simp only [if_true] at hcnt
    by_cases hc : 0 < st.cur.count (Handle.timeout s)
    · exact .inr (List.count_pos_iff.1 hc)
    · have : 0 < (tmL st.timers s).length := by omega
      obtain ⟨w, hw⟩ := List.exists_mem_of_length_pos this
      exact .inl ⟨w, mem_tmL.1 hw⟩
  refine ⟨⟨hex, ?_⟩, ?_, ?_, ?_, ?_, ?_, hs.live⟩
  · intro hp
    cases ht : (st.scopes s).timer with
    | true => rfl
    | false =>
      rw [ht] at hcnt
      simp only [Bool.false_eq_true, if_false] at hcnt
      rcases hp with ⟨w, hw⟩ | hm
      · have := List.length_pos_of_mem (mem_tmL.2 hw); omega
      · have := List.count_pos_iff.2 hm; omega
  · intro hm
    have := List.count_pos_iff.2 hm
    have := hs.ready
    omega
  · rw [← tmL_length]
    split at hcnt <;> omega
  · intro w hw; exact hs.tm w (mem_tmL.2 hw)
  · intro hm; exact hs.cu (List.count_pos_iff.2 hm)
  · intro ht
    have ha := hs.act ht
    refine ⟨ha, hs.ae ha, ?_⟩
    rcases hex ht with ⟨w, hw⟩ | hm
    · exact ⟨w, (hs.tm w (mem_tmL.2 hw)).1⟩
    · obtain ⟨d, hd, _⟩ := hs.cu (List.count_pos_iff.2 hm); exact ⟨d, hd⟩

theorem TInv.noTimeout {st : State} (h : TInv st) {s : Nat}
    (ht : (st.scopes s).timer = false) : NoTimeout st s := by
  obtain ⟨h1, h2, _⟩ := h.facts s
  refine ⟨fun d hm => ?_, h2, fun hm => ?_⟩
  · have := h1.2 (.inl ⟨d, hm⟩); simp_all
  · have := h1.2 (.inr hm); simp_all

theorem TInv.inactive {st : State} (h : TInv st) {s : Nat}
    (ha : (st.scopes s).active = false) : (st.scopes s).timer = false := by
  cases ht : (st.scopes s).timer with
  | false => rfl
  | true => have := (h s).act ht; simp_all

/-! ### the start of a cycle -/

theorem beginCycle_spec {st st' : State} {n : Nat} {o : Out}
    (hs : step st (.beginCycle n) = some (st', o)) :
    st.running = none ∧ st.cur = [] ∧ st.now ≤ n ∧ st'.now = n ∧ st'.scopes = st.scopes ∧
      st'.cycle = st.cycle + 1 := by
  simp only [step] at hs
  split at hs
  · cases hs
  · rename_i hg
    simp only [Option.some.injEq, Prod.mk.injEq] at hs
    obtain ⟨rfl, _⟩ := hs
    refine ⟨?_, ?_, ?_, rfl, rfl, rfl⟩
    · cases hr : st.running with
      | none => rfl
      | some t => exact absurd (.inl (by simp [hr])) hg
    · apply Classical.byContradiction; intro hc; exact hg (.inr (.inl hc))
    · apply Classical.byContradiction; intro hc; exact hg (.inr (.inr (by omega)))

/-- a due deadline is never missed: the cycle that starts at or after the deadline has the
scope's (one) timeout callback in its batch -/
theorem never_missed {st st' : State} {n s d : Nat} {o : Out} (hi : TInv st)
    (ha : (st.scopes s).active = true) (hc : (st.scopes s).cancelCalled = false)
    (hd : (st.scopes s).deadline = some d)
    (hs : step st (.beginCycle n) = some (st', o)) (hdue : d ≤ n) :
    Handle.timeout s ∈ st'.cur ∧ st'.cur.count (Handle.timeout s) = 1 ∧
      (∀ w, (w, Handle.timeout s) ∉ st'.timers) := by
  have hi' := tinv_beginCycle hi hs
  obtain ⟨_, _, _, hn, hsc, _⟩ := beginCycle_spec hs
  have hs' := hi' s
  rw [hsc, hn] at hs'
  have ht := (hi s).live d ha hc hd
  have hcnt := hs'.count
  rw [ht] at hcnt
  simp only [if_true] at hcnt
  have hnil : tmL st'.timers s = [] := by
    cases hl : tmL st'.timers s with
    | nil => rfl
    | cons w l =>
      have := hs'.tm w (by rw [hl]; simp)
      rw [hd] at this
      simp only [Option.some.injEq] at this
      omega
  rw [hnil] at hcnt
  simp only [List.length_nil, Nat.zero_add] at hcnt
  refine ⟨List.count_pos_iff.1 (by omega), hcnt, fun w hw => ?_⟩
  have := mem_tmL.2 hw
  rw [hnil] at this
  cases this

/-- once in the batch, the handle stays there until it is run or the scope is left, cancelled, or
given another deadline (each of which cancels the handle) -/
theorem handle_stays {st st' : State} {e : Ev} {o : Out} {s : Nat} (hi : TInv st)
    (hm : Handle.timeout s ∈ st.cur) (hs : step st e = some (st', o)) :
    Handle.timeout s ∈ st'.cur ∨ (st'.scopes s).active = false ∨
      (st'.scopes s).cancelCalled = true ∨ (st'.scopes s).deadline ≠ (st.scopes s).deadline := by
  have hnb : ∀ n, e ≠ .beginCycle n := by
    intro n he; subst he
    have := (beginCycle_spec hs).2.1
    rw [this] at hm; cases hm
  have hn := step_now hi hs hnb
  have hi' := tinv_step hi hs
  obtain ⟨d, hd, hdue⟩ := (hi s).cu (List.count_pos_iff.2 hm)
  cases ha : (st'.scopes s).active with
  | false => exact .inr (.inl rfl)
  | true =>
    cases hc : (st'.scopes s).cancelCalled with
    | true => exact .inr (.inr (.inl rfl))
    | false =>
      by_cases hde : (st'.scopes s).deadline = (st.scopes s).deadline
      · left
        rw [hd] at hde
        have ht := (hi' s).live d ha hc hde
        have hcnt := (hi' s).count
        rw [ht] at hcnt
        simp only [if_true] at hcnt
        have hnil : tmL st'.timers s = [] := by
          cases hl : tmL st'.timers s with
          | nil => rfl
          | cons w l =>
            have := (hi' s).tm w (by rw [hl]; simp)
            rw [hde, hn] at this
            simp only [Option.some.injEq] at this
            omega
        rw [hnil] at hcnt
        simp only [List.length_nil, Nat.zero_add] at hcnt
        exact List.count_pos_iff.1 (by omega)
      · exact .inr (.inr (.inr hde))

/-! ### a scope that has been left -/

/-- step-local: a scope that has been entered and left stays so, and its "cancelled by deadline"
flag never changes again -/
theorem exited_step {st st' : State} {e : Ev} {o : Out} {s : Nat} (hi : TInv st)
    (hlt : s < st.nScopes) (he : (st.scopes s).entered = true)
    (ha : (st.scopes s).active = false) (hs : step st e = some (st', o)) :
    (st'.scopes s).entered = true ∧ (st'.scopes s).active = false ∧
      (st'.scopes s).byDeadline = (st.scopes s).byDeadline := by
  obtain ⟨a1, a2, a3, a4, a5, a6⟩ := snorm_step hi hs s hlt
  have hbd := (hi s).bd
  refine ⟨a2 he, a3 he ha, ?_⟩
  cases hc : (st.scopes s).cancelCalled with
  | true => exact (a4 hc).2.1
  | false =>
    have hb0 : (st.scopes s).byDeadline = false := by
      cases hb : (st.scopes s).byDeadline with
      | false => rfl
      | true => have := (hbd hb).1; simp_all
    rw [hb0]
    cases hc' : (st'.scopes s).cancelCalled with
    | false => rw [a6 hc']; exact hb0
    | true =>
      cases hb : (st'.scopes s).byDeadline with
      | false => rfl
      | true =>
        have := ((a5 hc hc').2 hb).2.1 he
        simp_all

theorem exited_runFrom {st : State} (hr : Reach st) {s : Nat}
    (he : (st.scopes s).entered = true) (ha : (st.scopes s).active = false) (es : List Ev)
    {st' : State} (h : runFrom step st es = some st') :
    (st'.scopes s).entered = true ∧ (st'.scopes s).active = false ∧
      (st'.scopes s).byDeadline = (st.scopes s).byDeadline := by
  induction es generalizing st with
  | nil =>
    simp only [runFrom, Option.some.injEq] at h
    subst h; exact ⟨he, ha, rfl⟩
  | cons e es ih =>
    simp only [runFrom] at h
    split at h
    · cases h
    · rename_i st1 o hs
      have h1 := exited_step (tinv_reach hr) ((wf_reach hr).entered_lt he) he ha hs
      have h2 := ih (Reachable.next hr hs) h1.1 h1.2.1 h
      exact ⟨h2.1, h2.2.1, h2.2.2.trans h1.2.2⟩

end AnyioModel.Kernel
