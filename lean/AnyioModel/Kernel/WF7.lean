/-
`WF`, part 7: building blocks in "the running task is `t`" form, completion of a task, and the
`TaskGroup.__aexit__` helpers.
-/
import AnyioModel.Kernel.WF6

namespace AnyioModel.Kernel

/-- `WF`, and `t` is the running task -/
def WFR (st : State) (t : Nat) : Prop := WF st ∧ st.running = some t

theorem WFR.st_running {st : State} {t : Nat} (h : WFR st t) : (st.tasks t).st = .running :=
  (h.1.running_spec t).mp h.2

theorem WFR.cframe {a b : State} {t : Nat} (h : WFR a t) (f : CFrame a b) : WFR b t :=
  ⟨wf_cframe h.1 f, by rw [f.running]; exact h.2⟩

theorem WFR.frame {a b : State} {t : Nat} (h : WFR a t) (f : Frame a b) : WFR b t :=
  h.cframe f.cframe

theorem WFR.setTask_inert {st : State} {t : Nat} (h : WFR st t) (u : Nat) (f : Task → Task)
    (hf : ∀ x, (f x).st = x.st ∧ (f x).hasState = x.hasState ∧ (f x).scope = x.scope ∧
      (f x).hscope = x.hscope ∧ (f x).group = x.group ∧ (f x).startFut = x.startFut ∧
      (f x).outcome = x.outcome) : WFR (st.setTask u f) t :=
  ⟨wf_setTask_inert h.1 u f hf, h.2⟩

theorem WFR.setGroup_inert {st : State} {t : Nat} (h : WFR st t) (g : Nat) (f : Group → Group)
    (hf : ∀ x, (f x).scope = x.scope ∧ (∀ t ∈ (f x).tasks, t ∈ x.tasks) ∧
      (∀ t ∈ (f x).spawned, t ∈ x.spawned)) : WFR (st.setGroup g f) t :=
  ⟨wf_setGroup_inert h.1 g f hf, h.2⟩

theorem WFR.mkScope {st : State} {t : Nat} (h : WFR st t) (sh : Bool) (d : Option Nat) :
    WFR (newScope st sh d).1 t ∧ ((newScope st sh d).1.scopes (newScope st sh d).2).exists_ = true :=
  ⟨⟨wf_newScope h.1 sh d, h.2⟩, by unfold newScope; simp⟩

theorem WFR.mkFut {st : State} {t : Nat} (h : WFR st t) :
    WFR (newFut st).1 t ∧ (newFut st).2 < (newFut st).1.nFuts :=
  ⟨⟨wf_newFut h.1, h.2⟩, by unfold newFut; simp⟩

theorem enterScope_running {st st' : State} {t s : Nat} (he : enterScope st t s = some st') :
    st'.running = st.running := by
  obtain ⟨_, _, h3⟩ := enterScope_spec he
  rw [h3.running]; exact (enterPre_frame st t s).2.2.2.2.2.2.1

theorem exitScope_running {st st' : State} {t s : Nat} {ev : ExcVal} {r : ExitResult}
    (he : exitScope st t s ev = some (st', r)) : st'.running = st.running := by
  obtain ⟨_, _, _, _, h5⟩ := exitScope_spec he
  rw [h5.running]; exact (exitPre_frame st t s).2.2.2.2.2.2.1

theorem WFR.enterScope {st st' : State} {t s : Nat} (h : WFR st t)
    (hx : (st.scopes s).exists_ = true) (he : enterScope st t s = some st') : WFR st' t :=
  ⟨wf_enterScope h.1 hx h.st_running he, by rw [enterScope_running he]; exact h.2⟩

theorem WFR.exitScope {st st' : State} {t s : Nat} {ev : ExcVal} {r : ExitResult} (h : WFR st t)
    (he : exitScope st t s ev = some (st', r)) : WFR st' t :=
  ⟨wf_exitScope h.1 he, by rw [exitScope_running he]; exact h.2⟩

theorem WFR.doYield {st : State} {t : Nat} (h : WFR st t) : WF (doYield st t) :=
  wf_doYield h.1 h.2

theorem WFR.blockOn {st : State} {t f : Nat} (h : WFR st t) (hf : f < st.nFuts) :
    WF (blockOn st t f) :=
  wf_blockOn h.1 h.2 hf

theorem wf_schedule {st : State} (h : WF st) (x : Handle) (hx : HandleOk st x) :
    WF (st.schedule x) := by
  apply wf_congr h
  case tk => intro u; simp
  case tkst => intro u; simp
  case run => exact h.running_spec
  case scx => exact h.scope_exists
  case scd => exact h.deadline_exists
  case grs => intro g h1 h2; exact absurd h2 (by simp; exact h1)
  case rd =>
    intro y hy
    simp at hy
    rcases hy with hy | rfl
    · exact .inl hy
    · exact .inr hx
  all_goals first | (exact fun _ h => Or.inl h) | (exact fun _ _ h => Or.inl h) | simp

/-- the running task's coroutine ends -/
theorem wf_setDone {st : State} {t : Nat} (h : WFR st t) (f : Task → Task)
    (hf : ∀ x, (f x).st = .done ∧ (f x).hasState = x.hasState ∧ (f x).scope = x.scope ∧
      (f x).hscope = x.hscope ∧ (f x).group = x.group ∧ (f x).startFut = x.startFut) :
    WF { st.setTask t f with running := none } := by
  have hf' := hf (st.tasks t)
  have hst := h.st_running
  have hlt := h.1.running_lt h.2
  apply wf_congr h.1
  case tk =>
    intro u; by_cases hu : u = t
    · subst hu; simp [hf']; exact .inr hlt
    · simp [hu]
  case tkst =>
    intro u; by_cases hu : u = t
    · subst hu; simp [hst, hf']; omega
    · simp [hu]
  case run =>
    intro u; by_cases hu : u = t
    · subst hu; simp [hf']
    · simp [hu]
      intro hu'
      have := (h.1.running_spec u).mpr hu'
      have := h.2
      simp_all
  case scx => exact h.1.scope_exists
  case scd => exact h.1.deadline_exists
  case grs => intro g h1 h2; exact absurd h2 (by simp; exact h1)
  all_goals first | (exact fun _ h => Or.inl h) | (exact fun _ _ h => Or.inl h) | simp

theorem wf_foldl_resolveFut {st : State} (h : WF st) (l : List Nat) (v : FutSt) :
    WF (l.foldl (fun st f => resolveFut st f v) st) ∧
      (l.foldl (fun st f => resolveFut st f v) st).running = st.running := by
  induction l generalizing st with
  | nil => exact ⟨h, rfl⟩
  | cons f l ih =>
    have fr := frame_resolveFut st f v
    have := ih (wf_frame h fr)
    exact ⟨this.1, by rw [List.foldl_cons, this.2, fr.running]⟩

theorem foldl_resolveFut_task {st : State} (l : List Nat) (v : FutSt) (t : Nat) :
    TaskFrame (st.tasks t) ((l.foldl (fun st f => resolveFut st f v) st).tasks t) := by
  induction l generalizing st with
  | nil => exact TaskFrame.refl _
  | cons f l ih => exact ((frame_resolveFut st f v).tasks t).trans ih

end AnyioModel.Kernel
