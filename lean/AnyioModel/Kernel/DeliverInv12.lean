/-
Delivery of cancellation, part 12: the activity invariant on states (`AI`), the identifier
invariant `LI` (the scopes the library itself enters and leaves — checkpoint scopes, the wait scope
of `__aexit__`, the join scope of `start()`, task-handle scopes — are not task-group scopes), and
their preservation by the cancellation machinery, `__enter__`, `__exit__` and allocation.
-/
import AnyioModel.Kernel.DeliverInv11

namespace AnyioModel.Kernel

def AI (st : State) : Prop := AF st.scopes st.tasks st.groups st.nGroups

/-- the scopes a library frame will leave when it is resumed -/
def libScopes : Lib → List Nat
  | .shChk s => [s]
  | .aexitChk _ s _ => [s]
  | .aexitWait _ ws _ => [ws]
  | .startJoin _ _ s _ => [s]
  | _ => []

/-- the task group a library frame belongs to -/
def libGroup : Lib → Option Nat
  | .aexitChk g _ _ => some g
  | .aexitWait g _ _ => some g
  | _ => none

/-- `s` is not the scope of a task group -/
def NotGS (st : State) (s : Nat) : Prop := ∀ g, g < st.nGroups → (st.groups g).scope ≠ s

structure LI (st : State) : Prop where
  l1 : ∀ t s, s ∈ libScopes (st.tasks t).lib → s < st.nScopes ∧ NotGS st s
  l2 : ∀ t s, (st.tasks t).hscope = some s → NotGS st s
  l3 : ∀ t g, libGroup (st.tasks t).lib = some g → g < st.nGroups
  hinj : ∀ u u' s, (st.tasks u).hscope = some s → (st.tasks u').hscope = some s → u = u'
  ginj : ∀ g g', g < st.nGroups → g' < st.nGroups → (st.groups g).scope = (st.groups g').scope →
    g = g'

theorem NotGS.noGuests {st : State} {s : Nat} (h : NotGS st s) : NoGuests st.groups st.nGroups s :=
  fun g hg he => absurd he (h g hg)

/-! ### congruence -/

theorem AF.congr {sc sc' : Nat → Scope} {tk tk' : Nat → Task} {gr nG} (h : AF sc tk gr nG)
    (hs : ∀ x, (sc' x).active = (sc x).active ∧ (sc' x).parent = (sc x).parent ∧
      (sc' x).host = (sc x).host ∧ (sc' x).tasks = (sc x).tasks ∧ (sc' x).chain = (sc x).chain)
    (ht : ∀ u, ((tk' u).st = .done → (tk u).st = .done) ∧ (tk' u).hscope = (tk u).hscope) :
    AF sc' tk' gr nG := by
  obtain ⟨a1, a2, a3, a4, a5, a6⟩ := h
  constructor
  · intro c p; rw [(hs c).1, (hs c).2.1, (hs p).1]; exact a1 c p
  · intro c t; rw [(hs c).2.2.2.1, (hs c).1]; exact a2 c t
  · intro s t; rw [(hs s).2.2.2.1, (hs s).2.2.1]; exact a3 s t
  · intro c p; rw [(hs c).1, (hs c).2.1, (hs c).2.2.1, (hs p).2.2.1]; exact a4 c p
  · intro s u; rw [(hs s).2.2.1]; intro hh hd; exact a5 s u hh ((ht u).1 hd)
  · intro u hs' x; rw [(ht u).2, (hs hs').2.2.2.2, (hs x).2.2.1]; exact a6 u hs' x

theorem AF.mono_groups {sc tk gr gr' nG nG'} (h : AF sc tk gr nG)
    (hG : ∀ u p, Guest gr nG u p → Guest gr' nG' u p) : AF sc tk gr' nG' := by
  obtain ⟨a1, a2, a3, a4, a5, a6⟩ := h
  refine ⟨a1, a2, ?_, ?_, a5, a6⟩
  · intro s t ht
    rcases a3 s t ht with h | h
    · exact .inl h
    · exact .inr (hG _ _ h)
  · intro c p hc hp
    rcases a4 c p hc hp with h | ⟨u, h1, h2⟩
    · exact .inl h
    · exact .inr ⟨u, h1, hG _ _ h2⟩

theorem AI.of_cframe {a b : State} (h : AI a) (f : CFrame a b) : AI b := by
  unfold AI
  rw [f.groups, f.nGroups]
  exact AF.congr h (fun x => ⟨(f.scopes x).active, (f.scopes x).parent, (f.scopes x).host,
    (f.scopes x).tasks, (f.scopes x).chain⟩)
    (fun u => ⟨(f.tasks u).st_done.mp, (f.tasks u).hscope⟩)

theorem AI.of_frame {a b : State} (h : AI a) (f : Frame a b) : AI b := h.of_cframe f.cframe

theorem LI.congr {a b : State} (h : LI a)
    (ht : ∀ u, (b.tasks u).lib = (a.tasks u).lib ∧ (b.tasks u).hscope = (a.tasks u).hscope)
    (hg : ∀ g, (b.groups g).scope = (a.groups g).scope) (nG : b.nGroups = a.nGroups)
    (nS : a.nScopes ≤ b.nScopes) : LI b := by
  have hn : ∀ s, NotGS a s → NotGS b s := by
    intro s hs g hlt; rw [hg]; exact hs g (nG ▸ hlt)
  constructor
  · intro t s hs
    rw [(ht t).1] at hs
    exact ⟨Nat.lt_of_lt_of_le (h.l1 t s hs).1 nS, hn s (h.l1 t s hs).2⟩
  · intro t s hs; rw [(ht t).2] at hs; exact hn s (h.l2 t s hs)
  · intro t g hl; rw [(ht t).1] at hl; rw [nG]; exact h.l3 t g hl
  · intro u u' s h1 h2; rw [(ht u).2] at h1; rw [(ht u').2] at h2; exact h.hinj u u' s h1 h2
  · intro g g' h1 h2 h3; rw [hg, hg] at h3; exact h.ginj g g' (nG ▸ h1) (nG ▸ h2) h3

theorem LI.of_cframe {a b : State} (h : LI a) (f : CFrame a b) : LI b :=
  h.congr (fun u => ⟨(f.tasks u).lib, (f.tasks u).hscope⟩) (fun g => by rw [f.groups]) f.nGroups
    (by rw [f.nScopes]; exact Nat.le_refl _)

/-- both invariants -/
def XI (st : State) : Prop := AI st ∧ LI st

theorem XI.of_cframe {a b : State} (h : XI a) (f : CFrame a b) : XI b :=
  ⟨h.1.of_cframe f, h.2.of_cframe f⟩

theorem XI.of_frame {a b : State} (h : XI a) (f : Frame a b) : XI b := h.of_cframe f.cframe

/-! ### `__enter__` -/

theorem ai_enterPre {st : State} {t s : Nat} (w : WF st) (h : AI st)
    (he : (st.scopes s).entered = false) (hd : (st.tasks t).st ≠ .done)
    (hE : ∀ u, (st.tasks u).hscope = some s → ∀ x, (st.scopes x).host ≠ some u) :
    AI (enterPre st t s) := by
  have hne := w.not_entered s he
  have hg : (enterPre st t s).groups = st.groups := (enterPre_frame st t s).2.2.2.2.1
  have hn : (enterPre st t s).nGroups = st.nGroups := (enterPre_frame st t s).2.2.2.1
  unfold AI
  rw [hg, hn]
  have eT : (enterPre st t s).tasks = upd st.tasks t ((enterPre st t s).tasks t) := by
    apply eq_upd_of_agree
    intro x hx
    unfold enterPre enterCore
    simp only []
    split
    · simp [hx]
    · split <;> simp [hx]
  cases hA : (st.tasks t).hasState
  · have eS : (enterPre st t s).scopes = upd st.scopes s ((enterPre st t s).scopes s) := by
      apply eq_upd_of_agree
      intro x hx
      simp [enterPre, enterCore, hA, hx]
    rw [eS, eT]
    apply AF.enter_none h w.forest he hd <;> simp [enterPre, enterCore, hA, hne]
  · cases hB : (st.tasks t).scope with
    | none =>
      have eS : (enterPre st t s).scopes = upd st.scopes s ((enterPre st t s).scopes s) := by
        apply eq_upd_of_agree
        intro x hx
        simp [enterPre, enterCore, hA, hB, hx]
      rw [eS, eT]
      apply AF.enter_none h w.forest he hd <;> simp [enterPre, enterCore, hA, hB, hne]
    | some p =>
      have hps : p ≠ s := by
        rintro rfl; have := w.entered_of_task_scope hB; simp_all
      have eS : (enterPre st t s).scopes =
          upd (upd st.scopes s ((enterPre st t s).scopes s)) p ((enterPre st t s).scopes p) := by
        apply eq_upd2_of_agree _ (Ne.symm hps)
        intro x hx1 hx2
        simp [enterPre, enterCore, hA, hB, hx1, hx2]
      rw [eS, eT]
      apply AF.enter_some h w.forest he hd hB hE <;>
        simp [enterPre, enterCore, hA, hB, hne, hps, Ne.symm hps]

theorem li_enterPre {st : State} (h : LI st) (t s : Nat) : LI (enterPre st t s) := by
  have f := enterPre_frame st t s
  refine h.congr (fun u => ?_) (fun g => by rw [f.2.2.2.2.1]) f.2.2.2.1
    (by rw [f.2.1]; exact Nat.le_refl _)
  have := enterPre_task st t s u
  exact ⟨this.2.2.2.2.2.1, this.2.1⟩

theorem xi_enterScope {st st' : State} {t s : Nat} (w : WFR st t) (h : XI st)
    (hE : ∀ u, (st.tasks u).hscope = some s → ∀ x, (st.scopes x).host ≠ some u)
    (he : enterScope st t s = some st') : XI st' := by
  obtain ⟨_, h2, h3⟩ := enterScope_spec he
  have hd : (st.tasks t).st ≠ .done := by rw [w.st_running]; simp
  exact XI.of_cframe ⟨ai_enterPre w.1 h.1 h2 hd hE, li_enterPre h.2 t s⟩ h3

/-! ### `__exit__` -/

theorem ai_exitPre {st : State} {t s : Nat} (w : WF st) (h : AI st)
    (ha : (st.scopes s).active = true) (hh : (st.scopes s).host = some t)
    (hs : (st.tasks t).scope = some s) (hd : (st.tasks t).st ≠ .done)
    (hg : NoGuests st.groups st.nGroups s) : AI (exitPre st t s) := by
  have hgr : (exitPre st t s).groups = st.groups := (exitPre_frame st t s).2.2.2.2.1
  have hn : (exitPre st t s).nGroups = st.nGroups := (exitPre_frame st t s).2.2.2.1
  unfold AI
  rw [hgr, hn]
  have hen := w.active_entered s ha
  have hts := w.task_scope t s hs
  have eT : (exitPre st t s).tasks = upd st.tasks t ((exitPre st t s).tasks t) := by
    apply eq_upd_of_agree
    intro x hx
    cases hB : (st.scopes s).parent <;> cases hT : (st.scopes s).timer <;>
      simp [exitPre, exitCore, hx, hB, hT]
  cases hB : (st.scopes s).parent with
  | none =>
    have eS : (exitPre st t s).scopes = upd st.scopes s ((exitPre st t s).scopes s) := by
      apply eq_upd_of_agree
      intro x hx
      cases hT : (st.scopes s).timer <;> simp [exitPre, exitCore, hx, hB, hT]
    rw [eS, eT]
    apply AF.exit_none h w.forest ha hh hs hd hg hB
    all_goals (cases hT : (st.scopes s).timer <;> simp [exitPre, exitCore, hB, hT])
  | some p =>
    have hps : p ≠ s := by rintro rfl; exact w.parent_ne hB
    have eS : (exitPre st t s).scopes =
        upd (upd st.scopes s ((exitPre st t s).scopes s)) p ((exitPre st t s).scopes p) := by
      apply eq_upd2_of_agree _ (Ne.symm hps)
      intro x hx1 hx2
      cases hT : (st.scopes s).timer <;> simp [exitPre, exitCore, hx1, hx2, hB, hT]
    rw [eS, eT]
    apply AF.exit_some h w.forest ha hh hs hd hg hB
    all_goals (cases hT : (st.scopes s).timer <;>
      simp [exitPre, exitCore, hB, hT, hps, Ne.symm hps])

theorem li_exitPre {st : State} (h : LI st) (t s : Nat) : LI (exitPre st t s) := by
  have f := exitPre_frame st t s
  refine h.congr (fun u => ?_) (fun g => by rw [f.2.2.2.2.1]) f.2.2.2.1
    (by rw [f.2.1]; exact Nat.le_refl _)
  rw [exitPre_task]
  split
  · rename_i hu; subst hu; exact ⟨rfl, rfl⟩
  · exact ⟨rfl, rfl⟩

theorem xi_exitScope {st st' : State} {t s : Nat} {ev : ExcVal} {r : ExitResult} (w : WFR st t)
    (h : XI st) (hg : NoGuests st.groups st.nGroups s)
    (he : exitScope st t s ev = some (st', r)) : XI st' := by
  obtain ⟨h1, h2, _, h4, h5⟩ := exitScope_spec he
  have hd : (st.tasks t).st ≠ .done := by rw [w.st_running]; simp
  exact XI.of_cframe ⟨ai_exitPre w.1 h.1 h1 h2 h4 hd hg, li_exitPre h.2 t s⟩ h5

end AnyioModel.Kernel
