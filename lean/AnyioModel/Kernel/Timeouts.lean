/-
The timeout helpers of `src/anyio/_core/_tasks.py:127-221` on top of the kernel model.

* `move_on_at(deadline, shield)` / `move_on_after(delay, shield)` are nothing but
  `CancelScope(deadline=..., shield=...)`: `moveOnAt` / `moveOnAfter` create the scope
  (`newScope`); entering and leaving it are the ordinary `enterScope` / `exitScope`.
  `move_on_after` reads the clock when it is *called* (not when the scope is entered).
* `fail_at` wraps such a scope in a generator-based context manager whose last line is
  `if cancel_scope.cancelled_caught and current_time() >= cancel_scope.deadline: raise TimeoutError`
  (`failAtRaises`); that line is reached only when the `with` block of the scope ends without
  an exception (nothing was raised, or the scope's `__exit__` swallowed it): `failAtExit`.
  `fail_after(delay)` is `fail_at(current_time() + delay)`.

`none` as a deadline is `math.inf`.
-/
import AnyioModel.Kernel.Step

namespace AnyioModel.Kernel

/-- `fail_at`'s last line: `cancelled_caught and current_time() >= deadline` -/
def failAtRaises (caught : Bool) (now : Nat) (deadline : Option Nat) : Bool :=
  caught && (match deadline with
    | none => false
    | some d => decide (now ≥ d))

/-- `move_on_at(deadline, shield)` -/
def moveOnAt (st : State) (deadline : Option Nat) (shield : Bool) : State × Nat :=
  newScope st shield deadline

/-- `move_on_after(delay, shield)`: the deadline is computed from the clock at the call -/
def moveOnAfter (st : State) (delay : Option Nat) (shield : Bool) : State × Nat :=
  newScope st shield (delay.map (st.now + ·))

/-- `fail_at(deadline, shield)` up to the `yield`: create the scope ... -/
def failAtScope (st : State) (deadline : Option Nat) (shield : Bool) : State × Nat :=
  newScope st shield deadline

/-- `fail_after(delay, shield)` up to the `yield` -/
def failAfterScope (st : State) (delay : Option Nat) (shield : Bool) : State × Nat :=
  newScope st shield (delay.map (st.now + ·))

/-- how the `with fail_at(...)` statement ends -/
inductive FailOut where
  | ret                 -- falls through normally
  | timeout             -- raises TimeoutError
  | exc (ev : ExcVal)   -- an exception leaves the block (the check is not reached)
  deriving DecidableEq, Repr

/-- the end of `with fail_at(...) as scope:` by task `t`, the body having ended with `ev`:
the scope's `__exit__`, then, if nothing propagates, the TimeoutError check on the scope's
*current* `cancelled_caught`, the *current* clock and the *current* deadline -/
def failAtExit (st : State) (t s : Nat) (ev : ExcVal) : Option (State × FailOut) :=
  match exitScope st t s ev with
  | none => none
  | some (st', r) =>
    match exitToOut ev r with
    | .none =>
      some (st', if failAtRaises (st'.scopes s).caught st'.now (st'.scopes s).deadline
                 then .timeout else .ret)
    | e => some (st', .exc e)

end AnyioModel.Kernel
