/-
Host invariants, part 5: the transition function.  `hinv_step`, `hinv_reach`, and the version for
a marked group (`K := (· = g)`): once `__aexit__` of `g` has started, it stays started.
-/
import AnyioModel.Kernel.HostInv4

namespace AnyioModel.Kernel

variable {K : Nat → Prop}

theorem hi5_not_isHandleScope {st : State} {s t : Nat} (h : ¬ isHandleScope st s = true)
    (ht : t < st.nTasks) : (st.tasks t).hscope ≠ some s := by
  intro hh
  apply h
  unfold isHandleScope
  rw [List.any_eq_true]
  exact ⟨t, List.mem_range.mpr ht, by simp [hh]⟩

theorem hsame_setShield (st : State) (s : Nat) (b : Bool) : HSame st (setShield st s b) :=
  (hsame_setScope st s (fun x => { x with shield := b }) ⟨rfl, rfl, rfl, rfl⟩).trans
    (HSame.of_cframe (frame_setShield st s b).cframe)

theorem hsame_setDeadline (st : State) (s : Nat) (d : Option Nat) :
    HSame st (setDeadline st s d) :=
  (hsame_setScope st s (fun x => { x with deadline := d }) ⟨rfl, rfl, rfl, rfl⟩).trans
    (HSame.of_cframe (cframe_setDeadline st s d))

/-- what the first part of `__aexit__` does to the fields the rest of the proof looks at -/
theorem aexitPrep_facts (st : State) (g : Nat) (ev : ExcVal) :
    (∀ u, ((aexitPrep st g ev).tasks u).lib = (st.tasks u).lib ∧
      ((aexitPrep st g ev).tasks u).hscope = (st.tasks u).hscope) ∧
    ((aexitPrep st g ev).groups g).tasks = (st.groups g).tasks ∧
    (aexitPrep st g ev).nScopes = st.nScopes ∧
    ((st.groups g).bodyErrs = [] → nc ev.leaves = nc ((aexitPrep st g ev).groups g).bodyErrs) := by
  have cf := cframe_cancelScope st (st.groups g).scope false
  unfold aexitPrep
  split
  · simp only []
    split
    · rename_i hc
      refine ⟨fun u => ⟨(cf.tasks u).lib, (cf.tasks u).hscope⟩, by rw [cf.groups], cf.nScopes, ?_⟩
      intro hb
      rw [cf.groups, hb, nc_cancelled hc]; rfl
    · refine ⟨fun u => ⟨(cf.tasks u).lib, (cf.tasks u).hscope⟩, ?_, cf.nScopes, ?_⟩
      · simp [cf.groups]
      · intro _; simp
  · rename_i hn
    have : ev = .none := by simpa using hn
    subst this
    exact ⟨fun u => ⟨rfl, rfl⟩, rfl, rfl, fun hb => by rw [hb]; rfl⟩

theorem hw_aexitPrep {st : State} {t g : Nat} (h : HW K none (some (g, t)) st t) (ev : ExcVal) :
    HW K none (some (g, t)) (aexitPrep st g ev) t := by
  unfold aexitPrep
  split
  · simp only []
    have h1 := h.cancelScope (st.groups g).scope false
    split
    · exact h1
    · exact ⟨hinv_setGroup h1.h g _ rfl (fun hx => hx) (.inl ⟨t, rfl⟩),
        h1.w.setGroup_inert g _ (fun x => by simp)⟩
  · exact h

theorem spawn_old_task (st : State) (g : Nat) (sf : Option Nat) {u : Nat} (hu : u < st.nTasks) :
    (((spawn st g sf).1.tasks u).lib = (st.tasks u).lib) := by
  rw [spawn_eq]
  simp only []
  rw [((frame_spawnTail _ _).tasks u).lib]
  have hne : u ≠ (newScope st false none).1.nTasks := by
    have : (newScope st false none).1.nTasks = st.nTasks := rfl
    omega
  rw [spawnCore_task_ne _ _ _ _ _ hne]
  rfl

theorem hinv_runHandle {st st' : State} {x : Handle} {o : Out} (h : HInv K none none st)
    (w : WF st) (fi : FInv st) (hs : step st (.run x) = some (st', o)) : HInv K none none st' := by
  simp only [step] at hs
  split at hs
  · contradiction
  · rename_i hg
    have hrun : st.running = none := by
      cases hr : st.running <;> simp_all
    have hxc : x ∈ st.cur := by
      apply Classical.byContradiction; intro hx; exact hg (.inr hx)
    have hok := w.cur_ok x hxc
    have w1 : WF { st with cur := st.cur.erase x } :=
      wf_setCur w _ (fun y hy => List.mem_of_mem_erase hy)
    have f1 : FInv { st with cur := st.cur.erase x } :=
      finv_fsame fi (fsame_loop rfl rfl rfl rfl rfl rfl (fun f hf => sdIn_erase hf))
    have h1 : HInv K none none { st with cur := st.cur.erase x } :=
      hinv_hsame h (hsame_loop rfl rfl rfl rfl rfl)
    cases x with
    | step t =>
      simp only [] at hs
      split at hs
      · rename_i hst
        refine hinv_runTask h1 w1 f1 hrun hok ?_ hs
        rcases hst with hst | hst <;> simp_all
      · contradiction
    | wakeup t =>
      simp only [] at hs
      split at hs
      · rename_i f hst
        refine hinv_runTask h1 w1 f1 hrun hok ?_ hs
        simp_all
      · contradiction
    | deliver s =>
      simp only [Option.some.injEq, Prod.mk.injEq] at hs
      obtain ⟨rfl, _⟩ := hs
      exact hinv_hsame h1 (HSame.of_cframe (frame_deliver _ _).cframe)
    | timeout s =>
      simp only [Option.some.injEq, Prod.mk.injEq] at hs
      obtain ⟨rfl, _⟩ := hs
      exact hinv_hsame h1 ((hsame_setScope _ s _ ⟨rfl, rfl, rfl, rfl⟩).trans
        (HSame.of_cframe (cframe_armTimeout _ _)))
    | sleepDone f =>
      simp only [Option.some.injEq, Prod.mk.injEq] at hs
      obtain ⟨rfl, _⟩ := hs
      exact hinv_hsame h1 (HSame.of_cframe (frame_resolveFut _ _ _).cframe)
    | taskDone u =>
      simp only [] at hs
      split at hs
      · rename_i st1 htd
        simp only [Option.some.injEq, Prod.mk.injEq] at hs
        obtain ⟨rfl, _⟩ := hs
        exact hinv_runTaskDone h1 htd
      · contradiction

theorem hinv_aexit_core {K' : Nat → Prop} {st st' : State} {g : Nat} {ev : ExcVal} {o : Out}
    (h : HInv K none none st) (w : WF st)
    (hpend : ∀ t, HInv K none (some (g, t)) st → HInv K' none (some (g, t)) st)
    (hs : step st (.aexit g ev) = some (st', o)) : HInv K' none none st' := by
  rw [step_aexit] at hs
  split at hs
  · contradiction
  · rename_i t hr
    split at hs
    · contradiction
    · rename_i hg
      simp only [not_or] at hg
      obtain ⟨hg1, hlib, _, hex, hsc⟩ := hg
      have hlib : (st.tasks t).lib = .none := by simpa using hlib
      have hex : (st.groups g).exited = false := by simpa using hex
      have hsc : (st.tasks t).scope = some (st.groups g).scope := by simpa using hsc
      have hg1 : g < st.nGroups := by omega
      have hbe := (hinv_guard h w hr hlib hex hsc).1
      have h0 : HW K' none (some (g, t)) st t :=
        ⟨hpend t (hinv_pend h w hr hlib hg1 hex hsc), w, hr⟩
      have hP := hw_aexitPrep h0 ev
      obtain ⟨fl, ft, fn, fe⟩ := aexitPrep_facts st g ev
      have hev := fe hbe
      have hlP : ((aexitPrep st g ev).tasks t).lib = .none := by rw [(fl t).1]; exact hlib
      simp only [] at hs
      split at hs
      · split at hs
        · contradiction
        · rename_i st1 hen
          simp only [Option.some.injEq, Prod.mk.injEq] at hs
          obtain ⟨rfl, _⟩ := hs
          have h1 := hP.mkScope true none
          have h2 : HW K' none (some (g, t)) st1 t :=
            h1.1.enterScope h1.2 hen (fun u _ hu => hu) (.inr (by simp))
          have k := enterScope_keeps hen
          have hl2 : (st1.tasks t).lib = .none := by rw [(k.1 t).1]; exact hlP
          have h3 := h2.setLib (pa' := none)
            (.aexitChk g (newScope (aexitPrep st g ev) true none).2 ev)
            (.inr ⟨rfl, fun g' t0 hp => by cases hp; exact ⟨rfl, _, ev, .inl rfl⟩⟩)
            (fun g' hl => by
              have : g' = g := libAexit_inj (l := .aexitChk g _ ev) ⟨_, ev, .inl rfl⟩ hl
              subst this; exact .inr rfl)
            (fun g' ⟨s, ev', hh⟩ => by rw [hl2] at hh; rcases hh with hh | hh <;> cases hh)
            (fun s hs' => by
              simp only [libScope, Option.some.injEq] at hs'
              subst hs'
              rw [(k.1 t).2]
              show ((aexitPrep st g ev).tasks t).hscope ≠ some (aexitPrep st g ev).nScopes
              rw [(fl t).2, fn]
              intro hh
              have := w.hscope_lt t _ hh
              omega)
            (fun g' s ev' _ hh => by
              rcases hh with hh | hh
              · cases hh
                rw [k.2]; exact hev
              · cases hh)
            (fun g' t0 hp => by cases hp)
          exact h3.doYield (fun g' u f hc => by simp at hc)
      · rename_i hne
        exact hw_aexitAfterChk hP (.inr ⟨rfl, hlP, hne⟩) hev hs

theorem hinv_aexit {st st' : State} {g : Nat} {ev : ExcVal} {o : Out} (h : HInv K none none st)
    (w : WF st) (hs : step st (.aexit g ev) = some (st', o)) : HInv K none none st' :=
  hinv_aexit_core h w (fun _ hp => hp) hs

/-- the group of a pending `__aexit__` may be marked -/
theorem hinv_mark_pend {st : State} {g t : Nat} (h : HInv (fun _ => False) none (some (g, t)) st) :
    HInv (· = g) none (some (g, t)) st := by
  obtain ⟨a1, a2, a3, a4, a5, a6, a7, a8, a9, a10, a11, a12⟩ := h
  refine ⟨a1, a2, a3, ?_, a5, a6, a7, a8, a9, ?_, a11, a12⟩
  · intro g' hb
    rcases hb with hb | hb
    · exact a4 g' (.inl hb)
    · have : g' = g := hb
      subst this
      exact .inr ⟨t, .inr rfl⟩
  · intro g' hk
    have : g' = g := hk
    subst this
    exact (a3 t g' (.inr rfl)).1

/-- the transition that starts `__aexit__` of `g` marks `g` -/
theorem hinv_aexit_mark {st st' : State} {g : Nat} {ev : ExcVal} {o : Out}
    (h : HInv (fun _ => False) none none st) (w : WF st)
    (hs : step st (.aexit g ev) = some (st', o)) : HInv (· = g) none none st' :=
  hinv_aexit_core h w (fun _ hp => hinv_mark_pend hp) hs

theorem hinv_step {st st' : State} {e : Ev} {o : Out} (h : HInv K none none st) (w : WF st)
    (fi : FInv st) (hs : step st e = some (st', o)) : HInv K none none st' := by
  cases e with
  | beginCycle now =>
    simp only [step] at hs
    split at hs
    · contradiction
    · simp only [Option.some.injEq, Prod.mk.injEq] at hs
      obtain ⟨rfl, _⟩ := hs
      exact hinv_hsame h (hsame_loop rfl rfl rfl rfl rfl)
  | run x => exact hinv_runHandle h w fi hs
  | mkScope sh d =>
    simp only [step, Option.some.injEq, Prod.mk.injEq] at hs
    obtain ⟨rfl, _⟩ := hs
    exact hinv_hsame h (hsame_newScope w sh d)
  | enter s =>
    simp only [step] at hs
    split at hs
    · contradiction
    · rename_i t hr
      split at hs
      · contradiction
      · rename_i hg
        have hx : (st.scopes s).exists_ = true := by
          cases hx : (st.scopes s).exists_ <;> simp_all
        split at hs
        · simp only [Option.some.injEq, Prod.mk.injEq] at hs
          obtain ⟨rfl, _⟩ := hs; exact h
        · rename_i st1 hen
          simp only [Option.some.injEq, Prod.mk.injEq] at hs
          obtain ⟨rfl, _⟩ := hs
          have h0 : HW K none none st t := ⟨h, w, hr⟩
          exact (h0.enterScope (ext' := none) hx hen (fun u _ hu => hu) (.inr (by simp))).h
  | exit s ev =>
    simp only [step] at hs
    split at hs
    · contradiction
    · rename_i t hr
      split at hs
      · contradiction
      · rename_i hg
        split at hs
        · simp only [Option.some.injEq, Prod.mk.injEq] at hs
          obtain ⟨rfl, _⟩ := hs; exact h
        · rename_i st1 r hex
          simp only [Option.some.injEq, Prod.mk.injEq] at hs
          obtain ⟨rfl, _⟩ := hs
          have h0 : HW K none none st t := ⟨h, w, hr⟩
          refine (h0.exitScope (ext' := none) hex (fun u _ hu => hu) (.inr ?_)).h
          exact hi5_not_isHandleScope (fun hc => hg (.inr (.inr hc))) (w.running_lt hr)
  | cancel s =>
    simp only [step] at hs
    split at hs
    · contradiction
    · simp only [Option.some.injEq, Prod.mk.injEq] at hs
      obtain ⟨rfl, _⟩ := hs
      exact hinv_hsame h (HSame.of_cframe (cframe_cancelScope _ _ _))
  | setShield s b =>
    simp only [step] at hs
    split at hs
    · contradiction
    · simp only [Option.some.injEq, Prod.mk.injEq] at hs
      obtain ⟨rfl, _⟩ := hs
      exact hinv_hsame h (hsame_setShield _ _ _)
  | setDeadline s d =>
    simp only [step] at hs
    split at hs
    · contradiction
    · simp only [Option.some.injEq, Prod.mk.injEq] at hs
      obtain ⟨rfl, _⟩ := hs
      exact hinv_hsame h (hsame_setDeadline _ _ _)
  | yield =>
    simp only [step] at hs
    split at hs
    · contradiction
    · rename_i t hr
      split at hs
      · contradiction
      · rename_i hl
        simp only [Option.some.injEq, Prod.mk.injEq] at hs
        obtain ⟨rfl, _⟩ := hs
        have h0 : HW K none none st t := ⟨h, w, hr⟩
        refine h0.doYield (fun g u f hj => ?_)
        rw [hj] at hl; simp at hl
  | mkFut =>
    simp only [step, Option.some.injEq, Prod.mk.injEq] at hs
    obtain ⟨rfl, _⟩ := hs
    exact hinv_hsame h ((hsame_newFut st).trans (hsame_loop rfl rfl rfl rfl rfl))
  | setFut f =>
    simp only [step] at hs
    split at hs
    · contradiction
    · simp only [Option.some.injEq, Prod.mk.injEq] at hs
      obtain ⟨rfl, _⟩ := hs
      exact hinv_hsame h (HSame.of_cframe (frame_resolveFut _ _ _).cframe)
  | awaitFut f =>
    simp only [step] at hs
    split at hs
    · contradiction
    · rename_i t hr
      split at hs
      · contradiction
      · have h0 : HW K none none st t := ⟨h, w, hr⟩
        split at hs
        · split at hs
          · contradiction
          · simp only [Option.some.injEq, Prod.mk.injEq] at hs
            obtain ⟨rfl, _⟩ := hs
            exact h0.blockOn f
        all_goals
          simp only [Option.some.injEq, Prod.mk.injEq] at hs
          obtain ⟨rfl, _⟩ := hs; exact h
  | sleep d =>
    simp only [step] at hs
    split at hs
    · contradiction
    · rename_i t hr
      split at hs
      · contradiction
      · rename_i hg
        have hl : (st.tasks t).lib = .none := by
          apply Classical.byContradiction; intro hc; exact hg (.inl hc)
        simp only [Option.some.injEq, Prod.mk.injEq] at hs
        obtain ⟨rfl, _⟩ := hs
        have h0 : HW K none none st t := ⟨h, w, hr⟩
        have h1 := h0.mkFut
        have h2 : HW K none none { (newFut st).1 with timers := (newFut st).1.timers ++
            [((newFut st).1.now + d, Handle.sleepDone st.nFuts)] } t :=
          h1.1.hsame (hsame_loop rfl rfl rfl rfl rfl)
            ⟨wf_addTimer h1.1.w.1 _ _ (by simp [HandleOk, newFut]), h1.1.w.2⟩
        have hna : ∀ g, ¬ LibAexit (Lib.sleeping st.nFuts) g := by
          intro g ⟨s, ev, hh⟩; rcases hh with hh | hh <;> cases hh
        have h3 := h2.setLibPlain (.sleeping st.nFuts) hna rfl (fun g ⟨s, ev, hh⟩ => by
          have hh' : (st.tasks t).lib = .aexitChk g s ev ∨ (st.tasks t).lib = .aexitWait g s ev := hh
          rw [hl] at hh'; rcases hh' with hh' | hh' <;> cases hh')
        exact h3.blockOn _
  | chkIfCancelled =>
    simp only [step] at hs
    split at hs
    · contradiction
    · rename_i t hr
      split at hs
      · contradiction
      · rename_i hg
        have hl : (st.tasks t).lib = .none := by simpa using hg
        have h0 : HW K none none st t := ⟨h, w, hr⟩
        have hna : ∀ g, ¬ LibAexit Lib.chkIf g := by
          intro g ⟨s, ev, hh⟩; rcases hh with hh | hh <;> cases hh
        split at hs
        · split at hs
          · simp only [Option.some.injEq, Prod.mk.injEq] at hs
            obtain ⟨rfl, _⟩ := hs
            have h1 := h0.setLibPlain .chkIf hna rfl (fun g ⟨s, ev, hh⟩ => by
              rw [hl] at hh; rcases hh with hh | hh <;> cases hh)
            exact h1.doYield (fun g u f hj => by simp at hj)
          · simp only [Option.some.injEq, Prod.mk.injEq] at hs
            obtain ⟨rfl, _⟩ := hs; exact h
        · simp only [Option.some.injEq, Prod.mk.injEq] at hs
          obtain ⟨rfl, _⟩ := hs; exact h
  | shieldedChk =>
    simp only [step] at hs
    split at hs
    · contradiction
    · rename_i t hr
      split at hs
      · contradiction
      · rename_i hg
        have hl : (st.tasks t).lib = .none := by simpa using hg
        have h0 : HW K none none st t := ⟨h, w, hr⟩
        split at hs
        · contradiction
        · rename_i st1 hen
          simp only [Option.some.injEq, Prod.mk.injEq] at hs
          obtain ⟨rfl, _⟩ := hs
          have h1 := h0.mkScope true none
          have h2 : HW K none none st1 t :=
            h1.1.enterScope h1.2 hen (fun u _ hu => hu) (.inr (by simp))
          have k := enterScope_keeps hen
          have hl2 : (st1.tasks t).lib = .none := by rw [(k.1 t).1]; exact hl
          have h3 := h2.setLib (pa' := none) (.shChk (newScope st true none).2) (.inl rfl)
            (fun g' ⟨s, ev, hh⟩ => by rcases hh with hh | hh <;> cases hh)
            (fun g' ⟨s, ev', hh⟩ => by rw [hl2] at hh; rcases hh with hh | hh <;> cases hh)
            (fun s hs' => by
              simp only [libScope, Option.some.injEq] at hs'
              subst hs'
              rw [(k.1 t).2]
              show (st.tasks t).hscope ≠ some st.nScopes
              intro hh
              have := w.hscope_lt t _ hh
              omega)
            (fun g' s ev' _ hh => by rcases hh with hh | hh <;> cases hh)
            (fun g' t0 hp => by cases hp)
          exact h3.doYield (fun g' u f hc => by simp at hc)
  | nativeCancel u =>
    simp only [step] at hs
    split at hs
    · contradiction
    · simp only [Option.some.injEq, Prod.mk.injEq] at hs
      obtain ⟨rfl, _⟩ := hs
      exact hinv_hsame h (HSame.of_cframe (frame_taskCancel _ _ _).cframe)
  | uncancel =>
    simp only [step] at hs
    split at hs
    · contradiction
    · rename_i t hr
      split at hs
      · contradiction
      · simp only [Option.some.injEq, Prod.mk.injEq] at hs
        obtain ⟨rfl, _⟩ := hs
        exact hinv_hsame h ((HSame.of_cframe (frame_taskUncancel _ _ _).cframe).trans
          (hsame_setTask _ _ _ (by simp)))
  | mkGroup =>
    simp only [step, Option.some.injEq, Prod.mk.injEq] at hs
    obtain ⟨rfl, _⟩ := hs
    have i1 : HInv K none none (newScope st false none).1 :=
      hinv_hsame h (hsame_newScope w false none)
    refine hinv_mkGroup i1 _ ?_
    intro u hu
    have hu' : (st.tasks u).hscope = some st.nScopes := hu
    have := w.hscope_lt u _ hu'
    omega
  | groupEnter g =>
    simp only [step] at hs
    split at hs
    · contradiction
    · rename_i t hr
      split at hs
      · contradiction
      · rename_i hg
        split at hs
        · simp only [Option.some.injEq, Prod.mk.injEq] at hs
          obtain ⟨rfl, _⟩ := hs; exact h
        · split at hs
          · contradiction
          · rename_i st1 hen
            simp only [Option.some.injEq, Prod.mk.injEq] at hs
            obtain ⟨rfl, _⟩ := hs
            have h0 : HW K none none st t := ⟨h, w, hr⟩
            have hx : ((st.scopes (st.groups g).scope).exists_) = true :=
              (w.scope_exists _).mpr (w.group_scope_lt g (by omega))
            have h1 : HW K none none st1 t :=
              h0.enterScope hx hen (fun u _ hu => hu) (.inr (by simp))
            exact hinv_hsame h1.h (hsame_setGroup _ _ _ ⟨rfl, rfl, rfl⟩)
  | spawn g =>
    simp only [step] at hs
    split at hs
    · contradiction
    · split at hs
      · simp only [Option.some.injEq, Prod.mk.injEq] at hs
        obtain ⟨rfl, _⟩ := hs; exact h
      · simp only [Option.some.injEq, Prod.mk.injEq] at hs
        obtain ⟨rfl, _⟩ := hs
        exact hinv_spawn h w g none
  | aexit g ev => exact hinv_aexit h w hs
  | start g =>
    simp only [step] at hs
    split at hs
    · contradiction
    · rename_i t hr
      split at hs
      · contradiction
      · rename_i hg
        have hl : (st.tasks t).lib = .none := by
          apply Classical.byContradiction; intro hc; exact hg (.inr hc)
        split at hs
        · simp only [Option.some.injEq, Prod.mk.injEq] at hs
          obtain ⟨rfl, _⟩ := hs; exact h
        · rename_i hg2
          simp only [Option.some.injEq, Prod.mk.injEq] at hs
          obtain ⟨rfl, _⟩ := hs
          have h0 : HW K none none st t := ⟨h, w, hr⟩
          have h1 := h0.mkFut
          have hg' : g < (newFut st).1.nGroups := by simp [newFut]; omega
          have ha : ((newFut st).1.scopes ((newFut st).1.groups g).scope).active = true := by
            cases ha : (st.scopes (st.groups g).scope).active <;> simp_all [newFut]
          have w2 := wf_spawn (some (newFut st).2) h1.1.w.1 hg' ha
          have h2 : HW K none none (spawn (newFut st).1 g (some (newFut st).2)).1 t :=
            ⟨hinv_spawn h1.1.h h1.1.w.1 g _, w2.1, by rw [w2.2.1]; exact h1.1.w.2⟩
          have hlt : t < (newFut st).1.nTasks := w.running_lt hr
          have hl2 : ((spawn (newFut st).1 g (some (newFut st).2)).1.tasks t).lib = .none := by
            rw [spawn_old_task _ _ _ hlt]; exact hl
          have hna : ∀ g', ¬ LibAexit (Lib.startWait g (newFut st).1.nTasks st.nFuts) g' := by
            intro g' ⟨s, ev, hh⟩; rcases hh with hh | hh <;> cases hh
          have h3 := h2.setLibPlain (.startWait g (newFut st).1.nTasks st.nFuts) hna rfl
            (fun g' ⟨s, ev, hh⟩ => by rw [hl2] at hh; rcases hh with hh | hh <;> cases hh)
          exact h3.blockOn _
  | started =>
    simp only [step] at hs
    split at hs
    · contradiction
    · rename_i t hr
      split at hs
      · contradiction
      · split at hs
        · simp only [Option.some.injEq, Prod.mk.injEq] at hs
          obtain ⟨rfl, _⟩ := hs
          exact hinv_hsame h (HSame.of_cframe (frame_resolveFut _ _ _).cframe)
        all_goals
          simp only [Option.some.injEq, Prod.mk.injEq] at hs
          obtain ⟨rfl, _⟩ := hs; exact h
  | handleCancel u =>
    simp only [step] at hs
    split at hs
    · contradiction
    · simp only [Option.some.injEq, Prod.mk.injEq] at hs
      obtain ⟨rfl, _⟩ := hs
      split
      · exact h
      · exact hinv_hsame h (HSame.of_cframe (cframe_cancelScope _ _ _))
  | handleWait u =>
    simp only [step] at hs
    split at hs
    · contradiction
    · rename_i t hr
      split at hs
      · contradiction
      · rename_i hg
        have hl : (st.tasks t).lib = .none := by
          apply Classical.byContradiction; intro hc; exact hg (.inl hc)
        have h0 : HW K none none st t := ⟨h, w, hr⟩
        split at hs
        · simp only [Option.some.injEq, Prod.mk.injEq] at hs
          obtain ⟨rfl, _⟩ := hs
          exact h0.doYield (fun g u f hj => by rw [hl] at hj; cases hj)
        · simp only [Option.some.injEq, Prod.mk.injEq] at hs
          obtain ⟨rfl, _⟩ := hs
          have h1 := h0.mkFut.1
          refine HW.blockOn (t := t) ⟨hinv_hsame h1.h (hsame_setTask _ u _ ?_),
            h1.w.setTask_inert u _ (fun x => by simp)⟩ _
          simp
  | finish o =>
    simp only [step] at hs
    split at hs
    · contradiction
    · rename_i t hr
      split at hs
      · contradiction
      · rename_i hl
        split at hs
        · contradiction
        · split at hs
          · contradiction
          · rename_i st1 hf
            simp only [Option.some.injEq, Prod.mk.injEq] at hs
            obtain ⟨rfl, _⟩ := hs
            exact hw_finishTask ⟨h, w, hr⟩ (by simpa using hl) hf

/-- `HInv` (unmarked) holds in every reachable state -/
theorem hinv_reach {st : State} (h : Reach st) : HInv (fun _ => False) none none st := by
  have : (WF st ∧ FInv st) ∧ HInv (fun _ => False) none none st := by
    refine Reachable.invariant (fun s => (WF s ∧ FInv s) ∧ HInv (fun _ => False) none none s)
      ?_ ?_ st h
    · rintro s rfl; exact ⟨⟨wf_init, finv_init⟩, hinv_init⟩
    · intro s e s' o hi hs
      exact ⟨⟨wf_step hi.1.1 hs, finv_step hi.1.2 hi.1.1 hs⟩, hinv_step hi.2 hi.1.1 hi.1.2 hs⟩
  exact this.2

/-- marking a group whose `__aexit__` has started, or whose block has ended -/
theorem hinv_mark {st : State} (h : HInv (fun _ => False) none none st) {g : Nat}
    (hg : g < st.nGroups) (hm : (st.groups g).exited = true ∨ ∃ t, InAexit st g t) :
    HInv (· = g) none none st := by
  obtain ⟨a1, a2, a3, a4, a5, a6, a7, a8, a9, a10, a11, a12⟩ := h
  refine ⟨a1, a2, a3, ?_, a5, a6, a7, a8, a9, ?_, a11, a12⟩
  · intro g' hb
    rcases hb with hb | hb
    · exact a4 g' (.inl hb)
    · have : g' = g := hb
      subst this
      rcases hm with hm | ⟨t, hm⟩
      · exact .inl hm
      · exact .inr ⟨t, .inl hm⟩
  · intro g' hk
    have : g' = g := hk
    subst this; exact hg

/-- ... and the mark is kept along every run -/
theorem hinv_runFrom {K : Nat → Prop} : ∀ (evs : List Ev) {st st' : State}, Reach st →
    HInv K none none st → runFrom step st evs = some st' → HInv K none none st' := by
  intro evs
  induction evs with
  | nil =>
    intro st st' _ h hr
    simp only [runFrom, Option.some.injEq] at hr
    subst hr; exact h
  | cons e es ih =>
    intro st st' hre h hr
    simp only [runFrom] at hr
    split at hr
    · contradiction
    · rename_i s1 o hs
      exact ih (Reachable.next hre hs) (hinv_step h (wf_reach hre) (finv_reach hre) hs) hr

end AnyioModel.Kernel
