/-
Which transition ends the block of a task group, part 2: the case analysis of `step`.
`step_fin`: a transition leaves the `exited` flag of every group alone, or it is the resumption
(`.run (.step t)` / `.run (.wakeup t)`) of a task inside `__aexit__` of a group `g`, made of a
prefix that is inert for the accounting followed by `aexitFinish` for `g`.
-/
import AnyioModel.Kernel.ExitStep

namespace AnyioModel.Kernel

theorem ex_mkGroup (st : State) (s : Nat) :
    EX st { st.setGroup st.nGroups (fun _ => { scope := s }) with nGroups := st.nGroups + 1 } := by
  intro g hx
  by_cases hg : g = st.nGroups
  · subst hg; simp at hx
  · simpa [hg] using hx

macro "ex_leaf" h:ident : tactic => `(tactic| first
  | contradiction
  | (simp only [Option.some.injEq, Prod.mk.injEq] at $h:ident; rcases $h:ident with ⟨h1, _⟩
     subst h1; refine PX.ex ?_; px; done))

/-- every transition other than the resumption of a task inside `__aexit__` ends no block -/
theorem step_fin {st st' : State} {e : Ev} {o : Out} (hs : step st e = some (st', o)) :
    EX st st' ∨ ∃ t g s ev0 ev x, (e = .run (.step t) ∨ e = .run (.wakeup t)) ∧
      ((st.tasks t).lib = .aexitChk g s ev0 ∨ (st.tasks t).lib = .aexitWait g s ev0) ∧
      nc ev.leaves = nc ev0.leaves ∧ PX st x ∧ aexitFinish x t g ev = some (st', o) := by
  cases e with
  | beginCycle now =>
    left
    simp only [step] at hs
    split at hs
    · contradiction
    · simp only [Option.some.injEq, Prod.mk.injEq] at hs
      obtain ⟨rfl, _⟩ := hs
      exact EX.of_groups rfl
  | run x =>
    simp only [step] at hs
    split at hs
    · contradiction
    · have p0 : PX st { st with cur := st.cur.erase x } := PX.of_eq rfl rfl
      cases x with
      | step t =>
        simp only [] at hs
        split at hs
        · rcases runTask_fin hs with h | ⟨g, s, ev0, ev, y, hl, hn, hy, hf⟩
          · exact .inl (p0.ex.trans h)
          · exact .inr ⟨t, g, s, ev0, ev, y, .inl rfl, hl, hn, p0.trans hy, hf⟩
        · contradiction
      | wakeup t =>
        simp only [] at hs
        split at hs
        · rcases runTask_fin hs with h | ⟨g, s, ev0, ev, y, hl, hn, hy, hf⟩
          · exact .inl (p0.ex.trans h)
          · exact .inr ⟨t, g, s, ev0, ev, y, .inr rfl, hl, hn, p0.trans hy, hf⟩
        · contradiction
      | deliver s =>
        left
        simp only [Option.some.injEq, Prod.mk.injEq] at hs
        obtain ⟨rfl, _⟩ := hs
        refine PX.ex ?_; px
      | timeout s =>
        left
        simp only [Option.some.injEq, Prod.mk.injEq] at hs
        obtain ⟨rfl, _⟩ := hs
        refine PX.ex ?_; px
      | sleepDone f =>
        left
        simp only [Option.some.injEq, Prod.mk.injEq] at hs
        obtain ⟨rfl, _⟩ := hs
        refine PX.ex ?_; px
      | taskDone u =>
        left
        simp only [] at hs
        split at hs
        · rename_i st1 htd
          simp only [Option.some.injEq, Prod.mk.injEq] at hs
          obtain ⟨rfl, _⟩ := hs
          exact p0.ex.trans (ex_runTaskDone htd)
        · contradiction
  | mkFut =>
    left
    simp only [step, Option.some.injEq, Prod.mk.injEq] at hs
    obtain ⟨rfl, _⟩ := hs
    exact EX.of_groups rfl
  | mkGroup =>
    left
    simp only [step, Option.some.injEq, Prod.mk.injEq] at hs
    obtain ⟨rfl, _⟩ := hs
    exact (px_newScope st false none).ex.trans (ex_mkGroup _ _)
  | sleep d =>
    left
    simp only [step] at hs
    repeat' (first | split at hs | simp only [] at hs)
    all_goals first
      | contradiction
      | (simp only [Option.some.injEq, Prod.mk.injEq] at hs; obtain ⟨rfl, _⟩ := hs
         refine PX.ex ?_
         refine PX.trans ?_ (px_blockOn _ _ _)
         refine PX.trans ?_ (px_setTask _ _ _ (fun x => by simp))
         exact (px_newFut st).trans (PX.of_eq rfl rfl))
  | spawn g =>
    left
    simp only [step] at hs
    repeat' (first | split at hs | simp only [] at hs)
    all_goals first
      | ex_leaf hs
      | (simp only [Option.some.injEq, Prod.mk.injEq] at hs; obtain ⟨rfl, _⟩ := hs
         exact ex_spawn _ _ _)
  | start g =>
    left
    simp only [step] at hs
    repeat' (first | split at hs | simp only [] at hs)
    all_goals first
      | ex_leaf hs
      | (simp only [Option.some.injEq, Prod.mk.injEq] at hs; obtain ⟨rfl, _⟩ := hs
         refine EX.trans ?_ (px_blockOn _ _ _).ex
         refine EX.trans ?_ (px_setTask _ _ _ (fun x => by simp)).ex
         exact (px_newFut st).ex.trans (ex_spawn _ _ _))
  | aexit g ev => exact .inl (ex_aexit hs)
  | groupEnter g =>
    left
    simp only [step] at hs
    split at hs
    · contradiction
    · split at hs
      · contradiction
      · split at hs
        · simp only [Option.some.injEq, Prod.mk.injEq] at hs
          obtain ⟨rfl, _⟩ := hs; exact EX.refl _
        · split at hs
          · contradiction
          · rename_i st1 hen
            simp only [Option.some.injEq, Prod.mk.injEq] at hs
            obtain ⟨rfl, _⟩ := hs
            refine EX.trans (px_enterScope hen).ex (EX.of_eq ?_)
            intro g'
            by_cases hg : g' = g
            · subst hg; simp
            · simp [hg]
  | finish o =>
    left
    simp only [step] at hs
    repeat' (first | split at hs | simp only [] at hs)
    all_goals first
      | contradiction
      | (simp only [Option.some.injEq, Prod.mk.injEq] at hs; obtain ⟨rfl, _⟩ := hs
         exact ex_finishTask ‹_›)
  | uncancel =>
    left
    simp only [step] at hs
    repeat' (first | split at hs | simp only [] at hs)
    all_goals ex_leaf hs
  | _ =>
    left
    simp only [step] at hs
    repeat' (first | split at hs | simp only [] at hs)
    all_goals ex_leaf hs

end AnyioModel.Kernel
