/-
Delivery of cancellation, part 22: `QR` (see part 18) for every transition from a reachable state
(`qr_step`), and its consequence `origin_stable`: while a task stays blocked on `f` in an
effectively cancelled scope `c`, the origin whose delivery reaches `c` does not change.
-/
import AnyioModel.Kernel.DeliverInv21

namespace AnyioModel.Kernel

theorem QH.congr {tb f : Nat} {a b : State} (q : QH tb f a) (nS : b.nScopes = a.nScopes)
    (hs : ∀ s, (b.scopes s).children = (a.scopes s).children ∧
      (b.scopes s).active = (a.scopes s).active ∧ (b.scopes s).parent = (a.scopes s).parent ∧
      (b.scopes s).entered = (a.scopes s).entered ∧ (b.scopes s).chain = (a.scopes s).chain ∧
      (b.scopes s).host = (a.scopes s).host)
    (h1 : b.tasks = a.tasks) (h2 : b.futs = a.futs) (h3 : b.futWaiter = a.futWaiter)
    (h4 : b.running = a.running) : QH tb f b := by
  refine ⟨q.tree.congr nS (fun s => ⟨(hs s).1, (hs s).2.1, (hs s).2.2.1, (hs s).2.2.2.1,
    (hs s).2.2.2.2.1⟩), ?_, ?_, by rw [h1]; exact q.bm, by rw [h4]; exact q.run⟩
  · intro s h; rw [(hs s).2.2.2.2.2]; rw [(hs s).2.1] at h; exact q.host s h
  · intro t g hb; rw [h1] at hb; rw [h2, h3]; exact q.bw t g hb

theorem QH.setScope_inert {tb f : Nat} {a : State} (q : QH tb f a) (s : Nat) (g : Scope → Scope)
    (hg : (g (a.scopes s)).children = (a.scopes s).children ∧
      (g (a.scopes s)).active = (a.scopes s).active ∧ (g (a.scopes s)).parent = (a.scopes s).parent ∧
      (g (a.scopes s)).entered = (a.scopes s).entered ∧ (g (a.scopes s)).chain = (a.scopes s).chain ∧
      (g (a.scopes s)).host = (a.scopes s).host) : QH tb f (a.setScope s g) := by
  refine q.congr rfl (fun x => ?_) rfl rfl rfl rfl
  by_cases hx : x = s
  · subst hx; simpa using hg
  · simp [hx]

macro "qr_leaf" h:ident : tactic => `(tactic| first
  | contradiction
  | (simp only [Option.some.injEq, Prod.mk.injEq] at $h:ident; rcases $h:ident with ⟨h1, _⟩; subst h1; qr; done))

theorem qr_aexit {tb f c : Nat} {st st' : State} {g : Nat} {ev : ExcVal} {o : Out} (w : WF st)
    (q : QH tb f st) (hrt : ∀ u, st.running = some u → u ≠ tb)
    (hs : step st (.aexit g ev) = some (st', o)) : QR tb f c st st' := by
  rw [step_aexit'] at hs
  split at hs
  · contradiction
  · rename_i t hr
    have hut := hrt t hr
    split at hs
    · contradiction
    · have w1 := wfr_aexitPrep' ⟨w, hr⟩ g ev
      have h0 : QR tb f c st (aexitPrep' st g ev) := by
        unfold aexitPrep'
        split
        · simp only []
          split
          · exact qr_cancelScope q _ _
          · exact (qr_cancelScope q _ _).trans (qr_setGroup _ _ _)
        · exact QR.refl _ _ _ _
      simp only [] at hs
      split at hs
      · have w2 := w1.mkScope true none
        split at hs
        · contradiction
        · rename_i st1 hen
          have h1 : QR tb f c st st1 :=
            (h0.trans (qr_newScope _ _ _)).trans (qr_enterScope w2.1.1 hut hen)
          simp only [Option.some.injEq, Prod.mk.injEq] at hs
          obtain ⟨rfl, _⟩ := hs
          qr
      · exact h0.trans (qr_aexitAfterChk w1 hut hs)

theorem qr_step {tb f c : Nat} {st st' : State} {e : Ev} {o : Out} (hr : Reach st)
    (hb : (st.tasks tb).st = .blocked f) (hs : step st e = some (st', o))
    (hne : ∀ s, e ≠ .setShield s false) : QR tb f c (stepPre st e) st' := by
  have w := wf_reach hr
  have d := di_reach hr
  have bm : (st.tasks tb).st = .blocked f → (st.tasks tb).mustCancel = false :=
    fun h => (dbn_reach hr).2.1 tb f h
  have hrt : ∀ u, st.running = some u → u ≠ tb := by
    rintro u hu rfl
    have := (w.running_spec u).mp hu
    rw [hb] at this; cases this
  have hrun : st.running ≠ some tb := fun h => hrt tb h rfl
  have q : QH tb f st := QH.of_wf w d.bw bm hrun
  cases e with
  | beginCycle now =>
    simp only [step] at hs
    split at hs
    · contradiction
    · simp only [Option.some.injEq, Prod.mk.injEq] at hs
      obtain ⟨rfl, _⟩ := hs
      exact QR.of_fields rfl rfl
  | run x =>
    simp only [step] at hs
    split at hs
    · contradiction
    · rename_i hg
      have hrn : st.running = none := by
        cases hx : st.running <;> simp_all
      have hxc : x ∈ st.cur := by
        apply Classical.byContradiction; intro hx; exact hg (.inr hx)
      have hok := w.cur_ok x hxc
      have w1 : WF { st with cur := st.cur.erase x } :=
        wf_shrinkCur w _ (fun y hy => List.mem_of_mem_erase hy)
      have q1 : QH tb f { st with cur := st.cur.erase x } :=
        q.congr rfl (fun _ => ⟨rfl, rfl, rfl, rfl, rfl, rfl⟩) rfl rfl rfl rfl
      simp only [stepPre]
      cases x with
      | step t =>
        have d1 := d.inert (inert_shrinkCur st (.step t) (fun s e => by cases e))
        simp only [] at hs
        split at hs
        · rename_i hst
          have hut : t ≠ tb := by
            rintro rfl
            have hst' : (st.tasks t).st = .created ∨ (st.tasks t).st = .yielded := hst
            rw [hb] at hst'
            rcases hst' with h | h <;> cases h
          refine qr_runTask w1 d1 bm hrn hok ?_ hut hs
          rcases hst with hst | hst <;> simp_all
        · contradiction
      | wakeup t =>
        have d1 := d.inert (inert_shrinkCur st (.wakeup t) (fun s e => by cases e))
        simp only [] at hs
        split at hs
        · rename_i g hst
          have hut : t ≠ tb := by
            rintro rfl
            have hst' : (st.tasks t).st = .woken g := hst
            rw [hb] at hst'; cases hst'
          refine qr_runTask w1 d1 bm hrn hok ?_ hut hs
          simp_all
        · contradiction
      | deliver s =>
        simp only [Option.some.injEq, Prod.mk.injEq] at hs
        obtain ⟨rfl, _⟩ := hs
        exact QR.of_frame (frame_deliver _ _)
      | timeout s =>
        simp only [Option.some.injEq, Prod.mk.injEq] at hs
        obtain ⟨rfl, _⟩ := hs
        refine QR.trans (b := ({ st with cur := st.cur.erase (.timeout s) } : State).setScope s
          (fun x => { x with timer := false })) (by qr) ?_
        exact qr_armTimeout (q1.setScope_inert s _ ⟨rfl, rfl, rfl, rfl, rfl, rfl⟩) s
      | sleepDone g =>
        simp only [Option.some.injEq, Prod.mk.injEq] at hs
        obtain ⟨rfl, _⟩ := hs
        exact QR.of_frame (frame_resolveFut _ _ _)
      | taskDone u =>
        have d1 := d.inert (inert_shrinkCur st (.taskDone u) (fun s e => by cases e))
        simp only [] at hs
        split at hs
        · rename_i st1 htd
          simp only [Option.some.injEq, Prod.mk.injEq] at hs
          obtain ⟨rfl, _⟩ := hs
          exact qr_runTaskDone w1 d1 bm hrun htd
        · contradiction
  | enter s =>
    simp only [step] at hs
    split at hs
    · contradiction
    · rename_i t hr'
      split at hs
      · contradiction
      · split at hs
        · simp only [Option.some.injEq, Prod.mk.injEq] at hs
          obtain ⟨rfl, _⟩ := hs; exact QR.refl _ _ _ _
        · rename_i st1 hen
          simp only [Option.some.injEq, Prod.mk.injEq] at hs
          obtain ⟨rfl, _⟩ := hs
          exact qr_enterScope w (hrt t hr') hen
  | exit s ev =>
    simp only [step] at hs
    split at hs
    · contradiction
    · rename_i t hr'
      split at hs
      · contradiction
      · split at hs
        · simp only [Option.some.injEq, Prod.mk.injEq] at hs
          obtain ⟨rfl, _⟩ := hs; exact QR.refl _ _ _ _
        · rename_i st1 r hex
          simp only [Option.some.injEq, Prod.mk.injEq] at hs
          obtain ⟨rfl, _⟩ := hs
          exact qr_exitScope w (hrt t hr') hex
  | cancel s =>
    simp only [step] at hs
    split at hs
    · contradiction
    · simp only [Option.some.injEq, Prod.mk.injEq] at hs
      obtain ⟨rfl, _⟩ := hs
      exact qr_cancelScope q _ _
  | setShield s b =>
    simp only [step] at hs
    split at hs
    · contradiction
    · simp only [Option.some.injEq, Prod.mk.injEq] at hs
      obtain ⟨rfl, _⟩ := hs
      cases b with
      | true => exact qr_setShield_true _ _
      | false => exact absurd rfl (hne s)
  | setDeadline s dl =>
    simp only [step] at hs
    split at hs
    · contradiction
    · simp only [Option.some.injEq, Prod.mk.injEq] at hs
      obtain ⟨rfl, _⟩ := hs
      simp only [stepPre]
      unfold setDeadline
      simp only []
      have q0 : QH tb f (st.setScope s (fun x => { x with deadline := dl })) :=
        q.setScope_inert s _ ⟨rfl, rfl, rfl, rfl, rfl, rfl⟩
      have h0 : QR tb f c st (st.setScope s (fun x => { x with deadline := dl })) := by qr
      generalize st.setScope s (fun x => { x with deadline := dl }) = a0 at q0 h0
      have h1 : QR tb f c st (if (a0.scopes s).timer then
          (a0.unschedule (.timeout s)).setScope s (fun x => { x with timer := false }) else a0) ∧
          QH tb f (if (a0.scopes s).timer then
          (a0.unschedule (.timeout s)).setScope s (fun x => { x with timer := false }) else a0) := by
        split
        · refine ⟨by qr, ?_⟩
          have : QH tb f (a0.unschedule (.timeout s)) :=
            q0.congr rfl (fun _ => ⟨rfl, rfl, rfl, rfl, rfl, rfl⟩) rfl rfl rfl rfl
          exact this.setScope_inert s _ ⟨rfl, rfl, rfl, rfl, rfl, rfl⟩
        · exact ⟨h0, q0⟩
      generalize (if (a0.scopes s).timer then _ else a0) = a1 at h1
      split
      · exact h1.1.trans (qr_armTimeout h1.2 s)
      · exact h1.1
  | awaitFut g =>
    simp only [step] at hs
    split at hs
    · contradiction
    · rename_i t hr'
      have hut := hrt t hr'
      split at hs
      · contradiction
      · split at hs
        · split at hs
          · contradiction
          · simp only [Option.some.injEq, Prod.mk.injEq] at hs
            obtain ⟨rfl, _⟩ := hs
            exact qr_blockOn _ hut _
        all_goals
          simp only [Option.some.injEq, Prod.mk.injEq] at hs
          obtain ⟨rfl, _⟩ := hs; exact QR.refl _ _ _ _
  | sleep dl =>
    simp only [step] at hs
    split at hs
    · contradiction
    · rename_i t hr'
      have hut := hrt t hr'
      split at hs
      · contradiction
      · simp only [Option.some.injEq, Prod.mk.injEq] at hs
        obtain ⟨rfl, _⟩ := hs
        refine QR.trans ?_ (qr_blockOn _ hut _)
        refine QR.trans ?_ (qr_setTask _ _ _ (fun x => by simp))
        exact (qr_newFut st).trans (QR.of_fields rfl rfl)
  | shieldedChk =>
    simp only [step] at hs
    split at hs
    · contradiction
    · rename_i t hr'
      have hut := hrt t hr'
      split at hs
      · contradiction
      · have w1 := WFR.mkScope ⟨w, hr'⟩ true none
        split at hs
        · contradiction
        · rename_i st1 hen
          have h1 : QR tb f c st st1 :=
            (qr_newScope st true none).trans (qr_enterScope w1.1.1 hut hen)
          simp only [Option.some.injEq, Prod.mk.injEq] at hs
          obtain ⟨rfl, _⟩ := hs
          qr
  | mkFut =>
    simp only [step, Option.some.injEq, Prod.mk.injEq] at hs
    obtain ⟨rfl, _⟩ := hs
    exact QR.of_fields rfl rfl
  | mkGroup =>
    simp only [step, Option.some.injEq, Prod.mk.injEq] at hs
    obtain ⟨rfl, _⟩ := hs
    exact (qr_newScope st false none).trans (QR.of_fields rfl rfl)
  | groupEnter g =>
    simp only [step] at hs
    split at hs
    · contradiction
    · rename_i t hr'
      split at hs
      · contradiction
      · split at hs
        · simp only [Option.some.injEq, Prod.mk.injEq] at hs
          obtain ⟨rfl, _⟩ := hs; exact QR.refl _ _ _ _
        · split at hs
          · contradiction
          · rename_i st1 hen
            simp only [Option.some.injEq, Prod.mk.injEq] at hs
            obtain ⟨rfl, _⟩ := hs
            exact (qr_enterScope w (hrt t hr') hen).trans (qr_setGroup _ _ _)
  | spawn g =>
    simp only [step] at hs
    repeat' (first | split at hs | simp only [] at hs)
    all_goals first
      | qr_leaf hs
      | (simp only [Option.some.injEq, Prod.mk.injEq] at hs; obtain ⟨rfl, _⟩ := hs
         exact qr_spawn _ _ _)
  | aexit g ev => exact qr_aexit w q hrt hs
  | start g =>
    simp only [step] at hs
    split at hs
    · contradiction
    · rename_i t hr'
      have hut := hrt t hr'
      split at hs
      · contradiction
      · split at hs
        · simp only [Option.some.injEq, Prod.mk.injEq] at hs
          obtain ⟨rfl, _⟩ := hs; exact QR.refl _ _ _ _
        · simp only [Option.some.injEq, Prod.mk.injEq] at hs
          obtain ⟨rfl, _⟩ := hs
          refine QR.trans ?_ (qr_blockOn _ hut _)
          refine QR.trans ?_ (qr_setTask _ _ _ (fun x => by simp))
          exact (qr_newFut st).trans (qr_spawn _ _ _)
  | handleCancel u =>
    simp only [step] at hs
    split at hs
    · contradiction
    · simp only [Option.some.injEq, Prod.mk.injEq] at hs
      obtain ⟨rfl, _⟩ := hs
      split
      · exact QR.refl _ _ _ _
      · exact qr_cancelScope q _ _
  | handleWait u =>
    simp only [step] at hs
    split at hs
    · contradiction
    · rename_i t hr'
      have hut := hrt t hr'
      split at hs
      · contradiction
      · split at hs
        · simp only [Option.some.injEq, Prod.mk.injEq] at hs
          obtain ⟨rfl, _⟩ := hs
          exact qr_doYield _ _
        · simp only [Option.some.injEq, Prod.mk.injEq] at hs
          obtain ⟨rfl, _⟩ := hs
          refine QR.trans ?_ (qr_blockOn _ hut _)
          refine QR.trans ?_ (qr_setTask _ _ _ (fun x => by simp))
          exact qr_newFut st
  | finish o' =>
    simp only [step] at hs
    split at hs
    · contradiction
    · rename_i t hr'
      split at hs
      · contradiction
      · split at hs
        · contradiction
        · split at hs
          · contradiction
          · rename_i st1 hf
            simp only [Option.some.injEq, Prod.mk.injEq] at hs
            obtain ⟨rfl, _⟩ := hs
            exact qr_finishTask ⟨w, hr'⟩ (hrt t hr') hf
  | _ =>
    simp only [step] at hs
    repeat' (first | split at hs | simp only [] at hs)
    all_goals qr_leaf hs

end AnyioModel.Kernel
