/-
`WF`, part 6: spawning a child task and its `task_done` callback (forest part).
-/
import AnyioModel.Kernel.WF5

namespace AnyioModel.Kernel

theorem Forest.spawn {sc : Nat → Scope} {tk : Nat → Task} (h : Forest sc tk) {u gs : Nat}
    (hu1 : (tk u).hasState = false) (hu2 : (tk u).scope = none)
    (hu3 : ∀ x, (sc x).host ≠ some u) (hg : (sc gs).entered = true) (G : Scope) (T : Task)
    (G1 : G.host = (sc gs).host) (G2 : G.tasks = u :: (sc gs).tasks)
    (G3 : G.parent = (sc gs).parent) (G4 : G.chain = (sc gs).chain)
    (G5 : G.active = (sc gs).active) (G6 : G.entered = (sc gs).entered)
    (G7 : G.exists_ = (sc gs).exists_) (G8 : G.children = (sc gs).children)
    (T1 : T.hasState = true) (T2 : T.scope = some gs) (T3 : T.st = .created) :
    Forest (upd sc gs G) (upd tk u T) := by
  have e1 : ∀ q, ((upd sc gs G) q).chain = (sc q).chain := by
    intro q; by_cases h2 : q = gs <;> simp_all
  have e2 : ∀ q, ((upd sc gs G) q).parent = (sc q).parent := by
    intro q; by_cases h2 : q = gs <;> simp_all
  have e3 : ∀ q, ((upd sc gs G) q).entered = (sc q).entered := by
    intro q; by_cases h2 : q = gs <;> simp_all
  have e4 : ∀ q, ((upd sc gs G) q).exists_ = (sc q).exists_ := by
    intro q; by_cases h2 : q = gs <;> simp_all
  have e5 : ∀ q, ((upd sc gs G) q).active = (sc q).active := by
    intro q; by_cases h2 : q = gs <;> simp_all
  have e6 : ∀ q, ((upd sc gs G) q).host = (sc q).host := by
    intro q; by_cases h2 : q = gs <;> simp_all
  have e7 : ∀ q, ((upd sc gs G) q).children = (sc q).children := by
    intro q; by_cases h2 : q = gs <;> simp_all
  have e8 : ∀ q, ((upd sc gs G) q).tasks =
      if q = gs then u :: (sc gs).tasks else (sc q).tasks := by
    intro q; by_cases h2 : q = gs <;> simp_all
  have f1 : ∀ v, ((upd tk u T) v).hasState = if v = u then true else (tk v).hasState := by
    intro v; by_cases h1 : v = u <;> simp_all
  have f2 : ∀ v, v ≠ u → ((upd tk u T) v).st = (tk v).st := by
    intro v h1; simp_all
  have f3 : ∀ v, ((upd tk u T) v).scope = if v = u then some gs else (tk v).scope := by
    intro v; by_cases h1 : v = u <;> simp_all
  generalize upd sc gs G = sc' at *
  generalize upd tk u T = tk' at *
  clear G1 G2 G3 G4 G5 G6 G7 G8 T1 T2 T3
  obtain ⟨h1, h2, h3, h4, h5, h6, h7, h8, h9, h10, h11, h12, h13, h14, h15, h16⟩ := h
  constructor
  all_goals grind

theorem Forest.taskDone {sc : Nat → Scope} {tk : Nat → Task} (h : Forest sc tk) {u s0 : Nat}
    (hs : (tk u).scope = some s0) (hd : (tk u).st = .done) (S : Scope) (T : Task)
    (S1 : S.host = (sc s0).host) (S2 : S.tasks = (sc s0).tasks.erase u)
    (S3 : S.parent = (sc s0).parent) (S4 : S.chain = (sc s0).chain)
    (S5 : S.active = (sc s0).active) (S6 : S.entered = (sc s0).entered)
    (S7 : S.exists_ = (sc s0).exists_) (S8 : S.children = (sc s0).children)
    (T1 : T.hasState = false) (T2 : T.scope = none) (T3 : T.st = (tk u).st) :
    Forest (upd sc s0 S) (upd tk u T) := by
  have hts := h.task_scope u s0 hs
  have e1 : ∀ q, ((upd sc s0 S) q).chain = (sc q).chain := by
    intro q; by_cases h2 : q = s0 <;> simp_all
  have e2 : ∀ q, ((upd sc s0 S) q).parent = (sc q).parent := by
    intro q; by_cases h2 : q = s0 <;> simp_all
  have e3 : ∀ q, ((upd sc s0 S) q).entered = (sc q).entered := by
    intro q; by_cases h2 : q = s0 <;> simp_all
  have e4 : ∀ q, ((upd sc s0 S) q).exists_ = (sc q).exists_ := by
    intro q; by_cases h2 : q = s0 <;> simp_all
  have e5 : ∀ q, ((upd sc s0 S) q).active = (sc q).active := by
    intro q; by_cases h2 : q = s0 <;> simp_all
  have e6 : ∀ q, ((upd sc s0 S) q).host = (sc q).host := by
    intro q; by_cases h2 : q = s0 <;> simp_all
  have e7 : ∀ q, ((upd sc s0 S) q).children = (sc q).children := by
    intro q; by_cases h2 : q = s0 <;> simp_all
  have e8 : ∀ q, ((upd sc s0 S) q).tasks =
      if q = s0 then (sc s0).tasks.erase u else (sc q).tasks := by
    intro q; by_cases h2 : q = s0 <;> simp_all
  have f1 : ∀ v, ((upd tk u T) v).hasState = if v = u then false else (tk v).hasState := by
    intro v; by_cases h1 : v = u <;> simp_all
  have f2 : ∀ v, ((upd tk u T) v).st = (tk v).st := by
    intro v; by_cases h1 : v = u <;> simp_all
  have f3 : ∀ v, ((upd tk u T) v).scope = if v = u then none else (tk v).scope := by
    intro v; by_cases h1 : v = u <;> simp_all
  generalize upd sc s0 S = sc' at *
  generalize upd tk u T = tk' at *
  clear S1 S2 S3 S4 S5 S6 S7 S8 T1 T2 T3
  obtain ⟨h1, h2, h3, h4, h5, h6, h7, h8, h9, h10, h11, h12, h13, h14, h15, h16⟩ := h
  constructor
  all_goals grind

end AnyioModel.Kernel
