/-
Task-group invariants of the kernel model, part 4: every transition preserves `GInv`;
`GInv` holds in every reachable state.
-/
import AnyioModel.Kernel.GroupInv3

namespace AnyioModel.Kernel

theorem gle_setCur (st : State) (c : List Handle) : GLe st { st with cur := c } :=
  gle_loop rfl rfl rfl rfl rfl rfl rfl rfl rfl

theorem ginv_runHandle {st st' : State} {x : Handle} {o : Out} (h : GInv st) (w : WF st)
    (hs : step st (.run x) = some (st', o)) : GInv st' := by
  simp only [step] at hs
  split at hs
  · contradiction
  · rename_i hg
    have hrun : st.running = none := by
      cases hr : st.running <;> simp_all
    have hxc : x ∈ st.cur := by
      apply Classical.byContradiction; intro hx; exact hg (.inr hx)
    have hok := w.cur_ok x hxc
    have w1 : WF { st with cur := st.cur.erase x } :=
      wf_setCur w _ (fun y hy => List.mem_of_mem_erase hy)
    have h1 : GInv { st with cur := st.cur.erase x } := ginv_gle h (gle_setCur st _)
    cases x with
    | step t =>
      simp only [] at hs
      split at hs
      · rename_i hst
        refine ginv_runTask h1 w1 hrun hok ?_ hs
        rcases hst with hst | hst <;> simp_all
      · contradiction
    | wakeup t =>
      simp only [] at hs
      split at hs
      · rename_i f hst
        refine ginv_runTask h1 w1 hrun hok ?_ hs
        simp_all
      · contradiction
    | deliver s =>
      simp only [Option.some.injEq, Prod.mk.injEq] at hs
      obtain ⟨rfl, _⟩ := hs
      exact ginv_gle h1 (gle_deliver _ _)
    | timeout s =>
      simp only [Option.some.injEq, Prod.mk.injEq] at hs
      obtain ⟨rfl, _⟩ := hs
      exact ginv_gle h1 ((gle_setScope _ s _ (by constructor <;> simp)).trans
        (GLe.of_mcframe (mcframe_armTimeout _ _)))
    | sleepDone f =>
      simp only [Option.some.injEq, Prod.mk.injEq] at hs
      obtain ⟨rfl, _⟩ := hs
      exact ginv_gle h1 (gle_resolveFut _ _ _)
    | taskDone u =>
      simp only [] at hs
      split at hs
      · rename_i st1 htd
        simp only [Option.some.injEq, Prod.mk.injEq] at hs
        obtain ⟨rfl, _⟩ := hs
        exact ginv_runTaskDone h1 w1 htd
      · contradiction

theorem ginv_mkGroup' {st B : State} (h : GInv st) (s : Nat)
    (hG : B.groups = upd st.groups st.nGroups { scope := s }) (hT : B.tasks = st.tasks)
    (hS : B.scopes = st.scopes) (hnT : B.nTasks = st.nTasks) (hnG : B.nGroups = st.nGroups + 1) :
    GInv B := by
  obtain ⟨a0, a1, a1n, a2, a3, a4, a5, a11, a6, a8, a10, alt, adf⟩ := h
  have hd := adf st.nGroups (Nat.le_refl _)
  have Go : ∀ g, g ≠ st.nGroups → B.groups g = st.groups g := by
    intro g hg; rw [hG]; simp [hg]
  have Gn : B.groups st.nGroups = { scope := s } := by rw [hG]; simp
  constructor
  · intro u g hu
    rw [hT] at hu
    have := a0 u g hu
    by_cases hg : g = st.nGroups
    · subst hg; rw [hd] at this; contradiction
    · rw [Go g hg]; exact this
  · intro g u hu
    rw [hT]
    by_cases hg : g = st.nGroups
    · subst hg; rw [Gn] at hu; contradiction
    · rw [Go g hg] at hu ⊢; exact a1 g u hu
  · intro g
    by_cases hg : g = st.nGroups
    · subst hg; rw [Gn]; exact List.nodup_nil
    · rw [Go g hg]; exact a1n g
  · intro g u hu
    rw [hT]
    by_cases hg : g = st.nGroups
    · subst hg; rw [Gn] at hu; contradiction
    · rw [Go g hg] at hu ⊢; exact a2 g u hu
  · intro g hx
    rw [hS]
    by_cases hg : g = st.nGroups
    · subst hg; rw [Gn] at hx; contradiction
    · rw [Go g hg] at hx ⊢; exact a3 g hx
  · rw [hT]; exact a4
  · rw [hT]; exact a5
  · rw [hT, hS]; exact a11
  · rw [hT]; exact a6
  · rw [hS]; exact a8
  · rw [hT]; exact a10
  · intro g u hu
    rw [hnT]
    by_cases hg : g = st.nGroups
    · subst hg; rw [Gn] at hu; contradiction
    · rw [Go g hg] at hu; exact alt g u hu
  · intro g hg
    rw [hnG] at hg
    rw [Go g (by omega)]; exact adf g (by omega)

theorem ginv_mkGroup {st : State} (h : GInv st) (s : Nat) :
    GInv { st.setGroup st.nGroups (fun _ => { scope := s }) with nGroups := st.nGroups + 1 } :=
  ginv_mkGroup' h s rfl rfl rfl rfl rfl

theorem ginv_step {st st' : State} {e : Ev} {o : Out} (h : GInv st) (w : WF st)
    (hs : step st e = some (st', o)) : GInv st' := by
  cases e with
  | beginCycle now =>
    simp only [step] at hs
    split at hs
    · contradiction
    · simp only [Option.some.injEq, Prod.mk.injEq] at hs
      obtain ⟨rfl, _⟩ := hs
      exact ginv_gle h (gle_loop rfl rfl rfl rfl rfl rfl rfl rfl rfl)
  | run x => exact ginv_runHandle h w hs
  | mkScope sh d =>
    simp only [step, Option.some.injEq, Prod.mk.injEq] at hs
    obtain ⟨rfl, _⟩ := hs
    exact ginv_gle h (gle_newScope st sh d (w.scope_dflt (Nat.le_refl _)).2.1)
  | enter s =>
    simp only [step] at hs
    split at hs
    · contradiction
    · rename_i t hr
      split at hs
      · contradiction
      · rename_i hg
        have hx : (st.scopes s).exists_ = true := by
          cases hx : (st.scopes s).exists_ <;> simp_all
        split at hs
        · simp only [Option.some.injEq, Prod.mk.injEq] at hs
          obtain ⟨rfl, _⟩ := hs; exact h
        · rename_i st1 hen
          simp only [Option.some.injEq, Prod.mk.injEq] at hs
          obtain ⟨rfl, _⟩ := hs
          exact (GW.enterScope ⟨h, w, hr⟩ hx hen).g
  | exit s ev =>
    simp only [step] at hs
    split at hs
    · contradiction
    · rename_i t hr
      split at hs
      · contradiction
      · split at hs
        · simp only [Option.some.injEq, Prod.mk.injEq] at hs
          obtain ⟨rfl, _⟩ := hs; exact h
        · rename_i st1 r hex
          simp only [Option.some.injEq, Prod.mk.injEq] at hs
          obtain ⟨rfl, _⟩ := hs
          exact (GW.exitScope ⟨h, w, hr⟩ hex).g
  | cancel s =>
    simp only [step] at hs
    split at hs
    · contradiction
    · simp only [Option.some.injEq, Prod.mk.injEq] at hs
      obtain ⟨rfl, _⟩ := hs
      exact ginv_gle h (gle_cancelScope _ _ _)
  | setShield s b =>
    simp only [step] at hs
    split at hs
    · contradiction
    · simp only [Option.some.injEq, Prod.mk.injEq] at hs
      obtain ⟨rfl, _⟩ := hs
      exact ginv_gle h (gle_setShield _ _ _)
  | setDeadline s d =>
    simp only [step] at hs
    split at hs
    · contradiction
    · simp only [Option.some.injEq, Prod.mk.injEq] at hs
      obtain ⟨rfl, _⟩ := hs
      exact ginv_gle h (gle_setDeadline _ _ _)
  | yield =>
    simp only [step] at hs
    split at hs
    · contradiction
    · rename_i t hr
      split at hs
      · contradiction
      · simp only [Option.some.injEq, Prod.mk.injEq] at hs
        obtain ⟨rfl, _⟩ := hs
        exact GW.doYield ⟨h, w, hr⟩
  | mkFut =>
    simp only [step, Option.some.injEq, Prod.mk.injEq] at hs
    obtain ⟨rfl, _⟩ := hs
    refine ginv_gle h ?_
    unfold newFut
    constructor
    · exact fun g => GGroup.refl _
    · exact fun u => GTask.of_eq rfl
    · exact fun s => GScope.of_eq rfl
    · intro f hf _
      have : f ≠ st.nFuts := by omega
      simp [this]
    · intro f hf
      have : f ≠ st.nFuts := by omega
      simp [this]
    · simp
    · exact Nat.le_refl _
    · rfl
    · rfl
  | setFut f =>
    simp only [step] at hs
    split at hs
    · contradiction
    · simp only [Option.some.injEq, Prod.mk.injEq] at hs
      obtain ⟨rfl, _⟩ := hs
      exact ginv_gle h (gle_resolveFut _ _ _)
  | awaitFut f =>
    simp only [step] at hs
    split at hs
    · contradiction
    · rename_i t hr
      split at hs
      · contradiction
      · split at hs
        · split at hs
          · contradiction
          · simp only [Option.some.injEq, Prod.mk.injEq] at hs
            obtain ⟨rfl, _⟩ := hs
            exact GW.blockOn ⟨h, w, hr⟩ f
        all_goals
          simp only [Option.some.injEq, Prod.mk.injEq] at hs
          obtain ⟨rfl, _⟩ := hs; exact h
  | sleep d =>
    simp only [step] at hs
    split at hs
    · contradiction
    · rename_i t hr
      split at hs
      · contradiction
      · simp only [Option.some.injEq, Prod.mk.injEq] at hs
        obtain ⟨rfl, _⟩ := hs
        have h1 := (GW.mkFut ⟨h, w, hr⟩)
        have h2 : GW { (newFut st).1 with timers := (newFut st).1.timers ++
            [((newFut st).1.now + d, Handle.sleepDone (newFut st).2)] } t :=
          ⟨ginv_gle h1.1.g (gle_loop rfl rfl rfl rfl rfl rfl rfl rfl rfl),
            wf_addTimer h1.1.w.1 _ _ (by simpa [HandleOk] using h1.2), h1.1.w.2⟩
        exact (h2.setLib t _).blockOn _
  | chkIfCancelled =>
    simp only [step] at hs
    split at hs
    · contradiction
    · rename_i t hr
      split at hs
      · contradiction
      · split at hs
        · split at hs
          · simp only [Option.some.injEq, Prod.mk.injEq] at hs
            obtain ⟨rfl, _⟩ := hs
            exact (GW.setLib ⟨h, w, hr⟩ t _).doYield
          · simp only [Option.some.injEq, Prod.mk.injEq] at hs
            obtain ⟨rfl, _⟩ := hs; exact h
        · simp only [Option.some.injEq, Prod.mk.injEq] at hs
          obtain ⟨rfl, _⟩ := hs; exact h
  | shieldedChk =>
    simp only [step] at hs
    split at hs
    · contradiction
    · rename_i t hr
      split at hs
      · contradiction
      · have h1 := GW.mkScope ⟨h, w, hr⟩ true none
        split at hs
        · contradiction
        · rename_i st1 hen
          simp only [Option.some.injEq, Prod.mk.injEq] at hs
          obtain ⟨rfl, _⟩ := hs
          exact ((h1.1.enterScope h1.2 hen).setLib t _).doYield
  | nativeCancel u =>
    simp only [step] at hs
    split at hs
    · contradiction
    · rename_i hg
      simp only [Option.some.injEq, Prod.mk.injEq] at hs
      obtain ⟨rfl, _⟩ := hs
      exact ginv_gle h (GLe.of_mframe (mframe_taskCancel _ _ _
        (fun hc => absurd hc (by simp only [not_or] at hg; exact hg.2))))
  | uncancel =>
    simp only [step] at hs
    split at hs
    · contradiction
    · rename_i t hr
      split at hs
      · contradiction
      · simp only [Option.some.injEq, Prod.mk.injEq] at hs
        obtain ⟨rfl, _⟩ := hs
        exact ginv_gle h ((GLe.of_mframe (mframe_taskUncancel _ _ _)).trans
          (gle_setTask _ t _ (by constructor <;> simp)))
  | mkGroup =>
    simp only [step, Option.some.injEq, Prod.mk.injEq] at hs
    obtain ⟨rfl, _⟩ := hs
    exact ginv_mkGroup
      (ginv_gle h (gle_newScope st false none (w.scope_dflt (Nat.le_refl _)).2.1)) _
  | groupEnter g =>
    simp only [step] at hs
    split at hs
    · contradiction
    · rename_i t hr
      split at hs
      · contradiction
      · rename_i hg
        split at hs
        · simp only [Option.some.injEq, Prod.mk.injEq] at hs
          obtain ⟨rfl, _⟩ := hs; exact h
        · split at hs
          · contradiction
          · rename_i st1 hen
            simp only [Option.some.injEq, Prod.mk.injEq] at hs
            obtain ⟨rfl, _⟩ := hs
            have hx := (w.scope_exists _).mpr (w.group_scope_lt g (by omega))
            exact ginv_setGroup_inert (GW.enterScope ⟨h, w, hr⟩ hx hen).g g _ (by simp)
  | spawn g =>
    simp only [step] at hs
    split at hs
    · contradiction
    · rename_i hg
      split at hs
      · simp only [Option.some.injEq, Prod.mk.injEq] at hs
        obtain ⟨rfl, _⟩ := hs; exact h
      · rename_i hg2
        simp only [Option.some.injEq, Prod.mk.injEq] at hs
        obtain ⟨rfl, _⟩ := hs
        refine ginv_spawn none h w (by omega) ?_
        cases ha : (st.scopes (st.groups g).scope).active <;> simp_all
  | aexit g ev =>
    rw [step_aexit] at hs
    split at hs
    · contradiction
    · rename_i t hr
      split at hs
      · contradiction
      · have h1 := gw_aexitPrep ⟨h, w, hr⟩ g ev
        simp only [] at hs
        split at hs
        · have h2 := h1.mkScope true none
          split at hs
          · contradiction
          · rename_i st1 hen
            simp only [Option.some.injEq, Prod.mk.injEq] at hs
            obtain ⟨rfl, _⟩ := hs
            exact ((h2.1.enterScope h2.2 hen).setLib t _).doYield
        · exact ginv_aexitAfterChk h1 hs
  | start g =>
    simp only [step] at hs
    split at hs
    · contradiction
    · rename_i t hr
      split at hs
      · contradiction
      · rename_i hg
        split at hs
        · simp only [Option.some.injEq, Prod.mk.injEq] at hs
          obtain ⟨rfl, _⟩ := hs; exact h
        · rename_i hg2
          simp only [Option.some.injEq, Prod.mk.injEq] at hs
          obtain ⟨rfl, _⟩ := hs
          have h1 := GW.mkFut ⟨h, w, hr⟩
          have hg' : g < (newFut st).1.nGroups := by simp [newFut]; omega
          have ha : ((newFut st).1.scopes ((newFut st).1.groups g).scope).active = true := by
            cases ha : (st.scopes (st.groups g).scope).active <;> simp_all [newFut]
          have w2 := wf_spawn (some (newFut st).2) h1.1.w.1 hg' ha
          have h3 : GW (spawn (newFut st).1 g (some (newFut st).2)).1 t :=
            ⟨ginv_spawn _ h1.1.g h1.1.w.1 hg' ha, w2.1, by rw [w2.2.1]; exact h1.1.w.2⟩
          exact (h3.setLib t _).blockOn _
  | started =>
    simp only [step] at hs
    split at hs
    · contradiction
    · rename_i t hr
      split at hs
      · contradiction
      · split at hs
        · simp only [Option.some.injEq, Prod.mk.injEq] at hs
          obtain ⟨rfl, _⟩ := hs
          exact ginv_gle h (gle_resolveFut _ _ _)
        all_goals
          simp only [Option.some.injEq, Prod.mk.injEq] at hs
          obtain ⟨rfl, _⟩ := hs; exact h
  | handleCancel u =>
    simp only [step] at hs
    split at hs
    · contradiction
    · simp only [Option.some.injEq, Prod.mk.injEq] at hs
      obtain ⟨rfl, _⟩ := hs
      split
      · exact h
      · exact ginv_gle h (gle_cancelScope _ _ _)
  | handleWait u =>
    simp only [step] at hs
    split at hs
    · contradiction
    · rename_i t hr
      split at hs
      · contradiction
      · split at hs
        · simp only [Option.some.injEq, Prod.mk.injEq] at hs
          obtain ⟨rfl, _⟩ := hs
          exact GW.doYield ⟨h, w, hr⟩
        · simp only [Option.some.injEq, Prod.mk.injEq] at hs
          obtain ⟨rfl, _⟩ := hs
          exact ((GW.mkFut ⟨h, w, hr⟩).1.setTask u _ (fun x => by simp)
            (by constructor <;> simp)).blockOn _
  | finish o =>
    simp only [step] at hs
    split at hs
    · contradiction
    · rename_i t hr
      split at hs
      · contradiction
      · split at hs
        · contradiction
        · split at hs
          · contradiction
          · rename_i st1 hf
            simp only [Option.some.injEq, Prod.mk.injEq] at hs
            obtain ⟨rfl, _⟩ := hs
            exact ginv_finishTask ⟨h, w, hr⟩ hf

end AnyioModel.Kernel
