/-
`WF`, part 8: `TaskGroup.__aexit__` helpers, `spawn`, `task_done`, task resumption.
-/
import AnyioModel.Kernel.WF7

namespace AnyioModel.Kernel

theorem wf_aexitFinish {st st' : State} {t g : Nat} {ev : ExcVal} {o : Out} (h : WFR st t)
    (he : aexitFinish st t g ev = some (st', o)) : WF st' := by
  unfold aexitFinish at he
  simp only [] at he
  split at he
  · contradiction
  · rename_i st1 r hex
    simp only [Option.some.injEq, Prod.mk.injEq] at he
    obtain ⟨rfl, _⟩ := he
    exact (((h.exitScope hex).setGroup_inert g _ (fun x => by simp)).setTask_inert t _
      (fun x => by simp)).1

theorem wf_aexitLoop {st st' : State} {t g ws : Nat} {ev : ExcVal} {o : Out} (h : WFR st t)
    (he : aexitLoop st t g ws ev = some (st', o)) : WF st' := by
  unfold aexitLoop at he
  split at he
  · simp only [Option.some.injEq, Prod.mk.injEq] at he
    obtain ⟨rfl, _⟩ := he
    have h1 := h.mkFut
    refine WFR.blockOn ((h1.1.setGroup_inert g _ (fun x => by simp)).setTask_inert t _
      (fun x => by simp)) ?_
    simpa using h1.2
  · split at he
    · contradiction
    · rename_i st1 r hex
      exact wf_aexitFinish (h.exitScope hex) he

theorem wf_aexitAfterChk {st st' : State} {t g : Nat} {ev : ExcVal} {o : Out} (h : WFR st t)
    (he : aexitAfterChk st t g ev = some (st', o)) : WF st' := by
  unfold aexitAfterChk at he
  split at he
  · have h1 := h.mkScope false none
    simp only [] at he
    split at he
    · contradiction
    · rename_i st1 hen
      exact wf_aexitLoop (h1.1.enterScope h1.2 hen) he
  · exact wf_aexitFinish h he

/-! ### `_spawn` -/

/-- the pure part of `_spawn` after the handle scope `hs` has been allocated -/
def spawnCore (st : State) (g gs hs : Nat) (sf : Option Nat) : State :=
  let u := st.nTasks
  let st := { st.setTask u (fun _ =>
      { st := .created, hasState := true, scope := some gs, group := some g,
        startFut := sf, hscope := some hs }) with nTasks := u + 1 }
  let st := st.schedule (.step u)
  let st := st.setScope gs (fun x => { x with tasks := u :: x.tasks })
  st.setGroup g (fun x => { x with tasks := u :: x.tasks, spawned := u :: x.spawned })

/-- the cancellation machinery at the end of `_spawn` -/
def spawnTail (st : State) (gs : Nat) : State :=
  if (st.scopes gs).cancelCalled then
    if (st.scopes gs).deliver then st else deliver st gs
  else if (st.scopes gs).shield then st
  else restartInParent st gs

theorem spawn_eq (st : State) (g : Nat) (sf : Option Nat) :
    spawn st g sf =
      (spawnTail (spawnCore (newScope st false none).1 g (st.groups g).scope
        (newScope st false none).2 sf) (st.groups g).scope, (newScope st false none).1.nTasks) :=
  rfl

theorem frame_spawnTail (st : State) (gs : Nat) : Frame st (spawnTail st gs) := by
  unfold spawnTail
  split
  · split
    · exact Frame.refl _
    · exact frame_deliver _ _
  · split
    · exact Frame.refl _
    · exact frame_restartInParent _ _

theorem wf_spawnCore {st : State} {g gs hs : Nat} (sf : Option Nat) (h : WF st)
    (hg : g < st.nGroups) (hhs : hs < st.nScopes) (hgs : (st.scopes gs).entered = true) :
    WF (spawnCore st g gs hs sf) := by
  have hd := h.task_dflt st.nTasks (Nat.le_refl _)
  have hnh : ∀ x, (st.scopes x).host ≠ some st.nTasks := by
    intro x hx; have := h.host_lt hx; omega
  have hf : Forest (spawnCore st g gs hs sf).scopes (spawnCore st g gs hs sf).tasks := by
    have eS : (spawnCore st g gs hs sf).scopes =
        upd st.scopes gs ((spawnCore st g gs hs sf).scopes gs) := by
      apply eq_upd_of_agree; intro x hx; simp [spawnCore, hx]
    have eT : (spawnCore st g gs hs sf).tasks =
        upd st.tasks st.nTasks ((spawnCore st g gs hs sf).tasks st.nTasks) := by
      apply eq_upd_of_agree; intro x hx; simp [spawnCore, hx]
    rw [eS, eT]
    apply h.forest.spawn hd.2.1 hd.2.2.1 hnh hgs <;> simp [spawnCore]
  have ok : ∀ x, HandleOk st x → HandleOk (spawnCore st g gs hs sf) x :=
    fun x hx => hx.mono (by simp [spawnCore]) (by simp [spawnCore]) (by simp [spawnCore])
  have tko : ∀ t, t ≠ st.nTasks → (spawnCore st g gs hs sf).tasks t = st.tasks t := by
    intro t ht; simp [spawnCore, ht]
  have tkn : (spawnCore st g gs hs sf).tasks st.nTasks =
      { st := .created, hasState := true, scope := some gs, group := some g,
        startFut := sf, hscope := some hs } := by simp [spawnCore]
  have nT : (spawnCore st g gs hs sf).nTasks = st.nTasks + 1 := by simp [spawnCore]
  have nS : (spawnCore st g gs hs sf).nScopes = st.nScopes := by simp [spawnCore]
  have nF : (spawnCore st g gs hs sf).nFuts = st.nFuts := by simp [spawnCore]
  have nG : (spawnCore st g gs hs sf).nGroups = st.nGroups := by simp [spawnCore]
  have sx : ∀ x, ((spawnCore st g gs hs sf).scopes x).exists_ = (st.scopes x).exists_ ∧
      ((spawnCore st g gs hs sf).scopes x).deadline = (st.scopes x).deadline := by
    intro x; by_cases hx : x = gs
    · subst hx; simp [spawnCore]
    · simp [spawnCore, hx]
  have gro : ∀ g', g' ≠ g → (spawnCore st g gs hs sf).groups g' = st.groups g' := by
    intro g' hg'; simp [spawnCore, hg']
  have grn : ((spawnCore st g gs hs sf).groups g).scope = (st.groups g).scope ∧
      ((spawnCore st g gs hs sf).groups g).tasks = st.nTasks :: (st.groups g).tasks ∧
      ((spawnCore st g gs hs sf).groups g).spawned = st.nTasks :: (st.groups g).spawned := by
    simp [spawnCore]
  constructor
  · intro t ht; rw [nT] at ht
    rw [tko t (by omega)]; exact h.task_dflt t (by omega)
  · intro x; rw [(sx x).1, nS]; exact h.scope_exists x
  · intro x; rw [(sx x).1, (sx x).2]; exact h.deadline_exists x
  · intro g' hg'; rw [nG] at hg'
    rw [gro g' (by omega)]; exact h.group_dflt g' hg'
  · intro x hx
    have : x ∈ st.ready ∨ x = .step st.nTasks := by simpa [spawnCore] using hx
    rcases this with hx | rfl
    · exact ok x (h.ready_ok x hx)
    · simp [HandleOk, nT]
  · intro x hx
    have : x ∈ st.cur := by simpa [spawnCore] using hx
    exact ok x (h.cur_ok x this)
  · intro x hx
    have : x ∈ st.timers := by simpa [spawnCore] using hx
    exact ok _ (h.timers_ok x this)
  · intro f t hf
    have : st.futWaiter f = some t := by simpa [spawnCore] using hf
    have := h.futWaiter_lt f t this
    rw [nF, nT]; omega
  · intro t s hs'
    rw [nS]
    by_cases ht : t = st.nTasks
    · subst ht; rw [tkn] at hs'; simp at hs'; omega
    · rw [tko t ht] at hs'; exact h.hscope_lt t s hs'
  · intro g' hg'; rw [nG] at hg'; rw [nS]
    by_cases hgg : g' = g
    · subst hgg; rw [grn.1]; exact h.group_scope_lt g' hg'
    · rw [gro g' hgg]; exact h.group_scope_lt g' hg'
  · intro g' t ht; rw [nT]
    by_cases hgg : g' = g
    · subst hgg; rw [grn.2.1, grn.2.2] at ht
      simp only [List.mem_cons] at ht
      rcases ht with (rfl | ht) | (rfl | ht)
      · omega
      · have := h.group_tasks_lt g' t (.inl ht); omega
      · omega
      · have := h.group_tasks_lt g' t (.inr ht); omega
    · rw [gro g' hgg] at ht; have := h.group_tasks_lt g' t ht; omega
  · intro t g' hg'; rw [nG]
    by_cases ht : t = st.nTasks
    · subst ht; rw [tkn] at hg'; simp at hg'; omega
    · rw [tko t ht] at hg'; exact h.task_group_lt t g' hg'
  · exact hf.not_entered
  · exact hf.entered_exists
  · exact hf.active_entered
  · exact hf.child_spec
  · exact hf.child_conv
  · exact hf.chain_spec
  · exact hf.chain_entered
  · exact hf.chain_nodup
  · exact hf.parent_entered
  · exact hf.task_scope
  · exact hf.tasks_mem
  · exact hf.tasks_nodup
  · exact hf.children_nodup
  · exact hf.host_active
  · exact hf.host_scope
  · exact hf.host_started
  · intro t
    have hr : (spawnCore st g gs hs sf).running = st.running := by simp [spawnCore]
    rw [hr]
    by_cases ht : t = st.nTasks
    · subst ht; rw [tkn]; simp
      intro hr'; have := h.running_lt hr'; omega
    · rw [tko t ht]; exact h.running_spec t
  · intro t
    by_cases ht : t = st.nTasks
    · subst ht; rw [tkn]; simp
    · rw [tko t ht]; exact h.outcome_done t

theorem spawnCore_running (st : State) (g gs hs : Nat) (sf : Option Nat) :
    (spawnCore st g gs hs sf).running = st.running := by simp [spawnCore]

theorem wf_spawn {st : State} {g : Nat} (sf : Option Nat) (h : WF st) (hg : g < st.nGroups)
    (ha : (st.scopes (st.groups g).scope).active = true) :
    WF (spawn st g sf).1 ∧ (spawn st g sf).1.running = st.running ∧
      (spawn st g sf).1.nFuts = st.nFuts := by
  rw [spawn_eq]
  have h1 := wf_newScope h false none
  have hgs : (st.groups g).scope < st.nScopes := h.group_scope_lt g hg
  have hen : ((newScope st false none).1.scopes (st.groups g).scope).entered = true := by
    have : (st.groups g).scope ≠ st.nScopes := by omega
    simp [newScope, this]; exact h.active_entered _ ha
  have h2 := wf_spawnCore (g := g) (gs := (st.groups g).scope) (hs := (newScope st false none).2)
    sf h1 (by simpa [newScope] using hg) (by simp [newScope]) hen
  have fr := frame_spawnTail (spawnCore (newScope st false none).1 g (st.groups g).scope
        (newScope st false none).2 sf) (st.groups g).scope
  refine ⟨wf_frame h2 fr, ?_, ?_⟩
  · simp only []; rw [fr.running, spawnCore_running]; rfl
  · simp only []; rw [fr.nFuts]; simp [spawnCore, newScope]

/-! ### `task_done` -/

theorem wf_taskDoneCore {st : State} {u g sc : Nat} (h : WF st)
    (hs : (st.tasks u).scope = some sc) (hd : (st.tasks u).st = .done) :
    WF (((st.setScope sc (fun x => { x with tasks := x.tasks.erase u })).setGroup g
      (fun x => { x with tasks := x.tasks.erase u })).setTask u
      (fun x => { x with hasState := false, scope := none, doneCbRun := true })) := by
  have hlt : u < st.nTasks := by
    apply Classical.byContradiction; intro hlt
    have := h.task_dflt u (by omega); simp_all
  let A := (st.setScope sc (fun x => { x with tasks := x.tasks.erase u })).setTask u
      (fun x => { x with hasState := false, scope := none, doneCbRun := true })
  have hA : WF A := by
    have hf : Forest A.scopes A.tasks := by
      have eS : A.scopes = upd st.scopes sc (A.scopes sc) := by
        apply eq_upd_of_agree; intro x hx; simp [A, hx]
      have eT : A.tasks = upd st.tasks u (A.tasks u) := by
        apply eq_upd_of_agree; intro x hx; simp [A, hx]
      rw [eS, eT]
      apply h.forest.taskDone hs hd <;> simp [A]
    refine h.of_forest rfl rfl rfl rfl rfl rfl rfl (fun _ h => h) (fun _ h => h) (fun _ h => h)
      (fun t => ?_) (fun t ht => ?_) (fun x => ?_) hf
    · by_cases ht : t = u
      · subst ht; simp [A]
      · simp [A, ht]
    · have : t ≠ u := by omega
      simp [A, this]
    · by_cases hx : x = sc
      · subst hx; simp [A]
      · simp [A, hx]
  have := wf_setGroup_inert hA g (fun x => { x with tasks := x.tasks.erase u })
    (fun x => ⟨rfl, fun t ht => List.mem_of_mem_erase ht, fun _ h => h⟩)
  exact this

/-- literal copy of the end of `runTaskDone` -/
def taskDoneTail (st : State) (g u : Nat) (o : Outcome) (sfo : Option Nat) : Option State :=
  let gs := (st.groups g).scope
  match o with
  | .none =>
    match sfo with
    | some sf =>
      if (st.futs sf).done then some st
      else some (resolveFut st sf (.failed (.one .runtimeError)))
    | none => some st
  | e =>
    match sfo with
    | some sf =>
      if (st.futs sf) matches .cancelled _ ∧ e.isCancelledError then some st
      else if (st.futs sf).done then
        let st := if e.isCancelledError then st else
          st.setGroup g (fun x =>
            { x with exceptions := x.exceptions ++ e.leaves, routed := u :: x.routed })
        some (if effCancelled st gs then st else cancelScope st gs false)
      else some (resolveFut st sf (.failed e))
    | none =>
      let st := if e.isCancelledError then st else
        st.setGroup g (fun x =>
          { x with exceptions := x.exceptions ++ e.leaves, routed := u :: x.routed })
      some (if effCancelled st gs then st else cancelScope st gs false)

def taskDoneMid (st : State) (g : Nat) : State :=
  match (st.groups g).onCompleted with
  | some f => if (st.groups g).tasks = [] then resolveFut st f .result else st
  | none => st

theorem runTaskDone_eq (st : State) (u : Nat) :
    runTaskDone st u =
      match (st.tasks u).group, (st.tasks u).scope, (st.tasks u).outcome with
      | some g, some sc, some o =>
        taskDoneTail (taskDoneMid
          (((st.setScope sc (fun x => { x with tasks := x.tasks.erase u })).setGroup g
            (fun x => { x with tasks := x.tasks.erase u })).setTask u
            (fun x => { x with hasState := false, scope := none, doneCbRun := true })) g)
          g u o (st.tasks u).startFut
      | _, _, _ => none := rfl

theorem wf_taskDoneTail {st st' : State} {g u : Nat} {o : Outcome} {sfo : Option Nat} (h : WF st)
    (he : taskDoneTail st g u o sfo = some st') : WF st' ∧ st'.running = st.running := by
  have hr : ∀ (f : Nat) (v : FutSt), WF (resolveFut st f v) ∧
      (resolveFut st f v).running = st.running :=
    fun f v => ⟨wf_frame h (frame_resolveFut _ _ _), (frame_resolveFut _ _ _).running⟩
  unfold taskDoneTail at he
  simp only [] at he
  repeat' (split at he)
  all_goals
    simp only [Option.some.injEq] at he
    subst he
    first
    | exact ⟨h, rfl⟩
    | exact hr _ _
    | exact ⟨wf_setGroup_inert h g _ (fun x => by simp), rfl⟩
    | exact ⟨wf_cframe h (cframe_cancelScope _ _ _), (cframe_cancelScope _ _ _).running⟩
    | exact ⟨wf_cframe (wf_setGroup_inert h g _ (fun x => by simp)) (cframe_cancelScope _ _ _),
        (cframe_cancelScope _ _ _).running⟩

theorem wf_runTaskDone {st st' : State} {u : Nat} (h : WF st)
    (he : runTaskDone st u = some st') : WF st' ∧ st'.running = st.running := by
  rw [runTaskDone_eq] at he
  split at he
  · rename_i g sc o hg hsc ho
    have hd := h.outcome_done u (by simp [ho])
    have h1 := wf_taskDoneCore (g := g) h hsc hd
    have h2 : WF (taskDoneMid
          (((st.setScope sc (fun x => { x with tasks := x.tasks.erase u })).setGroup g
            (fun x => { x with tasks := x.tasks.erase u })).setTask u
            (fun x => { x with hasState := false, scope := none, doneCbRun := true })) g) ∧
        (taskDoneMid
          (((st.setScope sc (fun x => { x with tasks := x.tasks.erase u })).setGroup g
            (fun x => { x with tasks := x.tasks.erase u })).setTask u
            (fun x => { x with hasState := false, scope := none, doneCbRun := true })) g).running
          = st.running := by
      unfold taskDoneMid
      split
      · split
        · exact ⟨wf_frame h1 (frame_resolveFut _ _ _), by rw [(frame_resolveFut _ _ _).running]; rfl⟩
        · exact ⟨h1, rfl⟩
      · exact ⟨h1, rfl⟩
    have h3 := wf_taskDoneTail h2.1 he
    exact ⟨h3.1, by rw [h3.2, h2.2]⟩
  · contradiction


end AnyioModel.Kernel
