/-
`WF`, part 8: `TaskGroup.__aexit__` helpers, `spawn`, `task_done`, task resumption.
-/
import AnyioModel.Kernel.WF7

namespace AnyioModel.Kernel

theorem wf_aexitFinish {st st' : State} {t g : Nat} {ev : ExcVal} {o : Out} (h : WFR st t)
    (he : aexitFinish st t g ev = some (st', o)) : WF st' := by
  unfold aexitFinish at he
  simp only [] at he
  split at he
  · contradiction
  · rename_i st1 r hex
    simp only [Option.some.injEq, Prod.mk.injEq] at he
    obtain ⟨rfl, _⟩ := he
    exact (((h.exitScope hex).setGroup_inert g _ (fun x => by simp)).setTask_inert t _
      (fun x => by simp)).1

theorem wf_aexitLoop {st st' : State} {t g ws : Nat} {ev : ExcVal} {o : Out} (h : WFR st t)
    (he : aexitLoop st t g ws ev = some (st', o)) : WF st' := by
  unfold aexitLoop at he
  split at he
  · simp only [Option.some.injEq, Prod.mk.injEq] at he
    obtain ⟨rfl, _⟩ := he
    have h1 := h.mkFut
    refine WFR.blockOn ((h1.1.setGroup_inert g _ (fun x => by simp)).setTask_inert t _
      (fun x => by simp)) ?_
    simpa using h1.2
  · split at he
    · contradiction
    · rename_i st1 r hex
      exact wf_aexitFinish (h.exitScope hex) he

theorem wf_aexitAfterChk {st st' : State} {t g : Nat} {ev : ExcVal} {o : Out} (h : WFR st t)
    (he : aexitAfterChk st t g ev = some (st', o)) : WF st' := by
  unfold aexitAfterChk at he
  split at he
  · have h1 := h.mkScope false none
    simp only [] at he
    split at he
    · contradiction
    · rename_i st1 hen
      exact wf_aexitLoop (h1.1.enterScope h1.2 hen) he
  · exact wf_aexitFinish h he

end AnyioModel.Kernel
