/-
Delivery of cancellation, part 14: `XI` under `TaskGroup.__aexit__`, `task_done` and the end of a
coroutine.
-/
import AnyioModel.Kernel.DeliverInv13
import AnyioModel.Kernel.WFMono

namespace AnyioModel.Kernel

/-! ### what `__enter__` / `__exit__` keep -/

theorem enterScope_keep {st st' : State} {t s : Nat} (he : enterScope st t s = some st') :
    st'.groups = st.groups ∧ st'.nGroups = st.nGroups ∧ st'.nScopes = st.nScopes := by
  obtain ⟨_, _, h3⟩ := enterScope_spec he
  have f := enterPre_frame st t s
  exact ⟨by rw [h3.groups, f.2.2.2.2.1], by rw [h3.nGroups, f.2.2.2.1], by rw [h3.nScopes, f.2.1]⟩

theorem exitScope_keep {st st' : State} {t s : Nat} {ev : ExcVal} {r : ExitResult}
    (he : exitScope st t s ev = some (st', r)) :
    st'.groups = st.groups ∧ st'.nGroups = st.nGroups ∧ st'.nScopes = st.nScopes := by
  obtain ⟨_, _, _, _, h5⟩ := exitScope_spec he
  have f := exitPre_frame st t s
  exact ⟨by rw [h5.groups, f.2.2.2.2.1], by rw [h5.nGroups, f.2.2.2.1], by rw [h5.nScopes, f.2.1]⟩

theorem NotGS.of_groups {a b : State} {s : Nat} (h : NotGS a s)
    (hg : ∀ g, (b.groups g).scope = (a.groups g).scope) (hn : b.nGroups = a.nGroups) :
    NotGS b s := by
  intro g hlt; rw [hg]; exact h g (hn ▸ hlt)

/-- a freshly allocated scope is nobody's handle scope and no group's scope -/
theorem fresh_scope {st : State} (w : WF st) :
    (∀ u, (st.tasks u).hscope ≠ some st.nScopes) ∧ NotGS st st.nScopes := by
  constructor
  · intro u hu; have := w.hscope_lt u _ hu; omega
  · intro g hg he; have := w.group_scope_lt g hg; omega

/-- `__enter__` of a scope that is nobody's handle scope -/
theorem xi_enterScope_plain {st st' : State} {t s : Nat} (w : WFR st t) (h : XI st)
    (hf : ∀ u, (st.tasks u).hscope ≠ some s) (he : enterScope st t s = some st') : XI st' :=
  xi_enterScope w h (fun u hu => absurd hu (hf u)) he

/-- allocate a scope and enter it -/
theorem xi_newScope_enter {st st' : State} {t : Nat} {sh : Bool} {d : Option Nat} (w : WFR st t)
    (h : XI st) (he : enterScope (newScope st sh d).1 t (newScope st sh d).2 = some st') :
    XI st' ∧ (newScope st sh d).2 < st'.nScopes ∧ NotGS st' (newScope st sh d).2 := by
  have w1 := w.mkScope sh d
  have k := enterScope_keep he
  have fs := fresh_scope w.1
  refine ⟨xi_enterScope_plain w1.1 (xi_newScope w.1 h sh d) ?_ he, ?_, ?_⟩
  · intro u hu
    exact fs.1 u (by simpa [newScope] using hu)
  · rw [k.2.2]; simp [newScope]
  · intro g hg
    rw [k.1]
    exact fs.2 g (by rw [k.2.1] at hg; simpa [newScope] using hg)

/-! ### `TaskGroup.__aexit__` -/

theorem xi_aexitFinish {st st' : State} {t g : Nat} {ev : ExcVal} {o : Out} (w : WFR st t)
    (h : XI st) (hg : g < st.nGroups) (ht : (st.groups g).tasks = [])
    (he : aexitFinish st t g ev = some (st', o)) : XI st' := by
  unfold aexitFinish at he
  simp only [] at he
  split at he
  · contradiction
  · rename_i st1 r hex
    simp only [Option.some.injEq, Prod.mk.injEq] at he
    obtain ⟨rfl, _⟩ := he
    have hng : NoGuests st.groups st.nGroups (st.groups g).scope := by
      intro g' hg' he'
      rw [h.2.ginj g' g hg' hg he']; exact ht
    have h1 := xi_exitScope w h hng hex
    have h2 := xi_setGroup_inert h1 g (fun x => { x with exited := true, exceptions := [] })
      ⟨rfl, rfl⟩
    exact xi_setTask_libNone h2 t _ ⟨rfl, fun h => h, rfl⟩

theorem xi_aexitLoop {st st' : State} {t g ws : Nat} {ev : ExcVal} {o : Out} (w : WFR st t)
    (h : XI st) (hg : g < st.nGroups) (hws : ws < st.nScopes ∧ NotGS st ws)
    (he : aexitLoop st t g ws ev = some (st', o)) : XI st' := by
  unfold aexitLoop at he
  split at he
  · simp only [Option.some.injEq, Prod.mk.injEq] at he
    obtain ⟨rfl, _⟩ := he
    have h1 := xi_setGroup_inert (xi_newFut h) g (fun x => { x with onCompleted := some (newFut st).2 })
      ⟨rfl, rfl⟩
    refine xi_blockOn (xi_setTask h1 t _ ⟨rfl, fun h => h⟩ ?_ ?_) _ _
    · intro s hs
      simp only [libScopes, List.mem_singleton] at hs
      subst hs
      refine ⟨by simpa [newFut] using hws.1, ?_⟩
      refine hws.2.of_groups (fun x => ?_) rfl
      by_cases hx : x = g
      · subst hx; simp [newFut]
      · simp [newFut, hx]
    · intro x hx
      simp only [libGroup, Option.some.injEq] at hx
      subst hx; simpa [newFut] using hg
  · rename_i hte
    split at he
    · contradiction
    · rename_i st1 r hex
      have k := exitScope_keep hex
      refine xi_aexitFinish (w.exitScope hex) (xi_exitScope w h hws.2.noGuests hex)
        (by rw [k.2.1]; exact hg) ?_ he
      rw [k.1]
      cases hx : (st.groups g).tasks with
      | nil => rfl
      | cons a l => exact absurd (by simp [hx]) hte

theorem xi_aexitAfterChk {st st' : State} {t g : Nat} {ev : ExcVal} {o : Out} (w : WFR st t)
    (h : XI st) (hg : g < st.nGroups) (he : aexitAfterChk st t g ev = some (st', o)) : XI st' := by
  unfold aexitAfterChk at he
  split at he
  · simp only [] at he
    split at he
    · contradiction
    · rename_i st1 hen
      have w1 := w.mkScope false none
      obtain ⟨h1, h2, h3⟩ := xi_newScope_enter w h hen
      have k := enterScope_keep hen
      exact xi_aexitLoop (w1.1.enterScope w1.2 hen) h1
        (by rw [k.2.1]; simpa [newScope] using hg) ⟨h2, h3⟩ he
  · rename_i hte
    refine xi_aexitFinish w h hg ?_ he
    cases hx : (st.groups g).tasks with
    | nil => rfl
    | cons a l => exact absurd (by simp [hx]) hte

/-! ### `task_done` -/

theorem xi_taskDoneTail {st st' : State} {g u : Nat} {o : Outcome} {sfo : Option Nat}
    (h : XI st) (he : taskDoneTail st g u o sfo = some st') : XI st' := by
  unfold taskDoneTail at he
  simp only [] at he
  repeat' (split at he)
  all_goals
    simp only [Option.some.injEq] at he
    subst he
    first
    | exact h
    | exact h.of_frame (frame_resolveFut _ _ _)
    | exact xi_setGroup_inert h g _ ⟨rfl, rfl⟩
    | exact h.of_cframe (cframe_cancelScope _ _ _)
    | exact (xi_setGroup_inert h g _ ⟨rfl, rfl⟩).of_cframe (cframe_cancelScope _ _ _)

theorem xi_runTaskDone {st st' : State} {u : Nat} (w : WF st) (h : XI st)
    (he : runTaskDone st u = some st') : XI st' := by
  rw [runTaskDone_eq] at he
  split at he
  · rename_i g sc o hg hsc ho
    have hd := w.outcome_done u (by simp [ho])
    have h1 := xi_taskDoneCore (g := g) w h hsc hd
    refine xi_taskDoneTail ?_ he
    unfold taskDoneMid
    split
    · split
      · exact h1.of_frame (frame_resolveFut _ _ _)
      · exact h1
    · exact h1
  · contradiction

/-! ### the end of a coroutine -/

/-- after `__exit__` of `s` the task sits in the parent of `s`, whose chain is the tail of the
chain of `s` -/
theorem exitScope_after {st st' : State} {t s : Nat} {ev : ExcVal} {r : ExitResult} (w : WF st)
    (he : exitScope st t s ev = some (st', r)) :
    (st'.tasks t).scope = (st.scopes s).parent ∧ (st'.scopes s).chain = (st.scopes s).chain := by
  obtain ⟨h1, _, _, _, h5⟩ := exitScope_spec he
  have hen := w.active_entered s h1
  have m := (mono_exitScope he).ent s (w.entered_lt hen) hen
  refine ⟨?_, m.2.1⟩
  rw [(h5.tasks t).scope, exitPre_task]
  simp

theorem xi_finishTask {st st' : State} {t : Nat} {o : Outcome} (w : WFR st t) (h : XI st)
    (hsc : (st.tasks t).scope = (st.tasks t).hscope)
    (he : finishTask st t o = some st') : XI st' := by
  unfold finishTask at he
  simp only [] at he
  split at he
  · rename_i hs hhs
    split at he
    · contradiction
    · rename_i st1 r hex
      simp only [Option.some.injEq] at he
      subst he
      have w1 := w.setTask_inert t (fun x => { x with hexc := o, finished := true }) (fun x => by simp)
      have w2 := wf_foldl_resolveFut w1.1 (st.tasks t).hwaiters .result
      have w3 : WFR _ t := ⟨w2.1, by rw [w2.2]; exact w1.2⟩
      have w4 := w3.setTask_inert t (fun x => { x with hwaiters := [] }) (fun x => by simp)
      have w5 := w4.exitScope hex
      have h1 := xi_setTask_inert h t (fun x => { x with hexc := o, finished := true })
        ⟨rfl, fun h => h, rfl⟩
      have hfold : ∀ (l : List Nat) (a : State), XI a →
          XI (l.foldl (fun st f => resolveFut st f .result) a) := by
        intro l
        induction l with
        | nil => exact fun _ h => h
        | cons f l ih => exact fun a ha => ih _ (ha.of_frame (frame_resolveFut _ _ _))
      have h2 := hfold (st.tasks t).hwaiters _ h1
      have h3 := xi_setTask_inert h2 t (fun x => { x with hwaiters := [] }) ⟨rfl, fun h => h, rfl⟩
      -- the handle scope is not a group scope
      generalize hm : (List.foldl (fun st f => resolveFut st f FutSt.result)
        (st.setTask t fun x => { x with hexc := o, finished := true })
        (st.tasks t).hwaiters).setTask t (fun x => { x with hwaiters := [] }) = m at *
      have hmh : (m.tasks t).hscope = some hs := by
        rw [← hm]
        simp only [setTask_tasks, upd_same]
        have := (foldl_resolveFut_task (st := st.setTask t fun x => { x with hexc := o, finished := true })
          (st.tasks t).hwaiters .result t)
        rw [this.hscope]; simpa using hhs
      have hng : NotGS m hs := h3.2.l2 t hs hmh
      have h4 := xi_exitScope w4 h3 hng.noGuests hex
      -- the task hosts nothing any more
      have hno : ∀ x, (st1.scopes x).host ≠ some t := by
        intro x hx
        have hrun : (st1.tasks t).st = .running := w5.st_running
        rcases w5.1.host_scope x t hx with ⟨_, s0, hs0, hx0⟩ | hdn
        · obtain ⟨e1, e2⟩ := exitScope_after w4.1 hex
          have hact := (exitScope_spec hex).1
          have hch := w4.1.chain_spec hs (w4.1.active_entered hs hact)
          have hmono := mono_exitScope hex
          rw [hs0] at e1
          rw [← e1] at hch
          simp only [] at hch
          have hs0lt : s0 < m.nScopes := w4.1.parent_lt e1.symm
          have hs0ent : (m.scopes s0).entered = true := w4.1.parent_entered hs s0 e1.symm
          have hc0 := (hmono.ent s0 hs0lt hs0ent).2.1
          have hmh1 : (st1.tasks t).hscope = some hs := by
            rw [(hmono.tk t (w4.1.running_lt w4.2)).1]; exact hmh
          refine h4.1.a6 t hs x hmh1 ?_ hx
          rw [e2, hch, List.tail_cons, ← hc0]
          exact hx0
        · rw [hrun] at hdn; cases hdn
      have h5 := xi_setDone h4 t
        (fun x => { x with st := .done, outcome := some (exitToOut o r), lib := .none }) none hno
        ⟨rfl, rfl⟩
      exact h5.of_fields rfl rfl rfl rfl (Nat.le_refl _)
  · rename_i hhs
    simp only [Option.some.injEq] at he
    subst he
    refine xi_setDone h t _ none ?_ ⟨rfl, rfl⟩
    intro x hx
    rcases w.1.host_scope x t hx with ⟨_, s0, hs0, _⟩ | hdn
    · rw [hsc, hhs] at hs0; cases hs0
    · rw [w.st_running] at hdn; cases hdn

end AnyioModel.Kernel
