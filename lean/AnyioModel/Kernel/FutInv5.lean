/-
Fresh-allocation invariant for futures, part 5: task resumption and the transition function.
`finv_step`, `finv_reach`.
-/
import AnyioModel.Kernel.FutInv4

namespace AnyioModel.Kernel

theorem hscope_lt_of_wf {st : State} (w : WF st) :
    ∀ u, (st.tasks u).hscope.isSome → u < st.nTasks := by
  intro u hu
  apply Classical.byContradiction
  intro hlt
  have := (w.task_dflt u (by omega)).2.2.2.1
  rw [this] at hu; cases hu

theorem lib_hwAppend (Y : State) (u : Nat) (F : Task → List Nat) (t : Nat) :
    ((Y.setTask u (fun x => { x with hwaiters := F x })).tasks t).lib = (Y.tasks t).lib := by
  by_cases h : t = u
  · subst h; simp
  · simp [h]

theorem mem_hwAppend (Y : State) (u f : Nat) :
    f ∈ ((Y.setTask u (fun x => { x with hwaiters := x.hwaiters ++ [f] })).tasks u).hwaiters := by
  simp

theorem fi_continueLib {st st' : State} {t : Nat} {r : Resume} {o : Out} (h : FW st t)
    (hh : ∀ u, (st.tasks u).hscope.isSome → u < st.nTasks)
    (he : continueLib st t r = some (st', o)) : FInv st' := by
  unfold continueLib at he
  split at he
  · simp only [Option.some.injEq, Prod.mk.injEq] at he
    obtain ⟨rfl, _⟩ := he; exact h.inv
  · -- chkIf
    rename_i hl
    split at he
    · simp only [Option.some.injEq, Prod.mk.injEq] at he
      obtain ⟨rfl, _⟩ := he
      exact finv_doYield h.inv t (fun g u s e hj => by rw [hl] at hj; cases hj)
    · simp only [Option.some.injEq, Prod.mk.injEq] at he
      obtain ⟨rfl, _⟩ := he
      exact h.setLibNone.inv
  · -- shChk
    split at he
    · contradiction
    · rename_i st1 x hex
      simp only [Option.some.injEq, Prod.mk.injEq] at he
      obtain ⟨rfl, _⟩ := he
      exact (h.exitScope hex).setLibNone.inv
  · -- sleeping
    simp only [Option.some.injEq, Prod.mk.injEq] at he
    obtain ⟨rfl, _⟩ := he
    exact (h.fsame (fsame_unschedule _ _)).setLibNone.inv
  · -- aexitChk
    split at he
    · contradiction
    · rename_i st1 x hex
      have h1 := h.exitScope hex
      split at he
      · exact fi_aexitAfterChk h1 he
      · split at he
        · exact fi_aexitAfterChk (h1.cancelScope _ _) he
        · contradiction
  · -- aexitWait
    rename_i g ws ev hl
    have h1 := h.setGroup g (fun x => { x with onCompleted := none }) (.inr rfl)
    simp only [] at he
    split at he
    · exact fi_aexitLoop h1 he
    · split at he
      · refine fi_aexitLoop ?_ he
        have h2 : FW (setShield (st.setGroup g (fun x => { x with onCompleted := none })) ws true) t :=
          (h1.fsame (fsame_setScope _ ws (fun x => { x with shield := true }))).xc
            (xc_setShield _ _ _)
        exact h2.cancelScope _ _
      · contradiction
  · -- startWait
    rename_i g u f hl
    split at he
    · simp only [Option.some.injEq, Prod.mk.injEq] at he
      obtain ⟨rfl, _⟩ := he
      exact h.setLibNone.inv
    · simp only [] at he
      split at he
      · contradiction
      · rename_i hs hhs
        have hu : u < st.nTasks := hh u (by rw [hhs]; rfl)
        split at he
        · have h1 := h.cancelScope hs false
          have h2 := h1.mkScope true none
          split at he
          · contradiction
          · rename_i st2 hen
            have h3 := h2.enterScope hen
            have s3 : FSame st st2 := ((FSame.of_xc (xc_cancelScope st hs false)).trans
              (fsame_newScope _ true none)).trans (fsame_enterScope hen)
            have h4 := h3.setLib (.startJoin (((st.tasks u).group).getD 0) u
              (newScope (cancelScope st hs false) true none).2 r)
              (fun f hf => by cases hf) (fun g u f hf => by cases hf)
            split at he
            · rename_i hfin
              simp only [Option.some.injEq, Prod.mk.injEq] at he
              obtain ⟨rfl, _⟩ := he
              refine finv_doYield h4.inv t ?_
              intro g' u' s' e' hj
              simp only [setTask_tasks, upd_same, Lib.startJoin.injEq] at hj
              obtain ⟨_, rfl, _, _⟩ := hj
              exact hfin
            · simp only [Option.some.injEq, Prod.mk.injEq] at he
              obtain ⟨rfl, _⟩ := he
              obtain ⟨h5, hf⟩ := h4.newFut
              have hu5 : u < st2.nTasks := by rw [s3.nTasks]; exact hu
              have i6 := finv_hwAppend h5.inv u _ hf hu5
              refine finv_blockOn i6 t _ hf.lt ?_ ?_ ?_
              · intro g' u' f' hj
                rw [lib_hwAppend] at hj
                simp [newFut] at hj
              · intro u' hs'
                exact absurd hs' (not_start_of_role i6 (R := .hw u) (mem_hwAppend _ _ _)
                  (fun u => by simp) u')
              · intro g' u' s' e' hj
                left
                rw [lib_hwAppend] at hj
                have : u' = u := by
                  simp [newFut] at hj; exact hj.2.1.symm
                subst this
                exact mem_hwAppend _ _ _
        · simp only [Option.some.injEq, Prod.mk.injEq] at he
          obtain ⟨rfl, _⟩ := he
          exact h.setLibNone.inv
  · -- startJoin
    split at he
    · contradiction
    · rename_i st1 x hex
      have h1 := (h.exitScope hex).setLibNone
      simp only [] at he
      split at he <;>
      · simp only [Option.some.injEq, Prod.mk.injEq] at he
        obtain ⟨rfl, _⟩ := he
        exact h1.inv

theorem finv_endTask {x : State} (h : FInv x) (t : Nat) (F : Task → Task)
    (hs : (F (x.tasks t)).st = .done)
    (hl : (F (x.tasks t)).lib = (x.tasks t).lib ∨ (F (x.tasks t)).lib = .none)
    (h1 : (F (x.tasks t)).startFut = (x.tasks t).startFut)
    (h2 : (F (x.tasks t)).hwaiters = (x.tasks t).hwaiters)
    (h3 : (F (x.tasks t)).finished = (x.tasks t).finished) (hd : Handle)
    (hn : ∀ f, hd ≠ .sleepDone f) :
    FInv (State.schedule { x.setTask t F with running := none } hd) := by
  refine finv_fsame ?_ (fsame_schedule _ _ hn)
  exact finv_fsame (finv_setTask_st h t F (.inr hs) hl h1 h2 h3)
    (fsame_loop rfl rfl rfl rfl rfl rfl (fun f hf => hf))

theorem fi_runTask {st st' : State} {t : Nat} {o : Out} (h : FInv st) (w : WF st)
    (hlt : t < st.nTasks) (he : runTask st t = some (st', o)) : FInv st' := by
  have i1 := finv_setTask_st h t (fun x => { x with st := .running, mustCancel := false })
    (.inl rfl) (.inl rfl) rfl rfl rfl
  have h1 : FW { st.setTask t (fun x => { x with st := .running, mustCancel := false }) with
      running := some t } t :=
    ⟨finv_fsame i1 (fsame_loop rfl rfl rfl rfl rfl rfl (fun f hf => hf)), by simp, hlt⟩
  have hh : ∀ u, (({ st.setTask t (fun x => { x with st := .running, mustCancel := false }) with
      running := some t } : State).tasks u).hscope.isSome → u < st.nTasks := by
    intro u hu
    refine hscope_lt_of_wf w u ?_
    by_cases hut : u = t
    · subst hut; simpa using hu
    · simpa [hut] using hu
  unfold runTask at he
  simp only [] at he
  split at he
  · split at he
    · split at he
      · contradiction
      · rename_i st1 hen
        simp only [Option.some.injEq, Prod.mk.injEq] at he
        obtain ⟨rfl, _⟩ := he
        exact (h1.enterScope hen).inv
    · simp only [Option.some.injEq, Prod.mk.injEq] at he
      obtain ⟨rfl, _⟩ := he
      exact finv_endTask h1.inv t _ rfl (.inl rfl) rfl rfl rfl _ (fun f => by simp)
  · exact fi_continueLib h1 hh he

theorem sdIn_erase {st : State} {x : Handle} {f : Nat}
    (h : sdIn { st with cur := st.cur.erase x } f) : sdIn st f := by
  rcases h with h | h | h
  · exact .inl h
  · exact .inr (.inl (List.mem_of_mem_erase h))
  · exact .inr (.inr h)

theorem fi_runHandle {st st' : State} {x : Handle} {o : Out} (h : FInv st) (w : WF st)
    (hs : step st (.run x) = some (st', o)) : FInv st' := by
  simp only [step] at hs
  split at hs
  · contradiction
  · rename_i hg
    have hxc : x ∈ st.cur := by
      apply Classical.byContradiction; intro hx; exact hg (.inr hx)
    have hok := w.cur_ok x hxc
    have w1 : WF { st with cur := st.cur.erase x } :=
      wf_setCur w _ (fun y hy => List.mem_of_mem_erase hy)
    have s1 : FSame st { st with cur := st.cur.erase x } :=
      fsame_loop rfl rfl rfl rfl rfl rfl (fun f hf => sdIn_erase hf)
    have h1 : FInv { st with cur := st.cur.erase x } := finv_fsame h s1
    cases x with
    | step t =>
      simp only [] at hs
      split at hs
      · exact fi_runTask h1 w1 hok hs
      · contradiction
    | wakeup t =>
      simp only [] at hs
      split at hs
      · exact fi_runTask h1 w1 hok hs
      · contradiction
    | deliver s =>
      simp only [Option.some.injEq, Prod.mk.injEq] at hs
      obtain ⟨rfl, _⟩ := hs
      exact finv_fsame h1 (FSame.of_xc (xc_deliver _ _))
    | timeout s =>
      simp only [Option.some.injEq, Prod.mk.injEq] at hs
      obtain ⟨rfl, _⟩ := hs
      exact finv_fsame h1 ((fsame_setScope _ _ _).trans (FSame.of_xc (xc_armTimeout _ _)))
    | sleepDone f =>
      simp only [Option.some.injEq, Prod.mk.injEq] at hs
      obtain ⟨rfl, _⟩ := hs
      refine finv_resolveFut h1 f .result rfl
        (h.role_lt f .sleep (.inr (.inr (.inl hxc)))) (by simp) ?_
      intro _ t g u s e hlib hb
      rcases h1.sj_blk t g u s e f hlib hb with hm | hm
      · have hr : HasRole st f .sleep := .inr (.inr (.inl hxc))
        have := h.role_uniq f (.hw u) .sleep hm hr
        cases this
      · exact hm
    | taskDone u =>
      simp only [] at hs
      split at hs
      · rename_i st1 htd
        simp only [Option.some.injEq, Prod.mk.injEq] at hs
        obtain ⟨rfl, _⟩ := hs
        exact fi_runTaskDone h1 htd
      · contradiction

theorem fsame_setNGroups (x : State) (n : Nat) : FSame x { x with nGroups := n } :=
  fsame_loop rfl rfl rfl rfl rfl rfl (fun f hf => hf)

theorem fw_of_running {st : State} {t : Nat} (h : FInv st) (w : WF st) (hr : st.running = some t) :
    FW st t := ⟨h, (w.running_spec t).mp hr, w.running_lt hr⟩

theorem finv_step {st st' : State} {e : Ev} {o : Out} (h : FInv st) (w : WF st)
    (hs : step st e = some (st', o)) : FInv st' := by
  cases e with
  | beginCycle now =>
    simp only [step] at hs
    split at hs
    · contradiction
    · simp only [Option.some.injEq, Prod.mk.injEq] at hs
      obtain ⟨rfl, _⟩ := hs
      refine finv_fsame h (fsame_loop rfl rfl rfl rfl rfl rfl ?_)
      intro f hf
      rcases hf with hf | hf | ⟨d, hf⟩
      · simp at hf
      · simp only [List.mem_append, dueTimers, List.mem_map, List.mem_filter] at hf
        rcases hf with hf | ⟨p, ⟨hp, _⟩, he⟩
        · exact .inl hf
        · exact .inr (.inr ⟨p.1, by rw [← he]; exact hp⟩)
      · simp only [List.mem_filter] at hf
        exact .inr (.inr ⟨d, hf.1⟩)
  | run x => exact fi_runHandle h w hs
  | mkScope sh d =>
    simp only [step, Option.some.injEq, Prod.mk.injEq] at hs
    obtain ⟨rfl, _⟩ := hs
    exact finv_fsame h (fsame_newScope st sh d)
  | enter s =>
    simp only [step] at hs
    split at hs
    · contradiction
    · rename_i t hr
      split at hs
      · contradiction
      · split at hs
        · simp only [Option.some.injEq, Prod.mk.injEq] at hs
          obtain ⟨rfl, _⟩ := hs; exact h
        · rename_i st1 hen
          simp only [Option.some.injEq, Prod.mk.injEq] at hs
          obtain ⟨rfl, _⟩ := hs
          exact finv_fsame h (fsame_enterScope hen)
  | exit s ev =>
    simp only [step] at hs
    split at hs
    · contradiction
    · rename_i t hr
      split at hs
      · contradiction
      · split at hs
        · simp only [Option.some.injEq, Prod.mk.injEq] at hs
          obtain ⟨rfl, _⟩ := hs; exact h
        · rename_i st1 r hex
          simp only [Option.some.injEq, Prod.mk.injEq] at hs
          obtain ⟨rfl, _⟩ := hs
          exact finv_fsame h (fsame_exitScope hex)
  | cancel s =>
    simp only [step] at hs
    split at hs
    · contradiction
    · simp only [Option.some.injEq, Prod.mk.injEq] at hs
      obtain ⟨rfl, _⟩ := hs
      exact finv_fsame h (FSame.of_xc (xc_cancelScope _ _ _))
  | setShield s b =>
    simp only [step] at hs
    split at hs
    · contradiction
    · simp only [Option.some.injEq, Prod.mk.injEq] at hs
      obtain ⟨rfl, _⟩ := hs
      exact finv_fsame h ((fsame_setScope st s (fun x => { x with shield := b })).trans
        (FSame.of_xc (xc_setShield _ _ _)))
  | setDeadline s d =>
    simp only [step] at hs
    split at hs
    · contradiction
    · simp only [Option.some.injEq, Prod.mk.injEq] at hs
      obtain ⟨rfl, _⟩ := hs
      exact finv_fsame h ((fsame_setScope st s (fun x => { x with deadline := d })).trans
        (FSame.of_xc (xc_setDeadline _ _ _)))
  | yield =>
    simp only [step] at hs
    split at hs
    · contradiction
    · rename_i t hr
      split at hs
      · contradiction
      · rename_i hl
        simp only [Option.some.injEq, Prod.mk.injEq] at hs
        obtain ⟨rfl, _⟩ := hs
        refine finv_doYield h t (fun g u s e hj => ?_)
        rw [hj] at hl; simp at hl
  | mkFut =>
    simp only [step, Option.some.injEq, Prod.mk.injEq] at hs
    obtain ⟨rfl, _⟩ := hs
    obtain ⟨i1, hf⟩ := finv_newFut h
    exact finv_userSet i1 _ hf
  | setFut f =>
    simp only [step] at hs
    split at hs
    · contradiction
    · rename_i hg
      simp only [Option.some.injEq, Prod.mk.injEq] at hs
      obtain ⟨rfl, _⟩ := hs
      have hu : st.userFut f = true := by
        cases hu : st.userFut f <;> simp_all
      refine finv_resolveFut h f .result rfl (h.role_lt f .user hu) (by simp) ?_
      intro _ t g u s e hlib hb
      rcases h.sj_blk t g u s e f hlib hb with hm | hm
      · have := h.role_uniq f (.hw u) .user hm hu
        cases this
      · exact hm
  | awaitFut f =>
    simp only [step] at hs
    split at hs
    · contradiction
    · rename_i t hr
      split at hs
      · contradiction
      · rename_i hg
        have hg' : (st.tasks t).lib = .none ∧ f < st.nFuts ∧ st.userFut f = true := by
          refine ⟨?_, ?_, ?_⟩
          · apply Classical.byContradiction; intro hc; exact hg (.inl hc)
          · apply Classical.byContradiction; intro hc; exact hg (.inr (.inl (by omega)))
          · cases hu : st.userFut f
            · exact absurd (.inr (.inr (by simp [hu]))) hg
            · rfl
        split at hs
        · split at hs
          · contradiction
          · simp only [Option.some.injEq, Prod.mk.injEq] at hs
            obtain ⟨rfl, _⟩ := hs
            refine finv_blockOn h t f hg'.2.1 ?_ ?_ ?_
            · intro g u f' hj; rw [hg'.1] at hj; cases hj
            · intro u hsu
              exact absurd hsu (not_start_of_role h (R := .user) hg'.2.2 (fun u => by simp) u)
            · intro g u s e hj; rw [hg'.1] at hj; cases hj
        all_goals
          simp only [Option.some.injEq, Prod.mk.injEq] at hs
          obtain ⟨rfl, _⟩ := hs; exact h
  | sleep d =>
    simp only [step] at hs
    split at hs
    · contradiction
    · rename_i t hr
      split at hs
      · contradiction
      · simp only [Option.some.injEq, Prod.mk.injEq] at hs
        obtain ⟨rfl, _⟩ := hs
        have h0 := fw_of_running h w hr
        obtain ⟨h1, hf⟩ := h0.newFut
        have i2 := finv_addSleepTimer h1.inv ((newFut st).1.now + d) _ hf
        have hrole : HasRole { (newFut st).1 with timers := (newFut st).1.timers ++
            [((newFut st).1.now + d, Handle.sleepDone st.nFuts)] } st.nFuts .sleep := by
          right; right; right
          exact ⟨(newFut st).1.now + d, by simp⟩
        have h2 : FW { (newFut st).1 with timers := (newFut st).1.timers ++
            [((newFut st).1.now + d, Handle.sleepDone st.nFuts)] } t := ⟨i2, h1.run, h1.lt⟩
        have h3 := h2.setLib (.sleeping st.nFuts) (fun f hf => by cases hf; exact hrole)
          (fun g u f hf => by cases hf)
        refine finv_blockOn h3.inv t _ hf.lt ?_ ?_ ?_
        · intro g u f' hj; simp at hj
        · intro u hsu
          refine absurd hsu (not_start_of_role h3.inv (R := .sleep) ?_ (fun u => by simp) u)
          exact .inl ⟨t, by simp [newFut]⟩
        · intro g u s e hj; simp at hj
  | chkIfCancelled =>
    simp only [step] at hs
    split at hs
    · contradiction
    · rename_i t hr
      split at hs
      · contradiction
      · have h0 := fw_of_running h w hr
        split at hs
        · split at hs
          · simp only [Option.some.injEq, Prod.mk.injEq] at hs
            obtain ⟨rfl, _⟩ := hs
            have h1 := h0.setLib .chkIf (fun f hf => by cases hf) (fun g u f hf => by cases hf)
            exact finv_doYield h1.inv t (fun g u s e hj => by simp at hj)
          · simp only [Option.some.injEq, Prod.mk.injEq] at hs
            obtain ⟨rfl, _⟩ := hs; exact h
        · simp only [Option.some.injEq, Prod.mk.injEq] at hs
          obtain ⟨rfl, _⟩ := hs; exact h
  | shieldedChk =>
    simp only [step] at hs
    split at hs
    · contradiction
    · rename_i t hr
      split at hs
      · contradiction
      · have h0 := fw_of_running h w hr
        split at hs
        · contradiction
        · rename_i st1 hen
          simp only [Option.some.injEq, Prod.mk.injEq] at hs
          obtain ⟨rfl, _⟩ := hs
          have h1 := ((h0.mkScope true none).enterScope hen).setLib
            (.shChk (newScope st true none).2) (fun f hf => by cases hf)
            (fun g u f hf => by cases hf)
          exact finv_doYield h1.inv t (fun g u s e hj => by simp at hj)
  | nativeCancel u =>
    simp only [step] at hs
    split at hs
    · contradiction
    · simp only [Option.some.injEq, Prod.mk.injEq] at hs
      obtain ⟨rfl, _⟩ := hs
      exact finv_fsame h (FSame.of_xc (xc_taskCancel _ _ _))
  | uncancel =>
    simp only [step] at hs
    split at hs
    · contradiction
    · rename_i t hr
      split at hs
      · contradiction
      · simp only [Option.some.injEq, Prod.mk.injEq] at hs
        obtain ⟨rfl, _⟩ := hs
        exact finv_fsame h ((FSame.of_xc (xc_taskUncancel _ _ _)).trans
          (fsame_setTask _ _ _ (by simp)))
  | mkGroup =>
    simp only [step, Option.some.injEq, Prod.mk.injEq] at hs
    obtain ⟨rfl, _⟩ := hs
    exact finv_fsame h (((fsame_newScope st false none).trans
      (fsame_setGroup _ _ _ (.inr rfl))).trans (fsame_setNGroups _ _))
  | groupEnter g =>
    simp only [step] at hs
    split at hs
    · contradiction
    · rename_i t hr
      split at hs
      · contradiction
      · split at hs
        · simp only [Option.some.injEq, Prod.mk.injEq] at hs
          obtain ⟨rfl, _⟩ := hs; exact h
        · split at hs
          · contradiction
          · rename_i st1 hen
            simp only [Option.some.injEq, Prod.mk.injEq] at hs
            obtain ⟨rfl, _⟩ := hs
            exact finv_fsame h ((fsame_enterScope hen).trans (fsame_setGroup _ _ _ (.inl rfl)))
  | spawn g =>
    simp only [step] at hs
    split at hs
    · contradiction
    · split at hs
      · simp only [Option.some.injEq, Prod.mk.injEq] at hs
        obtain ⟨rfl, _⟩ := hs; exact h
      · simp only [Option.some.injEq, Prod.mk.injEq] at hs
        obtain ⟨rfl, _⟩ := hs
        exact (fi_spawn h g none (fun f hf => by cases hf)).1
  | aexit g ev =>
    rw [step_aexit] at hs
    split at hs
    · contradiction
    · rename_i t hr
      split at hs
      · contradiction
      · have h0 : FW (aexitPrep st g ev) t := by
          have hb := fw_of_running h w hr
          unfold aexitPrep
          split
          · simp only []
            split
            · exact hb.cancelScope _ _
            · exact (hb.cancelScope _ _).setGroup g _ (.inl rfl)
          · exact hb
        simp only [] at hs
        split at hs
        · split at hs
          · contradiction
          · rename_i st1 hen
            simp only [Option.some.injEq, Prod.mk.injEq] at hs
            obtain ⟨rfl, _⟩ := hs
            have h1 := ((h0.mkScope true none).enterScope hen).setLib
              (.aexitChk g (newScope (aexitPrep st g ev) true none).2 ev) (fun f hf => by cases hf)
              (fun g u f hf => by cases hf)
            exact finv_doYield h1.inv t (fun g u s e hj => by simp at hj)
        · exact fi_aexitAfterChk h0 hs
  | start g =>
    simp only [step] at hs
    split at hs
    · contradiction
    · rename_i t hr
      split at hs
      · contradiction
      · split at hs
        · simp only [Option.some.injEq, Prod.mk.injEq] at hs
          obtain ⟨rfl, _⟩ := hs; exact h
        · simp only [Option.some.injEq, Prod.mk.injEq] at hs
          obtain ⟨rfl, _⟩ := hs
          have h0 := fw_of_running h w hr
          obtain ⟨h1, hf⟩ := h0.newFut
          obtain ⟨h2, hsf, hnf⟩ := fw_spawn h1 g (some st.nFuts) (fun f hf' => by cases hf'; exact hf)
          have h3 := h2.setLib (.startWait g (newFut st).1.nTasks st.nFuts) (fun f hf => by cases hf)
            (fun g' u' f' hf' => by cases hf'; exact hsf)
          refine finv_blockOn h3.inv t st.nFuts ?_ ?_ ?_ ?_
          · simp only [setTask_nFuts]; rw [hnf]; exact hf.lt
          · intro g' u' f' hj; simp at hj; exact hj.2.2.symm
          · intro u' hsu
            have hsu' : ((spawn (newFut st).1 g (some st.nFuts)).1.tasks u').startFut =
                some st.nFuts := by
              by_cases hut : u' = t
              · subst hut; simpa using hsu
              · simpa [hut] using hsu
            have := h2.inv.role_uniq st.nFuts (.start u') (.start (newFut st).1.nTasks) hsu' hsf
            cases this
            exact ⟨g, by simp⟩
          · intro g' u' s e hj; simp at hj
  | started =>
    simp only [step] at hs
    split at hs
    · contradiction
    · rename_i t hr
      split at hs
      · contradiction
      · rename_i sf hsf
        split at hs
        · simp only [Option.some.injEq, Prod.mk.injEq] at hs
          obtain ⟨rfl, _⟩ := hs
          refine finv_resolveFut h sf .result rfl (h.role_lt sf (.start t) hsf) (by simp) ?_
          intro _ t' g u s e hlib hb
          rcases h.sj_blk t' g u s e sf hlib hb with hm | hm
          · have := h.role_uniq sf (.hw u) (.start t) hm hsf
            cases this
          · exact hm
        all_goals
          simp only [Option.some.injEq, Prod.mk.injEq] at hs
          obtain ⟨rfl, _⟩ := hs; exact h
  | handleCancel u =>
    simp only [step] at hs
    split at hs
    · contradiction
    · simp only [Option.some.injEq, Prod.mk.injEq] at hs
      obtain ⟨rfl, _⟩ := hs
      split
      · exact h
      · exact finv_fsame h (FSame.of_xc (xc_cancelScope _ _ _))
  | handleWait u =>
    simp only [step] at hs
    split at hs
    · contradiction
    · rename_i t hr
      split at hs
      · contradiction
      · rename_i hg
        have hg' : (st.tasks t).lib = .none ∧ (st.tasks u).hscope.isSome := by
          refine ⟨?_, ?_⟩
          · apply Classical.byContradiction; intro hc; exact hg (.inl hc)
          · cases hu : (st.tasks u).hscope
            · exact absurd (.inr (by simp [hu])) hg
            · rfl
        split at hs
        · simp only [Option.some.injEq, Prod.mk.injEq] at hs
          obtain ⟨rfl, _⟩ := hs
          exact finv_doYield h t (fun g u s e hj => by rw [hg'.1] at hj; cases hj)
        · simp only [Option.some.injEq, Prod.mk.injEq] at hs
          obtain ⟨rfl, _⟩ := hs
          obtain ⟨i1, hf⟩ := finv_newFut h
          have i2 := finv_hwAppend i1 u _ hf (hscope_lt_of_wf w u hg'.2)
          refine finv_blockOn i2 t _ hf.lt ?_ ?_ ?_
          · intro g' u' f' hj
            rw [lib_hwAppend] at hj
            have : ((newFut st).1.tasks t).lib = (st.tasks t).lib := rfl
            rw [this, hg'.1] at hj; cases hj
          · intro u' hs'
            exact absurd hs' (not_start_of_role i2 (R := .hw u) (mem_hwAppend _ _ _)
              (fun u => by simp) u')
          · intro g' u' s' e' hj
            rw [lib_hwAppend] at hj
            have : ((newFut st).1.tasks t).lib = (st.tasks t).lib := rfl
            rw [this, hg'.1] at hj; cases hj
  | finish o =>
    simp only [step] at hs
    split at hs
    · contradiction
    · rename_i t hr
      split at hs
      · contradiction
      · split at hs
        · contradiction
        · split at hs
          · contradiction
          · rename_i st1 hf
            simp only [Option.some.injEq, Prod.mk.injEq] at hs
            obtain ⟨rfl, _⟩ := hs
            exact fi_finishTask (fw_of_running h w hr) hf

/-- `FInv` holds in every reachable state -/
theorem finv_reach {st : State} (h : Reach st) : FInv st := by
  have : WF st ∧ FInv st := by
    refine Reachable.invariant (fun s => WF s ∧ FInv s) ?_ ?_ st h
    · rintro s rfl; exact ⟨wf_init, finv_init⟩
    · intro s e s' o hi hs; exact ⟨wf_step hi.1 hs, finv_step hi.2 hi.1 hs⟩
  exact this.2

end AnyioModel.Kernel
