/-
Task-group invariants of the kernel model, part 7: accounting of the exceptions of a group (C02).
-/
import AnyioModel.Kernel.GroupInv6

namespace AnyioModel.Kernel

/-- what a child's outcome contributes to `_exceptions`: nothing if it is a `CancelledError` (or
the child returned), otherwise its leaves -/
def errs (o : Outcome) : List Exc := if o.isCancelledError then [] else o.leaves

def errsOf (st : State) (u : Nat) : List Exc :=
  match (st.tasks u).outcome with
  | some o => errs o
  | none => []

/-- the errors of the children whose exception `task_done` put into `_exceptions` -/
def routedErrs (st : State) (g : Nat) : List Exc := (st.groups g).routed.flatMap (errsOf st)

theorem routedErrs_congr {a b : State} {g : Nat} (hr : (b.groups g).routed = (a.groups g).routed)
    (ho : ∀ u ∈ (a.groups g).routed, (b.tasks u).outcome = (a.tasks u).outcome) :
    routedErrs b g = routedErrs a g := by
  unfold routedErrs
  rw [hr]
  generalize (a.groups g).routed = l at ho
  induction l with
  | nil => rfl
  | cons x l ih =>
    simp only [List.flatMap_cons]
    rw [ih (fun u hu => ho u (List.mem_cons_of_mem _ hu))]
    congr 1
    unfold errsOf
    rw [ho x (List.mem_cons_self ..)]

/-- accounting: `_exceptions` is, up to order, what the body handed to `__aexit__` plus the errors
of the routed children (`B0`: see `C02_exactly_once_partial`) -/
structure AInv (st : State) : Prop where
  acct : ∀ g, (st.groups g).exited = false → ∃ B0, List.Perm (st.groups g).exceptions
    (B0 ++ ((st.groups g).bodyErrs ++ routedErrs st g))
  nodup : ∀ g, (st.groups g).routed.Nodup
  routed_cb : ∀ g u, u ∈ (st.groups g).routed → (st.tasks u).doneCbRun = true ∧
    (st.tasks u).group = some g ∧
    ∃ o, (st.tasks u).outcome = some o ∧ o.isCancelledError = false ∧ o ≠ .none

/-- what `AInv` reads -/
theorem AInv.transfer {a b : State} (h : AInv a)
    (hg : ∀ g, (b.groups g).exceptions = (a.groups g).exceptions ∧
      (b.groups g).bodyErrs = (a.groups g).bodyErrs ∧ (b.groups g).routed = (a.groups g).routed ∧
      ((b.groups g).exited = false → (a.groups g).exited = false))
    (ht : ∀ u, (a.tasks u).doneCbRun = true → (b.tasks u).doneCbRun = true ∧
      (b.tasks u).group = (a.tasks u).group ∧ (b.tasks u).outcome = (a.tasks u).outcome) :
    AInv b := by
  have hro : ∀ g, routedErrs b g = routedErrs a g := fun g =>
    routedErrs_congr (hg g).2.2.1 (fun u hu => (ht u (h.routed_cb g u hu).1).2.2)
  constructor
  · intro g hx
    obtain ⟨B0, hp⟩ := h.acct g ((hg g).2.2.2 hx)
    exact ⟨B0, by rw [(hg g).1, (hg g).2.1, hro g]; exact hp⟩
  · intro g; rw [(hg g).2.2.1]; exact h.nodup g
  · intro g u hu
    rw [(hg g).2.2.1] at hu
    have := h.routed_cb g u hu
    have t := ht u this.1
    rw [t.1, t.2.1, t.2.2]; exact ⟨rfl, this.2⟩

theorem AInv.gle {a b : State} (h : AInv a) (l : GLe a b) : AInv b :=
  h.transfer (fun g => ⟨(l.groups g).exceptions, (l.groups g).bodyErrs, (l.groups g).routed,
      by rw [(l.groups g).exited]; exact id⟩)
    (fun u hu => ⟨by rw [(l.tasks u).doneCbRun]; exact hu, (l.tasks u).group, (l.tasks u).outcome⟩)

theorem ainv_init : AInv init := by
  constructor
  · intro g _; exact ⟨[], by simp [init, routedErrs]⟩
  · intro g; simp [init]
  · intro g u hu; simp [init] at hu

theorem errs_of_not_cancelled {o : Outcome} (h : o.isCancelledError = false) : errs o = o.leaves := by
  simp [errs, h]

theorem ainv_closed : Closed AInv := by
  constructor
  · intro x y q _ l; exact q.gle l
  · -- spawnCore
    intro st g gs hs sf q hi _ _ _ hd _ _ _ _
    refine q.transfer (fun g' => ?_) (fun u hu => ?_)
    · by_cases hg : g' = g
      · subst hg; simp [spawnCore]
      · simp [spawnCore, hg]
    · have : u ≠ st.nTasks := by
        intro e; subst e
        have := hi.g4 _ hu; rw [hd] at this; contradiction
      simp [spawnCore, this, hu]
  · -- task_done
    intro st st' u q hi w he
    obtain ⟨g, sc, o, hg, hsc, ho, ht⟩ := runTaskDone_shape he
    have hncb : (st.tasks u).doneCbRun = false := by
      cases hc : (st.tasks u).doneCbRun
      · rfl
      · have := hi.g10 u hc; rw [hsc] at this; contradiction
    have q1 : AInv (taskDoneCore st u g sc) := by
      refine q.transfer (fun g' => ?_) (fun v hv => ?_)
      · unfold taskDoneCore
        by_cases hgg : g' = g
        · subst hgg; simp
        · simp [hgg]
      · unfold taskDoneCore
        by_cases hvu : v = u
        · subst hvu; simp
        · simp [hvu, hv]
    have q2 := q1.gle (gle_taskDoneMid _ g)
    generalize hM : taskDoneMid (taskDoneCore st u g sc) g = M at ht q2
    have lM : GLe (taskDoneCore st u g sc) M := hM ▸ gle_taskDoneMid _ g
    have tu : (M.tasks u).doneCbRun = true ∧ (M.tasks u).group = some g ∧
        (M.tasks u).outcome = some o := by
      rw [(lM.tasks u).doneCbRun, (lM.tasks u).group, (lM.tasks u).outcome]
      unfold taskDoneCore; simp [hg, ho]
    have hnr : u ∉ (M.groups g).routed := by
      intro hm
      rw [(lM.groups g).routed] at hm
      have hm' : u ∈ (st.groups g).routed := by
        unfold taskDoneCore at hm; simpa using hm
      have := (q.routed_cb g u hm').1
      rw [hncb] at this; contradiction
    rcases taskDoneTail_shape ht with ⟨l, _, _⟩ | ⟨hne, hnc, _, hr⟩
    · exact q2.gle l
    · have qR : AInv (routeErr M g u o) := by
        have Go : ∀ g', g' ≠ g → (routeErr M g u o).groups g' = M.groups g' := by
          intro g' hg'; simp [routeErr, hg']
        have Gn : ((routeErr M g u o).groups g).exceptions = (M.groups g).exceptions ++ o.leaves ∧
            ((routeErr M g u o).groups g).routed = u :: (M.groups g).routed ∧
            ((routeErr M g u o).groups g).bodyErrs = (M.groups g).bodyErrs ∧
            ((routeErr M g u o).groups g).exited = (M.groups g).exited := by simp [routeErr]
        have hre : ∀ g', routedErrs (routeErr M g u o) g' =
            (((routeErr M g u o).groups g').routed).flatMap (errsOf M) := fun g' => rfl
        constructor
        · intro g' hx
          by_cases hgg : g' = g
          · subst hgg
            rw [Gn.2.2.2] at hx
            obtain ⟨B0, hp⟩ := q2.acct g' hx
            refine ⟨B0, ?_⟩
            rw [Gn.1, Gn.2.2.1, hre, Gn.2.1]
            simp only [List.flatMap_cons]
            have he1 : errsOf M u = o.leaves := by
              unfold errsOf; rw [tu.2.2]; exact errs_of_not_cancelled hnc
            rw [he1]
            have : routedErrs M g' = (M.groups g').routed.flatMap (errsOf M) := rfl
            rw [this] at hp
            refine (hp.append_right o.leaves).trans ?_
            simp only [List.append_assoc]
            refine List.Perm.append_left _ (List.Perm.append_left _ ?_)
            exact List.perm_append_comm
          · rw [Go g' hgg] at hx ⊢
            have : routedErrs (routeErr M g u o) g' = routedErrs M g' := by
              rw [hre, Go g' hgg]; rfl
            rw [this]; exact q2.acct g' hx
        · intro g'
          by_cases hgg : g' = g
          · subst hgg; rw [Gn.2.1]; exact List.nodup_cons.mpr ⟨hnr, q2.nodup g'⟩
          · rw [Go g' hgg]; exact q2.nodup g'
        · intro g' v hv
          show ((M.tasks v).doneCbRun = true ∧ (M.tasks v).group = some g' ∧ _)
          by_cases hgg : g' = g
          · subst hgg
            rw [Gn.2.1] at hv
            rcases List.mem_cons.mp hv with rfl | hv
            · exact ⟨tu.1, tu.2.1, o, tu.2.2, hnc, hne⟩
            · exact q2.routed_cb g' v hv
          · rw [Go g' hgg] at hv; exact q2.routed_cb g' v hv
      rcases hr with ⟨_, rfl⟩ | ⟨_, rfl⟩
      · exact qR
      · exact qR.gle (gle_cancelScope _ _ _)
  · -- setDone
    intro st t o q hi hr _
    refine q.transfer (fun g => ⟨rfl, rfl, rfl, id⟩) (fun u hu => ?_)
    have : u ≠ t := by
      intro e; subst e
      have := hi.g4 _ hu; rw [hr] at this; contradiction
    simp [this, hu]
  · -- aexitPrep
    intro st t g ev q _ _ _ _ _ _ _
    rcases aexitPrep_shape st g ev with ⟨l, _, _⟩ | ⟨_, _, e⟩
    · exact q.gle l
    · rw [e]
      have q1 := q.gle (gle_cancelScope st (st.groups g).scope false)
      generalize cancelScope st (st.groups g).scope false = C at q1
      have Go : ∀ g', g' ≠ g → (C.setGroup g (fun x =>
          { x with exceptions := x.exceptions ++ ev.leaves, bodyErrs := ev.leaves })).groups g' =
          C.groups g' := by
        intro g' hg'; simp [hg']
      constructor
      · intro g' hx
        by_cases hgg : g' = g
        · subst hgg
          have hx' : (C.groups g').exited = false := by simpa using hx
          obtain ⟨B0, hp⟩ := q1.acct g' hx'
          refine ⟨B0 ++ (C.groups g').bodyErrs, ?_⟩
          have hr : routedErrs (C.setGroup g' (fun x =>
              { x with exceptions := x.exceptions ++ ev.leaves, bodyErrs := ev.leaves })) g' =
              routedErrs C g' := by
            unfold routedErrs; simp; rfl
          rw [hr]
          simp only [setGroup_groups, upd_same]
          refine (hp.append_right ev.leaves).trans ?_
          simp only [List.append_assoc]
          refine List.Perm.append_left _ (List.Perm.append_left _ ?_)
          exact List.perm_append_comm
        · rw [Go g' hgg] at hx ⊢
          have : routedErrs (C.setGroup g (fun x =>
              { x with exceptions := x.exceptions ++ ev.leaves, bodyErrs := ev.leaves })) g' =
              routedErrs C g' := by
            unfold routedErrs; rw [Go g' hgg]; rfl
          rw [this]; exact q1.acct g' hx
      · intro g'
        by_cases hgg : g' = g
        · subst hgg; simpa using q1.nodup g'
        · rw [Go g' hgg]; exact q1.nodup g'
      · intro g' v hv
        by_cases hgg : g' = g
        · subst hgg
          have hv' : v ∈ (C.groups g').routed := by simpa using hv
          exact q1.routed_cb g' v hv'
        · rw [Go g' hgg] at hv; exact q1.routed_cb g' v hv
  · -- groupEntered
    intro st g q _ _ _
    refine q.transfer (fun g' => ?_) (fun u hu => ⟨hu, rfl, rfl⟩)
    by_cases hgg : g' = g
    · subst hgg; simp
    · simp [hgg]
  · -- setExited
    intro st g q _ _ _
    constructor
    · intro g' hx
      by_cases hgg : g' = g
      · subst hgg; simp at hx
      · have hx' : (st.groups g').exited = false := by simpa [hgg] using hx
        obtain ⟨B0, hp⟩ := q.acct g' hx'
        refine ⟨B0, ?_⟩
        have : routedErrs (st.setGroup g (fun x => { x with exited := true, exceptions := [] })) g' =
            routedErrs st g' := by
          unfold routedErrs; simp [hgg]; rfl
        rw [this]; simpa [hgg] using hp
    · intro g'
      by_cases hgg : g' = g
      · subst hgg; simpa using q.nodup g'
      · simpa [hgg] using q.nodup g'
    · intro g' v hv
      have hv' : v ∈ (st.groups g').routed := by
        by_cases hgg : g' = g
        · subst hgg; simpa using hv
        · simpa [hgg] using hv
      exact q.routed_cb g' v hv'
  · -- mkGroup
    intro st B s q hi hG hT _ _ _ _ _ _ _ _
    have Go : ∀ g, g ≠ st.nGroups → B.groups g = st.groups g := by
      intro g hg; rw [hG]; simp [hg]
    have Gn : B.groups st.nGroups = { scope := s } := by rw [hG]; simp
    have hre : ∀ g, g ≠ st.nGroups → routedErrs B g = routedErrs st g := by
      intro g hg; unfold routedErrs errsOf; rw [Go g hg, hT]
    constructor
    · intro g hx
      by_cases hg : g = st.nGroups
      · subst hg; exact ⟨[], by unfold routedErrs; rw [Gn]; simp⟩
      · rw [Go g hg] at hx ⊢; rw [hre g hg]; exact q.acct g hx
    · intro g
      by_cases hg : g = st.nGroups
      · subst hg; rw [Gn]; exact List.nodup_nil
      · rw [Go g hg]; exact q.nodup g
    · intro g v hv
      by_cases hg : g = st.nGroups
      · subst hg; rw [Gn] at hv; contradiction
      · rw [Go g hg] at hv; rw [hT]; exact q.routed_cb g v hv

theorem ainv_reach {st : State} (h : Reach st) : AInv st := closed_reach ainv_closed ainv_init h

/-! ### routing completeness -/

/-- where the outcome `o` of child `u` of group `g` went: nowhere because it carries no error,
into the group's `_exceptions`, or to the caller of `start()` through the start future -/
def Routed (st : State) (u g : Nat) (o : Outcome) : Prop :=
  errs o = [] ∨ u ∈ (st.groups g).routed ∨
    ∃ sf, (st.tasks u).startFut = some sf ∧ st.futs sf = .failed o

structure RInv (st : State) : Prop where
  complete : ∀ u g o, (st.tasks u).group = some g → (st.tasks u).doneCbRun = true →
    (st.tasks u).outcome = some o → Routed st u g o
  sf_lt : ∀ u sf, (st.tasks u).startFut = some sf → sf < st.nFuts

theorem RInv.transfer {a b : State} (h : RInv a)
    (hr : ∀ g u, u ∈ (a.groups g).routed → (a.tasks u).group = some g → u ∈ (b.groups g).routed)
    (hf : ∀ f, f < a.nFuts → (a.futs f).done = true → b.futs f = a.futs f)
    (hn : a.nFuts ≤ b.nFuts)
    (ht : ∀ u, ((b.tasks u).group = (a.tasks u).group ∧ (b.tasks u).outcome = (a.tasks u).outcome ∧
        (b.tasks u).startFut = (a.tasks u).startFut ∧
        ((b.tasks u).doneCbRun = true → (a.tasks u).doneCbRun = true)) ∨
      ((∀ g o, (b.tasks u).group = some g → (b.tasks u).doneCbRun = true →
        (b.tasks u).outcome = some o → Routed b u g o) ∧
        (∀ sf, (b.tasks u).startFut = some sf → sf < b.nFuts))) : RInv b := by
  constructor
  · intro u g o hg hc ho
    rcases ht u with ⟨t1, t2, t3, t4⟩ | ⟨t1, _⟩
    · rw [t1] at hg; rw [t2] at ho
      rcases h.complete u g o hg (t4 hc) ho with h1 | h1 | ⟨sf, h1, h2⟩
      · exact .inl h1
      · exact .inr (.inl (hr g u h1 hg))
      · refine .inr (.inr ⟨sf, by rw [t3]; exact h1, ?_⟩)
        rw [hf sf (h.sf_lt u sf h1) (by rw [h2]; rfl)]; exact h2
    · exact t1 g o hg hc ho
  · intro u sf hs
    rcases ht u with ⟨_, _, t3, _⟩ | ⟨_, t2⟩
    · rw [t3] at hs; exact Nat.lt_of_lt_of_le (h.sf_lt u sf hs) hn
    · exact t2 sf hs

theorem RInv.gle {a b : State} (h : RInv a) (l : GLe a b) : RInv b :=
  h.transfer (fun g u hu _ => by rw [(l.groups g).routed]; exact hu) l.futs l.nFuts
    (fun u => .inl ⟨(l.tasks u).group, (l.tasks u).outcome, (l.tasks u).startFut,
      by rw [(l.tasks u).doneCbRun]; exact id⟩)

theorem rinv_init : RInv init := by
  have key : ∀ t : Nat, (if t = 0 then ({ st := TSt.running } : Task) else {}).group = none ∧
      (if t = 0 then ({ st := TSt.running } : Task) else {}).startFut = none := by
    intro t; split <;> simp
  constructor
  · intro u g o hg; simp [init, key] at hg
  · intro u sf hs; simp [init, key] at hs

theorem resolveFut_self {st : State} {f : Nat} {v : FutSt} (h : (st.futs f).done = false) :
    (resolveFut st f v).futs f = v := by
  unfold resolveFut
  simp only [h, Bool.false_eq_true, if_false]
  split
  · split <;> simp
  · simp

theorem rinv_closed : Closed RInv := by
  constructor
  · intro x y q _ l; exact q.gle l
  · -- spawnCore
    intro st g gs hs sf q hi _ _ _ hd _ _ _ hsf
    refine q.transfer (fun g' u hu _ => ?_) (fun f _ _ => by simp [spawnCore])
      (by simp [spawnCore]) (fun u => ?_)
    · by_cases hg : g' = g
      · subst hg; simpa [spawnCore] using hu
      · simpa [spawnCore, hg] using hu
    · by_cases hu : u = st.nTasks
      · subst hu
        right
        refine ⟨fun g' o _ hc _ => by simp [spawnCore] at hc, fun f hf => ?_⟩
        have : sf = some f := by simpa [spawnCore] using hf
        have := hsf f this
        simp [spawnCore]; omega
      · left; simp [spawnCore, hu]
  · -- task_done
    intro st st' u q hi w he
    obtain ⟨g, sc, o, hg, hsc, ho, ht⟩ := runTaskDone_shape he
    generalize hB : taskDoneCore st u g sc = B at ht
    have B1 : ∀ g', (B.groups g').routed = (st.groups g').routed := by
      intro g'; subst hB; unfold taskDoneCore
      by_cases hgg : g' = g
      · subst hgg; simp
      · simp [hgg]
    have B2 : B.futs = st.futs ∧ B.nFuts = st.nFuts := by subst hB; exact ⟨rfl, rfl⟩
    have B3 : ∀ v, (B.tasks v).group = (st.tasks v).group ∧
        (B.tasks v).outcome = (st.tasks v).outcome ∧
        (B.tasks v).startFut = (st.tasks v).startFut ∧
        (v ≠ u → (B.tasks v).doneCbRun = (st.tasks v).doneCbRun) := by
      intro v; subst hB; unfold taskDoneCore
      by_cases hvu : v = u
      · subst hvu; simp
      · simp [hvu]
    generalize hM : taskDoneMid B g = M at ht
    have lM : GLe B M := hM ▸ gle_taskDoneMid B g
    -- facts relating `st` and the final state, given a `GLe` from `M` (possibly after routing)
    have fin : ∀ (R : State), (∀ g', ∀ v ∈ (M.groups g').routed, v ∈ (R.groups g').routed) →
        R.tasks = M.tasks → R.futs = M.futs → R.nFuts = M.nFuts → GLe R st' →
        (errs o = [] ∨ u ∈ (st'.groups g).routed ∨
          ∃ sf, (st.tasks u).startFut = some sf ∧ st'.futs sf = .failed o) → RInv st' := by
      intro R hR hRt hRf hRn l hu
      refine q.transfer (fun g' v hv _ => ?_) (fun f hf hd => ?_) ?_ (fun v => ?_)
      · rw [(l.groups g').routed]
        exact hR g' v (by rw [(lM.groups g').routed, B1 g']; exact hv)
      · have e1 : M.futs f = st.futs f := by
          rw [lM.futs f (by rw [B2.2]; exact hf) (by rw [B2.1]; exact hd), B2.1]
        rw [l.futs f (by rw [hRn]; exact Nat.lt_of_lt_of_le (by rw [B2.2]; exact hf) lM.nFuts)
          (by rw [hRf, e1]; exact hd), hRf, e1]
      · calc st.nFuts = B.nFuts := B2.2.symm
          _ ≤ M.nFuts := lM.nFuts
          _ = R.nFuts := hRn.symm
          _ ≤ st'.nFuts := l.nFuts
      · have e : ∀ v, (st'.tasks v).group = (st.tasks v).group ∧
            (st'.tasks v).outcome = (st.tasks v).outcome ∧
            (st'.tasks v).startFut = (st.tasks v).startFut ∧
            (st'.tasks v).doneCbRun = (B.tasks v).doneCbRun := by
          intro v
          have t1 := l.tasks v
          have t2 := lM.tasks v
          rw [t1.group, t1.outcome, t1.startFut, t1.doneCbRun, hRt, t2.group, t2.outcome,
            t2.startFut, t2.doneCbRun]
          exact ⟨(B3 v).1, (B3 v).2.1, (B3 v).2.2.1, rfl⟩
        by_cases hvu : v = u
        · subst hvu
          right
          refine ⟨fun g' o' hg' _ ho' => ?_, fun sf hs => ?_⟩
          · rw [(e v).1, hg] at hg'; rw [(e v).2.1, ho] at ho'
            cases hg'; cases ho'
            unfold Routed
            rw [(e v).2.2.1]; exact hu
          · rw [(e v).2.2.1] at hs
            have := q.sf_lt v sf hs
            calc sf < st.nFuts := this
              _ = B.nFuts := B2.2.symm
              _ ≤ M.nFuts := lM.nFuts
              _ = R.nFuts := hRn.symm
              _ ≤ st'.nFuts := l.nFuts
        · left
          exact ⟨(e v).1, (e v).2.1, (e v).2.2.1, by rw [(e v).2.2.2, (B3 v).2.2.2 hvu]; exact id⟩
    have hsfM : (M.tasks u).startFut = (st.tasks u).startFut := by
      rw [(lM.tasks u).startFut]; exact (B3 u).2.2.1
    rcases taskDoneTail_shape ht with ⟨l, _, h3⟩ | ⟨hne, hnc, _, hr⟩
    · refine fin M (fun _ _ h => h) rfl rfl rfl l ?_
      rcases h3 with rfl | h3 | ⟨sf, hs, hd, rfl⟩
      · exact .inl (by simp [errs, ExcVal.isCancelledError, ExcVal.leaves])
      · exact .inl (by simp [errs, h3])
      · exact .inr (.inr ⟨sf, hs, resolveFut_self hd⟩)
    · have hRr : ∀ g', ∀ v ∈ (M.groups g').routed, v ∈ ((routeErr M g u o).groups g').routed := by
        intro g' v hv
        by_cases hgg : g' = g
        · subst hgg; simp [routeErr, hv]
        · simpa [routeErr, hgg] using hv
      have hur : u ∈ ((routeErr M g u o).groups g).routed := by simp [routeErr]
      rcases hr with ⟨_, rfl⟩ | ⟨_, rfl⟩
      · exact fin _ hRr rfl rfl rfl (GLe.refl _) (.inr (.inl hur))
      · refine fin _ hRr rfl rfl rfl (gle_cancelScope _ _ _) (.inr (.inl ?_))
        rw [((gle_cancelScope (routeErr M g u o) _ false).groups g).routed]; exact hur
  · -- setDone
    intro st t o q hi hr _
    refine q.transfer (fun g u hu _ => hu) (fun _ _ _ => rfl) (Nat.le_refl _) (fun u => ?_)
    by_cases hu : u = t
    · subst hu
      right
      refine ⟨fun g o' _ hc _ => ?_, fun sf hs => q.sf_lt u sf (by simpa using hs)⟩
      have hc' : (st.tasks u).doneCbRun = true := by simpa using hc
      have := hi.g4 u hc'; rw [hr] at this; contradiction
    · left; simp [hu]
  · -- aexitPrep
    intro st t g ev q _ _ _ _ _ _ _
    rcases aexitPrep_shape st g ev with ⟨l, _, _⟩ | ⟨_, _, e⟩
    · exact q.gle l
    · rw [e]
      have q1 := q.gle (gle_cancelScope st (st.groups g).scope false)
      refine q1.transfer (fun g' u hu _ => ?_) (fun _ _ _ => rfl) (Nat.le_refl _)
        (fun u => .inl ⟨rfl, rfl, rfl, id⟩)
      by_cases hgg : g' = g
      · subst hgg; simpa using hu
      · simpa [hgg] using hu
  · -- groupEntered
    intro st g q _ _ _
    refine q.transfer (fun g' u hu _ => ?_) (fun _ _ _ => rfl) (Nat.le_refl _)
      (fun u => .inl ⟨rfl, rfl, rfl, id⟩)
    by_cases hgg : g' = g
    · subst hgg; simpa using hu
    · simpa [hgg] using hu
  · -- setExited
    intro st g q _ _ _
    refine q.transfer (fun g' u hu _ => ?_) (fun _ _ _ => rfl) (Nat.le_refl _)
      (fun u => .inl ⟨rfl, rfl, rfl, id⟩)
    by_cases hgg : g' = g
    · subst hgg; simpa using hu
    · simpa [hgg] using hu
  · -- mkGroup
    intro st B s q hi hG hT _ hF _ _ _ hnF _ _
    refine q.transfer (fun g u hu hg => ?_) (fun f _ _ => by rw [hF]) (by rw [hnF]; exact Nat.le_refl _)
      (fun u => .inl (by rw [hT]; exact ⟨rfl, rfl, rfl, id⟩))
    by_cases hgg : g = st.nGroups
    · subst hgg
      have := hi.g0 u _ hg
      rw [hi.dflt _ (Nat.le_refl _)] at this; contradiction
    · rw [hG]; simpa [hgg] using hu

theorem rinv_reach {st : State} (h : Reach st) : RInv st := closed_reach rinv_closed rinv_init h

/-! ### what `CancelScope.__exit__` does to the exception -/

theorem exitTail_snd (st : State) (t s : Nat) (ev : ExcVal) :
    (exitTail st t s ev).2 = .passed ∨
    ((exitTail st t s ev).2 = .swallowed ∧
      (ev = .one .cancelAnyio ∨ ∃ es, ev = .group es ∧ es.filter (· ≠ .cancelAnyio) = [])) ∨
    (∃ es, ev = .group es ∧ (exitTail st t s ev).2 = .raised (es.filter (· ≠ .cancelAnyio))) := by
  unfold exitTail
  simp only []
  split
  · split
    · rename_i es
      split
      · exact .inl rfl
      · split
        · rename_i hr
          exact .inr (.inl ⟨rfl, .inr ⟨es, rfl, hr⟩⟩)
        · exact .inr (.inr ⟨es, rfl, rfl⟩)
    · exact .inr (.inl ⟨rfl, .inl rfl⟩)
    · exact .inl rfl
  · exact .inl rfl

theorem filter_nonCancel_filter (es : List Exc) :
    (es.filter (· ≠ .cancelAnyio)).filter (fun e => !e.isCancel) =
      es.filter (fun e => !e.isCancel) := by
  rw [List.filter_filter]
  apply List.filter_congr
  intro e _
  cases e <;> simp [Exc.isCancel]

/-- `__exit__` only removes cancellations: the non-cancellation leaves pass unchanged -/
theorem exitTail_nonCancel (st : State) (t s : Nat) (ev : ExcVal) :
    (exitToOut ev (exitTail st t s ev).2).leaves.filter (fun e => !e.isCancel) =
      ev.leaves.filter (fun e => !e.isCancel) := by
  rcases exitTail_snd st t s ev with h | ⟨h, rfl | ⟨es, rfl, hes⟩⟩ | ⟨es, rfl, h⟩
  · rw [h]; rfl
  · rw [h]; simp [exitToOut, ExcVal.leaves, Exc.isCancel]
  · rw [h]
    simp only [exitToOut, ExcVal.leaves, List.filter_nil]
    rw [← filter_nonCancel_filter, hes]; rfl
  · rw [h]
    simp only [exitToOut, ExcVal.leaves]
    exact filter_nonCancel_filter es

end AnyioModel.Kernel
