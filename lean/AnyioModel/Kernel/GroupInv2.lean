/-
Task-group invariants of the kernel model, part 2: the invariant `GInv` (C01) and its
preservation by `GLe` and by the transitions that are not inert.
-/
import AnyioModel.Kernel.GroupInv
import AnyioModel.Kernel.WF9

namespace AnyioModel.Kernel

structure GInv (st : State) : Prop where
  /-- a task recorded as a child of `g` was spawned into `g` -/
  g0 : ∀ u g, (st.tasks u).group = some g → u ∈ (st.groups g).spawned
  /-- `_tasks` holds spawned children whose `task_done` has not run -/
  g1 : ∀ g u, u ∈ (st.groups g).tasks →
    u ∈ (st.groups g).spawned ∧ (st.tasks u).doneCbRun = false
  g1n : ∀ g, (st.groups g).tasks.Nodup
  /-- every task ever spawned is still in `_tasks`, or is done and its `task_done` has run -/
  g2 : ∀ g u, u ∈ (st.groups g).spawned → (st.tasks u).group = some g ∧
    (u ∈ (st.groups g).tasks ∨ ((st.tasks u).st = .done ∧ (st.tasks u).doneCbRun = true))
  /-- after `__aexit__`: no children, the group scope has been left -/
  g3 : ∀ g, (st.groups g).exited = true → (st.groups g).tasks = [] ∧
    (st.scopes (st.groups g).scope).active = false ∧
    (st.scopes (st.groups g).scope).entered = true
  g4 : ∀ u, (st.tasks u).doneCbRun = true → (st.tasks u).st = .done
  /-- a task that has not started is never cancelled by a scope -/
  g5 : ∀ u, (st.tasks u).st = .created → (st.tasks u).mustCancel = false
  g11 : ∀ s u, (st.scopes s).host = some u → (st.tasks u).st ≠ .created
  /-- a finished `TaskHandle` coroutine has set its finished event -/
  g6 : ∀ u, (st.tasks u).hscope.isSome → (st.tasks u).st = .done → (st.tasks u).finished = true
  g8 : ∀ s, (st.scopes s).active = true → (st.scopes s).entered = true
  /-- `task_done` removes the task from `_task_states` -/
  g10 : ∀ u, (st.tasks u).doneCbRun = true → (st.tasks u).scope = none
  lt : ∀ g u, u ∈ (st.groups g).spawned → u < st.nTasks
  dflt : ∀ g, st.nGroups ≤ g → (st.groups g).spawned = []

theorem ginv_init : GInv init := by
  have key : ∀ t : Nat, (if t = 0 then ({ st := TSt.running } : Task) else {}).group = none ∧
      (if t = 0 then ({ st := TSt.running } : Task) else {}).doneCbRun = false ∧
      (if t = 0 then ({ st := TSt.running } : Task) else {}).hscope = none ∧
      (if t = 0 then ({ st := TSt.running } : Task) else {}).mustCancel = false := by
    intro t; split <;> simp
  constructor <;> simp [init, key]

theorem ginv_gle {a b : State} (h : GInv a) (l : GLe a b) : GInv b := by
  have G := l.groups
  have T := l.tasks
  have S := l.scopes
  constructor
  · intro u g hg
    rw [(T u).group] at hg; rw [(G g).spawned]; exact h.g0 u g hg
  · intro g u hu
    rw [(G g).tasks] at hu; rw [(G g).spawned, (T u).doneCbRun]; exact h.g1 g u hu
  · intro g; rw [(G g).tasks]; exact h.g1n g
  · intro g u hu
    rw [(G g).spawned] at hu
    rw [(T u).group, (G g).tasks, (T u).doneCbRun, (T u).done]; exact h.g2 g u hu
  · intro g hg
    rw [(G g).exited] at hg
    have ⟨h1, h2, h3⟩ := h.g3 g hg
    rw [(G g).tasks, (G g).scope]
    refine ⟨h1, ?_, (S _).entered h3⟩
    cases hb : (b.scopes (a.groups g).scope).active
    · rfl
    · rcases (S _).active hb with h' | ⟨h', _⟩
      · rw [h2] at h'; contradiction
      · rw [h3] at h'; contradiction
  · intro u hu
    rw [(T u).doneCbRun] at hu; rw [(T u).done]; exact h.g4 u hu
  · intro u hc
    have ⟨c1, c2⟩ := (T u).created hc
    rw [c2 (fun s hs => h.g11 s u hs c1)]; exact h.g5 u c1
  · intro s u hs hc
    rcases (S s).host u hs with h' | h'
    · exact h.g11 s u h' ((T u).created hc).1
    · exact h' hc
  · intro u hs hd
    rw [(T u).hscope] at hs
    have hd' := (T u).done.mp hd
    rw [((T u).fin_done hd').1]; exact h.g6 u hs hd'
  · intro s hs
    rcases (S s).active hs with h' | ⟨_, h'⟩
    · exact (S s).entered (h.g8 s h')
    · exact h'
  · intro u hu
    rw [(T u).doneCbRun] at hu
    rw [((T u).fin_done (h.g4 u hu)).2.2.1]; exact h.g10 u hu
  · intro g u hu
    rw [(G g).spawned] at hu; rw [l.nTasks]; exact h.lt g u hu
  · intro g hg
    rw [l.nGroups] at hg; rw [(G g).spawned]; exact h.dflt g hg


/-! ### transitions that are not a `GLe` -/

/-- updates of a group that leave `tasks`, `spawned`, `exited`, `scope` alone -/
theorem ginv_setGroup_inert {st : State} (h : GInv st) (g : Nat) (f : Group → Group)
    (hf : (f (st.groups g)).tasks = (st.groups g).tasks ∧
      (f (st.groups g)).spawned = (st.groups g).spawned ∧
      (f (st.groups g)).exited = (st.groups g).exited ∧
      (f (st.groups g)).scope = (st.groups g).scope) : GInv (st.setGroup g f) := by
  have key : ∀ g', ((st.setGroup g f).groups g').tasks = (st.groups g').tasks ∧
      ((st.setGroup g f).groups g').spawned = (st.groups g').spawned ∧
      ((st.setGroup g f).groups g').exited = (st.groups g').exited ∧
      ((st.setGroup g f).groups g').scope = (st.groups g').scope := by
    intro g'
    by_cases hg : g' = g
    · subst hg; simpa using hf
    · simp [hg]
  obtain ⟨a0, a1, a1n, a2, a3, a4, a5, a11, a6, a8, a10, alt, adf⟩ := h
  constructor
  · intro u g' hg; rw [(key g').2.1]; exact a0 u g' hg
  · intro g' u hu; rw [(key g').1] at hu; rw [(key g').2.1]; exact a1 g' u hu
  · intro g'; rw [(key g').1]; exact a1n g'
  · intro g' u hu; rw [(key g').2.1] at hu; rw [(key g').1]; exact a2 g' u hu
  · intro g' hg; rw [(key g').2.2.1] at hg; rw [(key g').1, (key g').2.2.2]; exact a3 g' hg
  · exact a4
  · exact a5
  · exact a11
  · exact a6
  · exact a8
  · exact a10
  · intro g' u hu; rw [(key g').2.1] at hu; exact alt g' u hu
  · intro g' hg; rw [(key g').2.1]; exact adf g' hg

/-- the end of `__aexit__` -/
theorem ginv_setExited {st : State} (h : GInv st) (g : Nat)
    (ht : (st.groups g).tasks = []) (ha : (st.scopes (st.groups g).scope).active = false)
    (he : (st.scopes (st.groups g).scope).entered = true) :
    GInv (st.setGroup g (fun x => { x with exited := true, exceptions := [] })) := by
  obtain ⟨a0, a1, a1n, a2, a3, a4, a5, a11, a6, a8, a10, alt, adf⟩ := h
  have key : ∀ g', ((st.setGroup g (fun x => { x with exited := true, exceptions := [] })).groups
        g').tasks = (st.groups g').tasks ∧
      ((st.setGroup g (fun x => { x with exited := true, exceptions := [] })).groups g').spawned =
        (st.groups g').spawned ∧
      ((st.setGroup g (fun x => { x with exited := true, exceptions := [] })).groups g').scope =
        (st.groups g').scope := by
    intro g'
    by_cases hg : g' = g
    · subst hg; simp
    · simp [hg]
  constructor
  · intro u g' hg; rw [(key g').2.1]; exact a0 u g' hg
  · intro g' u hu; rw [(key g').1] at hu; rw [(key g').2.1]; exact a1 g' u hu
  · intro g'; rw [(key g').1]; exact a1n g'
  · intro g' u hu; rw [(key g').2.1] at hu; rw [(key g').1]; exact a2 g' u hu
  · intro g' hg
    rw [(key g').1, (key g').2.2]
    by_cases hgg : g' = g
    · subst hgg; exact ⟨ht, ha, he⟩
    · exact a3 g' (by simpa [hgg] using hg)
  · exact a4
  · exact a5
  · exact a11
  · exact a6
  · exact a8
  · exact a10
  · intro g' u hu; rw [(key g').2.1] at hu; exact alt g' u hu
  · intro g' hg; rw [(key g').2.1]; exact adf g' hg

/-- the coroutine of `t` ends -/
theorem ginv_setDone {st : State} (h : GInv st) (t : Nat) (f : Task → Task)
    (hf : (f (st.tasks t)).st = .done ∧ (f (st.tasks t)).group = (st.tasks t).group ∧
      (f (st.tasks t)).doneCbRun = (st.tasks t).doneCbRun ∧
      (f (st.tasks t)).hscope = (st.tasks t).hscope ∧
      (f (st.tasks t)).scope = (st.tasks t).scope ∧
      (f (st.tasks t)).finished = (st.tasks t).finished)
    (hfin : (st.tasks t).hscope.isSome → (st.tasks t).finished = true) :
    GInv (st.setTask t f) := by
  obtain ⟨a0, a1, a1n, a2, a3, a4, a5, a11, a6, a8, a10, alt, adf⟩ := h
  obtain ⟨f1, f2, f3, f4, f5, f6⟩ := hf
  have key : ∀ u, ((st.setTask t f).tasks u).group = (st.tasks u).group ∧
      ((st.setTask t f).tasks u).doneCbRun = (st.tasks u).doneCbRun ∧
      ((st.setTask t f).tasks u).hscope = (st.tasks u).hscope ∧
      ((st.setTask t f).tasks u).scope = (st.tasks u).scope ∧
      ((st.setTask t f).tasks u).finished = (st.tasks u).finished ∧
      (u ≠ t → (st.setTask t f).tasks u = st.tasks u) ∧ ((st.setTask t f).tasks t).st = .done := by
    intro u
    by_cases hu : u = t
    · subst hu; simp [*]
    · simp [hu, f1]
  constructor
  · intro u g hg; rw [(key u).1] at hg; exact a0 u g hg
  · intro g u hu; rw [(key u).2.1]; exact a1 g u hu
  · exact a1n
  · intro g u hu
    rw [(key u).1, (key u).2.1]
    refine ⟨(a2 g u hu).1, ?_⟩
    rcases (a2 g u hu).2 with h' | h'
    · exact .inl h'
    · right
      by_cases hut : u = t
      · subst hut; exact ⟨(key u).2.2.2.2.2.2, h'.2⟩
      · rw [(key u).2.2.2.2.2.1 hut]; exact h'
  · exact a3
  · intro u hu
    rw [(key u).2.1] at hu
    by_cases hut : u = t
    · subst hut; exact (key u).2.2.2.2.2.2
    · rw [(key u).2.2.2.2.2.1 hut]; exact a4 u hu
  · intro u hc
    by_cases hut : u = t
    · subst hut; rw [(key u).2.2.2.2.2.2] at hc; contradiction
    · rw [(key u).2.2.2.2.2.1 hut] at hc ⊢; exact a5 u hc
  · intro s u hs hc
    by_cases hut : u = t
    · subst hut; rw [(key u).2.2.2.2.2.2] at hc; contradiction
    · rw [(key u).2.2.2.2.2.1 hut] at hc; exact a11 s u hs hc
  · intro u hs hd
    rw [(key u).2.2.1] at hs
    rw [(key u).2.2.2.2.1]
    by_cases hut : u = t
    · subst hut; exact hfin hs
    · rw [(key u).2.2.2.2.2.1 hut] at hd; exact a6 u hs hd
  · exact a8
  · intro u hu; rw [(key u).2.1] at hu; rw [(key u).2.2.2.1]; exact a10 u hu
  · exact alt
  · exact adf


/-- `_spawn`, the bookkeeping part -/
theorem ginv_spawnCore {st : State} (h : GInv st) (g gs hs : Nat) (sf : Option Nat)
    (hex : (st.groups g).exited = false) (hg : g < st.nGroups)
    (hd : (st.tasks st.nTasks).st = .created) : GInv (spawnCore st g gs hs sf) := by
  obtain ⟨a0, a1, a1n, a2, a3, a4, a5, a11, a6, a8, a10, alt, adf⟩ := h
  have T : ∀ u, u ≠ st.nTasks → (spawnCore st g gs hs sf).tasks u = st.tasks u := by
    intro u hu; simp [spawnCore, hu]
  have Tn : (spawnCore st g gs hs sf).tasks st.nTasks =
      { st := .created, hasState := true, scope := some gs, group := some g,
        startFut := sf, hscope := some hs } := by simp [spawnCore]
  have Go : ∀ g', g' ≠ g → (spawnCore st g gs hs sf).groups g' = st.groups g' := by
    intro g' hg'; simp [spawnCore, hg']
  have Gn : ((spawnCore st g gs hs sf).groups g).tasks = st.nTasks :: (st.groups g).tasks ∧
      ((spawnCore st g gs hs sf).groups g).spawned = st.nTasks :: (st.groups g).spawned ∧
      ((spawnCore st g gs hs sf).groups g).exited = (st.groups g).exited ∧
      ((spawnCore st g gs hs sf).groups g).scope = (st.groups g).scope := by
    simp [spawnCore]
  have S : ∀ s, ((spawnCore st g gs hs sf).scopes s).active = (st.scopes s).active ∧
      ((spawnCore st g gs hs sf).scopes s).entered = (st.scopes s).entered ∧
      ((spawnCore st g gs hs sf).scopes s).host = (st.scopes s).host := by
    intro s
    by_cases hs' : s = gs
    · subst hs'; simp [spawnCore]
    · simp [spawnCore, hs']
  have nT : (spawnCore st g gs hs sf).nTasks = st.nTasks + 1 := by simp [spawnCore]
  have nG : (spawnCore st g gs hs sf).nGroups = st.nGroups := by simp [spawnCore]
  have fresh : ∀ g', st.nTasks ∉ (st.groups g').spawned := by
    intro g' hm; have := alt g' _ hm; omega
  have fresh' : ∀ g', st.nTasks ∉ (st.groups g').tasks := fun g' hm => fresh g' (a1 g' _ hm).1
  constructor
  · intro u g' hu
    by_cases hun : u = st.nTasks
    · subst hun; rw [Tn] at hu; simp at hu; subst hu; rw [Gn.2.1]; simp
    · rw [T u hun] at hu
      by_cases hgg : g' = g
      · subst hgg; rw [Gn.2.1]; exact List.mem_cons_of_mem _ (a0 u g' hu)
      · rw [Go g' hgg]; exact a0 u g' hu
  · intro g' u hu
    by_cases hgg : g' = g
    · subst hgg
      rw [Gn.1] at hu; rw [Gn.2.1]
      rcases List.mem_cons.mp hu with rfl | hu
      · rw [Tn]; simp
      · have hun : u ≠ st.nTasks := fun e => fresh' g' (e ▸ hu)
        rw [T u hun]; exact ⟨List.mem_cons_of_mem _ (a1 g' u hu).1, (a1 g' u hu).2⟩
    · rw [Go g' hgg] at hu ⊢
      have hun : u ≠ st.nTasks := fun e => fresh' g' (e ▸ hu)
      rw [T u hun]; exact a1 g' u hu
  · intro g'
    by_cases hgg : g' = g
    · subst hgg; rw [Gn.1]; exact List.nodup_cons.mpr ⟨fresh' g', a1n g'⟩
    · rw [Go g' hgg]; exact a1n g'
  · intro g' u hu
    by_cases hgg : g' = g
    · subst hgg
      rw [Gn.2.1] at hu; rw [Gn.1]
      rcases List.mem_cons.mp hu with rfl | hu
      · rw [Tn]; simp
      · have hun : u ≠ st.nTasks := fun e => fresh g' (e ▸ hu)
        rw [T u hun]
        refine ⟨(a2 g' u hu).1, ?_⟩
        rcases (a2 g' u hu).2 with h' | h'
        · exact .inl (List.mem_cons_of_mem _ h')
        · exact .inr h'
    · rw [Go g' hgg] at hu ⊢
      have hun : u ≠ st.nTasks := fun e => fresh g' (e ▸ hu)
      rw [T u hun]; exact a2 g' u hu
  · intro g' hx
    by_cases hgg : g' = g
    · subst hgg; rw [Gn.2.2.1, hex] at hx; contradiction
    · rw [Go g' hgg] at hx ⊢
      rw [(S _).1, (S _).2.1]; exact a3 g' hx
  · intro u hu
    by_cases hun : u = st.nTasks
    · subst hun; rw [Tn] at hu; simp at hu
    · rw [T u hun] at hu ⊢; exact a4 u hu
  · intro u hu
    by_cases hun : u = st.nTasks
    · subst hun; rw [Tn]
    · rw [T u hun] at hu ⊢; exact a5 u hu
  · intro s u hs' hc
    rw [(S s).2.2] at hs'
    by_cases hun : u = st.nTasks
    · subst hun; exact a11 s _ hs' hd
    · rw [T u hun] at hc; exact a11 s u hs' hc
  · intro u hs' hdn
    by_cases hun : u = st.nTasks
    · subst hun; rw [Tn] at hdn; simp at hdn
    · rw [T u hun] at hs' hdn ⊢; exact a6 u hs' hdn
  · intro s hs'
    rw [(S s).1] at hs'; rw [(S s).2.1]; exact a8 s hs'
  · intro u hu
    by_cases hun : u = st.nTasks
    · subst hun; rw [Tn] at hu; simp at hu
    · rw [T u hun] at hu ⊢; exact a10 u hu
  · intro g' u hu
    rw [nT]
    by_cases hgg : g' = g
    · subst hgg
      rw [Gn.2.1] at hu
      rcases List.mem_cons.mp hu with rfl | hu
      · omega
      · have := alt g' u hu; omega
    · rw [Go g' hgg] at hu; have := alt g' u hu; omega
  · intro g' hg'
    rw [nG] at hg'
    rw [Go g' (by omega)]; exact adf g' hg'

/-- `task_done`, the bookkeeping part -/
theorem ginv_taskDoneCore {st : State} (h : GInv st) (u g sc : Nat)
    (hgr : (st.tasks u).group = some g) (hd : (st.tasks u).st = .done) :
    GInv (((st.setScope sc (fun x => { x with tasks := x.tasks.erase u })).setGroup g
      (fun x => { x with tasks := x.tasks.erase u })).setTask u
      (fun x => { x with hasState := false, scope := none, doneCbRun := true })) := by
  obtain ⟨a0, a1, a1n, a2, a3, a4, a5, a11, a6, a8, a10, alt, adf⟩ := h
  generalize hB : (((st.setScope sc (fun x => { x with tasks := x.tasks.erase u })).setGroup g
      (fun x => { x with tasks := x.tasks.erase u })).setTask u
      (fun x => { x with hasState := false, scope := none, doneCbRun := true })) = B
  have T : ∀ v, v ≠ u → B.tasks v = st.tasks v := by
    intro v hv; subst hB; simp [hv]
  have Tu : (B.tasks u).st = (st.tasks u).st ∧ (B.tasks u).group = (st.tasks u).group ∧
      (B.tasks u).doneCbRun = true ∧ (B.tasks u).scope = none ∧
      (B.tasks u).hscope = (st.tasks u).hscope ∧ (B.tasks u).finished = (st.tasks u).finished ∧
      (B.tasks u).mustCancel = (st.tasks u).mustCancel := by
    subst hB; simp
  have Go : ∀ g', g' ≠ g → B.groups g' = st.groups g' := by
    intro g' hg'; subst hB; simp [hg']
  have Gn : (B.groups g).tasks = (st.groups g).tasks.erase u ∧
      (B.groups g).spawned = (st.groups g).spawned ∧
      (B.groups g).exited = (st.groups g).exited ∧
      (B.groups g).scope = (st.groups g).scope := by
    subst hB; simp
  have S : ∀ s, (B.scopes s).active = (st.scopes s).active ∧
      (B.scopes s).entered = (st.scopes s).entered ∧
      (B.scopes s).host = (st.scopes s).host := by
    intro s
    by_cases hs' : s = sc
    · subst hs' hB; simp
    · subst hB; simp [hs']
  have nT : B.nTasks = st.nTasks := by subst hB; rfl
  have nG : B.nGroups = st.nGroups := by subst hB; rfl
  have hother : ∀ g', g' ≠ g → u ∉ (st.groups g').spawned := by
    intro g' hg' hm
    have := (a2 g' u hm).1
    rw [hgr] at this; exact hg' (Option.some.inj this).symm
  constructor
  · intro v g' hv
    have : (st.tasks v).group = some g' := by
      by_cases hvu : v = u
      · subst hvu; rw [Tu.2.1] at hv; exact hv
      · rw [T v hvu] at hv; exact hv
    by_cases hgg : g' = g
    · subst hgg; rw [Gn.2.1]; exact a0 v g' this
    · rw [Go g' hgg]; exact a0 v g' this
  · intro g' v hv
    by_cases hgg : g' = g
    · subst hgg
      rw [Gn.1] at hv; rw [Gn.2.1]
      have hvu : v ≠ u := by
        intro e; subst e
        exact absurd hv (List.Nodup.not_mem_erase (a1n g'))
      rw [T v hvu]; exact a1 g' v (List.mem_of_mem_erase hv)
    · rw [Go g' hgg] at hv ⊢
      have hvu : v ≠ u := fun e => hother g' hgg (e ▸ (a1 g' v hv).1)
      rw [T v hvu]; exact a1 g' v hv
  · intro g'
    by_cases hgg : g' = g
    · subst hgg; rw [Gn.1]; exact (a1n g').erase u
    · rw [Go g' hgg]; exact a1n g'
  · intro g' v hv
    by_cases hgg : g' = g
    · subst hgg
      rw [Gn.2.1] at hv; rw [Gn.1]
      by_cases hvu : v = u
      · subst hvu; exact ⟨Tu.2.1.trans hgr, .inr ⟨Tu.1.trans hd, Tu.2.2.1⟩⟩
      · rw [T v hvu]
        refine ⟨(a2 g' v hv).1, ?_⟩
        rcases (a2 g' v hv).2 with h' | h'
        · exact .inl ((List.mem_erase_of_ne hvu).mpr h')
        · exact .inr h'
    · rw [Go g' hgg] at hv ⊢
      have hvu : v ≠ u := fun e => hother g' hgg (e ▸ hv)
      rw [T v hvu]; exact a2 g' v hv
  · intro g' hx
    by_cases hgg : g' = g
    · subst hgg
      rw [Gn.2.2.1] at hx
      rw [Gn.1, Gn.2.2.2, (S _).1, (S _).2.1]
      have := a3 g' hx
      exact ⟨by rw [this.1]; rfl, this.2⟩
    · rw [Go g' hgg] at hx ⊢
      rw [(S _).1, (S _).2.1]; exact a3 g' hx
  · intro v hv
    by_cases hvu : v = u
    · subst hvu; exact Tu.1.trans hd
    · rw [T v hvu] at hv ⊢; exact a4 v hv
  · intro v hv
    by_cases hvu : v = u
    · subst hvu; rw [Tu.1, hd] at hv; contradiction
    · rw [T v hvu] at hv ⊢; exact a5 v hv
  · intro s v hs' hc
    rw [(S s).2.2] at hs'
    by_cases hvu : v = u
    · subst hvu; rw [Tu.1, hd] at hc; contradiction
    · rw [T v hvu] at hc; exact a11 s v hs' hc
  · intro v hs' hdn
    by_cases hvu : v = u
    · subst hvu; rw [Tu.2.2.2.2.1] at hs'; rw [Tu.2.2.2.2.2.1]; exact a6 v hs' hd
    · rw [T v hvu] at hs' hdn ⊢; exact a6 v hs' hdn
  · intro s hs'
    rw [(S s).1] at hs'; rw [(S s).2.1]; exact a8 s hs'
  · intro v hv
    by_cases hvu : v = u
    · subst hvu; exact Tu.2.2.2.1
    · rw [T v hvu] at hv ⊢; exact a10 v hv
  · intro g' v hv
    rw [nT]
    by_cases hgg : g' = g
    · subst hgg; rw [Gn.2.1] at hv; exact alt g' v hv
    · rw [Go g' hgg] at hv; exact alt g' v hv
  · intro g' hg'
    rw [nG] at hg'
    by_cases hgg : g' = g
    · subst hgg; rw [Gn.2.1]; exact adf g' hg'
    · rw [Go g' hgg]; exact adf g' hg'

end AnyioModel.Kernel
