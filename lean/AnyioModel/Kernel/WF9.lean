/-
`WF`, part 9: `finishTask`, `continueLib`, `runTask`.
-/
import AnyioModel.Kernel.WF8

namespace AnyioModel.Kernel

theorem wf_finishTask {st st' : State} {t : Nat} {o : Outcome} (h : WFR st t)
    (he : finishTask st t o = some st') : WF st' := by
  unfold finishTask at he
  simp only [] at he
  split at he
  · rename_i hs hhs
    split at he
    · contradiction
    · rename_i st1 r hex
      simp only [Option.some.injEq] at he
      subst he
      have h1 := h.setTask_inert t (fun x => { x with hexc := o, finished := true }) (fun x => by simp)
      have h2 := wf_foldl_resolveFut h1.1 (st.tasks t).hwaiters .result
      have h3 : WFR _ t := ⟨h2.1, by rw [h2.2]; exact h1.2⟩
      have h4 := h3.setTask_inert t (fun x => { x with hwaiters := [] }) (fun x => by simp)
      have h5 := h4.exitScope hex
      have hlt := h5.1.running_lt h5.2
      exact wf_schedule (wf_setDone h5 _ (fun x => by simp)) _ (by simpa [HandleOk] using hlt)
  · simp only [Option.some.injEq] at he
    subst he
    exact wf_setDone h _ (fun x => by simp)

theorem wf_continueLib {st st' : State} {t : Nat} {r : Resume} {o : Out} (h : WFR st t)
    (he : continueLib st t r = some (st', o)) : WF st' := by
  unfold continueLib at he
  split at he
  · -- no library frame
    simp only [Option.some.injEq, Prod.mk.injEq] at he
    obtain ⟨rfl, _⟩ := he; exact h.1
  · -- chkIf
    split at he
    · simp only [Option.some.injEq, Prod.mk.injEq] at he
      obtain ⟨rfl, _⟩ := he; exact h.doYield
    · simp only [Option.some.injEq, Prod.mk.injEq] at he
      obtain ⟨rfl, _⟩ := he
      exact (h.setTask_inert t _ (fun x => by simp)).1
  · -- shChk
    split at he
    · contradiction
    · rename_i st1 x hex
      simp only [Option.some.injEq, Prod.mk.injEq] at he
      obtain ⟨rfl, _⟩ := he
      exact ((h.exitScope hex).setTask_inert t _ (fun x => by simp)).1
  · -- sleeping
    simp only [Option.some.injEq, Prod.mk.injEq] at he
    obtain ⟨rfl, _⟩ := he
    exact ((h.cframe (CFrame.of_unschedule _ _)).setTask_inert t _ (fun x => by simp)).1
  · -- aexitChk
    split at he
    · contradiction
    · rename_i st1 x hex
      have h1 := h.exitScope hex
      split at he
      · exact wf_aexitAfterChk h1 he
      · split at he
        · exact wf_aexitAfterChk (h1.cframe (cframe_cancelScope _ _ _)) he
        · contradiction
  · -- aexitWait
    rename_i g ws ev hl
    have h1 := h.setGroup_inert g (fun x => { x with onCompleted := none }) (fun x => by simp)
    simp only [] at he
    split at he
    · exact wf_aexitLoop h1 he
    · split at he
      · refine wf_aexitLoop ?_ he
        have h2 : WFR (setShield (st.setGroup g (fun x => { x with onCompleted := none })) ws true) t := by
          refine WFR.frame ?_ (frame_setShield _ _ _)
          exact ⟨wf_setScope_inert h1.1 ws _ (by simp; exact fun h => .inl h), h1.2⟩
        exact h2.cframe (cframe_cancelScope _ _ _)
      · contradiction
  · -- startWait
    split at he
    · simp only [Option.some.injEq, Prod.mk.injEq] at he
      obtain ⟨rfl, _⟩ := he
      exact (h.setTask_inert t _ (fun x => by simp)).1
    · simp only [] at he
      split at he
      · contradiction
      · rename_i hs hhs
        split at he
        · have h1 := h.cframe (cframe_cancelScope st hs false)
          have h2 := h1.mkScope true none
          split at he
          · contradiction
          · rename_i st2 hen
            have h3 := h2.1.enterScope h2.2 hen
            split at he
            · simp only [Option.some.injEq, Prod.mk.injEq] at he
              obtain ⟨rfl, _⟩ := he
              exact (h3.setTask_inert t _ (fun x => by simp)).doYield
            · simp only [Option.some.injEq, Prod.mk.injEq] at he
              obtain ⟨rfl, _⟩ := he
              refine WFR.blockOn (WFR.setTask_inert (WFR.mkFut
                (WFR.setTask_inert h3 t _ (fun x => by simp))).1 _ _ (fun x => by simp)) ?_
              simp [newFut]
        · simp only [Option.some.injEq, Prod.mk.injEq] at he
          obtain ⟨rfl, _⟩ := he
          exact (h.setTask_inert t _ (fun x => by simp)).1
  · -- startJoin
    split at he
    · contradiction
    · rename_i st1 x hex
      have h1 := (h.exitScope hex).setTask_inert t (fun x => { x with lib := .none }) (fun x => by simp)
      simp only [] at he
      split at he <;>
      · simp only [Option.some.injEq, Prod.mk.injEq] at he
        obtain ⟨rfl, _⟩ := he
        exact h1.1

theorem wf_runTask {st st' : State} {t : Nat} {o : Out} (h : WF st) (hr : st.running = none)
    (hlt : t < st.nTasks) (hnd : (st.tasks t).st ≠ .done)
    (he : runTask st t = some (st', o)) : WF st' := by
  have h1 : WFR { st.setTask t (fun x => { x with st := .running, mustCancel := false }) with
      running := some t } t := by
    refine ⟨?_, rfl⟩
    apply wf_congr h
    case tk => intro u; by_cases hu : u = t <;> simp [hu]
    case tkst =>
      intro u; by_cases hu : u = t
      · subst hu; simp [hnd]; omega
      · simp [hu]
    case run =>
      intro u; by_cases hu : u = t
      · subst hu; simp
      · simp [hu]
        constructor
        · intro e; exact absurd e.symm hu
        · intro hu'
          have := (h.running_spec u).mpr hu'
          simp_all
    case scx => exact h.scope_exists
    case scd => exact h.deadline_exists
    case grs => intro g h1 h2; exact absurd h2 (by simp; exact h1)
    all_goals first | (exact fun _ h => Or.inl h) | (exact fun _ _ h => Or.inl h) | simp
  unfold runTask at he
  simp only [] at he
  split at he
  · rename_i hs hst hhs
    split at he
    · split at he
      · contradiction
      · rename_i st1 hen
        simp only [Option.some.injEq, Prod.mk.injEq] at he
        obtain ⟨rfl, _⟩ := he
        have hx : hs < st.nScopes := h.hscope_lt t hs hhs
        exact (h1.enterScope (by simpa using (h.scope_exists hs).mpr hx) hen).1
    · simp only [Option.some.injEq, Prod.mk.injEq] at he
      obtain ⟨rfl, _⟩ := he
      exact wf_schedule (wf_setDone h1 _ (fun x => by simp)) _ (by simpa [HandleOk] using hlt)
  · exact wf_continueLib h1 he

end AnyioModel.Kernel
