/-
Kernel model, part 1: state.

One executable model of what AnyIO's cancellation and task-group machinery rests on:
* the part of asyncio it depends on (tasks, futures, the ready queue with its cycle structure
  and timers), transcribed from CPython 3.12 `asyncio/tasks.py`, `futures.py`,
  `base_events.py:_run_once`;
* `CancelScope` (`_asyncio.py:384-698`), the checkpoint helpers (`2503-2525`),
  `TaskGroup`, `_AsyncioTaskStatus`, `TaskGroup.start` (`727-973`) and `TaskHandle`
  (`_core/_tasks.py:304-455`).

User control flow is not modelled: a *running* task may issue any API event that respects the
API discipline; "for all programs" is "for all event lists".
-/
import AnyioModel.Util.LTS

namespace AnyioModel.Kernel

/-- exceptions as far as the kernel distinguishes them -/
inductive Exc where
  | cancelAnyio    -- CancelledError carrying a "Cancelled via cancel scope ..." message
  | cancelNative   -- any other CancelledError
  | err (n : Nat)  -- a non-cancellation exception, identified by a ghost id
  | runtimeError   -- RuntimeError raised by the library itself
  deriving DecidableEq, Repr, Inhabited

def Exc.isCancel : Exc → Bool
  | .cancelAnyio => true
  | .cancelNative => true
  | _ => false

/-- what reaches an `__exit__`: nothing, one exception, or the leaves of an exception group -/
inductive ExcVal where
  | none
  | one (e : Exc)
  | group (es : List Exc)
  deriving DecidableEq, Repr, Inhabited

def ExcVal.isCancelledError : ExcVal → Bool
  | .one e => e.isCancel
  | _ => false

def ExcVal.leaves : ExcVal → List Exc
  | .none => []
  | .one e => [e]
  | .group es => es

inductive FutSt where
  | pending
  | result
  | cancelled (anyio : Bool)
  | failed (ev : ExcVal)
  deriving DecidableEq, Repr, Inhabited

def FutSt.done : FutSt → Bool
  | .pending => false
  | _ => true

inductive TSt where
  | created            -- `__step` scheduled, coroutine not started yet
  | running
  | yielded            -- suspended in a bare `yield` (sleep(0)); `__step` scheduled
  | blocked (f : Nat)  -- `_fut_waiter = f`, f pending
  | woken (f : Nat)    -- f is done, `__wakeup` scheduled, `_fut_waiter` still f
  | done
  deriving DecidableEq, Repr, Inhabited

/-- library coroutine a task is inside of (these are the only library frames that span a
suspension point) -/
inductive Lib where
  | none
  | chkIf                                   -- checkpoint_if_cancelled: spinning in sleep(0)
  | shChk (s : Nat)                         -- cancel_shielded_checkpoint, shielded scope `s`
  | sleeping (f : Nat)                      -- asyncio.sleep(d): future `f`, timer armed
  | aexitChk (g s : Nat) (ev : ExcVal)      -- TaskGroup.__aexit__: empty-group checkpoint
  | aexitWait (g ws : Nat) (ev : ExcVal)    -- TaskGroup.__aexit__: awaiting _on_completed_fut
  | startWait (g u f : Nat)                 -- TaskGroup.start: awaiting the readiness future
  | startJoin (g u s : Nat) (ev : ExcVal)   -- TaskGroup.start: shielded wait for the child
  deriving DecidableEq, Repr, Inhabited

/-- how a coroutine ended: `.none` = returned, otherwise the exception it raised -/
abbrev Outcome := ExcVal

structure Task where
  st : TSt := .created
  mustCancel : Bool := false
  mcAnyio : Bool := false          -- kind of the cancellation recorded with `_must_cancel`
  ncancel : Nat := 0               -- `Task.cancelling()`
  hasState : Bool := false         -- has an entry in `_task_states`
  scope : Option Nat := none       -- `_task_states[task].cancel_scope`
  lib : Lib := .none
  group : Option Nat := none       -- group it was spawned into (AnyIO child)
  startFut : Option Nat := none
  hscope : Option Nat := none      -- TaskHandle._cancel_scope
  finished : Bool := false         -- TaskHandle._finished_event
  hwaiters : List Nat := []        -- futures of tasks blocked in TaskHandle.wait()
  hexc : ExcVal := .none           -- TaskHandle._exception
  outcome : Option Outcome := none -- asyncio task result once done
  doneCbRun : Bool := false        -- ghost: `task_done` has run
  nNative : Nat := 0               -- ghost: `Task.cancel()` calls not made by a cancel scope
  nAnyio : Nat := 0                -- ghost: `Task.cancel()` calls made by scope deliveries
  nUncancel : Nat := 0             -- ghost: effective `uncancel()` calls (scope exits and user)
  nUserUncancel : Nat := 0         -- ghost: those of them made by user code
  nOwn : Nat := 0                  -- ghost: deliveries whose origin scope is hosted by this task
  nForeign : Nat := 0              -- ghost: deliveries from origins hosted by other tasks
  nDropped : Nat := 0              -- ghost: own deliveries never paid back (scope had no same-host parent)
  deriving Repr, Inhabited

structure Scope where
  exists_ : Bool := false
  parent : Option Nat := none
  shield : Bool := false
  cancelCalled : Bool := false
  active : Bool := false
  entered : Bool := false
  host : Option Nat := none
  tasks : List Nat := []
  children : List Nat := []
  deadline : Option Nat := none
  timer : Bool := false            -- `_timeout_handle` is a live timer
  deliver : Bool := false          -- `_cancel_handle is not None`
  pending : Nat := 0               -- `_pending_uncancellations`
  caught : Bool := false
  byDeadline : Bool := false       -- ghost: cancel() was called by `_timeout`
  cancelTime : Nat := 0            -- ghost: clock when cancel() was called
  /-- the scope itself followed by its ancestors, fixed when the scope is entered: the
  `_parent_scope` pointers the code walks never change after `__enter__` -/
  chain : List Nat := []
  deriving Repr, Inhabited

structure Group where
  scope : Nat := 0
  entered : Bool := false
  exited : Bool := false           -- ghost: `__aexit__` has returned or raised
  exceptions : List Exc := []      -- leaves of `_exceptions`
  tasks : List Nat := []
  spawned : List Nat := []         -- ghost: every task ever spawned into the group
  onCompleted : Option Nat := none
  bodyErrs : List Exc := []        -- ghost: non-cancellation leaves the body handed to `__aexit__`
  routed : List Nat := []          -- ghost: children whose exception `task_done` put into `_exceptions`
  deriving Repr, Inhabited

inductive Handle where
  | step (t : Nat)
  | wakeup (t : Nat)
  | deliver (s : Nat)
  | timeout (s : Nat)
  | sleepDone (f : Nat)
  | taskDone (t : Nat)
  deriving DecidableEq, Repr, Inhabited

structure State where
  now : Nat := 0
  cycle : Nat := 0
  running : Option Nat := none
  ready : List Handle := []          -- scheduled for the next cycle
  cur : List Handle := []            -- this cycle's batch, not yet run
  timers : List (Nat × Handle) := []
  tasks : Nat → Task := fun _ => {}
  scopes : Nat → Scope := fun _ => {}
  futs : Nat → FutSt := fun _ => .pending
  futWaiter : Nat → Option Nat := fun _ => none
  /-- futures created by user code (`mkFut`); the library's own futures (start, _on_completed_fut,
  sleep, TaskHandle waits) are not reachable from user code -/
  userFut : Nat → Bool := fun _ => false
  groups : Nat → Group := fun _ => {}
  nTasks : Nat := 0
  nScopes : Nat := 0
  nFuts : Nat := 0
  nGroups : Nat := 0
  deriving Inhabited

/-- task 0 is the root task (the program's `main`), already running -/
def init : State :=
  { running := some 0, nTasks := 1,
    tasks := fun i => if i = 0 then { st := .running } else {} }

/-! ### small accessors -/

def State.setTask (st : State) (t : Nat) (f : Task → Task) : State :=
  { st with tasks := upd st.tasks t (f (st.tasks t)) }

def State.setScope (st : State) (s : Nat) (f : Scope → Scope) : State :=
  { st with scopes := upd st.scopes s (f (st.scopes s)) }

def State.setGroup (st : State) (g : Nat) (f : Group → Group) : State :=
  { st with groups := upd st.groups g (f (st.groups g)) }

def State.setFut (st : State) (f : Nat) (v : FutSt) : State :=
  { st with futs := upd st.futs f v }

def State.schedule (st : State) (h : Handle) : State :=
  { st with ready := st.ready ++ [h] }

/-- `handle.cancel()`: a cancelled handle is skipped by the loop -/
def State.unschedule (st : State) (h : Handle) : State :=
  { st with ready := st.ready.filter (· ≠ h), cur := st.cur.filter (· ≠ h),
            timers := st.timers.filter (·.2 ≠ h) }

def taskDone (st : State) (t : Nat) : Bool :=
  (st.tasks t).st = .done

end AnyioModel.Kernel
