/-
Delivery of cancellation, part 13: `XI` (activity + identifier invariants) under allocation, the
plain setters, suspension, `_spawn`, `task_done` and the creation of a task group.
-/
import AnyioModel.Kernel.DeliverInv12

namespace AnyioModel.Kernel

/-! ### updates that touch nothing `XI` reads -/

theorem XI.of_fields {a b : State} (h : XI a) (h1 : b.scopes = a.scopes) (h2 : b.tasks = a.tasks)
    (h3 : b.groups = a.groups) (h4 : b.nGroups = a.nGroups) (h5 : a.nScopes ≤ b.nScopes) :
    XI b := by
  refine ⟨?_, h.2.congr (fun u => by rw [h2]; exact ⟨rfl, rfl⟩) (fun g => by rw [h3]) h4 h5⟩
  unfold AI; rw [h1, h2, h3, h4]; exact h.1

theorem xi_newScope {st : State} (w : WF st) (h : XI st) (sh : Bool) (d : Option Nat) :
    XI (newScope st sh d).1 := by
  have hd := w.scope_dflt (s := st.nScopes) (Nat.le_refl _)
  refine ⟨?_, h.2.congr (fun u => ⟨rfl, rfl⟩) (fun g => rfl) rfl (by simp [newScope])⟩
  unfold AI newScope
  simp only [setScope_scopes, setScope_tasks, setScope_groups, setScope_nGroups]
  refine AF.congr h.1 (fun x => ?_) (fun u => ⟨fun h => h, rfl⟩)
  by_cases hx : x = st.nScopes
  · subst hx; simp [hd]
  · simp [hx]

theorem xi_newFut {st : State} (h : XI st) : XI (newFut st).1 :=
  h.of_fields rfl rfl rfl rfl (Nat.le_refl _)

theorem xi_setTask {st : State} (h : XI st) (t : Nat) (f : Task → Task)
    (hf : (f (st.tasks t)).hscope = (st.tasks t).hscope ∧
      ((f (st.tasks t)).st = .done → (st.tasks t).st = .done))
    (hl : ∀ s, s ∈ libScopes (f (st.tasks t)).lib → s < st.nScopes ∧ NotGS st s)
    (hg : ∀ g, libGroup (f (st.tasks t)).lib = some g → g < st.nGroups) :
    XI (st.setTask t f) := by
  have key : ∀ u, ((st.setTask t f).tasks u).hscope = (st.tasks u).hscope ∧
      (((st.setTask t f).tasks u).st = .done → (st.tasks u).st = .done) := by
    intro u
    by_cases hu : u = t
    · subst hu; simpa using hf
    · simp [hu]
  constructor
  · exact AF.congr h.1 (fun x => ⟨rfl, rfl, rfl, rfl, rfl⟩) (fun u => ⟨(key u).2, (key u).1⟩)
  · constructor
    · intro u s hs
      by_cases hu : u = t
      · subst hu
        simp only [setTask_tasks, upd_same] at hs
        exact hl s hs
      · simp only [setTask_tasks, upd_other _ _ _ _ hu] at hs
        exact h.2.l1 u s hs
    · intro u s hs; rw [(key u).1] at hs; exact h.2.l2 u s hs
    · intro u g hs
      by_cases hu : u = t
      · subst hu
        simp only [setTask_tasks, upd_same] at hs
        exact hg g hs
      · simp only [setTask_tasks, upd_other _ _ _ _ hu] at hs
        exact h.2.l3 u g hs
    · intro u u' s h1 h2
      rw [(key u).1] at h1; rw [(key u').1] at h2
      exact h.2.hinj u u' s h1 h2
    · exact h.2.ginj

/-- the library frame is kept -/
theorem xi_setTask_inert {st : State} (h : XI st) (t : Nat) (f : Task → Task)
    (hf : (f (st.tasks t)).hscope = (st.tasks t).hscope ∧
      ((f (st.tasks t)).st = .done → (st.tasks t).st = .done) ∧
      (f (st.tasks t)).lib = (st.tasks t).lib) : XI (st.setTask t f) :=
  xi_setTask h t f ⟨hf.1, hf.2.1⟩ (fun s hs => h.2.l1 t s (hf.2.2 ▸ hs))
    (fun g hg => h.2.l3 t g (hf.2.2 ▸ hg))

/-- the library frame is left -/
theorem xi_setTask_libNone {st : State} (h : XI st) (t : Nat) (f : Task → Task)
    (hf : (f (st.tasks t)).hscope = (st.tasks t).hscope ∧
      ((f (st.tasks t)).st = .done → (st.tasks t).st = .done) ∧
      (f (st.tasks t)).lib = .none) : XI (st.setTask t f) :=
  xi_setTask h t f ⟨hf.1, hf.2.1⟩ (fun s hs => by rw [hf.2.2] at hs; simp [libScopes] at hs)
    (fun g hg => by rw [hf.2.2] at hg; simp [libGroup] at hg)

theorem xi_setGroup_inert {st : State} (h : XI st) (g : Nat) (f : Group → Group)
    (hf : (f (st.groups g)).scope = (st.groups g).scope ∧
      (f (st.groups g)).tasks = (st.groups g).tasks) : XI (st.setGroup g f) := by
  have key : ∀ x, ((st.setGroup g f).groups x).scope = (st.groups x).scope ∧
      ((st.setGroup g f).groups x).tasks = (st.groups x).tasks := by
    intro x
    by_cases hx : x = g
    · subst hx; simpa using hf
    · simp [hx]
  constructor
  · refine AF.mono_groups h.1 ?_
    rintro u p ⟨x, h1, h2, h3⟩
    exact ⟨x, h1, by rw [(key x).1]; exact h2, by rw [(key x).2]; exact h3⟩
  · exact h.2.congr (fun u => ⟨rfl, rfl⟩) (fun x => (key x).1) rfl (Nat.le_refl _)

theorem xi_setScope_inert {st : State} (h : XI st) (s : Nat) (f : Scope → Scope)
    (hf : (f (st.scopes s)).active = (st.scopes s).active ∧
      (f (st.scopes s)).parent = (st.scopes s).parent ∧
      (f (st.scopes s)).host = (st.scopes s).host ∧
      (f (st.scopes s)).tasks = (st.scopes s).tasks ∧
      (f (st.scopes s)).chain = (st.scopes s).chain) : XI (st.setScope s f) := by
  refine ⟨?_, h.2.congr (fun u => ⟨rfl, rfl⟩) (fun g => rfl) rfl (Nat.le_refl _)⟩
  refine AF.congr h.1 (fun x => ?_) (fun u => ⟨fun h => h, rfl⟩)
  by_cases hx : x = s
  · subst hx; simpa using hf
  · simp [hx]

/-! ### suspension -/

theorem xi_doYield {st : State} (h : XI st) (t : Nat) : XI (doYield st t) := by
  unfold doYield
  exact (xi_setTask_inert h t (fun x => { x with st := .yielded })
    ⟨rfl, fun h => by simp at h, rfl⟩).of_fields rfl rfl rfl rfl (Nat.le_refl _)

theorem xi_blockOn {st : State} (h : XI st) (t f : Nat) : XI (blockOn st t f) := by
  have h1 : XI { st.setTask t (fun x => { x with st := .blocked f }) with
      futWaiter := upd st.futWaiter f (some t), running := none } :=
    (xi_setTask_inert h t (fun x => { x with st := .blocked f })
      ⟨rfl, fun h => by simp at h, rfl⟩).of_fields rfl rfl rfl rfl (Nat.le_refl _)
  unfold blockOn
  simp only []
  split
  · exact ((xi_setTask_inert h1 t (fun x => { x with mustCancel := false })
      ⟨rfl, fun h => h, rfl⟩)).of_frame (frame_resolveFut _ _ _)
  · exact h1

/-! ### `_spawn` -/

theorem xi_spawnCore {st : State} {g gs hs : Nat} (sf : Option Nat) (w : WF st) (h : XI st)
    (hg : g < st.nGroups) (hgs : (st.groups g).scope = gs)
    (hact : (st.scopes gs).active = true) (hch : (st.scopes hs).chain = [])
    (hfresh : ∀ u, (st.tasks u).hscope ≠ some hs) (hngs : NotGS st hs) :
    XI (spawnCore st g gs hs sf) := by
  have hnh : ∀ x, (st.scopes x).host ≠ some st.nTasks := by
    intro x hx; have := w.host_lt hx; omega
  have hsc : ∀ x, ((spawnCore st g gs hs sf).scopes x).active = (st.scopes x).active ∧
      ((spawnCore st g gs hs sf).scopes x).parent = (st.scopes x).parent ∧
      ((spawnCore st g gs hs sf).scopes x).host = (st.scopes x).host ∧
      ((spawnCore st g gs hs sf).scopes x).chain = (st.scopes x).chain ∧
      (∀ u, u ∈ ((spawnCore st g gs hs sf).scopes x).tasks →
        u ∈ (st.scopes x).tasks ∨ (u = st.nTasks ∧ x = gs)) := by
    intro x
    by_cases hx : x = gs
    · subst hx; simp [spawnCore]
      intro u hu; exact .inl hu
    · simp [spawnCore, hx]
  have htk : ∀ u, u ≠ st.nTasks → (spawnCore st g gs hs sf).tasks u = st.tasks u := by
    intro u hu; simp [spawnCore, hu]
  have hnew : ((spawnCore st g gs hs sf).tasks st.nTasks).hscope = some hs ∧
      ((spawnCore st g gs hs sf).tasks st.nTasks).lib = .none := by simp [spawnCore]
  have hgr : ∀ x, ((spawnCore st g gs hs sf).groups x).scope = (st.groups x).scope ∧
      (∀ u, u ∈ (st.groups x).tasks → u ∈ ((spawnCore st g gs hs sf).groups x).tasks) := by
    intro x
    by_cases hx : x = g
    · subst hx; simp [spawnCore]
      intro u hu; exact .inr hu
    · simp [spawnCore, hx]
  have hnG : (spawnCore st g gs hs sf).nGroups = st.nGroups := by simp [spawnCore]
  have hgm : st.nTasks ∈ ((spawnCore st g gs hs sf).groups g).tasks := by simp [spawnCore]
  have hG : ∀ u p, Guest st.groups st.nGroups u p →
      Guest (spawnCore st g gs hs sf).groups (spawnCore st g gs hs sf).nGroups u p := by
    rintro u p ⟨x, h1, h2, h3⟩
    exact ⟨x, by rw [hnG]; exact h1, by rw [(hgr x).1]; exact h2, (hgr x).2 u h3⟩
  have hn : ∀ s, NotGS st s → NotGS (spawnCore st g gs hs sf) s := by
    intro s hs' x hlt; rw [(hgr x).1]; exact hs' x (hnG ▸ hlt)
  obtain ⟨⟨a1, a2, a3, a4, a5, a6⟩, li⟩ := h
  constructor
  · constructor
    · intro c p; rw [(hsc c).1, (hsc c).2.1, (hsc p).1]; exact a1 c p
    · intro c u hu
      rw [(hsc c).1]
      rcases (hsc c).2.2.2.2 u hu with hu | ⟨_, rfl⟩
      · exact a2 c u hu
      · exact hact
    · intro c u hu
      rw [(hsc c).2.2.1]
      rcases (hsc c).2.2.2.2 u hu with hu | ⟨rfl, rfl⟩
      · rcases a3 c u hu with h | h
        · exact .inl h
        · exact .inr (hG _ _ h)
      · exact .inr ⟨g, by rw [hnG]; exact hg, by rw [(hgr g).1]; exact hgs, hgm⟩
    · intro c p
      rw [(hsc c).1, (hsc c).2.1, (hsc c).2.2.1, (hsc p).2.2.1]
      intro hc hp
      rcases a4 c p hc hp with h | ⟨u, h1, h2⟩
      · exact .inl h
      · exact .inr ⟨u, h1, hG _ _ h2⟩
    · intro s u
      rw [(hsc s).2.2.1]
      intro hh
      have hu : u ≠ st.nTasks := fun e => hnh s (e ▸ hh)
      rw [htk u hu]; exact a5 s u hh
    · intro u hs' x hu
      rw [(hsc hs').2.2.2.1, (hsc x).2.2.1]
      by_cases hun : u = st.nTasks
      · subst hun
        rw [hnew.1] at hu
        cases hu
        rw [hch]; simp
      · rw [htk u hun] at hu; exact a6 u hs' x hu
  · constructor
    · intro u s hs'
      by_cases hun : u = st.nTasks
      · subst hun; rw [hnew.2] at hs'; simp [libScopes] at hs'
      · rw [htk u hun] at hs'
        exact ⟨by simpa [spawnCore] using (li.l1 u s hs').1, hn s (li.l1 u s hs').2⟩
    · intro u s hs'
      by_cases hun : u = st.nTasks
      · subst hun; rw [hnew.1] at hs'; cases hs'; exact hn _ hngs
      · rw [htk u hun] at hs'; exact hn s (li.l2 u s hs')
    · intro u x hl
      by_cases hun : u = st.nTasks
      · subst hun; rw [hnew.2] at hl; simp [libGroup] at hl
      · rw [htk u hun] at hl; rw [hnG]; exact li.l3 u x hl
    · intro u u' s h1 h2
      by_cases hun : u = st.nTasks
      · by_cases hun' : u' = st.nTasks
        · rw [hun, hun']
        · subst hun
          rw [hnew.1] at h1; cases h1
          rw [htk u' hun'] at h2
          exact absurd h2 (hfresh u')
      · by_cases hun' : u' = st.nTasks
        · subst hun'
          rw [hnew.1] at h2; cases h2
          rw [htk u hun] at h1
          exact absurd h1 (hfresh u)
        · rw [htk u hun] at h1; rw [htk u' hun'] at h2
          exact li.hinj u u' s h1 h2
    · intro x x' h1 h2 h3
      rw [(hgr x).1, (hgr x').1] at h3
      exact li.ginj x x' (hnG ▸ h1) (hnG ▸ h2) h3

theorem xi_spawn {st : State} {g : Nat} (sf : Option Nat) (w : WF st) (h : XI st)
    (hg : g < st.nGroups) (ha : (st.scopes (st.groups g).scope).active = true) :
    XI (spawn st g sf).1 := by
  rw [spawn_eq]
  simp only []
  refine XI.of_frame ?_ (frame_spawnTail _ _)
  have w1 := wf_newScope w false none
  have h1 := xi_newScope w h false none
  have hgs : (st.groups g).scope < st.nScopes := w.group_scope_lt g hg
  have hne : (st.groups g).scope ≠ st.nScopes := by omega
  refine xi_spawnCore sf w1 h1 (by simpa [newScope] using hg) (by simp [newScope])
    (by simpa [newScope, hne] using ha) (by simp [newScope]) ?_ ?_
  · intro u hu
    have : ((newScope st false none).1.tasks u).hscope = (st.tasks u).hscope := by simp [newScope]
    rw [this] at hu
    have := w.hscope_lt u _ hu
    simp [newScope] at this
  · intro x hx he
    have hx' : x < st.nGroups := by simpa [newScope] using hx
    have := w.group_scope_lt x hx'
    have e : ((newScope st false none).1.groups x).scope = (st.groups x).scope := by
      simp [newScope]
    rw [e] at he
    simp [newScope] at he
    omega

/-! ### `task_done` -/

theorem xi_taskDoneCore {st : State} {u g sc : Nat} (w : WF st) (h : XI st)
    (hsc : (st.tasks u).scope = some sc) (hd : (st.tasks u).st = .done) :
    XI (((st.setScope sc (fun x => { x with tasks := x.tasks.erase u })).setGroup g
        (fun x => { x with tasks := x.tasks.erase u })).setTask u
        (fun x => { x with hasState := false, scope := none, doneCbRun := true })) := by
  have hS : ∀ x, ((st.setScope sc (fun x => { x with tasks := x.tasks.erase u })).scopes x).active =
        (st.scopes x).active ∧
      ((st.setScope sc (fun x => { x with tasks := x.tasks.erase u })).scopes x).parent =
        (st.scopes x).parent ∧
      ((st.setScope sc (fun x => { x with tasks := x.tasks.erase u })).scopes x).host =
        (st.scopes x).host ∧
      ((st.setScope sc (fun x => { x with tasks := x.tasks.erase u })).scopes x).chain =
        (st.scopes x).chain ∧
      (∀ v, v ∈ ((st.setScope sc (fun x => { x with tasks := x.tasks.erase u })).scopes x).tasks →
        v ∈ (st.scopes x).tasks ∧ v ≠ u) := by
    intro x
    by_cases hx : x = sc
    · subst hx
      simp
      intro v hv
      have := (List.Nodup.mem_erase_iff (w.tasks_nodup x)).mp hv
      exact ⟨this.2, this.1⟩
    · simp [hx]
      intro v hv
      refine ⟨hv, ?_⟩
      rintro rfl
      have := ((w.tasks_mem x v).mp hv).2
      rw [hsc] at this
      exact hx (Option.some.inj this).symm
  have hGr : ∀ x, ((st.setGroup g (fun x => { x with tasks := x.tasks.erase u })).groups x).scope =
        (st.groups x).scope ∧
      (∀ v, v ≠ u → v ∈ (st.groups x).tasks →
        v ∈ ((st.setGroup g (fun x => { x with tasks := x.tasks.erase u })).groups x).tasks) := by
    intro x
    by_cases hx : x = g
    · subst hx; simp
      intro v hv hm; exact (List.mem_erase_of_ne hv).mpr hm
    · simp [hx]
  have hT : ∀ v, ((st.setTask u
      (fun x => { x with hasState := false, scope := none, doneCbRun := true })).tasks v).st =
        (st.tasks v).st ∧
      ((st.setTask u
      (fun x => { x with hasState := false, scope := none, doneCbRun := true })).tasks v).hscope =
        (st.tasks v).hscope ∧
      ((st.setTask u
      (fun x => { x with hasState := false, scope := none, doneCbRun := true })).tasks v).lib =
        (st.tasks v).lib := by
    intro v
    by_cases hv : v = u
    · subst hv; simp
    · simp [hv]
  obtain ⟨⟨a1, a2, a3, a4, a5, a6⟩, li⟩ := h
  have hG : ∀ v p, v ≠ u → Guest st.groups st.nGroups v p →
      Guest (st.setGroup g (fun x => { x with tasks := x.tasks.erase u })).groups st.nGroups v p := by
    rintro v p hv ⟨x, h1, h2, h3⟩
    exact ⟨x, h1, by rw [(hGr x).1]; exact h2, (hGr x).2 v hv h3⟩
  constructor
  · show AF (st.setScope sc (fun x => { x with tasks := x.tasks.erase u })).scopes
      (st.setTask u (fun x => { x with hasState := false, scope := none, doneCbRun := true })).tasks
      (st.setGroup g (fun x => { x with tasks := x.tasks.erase u })).groups st.nGroups
    constructor
    · intro c p
      rw [(hS c).1, (hS c).2.1, (hS p).1]; exact a1 c p
    · intro c v hv
      rw [(hS c).1]; exact a2 c v ((hS c).2.2.2.2 v hv).1
    · intro c v hv
      rw [(hS c).2.2.1]
      obtain ⟨hv1, hv2⟩ := (hS c).2.2.2.2 v hv
      rcases a3 c v hv1 with h | h
      · exact .inl h
      · exact .inr (hG v c hv2 h)
    · intro c p
      rw [(hS c).1, (hS c).2.1, (hS c).2.2.1, (hS p).2.2.1]
      intro hc hp
      rcases a4 c p hc hp with h | ⟨v, h1, h2⟩
      · exact .inl h
      · have hvu : v ≠ u := by
          rintro rfl; exact a5 c v h1 hd
        exact .inr ⟨v, h1, hG v p hvu h2⟩
    · intro s v
      rw [(hS s).2.2.1, (hT v).1]; exact a5 s v
    · intro v hs' x
      rw [(hT v).2.1, (hS hs').2.2.2.1, (hS x).2.2.1]; exact a6 v hs' x
  · refine li.congr (b := ((st.setScope sc (fun x => { x with tasks := x.tasks.erase u })).setGroup g
        (fun x => { x with tasks := x.tasks.erase u })).setTask u
        (fun x => { x with hasState := false, scope := none, doneCbRun := true }))
      (fun v => ⟨(hT v).2.2, (hT v).2.1⟩) (fun x => (hGr x).1) rfl (Nat.le_refl _)

/-! ### the end of a coroutine -/

/-- the running task becomes done: it hosts no scope -/
theorem xi_setDone {st : State} (h : XI st) (t : Nat) (f : Task → Task) (r : Option Nat)
    (hn : ∀ x, (st.scopes x).host ≠ some t)
    (hf : (f (st.tasks t)).hscope = (st.tasks t).hscope ∧ (f (st.tasks t)).lib = .none) :
    XI { st.setTask t f with running := r } := by
  refine XI.of_fields (a := st.setTask t f) ?_ rfl rfl rfl rfl (Nat.le_refl _)
  have key : ∀ u, ((st.setTask t f).tasks u).hscope = (st.tasks u).hscope := by
    intro u
    by_cases hu : u = t
    · subst hu; simpa using hf.1
    · simp [hu]
  obtain ⟨⟨a1, a2, a3, a4, a5, a6⟩, li⟩ := h
  constructor
  · refine ⟨a1, a2, a3, a4, ?_, ?_⟩
    · intro s u hh
      have hu : u ≠ t := fun e => hn s (e ▸ hh)
      simp only [setTask_tasks, upd_other _ _ _ _ hu]
      exact a5 s u hh
    · intro u hs' x hu; rw [key] at hu; exact a6 u hs' x hu
  · constructor
    · intro u s hs
      by_cases hu : u = t
      · subst hu
        simp only [setTask_tasks, upd_same, hf.2] at hs
        simp [libScopes] at hs
      · simp only [setTask_tasks, upd_other _ _ _ _ hu] at hs
        exact li.l1 u s hs
    · intro u s hs; rw [key] at hs; exact li.l2 u s hs
    · intro u g hs
      by_cases hu : u = t
      · subst hu
        simp only [setTask_tasks, upd_same, hf.2] at hs
        simp [libGroup] at hs
      · simp only [setTask_tasks, upd_other _ _ _ _ hu] at hs
        exact li.l3 u g hs
    · intro u u' s h1 h2
      rw [key] at h1 h2; exact li.hinj u u' s h1 h2
    · exact li.ginj

/-! ### a new task group -/

theorem xi_mkGroup {st : State} (w : WF st) (h : XI st) :
    XI { (newScope st false none).1.setGroup (newScope st false none).1.nGroups
        (fun _ => { scope := (newScope st false none).2 }) with
      nGroups := (newScope st false none).1.nGroups + 1 } := by
  have h1 := xi_newScope w h false none
  have hs2 : (newScope st false none).2 = st.nScopes := rfl
  have hnG : (newScope st false none).1.nGroups = st.nGroups := rfl
  have hgr : (newScope st false none).1.groups = st.groups := rfl
  have htk : (newScope st false none).1.tasks = st.tasks := rfl
  obtain ⟨ai1, li1⟩ := h1
  have key : ∀ x, x < st.nGroups →
      (upd st.groups st.nGroups ({ scope := st.nScopes } : Group)) x = st.groups x := by
    intro x hx
    have : x ≠ st.nGroups := by omega
    simp [this]
  constructor
  · unfold AI at ai1 ⊢
    simp only [setGroup_scopes, setGroup_tasks, setGroup_groups, hnG, hgr, hs2] at ai1 ⊢
    refine AF.mono_groups ai1 ?_
    rintro u p ⟨x, hx1, hx2, hx3⟩
    exact ⟨x, by omega, by rw [key x hx1]; exact hx2, by rw [key x hx1]; exact hx3⟩
  · have hn : ∀ s, s < st.nScopes → NotGS (newScope st false none).1 s →
        NotGS ({ (newScope st false none).1.setGroup (newScope st false none).1.nGroups
          (fun _ => { scope := (newScope st false none).2 }) with
          nGroups := (newScope st false none).1.nGroups + 1 } : State) s := by
      intro s hlt hs x hx
      simp only [setGroup_groups, hnG, hgr, hs2] at hx ⊢
      by_cases hxn : x = st.nGroups
      · subst hxn; simp; omega
      · rw [key x (by omega)]
        exact hs x (by rw [hnG]; omega)
    constructor
    · intro t s hs
      simp only [setGroup_tasks, htk] at hs
      have hl := h.2.l1 t s hs
      have := li1.l1 t s (by rw [htk]; exact hs)
      exact ⟨this.1, hn s hl.1 this.2⟩
    · intro t s hs
      simp only [setGroup_tasks, htk] at hs
      exact hn s (w.hscope_lt t s hs) (li1.l2 t s (by rw [htk]; exact hs))
    · intro t g hl
      simp only [setGroup_tasks, htk] at hl
      have := h.2.l3 t g hl
      simp only [hnG]; omega
    · intro u u' s h1 h2
      simp only [setGroup_tasks, htk] at h1 h2
      exact h.2.hinj u u' s h1 h2
    · intro x x' hx hx' he
      simp only [setGroup_groups, hnG, hgr, hs2] at hx hx' he
      by_cases hxn : x = st.nGroups
      · by_cases hxn' : x' = st.nGroups
        · rw [hxn, hxn']
        · exfalso
          subst hxn
          rw [key x' (by omega)] at he
          simp at he
          have := w.group_scope_lt x' (by omega)
          omega
      · by_cases hxn' : x' = st.nGroups
        · exfalso
          subst hxn'
          rw [key x (by omega)] at he
          simp at he
          have := w.group_scope_lt x (by omega)
          omega
        · rw [key x (by omega), key x' (by omega)] at he
          exact h.2.ginj x x' (by omega) (by omega) he

end AnyioModel.Kernel
