/-
Who can cancel a scope, part 1: the relation `NC a b` ("no scope is newly cancelled between `a`
and `b`"), its building blocks for every helper of the model that never calls
`CancelScope.cancel()`, and the exact effect on `cancelCalled` of the helpers that do
(`cancelScope`, `armTimeout` = `_timeout()`, `enterScope`, `setDeadline`).

Everything here holds for ALL states (no well-formedness needed).
-/
import AnyioModel.Kernel.WFMono
import AnyioModel.Kernel.PureProofs

namespace AnyioModel.Kernel

/-- no scope is newly cancelled: every scope with `cancelCalled` in `b` had it in `a` -/
structure NC (a b : State) : Prop where
  cc : ∀ x, (b.scopes x).cancelCalled = true → (a.scopes x).cancelCalled = true

theorem NC.refl (a : State) : NC a a := ⟨fun _ h => h⟩

theorem NC.trans {a b c : State} (h1 : NC a b) (h2 : NC b c) : NC a c :=
  ⟨fun x h => h1.cc x (h2.cc x h)⟩

theorem NC.of_scopes {a b : State} (h : b.scopes = a.scopes) : NC a b :=
  ⟨fun x hx => by rw [h] at hx; exact hx⟩

theorem NC.of_frame {a b : State} (f : Frame a b) : NC a b :=
  ⟨fun x hx => by rw [(f.scopes x).cancelCalled] at hx; exact hx⟩

theorem NC.of_sameNav {a b : State} (f : SameNav a b) : NC a b :=
  ⟨fun x hx => by rw [nav_cancelCalled (f x)] at hx; exact hx⟩

/-! ### pure updates -/

theorem nc_setTask (st : State) (t : Nat) (f : Task → Task) : NC st (st.setTask t f) :=
  NC.of_scopes rfl

theorem nc_setGroup (st : State) (g : Nat) (f : Group → Group) : NC st (st.setGroup g f) :=
  NC.of_scopes rfl

theorem nc_setFut (st : State) (f : Nat) (v : FutSt) : NC st (st.setFut f v) :=
  NC.of_scopes rfl

theorem nc_schedule (st : State) (h : Handle) : NC st (st.schedule h) := NC.of_scopes rfl

theorem nc_unschedule (st : State) (h : Handle) : NC st (st.unschedule h) := NC.of_scopes rfl

theorem nc_setScope (st : State) (s : Nat) (f : Scope → Scope)
    (hf : ∀ x, (f x).cancelCalled = true → x.cancelCalled = true) : NC st (st.setScope s f) := by
  constructor
  intro x hx
  by_cases h : x = s
  · subst h; exact hf _ (by simpa using hx)
  · simpa [h] using hx

theorem nc_running (st : State) (r : Option Nat) : NC st { st with running := r } :=
  NC.of_scopes rfl

theorem nc_cur (st : State) (c : List Handle) : NC st { st with cur := c } := NC.of_scopes rfl

theorem nc_timers (st : State) (c : List (Nat × Handle)) : NC st { st with timers := c } :=
  NC.of_scopes rfl

theorem nc_userFut (st : State) (c : Nat → Bool) : NC st { st with userFut := c } :=
  NC.of_scopes rfl

theorem nc_setTaskRunning (st : State) (t : Nat) (f : Task → Task) (r : Option Nat) :
    NC st { st.setTask t f with running := r } := NC.of_scopes rfl

/-- a freshly allocated scope record is not cancelled -/
theorem nc_newScope (st : State) (sh : Bool) (d : Option Nat) : NC st (newScope st sh d).1 := by
  constructor
  intro x hx
  by_cases h : x = st.nScopes
  · subst h; simp [newScope] at hx
  · simpa [newScope, h] using hx

theorem nc_newFut (st : State) : NC st (newFut st).1 := NC.of_scopes rfl

theorem nc_doYield (st : State) (t : Nat) : NC st (doYield st t) := NC.of_scopes rfl

theorem nc_blockOn (st : State) (t f : Nat) : NC st (blockOn st t f) := by
  unfold blockOn
  simp only []
  split
  · exact NC.trans (b := (({ st.setTask t (fun x => { x with st := .blocked f }) with
        futWaiter := upd st.futWaiter f (some t), running := none } : State).setTask t
          (fun x => { x with mustCancel := false })))
      (NC.of_scopes rfl) (NC.of_frame (frame_resolveFut _ _ _))
  · exact NC.of_scopes rfl

theorem nc_foldl_resolveFut (st : State) (l : List Nat) (v : FutSt) :
    NC st (l.foldl (fun st f => resolveFut st f v) st) := by
  induction l generalizing st with
  | nil => exact NC.refl _
  | cons f l ih => exact (NC.of_frame (frame_resolveFut st f v)).trans (ih _)

/-! ### the cancellation machinery that is not `cancel()` -/

theorem nc_setShield (st : State) (s : Nat) (b : Bool) : NC st (setShield st s b) :=
  (nc_setScope st s (fun x => { x with shield := b }) (fun _ h => h)).trans
    (NC.of_frame (frame_setShield st s b))

theorem nc_exitScope {st st' : State} {t s : Nat} {ev : ExcVal} {r : ExitResult}
    (he : exitScope st t s ev = some (st', r)) : NC st st' :=
  NC.of_sameNav (exitScope_sameNav he)

theorem nc_spawn (st : State) (g : Nat) (sf : Option Nat) : NC st (spawn st g sf).1 := by
  rw [spawn_eq]
  simp only []
  refine NC.trans ?_ (NC.of_frame (frame_spawnTail _ _))
  refine NC.trans (nc_newScope st false none) ?_
  unfold spawnCore
  simp only []
  refine NC.trans ?_ (nc_setGroup _ _ _)
  refine NC.trans ?_ (nc_setScope _ _ _ (fun _ h => h))
  exact NC.of_scopes rfl

/-! ### `cancel()` and `_timeout()`: the exact effect on `cancelCalled` -/

/-- `cancel()` sets the flag of its own scope only -/
theorem cc_cancelScope (st : State) (s : Nat) (b : Bool) (x : Nat)
    (h : ((cancelScope st s b).scopes x).cancelCalled = true) :
    (st.scopes x).cancelCalled = true ∨ x = s := by
  by_cases hx : x = s
  · exact .inr hx
  · left; rw [(cancelScope_other st s b hx).cancelCalled] at h; exact h

/-- `_timeout()` cancels its own scope, and only when the deadline has been reached -/
theorem cc_armTimeout (st : State) (s x : Nat)
    (h : ((armTimeout st s).scopes x).cancelCalled = true) :
    (st.scopes x).cancelCalled = true ∨
      (x = s ∧ ∃ d, (st.scopes s).deadline = some d ∧ d ≤ st.now) := by
  unfold armTimeout at h
  split at h
  · exact .inl h
  · rename_i d hd
    split at h
    · rename_i hle
      rcases cc_cancelScope _ _ _ _ h with h | h
      · exact .inl h
      · exact .inr ⟨h, d, hd, hle⟩
    · left
      by_cases hx : x = s
      · subst hx; simpa using h
      · simpa [hx] using h

theorem enterCore_scope (st : State) (t s x : Nat) :
    ((enterCore st t s).scopes x).cancelCalled = (st.scopes x).cancelCalled ∧
    ((enterCore st t s).scopes x).deadline = (st.scopes x).deadline := by
  have h := enterPre_scope st t s x
  unfold enterPre at h
  by_cases hx : x = s
  · subst hx; simp at h; exact ⟨h.2.2.2, h.2.1⟩
  · simp [hx] at h; exact ⟨h.2.2.2, h.2.1⟩

theorem enterCore_now (st : State) (t s : Nat) : (enterCore st t s).now = st.now := by
  have h := (enterPre_frame st t s).2.2.2.2.2.2.2.2.2.2.2.1
  unfold enterPre at h
  simpa using h

/-- `__enter__` cancels the scope being entered, and only when its deadline has already passed -/
theorem cc_enterScope {st st' : State} {t s : Nat} (he : enterScope st t s = some st') (x : Nat)
    (h : (st'.scopes x).cancelCalled = true) :
    (st.scopes x).cancelCalled = true ∨
      (x = s ∧ ∃ d, (st.scopes s).deadline = some d ∧ d ≤ st.now) := by
  rw [enterScope_eq] at he
  split at he
  · contradiction
  · simp only [Option.some.injEq] at he
    subst he
    have h3 : ((armTimeout (enterCore st t s) s).scopes x).cancelCalled = true := by
      split at h
      · rw [((frame_deliver _ _).scopes x).cancelCalled] at h
        by_cases hx : x = s
        · subst hx; simpa using h
        · simpa [hx] using h
      · by_cases hx : x = s
        · subst hx; simpa using h
        · simpa [hx] using h
    rcases cc_armTimeout _ _ _ h3 with h4 | ⟨hx, d, hd, hle⟩
    · left; rw [(enterCore_scope st t s x).1] at h4; exact h4
    · right
      rw [(enterCore_scope st t s s).2] at hd
      rw [enterCore_now] at hle
      exact ⟨hx, d, hd, hle⟩

/-- a scope allocated without a deadline and entered at once: nothing is cancelled -/
theorem nc_newEnter {st st' : State} {t : Nat} {sh : Bool}
    (he : enterScope (newScope st sh none).1 t (newScope st sh none).2 = some st') :
    NC st st' := by
  constructor
  intro x hx
  rcases cc_enterScope he x hx with h | ⟨_, d, hd, _⟩
  · exact (nc_newScope st sh none).cc x h
  · simp [newScope] at hd

/-- the `deadline` setter cancels its own scope only, and only an active scope whose new deadline
has already passed -/
theorem cc_setDeadline (st : State) (s : Nat) (d : Option Nat) (x : Nat)
    (h : ((setDeadline st s d).scopes x).cancelCalled = true) :
    (st.scopes x).cancelCalled = true ∨
      (x = s ∧ (st.scopes s).active = true ∧ ∃ d', d = some d' ∧ d' ≤ st.now) := by
  have hm : ∀ y, ((deadlineMid st s d).scopes y).cancelCalled = true →
      (st.scopes y).cancelCalled = true := by
    intro y hy
    rw [deadlineMid_scopes] at hy
    by_cases hys : y = s
    · subst hys; simpa using hy
    · simpa [hys] using hy
  rw [setDeadline_split'] at h
  split at h
  · rename_i hact
    rcases cc_armTimeout _ _ _ h with h1 | ⟨hx, d', hd', hle⟩
    · exact .inl (hm _ h1)
    · right
      rw [deadlineMid_scopes] at hd'
      rw [deadlineMid_now] at hle
      exact ⟨hx, hact.1, d', by simpa using hd', hle⟩
  · exact .inl (hm _ h)

/-! ### peeling layers off the later state -/

macro "nc1" : tactic => `(tactic| first
  | exact NC.refl _
  | assumption
  | refine NC.trans ?_ (nc_setTask _ _ _)
  | refine NC.trans ?_ (nc_setGroup _ _ _)
  | refine NC.trans ?_ (nc_setFut _ _ _)
  | refine NC.trans ?_ (nc_foldl_resolveFut _ _ _)
  | refine NC.trans ?_ (nc_setScope _ _ _ (fun x => by simp))
  | refine NC.trans ?_ (nc_schedule _ _)
  | refine NC.trans ?_ (nc_unschedule _ _)
  | refine NC.trans ?_ (nc_doYield _ _)
  | refine NC.trans ?_ (nc_blockOn _ _ _)
  | refine NC.trans ?_ (nc_newScope _ _ _)
  | refine NC.trans ?_ (nc_newFut _)
  | refine NC.trans ?_ (NC.of_frame (frame_resolveFut _ _ _))
  | refine NC.trans ?_ (NC.of_frame (frame_deliver _ _))
  | refine NC.trans ?_ (NC.of_frame (frame_taskCancel _ _ _))
  | refine NC.trans ?_ (NC.of_frame (frame_taskUncancel _ _ _))
  | refine NC.trans ?_ (nc_exitScope ‹_›)
  | refine NC.trans ?_ (nc_setShield _ _ _)
  | refine NC.trans ?_ (NC.of_frame (frame_restartInParent _ _))
  | refine NC.trans ?_ (nc_spawn _ _ _)
  | refine NC.trans ?_ (nc_setTaskRunning _ _ _ _)
  | refine NC.trans ?_ (nc_running _ _)
  | refine NC.trans ?_ (nc_cur _ _)
  | refine NC.trans ?_ (nc_timers _ _)
  | refine NC.trans ?_ (nc_userFut _ _))

macro "nc" : tactic => `(tactic| repeat nc1)

/-! ### the tail of `TaskGroup.__aexit__`, `TaskHandle._run_coro`'s end -/

theorem nc_aexitFinish {st st' : State} {t g : Nat} {ev : ExcVal} {o : Out}
    (he : aexitFinish st t g ev = some (st', o)) : NC st st' := by
  unfold aexitFinish at he
  simp only [] at he
  split at he
  · contradiction
  · simp only [Option.some.injEq, Prod.mk.injEq] at he
    obtain ⟨rfl, _⟩ := he
    nc

theorem nc_aexitLoop {st st' : State} {t g ws : Nat} {ev : ExcVal} {o : Out}
    (he : aexitLoop st t g ws ev = some (st', o)) : NC st st' := by
  unfold aexitLoop at he
  split at he
  · simp only [Option.some.injEq, Prod.mk.injEq] at he
    obtain ⟨rfl, _⟩ := he
    nc
  · split at he
    · contradiction
    · refine NC.trans ?_ (nc_aexitFinish he)
      nc

theorem nc_aexitAfterChk {st st' : State} {t g : Nat} {ev : ExcVal} {o : Out}
    (he : aexitAfterChk st t g ev = some (st', o)) : NC st st' := by
  unfold aexitAfterChk at he
  split at he
  · simp only [] at he
    split at he
    · contradiction
    · rename_i st1 hen
      exact (nc_newEnter hen).trans (nc_aexitLoop he)
  · exact nc_aexitFinish he

theorem nc_finishTask {st st' : State} {t : Nat} {o : Outcome}
    (he : finishTask st t o = some st') : NC st st' := by
  unfold finishTask at he
  simp only [] at he
  split at he
  · split at he
    · contradiction
    · simp only [Option.some.injEq] at he
      subst he
      nc
  · simp only [Option.some.injEq] at he
    subst he
    nc

end AnyioModel.Kernel
