/-
Who can cancel a scope, part 5: what reachability adds.
* `startOnC_reach`: the structural hypothesis of `cc_step` holds in every reachable state.
* `CancelCause.lt`: every cause cancels an allocated scope; `cc_alloc_reach`: in a reachable state
  only allocated scopes are cancelled (so `cancelCalled` is monotone for EVERY scope id).
* `CancelCause.group_cases`: the causes that can hit the scope of a task group.
-/
import AnyioModel.Kernel.CauseInv4
import AnyioModel.Kernel.FutInv5
import AnyioModel.Kernel.DeliverInv16

namespace AnyioModel.Kernel

theorem startOnC_of_finv {st : State} (h : FInv st) : StartOnCDisjoint st := by
  intro u g sf h1 h2
  have := h.role_uniq sf (.start u) (.onC g) h1 h2
  cases this

theorem startOnC_reach {st : State} (hr : Reach st) : StartOnCDisjoint st :=
  startOnC_of_finv (finv_reach hr)

/-- every cause cancels a scope that has been allocated -/
theorem CancelCause.lt {st : State} (w : WF st) (li : LI st) {e : Ev} {s : Nat}
    (c : CancelCause st e s) : s < st.nScopes := by
  have hdl : ∀ x d, (st.scopes x).deadline = some d → x < st.nScopes := fun x d hd =>
    (w.scope_exists x).mp (w.deadline_exists x (by rw [hd]; rfl))
  cases c with
  | userCancel _ hex => exact (w.scope_exists s).mp hex
  | deadlineFired _ d hd _ => exact hdl _ d hd
  | deadlineSetPast _ d hex _ _ => exact (w.scope_exists s).mp hex
  | enterPastDeadline _ d _ _ hd _ => exact hdl _ d hd
  | groupEnterPastDeadline g d hg _ _ => exact w.group_scope_lt g hg
  | childStartPastDeadline u _ d _ hh _ _ _ => exact w.hscope_lt u s hh
  | bodyException g ev hg _ => exact w.group_scope_lt g hg
  | childFailed u g o hg _ _ _ _ => exact w.group_scope_lt g (w.task_group_lt u g hg)
  | aexitHostCancelled h t g x ev _ hl _ =>
    apply w.group_scope_lt g
    apply li.l3 t g
    rcases hl with hl | hl <;> rw [hl] <;> rfl
  | startCallerFailed h t g u f _ _ _ _ hh _ => exact w.hscope_lt u s hh
  | handleCancel u _ hh _ => exact w.hscope_lt u s hh

/-- in a reachable state a scope id that has not been allocated is not cancelled -/
theorem cc_alloc_reach {st : State} (hr : Reach st) :
    ∀ s, (st.scopes s).cancelCalled = true → s < st.nScopes := by
  induction hr with
  | start h0 =>
    subst h0
    intro s h
    simp [init] at h
  | @next st e st' o hr hs ih =>
    intro s h
    have hmono := (mono_step hs).nS
    rcases cc_step hs (startOnC_reach hr) s h with h1 | c
    · have := ih s h1; omega
    · have := c.lt (wf_reach hr) (xi_reach hr).2; omega

/-- a cause that hits the scope of a task group `g`: `.enter`, the child-start and the two
`TaskHandle` causes are excluded, and the group named by the cause is `g` itself -/
theorem CancelCause.group_cases {st : State} (w : WF st) (li : LI st) {e : Ev} {g : Nat}
    (hg : g < st.nGroups) (c : CancelCause st e (st.groups g).scope) :
    e = .cancel (st.groups g).scope ∨
    (e = .run (.timeout (st.groups g).scope) ∧
      ∃ d, (st.scopes (st.groups g).scope).deadline = some d ∧ d ≤ st.now) ∨
    (∃ d, e = .setDeadline (st.groups g).scope (some d) ∧
      (st.scopes (st.groups g).scope).active = true ∧ d ≤ st.now) ∨
    (e = .groupEnter g ∧
      ∃ d, (st.scopes (st.groups g).scope).deadline = some d ∧ d ≤ st.now) ∨
    (∃ ev, e = .aexit g ev ∧ ev ≠ .none) ∨
    (∃ u o, e = .run (.taskDone u) ∧ (st.tasks u).group = some g ∧
      (st.tasks u).outcome = some o ∧ o ≠ .none ∧
      effCancelled st (st.groups g).scope = false ∧
      ∀ sf, (st.tasks u).startFut = some sf → (st.futs sf).done = true ∧
        ¬ (o.isCancelledError = true ∧ ∃ a, st.futs sf = .cancelled a)) ∨
    (∃ h t w ev, e = .run h ∧ (h = .step t ∨ h = .wakeup t) ∧
      ((st.tasks t).lib = .aexitChk g w ev ∨ (st.tasks t).lib = .aexitWait g w ev) ∧
      (resumeValue st t).isCancelledError = true) := by
  generalize hs : (st.groups g).scope = s at c
  have same : ∀ g', g' < st.nGroups → (st.groups g).scope = (st.groups g').scope → g' = g :=
    fun g' hg' h => li.ginj g' g hg' hg h.symm
  cases c with
  | userCancel _ _ => subst hs; exact .inl rfl
  | deadlineFired _ d hd hle => subst hs; exact .inr (.inl ⟨rfl, d, hd, hle⟩)
  | deadlineSetPast _ d _ ha hle => subst hs; exact .inr (.inr (.inl ⟨d, rfl, ha, hle⟩))
  | enterPastDeadline _ d hgs _ _ _ =>
    exact absurd hs (not_isGroupScope hgs g hg)
  | groupEnterPastDeadline g' d hg' hd hle =>
    have := same g' hg' hs
    subst this
    exact .inr (.inr (.inr (.inl ⟨rfl, d, hd, hle⟩)))
  | childStartPastDeadline u _ d _ hh _ _ _ => exact absurd hs (li.l2 u s hh g hg)
  | bodyException g' ev hg' hne =>
    have := same g' hg' hs
    subst this
    exact .inr (.inr (.inr (.inr (.inl ⟨ev, rfl, hne⟩))))
  | childFailed u g' o hgu ho hne heff hsf =>
    have := same g' (w.task_group_lt u g' hgu) hs
    subst this
    exact .inr (.inr (.inr (.inr (.inr (.inl ⟨u, o, rfl, hgu, ho, hne, heff, hsf⟩)))))
  | aexitHostCancelled h t g' x ev hh hl hr =>
    have hg' : g' < st.nGroups := by
      apply li.l3 t g'
      rcases hl with hl | hl <;> rw [hl] <;> rfl
    have := same g' hg' hs
    subst this
    exact .inr (.inr (.inr (.inr (.inr (.inr ⟨h, t, x, ev, rfl, hh, hl, hr⟩)))))
  | startCallerFailed h t g' u f _ _ _ _ hh _ => exact absurd hs (li.l2 u s hh g hg)
  | handleCancel u _ hh _ => exact absurd hs (li.l2 u s hh g hg)

end AnyioModel.Kernel
