/-
Timer invariant, part 3: `__exit__`, `CancelScope()`, `shield = ...`, `deadline = ...`, the
`timeout s` callback, and the start of a loop cycle.
-/
import AnyioModel.Kernel.TimerInv2

namespace AnyioModel.Kernel

/-! ### `__exit__` -/

theorem exitUnlink_seq (st : State) (t s : Nat) (i : Nat) :
    SEq (if i = s then { st.scopes s with active := false, timer := false } else st.scopes i)
      ((exitUnlink st t s).scopes i) := by
  unfold exitUnlink
  dsimp only
  by_cases hi : i = s
  · subst hi
    by_cases ht : (st.scopes i).timer = true <;> cases hp : (st.scopes i).parent <;>
      simp [ht, upd_apply] <;> (try split) <;> constructor <;> simp_all
  · by_cases ht : (st.scopes s).timer = true <;> cases hp : (st.scopes s).parent <;>
      simp [ht, hi, upd_apply] <;> (try split) <;> constructor <;> simp_all

theorem exitUnlink_nScopes (st : State) (t s : Nat) :
    (exitUnlink st t s).nScopes = st.nScopes := by
  unfold exitUnlink
  dsimp only
  by_cases ht : (st.scopes s).timer = true <;> cases hp : (st.scopes s).parent <;> simp [ht]

theorem exitScope_nScopes {st st' : State} {t s : Nat} {ev : ExcVal} {r : ExitResult}
    (h : exitScope st t s ev = some (st', r)) : st'.nScopes = st.nScopes := by
  obtain ⟨_, _, _, _, hc⟩ := exitScope_spec h
  rw [hc.nScopes]
  simp only [exitPre, exitCore]
  by_cases ht : (st.scopes s).timer = true <;> cases hp : (st.scopes s).parent <;> simp [ht]

theorem tevo_exitScope {st st' : State} {t s : Nat} {ev : ExcVal} {r : ExitResult}
    (h : exitScope st t s ev = some (st', r)) : TEvo st st' := by
  obtain ⟨_, _, hts⟩ := exitScope_class h
  have hn := exitScope_nScopes h
  have e2 : TEq (exitUnlink st t s) (exitMid st t s) := TEq.of_dframe (exitMid_frame st t s)
  have e3 : TEq (exitMid st t s) st' :=
    TEq.of_tailFrame hts.frame (by rw [hn, e2.nScopes, exitUnlink_nScopes])
  have e23 := e2.trans e3
  refine TEvo.trans ?_ (TEvo.of_teq e23)
  intro hi
  obtain ⟨q1, q2, q3, q4⟩ := exitUnlink_queues st t s
  obtain ⟨⟨a, b, c⟩, ho⟩ := disarmed_queues hi q2 q3 q4
  have hloc : TLoc s st (exitUnlink st t s) :=
    ⟨q1, exitUnlink_nScopes st t s, fun i hi => (ho i hi).1, fun i hi => (ho i hi).2.1,
      fun i hi => (ho i hi).2.2, fun i hi => by simpa [hi] using exitUnlink_seq st t s i⟩
  refine TLoc.tevo_comp hloc (fun _ => ?_) hi
  have hs := hi s
  refine ⟨[], 0, { st.scopes s with active := false, timer := false },
    ⟨a, b, c, by simpa using exitUnlink_seq st t s s⟩, ?_, ?_⟩
  · have hbd := hs.bd
    have hdf := hs.dflt
    apply SInv.idle <;> simp_all
  · constructor <;> simp_all

/-! ### `CancelScope()` -/

theorem tinv_newScope {st : State} (h : TInv st) (sh : Bool) (d : Option Nat) :
    TInv (newScope st sh d).1 := by
  intro i
  have hi := h i
  show SInv st.now (st.nScopes + 1) i (tmL st.timers i) (st.cur.count (Handle.timeout i))
    (st.ready.count (Handle.timeout i))
    (upd st.scopes st.nScopes { exists_ := true, shield := sh, deadline := d } i)
  by_cases hn : i = st.nScopes
  · subst hn
    rw [upd_same]
    have hd := hi.dflt (Nat.le_refl _)
    have hcnt := hi.count
    rw [hd.2.1] at hcnt
    simp only [Bool.false_eq_true, if_false] at hcnt
    rw [List.length_eq_zero_iff.1 (show (tmL st.timers st.nScopes).length = 0 by omega),
      show st.cur.count (Handle.timeout st.nScopes) = 0 by omega, hi.ready]
    apply SInv.idle <;> simp
  · rw [upd_other _ _ _ _ hn]
    obtain ⟨h1, h2, h3, h4, h5, h6, h7, h8, h9⟩ := hi
    exact ⟨h1, h2, h3, h4, h5, h6, fun hle => h7 (by omega), h8, h9⟩

theorem tevo_newScope (st : State) (sh : Bool) : TEvo st (newScope st sh none).1 := by
  intro h
  refine ⟨tinv_newScope h sh none, rfl, Nat.le_succ _, fun i => ?_, fun i hi => ?_⟩
  · show SEvo st.now (st.scopes i)
      (upd st.scopes st.nScopes { exists_ := true, shield := sh, deadline := none } i)
    by_cases hn : i = st.nScopes
    · subst hn; rw [upd_same]; exact .inr ⟨rfl, rfl⟩
    · rw [upd_other _ _ _ _ hn]; exact SEvo.of_seq (SEq.refl _)
  · show SNorm st.now (st.scopes i)
      (upd st.scopes st.nScopes { exists_ := true, shield := sh, deadline := none } i)
    rw [upd_other _ _ _ _ (by omega)]; exact SNorm.of_seq (SEq.refl _)

/-! ### `shield = b` -/

theorem teq_setShield (st : State) (s : Nat) (b : Bool) : TEq st (setShield st s b) := by
  unfold setShield
  split
  · exact TEq.refl _
  · have h1 : TEq st (st.setScope s (fun x => { x with shield := b })) :=
      TEq.setScope _ _ _ (fun x => by constructor <;> rfl)
    dsimp only
    split
    · exact h1
    · exact h1.trans (TEq.restartInParent _ _)

/-! ### `deadline = d` -/

/-- `TInv` of a state that differs only at `s` and whose `s`-component satisfies `SInv` -/
theorem TLoc.tinv_comp {s : Nat} {a b : State} {tm : List Nat} {cu : Nat} {y : Scope}
    (hl : TLoc s a b) (hi : TInv a) (hc : Comp b s tm cu y)
    (hy : SInv a.now a.nScopes s tm cu 0 y) : TInv b := by
  intro i
  rw [hl.now, hl.nScopes]
  by_cases his : i = s
  · subst his; rw [hc.tm, hc.cu, hc.rd]; exact hy.congr hc.sc
  · rw [hl.timers i his, hl.cur i his, hl.ready i his]
    exact (hi i).congr (hl.scopes i his)

theorem deadlineMid_queues (st : State) (s : Nat) (d : Option Nat) :
    (deadlineMid st s d).cur =
      (if (st.scopes s).timer then st.cur.filter (· ≠ Handle.timeout s) else st.cur) ∧
    (deadlineMid st s d).ready =
      (if (st.scopes s).timer then st.ready.filter (· ≠ Handle.timeout s) else st.ready) ∧
    (deadlineMid st s d).nScopes = st.nScopes := by
  unfold deadlineMid
  obtain ⟨_, q2, q3, q4⟩ := disarm_queues (st.setScope s (fun x => { x with deadline := d })) s
  rw [q2, q3, q4]
  simp

/-- the `deadline` setter preserves the timer invariant (for a scope that exists); apart from the
assignment itself every scope record evolves as `SNorm` allows -/
theorem tinv_setDeadline {st : State} (hi : TInv st) (s : Nat) (d : Option Nat)
    (hx : (st.scopes s).exists_ = true) :
    TInv (setDeadline st s d) ∧ (setDeadline st s d).now = st.now ∧
      ∀ i, SNorm st.now { st.scopes i with deadline := ((setDeadline st s d).scopes i).deadline }
        ((setDeadline st s d).scopes i) := by
  have hs := hi s
  have hlt : s < st.nScopes := by
    apply Classical.byContradiction
    intro hn
    have := (hs.dflt (by omega)).1
    simp_all
  obtain ⟨q3, q4, q5⟩ := deadlineMid_queues st s d
  obtain ⟨⟨a, b, c⟩, ho⟩ := disarmed_queues hi (deadlineMid_timers st s d) q3 q4
  have hloc : TLoc s st (deadlineMid st s d) :=
    ⟨deadlineMid_now st s d, q5, fun i hi => (ho i hi).1, fun i hi => (ho i hi).2.1,
      fun i hi => (ho i hi).2.2,
      fun i hi => by rw [deadlineMid_scopes, upd_other _ _ _ _ hi]; exact SEq.refl _⟩
  have hcomp : Comp (deadlineMid st s d) s [] 0 { st.scopes s with deadline := d, timer := false } :=
    ⟨a, b, c, by rw [deadlineMid_scopes, upd_same]; exact SEq.refl _⟩
  have htl : ((deadlineMid st s d).scopes s).timer = false := by
    rw [deadlineMid_scopes, upd_same]
  have fin : ∀ (b : State) tm cu y, TLoc s st b → Comp b s tm cu y →
      SInv st.now st.nScopes s tm cu 0 y →
      SNorm st.now { st.scopes s with deadline := y.deadline } y →
      TInv b ∧ b.now = st.now ∧
        ∀ i, SNorm st.now { st.scopes i with deadline := (b.scopes i).deadline } (b.scopes i) := by
    intro b tm cu y hl hc hy hb
    refine ⟨hl.tinv_comp hi hc hy, hl.now, fun i => ?_⟩
    by_cases his : i = s
    · subst his
      rw [hc.sc.deadline]
      exact hb.congr_right hc.sc
    · have e := hl.scopes i his
      apply SNorm.of_seq
      cases e; constructor <;> simp_all
  have hbd := hs.bd
  have hae := hs.ae
  rw [setDeadline_split']
  split
  · rename_i hg
    obtain ⟨hl2, hc2⟩ := arm_cases hcomp htl
    rw [deadlineMid_now] at hc2
    cases d with
    | none =>
      dsimp only at hc2
      apply fin _ _ _ _ (hloc.trans hl2) hc2
      · apply SInv.idle <;> simp_all
      · constructor <;> simp_all
    | some d' =>
      dsimp only at hc2
      by_cases hnow : st.now < d'
      · rw [if_pos hnow] at hc2
        apply fin _ _ _ _ (hloc.trans hl2) hc2
        · apply SInv.armed (d := d') <;> simp_all
        · constructor <;> simp_all
      · rw [if_neg hnow, hg.2] at hc2
        simp only [Bool.false_eq_true, if_false] at hc2
        apply fin _ _ _ _ (hloc.trans hl2) hc2
        · apply SInv.idle <;> simp_all
        · constructor <;> simp_all
  · rename_i hg
    apply fin _ _ _ _ hloc hcomp
    · apply SInv.idle <;> simp_all
    · constructor <;> simp_all

/-! ### the loop pops a handle -/

/-- popping a handle that is not a timeout callback -/
theorem teq_pop (st : State) (h : Handle) (hh : ∀ s, h ≠ Handle.timeout s) :
    TEq st { st with cur := st.cur.erase h } := by
  refine ⟨rfl, rfl, fun _ => rfl, fun s => ?_, fun _ => rfl, fun _ => SEq.refl _⟩
  show (st.cur.erase h).count _ = _
  rw [count_erase_timeout, if_neg (hh s)]

/-- `asyncio.sleep` arms a timer of its own -/
theorem teq_addSleep (st : State) (w f : Nat) :
    TEq st { st with timers := st.timers ++ [(w, Handle.sleepDone f)] } := by
  refine ⟨rfl, rfl, fun s => ?_, fun _ => rfl, fun _ => rfl, fun _ => SEq.refl _⟩
  show tmL (st.timers ++ [(w, Handle.sleepDone f)]) s = _
  rw [tmL_append, tmL_single_other _ _ _ (by simp)]; simp

/-- the loop runs `scope._timeout` -/
theorem tevo_runTimeout {st : State} {s : Nat} (hm : Handle.timeout s ∈ st.cur) :
    TEvo st (armTimeout (runMid st s) s) := by
  intro hi
  have hs := hi s
  have hpos : 0 < st.cur.count (Handle.timeout s) := List.count_pos_iff.2 hm
  have hcnt := hs.count
  have htm : (st.scopes s).timer = true := by
    cases h : (st.scopes s).timer with
    | true => rfl
    | false => rw [h] at hcnt; simp at hcnt; omega
  rw [htm] at hcnt
  simp only [if_true] at hcnt
  have hcu : st.cur.count (Handle.timeout s) = 1 := by omega
  have htm0 : tmL st.timers s = [] := List.length_eq_zero_iff.1 (by omega)
  obtain ⟨d, hd, hdue⟩ := hs.cu hpos
  have hact := hs.act htm
  have hent := hs.ae hact
  have hloc : TLoc s st (runMid st s) := by
    refine ⟨rfl, rfl, fun _ _ => rfl, fun i hi => ?_, fun _ _ => rfl, fun i hi => ?_⟩
    · show (st.cur.erase (Handle.timeout s)).count _ = _
      rw [count_erase_timeout, if_neg (by simpa using Ne.symm hi)]
    · rw [runMid_scopes, upd_other _ _ _ _ hi]; exact SEq.refl _
  have hcomp : Comp (runMid st s) s [] 0 { st.scopes s with timer := false } := by
    refine ⟨htm0, ?_, hs.ready, by rw [runMid_scopes, upd_same]; exact SEq.refl _⟩
    show (st.cur.erase (Handle.timeout s)).count _ = _
    rw [count_erase_timeout, if_pos rfl, hcu]
  have htl : ((runMid st s).scopes s).timer = false := by rw [runMid_scopes, upd_same]
  obtain ⟨hl2, hc2⟩ := arm_cases hcomp htl
  have hnow : (runMid st s).now = st.now := rfl
  rw [hnow] at hc2
  refine TLoc.tevo_comp (hloc.trans hl2) (fun _ => ?_) hi
  have hbd := hs.bd
  have hdf := hs.dflt
  rw [show ({ st.scopes s with timer := false } : Scope).deadline = some d from hd] at hc2
  dsimp only at hc2
  rw [if_neg (by omega)] at hc2
  cases hcc : (st.scopes s).cancelCalled with
  | true =>
    rw [show ({ st.scopes s with timer := false } : Scope).cancelCalled = true from hcc] at hc2
    simp only [if_true] at hc2
    refine ⟨_, _, _, hc2, ?_, ?_⟩
    · apply SInv.idle <;> simp_all
    · constructor <;> simp_all
  | false =>
    rw [show ({ st.scopes s with timer := false } : Scope).cancelCalled = false from hcc] at hc2
    simp only [Bool.false_eq_true, if_false] at hc2
    refine ⟨_, _, _, hc2, ?_, ?_⟩
    · apply SInv.idle <;> simp_all
    · constructor <;> simp_all

/-! ### a loop cycle begins -/

theorem tinv_beginCycle {st st' : State} {now : Nat} {o : Out} (hi : TInv st)
    (h : step st (.beginCycle now) = some (st', o)) : TInv st' := by
  simp only [step] at h
  split at h
  · cases h
  · rename_i hg
    have hcur : st.cur = [] := by
      apply Classical.byContradiction; intro hc; exact hg (.inr (.inl hc))
    have hnow : st.now ≤ now := by
      apply Classical.byContradiction; intro hc; exact hg (.inr (.inr (by omega)))
    simp only [Option.some.injEq, Prod.mk.injEq] at h
    obtain ⟨rfl, _⟩ := h
    intro i
    obtain ⟨h1, h2, h3, h4, h5, h6, h7, h8, h9⟩ := hi i
    rw [hcur] at h2
    simp only [List.count_nil, Nat.add_zero] at h2
    have e1 : tmL (st.timers.filter (fun p => decide ¬ p.1 ≤ now)) i =
        (tmL st.timers i).filter (fun w => decide ¬ w ≤ now) :=
      tmL_filter_time st.timers (fun w => decide ¬ w ≤ now) i
    have e2 : (st.ready ++ dueTimers { st with now := now, cycle := st.cycle + 1 }).count
        (Handle.timeout i) = ((tmL st.timers i).filter (fun w => decide (w ≤ now))).length := by
      rw [List.count_append, h1, Nat.zero_add]
      unfold dueTimers
      rw [count_map_snd]
      exact congrArg List.length (tmL_filter_time st.timers (fun w => decide (w ≤ now)) i)
    have e3 := filter_length_split (tmL st.timers i) (fun w => decide (w ≤ now))
    have e4 : (fun w => !decide (w ≤ now)) = (fun w => decide ¬ w ≤ now) := by
      funext w; rw [decide_not]
    rw [e4] at e3
    show SInv now st.nScopes i (tmL (st.timers.filter (fun p => decide ¬ p.1 ≤ now)) i)
      ((st.ready ++ dueTimers { st with now := now, cycle := st.cycle + 1 }).count
        (Handle.timeout i)) (([] : List Handle).count (Handle.timeout i)) (st.scopes i)
    rw [e1, e2]
    constructor
    · simp
    · rw [← h2]; omega
    · intro w hw
      have := List.mem_filter.1 hw
      have h3' := h3 w this.1
      have : ¬ w ≤ now := by simpa using this.2
      exact ⟨h3'.1, by omega⟩
    · intro hpos
      obtain ⟨w, hw⟩ := List.exists_mem_of_length_pos hpos
      have := List.mem_filter.1 hw
      exact ⟨w, (h3 w this.1).1, by simpa using this.2⟩
    · exact h5
    · exact h6
    · exact h7
    · intro hb
      have := h8 hb
      exact ⟨this.1, this.2.1, by omega⟩
    · exact h9

end AnyioModel.Kernel
