/-
Delivery of cancellation, part 17: composition over runs.

`Along P st es`: `P` holds in every state the event list `es` passes through from `st`.
`nCycles es`: the number of `beginCycle` events of `es`.
`Reached o c t f st`: task `t` is blocked on `f` in scope `c`, and `c` is reached by the delivery of
the active cancelled scope `o`.

`reached_at_most_one_cycle`: along a run from a reachable state on which `Reached o c t f` holds
throughout, at most one new loop cycle begins.  The `deliver o` callback that the liveness invariant
keeps scheduled sits in the batch of the current cycle or of the next one; it cannot leave a batch
unless it is run (`step_keeps_deliver`), a new cycle cannot begin before the batch is empty, and
running it wakes `t`.
-/
import AnyioModel.Kernel.DeliverInv10
import AnyioModel.Kernel.DeliverInv16

namespace AnyioModel.Kernel

/-- `P` holds in every state of the run of `es` from `st` -/
def Along (P : State → Prop) : State → List Ev → Prop
  | st, [] => P st
  | st, e :: es => P st ∧ ∀ st' out, step st e = some (st', out) → Along P st' es

/-- number of loop cycles that begin in `es` -/
def nCycles : List Ev → Nat
  | [] => 0
  | .beginCycle _ :: es => nCycles es + 1
  | _ :: es => nCycles es

theorem Along.head {P : State → Prop} {st : State} {es : List Ev} (h : Along P st es) : P st := by
  cases es with
  | nil => exact h
  | cons e es => exact h.1

/-- `Along` fails iff some prefix of the run ends in a state where `P` fails -/
theorem not_along_iff {P : State → Prop} {st st' : State} {es : List Ev}
    (hrun : runFrom step st es = some st') :
    ¬ Along P st es ↔ ∃ es1 es2 st1, es = es1 ++ es2 ∧ runFrom step st es1 = some st1 ∧ ¬ P st1 := by
  induction es generalizing st with
  | nil =>
    constructor
    · intro h; exact ⟨[], [], st, rfl, rfl, h⟩
    · rintro ⟨es1, es2, st1, he, hr, hp⟩
      have : es1 = [] := by
        cases es1 with
        | nil => rfl
        | cons a l => simp at he
      subst this
      simp only [runFrom, Option.some.injEq] at hr
      subst hr; exact hp
  | cons e es ih =>
    simp only [runFrom] at hrun
    split at hrun
    · contradiction
    · rename_i s1 o1 hs
      constructor
      · intro h
        by_cases hp : P st
        · have : ¬ Along P s1 es := by
            intro ha
            apply h
            refine ⟨hp, ?_⟩
            intro st'' out hs'
            rw [hs] at hs'
            simp only [Option.some.injEq, Prod.mk.injEq] at hs'
            rw [← hs'.1]; exact ha
          obtain ⟨es1, es2, st1, he, hr, hn⟩ := (ih hrun).mp this
          refine ⟨e :: es1, es2, st1, by rw [he]; rfl, ?_, hn⟩
          simp only [runFrom, hs]; exact hr
        · exact ⟨[], e :: es, st, rfl, rfl, hp⟩
      · rintro ⟨es1, es2, st1, he, hr, hn⟩ ha
        cases es1 with
        | nil =>
          simp only [runFrom, Option.some.injEq] at hr
          subst hr; exact hn ha.1
        | cons a l =>
          simp only [List.cons_append, List.cons.injEq] at he
          obtain ⟨rfl, rfl⟩ := he
          simp only [runFrom, hs] at hr
          have hrun' : runFrom step s1 (l ++ es2) = some st' := hrun
          exact (ih hrun').mpr ⟨l, es2, st1, rfl, hr, hn⟩ (ha.2 s1 o1 hs)

/-- `t` is blocked on `f` in scope `c`, which the delivery of the active cancelled scope `o`
reaches -/
def Reached (o c t f : Nat) (st : State) : Prop :=
  (st.tasks t).st = .blocked f ∧ t ∈ (st.scopes c).tasks ∧ (st.scopes o).active = true ∧
    (st.scopes o).cancelCalled = true ∧ reachDown st o c

/-- running the delivery of `o` ends `Reached o c t f` -/
theorem reached_deliver_wakes {st st' : State} {o c t f : Nat} {out : Out} (hr : Reach st)
    (h : Reached o c t f st) (hs : step st (.run (.deliver o)) = some (st', out)) :
    (st'.tasks t).st = .woken f ∧ st'.futs f = .cancelled true ∧ Handle.wakeup t ∈ st'.ready := by
  obtain ⟨hb, ht, _, _, hrd⟩ := h
  have w := wf_reach hr
  have d := di_reach hr
  have hm := (dbn_reach hr).2.1 t f hb
  have hd : (st.tasks t).st ≠ .done := by rw [hb]; simp
  have hrun : st.running = none := by
    simp only [step] at hs
    split at hs
    · contradiction
    · rename_i hg
      cases hx : st.running with
      | none => rfl
      | some u => exact absurd (.inl (by simp [hx])) hg
  have hh : hitSet st o t := by
    refine ⟨c, hrd, ht, (hitCancels_iff st c t).mpr ⟨hd, hm, by rw [hrun]; simp, .inr ?_, ?_⟩⟩
    · rw [hb]; simp
    · intro g; rw [hb]; simp
  simp only [step] at hs
  split at hs
  · contradiction
  · simp only [Option.some.injEq, Prod.mk.injEq] at hs
    obtain ⟨rfl, _⟩ := hs
    have w1 : WF { st with cur := st.cur.erase (.deliver o) } :=
      wf_shrinkCur w _ (fun y hy => List.mem_of_mem_erase hy)
    have b1 : BW { st with cur := st.cur.erase (.deliver o) } := d.bw
    have r := (deliver_task w1.tree b1 o t).1
      (hitSet_congr (a := st) (b := { st with cur := st.cur.erase (.deliver o) }) rfl rfl rfl hh)
    obtain ⟨a1, a2, a3, _⟩ := r.blocked f hb
    exact ⟨a1, a2, a3⟩

/-- with the `deliver o` callback in the current batch, no new cycle begins while `Reached` holds -/
theorem reached_no_cycle {o c t f : Nat} :
    ∀ (es : List Ev) (st st' : State), Reach st → runFrom step st es = some st' →
      Along (Reached o c t f) st es → Handle.deliver o ∈ st.cur → nCycles es = 0 := by
  intro es
  induction es with
  | nil => intros; rfl
  | cons e es ih =>
    intro st st' hr hrun ha hc
    simp only [runFrom] at hrun
    split at hrun
    · contradiction
    · rename_i s1 o1 hs
      have ha1 := ha.2 s1 o1 hs
      have hr1 : Reach s1 := Reachable.next hr hs
      by_cases he : e = .run (.deliver o)
      · subst he
        have := (reached_deliver_wakes hr ha.1 hs).1
        rw [ha1.head.1] at this; cases this
      · have hk := step_keeps_deliver hr hs hc he
        cases e with
        | beginCycle now =>
          have := (show st.cur = [] from by
            simp only [step] at hs
            split at hs
            · contradiction
            · rename_i hg
              cases hx : st.cur with
              | nil => rfl
              | cons a l => exact absurd (.inr (.inl (by simp [hx]))) hg)
          rw [this] at hc; cases hc
        | _ => exact ih s1 st' hr1 hrun ha1 hk

/-- while `Reached o c t f` holds along a run, at most one new cycle begins -/
theorem reached_at_most_one_cycle {o c t f : Nat} :
    ∀ (es : List Ev) (st st' : State), Reach st → runFrom step st es = some st' →
      Along (Reached o c t f) st es → nCycles es ≤ 1 := by
  intro es
  induction es with
  | nil => intros; exact Nat.zero_le _
  | cons e es ih =>
    intro st st' hr hrun ha
    simp only [runFrom] at hrun
    split at hrun
    · contradiction
    · rename_i s1 o1 hs
      have ha1 := ha.2 s1 o1 hs
      have hr1 : Reach s1 := Reachable.next hr hs
      cases e with
      | beginCycle now =>
        obtain ⟨hb, ht, hact, hcc, hrd⟩ := ha.1
        have hd : (st.tasks t).st ≠ .done := by rw [hb]; simp
        have hsched := (di_reach hr).sched o ((di_reach hr).live o hact hcc ⟨c, t, hrd, ht, hd⟩)
        have hcur : Handle.deliver o ∈ s1.cur := by
          simp only [step] at hs
          split at hs
          · contradiction
          · rename_i hg
            have hc : st.cur = [] := by
              cases hx : st.cur with
              | nil => rfl
              | cons a l => exact absurd (.inr (.inl (by simp [hx]))) hg
            simp only [Option.some.injEq, Prod.mk.injEq] at hs
            obtain ⟨rfl, _⟩ := hs
            rw [hc, List.append_nil] at hsched
            exact List.mem_append_left _ hsched
        have := reached_no_cycle es s1 st' hr1 hrun ha1 hcur
        simp only [nCycles, this]; exact Nat.le_refl _
      | _ => exact ih s1 st' hr1 hrun ha1

end AnyioModel.Kernel
