/-
A started child is an ordinary member of its group: helpers for `Props/C07member.lean`.

`clearSF st u` is `st` with the `startFut` field of task `u` erased (`u` as a `start_soon` child).
Nothing of the cancellation machinery (`resolveFut`, `Task.cancel`, `_deliver_cancellation`,
`CancelScope.cancel`) and nothing of the `task_done` callback after its look at the start future
reads that field: each of these functions commutes with `clearSF` (all states, no invariant).
-/
import AnyioModel.Kernel.FutInv6
import AnyioModel.Kernel.PureProofs
import AnyioModel.Kernel.FrameGhost

namespace AnyioModel.Kernel

/-- the task record of a `start_soon` child: no start future -/
def Task.noSF (x : Task) : Task := { x with startFut := none }

/-- `st` with task `u` turned into an ordinary `start_soon` child -/
def clearSF (st : State) (u : Nat) : State := st.setTask u Task.noSF

theorem clearSF_def (st : State) (u : Nat) :
    clearSF st u = st.setTask u (fun x => { x with startFut := none }) := rfl

/-- a proof by `rfl` that `simp` does not treat as a `dsimp` lemma (a `dsimp` rewrite of the
condition of an `if` leaves its `Decidable` instance behind, and `split` then fails) -/
theorem nonrfl {α : Sort _} {a b : α} (h : a = b) : a = b := h

section
variable (st : State) (u : Nat)

@[simp] theorem clearSF_scopes : (clearSF st u).scopes = st.scopes := nonrfl rfl
@[simp] theorem clearSF_groups : (clearSF st u).groups = st.groups := nonrfl rfl
@[simp] theorem clearSF_futs : (clearSF st u).futs = st.futs := nonrfl rfl
@[simp] theorem clearSF_futWaiter : (clearSF st u).futWaiter = st.futWaiter := nonrfl rfl
@[simp] theorem clearSF_userFut : (clearSF st u).userFut = st.userFut := nonrfl rfl
@[simp] theorem clearSF_ready : (clearSF st u).ready = st.ready := nonrfl rfl
@[simp] theorem clearSF_cur : (clearSF st u).cur = st.cur := nonrfl rfl
@[simp] theorem clearSF_timers : (clearSF st u).timers = st.timers := nonrfl rfl
@[simp] theorem clearSF_running : (clearSF st u).running = st.running := nonrfl rfl
@[simp] theorem clearSF_now : (clearSF st u).now = st.now := nonrfl rfl
@[simp] theorem clearSF_cycle : (clearSF st u).cycle = st.cycle := nonrfl rfl
@[simp] theorem clearSF_nTasks : (clearSF st u).nTasks = st.nTasks := nonrfl rfl
@[simp] theorem clearSF_nScopes : (clearSF st u).nScopes = st.nScopes := nonrfl rfl
@[simp] theorem clearSF_nFuts : (clearSF st u).nFuts = st.nFuts := nonrfl rfl
@[simp] theorem clearSF_nGroups : (clearSF st u).nGroups = st.nGroups := nonrfl rfl

theorem clearSF_tasks (t : Nat) :
    (clearSF st u).tasks t = if t = u then (st.tasks t).noSF else st.tasks t := by
  by_cases h : t = u
  · subst h; simp [clearSF]
  · simp [clearSF, h]

@[simp] theorem clearSF_tasks_self : (clearSF st u).tasks u = (st.tasks u).noSF := by
  simp [clearSF_tasks]

theorem clearSF_tasks_other {t : Nat} (h : t ≠ u) : (clearSF st u).tasks t = st.tasks t := by
  simp [clearSF_tasks, h]

/-- every field of every task but `startFut` of `u` is what it was -/
theorem clearSF_task_fields (t : Nat) :
    let x := st.tasks t
    let y := (clearSF st u).tasks t
    y.st = x.st ∧ y.mustCancel = x.mustCancel ∧ y.mcAnyio = x.mcAnyio ∧ y.ncancel = x.ncancel ∧
    y.hasState = x.hasState ∧ y.scope = x.scope ∧ y.lib = x.lib ∧ y.group = x.group ∧
    y.hscope = x.hscope ∧ y.finished = x.finished ∧ y.hwaiters = x.hwaiters ∧ y.hexc = x.hexc ∧
    y.outcome = x.outcome ∧ y.doneCbRun = x.doneCbRun ∧ y.nNative = x.nNative ∧
    y.nAnyio = x.nAnyio ∧ y.nUncancel = x.nUncancel ∧ y.nUserUncancel = x.nUserUncancel ∧
    y.nOwn = x.nOwn ∧ y.nForeign = x.nForeign ∧ y.nDropped = x.nDropped ∧
    (t ≠ u → y.startFut = x.startFut) := by
  simp only [clearSF_tasks]
  split
  · simp [Task.noSF, *]
  · simp [*]

@[simp] theorem clearSF_task_st (t : Nat) : ((clearSF st u).tasks t).st = (st.tasks t).st :=
  (clearSF_task_fields st u t).1

@[simp] theorem clearSF_task_mustCancel (t : Nat) :
    ((clearSF st u).tasks t).mustCancel = (st.tasks t).mustCancel :=
  (clearSF_task_fields st u t).2.1

@[simp] theorem clearSF_task_mcAnyio (t : Nat) :
    ((clearSF st u).tasks t).mcAnyio = (st.tasks t).mcAnyio :=
  (clearSF_task_fields st u t).2.2.1

@[simp] theorem clearSF_startFut_self : ((clearSF st u).tasks u).startFut = none := by
  simp [Task.noSF]

theorem clearSF_idem : clearSF (clearSF st u) u = clearSF st u := by
  unfold clearSF State.setTask
  congr 1
  funext i
  simp only [upd]
  split <;> simp [Task.noSF]

/-! ### commutation with the primitive updates -/

theorem clearSF_setTask (t : Nat) (f : Task → Task) (hf : ∀ x, f x.noSF = (f x).noSF) :
    (clearSF st u).setTask t f = clearSF (st.setTask t f) u := by
  unfold clearSF State.setTask
  congr 1
  funext i
  simp only [upd]
  by_cases hit : i = t <;> by_cases hiu : i = u <;> by_cases htu : t = u <;>
    simp_all

theorem clearSF_setScope (s : Nat) (f : Scope → Scope) :
    (clearSF st u).setScope s f = clearSF (st.setScope s f) u := nonrfl rfl

theorem clearSF_setGroup (g : Nat) (f : Group → Group) :
    (clearSF st u).setGroup g f = clearSF (st.setGroup g f) u := nonrfl rfl

theorem clearSF_setFut (f : Nat) (v : FutSt) :
    (clearSF st u).setFut f v = clearSF (st.setFut f v) u := nonrfl rfl

theorem clearSF_schedule (h : Handle) :
    (clearSF st u).schedule h = clearSF (st.schedule h) u := nonrfl rfl

theorem clearSF_unschedule (h : Handle) :
    (clearSF st u).unschedule h = clearSF (st.unschedule h) u := nonrfl rfl

theorem clearSF_setCur (c : List Handle) :
    { clearSF st u with cur := c } = clearSF { st with cur := c } u := nonrfl rfl

/-! ### the cancellation machinery does not read `startFut` -/

theorem clearSF_resolveFut (f : Nat) (v : FutSt) :
    resolveFut (clearSF st u) f v = clearSF (resolveFut st f v) u := by
  unfold resolveFut
  simp only [clearSF_futs, clearSF_setFut, clearSF_futWaiter, setFut_futWaiter, clearSF_task_st]
  split
  · rfl
  · split
    · split
      · rw [clearSF_setTask, clearSF_schedule]
        exact fun x => rfl
      · rfl
    · rfl

theorem clearSF_taskCancel (t : Nat) (a : Bool) :
    taskCancel (clearSF st u) t a = clearSF (taskCancel st t a) u := by
  unfold taskCancel
  simp only [clearSF_task_st]
  split
  · rfl
  · rw [clearSF_setTask _ _ _ _ ?hf]
    case hf => exact fun x => rfl
    split
    · rw [clearSF_resolveFut]
    · rw [clearSF_setTask]
      exact fun x => rfl

end

/-- `clearSF` on the state component of the accumulator of the delivery loops -/
def cpSF (u : Nat) (p : State × Bool) : State × Bool := (clearSF p.1 u, p.2)

@[simp] theorem cpSF_fst (u : Nat) (p : State × Bool) : (cpSF u p).1 = clearSF p.1 u :=
  nonrfl rfl
@[simp] theorem cpSF_snd (u : Nat) (p : State × Bool) : (cpSF u p).2 = p.2 := nonrfl rfl

theorem clearSF_hitTask (u origin s : Nat) (acc : State × Bool) (t : Nat) :
    hitTask origin s (cpSF u acc) t = cpSF u (hitTask origin s acc t) := by
  unfold hitTask
  simp only [cpSF_fst, clearSF_task_st, clearSF_task_mustCancel, clearSF_running, clearSF_scopes]
  split
  · rfl
  · split
    · rfl
    · split
      · split
        · rfl
        · simp only [clearSF_taskCancel, clearSF_scopes]
          split
          · rw [clearSF_setScope, clearSF_setTask]
            · rfl
            · exact fun x => rfl
          · rw [clearSF_setTask]
            · rfl
            · exact fun x => rfl
      · rfl

theorem foldl_cpSF {α : Type} (u : Nat) (f : State × Bool → α → State × Bool)
    (hf : ∀ acc a, f (cpSF u acc) a = cpSF u (f acc a)) (l : List α) (acc : State × Bool) :
    l.foldl f (cpSF u acc) = cpSF u (l.foldl f acc) := by
  induction l generalizing acc with
  | nil => rfl
  | cons a l ih => simp only [List.foldl_cons, hf, ih]

theorem clearSF_deliverGo (u : Nat) (fuel : Nat) (st : State) (origin s : Nat) :
    deliverGo fuel (clearSF st u) origin s = cpSF u (deliverGo fuel st origin s) := by
  induction fuel generalizing st s with
  | zero => rfl
  | succ fuel ih =>
    simp only [deliverGo, clearSF_scopes]
    have h1 : (st.scopes s).tasks.foldl (hitTask origin s) (clearSF st u, false) =
        cpSF u ((st.scopes s).tasks.foldl (hitTask origin s) (st, false)) :=
      foldl_cpSF u _ (clearSF_hitTask u origin s) _ (st, false)
    rw [h1]
    refine foldl_cpSF u _ ?_ _ _
    intro acc c
    simp only [cpSF_fst, cpSF_snd, clearSF_scopes, ih]
    split <;> rfl

theorem clearSF_deliver (st : State) (u origin : Nat) :
    deliver (clearSF st u) origin = clearSF (deliver st origin) u := by
  unfold deliver
  simp only [clearSF_nScopes, clearSF_deliverGo, cpSF_fst, cpSF_snd]
  split
  · rw [clearSF_setScope, clearSF_schedule]
  · rw [clearSF_setScope]

theorem clearSF_cancelScope (st : State) (u s : Nat) (b : Bool) :
    cancelScope (clearSF st u) s b = clearSF (cancelScope st s b) u := by
  unfold cancelScope
  simp only [clearSF_scopes]
  split
  · rfl
  · split
    · simp only [clearSF_unschedule, clearSF_setScope, clearSF_now, clearSF_scopes,
        clearSF_deliver]
      split <;> rfl
    · simp only [clearSF_setScope, clearSF_now, clearSF_scopes, clearSF_deliver]
      split <;> rfl

theorem effCancelled_clearSF (st : State) (u s : Nat) :
    effCancelled (clearSF st u) s = effCancelled st s :=
  effCancelled_congr (st := st) (st' := clearSF st u) (SameWalk.of_scopes_eq rfl).nav s

/-! ### `task_done` -/

theorem clearSF_taskDoneCore (st : State) (u g sc : Nat) :
    taskDoneCore (clearSF st u) u g sc = clearSF (taskDoneCore st u g sc) u := by
  unfold taskDoneCore
  rw [clearSF_setScope, clearSF_setGroup, clearSF_setTask]
  exact fun x => rfl

theorem clearSF_taskDoneMid (st : State) (u g : Nat) :
    taskDoneMid (clearSF st u) g = clearSF (taskDoneMid st g) u := by
  unfold taskDoneMid
  simp only [clearSF_groups]
  split
  · split
    · rw [clearSF_resolveFut]
    · rfl
  · rfl

/-- the `start_soon` branch of the end of `task_done` does not depend on the child's `startFut` -/
theorem clearSF_taskDoneTail_none (st : State) (w g u : Nat) (o : Outcome) :
    taskDoneTail (clearSF st w) g u o none = (taskDoneTail st g u o none).map (clearSF · w) := by
  cases o with
  | none => rfl
  | one e =>
    simp only [taskDoneTail, clearSF_groups, Option.map_some]
    split
    · simp only [effCancelled_clearSF, clearSF_cancelScope]
      split <;> rfl
    · simp only [clearSF_setGroup, effCancelled_clearSF, clearSF_cancelScope]
      split <;> rfl
  | group es =>
    simp only [taskDoneTail, clearSF_groups, Option.map_some]
    split
    · simp only [effCancelled_clearSF, clearSF_cancelScope]
      split <;> rfl
    · simp only [clearSF_setGroup, effCancelled_clearSF, clearSF_cancelScope]
      split <;> rfl

/-- a start future that is done and not cancelled (it has a result: the handshake is complete; or
an exception) sends the end of `task_done` down the `start_soon` branch -/
theorem taskDoneTail_handshake_over (st : State) (g u sf : Nat) (o : Outcome)
    (hd : (st.futs sf).done = true) (hc : (st.futs sf).isCancelled = false) :
    taskDoneTail st g u o (some sf) = taskDoneTail st g u o none := by
  cases hf : st.futs sf with
  | pending => rw [hf] at hd; cases hd
  | cancelled a => rw [hf] at hc; cases hc
  | result => cases o <;> simp [taskDoneTail, hf, FutSt.done]
  | failed x => cases o <;> simp [taskDoneTail, hf, FutSt.done]

/-- a future that is done is left alone by the bookkeeping part of `task_done` -/
theorem taskDoneMid_futs_done (st : State) (u g sc sf : Nat) (hd : (st.futs sf).done = true) :
    (taskDoneMid (taskDoneCore st u g sc) g).futs sf = st.futs sf := by
  unfold taskDoneMid
  split
  · split
    · rw [rf_futs]
      split
      · rename_i h
        obtain ⟨rfl, h2⟩ := h
        have : ((taskDoneCore st u g sc).futs sf) = st.futs sf := rfl
        rw [this, hd] at h2; cases h2
      · rfl
    · rfl
  · rfl

/-! ### the callback of a child whose handshake is over -/

/-- the start future of `u`, if it has one, is done and not cancelled: it has a result (the child
called `started()`), or -- in junk states only -- an exception -/
def HandshakeOver (st : State) (u : Nat) : Prop :=
  ∀ sf, (st.tasks u).startFut = some sf →
    (st.futs sf).done = true ∧ (st.futs sf).isCancelled = false

/-- `u` is an ordinary member of its group: it was spawned by `start_soon()`, or by `start()` and
the handshake is complete (the start future holds the value passed to `started()`) -/
def Member (st : State) (u : Nat) : Prop :=
  ∀ sf, (st.tasks u).startFut = some sf → st.futs sf = .result

theorem Member.over {st : State} {u : Nat} (h : Member st u) : HandshakeOver st u := by
  intro sf hsf; rw [h sf hsf]; exact ⟨rfl, rfl⟩

theorem member_of_none {st : State} {u : Nat} (h : (st.tasks u).startFut = none) : Member st u := by
  intro sf hsf; rw [h] at hsf; cases hsf

theorem member_of_result {st : State} {u sf : Nat} (h : (st.tasks u).startFut = some sf)
    (hr : st.futs sf = .result) : Member st u := by
  intro sf' hsf; rw [h] at hsf; cases hsf; exact hr

theorem member_clearSF (st : State) (u : Nat) : Member (clearSF st u) u :=
  member_of_none (clearSF_startFut_self st u)

/-- what `task_done` does with the outcome of an ordinary member (the `start_soon` branch) -/
def memberTail (M : State) (g u : Nat) (o : Outcome) : State :=
  if o = .none then M else
  let R := if o.isCancelledError then M else routeErr M g u o
  if effCancelled R (M.groups g).scope then R else cancelScope R (M.groups g).scope false

theorem taskDoneTail_none_eq (M : State) (g u : Nat) (o : Outcome) :
    taskDoneTail M g u o none = some (memberTail M g u o) := by
  by_cases ho : o = .none
  · subst ho; rfl
  · rw [taskDoneTail_err M g u o none ho]
    simp [taskDoneTailErr, memberTail, ho]

/-- for a child whose handshake is over the callback runs the `start_soon` branch -/
theorem runTaskDone_handshake_over {st : State} {u : Nat} (hm : HandshakeOver st u) :
    runTaskDone st u =
      match (st.tasks u).group, (st.tasks u).scope, (st.tasks u).outcome with
      | some g, some sc, some o =>
        some (memberTail (taskDoneMid (taskDoneCore st u g sc) g) g u o)
      | _, _, _ => none := by
  rw [runTaskDone_eq']
  cases hg : (st.tasks u).group <;> cases hsc : (st.tasks u).scope <;>
    cases ho : (st.tasks u).outcome <;> try rfl
  rename_i g sc o
  show taskDoneTail _ g u o _ = some _
  cases hsf : (st.tasks u).startFut with
  | none => exact taskDoneTail_none_eq _ _ _ _
  | some sf =>
    obtain ⟨hd, hc⟩ := hm sf hsf
    have hM := taskDoneMid_futs_done st u g sc sf hd
    rw [taskDoneTail_handshake_over _ g u sf o (by rw [hM]; exact hd) (by rw [hM]; exact hc)]
    exact taskDoneTail_none_eq _ _ _ _

/-- **the callback does not look at a completed handshake**: erasing the start future of a child
whose handshake is over commutes with `task_done` -/
theorem runTaskDone_clearSF {st : State} {u : Nat} (hm : HandshakeOver st u) :
    runTaskDone (clearSF st u) u = (runTaskDone st u).map (clearSF · u) := by
  rw [runTaskDone_handshake_over hm, runTaskDone_handshake_over (member_clearSF st u).over]
  have e1 : ((clearSF st u).tasks u).group = (st.tasks u).group :=
    (clearSF_task_fields st u u).2.2.2.2.2.2.2.1
  have e2 : ((clearSF st u).tasks u).scope = (st.tasks u).scope :=
    (clearSF_task_fields st u u).2.2.2.2.2.1
  have e3 : ((clearSF st u).tasks u).outcome = (st.tasks u).outcome :=
    (clearSF_task_fields st u u).2.2.2.2.2.2.2.2.2.2.2.2.1
  rw [e1, e2, e3]
  cases hg : (st.tasks u).group <;> cases hsc : (st.tasks u).scope <;>
    cases ho : (st.tasks u).outcome <;> try rfl
  rename_i g sc o
  show some _ = Option.map _ (some _)
  simp only [Option.map_some, Option.some.injEq]
  have h := clearSF_taskDoneTail_none (taskDoneMid (taskDoneCore st u g sc) g) u g u o
  rw [taskDoneTail_none_eq, taskDoneTail_none_eq, Option.map_some, Option.some.injEq] at h
  rw [clearSF_taskDoneCore, clearSF_taskDoneMid]
  exact h

/-! ### the state after the bookkeeping part of `task_done`, relative to the state before -/

theorem taskDoneMid_groups (st : State) (g : Nat) : (taskDoneMid st g).groups = st.groups := by
  unfold taskDoneMid
  split
  · split
    · exact (frame_resolveFut _ _ _).groups
    · rfl
  · rfl

theorem taskDoneMid_scopes (st : State) (g : Nat) : (taskDoneMid st g).scopes = st.scopes := by
  unfold taskDoneMid
  split
  · split
    · exact resolveFut_scopes _ _ _
    · rfl
  · rfl

theorem taskDoneCore_group_self (st : State) (u g sc : Nat) :
    (taskDoneCore st u g sc).groups g =
      { st.groups g with tasks := (st.groups g).tasks.erase u } := by
  simp [taskDoneCore]

theorem taskDoneCore_group_other (st : State) (u g sc : Nat) {g' : Nat} (h : g' ≠ g) :
    (taskDoneCore st u g sc).groups g' = st.groups g' := by
  simp [taskDoneCore, h]

/-- the scopes after the bookkeeping: only the task list of the child's scope has changed -/
theorem taskDoneCore_scope (st : State) (u g sc x : Nat) :
    (taskDoneCore st u g sc).scopes x =
      if x = sc then { st.scopes x with tasks := (st.scopes x).tasks.erase u } else st.scopes x := by
  by_cases h : x = sc
  · subst h; simp [taskDoneCore]
  · simp [taskDoneCore, h]

theorem taskDoneCore_sameNav (st : State) (u g sc : Nat) :
    SameNav st (taskDoneCore st u g sc) := by
  intro x
  rw [taskDoneCore_scope]
  split <;> rfl

theorem memberMid_sameNav (st : State) (u g sc : Nat) :
    SameNav st (taskDoneMid (taskDoneCore st u g sc) g) := by
  intro x
  rw [taskDoneMid_scopes]
  exact taskDoneCore_sameNav st u g sc x

theorem memberMid_cancelCalled (st : State) (u g sc x : Nat) :
    ((taskDoneMid (taskDoneCore st u g sc) g).scopes x).cancelCalled =
      (st.scopes x).cancelCalled := by
  rw [taskDoneMid_scopes, taskDoneCore_scope]
  split <;> rfl

/-- the futures after the bookkeeping: the group's `_on_completed_fut` has been given a result if
the child was the last one (and the future was still pending), nothing else -/
theorem memberMid_futs (st : State) (u g sc f : Nat) :
    (taskDoneMid (taskDoneCore st u g sc) g).futs f =
      if (st.groups g).onCompleted = some f ∧ (st.groups g).tasks.erase u = [] ∧
          (st.futs f).done = false then .result else st.futs f := by
  unfold taskDoneMid
  rw [taskDoneCore_group_self]
  simp only []
  have hf : (taskDoneCore st u g sc).futs = st.futs := rfl
  split
  · rename_i f0 hf0
    split
    · rename_i he
      rw [rf_futs, hf]
      by_cases hff : f = f0
      · subst hff; simp [hf0, he]
      · have : ¬ (some f0 = some f) := by simpa using fun h => hff h.symm
        simp [hff, hf0, this]
    · rename_i he
      rw [hf]; simp [he]
  · rename_i hn
    rw [hf]; simp [hn]

/-- the end of the callback of a member: an update `X` of the group record only, possibly followed
by `cancel()` on the group scope -/
theorem memberTail_cases (M : State) (g u : Nat) (o : Outcome) :
    ∃ X : State, X.futs = M.futs ∧ X.tasks = M.tasks ∧ X.scopes = M.scopes ∧
      (X.groups = M.groups ∨ X.groups = (routeErr M g u o).groups) ∧
      (memberTail M g u o = X ∨ memberTail M g u o = cancelScope X (M.groups g).scope false) := by
  unfold memberTail
  by_cases ho : o = .none
  · exact ⟨M, rfl, rfl, rfl, .inl rfl, .inl (by simp [ho])⟩
  · by_cases hc : o.isCancelledError = true
    · refine ⟨M, rfl, rfl, rfl, .inl rfl, ?_⟩
      simp only [ho, if_false, hc, if_true]
      split
      · exact .inl rfl
      · exact .inr rfl
    · refine ⟨routeErr M g u o, rfl, rfl, rfl, .inr rfl, ?_⟩
      have hc' : o.isCancelledError = false := by simpa using hc
      simp only [ho, if_false, hc', Bool.false_eq_true]
      split
      · exact .inl rfl
      · exact .inr rfl

/-- the loop transition that runs a `task_done` callback -/
theorem step_taskDone_eq (st : State) (u : Nat) :
    step st (.run (.taskDone u)) =
      if st.running.isSome ∨ Handle.taskDone u ∉ st.cur then none
      else (runTaskDone { st with cur := st.cur.erase (.taskDone u) } u).map (fun s => (s, Out.none)) := by
  simp only [step]
  split
  · rfl
  · cases runTaskDone { st with cur := st.cur.erase (.taskDone u) } u <;> rfl

/-! ### where an exception in a future comes from

`NF a b`: no future holds an exception in `b` that it did not hold in `a`.  Every transition
but `task_done` is an `NF`; `task_done` of `u` stores an exception only in the start future of
`u`.  Consequence (`failed_start_future_cb_run`): in a reachable state a start future holds an
exception only after the callback of its child has run -- the callback never SEES such a
future. -/

def NF (a b : State) : Prop := ∀ f x, b.futs f = .failed x → a.futs f = .failed x

theorem NF.refl (a : State) : NF a a := fun _ _ h => h

theorem NF.trans {a b c : State} (h1 : NF a b) (h2 : NF b c) : NF a c :=
  fun f x h => h1 f x (h2 f x h)

theorem NF.apply {a b : State} (n : NF a b) {f : Nat} {x : ExcVal} (hf : b.futs f = .failed x) :
    a.futs f = .failed x := n f x hf

theorem NF.of_futs {a b : State} (h : b.futs = a.futs) : NF a b := fun f x hf => by
  rw [← h]; exact hf

theorem NF.of_fsame {a b : State} (s : FSame a b) : NF a b := by
  intro f x hf
  rcases s.futs f with e | ⟨_, ⟨an, hc⟩, _⟩
  · rw [← e]; exact hf
  · rw [hc] at hf; cases hf

theorem nf_setTask (x : State) (t : Nat) (F : Task → Task) : NF x (x.setTask t F) := NF.of_futs rfl
theorem nf_setGroup (x : State) (g : Nat) (F : Group → Group) : NF x (x.setGroup g F) :=
  NF.of_futs rfl
theorem nf_setScope (x : State) (s : Nat) (F : Scope → Scope) : NF x (x.setScope s F) :=
  NF.of_futs rfl
theorem nf_schedule (x : State) (h : Handle) : NF x (x.schedule h) := NF.of_futs rfl
theorem nf_unschedule (x : State) (h : Handle) : NF x (x.unschedule h) := NF.of_futs rfl
theorem nf_newScope (x : State) (sh : Bool) (d : Option Nat) : NF x (newScope x sh d).1 :=
  NF.of_futs rfl
theorem nf_setRunning (x : State) (r : Option Nat) : NF x { x with running := r } := NF.of_futs rfl
theorem nf_setCur (x : State) (c : List Handle) : NF x { x with cur := c } := NF.of_futs rfl
theorem nf_setTimers (x : State) (c : List (Nat × Handle)) : NF x { x with timers := c } :=
  NF.of_futs rfl
theorem nf_setUserFut (x : State) (c : Nat → Bool) : NF x { x with userFut := c } := NF.of_futs rfl
theorem nf_doYield (x : State) (t : Nat) : NF x (doYield x t) := NF.of_futs rfl
theorem nf_cancelScope (x : State) (s : Nat) (b : Bool) : NF x (cancelScope x s b) :=
  NF.of_fsame (FSame.of_xc (xc_cancelScope x s b))
theorem nf_enterScope {st st' : State} {t s : Nat} (he : enterScope st t s = some st') :
    NF st st' := NF.of_fsame (fsame_enterScope he)
theorem nf_exitScope {st st' : State} {t s : Nat} {ev : ExcVal} {r : ExitResult}
    (he : exitScope st t s ev = some (st', r)) : NF st st' := NF.of_fsame (fsame_exitScope he)

theorem nf_resolveFut (x : State) (f : Nat) (v : FutSt) (hv : ∀ e, v ≠ .failed e) :
    NF x (resolveFut x f v) := by
  intro f' e hf
  rw [rf_futs] at hf
  split at hf
  · exact absurd hf (hv e)
  · exact hf

theorem nf_foldl_resolveFut (x : State) (l : List Nat) (v : FutSt) (hv : ∀ e, v ≠ .failed e) :
    NF x (l.foldl (fun st f => resolveFut st f v) x) := by
  induction l generalizing x with
  | nil => exact NF.refl _
  | cons a l ih => exact (nf_resolveFut x a v hv).trans (ih _)

theorem nf_newFut (x : State) : NF x (newFut x).1 := by
  intro f e hf
  by_cases h : f = x.nFuts
  · subst h; simp [newFut] at hf
  · simpa [newFut, h] using hf

theorem nf_blockOn (x : State) (t f : Nat) : NF x (blockOn x t f) := by
  unfold blockOn
  simp only []
  split
  · refine NF.trans ?_ (nf_resolveFut _ _ _ (by intro e h; cases h))
    exact NF.of_futs rfl
  · exact NF.of_futs rfl

/-- peel one layer off the later state -/
macro "nf1" : tactic => `(tactic| first
  | exact NF.refl _
  | assumption
  | refine NF.trans ?_ (nf_setTask _ _ _)
  | refine NF.trans ?_ (nf_setGroup _ _ _)
  | refine NF.trans ?_ (nf_setScope _ _ _)
  | refine NF.trans ?_ (nf_schedule _ _)
  | refine NF.trans ?_ (nf_unschedule _ _)
  | refine NF.trans ?_ (nf_doYield _ _)
  | refine NF.trans ?_ (nf_cancelScope _ _ _)
  | refine NF.trans ?_ (NF.of_fsame (FSame.of_xc (xc_deliver _ _)))
  | refine NF.trans ?_ (NF.of_fsame (FSame.of_xc (xc_taskCancel _ _ _)))
  | refine NF.trans ?_ (NF.of_fsame (FSame.of_xc (xc_taskUncancel _ _ _)))
  | refine NF.trans ?_ (NF.of_fsame (FSame.of_xc (xc_armTimeout _ _)))
  | refine NF.trans ?_ (NF.of_fsame (FSame.of_xc (xc_setShield _ _ _)))
  | refine NF.trans ?_ (NF.of_fsame (FSame.of_xc (xc_setDeadline _ _ _)))
  | refine NF.trans ?_ (NF.of_fsame (FSame.of_xc (xc_spawnTail _ _)))
  | refine NF.trans ?_ (nf_enterScope ‹_›)
  | refine NF.trans ?_ (nf_exitScope ‹_›))

macro "nf" : tactic => `(tactic| repeat nf1)

theorem nf_aexitFinish {st st' : State} {t g : Nat} {ev : ExcVal} {o : Out}
    (he : aexitFinish st t g ev = some (st', o)) : NF st st' := by
  unfold aexitFinish at he
  simp only [] at he
  split at he
  · contradiction
  · simp only [Option.some.injEq, Prod.mk.injEq] at he
    obtain ⟨rfl, _⟩ := he
    nf

theorem nf_aexitLoop {st st' : State} {t g ws : Nat} {ev : ExcVal} {o : Out}
    (he : aexitLoop st t g ws ev = some (st', o)) : NF st st' := by
  unfold aexitLoop at he
  split at he
  · simp only [Option.some.injEq, Prod.mk.injEq] at he
    obtain ⟨rfl, _⟩ := he
    refine NF.trans ?_ (nf_blockOn _ _ _)
    refine NF.trans ?_ (nf_setTask _ _ _)
    refine NF.trans ?_ (nf_setGroup _ _ _)
    exact nf_newFut _
  · split at he
    · contradiction
    · refine NF.trans ?_ (nf_aexitFinish he)
      nf

theorem nf_aexitAfterChk {st st' : State} {t g : Nat} {ev : ExcVal} {o : Out}
    (he : aexitAfterChk st t g ev = some (st', o)) : NF st st' := by
  unfold aexitAfterChk at he
  split at he
  · simp only [] at he
    split at he
    · contradiction
    · rename_i st1 hen
      exact ((nf_newScope st false none).trans (nf_enterScope hen)).trans (nf_aexitLoop he)
  · exact nf_aexitFinish he

theorem nf_spawn (x : State) (g : Nat) (sf : Option Nat) : NF x (spawn x g sf).1 := by
  rw [spawn_eq]
  simp only []
  refine NF.trans ?_ (NF.of_fsame (FSame.of_xc (xc_spawnTail _ _)))
  exact NF.of_futs rfl

theorem nf_finishTask {st st' : State} {t : Nat} {o : Outcome}
    (he : finishTask st t o = some st') : NF st st' := by
  unfold finishTask at he
  simp only [] at he
  split at he
  · split at he
    · contradiction
    · simp only [Option.some.injEq] at he
      subst he
      refine NF.trans ?_ (nf_schedule _ _)
      refine NF.trans ?_ (nf_setRunning _ _)
      refine NF.trans ?_ (nf_setTask _ _ _)
      refine NF.trans ?_ (nf_exitScope ‹_›)
      refine NF.trans ?_ (nf_setTask _ _ _)
      refine NF.trans ?_ (nf_foldl_resolveFut _ _ _ (by intro e h; cases h))
      exact nf_setTask _ _ _
  · simp only [Option.some.injEq] at he
    subst he
    exact (nf_setTask _ _ _).trans (nf_setRunning _ _)

theorem nf_continueLib {st st' : State} {t : Nat} {r : Resume} {o : Out}
    (he : continueLib st t r = some (st', o)) : NF st st' := by
  unfold continueLib at he
  split at he
  · simp only [Option.some.injEq, Prod.mk.injEq] at he
    obtain ⟨rfl, _⟩ := he; exact NF.refl _
  · split at he <;>
    · simp only [Option.some.injEq, Prod.mk.injEq] at he
      obtain ⟨rfl, _⟩ := he; nf
  · split at he
    · contradiction
    · simp only [Option.some.injEq, Prod.mk.injEq] at he
      obtain ⟨rfl, _⟩ := he; nf
  · simp only [Option.some.injEq, Prod.mk.injEq] at he
    obtain ⟨rfl, _⟩ := he; nf
  · -- aexitChk
    split at he
    · contradiction
    · rename_i st1 x hex
      have s1 := nf_exitScope hex
      split at he
      · exact s1.trans (nf_aexitAfterChk he)
      · split at he
        · exact (s1.trans (nf_cancelScope _ _ _)).trans (nf_aexitAfterChk he)
        · contradiction
  · -- aexitWait
    simp only [] at he
    split at he
    · exact (nf_setGroup _ _ _).trans (nf_aexitLoop he)
    · split at he
      · refine NF.trans ?_ (nf_aexitLoop he)
        nf
      · contradiction
  · -- startWait
    split at he
    · simp only [Option.some.injEq, Prod.mk.injEq] at he
      obtain ⟨rfl, _⟩ := he; nf
    · simp only [] at he
      split at he
      · contradiction
      · rename_i hs hhs
        split at he
        · split at he
          · contradiction
          · rename_i st2 hen
            have s3 : NF st st2 := ((nf_cancelScope st hs false).trans
              (nf_newScope _ true none)).trans (nf_enterScope hen)
            split at he
            · simp only [Option.some.injEq, Prod.mk.injEq] at he
              obtain ⟨rfl, _⟩ := he
              refine NF.trans ?_ (nf_doYield _ _)
              refine NF.trans ?_ (nf_setTask _ _ _)
              exact s3
            · simp only [Option.some.injEq, Prod.mk.injEq] at he
              obtain ⟨rfl, _⟩ := he
              refine NF.trans ?_ (nf_blockOn _ _ _)
              refine NF.trans ?_ (nf_setTask _ _ _)
              refine NF.trans ?_ (nf_newFut _)
              refine NF.trans ?_ (nf_setTask _ _ _)
              exact s3
        · simp only [Option.some.injEq, Prod.mk.injEq] at he
          obtain ⟨rfl, _⟩ := he; nf
  · -- startJoin
    split at he
    · contradiction
    · simp only [] at he
      split at he <;>
      · simp only [Option.some.injEq, Prod.mk.injEq] at he
        obtain ⟨rfl, _⟩ := he; nf

theorem nf_runTask {st st' : State} {t : Nat} {o : Out}
    (he : runTask st t = some (st', o)) : NF st st' := by
  have h0 : NF st { st.setTask t (fun x => { x with st := .running, mustCancel := false }) with
      running := some t } := NF.of_futs rfl
  unfold runTask at he
  simp only [] at he
  split at he
  · split at he
    · split at he
      · contradiction
      · simp only [Option.some.injEq, Prod.mk.injEq] at he
        obtain ⟨rfl, _⟩ := he
        exact h0.trans (nf_enterScope ‹_›)
    · simp only [Option.some.injEq, Prod.mk.injEq] at he
      obtain ⟨rfl, _⟩ := he
      refine NF.trans ?_ (nf_schedule _ _)
      refine NF.trans ?_ (nf_setRunning _ _)
      refine NF.trans ?_ (nf_setTask _ _ _)
      exact h0
  · exact h0.trans (nf_continueLib he)

/-- `task_done` of `u` stores an exception only in the start future of `u` -/
theorem runTaskDone_new_failed {st st' : State} {u : Nat} (he : runTaskDone st u = some st')
    {f : Nat} {x : ExcVal} (hf : st'.futs f = .failed x) :
    st.futs f = .failed x ∨ (st.tasks u).startFut = some f := by
  obtain ⟨g, sc, o, hg, hsc, ho, ht⟩ := runTaskDone_shape he
  have h2 : NF st (taskDoneMid (taskDoneCore st u g sc) g) := by
    refine NF.trans (NF.of_futs (b := taskDoneCore st u g sc) rfl) ?_
    unfold taskDoneMid
    split
    · split
      · exact nf_resolveFut _ _ _ (by intro e h; cases h)
      · exact NF.refl _
    · exact NF.refl _
  generalize taskDoneMid (taskDoneCore st u g sc) g = M at ht h2
  generalize hsfo : (st.tasks u).startFut = sfo at ht
  have key : M.futs f = .failed x ∨ sfo = some f := by
    unfold taskDoneTail at ht
    simp only [] at ht
    repeat' (split at ht)
    all_goals
      simp only [Option.some.injEq] at ht
      subst ht
      first
      | exact .inl hf
      | (rw [rf_futs] at hf
         split at hf
         · rename_i h; right; rw [h.1]
         · exact .inl hf)
      | exact .inl (NF.apply (by nf) hf)
  rcases key with k | k
  · exact .inl (h2 f x k)
  · exact .inr k

macro "nf_leaf" h:ident : tactic => `(tactic| first
  | contradiction
  | (simp only [Option.some.injEq, Prod.mk.injEq] at $h:ident; rcases $h:ident with ⟨h1, _⟩
     subst h1; nf; done))

/-- **where an exception in a future comes from**: the only transition that stores an exception
in a future is `task_done` of a child, in the start future of that child -/
theorem step_new_failed {st st' : State} {e : Ev} {o : Out} (hs : step st e = some (st', o))
    {f : Nat} {x : ExcVal} (hf : st'.futs f = .failed x) :
    st.futs f = .failed x ∨
      ∃ u, e = .run (.taskDone u) ∧ (st.tasks u).startFut = some f := by
  suffices h : NF st st' ∨ ∃ u, e = .run (.taskDone u) ∧
      ∀ f x, st'.futs f = .failed x → st.futs f = .failed x ∨ (st.tasks u).startFut = some f by
    rcases h with h | ⟨u, he, h⟩
    · exact .inl (h f x hf)
    · rcases h f x hf with k | k
      · exact .inl k
      · exact .inr ⟨u, he, k⟩
  cases e with
  | beginCycle now =>
    left
    simp only [step] at hs
    split at hs
    · contradiction
    · simp only [Option.some.injEq, Prod.mk.injEq] at hs
      obtain ⟨rfl, _⟩ := hs
      exact NF.of_futs rfl
  | run h =>
    simp only [step] at hs
    split at hs
    · contradiction
    · have h0 : NF st { st with cur := st.cur.erase h } := nf_setCur _ _
      cases h with
      | step t =>
        left
        simp only [] at hs
        split at hs
        · exact h0.trans (nf_runTask hs)
        · contradiction
      | wakeup t =>
        left
        simp only [] at hs
        split at hs
        · exact h0.trans (nf_runTask hs)
        · contradiction
      | deliver s =>
        left
        simp only [Option.some.injEq, Prod.mk.injEq] at hs
        obtain ⟨rfl, _⟩ := hs
        exact h0.trans (NF.of_fsame (FSame.of_xc (xc_deliver _ _)))
      | timeout s =>
        left
        simp only [Option.some.injEq, Prod.mk.injEq] at hs
        obtain ⟨rfl, _⟩ := hs
        exact (h0.trans (nf_setScope _ _ _)).trans (NF.of_fsame (FSame.of_xc (xc_armTimeout _ _)))
      | sleepDone f0 =>
        left
        simp only [Option.some.injEq, Prod.mk.injEq] at hs
        obtain ⟨rfl, _⟩ := hs
        exact h0.trans (nf_resolveFut _ _ _ (by intro e h; cases h))
      | taskDone u =>
        right
        simp only [] at hs
        split at hs
        · rename_i st1 htd
          simp only [Option.some.injEq, Prod.mk.injEq] at hs
          obtain ⟨rfl, _⟩ := hs
          exact ⟨u, rfl, fun f x hf => runTaskDone_new_failed htd hf⟩
        · contradiction
  | mkScope sh d =>
    left
    simp only [step, Option.some.injEq, Prod.mk.injEq] at hs
    obtain ⟨rfl, _⟩ := hs
    exact nf_newScope _ _ _
  | mkFut =>
    left
    simp only [step, Option.some.injEq, Prod.mk.injEq] at hs
    obtain ⟨rfl, _⟩ := hs
    exact (nf_newFut st).trans (nf_setUserFut _ _)
  | setFut f0 =>
    left
    simp only [step] at hs
    split at hs
    · contradiction
    · simp only [Option.some.injEq, Prod.mk.injEq] at hs
      obtain ⟨rfl, _⟩ := hs
      exact nf_resolveFut _ _ _ (by intro e h; cases h)
  | awaitFut f0 =>
    left
    simp only [step] at hs
    split at hs
    · contradiction
    · split at hs
      · contradiction
      · split at hs
        · split at hs
          · contradiction
          · simp only [Option.some.injEq, Prod.mk.injEq] at hs
            obtain ⟨rfl, _⟩ := hs
            exact nf_blockOn _ _ _
        all_goals
          simp only [Option.some.injEq, Prod.mk.injEq] at hs
          obtain ⟨rfl, _⟩ := hs; exact NF.refl _
  | sleep d =>
    left
    simp only [step] at hs
    split at hs
    · contradiction
    · split at hs
      · contradiction
      · simp only [Option.some.injEq, Prod.mk.injEq] at hs
        obtain ⟨rfl, _⟩ := hs
        refine NF.trans ?_ (nf_blockOn _ _ _)
        refine NF.trans ?_ (nf_setTask _ _ _)
        exact (nf_newFut st).trans (nf_setTimers _ _)
  | shieldedChk =>
    left
    simp only [step] at hs
    split at hs
    · contradiction
    · split at hs
      · contradiction
      · split at hs
        · contradiction
        · rename_i st1 hen
          simp only [Option.some.injEq, Prod.mk.injEq] at hs
          obtain ⟨rfl, _⟩ := hs
          refine NF.trans ?_ (nf_doYield _ _)
          refine NF.trans ?_ (nf_setTask _ _ _)
          exact (nf_newScope _ _ _).trans (nf_enterScope hen)
  | mkGroup =>
    left
    simp only [step, Option.some.injEq, Prod.mk.injEq] at hs
    obtain ⟨rfl, _⟩ := hs
    exact NF.of_futs rfl
  | spawn g =>
    left
    simp only [step] at hs
    split at hs
    · contradiction
    · split at hs
      · simp only [Option.some.injEq, Prod.mk.injEq] at hs
        obtain ⟨rfl, _⟩ := hs; exact NF.refl _
      · simp only [Option.some.injEq, Prod.mk.injEq] at hs
        obtain ⟨rfl, _⟩ := hs
        exact nf_spawn _ _ _
  | aexit g ev =>
    left
    rw [step_aexit] at hs
    split at hs
    · contradiction
    · split at hs
      · contradiction
      · have h0 : NF st (aexitPrep st g ev) := by
          unfold aexitPrep
          split
          · simp only []
            split <;> nf
          · exact NF.refl _
        simp only [] at hs
        split at hs
        · split at hs
          · contradiction
          · rename_i st1 hen
            simp only [Option.some.injEq, Prod.mk.injEq] at hs
            obtain ⟨rfl, _⟩ := hs
            refine NF.trans ?_ (nf_doYield _ _)
            refine NF.trans ?_ (nf_setTask _ _ _)
            exact (h0.trans (nf_newScope _ _ _)).trans (nf_enterScope hen)
        · exact h0.trans (nf_aexitAfterChk hs)
  | start g =>
    left
    simp only [step] at hs
    split at hs
    · contradiction
    · split at hs
      · contradiction
      · split at hs
        · simp only [Option.some.injEq, Prod.mk.injEq] at hs
          obtain ⟨rfl, _⟩ := hs; exact NF.refl _
        · simp only [Option.some.injEq, Prod.mk.injEq] at hs
          obtain ⟨rfl, _⟩ := hs
          refine NF.trans ?_ (nf_blockOn _ _ _)
          refine NF.trans ?_ (nf_setTask _ _ _)
          exact (nf_newFut st).trans (nf_spawn _ _ _)
  | started =>
    left
    simp only [step] at hs
    split at hs
    · contradiction
    · split at hs
      · contradiction
      · split at hs
        · simp only [Option.some.injEq, Prod.mk.injEq] at hs
          obtain ⟨rfl, _⟩ := hs
          exact nf_resolveFut _ _ _ (by intro e h; cases h)
        all_goals
          simp only [Option.some.injEq, Prod.mk.injEq] at hs
          obtain ⟨rfl, _⟩ := hs; exact NF.refl _
  | handleCancel u =>
    left
    simp only [step] at hs
    split at hs
    · contradiction
    · simp only [Option.some.injEq, Prod.mk.injEq] at hs
      obtain ⟨rfl, _⟩ := hs
      split
      · exact NF.refl _
      · exact nf_cancelScope _ _ _
  | handleWait u =>
    left
    simp only [step] at hs
    split at hs
    · contradiction
    · split at hs
      · contradiction
      · split at hs
        · simp only [Option.some.injEq, Prod.mk.injEq] at hs
          obtain ⟨rfl, _⟩ := hs
          exact nf_doYield _ _
        · simp only [Option.some.injEq, Prod.mk.injEq] at hs
          obtain ⟨rfl, _⟩ := hs
          refine NF.trans ?_ (nf_blockOn _ _ _)
          refine NF.trans ?_ (nf_setTask _ _ _)
          exact nf_newFut st
  | finish o =>
    left
    simp only [step] at hs
    split at hs
    · contradiction
    · split at hs
      · contradiction
      · split at hs
        · contradiction
        · split at hs
          · contradiction
          · rename_i st1 hfin
            simp only [Option.some.injEq, Prod.mk.injEq] at hs
            obtain ⟨rfl, _⟩ := hs
            exact nf_finishTask hfin
  | groupEnter g =>
    left
    simp only [step] at hs
    repeat' (first | split at hs | simp only [] at hs)
    all_goals nf_leaf hs
  | _ =>
    left
    simp only [step] at hs
    repeat' (first | split at hs | simp only [] at hs)
    all_goals nf_leaf hs

/-! ### `doneCbRun` stays set; `task_done` sets it -/

/-- every task whose callback has run in `a` has `doneCbRun` set in `st` -/
def CbKept (a st : State) : Prop :=
  ∀ u, (a.tasks u).doneCbRun = true → (st.tasks u).doneCbRun = true

theorem CbKept.mono {a st b : State} (h : CbKept a st)
    (hb : ∀ u, (st.tasks u).doneCbRun = true → (b.tasks u).doneCbRun = true) : CbKept a b :=
  fun u hu => hb u (h u hu)

theorem cbKept_closed (a : State) : Closed (CbKept a) := by
  constructor
  · intro x y q _ l; exact q.mono (fun u hu => by rw [(l.tasks u).doneCbRun]; exact hu)
  · intro st g gs hs sf q gi _ _ _ hd _ _ _ _
    refine q.mono (fun u hu => ?_)
    have : u ≠ st.nTasks := by
      intro e; subst e
      have := gi.g4 _ hu
      rw [hd] at this; contradiction
    simp [spawnCore, this, hu]
  · intro st st' u q _ _ he
    obtain ⟨g, sc, o, _, _, _, ht⟩ := runTaskDone_shape he
    have q1 : CbKept a (taskDoneCore st u g sc) := by
      refine q.mono (fun v hv => ?_)
      unfold taskDoneCore
      by_cases hvu : v = u
      · subst hvu; simp
      · simp [hvu, hv]
    have q2 := q1.mono (fun v hv => by
      rw [((gle_taskDoneMid _ g).tasks v).doneCbRun]; exact hv)
    rcases taskDoneTail_shape ht with ⟨l, _, _⟩ | ⟨_, _, _, ⟨_, rfl⟩ | ⟨_, rfl⟩⟩
    · exact q2.mono (fun v hv => by rw [(l.tasks v).doneCbRun]; exact hv)
    · exact q2.mono (fun v hv => hv)
    · exact (q2.mono (b := routeErr _ g u o) (fun v hv => hv)).mono
        (fun v hv => by rw [((gle_cancelScope _ _ _).tasks v).doneCbRun]; exact hv)
  · intro st t o q _ hr _
    refine q.mono (fun u hu => ?_)
    by_cases h : u = t
    · subst h; simpa using hu
    · simpa [h] using hu
  · intro st t g ev q _ _ _ _ _ _ _
    rcases aexitPrep_shape st g ev with ⟨l, _, _⟩ | ⟨_, _, e⟩
    · exact q.mono (fun v hv => by rw [(l.tasks v).doneCbRun]; exact hv)
    · rw [e]
      refine q.mono (fun v hv => ?_)
      show ((cancelScope st (st.groups g).scope false).tasks v).doneCbRun = true
      rw [((gle_cancelScope _ _ _).tasks v).doneCbRun]; exact hv
  · intro st g q _ _ _; exact q.mono (fun v hv => hv)
  · intro st g q _ _ _; exact q.mono (fun v hv => hv)
  · intro st B s q _ _ hT _ _ _ _ _ _ _ _; exact q.mono (fun v hv => by rw [hT]; exact hv)

/-- `task_done` of `u` sets `doneCbRun` of `u` -/
theorem runTaskDone_sets_cb {st st' : State} {u : Nat} (he : runTaskDone st u = some st') :
    (st'.tasks u).doneCbRun = true := by
  obtain ⟨g, sc, o, _, _, _, ht⟩ := runTaskDone_shape he
  have h1 : ((taskDoneMid (taskDoneCore st u g sc) g).tasks u).doneCbRun = true := by
    rw [((gle_taskDoneMid _ g).tasks u).doneCbRun]
    simp [taskDoneCore]
  generalize taskDoneMid (taskDoneCore st u g sc) g = M at ht h1
  rcases taskDoneTail_shape ht with ⟨l, _, _⟩ | ⟨_, _, _, ⟨_, rfl⟩ | ⟨_, rfl⟩⟩
  · rw [(l.tasks u).doneCbRun]; exact h1
  · exact h1
  · rw [((gle_cancelScope _ _ _).tasks u).doneCbRun]; exact h1

/-- **a start future that holds an exception belongs to a child whose callback has run**: in every
reachable state.  (Only `task_done` of `u` stores an exception in the start future of `u`.) -/
theorem failed_start_future_cb_run {st : State} (h : Reach st) :
    ∀ u sf x, (st.tasks u).startFut = some sf → st.futs sf = .failed x →
      (st.tasks u).doneCbRun = true := by
  induction h with
  | start h0 =>
    subst h0
    intro u sf x _ hf
    simp [init] at hf
  | @next s e s' o hr hs ih =>
    intro u sf x hsf hf
    have fe := fe_step hs
    have i0 := finv_reach hr
    rcases step_new_failed hs hf with hold | ⟨u0, he, hsf0⟩
    · rcases fe.sfut u sf hsf with hsf_old | hge
      · exact closed_step (cbKept_closed s) (fun _ h => h) (ginv_reach hr) (wf_reach hr) hs u
          (ih u sf x hsf_old hold)
      · rw [i0.fut_dflt sf hge] at hold; cases hold
    · subst he
      have hlt := i0.role_lt sf (.start u0) hsf0
      rcases fe.sfut u sf hsf with hsf_old | hge
      · have hu : u = u0 := by
          have := i0.role_uniq sf (.start u) (.start u0) hsf_old hsf0
          cases this; rfl
        subst hu
        rw [step_taskDone_eq] at hs
        split at hs
        · contradiction
        · cases hrt : runTaskDone { s with cur := s.cur.erase (.taskDone u) } u with
          | none => rw [hrt] at hs; cases hs
          | some s1 =>
            rw [hrt] at hs
            simp only [Option.map_some, Option.some.injEq, Prod.mk.injEq] at hs
            rw [← hs.1]
            exact runTaskDone_sets_cb hrt
      · omega

/-- a scope whose `cancel()` has been called is effectively cancelled -/
theorem effCancelled_of_cancelCalled {st : State} (w : WF st) {s : Nat}
    (hc : (st.scopes s).cancelCalled = true) : effCancelled st s = true := by
  unfold effCancelled
  cases he : (st.scopes s).entered
  · rw [(w.not_entered s he).2.2.2.2.2]
    simp [effCancelledList, hc]
  · rw [w.chain_spec s he]
    simp [effCancelledList, hc]

end AnyioModel.Kernel
