/-
Delivery of cancellation, part 5: `DI` is preserved by the helpers of `Kernel/Step.lean`
(allocation, suspension, `_spawn`, `task_done`, the end of a coroutine).
-/
import AnyioModel.Kernel.DeliverInv4
import AnyioModel.Kernel.WF9

namespace AnyioModel.Kernel

/-! ### changes that touch nothing `DI` reads -/

structure Inert (a b : State) : Prop where
  sc : ∀ x, (b.scopes x).parent = (a.scopes x).parent ∧
    (b.scopes x).active = (a.scopes x).active ∧ (b.scopes x).shield = (a.scopes x).shield ∧
    (b.scopes x).cancelCalled = (a.scopes x).cancelCalled ∧
    (b.scopes x).tasks = (a.scopes x).tasks ∧ (b.scopes x).deliver = (a.scopes x).deliver
  st : ∀ u, (b.tasks u).st = (a.tasks u).st
  futs : b.futs = a.futs
  futWaiter : b.futWaiter = a.futWaiter
  hk : ∀ x, Handle.deliver x ∈ a.ready ++ a.cur → Handle.deliver x ∈ b.ready ++ b.cur

theorem Inert.refl (a : State) : Inert a a :=
  ⟨fun _ => ⟨rfl, rfl, rfl, rfl, rfl, rfl⟩, fun _ => rfl, rfl, rfl, fun _ h => h⟩

theorem Inert.trans {a b c : State} (h1 : Inert a b) (h2 : Inert b c) : Inert a c := by
  constructor
  · intro x
    obtain ⟨a1, a2, a3, a4, a5, a6⟩ := h1.sc x
    obtain ⟨b1, b2, b3, b4, b5, b6⟩ := h2.sc x
    exact ⟨b1.trans a1, b2.trans a2, b3.trans a3, b4.trans a4, b5.trans a5, b6.trans a6⟩
  · intro u; rw [h2.st, h1.st]
  · rw [h2.futs, h1.futs]
  · rw [h2.futWaiter, h1.futWaiter]
  · exact fun x h => h2.hk x (h1.hk x h)

theorem Inert.df {a b : State} (h : Inert a b) : DF a b :=
  DF.of_inert h.sc h.st h.futs h.futWaiter h.hk

theorem Inert.of_setTask (a : State) (t : Nat) (f : Task → Task)
    (hf : (f (a.tasks t)).st = (a.tasks t).st) : Inert a (a.setTask t f) := by
  refine ⟨fun _ => ⟨rfl, rfl, rfl, rfl, rfl, rfl⟩, fun u => ?_, rfl, rfl, fun _ h => h⟩
  by_cases hu : u = t
  · subst hu; simpa using hf
  · simp [hu]

theorem Inert.of_setGroup (a : State) (g : Nat) (f : Group → Group) : Inert a (a.setGroup g f) :=
  ⟨fun _ => ⟨rfl, rfl, rfl, rfl, rfl, rfl⟩, fun _ => rfl, rfl, rfl, fun _ h => h⟩

/-- only the loop's own fields change, and no `deliver` handle is lost -/
theorem Inert.of_loop {a b : State} (h1 : b.scopes = a.scopes) (h2 : b.tasks = a.tasks)
    (h3 : b.futs = a.futs) (h4 : b.futWaiter = a.futWaiter)
    (hk : ∀ x, Handle.deliver x ∈ a.ready ++ a.cur → Handle.deliver x ∈ b.ready ++ b.cur) :
    Inert a b :=
  ⟨fun x => by rw [h1]; exact ⟨rfl, rfl, rfl, rfl, rfl, rfl⟩, fun u => by rw [h2], h3, h4, hk⟩

theorem DI.inert {a b : State} (h : DI a) (i : Inert a b) : DI b := h.df i.df

/-! ### futures -/

theorem bw_resolveFut {x : State} (bw : BW x) (f : Nat) (v : FutSt) : BW (resolveFut x f v) := by
  unfold resolveFut
  split
  · exact bw
  · simp only []
    split
    · rename_i t ht
      simp only [setFut_futWaiter] at ht
      split
      · rename_i hb
        simp only [setFut_tasks] at hb
        intro u g hu
        by_cases hut : u = t
        · subst hut; simp at hu
        · have hu' : (x.tasks u).st = .blocked g := by simpa [hut] using hu
          have := bw u g hu'
          refine ⟨by simpa using this.1, ?_⟩
          by_cases hgf : g = f
          · subst hgf; rw [ht] at this; exact absurd (Option.some.inj this.1).symm hut
          · simpa [hgf] using this.2
      · rename_i hb
        simp only [setFut_tasks] at hb
        intro u g hu
        have hu' : (x.tasks u).st = .blocked g := by simpa using hu
        have := bw u g hu'
        refine ⟨by simpa using this.1, ?_⟩
        by_cases hgf : g = f
        · subst hgf; rw [ht] at this
          have e := Option.some.inj this.1
          subst e; exact absurd hu' hb
        · simpa [hgf] using this.2
    · rename_i ht
      simp only [setFut_futWaiter] at ht
      intro u g hu
      have hu' : (x.tasks u).st = .blocked g := by simpa using hu
      have := bw u g hu'
      refine ⟨by simpa using this.1, ?_⟩
      by_cases hgf : g = f
      · subst hgf; rw [ht] at this; cases this.1
      · simpa [hgf] using this.2

theorem df_resolveFut (x : State) (f : Nat) (v : FutSt) : DF x (resolveFut x f v) := by
  have fr := frame_resolveFut x f v
  refine ⟨NLe.of_cframe fr.cframe, fun s => ?_, fun _ h => mem_ready_cur_frame fr h,
    fun bw => bw_resolveFut bw f v⟩
  rw [resolveFut_scopes]
  exact ⟨rfl, fun _ h => h⟩

theorem df_foldl_resolveFut (x : State) (l : List Nat) (v : FutSt) :
    DF x (l.foldl (fun st f => resolveFut st f v) x) := by
  induction l generalizing x with
  | nil => exact DF.refl _
  | cons f l ih => exact (df_resolveFut x f v).trans (ih _)

theorem inert_newFut (x : State) : Inert x { (newFut x).1 with futs := x.futs } := by
  unfold newFut
  exact Inert.of_loop rfl rfl rfl rfl (fun _ h => h)

theorem df_newFut (x : State) : DF x (newFut x).1 := by
  unfold newFut
  simp only []
  refine ⟨⟨fun _ h => h, fun _ _ => rfl, fun _ _ h => h, fun _ _ h => h, fun _ _ h => h,
    fun _ h => h⟩, fun _ => ⟨rfl, fun _ h => h⟩, fun _ h => h, ?_⟩
  intro bw t g hb
  have := bw t g hb
  refine ⟨this.1, ?_⟩
  by_cases hg : g = x.nFuts
  · subst hg; simp
  · simpa [hg] using this.2

/-- `f` is pending and nobody waits for it -/
def Fresh (x : State) (f : Nat) : Prop :=
  x.futs f = .pending ∧ ∀ u, (x.tasks u).st ≠ .blocked f

theorem fresh_newFut {x : State} (w : WF x) (bw : BW x) : Fresh (newFut x).1 (newFut x).2 := by
  unfold newFut
  refine ⟨by simp, ?_⟩
  intro u hu
  have := (bw u x.nFuts (by simpa using hu)).1
  have := (w.futWaiter_lt _ _ this).1
  omega

theorem Fresh.inert {a b : State} {f : Nat} (h : Fresh a f) (i : Inert a b) : Fresh b f :=
  ⟨by rw [i.futs]; exact h.1, fun u => by rw [i.st]; exact h.2 u⟩

/-! ### allocation of a scope -/

theorem di_newScope {a : State} (w : WF a) (h : DI a) (sh : Bool) (d : Option Nat) :
    DI (newScope a sh d).1 := by
  have hd := w.scope_dflt (s := a.nScopes) (Nat.le_refl _)
  have hdl : (a.scopes a.nScopes).deliver = false := by
    cases hx : (a.scopes a.nScopes).deliver
    · rfl
    · have := h.sched _ hx
      rcases List.mem_append.mp this with hm | hm
      · have := w.ready_ok _ hm; simp [HandleOk] at this
      · have := w.cur_ok _ hm; simp [HandleOk] at this
  apply h.df
  unfold newScope
  simp only []
  have key : ∀ x, x ≠ a.nScopes →
      (upd a.scopes a.nScopes ({ exists_ := true, shield := sh, deadline := d } : Scope)) x =
        a.scopes x := fun x hx => by simp [hx]
  refine ⟨?_, fun x => ?_, fun _ h => h, fun bw => bw⟩
  · constructor
    · intro x hx
      by_cases hxn : x = a.nScopes
      · subst hxn; simp at hx
      · simpa [hxn] using hx
    · intro x hx
      by_cases hxn : x = a.nScopes
      · subst hxn; simp at hx
      · simp [hxn]
    · intro x hx
      by_cases hxn : x = a.nScopes
      · subst hxn; simp at hx
      · simp [hxn]
    · intro x hx
      by_cases hxn : x = a.nScopes
      · subst hxn; simp at hx
      · simp [hxn]
    · intro x t ht
      by_cases hxn : x = a.nScopes
      · subst hxn; simp at ht
      · simpa [hxn] using ht
    · exact fun _ h => h
  · by_cases hxn : x = a.nScopes
    · subst hxn; simp [hdl]
    · simp [hxn]

/-! ### suspension -/

theorem df_doYield (a : State) (t : Nat) (hr : (a.tasks t).st = .running) :
    DF a (doYield a t) := by
  unfold doYield
  refine ⟨⟨fun _ h => h, fun _ _ => rfl, fun _ _ h => h, fun _ _ h => h, fun _ _ h => h, ?_⟩,
    fun _ => ⟨rfl, fun _ h => h⟩, ?_, ?_⟩
  · intro u hu
    by_cases hut : u = t
    · subst hut; rw [hr] at hu; cases hu
    · simpa [hut] using hu
  · intro x hx
    simp only [schedule_ready, setTask_ready, schedule_cur, setTask_cur] at hx ⊢
    simp only [List.mem_append] at hx ⊢
    rcases hx with hx | hx
    · exact .inl (.inl hx)
    · exact .inr hx
  · intro bw u g hu
    by_cases hut : u = t
    · subst hut; simp at hu
    · exact bw u g (by simpa [hut] using hu)

theorem di_blockOn {a : State} {t f : Nat} (h : DI a) (hr : (a.tasks t).st = .running)
    (hf : Fresh a f) : DI (blockOn a t f) := by
  have d1 : DF a { a.setTask t (fun x => { x with st := .blocked f }) with
      futWaiter := upd a.futWaiter f (some t), running := none } := by
    refine ⟨⟨fun _ h => h, fun _ _ => rfl, fun _ _ h => h, fun _ _ h => h, fun _ _ h => h, ?_⟩,
      fun _ => ⟨rfl, fun _ h => h⟩, fun _ h => h, ?_⟩
    · intro u hu
      by_cases hut : u = t
      · subst hut; rw [hr] at hu; cases hu
      · simpa [hut] using hu
    · intro bw u g hu
      by_cases hut : u = t
      · subst hut
        have : g = f := by simpa using hu.symm
        subst this
        exact ⟨by simp, hf.1⟩
      · have hu' : (a.tasks u).st = .blocked g := by simpa [hut] using hu
        have := bw u g hu'
        have hgf : g ≠ f := fun e => hf.2 u (e ▸ hu')
        exact ⟨by simpa [hgf] using this.1, this.2⟩
  unfold blockOn
  simp only []
  split
  · refine ((h.df d1).df ?_).df (df_resolveFut _ _ _)
    exact (Inert.of_setTask _ t _ rfl).df
  · exact h.df d1

/-! ### `_spawn` -/

theorem spawnTail_eq (c : State) (gs : Nat) (rest : List Nat)
    (hc : (c.scopes gs).chain = gs :: rest) : spawnTail c gs = restartList c (c.scopes gs).chain := by
  unfold spawnTail restartInParent
  rw [hc]
  simp only [restartList, List.tail_cons]

theorem di_spawn {a : State} {g : Nat} (sf : Option Nat) (w : WF a) (h : DI a)
    (hg : g < a.nGroups) (ha : (a.scopes (a.groups g).scope).active = true) :
    DI (spawn a g sf).1 := by
  rw [spawn_eq]
  simp only []
  have w1 := wf_newScope w false none
  have h1 := di_newScope w h false none
  have hgs : (a.groups g).scope < a.nScopes := w.group_scope_lt g hg
  have hne : (a.groups g).scope ≠ a.nScopes := by omega
  have hact : ((newScope a false none).1.scopes (a.groups g).scope).active = true := by
    simpa [newScope, hne] using ha
  have hen := w1.active_entered _ hact
  have w2 := wf_spawnCore (g := g) (gs := (a.groups g).scope) (hs := (newScope a false none).2)
    sf w1 (by simpa [newScope] using hg) (by simp [newScope]) hen
  generalize (newScope a false none).1 = a1 at w1 h1 hact hen w2
  generalize (newScope a false none).2 = hs at w2
  generalize (a.groups g).scope = gs at hact hen w2
  have hd := w1.task_dflt a1.nTasks (Nat.le_refl _)
  -- what `DI` reads in `spawnCore`
  have hsc : ∀ x, ((spawnCore a1 g gs hs sf).scopes x).parent = (a1.scopes x).parent ∧
      ((spawnCore a1 g gs hs sf).scopes x).active = (a1.scopes x).active ∧
      ((spawnCore a1 g gs hs sf).scopes x).shield = (a1.scopes x).shield ∧
      ((spawnCore a1 g gs hs sf).scopes x).cancelCalled = (a1.scopes x).cancelCalled ∧
      ((spawnCore a1 g gs hs sf).scopes x).deliver = (a1.scopes x).deliver ∧
      ((spawnCore a1 g gs hs sf).scopes x).entered = (a1.scopes x).entered ∧
      (∀ u, u ∈ ((spawnCore a1 g gs hs sf).scopes x).tasks →
        u ∈ (a1.scopes x).tasks ∨ (u = a1.nTasks ∧ x = gs)) := by
    intro x
    by_cases hx : x = gs
    · subst hx; simp [spawnCore]
      intro u hu; exact .inl hu
    · simp [spawnCore, hx]
  have htk : ∀ u, u ≠ a1.nTasks → (spawnCore a1 g gs hs sf).tasks u = a1.tasks u := by
    intro u hu; simp [spawnCore, hu]
  have hnew : ((spawnCore a1 g gs hs sf).tasks a1.nTasks).st = .created := by simp [spawnCore]
  have hch := w2.chain_spec gs (by rw [(hsc gs).2.2.2.2.2.1]; exact hen)
  rw [spawnTail_eq _ gs _ hch]
  apply di_restart_fix w2.tree
  · intro o ho
    rw [(hsc o).2.2.2.2.1] at ho
    have := h1.sched o ho
    simp only [spawnCore, setGroup_ready, setScope_ready, schedule_ready, setTask_ready,
      setGroup_cur, setScope_cur, schedule_cur, setTask_cur, List.mem_append] at this ⊢
    rcases this with hm | hm
    · exact .inl (.inl hm)
    · exact .inr hm
  · intro u f hu
    by_cases hun : u = a1.nTasks
    · subst hun; rw [hnew] at hu; cases hu
    · rw [htk u hun] at hu
      simpa [spawnCore] using h1.bw u f hu
  · intro o
    have hrd : ∀ c, reachDown (spawnCore a1 g gs hs sf) o c → reachDown a1 o c := by
      intro c hr
      exact reachDown_congr (fun s => ⟨(hsc s).1.symm, (hsc s).2.1.symm, (hsc s).2.2.1.symm,
        (hsc s).2.2.2.1.symm⟩) hr
    by_cases hn : ((spawnCore a1 g gs hs sf).scopes o).active = true ∧
        ((spawnCore a1 g gs hs sf).scopes o).cancelCalled = true ∧
        needs (spawnCore a1 g gs hs sf) o
    · obtain ⟨hao, hco, c, u, hr, hu, hdn⟩ := hn
      rcases (hsc c).2.2.2.2.2.2 u hu with hu' | ⟨hun, hcg⟩
      · left
        intro _ _ _
        rw [(hsc o).2.2.2.2.1]
        have hun : u ≠ a1.nTasks := by
          have := w1.scope_tasks_lt hu'; omega
        rw [htk u hun] at hdn
        exact h1.live o (by rw [← (hsc o).2.1]; exact hao) (by rw [← (hsc o).2.2.2.1]; exact hco)
          ⟨c, u, hrd c hr, hu', hdn⟩
      · right
        subst hcg
        exact restartTarget_of_reachDown w2.tree hr hco (w2.active_entered o hao)
    · left
      intro h1' h2' h3'
      exact absurd ⟨h1', h2', h3'⟩ hn

/-- a freshly created future is still fresh after `_spawn` (the delivery it may trigger only
resolves futures that somebody is blocked on) -/
theorem hit1_fresh {x : State} (bw : BW x) {f : Nat} (hf : Fresh x f) (o : Nat) (p : Nat × Nat) :
    Fresh (hit1 o x p) f := by
  refine ⟨?_, fun u hu => hf.2 u ((frame_hit1 o x p).tasks u |>.st_blocked hu)⟩
  unfold hit1
  split
  · rename_i hc
    obtain ⟨hnd, _, _⟩ := hitCancels_blocked_or hc
    rw [(hitDo_task_self _ o p.2).2.2.2.2.1]
    by_cases hb : ∃ g, (x.tasks p.2).st = .blocked g
    · obtain ⟨g, hb⟩ := hb
      have hgf : f ≠ g := fun e => hf.2 p.2 (e ▸ hb)
      rw [(taskCancel_blocked bw hb).2.2.2.2.2.2.1 f hgf]; exact hf.1
    · rw [(taskCancel_other hnd (fun g hg => hb ⟨g, hg⟩)).2.2.2.2.2.1]; exact hf.1
  · exact hf.1

theorem deliver_fresh {x : State} (bw : BW x) {f : Nat} (hf : Fresh x f) (o : Nat) :
    Fresh (deliver x o) f := by
  have key : ∀ (l : List (Nat × Nat)) (y : State), BW y → Fresh y f →
      Fresh (l.foldl (hit1 o) y) f := by
    intro l
    induction l with
    | nil => exact fun _ _ h => h
    | cons p l ih =>
      intro y by' hy
      exact ih _ (hit1_spec by' o p.1 p.2).1 (hit1_fresh by' hy o p)
  have h1 : Fresh (deliverGo (x.nScopes + 1) x o o).1 f := by
    rw [deliverGo_eq]; exact key (visitP x (x.nScopes + 1) o) x bw hf
  unfold deliver
  simp only []
  split <;> exact h1

theorem spawn_fresh {a : State} {g f : Nat} (sf : Option Nat) (bw : BW a) (hf : Fresh a f) :
    Fresh (spawn a g sf).1 f := by
  rw [spawn_eq]
  simp only []
  have h1 : Fresh (spawnCore (newScope a false none).1 g (a.groups g).scope
      (newScope a false none).2 sf) f := by
    refine ⟨by simpa [spawnCore, newScope] using hf.1, ?_⟩
    intro u hu
    by_cases hun : u = a.nTasks
    · subst hun; simp [spawnCore, newScope] at hu
    · exact hf.2 u (by simpa [spawnCore, newScope, hun] using hu)
  have b1 : BW (spawnCore (newScope a false none).1 g (a.groups g).scope
      (newScope a false none).2 sf) := by
    intro u k hu
    by_cases hun : u = a.nTasks
    · subst hun; simp [spawnCore, newScope] at hu
    · simpa [spawnCore, newScope] using bw u k (by simpa [spawnCore, newScope, hun] using hu)
  generalize spawnCore (newScope a false none).1 g (a.groups g).scope
      (newScope a false none).2 sf = c at h1 b1
  unfold spawnTail
  split
  · split
    · exact h1
    · exact deliver_fresh b1 h1 _
  · split
    · exact h1
    · unfold restartInParent
      rw [restartList_eq]
      split
      · exact h1
      · split
        · exact h1
        · exact deliver_fresh b1 h1 _

end AnyioModel.Kernel
