/-
C08 helper lemmas about the kernel model.  No model is changed here.
-/
import AnyioModel.Kernel.Frame

namespace AnyioModel.Props.C08Aux.Ker
open AnyioModel AnyioModel.Kernel

/-- a scope just created by `newScope` can be entered -/
theorem enterScope_new (st : State) (t : Nat) (sh : Bool) (d : Option Nat) :
    ∃ st1, enterScope (newScope st sh d).1 t st.nScopes = some st1 := by
  rw [enterScope_eq]
  simp [newScope, State.setScope]

/-- entering a scope does not change who is running, the groups, nor the library frame any task
is inside of -/
theorem enterScope_frame {st st1 : State} {t s : Nat} (h : enterScope st t s = some st1) :
    st1.running = st.running ∧ st1.groups = st.groups ∧
    ∀ u, (st1.tasks u).lib = (st.tasks u).lib := by
  obtain ⟨_, _, hc⟩ := enterScope_spec h
  refine ⟨?_, ?_, ?_⟩
  · rw [hc.running]; unfold enterPre enterCore; simp only []; split <;> (try split) <;> rfl
  · rw [hc.groups]; unfold enterPre enterCore; simp only []; split <;> (try split) <;> rfl
  · intro u
    have hf := hc.tasks u
    have hpre : ((enterPre st t s).tasks u).lib = (st.tasks u).lib := by
      unfold enterPre enterCore
      simp only []
      split <;> (try split) <;> simp [State.setTask, State.setScope, upd] <;> split <;> simp_all
    rw [← hpre]; exact hf.lib

theorem resolveFut_running (st : State) (f : Nat) (v : FutSt) :
    (resolveFut st f v).running = st.running := (frame_resolveFut st f v).running

theorem resolveFut_lib (st : State) (f : Nat) (v : FutSt) (u : Nat) :
    ((resolveFut st f v).tasks u).lib = (st.tasks u).lib := ((frame_resolveFut st f v).tasks u).lib

theorem blockOn_running (st : State) (t f : Nat) : (blockOn st t f).running = none := by
  unfold blockOn
  simp only []
  split
  · rw [resolveFut_running]; rfl
  · rfl

theorem blockOn_lib (st : State) (t f u : Nat) :
    ((blockOn st t f).tasks u).lib = (st.tasks u).lib := by
  unfold blockOn
  simp only []
  split
  · rw [resolveFut_lib]
    simp [State.setTask, upd]; split <;> simp_all
  · simp [State.setTask, upd]; split <;> simp_all

end AnyioModel.Props.C08Aux.Ker
