/-
Delivery of cancellation, part 21: `QR` (see part 18) for resuming a task and for every transition
other than un-shielding a scope.
-/
import AnyioModel.Kernel.DeliverInv20

namespace AnyioModel.Kernel

theorem qr_setTaskRunning {tb f c : Nat} (st : State) (t : Nat) (g : Task → Task) (r : Option Nat)
    (hg : ∀ x, (g x).st = .blocked f → x.st = .blocked f) :
    QR tb f c st { st.setTask t g with running := r } :=
  (qr_setTask st t g hg).trans (QR.of_fields rfl rfl)

theorem qr_finishTask {tb f c : Nat} {st st' : State} {u : Nat} {o : Outcome} (w : WFR st u)
    (hut : u ≠ tb) (he : finishTask st u o = some st') : QR tb f c st st' := by
  unfold finishTask at he
  simp only [] at he
  split at he
  · split at he
    · contradiction
    · rename_i st1 r hex
      simp only [Option.some.injEq] at he
      subst he
      have w1 := w.setTask_inert u (fun x => { x with hexc := o, finished := true }) (fun x => by simp)
      have w2 := wf_foldl_resolveFut w1.1 (st.tasks u).hwaiters .result
      have w3 : WFR _ u := ⟨w2.1, by rw [w2.2]; exact w1.2⟩
      have w4 := w3.setTask_inert u (fun x => { x with hwaiters := [] }) (fun x => by simp)
      have h1 := qr_exitScope (tb := tb) (f := f) (c := c) w4.1 hut hex
      refine QR.trans ?_ (qr_schedule _ _)
      refine QR.trans ?_ (qr_setTaskRunning _ _ _ _ (fun x => by simp))
      refine QR.trans ?_ h1
      qr
  · simp only [Option.some.injEq] at he
    subst he
    exact qr_setTaskRunning _ _ _ _ (fun x => by simp)

/-- what is threaded through a transition of the running task `u` -/
structure QC (tb f : Nat) (st : State) (u : Nat) : Prop where
  w : WFR st u
  d : DI st
  bm : (st.tasks tb).st = .blocked f → (st.tasks tb).mustCancel = false
  hut : u ≠ tb

theorem QC.qh {tb f : Nat} {st : State} {u : Nat} (q : QC tb f st u) : QH tb f st :=
  QH.of_wf q.w.1 q.d.bw q.bm (run_ne_of_wfr q.w q.hut)

theorem qr_continueLib {tb f c : Nat} {st st' : State} {u : Nat} {r : Resume} {o : Out}
    (q : QC tb f st u) (he : continueLib st u r = some (st', o)) : QR tb f c st st' := by
  obtain ⟨w, d, bm, hut⟩ := q
  unfold continueLib at he
  split at he
  · simp only [Option.some.injEq, Prod.mk.injEq] at he
    obtain ⟨rfl, _⟩ := he; exact QR.refl _ _ _ _
  · -- chkIf
    split at he <;>
    · simp only [Option.some.injEq, Prod.mk.injEq] at he
      obtain ⟨rfl, _⟩ := he; qr
  · -- shChk
    split at he
    · contradiction
    · rename_i st1 x hex
      simp only [Option.some.injEq, Prod.mk.injEq] at he
      obtain ⟨rfl, _⟩ := he
      have h1 : QR tb f c st st1 := qr_exitScope w.1 hut hex
      qr
  · -- sleeping
    simp only [Option.some.injEq, Prod.mk.injEq] at he
    obtain ⟨rfl, _⟩ := he; qr
  · -- aexitChk
    split at he
    · contradiction
    · rename_i st1 x hex
      have w1 := w.exitScope hex
      have d1 := di_exitScope w.1 d hex
      have b1 := bm_of_sr (tb := tb) (f := f) (sr_exitScope hex) bm
      have h1 : QR tb f c st st1 := qr_exitScope w.1 hut hex
      split at he
      · exact h1.trans (qr_aexitAfterChk w1 hut he)
      · split at he
        · have q1 : QH tb f st1 := QH.of_wf w1.1 d1.bw b1 (run_ne_of_wfr w1 hut)
          exact (h1.trans (qr_cancelScope q1 _ _)).trans
            (qr_aexitAfterChk (w1.cframe (cframe_cancelScope _ _ _)) hut he)
        · contradiction
  · -- aexitWait
    rename_i g ws ev hl
    have w1 := w.setGroup_inert g (fun x => { x with onCompleted := none }) (fun x => by simp)
    have d1 := d.setGroup g (fun x => { x with onCompleted := none })
    have h1 : QR tb f c st (st.setGroup g (fun x => { x with onCompleted := none })) :=
      qr_setGroup _ _ _
    simp only [] at he
    split at he
    · exact h1.trans (qr_aexitLoop w1.1 hut he)
    · split at he
      · have w2 : WFR (setShield (st.setGroup g (fun x => { x with onCompleted := none })) ws true)
            u := by
          refine WFR.frame ?_ (frame_setShield _ _ _)
          exact ⟨wf_setScope_inert w1.1 ws _ (by simp; exact fun h => .inl h), w1.2⟩
        have d2 := di_setShield w1.1.tree d1 ws true
        have s2 : SR st (setShield (st.setGroup g (fun x => { x with onCompleted := none })) ws true) :=
          (sr_setGroup _ _ _).trans (sr_setShield _ _ _)
        have q2 : QH tb f (setShield (st.setGroup g (fun x => { x with onCompleted := none })) ws true) :=
          QH.of_wf w2.1 d2.bw (bm_of_sr s2 bm) (run_ne_of_wfr w2 hut)
        exact ((h1.trans (qr_setShield_true _ _)).trans (qr_cancelScope q2 _ _)).trans
          (qr_aexitLoop (w2.cframe (cframe_cancelScope _ _ _)).1 hut he)
      · contradiction
  · -- startWait
    split at he
    · simp only [Option.some.injEq, Prod.mk.injEq] at he
      obtain ⟨rfl, _⟩ := he; qr
    · simp only [] at he
      split at he
      · contradiction
      · rename_i hs hhs
        split at he
        · have q0 : QH tb f st := QH.of_wf w.1 d.bw bm (run_ne_of_wfr w hut)
          have w1 := w.cframe (cframe_cancelScope st hs false)
          have w2 := w1.mkScope true none
          have h1 : QR tb f c st (newScope (cancelScope st hs false) true none).1 :=
            (qr_cancelScope q0 hs false).trans (qr_newScope _ _ _)
          split at he
          · contradiction
          · rename_i st2 hen
            have h2 : QR tb f c st st2 := h1.trans (qr_enterScope w2.1.1 hut hen)
            split at he <;>
            · simp only [Option.some.injEq, Prod.mk.injEq] at he
              obtain ⟨rfl, _⟩ := he; qr
        · simp only [Option.some.injEq, Prod.mk.injEq] at he
          obtain ⟨rfl, _⟩ := he; qr
  · -- startJoin
    split at he
    · contradiction
    · rename_i st1 x hex
      have h1 : QR tb f c st st1 := qr_exitScope w.1 hut hex
      simp only [] at he
      split at he <;>
      · simp only [Option.some.injEq, Prod.mk.injEq] at he
        obtain ⟨rfl, _⟩ := he; qr

theorem qr_runTask {tb f c : Nat} {st st' : State} {t : Nat} {o : Out} (w : WF st) (d : DI st)
    (bm : (st.tasks tb).st = .blocked f → (st.tasks tb).mustCancel = false)
    (hr : st.running = none) (hlt : t < st.nTasks) (hnd : (st.tasks t).st ≠ .done)
    (hut : t ≠ tb) (he : runTask st t = some (st', o)) : QR tb f c st st' := by
  have w1 := wfr_runPre w hr hlt hnd
  have d1 := d.df (df_runPre st t hnd)
  have h0 : QR tb f c st { st.setTask t (fun x => { x with st := .running, mustCancel := false }) with
      running := some t } := qr_setTaskRunning _ _ _ _ (fun x => by simp)
  have b1 : (({ st.setTask t (fun x => { x with st := .running, mustCancel := false }) with
      running := some t } : State).tasks tb).st = .blocked f →
      (({ st.setTask t (fun x => { x with st := .running, mustCancel := false }) with
      running := some t } : State).tasks tb).mustCancel = false := by
    simpa [Ne.symm hut] using bm
  unfold runTask at he
  simp only [] at he
  split at he
  · split at he
    · split at he
      · contradiction
      · rename_i st1 hen
        simp only [Option.some.injEq, Prod.mk.injEq] at he
        obtain ⟨rfl, _⟩ := he
        exact h0.trans (qr_enterScope w1.1 hut hen)
    · simp only [Option.some.injEq, Prod.mk.injEq] at he
      obtain ⟨rfl, _⟩ := he
      refine QR.trans ?_ (qr_schedule _ _)
      refine QR.trans ?_ (qr_setTaskRunning _ _ _ _ (fun x => by simp))
      exact h0
  · exact h0.trans (qr_continueLib ⟨w1, d1, b1, hut⟩ he)

end AnyioModel.Kernel
