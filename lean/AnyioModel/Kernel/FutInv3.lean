/-
Fresh-allocation invariant for futures, part 3: preservation of `FInv` by the elementary updates
that are not inert.
-/
import AnyioModel.Kernel.FutInv2

namespace AnyioModel.Kernel

/-- roles when only one task record changes, keeping `startFut`, `hwaiters`, and `lib` unless it
becomes something other than `sleeping` -/
theorem hasRole_setTask {st : State} {t : Nat} {F : Task → Task}
    (h1 : (F (st.tasks t)).startFut = (st.tasks t).startFut)
    (h2 : (F (st.tasks t)).hwaiters = (st.tasks t).hwaiters)
    (h3 : ∀ f, (F (st.tasks t)).lib = .sleeping f → HasRole st f .sleep)
    {f : Nat} {r : Role} (hr : HasRole (st.setTask t F) f r) : HasRole st f r := by
  cases r with
  | start u =>
    simp only [HasRole, setTask_tasks] at hr ⊢
    by_cases hu : u = t
    · subst hu; simpa [h1] using hr
    · simpa [hu] using hr
  | onC g => exact hr
  | hw u =>
    simp only [HasRole, setTask_tasks] at hr ⊢
    by_cases hu : u = t
    · subst hu; simpa [h2] using hr
    · simpa [hu] using hr
  | sleep =>
    simp only [HasRole, setTask_tasks] at hr ⊢
    rcases hr with ⟨u, hu⟩ | hr
    · by_cases hut : u = t
      · subst hut
        simp only [upd_same] at hu
        exact h3 f hu
      · exact .inl ⟨u, by simpa [hut] using hu⟩
    · exact .inr hr
  | user => exact hr

/-- the running task starts or ends: `st` becomes `running` or `done` -/
theorem finv_setTask_st {st : State} (h : FInv st) (t : Nat) (F : Task → Task)
    (hs : (F (st.tasks t)).st = .running ∨ (F (st.tasks t)).st = .done)
    (hl : (F (st.tasks t)).lib = (st.tasks t).lib ∨ (F (st.tasks t)).lib = .none)
    (h1 : (F (st.tasks t)).startFut = (st.tasks t).startFut)
    (h2 : (F (st.tasks t)).hwaiters = (st.tasks t).hwaiters)
    (h3 : (F (st.tasks t)).finished = (st.tasks t).finished) : FInv (st.setTask t F) := by
  have hr := roles_of_sub (b := st.setTask t F) h (Nat.le_refl _) (fun f r hr =>
    hasRole_setTask h1 h2 (fun f hf => by
      rcases hl with e | e
      · exact .inl ⟨t, by rw [← e]; exact hf⟩
      · rw [e] at hf; cases hf) hr)
  obtain ⟨a1, a2, a3, a4, a5, a6, a7, a8, a9, a10, a11, a12, a13, a14⟩ := h
  constructor
  · exact hr.1
  · exact hr.2
  all_goals (simp only [setTask_tasks, setTask_futs, setTask_nTasks, setTask_nFuts]; grind [upd_apply])

theorem finv_setLib {st : State} (h : FInv st) (t : Nat) (l : Lib)
    (hr : (st.tasks t).st = .running)
    (hs : ∀ f, l = .sleeping f → HasRole st f .sleep)
    (hw : ∀ g u f, l = .startWait g u f → (st.tasks u).startFut = some f) :
    FInv (st.setTask t (fun x => { x with lib := l })) := by
  have hro := roles_of_sub (b := st.setTask t (fun x => { x with lib := l })) h (Nat.le_refl _)
    (fun f r hr => hasRole_setTask rfl rfl (fun f hf => hs f hf) hr)
  obtain ⟨a1, a2, a3, a4, a5, a6, a7, a8, a9, a10, a11, a12, a13, a14⟩ := h
  constructor
  · exact hro.1
  · exact hro.2
  all_goals (simp only [setTask_tasks, setTask_futs, setTask_nTasks, setTask_nFuts]; grind [upd_apply])

theorem finv_setYielded {st : State} (h : FInv st) (t : Nat)
    (hj : ∀ g u s e, (st.tasks t).lib = .startJoin g u s e → (st.tasks u).finished = true) :
    FInv (st.setTask t (fun x => { x with st := .yielded })) := by
  have hro := roles_of_sub (b := st.setTask t (fun x => { x with st := .yielded })) h (Nat.le_refl _)
    (fun f r hr => hasRole_setTask rfl rfl (fun f hf => .inl ⟨t, hf⟩) hr)
  obtain ⟨a1, a2, a3, a4, a5, a6, a7, a8, a9, a10, a11, a12, a13, a14⟩ := h
  constructor
  · exact hro.1
  · exact hro.2
  all_goals (simp only [setTask_tasks, setTask_futs, setTask_nTasks, setTask_nFuts]; grind [upd_apply])

theorem finv_doYield {st : State} (h : FInv st) (t : Nat)
    (hj : ∀ g u s e, (st.tasks t).lib = .startJoin g u s e → (st.tasks u).finished = true) :
    FInv (doYield st t) := by
  unfold doYield
  refine finv_fsame (finv_setYielded h t hj) ?_
  exact (fsame_schedule _ _ (fun f => by simp)).trans
    (fsame_loop rfl rfl rfl rfl rfl rfl (fun f hf => hf))

theorem finv_setBlocked {st : State} (h : FInv st) (t f : Nat) (hlt : f < st.nFuts)
    (hw : ∀ g u f', (st.tasks t).lib = .startWait g u f' → f' = f)
    (hsf : ∀ u, (st.tasks u).startFut = some f → ∃ g, (st.tasks t).lib = .startWait g u f)
    (hj : ∀ g u s e, (st.tasks t).lib = .startJoin g u s e →
      f ∈ (st.tasks u).hwaiters ∨ (st.tasks u).finished = true) :
    FInv (st.setTask t (fun x => { x with st := .blocked f })) := by
  have hro := roles_of_sub (b := st.setTask t (fun x => { x with st := .blocked f })) h
    (Nat.le_refl _) (fun f r hr => hasRole_setTask rfl rfl (fun f hf => .inl ⟨t, hf⟩) hr)
  obtain ⟨a1, a2, a3, a4, a5, a6, a7, a8, a9, a10, a11, a12, a13, a14⟩ := h
  constructor
  · exact hro.1
  · exact hro.2
  all_goals (simp only [setTask_tasks, setTask_futs, setTask_nTasks, setTask_nFuts]; grind [upd_apply])

theorem hasRole_mono {a b : State} (hl : ∀ t, (b.tasks t).lib = (a.tasks t).lib)
    (hs : ∀ t, (b.tasks t).startFut = (a.tasks t).startFut)
    (hh : ∀ t, (b.tasks t).hwaiters = (a.tasks t).hwaiters)
    (ho : ∀ g, (b.groups g).onCompleted = (a.groups g).onCompleted ∨
      (b.groups g).onCompleted = none)
    (hu : b.userFut = a.userFut) (hsd : ∀ f, sdIn b f → sdIn a f)
    {f : Nat} {r : Role} (hr : HasRole b f r) : HasRole a f r := by
  cases r with
  | start u => simpa [HasRole, hs] using hr
  | onC g =>
    simp only [HasRole] at hr ⊢
    rcases ho g with e | e
    · rw [← e]; exact hr
    · rw [e] at hr; cases hr
  | hw u => simpa [HasRole, hh] using hr
  | sleep =>
    simp only [HasRole] at hr ⊢
    rcases hr with ⟨t, ht⟩ | hr
    · exact .inl ⟨t, by rw [← hl]; exact ht⟩
    · exact .inr (hsd f hr)
  | user => simpa [HasRole, hu] using hr

theorem finv_resolveFut {st : State} (h : FInv st) (f : Nat) (v : FutSt) (hv : v.done = true)
    (hlt : f < st.nFuts) (hne : v ≠ .failed .none)
    (hres : v = .result → ∀ t g u s e, (st.tasks t).lib = .startJoin g u s e →
      (st.tasks t).st = .blocked f → (st.tasks u).finished = true) :
    FInv (resolveFut st f v) := by
  have fr := frame_resolveFut st f v
  have hl : ∀ t, ((resolveFut st f v).tasks t).lib = (st.tasks t).lib := fun t => (fr.tasks t).lib
  have hsf : ∀ t, ((resolveFut st f v).tasks t).startFut = (st.tasks t).startFut :=
    fun t => (fr.tasks t).startFut
  have hhw : ∀ t, ((resolveFut st f v).tasks t).hwaiters = (st.tasks t).hwaiters :=
    fun t => (fr.tasks t).hwaiters
  have hfi : ∀ t, ((resolveFut st f v).tasks t).finished = (st.tasks t).finished :=
    fun t => (fr.tasks t).finished
  have hst := rf_st st f v
  have hfu := rf_futs st f v
  have hro := roles_of_sub (b := resolveFut st f v) h (by rw [fr.nFuts]; exact Nat.le_refl _)
    (fun f' r hr => hasRole_mono hl hsf hhw (fun g => .inl (by rw [fr.groups]))
      (resolveFut_userFut st f v) (fun f'' hf => sdIn_of_cframe fr.cframe hf) hr)
  have hn1 := fr.nFuts
  have hn2 := fr.nTasks
  obtain ⟨a1, a2, a3, a4, a5, a6, a7, a8, a9, a10, a11, a12, a13, a14⟩ := h
  constructor
  · exact hro.1
  · exact hro.2
  · intro u hu; rw [hn2] at hu; rw [hhw, hsf, hfi]; exact a3 u hu
  · intro t f' hb
    rw [hn1]; rw [hst] at hb
    have := a4 t f'; have := a4 t f
    grind
  · intro t f' hw
    rw [hst] at hw; rw [hfu]
    have := a5 t f'
    grind [FutSt.done]
  · intro t g u f' hlib; rw [hl] at hlib; rw [hsf]; exact a6 t g u f' hlib
  · intro t g u f' f'' hlib hb
    rw [hl] at hlib; rw [hst] at hb
    have := a7 t g u f' f'' hlib; have := a7 t g u f' f hlib
    grind
  · intro u f' t hs hb
    rw [hsf] at hs; rw [hst] at hb; rw [hl]
    have := a8 u f' t hs
    grind
  · intro t g u sc e hlib hy
    rw [hl] at hlib; rw [hst] at hy; rw [hfi]
    have := a9 t g u sc e hlib
    grind
  · intro t g u sc e f' hlib hb
    rw [hl] at hlib; rw [hst] at hb; rw [hfi, hhw]
    have := a10 t g u sc e f' hlib
    grind
  · intro t g u sc e f' hlib hw hr
    rw [hl] at hlib; rw [hst] at hw; rw [hfu] at hr; rw [hfi]
    have := a11 t g u sc e f' hlib
    have := a5 t f'
    have := hres
    grind [FutSt.done]
  · intro f' hf'
    rw [hn1] at hf'
    rw [hfu]
    have := a12 f' hf'
    have hne' : f' ≠ f := by omega
    simp [hne', this]
  · intro f'
    rw [hfu]
    have := a13 f'
    grind
  · intro t hc
    rw [hst] at hc; rw [hl]
    have := a14 t
    grind

theorem finv_blockOn {st : State} (h : FInv st) (t f : Nat) (hlt : f < st.nFuts)
    (hw : ∀ g u f', (st.tasks t).lib = .startWait g u f' → f' = f)
    (hsf : ∀ u, (st.tasks u).startFut = some f → ∃ g, (st.tasks t).lib = .startWait g u f)
    (hj : ∀ g u s e, (st.tasks t).lib = .startJoin g u s e →
      f ∈ (st.tasks u).hwaiters ∨ (st.tasks u).finished = true) :
    FInv (blockOn st t f) := by
  unfold blockOn
  simp only []
  have h1 : FInv { st.setTask t (fun x => { x with st := .blocked f }) with
      futWaiter := upd st.futWaiter f (some t), running := none } :=
    finv_fsame (finv_setBlocked h t f hlt hw hsf hj)
      (fsame_loop rfl rfl rfl rfl rfl rfl (fun f hf => hf))
  split
  · refine finv_resolveFut (finv_fsame h1 (fsame_setTask _ _ _ (by simp))) _ _ rfl hlt
      (by simp) ?_
    intro hc; cases hc
  · exact h1

theorem finv_foldl_resolveFut {st : State} (h : FInv st) (l : List Nat) (t0 : Nat)
    (hfin : (st.tasks t0).finished = true) (hl : ∀ f ∈ l, f ∈ (st.tasks t0).hwaiters) :
    FInv (l.foldl (fun st f => resolveFut st f .result) st) := by
  induction l generalizing st with
  | nil => exact h
  | cons f l ih =>
    simp only [List.foldl_cons]
    have fr := frame_resolveFut st f .result
    apply ih
    · refine finv_resolveFut h f .result rfl (h.role_lt f (.hw t0) (hl f (by simp))) (by simp) ?_
      intro _ t g u s e hlib hb
      rcases h.sj_blk t g u s e f hlib hb with hm | hm
      · have := h.role_uniq f (.hw u) (.hw t0) hm (hl f (by simp))
        cases this; exact hfin
      · exact hm
    · rw [(fr.tasks t0).finished]; exact hfin
    · intro f' hf'
      rw [(fr.tasks t0).hwaiters]; exact hl f' (by simp [hf'])

theorem finv_hwAppend {st : State} (h : FInv st) (u f : Nat) (hf : FFresh st f)
    (hu : u < st.nTasks) :
    FInv (st.setTask u (fun x => { x with hwaiters := x.hwaiters ++ [f] })) := by
  have hro := roles_of_add (b := st.setTask u (fun x => { x with hwaiters := x.hwaiters ++ [f] }))
    h (Nat.le_refl _) f (.hw u) hf.norole hf.lt (by
      intro f' r hr
      cases r with
      | start u' =>
        left
        simp only [HasRole, setTask_tasks] at hr ⊢
        by_cases hu : u' = u
        · subst hu; simpa using hr
        · simpa [hu] using hr
      | onC g => exact .inl hr
      | hw u' =>
        simp only [HasRole, setTask_tasks] at hr ⊢
        by_cases hu : u' = u
        · subst hu
          simp only [upd_same, List.mem_append, List.mem_singleton] at hr
          rcases hr with hr | hr
          · exact .inl hr
          · exact .inr ⟨hr, rfl⟩
        · left; simpa [hu] using hr
      | sleep =>
        left
        simp only [HasRole, setTask_tasks] at hr ⊢
        rcases hr with ⟨t, ht⟩ | hr
        · refine .inl ⟨t, ?_⟩
          by_cases hu : t = u
          · subst hu; simpa using ht
          · simpa [hu] using ht
        · exact .inr hr
      | user => exact .inl hr)
  obtain ⟨a1, a2, a3, a4, a5, a6, a7, a8, a9, a10, a11, a12, a13, a14⟩ := h
  constructor
  · exact hro.1
  · exact hro.2
  all_goals (simp only [setTask_tasks, setTask_futs, setTask_nTasks, setTask_nFuts]; grind [upd_apply])

theorem finv_setFinished {st : State} (h : FInv st) (t : Nat) (o : ExcVal) (ht : t < st.nTasks) :
    FInv (st.setTask t (fun x => { x with hexc := o, finished := true })) := by
  have hro := roles_of_sub (b := st.setTask t (fun x => { x with hexc := o, finished := true })) h
    (Nat.le_refl _) (fun f r hr => hasRole_setTask rfl rfl (fun f hf => .inl ⟨t, hf⟩) hr)
  obtain ⟨a1, a2, a3, a4, a5, a6, a7, a8, a9, a10, a11, a12, a13, a14⟩ := h
  constructor
  · exact hro.1
  · exact hro.2
  all_goals (simp only [setTask_tasks, setTask_futs, setTask_nTasks, setTask_nFuts]; grind [upd_apply])

theorem finv_hwClear {st : State} (h : FInv st) (t : Nat) (hf : (st.tasks t).finished = true) :
    FInv (st.setTask t (fun x => { x with hwaiters := [] })) := by
  have hro := roles_of_sub (b := st.setTask t (fun x => { x with hwaiters := [] })) h
    (Nat.le_refl _) (by
      intro f' r hr
      cases r with
      | start u' =>
        simp only [HasRole, setTask_tasks] at hr ⊢
        by_cases hu : u' = t
        · subst hu; simpa using hr
        · simpa [hu] using hr
      | onC g => exact hr
      | hw u' =>
        simp only [HasRole, setTask_tasks] at hr ⊢
        by_cases hu : u' = t
        · subst hu; simp at hr
        · simpa [hu] using hr
      | sleep =>
        simp only [HasRole, setTask_tasks] at hr ⊢
        rcases hr with ⟨t', ht⟩ | hr
        · refine .inl ⟨t', ?_⟩
          by_cases hu : t' = t
          · subst hu; simpa using ht
          · simpa [hu] using ht
        · exact .inr hr
      | user => exact hr)
  obtain ⟨a1, a2, a3, a4, a5, a6, a7, a8, a9, a10, a11, a12, a13, a14⟩ := h
  constructor
  · exact hro.1
  · exact hro.2
  all_goals (simp only [setTask_tasks, setTask_futs, setTask_nTasks, setTask_nFuts]; grind [upd_apply])

/-- only the roles change -/
theorem finv_of_roles {a b : State} (h : FInv a) (ht : b.tasks = a.tasks) (hf : b.futs = a.futs)
    (h1 : b.nFuts = a.nFuts) (h2 : b.nTasks = a.nTasks)
    (hro : (∀ f r, HasRole b f r → f < b.nFuts) ∧
      (∀ f r r', HasRole b f r → HasRole b f r' → r = r')) : FInv b := by
  obtain ⟨a1, a2, a3, a4, a5, a6, a7, a8, a9, a10, a11, a12, a13, a14⟩ := h
  constructor
  · exact hro.1
  · exact hro.2
  all_goals (simp only [ht, hf, h1, h2]; assumption)

theorem finv_oncSet {st : State} (h : FInv st) (g f : Nat) (hf : FFresh st f) :
    FInv (st.setGroup g (fun x => { x with onCompleted := some f })) := by
  refine finv_of_roles h rfl rfl rfl rfl ?_
  refine roles_of_add h (Nat.le_refl _) f (.onC g) hf.norole hf.lt ?_
  intro f' r hr
  cases r with
  | onC g' =>
    simp only [HasRole, setGroup_groups] at hr ⊢
    by_cases hg : g' = g
    · subst hg
      simp only [upd_same, Option.some.injEq] at hr
      exact .inr ⟨hr.symm, rfl⟩
    · left; simpa [hg] using hr
  | _ => exact .inl hr

theorem finv_userSet {st : State} (h : FInv st) (f : Nat) (hf : FFresh st f) :
    FInv { st with userFut := upd st.userFut f true } := by
  refine finv_of_roles h rfl rfl rfl rfl ?_
  refine roles_of_add h (Nat.le_refl _) f .user hf.norole hf.lt ?_
  intro f' r hr
  cases r with
  | user =>
    simp only [HasRole] at hr ⊢
    by_cases hff : f' = f
    · exact .inr ⟨hff, by simp⟩
    · left; simpa [hff] using hr
  | _ => exact .inl hr

theorem finv_addSleepTimer {st : State} (h : FInv st) (d f : Nat) (hf : FFresh st f) :
    FInv { st with timers := st.timers ++ [(d, Handle.sleepDone f)] } := by
  refine finv_of_roles h rfl rfl rfl rfl ?_
  refine roles_of_add h (Nat.le_refl _) f .sleep hf.norole hf.lt ?_
  intro f' r hr
  cases r with
  | sleep =>
    simp only [HasRole, sdIn] at hr ⊢
    rcases hr with hr | hr | hr | ⟨d', hr⟩
    · exact .inl (.inl hr)
    · exact .inl (.inr (.inl hr))
    · exact .inl (.inr (.inr (.inl hr)))
    · simp only [List.mem_append, List.mem_singleton, Prod.mk.injEq, Handle.sleepDone.injEq] at hr
      rcases hr with hr | ⟨_, hr⟩
      · exact .inl (.inr (.inr (.inr ⟨d', hr⟩)))
      · exact .inr ⟨hr, by simp⟩
  | _ => exact .inl hr

theorem finv_newFut {st : State} (h : FInv st) :
    FInv (newFut st).1 ∧ FFresh (newFut st).1 st.nFuts := by
  have sub : ∀ f r, HasRole (newFut st).1 f r → HasRole st f r := by
    intro f r hr
    cases r <;> exact hr
  have hro := roles_of_sub (b := (newFut st).1) h (by simp [newFut]) sub
  refine ⟨?_, ?_⟩
  · obtain ⟨a1, a2, a3, a4, a5, a6, a7, a8, a9, a10, a11, a12, a13, a14⟩ := h
    constructor
    · exact hro.1
    · exact hro.2
    · intro u hu; exact a3 u hu
    · intro t f hb; have := a4 t f hb; simp [newFut]; omega
    · intro t f hw
      have := a4 t f (.inr hw)
      have hne : f ≠ st.nFuts := by omega
      simpa [newFut, hne] using a5 t f hw
    · exact a6
    · exact a7
    · exact a8
    · exact a9
    · exact a10
    · intro t g u s e f hlib hw hr
      have := a4 t f (.inr hw)
      have hne : f ≠ st.nFuts := by omega
      exact a11 t g u s e f hlib hw (by simpa [newFut, hne] using hr)
    · intro f hf
      have h1 : st.nFuts ≤ f := by simp [newFut] at hf; omega
      have hne : f ≠ st.nFuts := by simp [newFut] at hf; omega
      simpa [newFut, hne] using a12 f h1
    · intro f
      by_cases hne : f = st.nFuts
      · subst hne; simp [newFut]
      · simpa [newFut, hne] using a13 f
    · exact a14
  · refine ⟨by simp [newFut], fun r hr => ?_, fun t => ?_, by simp [newFut]⟩
    · exact absurd (h.role_lt _ r (sub _ r hr)) (Nat.lt_irrefl _)
    · have := h.blk_lt t st.nFuts
      simp only [newFut, setFut_tasks]
      grind

/-- the new task record of `_spawn` -/
def newTaskSt (st : State) (g gs hs : Nat) (sf : Option Nat) : State :=
  { st.setTask st.nTasks (fun _ =>
      { st := .created, hasState := true, scope := some gs, group := some g,
        startFut := sf, hscope := some hs }) with nTasks := st.nTasks + 1 }

theorem finv_newTask {st : State} (h : FInv st) (g gs hs : Nat) (sf : Option Nat)
    (hsf : ∀ f, sf = some f → FFresh st f) : FInv (newTaskSt st g gs hs sf) := by
  have hd := h.tk_dflt st.nTasks (Nat.le_refl _)
  have sub : ∀ f r, HasRole (newTaskSt st g gs hs sf) f r →
      HasRole st f r ∨ (sf = some f ∧ r = .start st.nTasks) := by
    intro f r hr
    cases r with
    | start u =>
      simp only [HasRole, newTaskSt, setTask_tasks] at hr ⊢
      by_cases hu : u = st.nTasks
      · subst hu
        simp only [upd_same] at hr
        exact .inr ⟨hr, rfl⟩
      · left; simpa [hu] using hr
    | onC g' => exact .inl hr
    | hw u =>
      left
      simp only [HasRole, newTaskSt, setTask_tasks] at hr ⊢
      by_cases hu : u = st.nTasks
      · subst hu; simp at hr
      · simpa [hu] using hr
    | sleep =>
      left
      simp only [HasRole, newTaskSt, setTask_tasks] at hr ⊢
      rcases hr with ⟨t, ht⟩ | hr
      · refine .inl ⟨t, ?_⟩
        by_cases hu : t = st.nTasks
        · subst hu; simp at ht
        · simpa [hu] using ht
      · exact .inr hr
    | user => exact .inl hr
  have hro : (∀ f r, HasRole (newTaskSt st g gs hs sf) f r → f < st.nFuts) ∧
      (∀ f r r', HasRole (newTaskSt st g gs hs sf) f r →
        HasRole (newTaskSt st g gs hs sf) f r' → r = r') := by
    cases sf with
    | none =>
      exact roles_of_sub (b := newTaskSt st g gs hs none) h (Nat.le_refl _) (fun f r hr => by
        rcases sub f r hr with h1 | ⟨h1, _⟩
        · exact h1
        · cases h1)
    | some F =>
      have hF := hsf F rfl
      exact roles_of_add (b := newTaskSt st g gs hs (some F)) h (Nat.le_refl _) F
        (.start st.nTasks) hF.norole hF.lt (fun f r hr => by
        rcases sub f r hr with h1 | ⟨h1, h2⟩
        · exact .inl h1
        · cases h1; exact .inr ⟨rfl, h2⟩)
  have hnb : ∀ f, sf = some f → ∀ t, (st.tasks t).st ≠ .blocked f := fun f hf t =>
    ((hsf f hf).noblk t).1
  obtain ⟨a1, a2, a3, a4, a5, a6, a7, a8, a9, a10, a11, a12, a13, a14⟩ := h
  constructor
  · exact hro.1
  · exact hro.2
  all_goals (simp only [newTaskSt, setTask_tasks, setTask_futs, setTask_nTasks, setTask_nFuts]; grind [upd_apply])

theorem finv_spawnCore {st : State} (h : FInv st) (g gs hs : Nat) (sf : Option Nat)
    (hsf : ∀ f, sf = some f → FFresh st f) : FInv (spawnCore st g gs hs sf) := by
  have e : spawnCore st g gs hs sf = (((newTaskSt st g gs hs sf).schedule (.step st.nTasks)).setScope gs
      (fun x => { x with tasks := st.nTasks :: x.tasks })).setGroup g
      (fun x => { x with tasks := st.nTasks :: x.tasks, spawned := st.nTasks :: x.spawned }) := rfl
  rw [e]
  refine finv_fsame (finv_newTask h g gs hs sf hsf) ?_
  exact ((fsame_schedule _ _ (fun f => by simp)).trans (fsame_setScope _ _ _)).trans
    (fsame_setGroup _ _ _ (.inl rfl))

end AnyioModel.Kernel
