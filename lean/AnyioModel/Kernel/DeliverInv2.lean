/-
Delivery of cancellation, part 2: what one delivery does to each task.

`BW` ("blocked tasks wait"): a task that is `.blocked f` is the registered waiter of `f` and `f` is
pending.  Under `BW` the loop body `hit1` touches only the task it is applied to, and a second
application to the same task is a no-op; hence the effect of the whole walk on a task `t` is the
effect of the first pair `(s, t)` with `hitCancels`, if there is one (`foldl_hit1_task`).
-/
import AnyioModel.Kernel.DeliverInv

namespace AnyioModel.Kernel

/-- a blocked task is the waiter of its future, and the future is pending -/
def BW (st : State) : Prop :=
  ∀ t f, (st.tasks t).st = .blocked f → st.futWaiter f = some t ∧ st.futs f = .pending

/-- the effect of `Task.cancel()` by a delivery on the cancelled task's record and surroundings -/
structure HitRel (x y : State) (t : Nat) : Prop where
  nAnyio : (y.tasks t).nAnyio = (x.tasks t).nAnyio + 1
  blocked : ∀ f, (x.tasks t).st = .blocked f → (y.tasks t).st = .woken f ∧
    y.futs f = .cancelled true ∧ Handle.wakeup t ∈ y.ready ∧
    (y.tasks t).mustCancel = (x.tasks t).mustCancel
  other : (∀ f, (x.tasks t).st ≠ .blocked f) → (y.tasks t).st = (x.tasks t).st ∧
    (y.tasks t).mustCancel = true ∧ (y.tasks t).mcAnyio = true

theorem taskCancel_blocked {x : State} {t f : Nat} (bw : BW x) (hb : (x.tasks t).st = .blocked f) :
    ((taskCancel x t true).tasks t).st = .woken f ∧
    ((taskCancel x t true).tasks t).mustCancel = (x.tasks t).mustCancel ∧
    ((taskCancel x t true).tasks t).nAnyio = (x.tasks t).nAnyio + 1 ∧
    (taskCancel x t true).futs f = .cancelled true ∧
    (taskCancel x t true).ready = x.ready ++ [.wakeup t] ∧
    (∀ u, u ≠ t → (taskCancel x t true).tasks u = x.tasks u) ∧
    (∀ g, g ≠ f → (taskCancel x t true).futs g = x.futs g) ∧
    (taskCancel x t true).futWaiter = x.futWaiter := by
  obtain ⟨hw, hp⟩ := bw t f hb
  have hnd : (x.tasks t).st ≠ .done := by rw [hb]; simp
  unfold taskCancel
  simp only [hb, if_true]
  simp only [show (TSt.blocked f = TSt.done) = False from by simp, if_false]
  unfold resolveFut
  simp [hp, FutSt.done, hw, hb]
  refine ⟨?_, ?_⟩
  · intro u hu; simp [hu]
  · intro g hg; simp [hg]

theorem taskCancel_other {x : State} {t : Nat} (hnd : (x.tasks t).st ≠ .done)
    (hb : ∀ f, (x.tasks t).st ≠ .blocked f) :
    ((taskCancel x t true).tasks t).st = (x.tasks t).st ∧
    ((taskCancel x t true).tasks t).mustCancel = true ∧
    ((taskCancel x t true).tasks t).mcAnyio = true ∧
    ((taskCancel x t true).tasks t).nAnyio = (x.tasks t).nAnyio + 1 ∧
    (∀ u, u ≠ t → (taskCancel x t true).tasks u = x.tasks u) ∧
    (taskCancel x t true).futs = x.futs ∧
    (taskCancel x t true).ready = x.ready ∧
    (taskCancel x t true).futWaiter = x.futWaiter := by
  unfold taskCancel
  simp only []
  rw [if_neg hnd]
  simp
  intro u hu; simp [hu]

theorem hitDo_task_other (x : State) (o t : Nat) {u : Nat} (hu : u ≠ t) :
    (hitDo x o t).tasks u = x.tasks u := by
  unfold hitDo; split <;> simp [hu]

theorem hitDo_task_self (x : State) (o t : Nat) :
    ((hitDo x o t).tasks t).st = (x.tasks t).st ∧
    ((hitDo x o t).tasks t).mustCancel = (x.tasks t).mustCancel ∧
    ((hitDo x o t).tasks t).mcAnyio = (x.tasks t).mcAnyio ∧
    ((hitDo x o t).tasks t).nAnyio = (x.tasks t).nAnyio ∧
    (hitDo x o t).futs = x.futs ∧ (hitDo x o t).ready = x.ready ∧
    (hitDo x o t).futWaiter = x.futWaiter := by
  unfold hitDo; split <;> simp

theorem hitDo_st (x : State) (o t u : Nat) : ((hitDo x o t).tasks u).st = (x.tasks u).st := by
  by_cases hu : u = t
  · subst hu; exact (hitDo_task_self x o u).1
  · rw [hitDo_task_other x o t hu]

/-- `hitCancels` only reads the task's record, the running task and the scope's host -/
theorem hitCancels_congr {x y : State} {s t : Nat} (h1 : y.tasks t = x.tasks t)
    (h2 : y.running = x.running) (h3 : (y.scopes s).host = (x.scopes s).host) :
    hitCancels y s t = hitCancels x s t := by
  unfold hitCancels; rw [h1, h2, h3]

theorem hitCancels_blocked_or {x : State} {s t : Nat} (h : hitCancels x s t = true) :
    (x.tasks t).st ≠ .done ∧ (x.tasks t).mustCancel = false ∧ ∀ f, (x.tasks t).st ≠ .woken f := by
  simp only [hitCancels, Bool.and_eq_true, decide_eq_true_eq, Bool.not_eq_eq_eq_not,
    Bool.not_true] at h
  obtain ⟨⟨⟨h1, h2⟩, _⟩, h4⟩ := h
  refine ⟨h1, h2, ?_⟩
  intro f hf; rw [hf] at h4; simp at h4

theorem hitCancels_of_mustCancel {x : State} {s t : Nat} (h : (x.tasks t).mustCancel = true) :
    hitCancels x s t = false := by
  simp [hitCancels, h]

theorem hitCancels_of_woken {x : State} {s t f : Nat} (h : (x.tasks t).st = .woken f) :
    hitCancels x s t = false := by
  simp [hitCancels, h]

/-- one application of the loop body -/
theorem hit1_spec {x : State} (bw : BW x) (o s t : Nat) :
    BW (hit1 o x (s, t)) ∧
    (∀ u, u ≠ t → (hit1 o x (s, t)).tasks u = x.tasks u) ∧
    (hitCancels x s t = false → hit1 o x (s, t) = x) ∧
    (hitCancels x s t = true → HitRel x (hit1 o x (s, t)) t ∧
      ∀ s', hitCancels (hit1 o x (s, t)) s' t = false) := by
  cases hc : hitCancels x s t
  · have e : hit1 o x (s, t) = x := by simp [hit1, hc]
    rw [e]
    exact ⟨bw, fun _ _ => rfl, fun _ => rfl, fun h => by cases h⟩
  · have e : hit1 o x (s, t) = hitDo (taskCancel x t true) o t := by simp [hit1, hc]
    rw [e]
    obtain ⟨hnd, hmc, hnw⟩ := hitCancels_blocked_or hc
    have hs := hitDo_task_self (taskCancel x t true) o t
    by_cases hb : ∃ f, (x.tasks t).st = .blocked f
    · obtain ⟨f, hb⟩ := hb
      obtain ⟨c1, c2, c3, c4, c5, c6, c7, c8⟩ := taskCancel_blocked bw hb
      refine ⟨?_, ?_, ?_, fun _ => ⟨⟨?_, ?_, ?_⟩, ?_⟩⟩
      rotate_left 2
      · intro h; cases h
      rotate_right 2
      · intro u g hu
        rw [hitDo_st] at hu
        rw [hs.2.2.2.2.1, hs.2.2.2.2.2.2, c8]
        by_cases hut : u = t
        · subst hut; rw [c1] at hu; cases hu
        · rw [c6 u hut] at hu
          have := bw u g hu
          refine ⟨this.1, ?_⟩
          by_cases hgf : g = f
          · subst hgf
            have := (bw t g hb).1
            simp_all
          · rw [c7 g hgf]; exact this.2
      · intro u hu; rw [hitDo_task_other _ _ _ hu, c6 u hu]
      · rw [hs.2.2.2.1, c3]
      · intro g hg
        rw [hb] at hg
        cases hg
        refine ⟨by rw [hs.1, c1], by rw [hs.2.2.2.2.1, c4], by rw [hs.2.2.2.2.2.1, c5]; simp,
          by rw [hs.2.1, c2]⟩
      · intro h; exact absurd hb (h f)
      · intro s'; exact hitCancels_of_woken (f := f) (by rw [hs.1, c1])
    · have hb' : ∀ f, (x.tasks t).st ≠ .blocked f := fun f hf => hb ⟨f, hf⟩
      obtain ⟨c1, c2, c3, c4, c5, c6, c7, c8⟩ := taskCancel_other hnd hb'
      refine ⟨?_, ?_, ?_, fun _ => ⟨⟨?_, ?_, ?_⟩, ?_⟩⟩
      rotate_left 2
      · intro h; cases h
      rotate_right 2
      · intro u g hu
        rw [hitDo_st] at hu
        rw [hs.2.2.2.2.1, hs.2.2.2.2.2.2, c8, c6]
        by_cases hut : u = t
        · subst hut; rw [c1] at hu; exact bw u g hu
        · rw [c5 u hut] at hu; exact bw u g hu
      · intro u hu; rw [hitDo_task_other _ _ _ hu, c5 u hu]
      · rw [hs.2.2.2.1, c4]
      · intro g hg; exact absurd hg (hb' g)
      · intro _; exact ⟨by rw [hs.1, c1], by rw [hs.2.1, c2], by rw [hs.2.2.1, c3]⟩
      · intro s'; exact hitCancels_of_mustCancel (by rw [hs.2.1, c2])

theorem bw_foldl_hit1 {x : State} (bw : BW x) (o : Nat) (l : List (Nat × Nat)) :
    BW (l.foldl (hit1 o) x) := by
  induction l generalizing x with
  | nil => exact bw
  | cons p l ih => exact ih (hit1_spec bw o p.1 p.2).1

/-- monotone part of `HitRel`: later applications of the loop body do not undo it -/
theorem HitRel.frame {x y z : State} {t : Nat} (h : HitRel x y t) (f : Frame y z)
    (ht : z.tasks t = y.tasks t) : HitRel x z t := by
  obtain ⟨l, hl, _⟩ := f.ready
  constructor
  · rw [ht]; exact h.nAnyio
  · intro g hg
    obtain ⟨h1, h2, h3, h4⟩ := h.blocked g hg
    refine ⟨by rw [ht]; exact h1, ?_, ?_, by rw [ht]; exact h4⟩
    · rw [f.futs g (by rw [h2]; rfl)]; exact h2
    · rw [hl]; exact List.mem_append_left _ h3
  · intro hb; rw [ht]; exact h.other hb

/-- the effect of the whole walk on one task -/
theorem foldl_hit1_task (o : Nat) (l : List (Nat × Nat)) {x : State} (bw : BW x) (t : Nat) :
    ((∀ s, (s, t) ∈ l → hitCancels x s t = false) → (l.foldl (hit1 o) x).tasks t = x.tasks t) ∧
    ((∃ s, (s, t) ∈ l ∧ hitCancels x s t = true) → HitRel x (l.foldl (hit1 o) x) t) := by
  induction l generalizing x with
  | nil => exact ⟨fun _ => rfl, fun ⟨s, h, _⟩ => by cases h⟩
  | cons p l ih =>
    obtain ⟨s, u⟩ := p
    obtain ⟨b1, b2, b3, b4⟩ := hit1_spec bw o s u
    have f1 := frame_hit1 o x (s, u)
    simp only [List.foldl_cons]
    have ih' := ih b1
    by_cases hut : u = t
    · subst hut
      cases hc : hitCancels x s u
      · -- skipped: same state
        rw [b3 hc]
        constructor
        · intro h; exact (ih bw).1 (fun s' hs' => h s' (List.mem_cons_of_mem _ hs'))
        · rintro ⟨s', hs', hh⟩
          rcases List.mem_cons.mp hs' with e | hs'
          · cases e; rw [hc] at hh; cases hh
          · exact (ih bw).2 ⟨s', hs', hh⟩
      · -- hit here; every later visit of `u` is a skip
        obtain ⟨r1, r2⟩ := b4 hc
        constructor
        · intro h; have := h s (List.mem_cons_self ..); rw [hc] at this; cases this
        · intro _
          exact r1.frame (frame_foldl_hit1 _ _ _) (ih'.1 (fun s' _ => r2 s'))
    · -- another task: `t` is untouched, and `hitCancels _ _ t` reads the same
      have e := b2 t (Ne.symm hut)
      have hce : ∀ s', hitCancels (hit1 o x (s, u)) s' t = hitCancels x s' t := fun s' =>
        hitCancels_congr e f1.running (f1.scopes s').host
      constructor
      · intro h
        rw [ih'.1 (fun s' hs' => by rw [hce]; exact h s' (List.mem_cons_of_mem _ hs')), e]
      · rintro ⟨s', hs', hh⟩
        rcases List.mem_cons.mp hs' with e' | hs'
        · cases e'; exact absurd rfl hut
        · have r := ih'.2 ⟨s', hs', by rw [hce]; exact hh⟩
          obtain ⟨l', hl', _⟩ := f1.ready
          constructor
          · rw [r.nAnyio, e]
          · intro g hg
            have := r.blocked g (by rw [e]; exact hg)
            rw [e] at this; exact this
          · intro hb
            have := r.other (by rw [e]; exact hb)
            rw [e] at this; exact this

/-- what `_deliver_cancellation` from `o` does to each task: those in `hitSet` get one
`Task.cancel()`, every other task's record is left as it was -/
theorem deliverGo_task {st : State} (w : Tree st) (bw : BW st) (o t : Nat) :
    (hitSet st o t → HitRel st (deliverGo (st.nScopes + 1) st o o).1 t) ∧
    (¬ hitSet st o t → (deliverGo (st.nScopes + 1) st o o).1.tasks t = st.tasks t) := by
  rw [deliverGo_eq]
  have h := foldl_hit1_task o (visitP st (st.nScopes + 1) o) bw t
  constructor
  · rintro ⟨c, hr, ht, hc⟩
    exact h.2 ⟨c, (mem_visitP_iff w).mpr ⟨hr, ht⟩, hc⟩
  · intro hn
    apply h.1
    intro s hs
    have := (mem_visitP_iff w).mp hs
    cases hc : hitCancels st s t
    · rfl
    · exact absurd ⟨s, this.1, this.2, hc⟩ hn

theorem bw_deliverGo {st : State} (bw : BW st) (n o s : Nat) : BW (deliverGo n st o s).1 := by
  rw [deliverGo_eq]; exact bw_foldl_hit1 bw o _

end AnyioModel.Kernel
