/-
The cancellation-count invariant `CI`, part 2: preservation by the helpers of `Kernel/Scope.lean`.
-/
import AnyioModel.Kernel.CountInv

namespace AnyioModel.Kernel

/-! ### the delivery loop -/

/-- one `task.cancel()` of the delivery loop with its bookkeeping -/
theorem ci_hitDo {st : State} (h : CI st) (origin t : Nat) (hd : (st.tasks t).st ≠ .done) :
    CI (hitDo (taskCancel st t true) origin t) := by
  have g := taskCancel_ghost_self st t true hd
  simp only [if_true] at g
  obtain ⟨g1, g2, g3, g4, g5, g6, g7, g8⟩ := g
  have hsc := taskCancel_scopes st t true
  have hn : (taskCancel st t true).nScopes = st.nScopes := (frame_taskCancel st t true).nScopes
  have ho : ∀ u, u ≠ t → GhostEq (st.tasks u) ((taskCancel st t true).tasks u) :=
    fun u hu => taskCancel_ghost_other st t true hu
  have c := h.count t
  have a := h.anyio t
  have tt := h.total t
  have us := h.user t
  unfold hitDo
  rw [hsc]
  split
  · rename_i hh
    apply h.change1 t origin (by simpa using hn) (h.host_lt _ _ hh)
    · intro s hs; simp [hs, hsc, SG]
    · intro u hu
      have : ¬ t = u := fun e => hu e.symm
      simp [contrib, hsc, hh, this]
    · intro u hu; simpa [hu] using ho u hu
    · simp [contrib, hsc, hh, g1, g2, g5, g7, g8]; omega
    · simp [g2, g5]; exact us
    · simp [hsc, hh]
    · simp [g3, g6, g7]; omega
    · simp [g1, g2, g3, g4]; omega
  · apply h.change0 t (by simpa using hn)
    · intro s; simp [hsc, SG]
    · intro u hu; simpa [hu] using ho u hu
    · simp [g1, g2, g5, g7, g8]; omega
    · simp [g2, g5]; exact us
    · simp [g3, g6, g7]; omega
    · simp [g1, g2, g3, g4]; omega

theorem ci_hitTask {acc : State × Bool} (h : CI acc.1) (origin s t : Nat) :
    CI (hitTask origin s acc t).1 := by
  cases hc : hitCancels acc.1 s t
  · rw [hitTask_skip origin s acc t hc]; exact h
  · rw [hitTask_hit origin s acc t hc]
    apply ci_hitDo h
    simp only [hitCancels, Bool.and_eq_true, decide_eq_true_eq] at hc
    exact hc.1.1.1

theorem ci_foldl {α β : Type} (f : State × β → α → State × β)
    (hf : ∀ acc x, CI acc.1 → CI (f acc x).1) (l : List α) (acc : State × β) (h : CI acc.1) :
    CI (l.foldl f acc).1 := by
  induction l generalizing acc with
  | nil => exact h
  | cons x l ih => exact ih _ (hf acc x h)

theorem ci_deliverGo (fuel : Nat) {st : State} (h : CI st) (origin s : Nat) :
    CI (deliverGo fuel st origin s).1 := by
  induction fuel generalizing st s with
  | zero => exact h
  | succ n ih =>
    unfold deliverGo
    simp only []
    apply ci_foldl
    · intro acc c hacc
      split
      · exact ih hacc _
      · exact hacc
    · exact ci_foldl (hitTask origin s) (fun acc x hacc => ci_hitTask hacc origin s x) _ (st, false) h

theorem ci_deliver {st : State} (h : CI st) (origin : Nat) : CI (deliver st origin) := by
  unfold deliver
  simp only []
  have h1 := ci_deliverGo (st.nScopes + 1) h origin origin
  split
  · exact (h1.gf (GF.of_setScope _ _ _ ⟨rfl, rfl⟩)).gf (GF.of_schedule _ _)
  · exact h1.gf (GF.of_setScope _ _ _ ⟨rfl, rfl⟩)

theorem ci_restartList {st : State} (h : CI st) (l : List Nat) : CI (restartList st l) := by
  induction l with
  | nil => exact h
  | cons s rest ih =>
    unfold restartList
    split
    · split
      · exact h
      · exact ci_deliver h _
    · split
      · exact h
      · exact ih

theorem ci_restartInParent {st : State} (h : CI st) (s : Nat) : CI (restartInParent st s) :=
  ci_restartList h _

theorem ci_cancelScope {st : State} (h : CI st) (s : Nat) (b : Bool) : CI (cancelScope st s b) := by
  unfold cancelScope
  split
  · exact h
  · have h1 : CI (if (st.scopes s).timer then
        (st.unschedule (.timeout s)).setScope s (fun x => { x with timer := false }) else st) := by
      split
      · exact (h.gf (GF.of_unschedule _ _)).gf (GF.of_setScope _ _ _ ⟨rfl, rfl⟩)
      · exact h
    simp only []
    generalize (if (st.scopes s).timer then _ else st) = st1 at h1
    have h2 : CI (st1.setScope s (fun x =>
        { x with cancelCalled := true, byDeadline := b, cancelTime := st1.now })) :=
      h1.gf (GF.of_setScope _ _ _ ⟨rfl, rfl⟩)
    split
    · exact ci_deliver h2 _
    · exact h2

theorem ci_armTimeout {st : State} (h : CI st) (s : Nat) : CI (armTimeout st s) := by
  unfold armTimeout
  split
  · exact h
  · split
    · exact ci_cancelScope h _ _
    · exact (h.gf (GF.of_setScope _ s (fun x => { x with timer := true }) ⟨rfl, rfl⟩)).gf
        (GF.of_eq rfl rfl rfl)

theorem ci_setShield {st : State} (h : CI st) (s : Nat) (b : Bool) : CI (setShield st s b) := by
  unfold setShield
  split
  · exact h
  · simp only []
    have h1 : CI (st.setScope s (fun x => { x with shield := b })) :=
      h.gf (GF.of_setScope _ _ _ ⟨rfl, rfl⟩)
    split
    · exact h1
    · exact ci_restartInParent h1 _

theorem ci_setDeadline {st : State} (h : CI st) (s : Nat) (d : Option Nat) :
    CI (setDeadline st s d) := by
  unfold setDeadline
  simp only []
  have h0 : CI (st.setScope s (fun x => { x with deadline := d })) :=
    h.gf (GF.of_setScope _ _ _ ⟨rfl, rfl⟩)
  generalize st.setScope s (fun x => { x with deadline := d }) = st0 at h0
  have h1 : CI (if (st0.scopes s).timer then
      (st0.unschedule (.timeout s)).setScope s (fun x => { x with timer := false }) else st0) := by
    split
    · exact (h0.gf (GF.of_unschedule _ _)).gf (GF.of_setScope _ _ _ ⟨rfl, rfl⟩)
    · exact h0
  generalize (if (st0.scopes s).timer then _ else st0) = st1 at h1
  split
  · exact ci_armTimeout h1 _
  · exact h1

theorem ci_taskCancel_native {st : State} (h : CI st) (t : Nat) : CI (taskCancel st t false) := by
  by_cases hd : (st.tasks t).st = .done
  · rw [taskCancel_done st t false hd]; exact h
  · have g := taskCancel_ghost_self st t false hd
    simp only [Bool.false_eq_true, if_false] at g
    obtain ⟨g1, g2, g3, g4, g5, g6, g7, g8⟩ := g
    have c := h.count t
    have a := h.anyio t
    have tt := h.total t
    have us := h.user t
    apply h.change0 t (frame_taskCancel st t false).nScopes
    · intro s; rw [taskCancel_scopes]; exact ⟨rfl, rfl⟩
    · intro u hu; exact taskCancel_ghost_other st t false hu
    · omega
    · omega
    · omega
    · omega

/-- `Task.uncancel()` by user code, under the API discipline guard of the `.uncancel` event -/
theorem ci_userUncancel {st : State} (h : CI st) (t : Nat)
    (hg : (st.tasks t).nUserUncancel < (st.tasks t).nNative) :
    CI ((taskUncancel st t 1).setTask t (fun x => { x with nUserUncancel := x.nUserUncancel + 1 })) := by
  have c := h.count t
  have a := h.anyio t
  have tt := h.total t
  apply h.change0 t
  · rfl
  · intro s; exact ⟨rfl, rfl⟩
  · intro u hu; simp [taskUncancel, hu]; exact GhostEq.refl _
  · simp [taskUncancel]; omega
  · simp [taskUncancel]; omega
  · simp [taskUncancel]; omega
  · simp [taskUncancel]; omega

/-! ### `__enter__` -/

theorem ci_enterCore {st : State} (h : CI st) (t s : Nat) (hh : (st.scopes s).host = none)
    (hs : s < st.nScopes) : CI (enterCore st t s) := by
  have h1 : CI (st.setScope s (fun x => { x with host := some t, tasks := t :: x.tasks })) := by
    have hp := h.nohost s hh
    have c := h.count t
    apply h.change1 t s
    · rfl
    · exact hs
    · intro k hk; simp [hk, SG]
    · intro u hu
      have : ¬ t = u := fun e => hu e.symm
      simp [contrib, hh, this]
    · intro u hu; exact GhostEq.refl _
    · simp [contrib, hh, hp]
    · exact h.user t
    · simp
    · exact h.anyio t
    · exact h.total t
  unfold enterCore
  simp only []
  generalize (st.setScope s (fun x => { x with host := some t, tasks := t :: x.tasks })) = st1 at h1
  split
  · exact (h1.gf (GF.of_setTask _ _ _ (by constructor <;> rfl))).gf
      (GF.of_setScope _ _ _ ⟨rfl, rfl⟩)
  · split
    · exact ((h1.gf (GF.of_setScope _ _ _ ⟨rfl, rfl⟩)).gf
        (GF.of_setTask _ _ _ (by constructor <;> rfl))).gf (GF.of_setScope _ _ _ ⟨rfl, rfl⟩)
    · exact (h1.gf (GF.of_setScope _ _ _ ⟨rfl, rfl⟩)).gf
        (GF.of_setTask _ _ _ (by constructor <;> rfl))

theorem ci_enterScope {st st' : State} {t s : Nat} (h : CI st) (hh : (st.scopes s).host = none)
    (hs : s < st.nScopes) (he : enterScope st t s = some st') : CI st' := by
  rw [enterScope_eq] at he
  split at he
  · contradiction
  · simp only [Option.some.injEq] at he
    subst he
    have h1 := (ci_armTimeout (ci_enterCore h t s hh hs) s).gf
      (GF.of_setScope _ s (fun x => { x with active := true, entered := true }) ⟨rfl, rfl⟩)
    split
    · exact ci_deliver h1 _
    · exact h1

/-! ### `__exit__` -/

theorem gf_exitCore (st : State) (t s : Nat) : GF st (exitCore st t s) := by
  unfold exitCore
  simp only []
  have h0 : GF st (st.setScope s (fun x => { x with active := false })) :=
    GF.of_setScope _ _ _ ⟨rfl, rfl⟩
  generalize st.setScope s (fun x => { x with active := false }) = st0 at h0
  have h1 : GF st (if (st.scopes s).timer then
      (st0.unschedule (.timeout s)).setScope s (fun x => { x with timer := false }) else st0) := by
    split
    · exact (h0.trans (GF.of_unschedule _ _)).trans (GF.of_setScope _ _ _ ⟨rfl, rfl⟩)
    · exact h0
  generalize (if (st.scopes s).timer then _ else st0) = st1 at h1
  have h2 : GF st (st1.setScope s (fun x => { x with tasks := x.tasks.erase t })) :=
    h1.trans (GF.of_setScope _ _ _ ⟨rfl, rfl⟩)
  generalize st1.setScope s (fun x => { x with tasks := x.tasks.erase t }) = st2 at h2
  refine GF.trans ?_ (GF.of_setTask _ _ _ (by constructor <;> rfl))
  split
  · exact h2.trans (GF.of_setScope _ _ _ ⟨rfl, rfl⟩)
  · exact h2

/-- last line of `__exit__`: clearing the host of a scope that owes nothing -/
theorem ci_fin {m : State} (h : CI m) (s : Nat) (hp : (m.scopes s).pending = 0) :
    CI (m.setScope s (fun x => { x with host := none })) := by
  cases hh : (m.scopes s).host with
  | none =>
    apply h.gf
    apply GF.of_setScope
    exact ⟨by simp [hh], rfl⟩
  | some t =>
    apply h.change1 t s
    · rfl
    · exact h.host_lt s t hh
    · intro k hk; simp [hk, SG]
    · intro u hu; simp [contrib, hp]
    · intro u hu; exact GhostEq.refl _
    · simp [contrib, hp]
    · exact h.user t
    · simp [hp]
    · exact h.anyio t
    · exact h.total t

/-- the absorbing branch: `uncancel()` × `pending`, then `pending := 0` -/
theorem ci_absorb {m : State} (h : CI m) {t s : Nat} (hh : (m.scopes s).host = some t) :
    CI ((taskUncancel m t (m.scopes s).pending).setScope s (fun x => { x with pending := 0 })) := by
  have hle := h.pending_le hh
  have c := h.count t
  have a := h.anyio t
  have tt := h.total t
  apply h.change1 t s
  · rfl
  · exact h.host_lt s t hh
  · intro k hk; simp [hk, SG, taskUncancel]
  · intro u hu
    have : ¬ t = u := fun e => hu e.symm
    simp [contrib, taskUncancel, hh, this]
  · intro u hu; simp [taskUncancel, hu]; exact GhostEq.refl _
  · simp [contrib, taskUncancel, hh]; omega
  · simp [taskUncancel]; exact h.user t
  · simp [taskUncancel, hh]
  · simp [taskUncancel]; exact a
  · simp [taskUncancel]; omega

/-- the non-absorbing branch when the scope owes something and has no same-host parent -/
theorem ci_drop {m : State} (h : CI m) {t s : Nat} (hh : (m.scopes s).host = some t) :
    CI ((m.setTask t (fun x => { x with nDropped := x.nDropped + (m.scopes s).pending })).setScope s
      (fun x => { x with pending := 0 })) := by
  have c := h.count t
  apply h.change1 t s
  · rfl
  · exact h.host_lt s t hh
  · intro k hk; simp [hk, SG]
  · intro u hu
    have : ¬ t = u := fun e => hu e.symm
    simp [contrib, hh, this]
  · intro u hu; simp [hu]; exact GhostEq.refl _
  · simp [contrib, hh]; omega
  · simp; exact h.user t
  · simp [hh]
  · simp; exact h.anyio t
  · simp; exact h.total t

/-- moving `pending s` to another scope of the same host leaves every task's sum unchanged -/
theorem pendH_handoff (n : Nat) (sc : Nat → Scope) {t s p : Nat} (hs : s < n) (hp : p < n)
    (hne : p ≠ s) (hh : (sc s).host = some t) (hph : (sc p).host = some t) (u : Nat) :
    pendH n (upd (upd sc p { sc p with pending := (sc p).pending + (sc s).pending }) s
      { (upd sc p { sc p with pending := (sc p).pending + (sc s).pending }) s with pending := 0 }) u =
      pendH n sc u := by
  have hne' : s ≠ p := fun e => hne e.symm
  generalize hsc1 : upd sc p { sc p with pending := (sc p).pending + (sc s).pending } = sc1
  have e1 : pendH n sc1 u + contrib sc u p = pendH n sc u + contrib sc1 u p :=
    pendH_upd hp (fun k hk => by subst hsc1; simp [contrib, hk])
  have e2 : pendH n (upd sc1 s { sc1 s with pending := 0 }) u + contrib sc1 u s =
      pendH n sc1 u + contrib (upd sc1 s { sc1 s with pending := 0 }) u s :=
    pendH_upd hs (fun k hk => by simp [contrib, hk])
  have c1 : contrib sc1 u p = contrib sc u p + contrib sc u s := by
    subst hsc1; simp only [contrib, upd_same, hh, hph]; split <;> rfl
  have c2 : contrib sc1 u s = contrib sc u s := by
    subst hsc1; simp [contrib, hne']
  have c3 : contrib (upd sc1 s { sc1 s with pending := 0 }) u s = 0 := by
    simp [contrib]
  omega

/-- the non-absorbing branch handing the count to a parent hosted by the same task -/
theorem ci_handoff {m : State} (h : CI m) {t s p : Nat} (hh : (m.scopes s).host = some t)
    (hp : (m.scopes p).host = some t) (hne : p ≠ s) :
    CI ((m.setScope p (fun x => { x with pending := x.pending + (m.scopes s).pending })).setScope s
      (fun x => { x with pending := 0 })) := by
  have hs := h.host_lt s t hh
  have hpl := h.host_lt p t hp
  have hne' : s ≠ p := fun e => hne e.symm
  constructor
  · intro u
    have := pendH_handoff m.nScopes m.scopes hs hpl hne hh hp u
    have c := h.count u
    simp only [setScope_tasks, setScope_nScopes, setScope_scopes]
    rw [this]; exact c
  · intro u; exact h.user u
  · intro k
    by_cases hks : k = s
    · subst hks; simp
    · by_cases hkp : k = p
      · subst hkp; simp [hks, hp]
      · simp [hks, hkp]; exact h.nohost k
  · intro k u
    by_cases hks : k = s
    · subst hks; intro _; exact hs
    · by_cases hkp : k = p
      · subst hkp; intro _; exact hpl
      · simp [hks, hkp]; exact h.host_lt k u
  · intro u; exact h.anyio u
  · intro u; exact h.total u

theorem ci_exitTail {m : State} (h : CI m) {t s : Nat} (ev : ExcVal)
    (hh : (m.scopes s).host = some t) (hpar : (m.scopes s).parent ≠ some s) :
    CI (exitTail m t s ev).1 := by
  have hA := ci_absorb h hh
  have hA0 : (((taskUncancel m t (m.scopes s).pending).setScope s
      (fun x => { x with pending := 0 })).scopes s).pending = 0 := by simp
  have hc : ∀ x : State, CI x → (x.scopes s).pending = 0 →
      CI ((x.setScope s (fun y => { y with caught := true })).setScope s
        (fun y => { y with host := none })) := by
    intro x hx hx0
    exact ci_fin (hx.gf (GF.of_setScope _ _ _ ⟨rfl, rfl⟩)) s (by simpa using hx0)
  unfold exitTail
  simp only []
  split
  · split
    · split
      · exact ci_fin hA s hA0
      · split
        · exact hc _ hA hA0
        · exact hc _ hA hA0
    · exact hc _ hA hA0
    · exact ci_fin hA s hA0
  · split
    · rename_i hpos
      have hD := ci_drop h hh
      split
      · rename_i p hpe
        split
        · rename_i hph
          have hne : p ≠ s := fun e => hpar (by rw [hpe, e])
          exact ci_fin (ci_handoff h hh hph hne) s (by simp)
        · exact ci_fin hD s (by simp)
      · exact ci_fin hD s (by simp)
    · rename_i hz
      exact ci_fin h s (by omega)

theorem ci_exitScope {st st' : State} {t s : Nat} {ev : ExcVal} {r : ExitResult} (h : CI st)
    (hpar : (st.scopes s).parent ≠ some s) (he : exitScope st t s ev = some (st', r)) :
    CI st' := by
  rw [exitScope_eq] at he
  split at he
  · contradiction
  · rename_i hg
    simp only [Option.some.injEq] at he
    have hg' : (st.scopes s).active = true ∧ (st.scopes s).host = some t ∧
        (st.tasks t).hasState = true ∧ (st.tasks t).scope = some s := by
      simpa using hg
    have g1 := gf_exitCore st t s
    have f1 := frame_restartInParent (exitCore st t s) s
    have h1 := ci_restartInParent (h.gf g1) s
    have hhost : ((restartInParent (exitCore st t s) s).scopes s).host = some t := by
      rw [(f1.scopes s).host, (g1.scopes s).1]; exact hg'.2.1
    have hparent : ((restartInParent (exitCore st t s) s).scopes s).parent ≠ some s := by
      rw [(f1.scopes s).parent]
      have : ((exitCore st t s).scopes s).parent = (st.scopes s).parent := by
        cases hB : (st.scopes s).parent <;> cases hT : (st.scopes s).timer <;>
          simp only [exitCore, hB, hT, setScope_scopes, setTask_scopes, unschedule_scopes,
            Bool.false_eq_true, if_false, if_true] <;>
          grind
      rw [this]; exact hpar
    have := ci_exitTail h1 ev hhost hparent
    rw [he] at this
    exact this

end AnyioModel.Kernel
