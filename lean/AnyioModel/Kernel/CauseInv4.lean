/-
Who can cancel a scope, part 4: the complete list (`CancelCause`) and the pass over `step`.

`cc_step`: for ANY state, if `step st e = some (st', out)` and scope `s` has `cancelCalled` after
the step, then it had it before, or `CancelCause st e s` holds.  The only structural hypothesis
(`StartOnCDisjoint`, true in every reachable state) is that no start future is at the same time the
`_on_completed_fut` of a group; it is used in one place: `task_done` first resolves
`_on_completed_fut` and then reads the state of the start future.
-/
import AnyioModel.Kernel.CauseInv3

namespace AnyioModel.Kernel

/-- **Who cancelled scope `s`?**  The complete list of transitions `e` out of state `st` that turn
`cancelCalled` of `s` from false to true; every side condition is read in `st`. -/
inductive CancelCause (st : State) : Ev → Nat → Prop where
  /-- `scope.cancel()` by user code — from a task or from a loop callback / another thread's
  `call_soon_threadsafe` (the event needs no running task), on any scope object that exists
  (entered or not, a task group's `cancel_scope`, ...) -/
  | userCancel (s : Nat) :
      (st.scopes s).exists_ = true → CancelCause st (.cancel s) s
  /-- the deadline fired: the loop runs the scope's `_timeout` callback and the deadline is due -/
  | deadlineFired (s d : Nat) :
      (st.scopes s).deadline = some d → d ≤ st.now → CancelCause st (.run (.timeout s)) s
  /-- `scope.deadline = d` on an active scope with `d` already in the past -/
  | deadlineSetPast (s d : Nat) :
      (st.scopes s).exists_ = true → (st.scopes s).active = true → d ≤ st.now →
      CancelCause st (.setDeadline s (some d)) s
  /-- `with scope:` on a user scope whose deadline has already passed -/
  | enterPastDeadline (s d : Nat) :
      isGroupScope st s = false → isHandleScope st s = false →
      (st.scopes s).deadline = some d → d ≤ st.now → CancelCause st (.enter s) s
  /-- `async with group:` when a deadline given to `group.cancel_scope` has already passed -/
  | groupEnterPastDeadline (g d : Nat) :
      g < st.nGroups → (st.scopes (st.groups g).scope).deadline = some d → d ≤ st.now →
      CancelCause st (.groupEnter g) (st.groups g).scope
  /-- first step of a child task that was not cancelled before it started: `TaskHandle._run_coro`
  enters the handle scope, whose deadline (set through the handle) has already passed -/
  | childStartPastDeadline (u s d : Nat) :
      (st.tasks u).st = .created → (st.tasks u).hscope = some s → resumeValue st u = .none →
      (st.scopes s).deadline = some d → d ≤ st.now → CancelCause st (.run (.step u)) s
  /-- `TaskGroup.__aexit__` entered with an exception from the body (cancellation included) -/
  | bodyException (g : Nat) (ev : ExcVal) :
      g < st.nGroups → ev ≠ .none → CancelCause st (.aexit g ev) (st.groups g).scope
  /-- the `task_done` callback of child `u` of group `g`: the child ended with an exception
  (cancellation included) that is not relayed to a still pending start future, and the group scope
  was NOT effectively cancelled already -/
  | childFailed (u g : Nat) (o : Outcome) :
      (st.tasks u).group = some g → (st.tasks u).outcome = some o → o ≠ .none →
      effCancelled st (st.groups g).scope = false →
      (∀ sf, (st.tasks u).startFut = some sf → (st.futs sf).done = true ∧
        ¬ (o.isCancelledError = true ∧ ∃ a, st.futs sf = .cancelled a)) →
      CancelCause st (.run (.taskDone u)) (st.groups g).scope
  /-- the host task `t` is inside `group.__aexit__` (the empty-group checkpoint or the wait loop)
  and is resumed with a `CancelledError`: `__aexit__` calls `self.cancel_scope.cancel()` -/
  | aexitHostCancelled (h : Handle) (t g w : Nat) (ev : ExcVal) :
      (h = .step t ∨ h = .wakeup t) →
      ((st.tasks t).lib = .aexitChk g w ev ∨ (st.tasks t).lib = .aexitWait g w ev) →
      (resumeValue st t).isCancelledError = true →
      CancelCause st (.run h) (st.groups g).scope
  /-- task `t` is inside `group.start()` waiting for child `u` to call `started()` and is resumed
  with an exception (it was cancelled, or the child failed before `started()`): `start()` cancels
  the child through its handle, unless the child has finished -/
  | startCallerFailed (h : Handle) (t g u f s : Nat) :
      (h = .step t ∨ h = .wakeup t) → (st.tasks t).lib = .startWait g u f →
      resumeValue st t ≠ .none → (st.tasks u).hscope = some s → (st.tasks u).finished = false →
      CancelCause st (.run h) s
  /-- `TaskHandle.cancel()` on a task that has not finished -/
  | handleCancel (u s : Nat) :
      (st.tasks u).hscope = some s → (st.tasks u).finished = false →
      CancelCause st (.handleCancel u) s

/-- no start future is also a group's `_on_completed_fut` (holds in every reachable state) -/
def StartOnCDisjoint (st : State) : Prop :=
  ∀ u g sf, (st.tasks u).startFut = some sf → (st.groups g).onCompleted ≠ some sf

macro "nc_leaf" h:ident : tactic => `(tactic| first
  | contradiction
  | (simp only [Option.some.injEq, Prod.mk.injEq] at $h:ident; rcases $h:ident with ⟨h1, _⟩; subst h1; nc; done))

/-- the transitions that never call `cancel()` -/
theorem nc_step_plain {st st' : State} {e : Ev} {o : Out} (hs : step st e = some (st', o))
    (he : (∀ h, e ≠ .run h) ∧ (∀ s, e ≠ .enter s) ∧ (∀ s, e ≠ .cancel s) ∧
      (∀ s d, e ≠ .setDeadline s d) ∧ (∀ g, e ≠ .groupEnter g) ∧ (∀ g ev, e ≠ .aexit g ev) ∧
      (∀ u, e ≠ .handleCancel u)) : NC st st' := by
  obtain ⟨e1, e2, e3, e4, e5, e6, e7⟩ := he
  cases e with
  | run h => exact absurd rfl (e1 h)
  | enter s => exact absurd rfl (e2 s)
  | cancel s => exact absurd rfl (e3 s)
  | setDeadline s d => exact absurd rfl (e4 s d)
  | groupEnter g => exact absurd rfl (e5 g)
  | aexit g ev => exact absurd rfl (e6 g ev)
  | handleCancel u => exact absurd rfl (e7 u)
  | beginCycle now =>
    simp only [step] at hs
    split at hs
    · contradiction
    · simp only [Option.some.injEq, Prod.mk.injEq] at hs
      obtain ⟨rfl, _⟩ := hs
      exact NC.of_scopes rfl
  | mkFut =>
    simp only [step, Option.some.injEq, Prod.mk.injEq] at hs
    obtain ⟨rfl, _⟩ := hs
    exact NC.of_scopes rfl
  | mkGroup =>
    simp only [step, Option.some.injEq, Prod.mk.injEq] at hs
    obtain ⟨rfl, _⟩ := hs
    exact (nc_newScope st false none).trans (NC.of_scopes rfl)
  | sleep d =>
    simp only [step] at hs
    repeat' (first | split at hs | simp only [] at hs)
    all_goals first
      | contradiction
      | (simp only [Option.some.injEq, Prod.mk.injEq] at hs; obtain ⟨rfl, _⟩ := hs
         refine NC.trans ?_ (nc_blockOn _ _ _)
         refine NC.trans ?_ (nc_setTask _ _ _)
         exact NC.of_scopes rfl)
  | start g =>
    simp only [step] at hs
    repeat' (first | split at hs | simp only [] at hs)
    all_goals first
      | nc_leaf hs
      | (simp only [Option.some.injEq, Prod.mk.injEq] at hs; obtain ⟨rfl, _⟩ := hs
         refine NC.trans ?_ (nc_blockOn _ _ _)
         refine NC.trans ?_ (nc_setTask _ _ _)
         exact (NC.of_scopes rfl : NC st (newFut st).1).trans (nc_spawn _ _ _))
  | shieldedChk =>
    simp only [step] at hs
    split at hs
    · contradiction
    · split at hs
      · contradiction
      · split at hs
        · contradiction
        · rename_i st2 hen
          simp only [Option.some.injEq, Prod.mk.injEq] at hs
          obtain ⟨rfl, _⟩ := hs
          exact ((nc_newEnter hen).trans (nc_setTask _ _ _)).trans (nc_doYield _ _)
  | finish oc =>
    simp only [step] at hs
    split at hs
    · contradiction
    · split at hs
      · contradiction
      · split at hs
        · contradiction
        · split at hs
          · contradiction
          · rename_i st2 hen
            simp only [Option.some.injEq, Prod.mk.injEq] at hs
            obtain ⟨rfl, _⟩ := hs
            exact nc_finishTask hen
  | _ =>
    simp only [step] at hs
    repeat' (first | split at hs | simp only [] at hs)
    all_goals nc_leaf hs

/-- the first part of `__aexit__` cancels the group scope only, and only for a body exception -/
theorem cc_aexitPrep (st : State) (g : Nat) (ev : ExcVal) (x : Nat)
    (h : ((aexitPrep st g ev).scopes x).cancelCalled = true) :
    (st.scopes x).cancelCalled = true ∨ (ev ≠ .none ∧ x = (st.groups g).scope) := by
  unfold aexitPrep at h
  split at h
  · rename_i hne
    simp only [] at h
    have h' : ((cancelScope st (st.groups g).scope false).scopes x).cancelCalled = true := by
      split at h
      · exact h
      · exact h
    rcases cc_cancelScope _ _ _ _ h' with h1 | h1
    · exact .inl h1
    · exact .inr ⟨hne, h1⟩
  · exact .inl h

/-- **the pass over `step`**: a scope that has `cancelCalled` after a transition had it before, or
the transition is one of the causes of the list -/
theorem cc_step {st st' : State} {e : Ev} {o : Out} (hs : step st e = some (st', o))
    (hd : StartOnCDisjoint st) (s : Nat) (h : (st'.scopes s).cancelCalled = true) :
    (st.scopes s).cancelCalled = true ∨ CancelCause st e s := by
  cases e with
  | cancel x =>
    simp only [step] at hs
    split at hs
    · contradiction
    · rename_i hex
      simp only [Option.some.injEq, Prod.mk.injEq] at hs
      obtain ⟨rfl, _⟩ := hs
      rcases cc_cancelScope _ _ _ _ h with h1 | h1
      · exact .inl h1
      · subst h1; exact .inr (.userCancel _ (by simpa using hex))
  | setDeadline x d =>
    simp only [step] at hs
    split at hs
    · contradiction
    · rename_i hex
      simp only [Option.some.injEq, Prod.mk.injEq] at hs
      obtain ⟨rfl, _⟩ := hs
      rcases cc_setDeadline _ _ _ _ h with h1 | ⟨h1, ha, d', rfl, hle⟩
      · exact .inl h1
      · subst h1; exact .inr (.deadlineSetPast _ _ (by simpa using hex) ha hle)
  | handleCancel u =>
    simp only [step] at hs
    split at hs
    · contradiction
    · rename_i hs' hhs
      simp only [Option.some.injEq, Prod.mk.injEq] at hs
      obtain ⟨rfl, _⟩ := hs
      split at h
      · exact .inl h
      · rename_i hfin
        rcases cc_cancelScope _ _ _ _ h with h1 | h1
        · exact .inl h1
        · subst h1; exact .inr (.handleCancel _ _ hhs (by simpa using hfin))
  | enter x =>
    simp only [step] at hs
    split at hs
    · contradiction
    · rename_i t hr
      split at hs
      · contradiction
      · rename_i hg
        split at hs
        · simp only [Option.some.injEq, Prod.mk.injEq] at hs
          obtain ⟨rfl, _⟩ := hs
          exact .inl h
        · rename_i st2 hen
          simp only [Option.some.injEq, Prod.mk.injEq] at hs
          obtain ⟨rfl, _⟩ := hs
          rcases cc_enterScope hen s h with h1 | ⟨h1, d, hdl, hle⟩
          · exact .inl h1
          · subst h1
            refine .inr (.enterPastDeadline _ d ?_ ?_ hdl hle)
            · cases hx : isGroupScope st s <;> simp_all
            · cases hx : isHandleScope st s <;> simp_all
  | groupEnter g =>
    simp only [step] at hs
    split at hs
    · contradiction
    · rename_i t hr
      split at hs
      · contradiction
      · rename_i hg
        split at hs
        · simp only [Option.some.injEq, Prod.mk.injEq] at hs
          obtain ⟨rfl, _⟩ := hs
          exact .inl h
        · split at hs
          · contradiction
          · rename_i st2 hen
            simp only [Option.some.injEq, Prod.mk.injEq] at hs
            obtain ⟨rfl, _⟩ := hs
            rcases cc_enterScope hen s h with h1 | ⟨h1, d, hdl, hle⟩
            · exact .inl h1
            · subst h1
              exact .inr (.groupEnterPastDeadline g d (by omega) hdl hle)
  | aexit g ev =>
    rw [step_aexit] at hs
    split at hs
    · contradiction
    · rename_i t hr
      split at hs
      · contradiction
      · rename_i hg
        have hlt : g < st.nGroups := by
          apply Classical.byContradiction; intro hc; exact hg (.inl (by omega))
        have hrest : NC (aexitPrep st g ev) st' := by
          simp only [] at hs
          split at hs
          · split at hs
            · contradiction
            · rename_i st2 hen
              simp only [Option.some.injEq, Prod.mk.injEq] at hs
              obtain ⟨rfl, _⟩ := hs
              exact ((nc_newEnter hen).trans (nc_setTask _ _ _)).trans (nc_doYield _ _)
          · exact nc_aexitAfterChk hs
        rcases cc_aexitPrep st g ev s (hrest.cc s h) with h1 | ⟨hne, h1⟩
        · exact .inl h1
        · subst h1; exact .inr (.bodyException g ev hlt hne)
  | run hd' =>
    simp only [step] at hs
    split at hs
    · contradiction
    · cases hd' with
      | step t =>
        simp only [] at hs
        split at hs
        · rcases cc_runTask hs s h with h1 | ⟨a1, a2, a3, d, a4, a5⟩ | ⟨g, w, ev, a1, a2, a3⟩ |
            ⟨g, u, f, a1, a2, a3, a4⟩
          · exact .inl h1
          · exact .inr (.childStartPastDeadline t s d a1 a2 a3 a4 a5)
          · subst a3; exact .inr (.aexitHostCancelled _ t g w ev (.inl rfl) a1 a2)
          · exact .inr (.startCallerFailed _ t g u f s (.inl rfl) a1 a2 a3 a4)
        · contradiction
      | wakeup t =>
        simp only [] at hs
        split at hs
        · rcases cc_runTask hs s h with h1 | ⟨a1, a2, a3, d, a4, a5⟩ | ⟨g, w, ev, a1, a2, a3⟩ |
            ⟨g, u, f, a1, a2, a3, a4⟩
          · exact .inl h1
          · rename_i f' hw
            have : (st.tasks t).st = .created := a1
            rw [this] at hw; cases hw
          · subst a3; exact .inr (.aexitHostCancelled _ t g w ev (.inr rfl) a1 a2)
          · exact .inr (.startCallerFailed _ t g u f s (.inr rfl) a1 a2 a3 a4)
        · contradiction
      | deliver x =>
        simp only [Option.some.injEq, Prod.mk.injEq] at hs
        obtain ⟨rfl, _⟩ := hs
        have h2 := (NC.of_frame (frame_deliver _ _)).cc s h
        exact .inl h2
      | timeout x =>
        simp only [Option.some.injEq, Prod.mk.injEq] at hs
        obtain ⟨rfl, _⟩ := hs
        rcases cc_armTimeout _ _ _ h with h1 | ⟨h1, d, hdl, hle⟩
        · left
          by_cases hx : s = x
          · subst hx; simpa using h1
          · simpa [hx] using h1
        · subst h1
          exact .inr (.deadlineFired s d (by simpa using hdl) hle)
      | sleepDone f =>
        simp only [Option.some.injEq, Prod.mk.injEq] at hs
        obtain ⟨rfl, _⟩ := hs
        have h2 := (NC.of_frame (frame_resolveFut _ _ _)).cc s h
        exact .inl h2
      | taskDone u =>
        simp only [] at hs
        split at hs
        · rename_i st2 hrt
          simp only [Option.some.injEq, Prod.mk.injEq] at hs
          obtain ⟨rfl, _⟩ := hs
          rcases cc_runTaskDone hrt s h with h1 | ⟨g, oc, a1, a2, a3, a4, a5, a6⟩
          · exact .inl h1
          · subst a4
            have a5' : effCancelled st (st.groups g).scope = false :=
              (effCancelled_congr (st := st)
                (st' := { st with cur := st.cur.erase (Handle.taskDone u) })
                (SameWalk.of_scopes_eq rfl).nav _).symm.trans a5
            refine .inr (.childFailed u g oc a1 a2 a3 a5' ?_)
            intro sf hsf
            obtain ⟨b1, b2⟩ := a6 sf hsf
            refine ⟨?_, b2⟩
            rcases b1 with b1 | b1
            · exact b1
            · exact absurd b1 (hd u g sf hsf)
        · contradiction
  | _ =>
    exact .inl ((nc_step_plain hs ⟨by intro _; simp, by intro _; simp, by intro _; simp,
      by intro _ _; simp, by intro _; simp, by intro _ _; simp, by intro _; simp⟩).cc s h)

end AnyioModel.Kernel
