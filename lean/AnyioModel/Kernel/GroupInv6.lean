/-
Task-group invariants of the kernel model, part 6: the shape of `task_done`, and the relation
"a task that is done stays exactly as it is" (`DoneFix`), as an instance of `Closed`.
-/
import AnyioModel.Kernel.GroupInv5

namespace AnyioModel.Kernel

/-! ### the shape of `task_done` -/

/-- the state after the bookkeeping part of `task_done` -/
def taskDoneCore (st : State) (u g sc : Nat) : State :=
  ((st.setScope sc (fun x => { x with tasks := x.tasks.erase u })).setGroup g
    (fun x => { x with tasks := x.tasks.erase u })).setTask u
    (fun x => { x with hasState := false, scope := none, doneCbRun := true })

/-- the child's exception is appended to the group's `_exceptions` -/
def routeErr (st : State) (g u : Nat) (e : ExcVal) : State :=
  st.setGroup g (fun x => { x with exceptions := x.exceptions ++ e.leaves, routed := u :: x.routed })

theorem runTaskDone_eq' (st : State) (u : Nat) :
    runTaskDone st u =
      match (st.tasks u).group, (st.tasks u).scope, (st.tasks u).outcome with
      | some g, some sc, some o =>
        taskDoneTail (taskDoneMid (taskDoneCore st u g sc) g) g u o (st.tasks u).startFut
      | _, _, _ => none := rfl

theorem gle_taskDoneMid (st : State) (g : Nat) : GLe st (taskDoneMid st g) := by
  unfold taskDoneMid
  split
  · split
    · exact gle_resolveFut _ _ _
    · exact GLe.refl _
  · exact GLe.refl _

def FutSt.isCancelled : FutSt → Bool
  | .cancelled _ => true
  | _ => false

/-- `taskDoneTail` for a child that raised, in if-then-else form -/
def taskDoneTailErr (st : State) (g u : Nat) (o : Outcome) (sfo : Option Nat) : Option State :=
  let R := if o.isCancelledError then st else routeErr st g u o
  let fin := some (if effCancelled R (st.groups g).scope then R
    else cancelScope R (st.groups g).scope false)
  match sfo with
  | none => fin
  | some sf =>
    if (st.futs sf).isCancelled ∧ o.isCancelledError then some st
    else if (st.futs sf).done then fin
    else some (resolveFut st sf (.failed o))

theorem taskDoneTail_err (st : State) (g u : Nat) (o : Outcome) (sfo : Option Nat)
    (ho : o ≠ .none) : taskDoneTail st g u o sfo = taskDoneTailErr st g u o sfo := by
  cases o with
  | none => exact absurd rfl ho
  | one e =>
    cases sfo with
    | none => rfl
    | some sf =>
      cases hf : st.futs sf <;>
        simp only [taskDoneTail, taskDoneTailErr, routeErr, hf, FutSt.isCancelled] <;>
        first | rfl | (simp; try rfl)
  | group es =>
    cases sfo with
    | none => rfl
    | some sf =>
      cases hf : st.futs sf <;>
        simp only [taskDoneTail, taskDoneTailErr, routeErr, hf, FutSt.isCancelled] <;>
        first | rfl | (simp; try rfl)

/-- where the outcome of the child goes: nowhere (it returned, or ended with a `CancelledError`),
to the start future (still pending), or into the group (then the group is cancelled unless it
is effectively cancelled already) -/
theorem taskDoneTail_shape {st st' : State} {g u : Nat} {o : Outcome} {sfo : Option Nat}
    (he : taskDoneTail st g u o sfo = some st') :
    (GLe st st' ∧ (st'.groups = st.groups) ∧
      (o = .none ∨ o.isCancelledError = true ∨
        ∃ sf, sfo = some sf ∧ (st.futs sf).done = false ∧ st' = resolveFut st sf (.failed o))) ∨
    (o ≠ .none ∧ o.isCancelledError = false ∧
      (sfo = none ∨ ∃ sf, sfo = some sf ∧ (st.futs sf).done = true) ∧
      ((effCancelled (routeErr st g u o) (st.groups g).scope = true ∧ st' = routeErr st g u o) ∨
        (effCancelled (routeErr st g u o) (st.groups g).scope = false ∧
          st' = cancelScope (routeErr st g u o) (st.groups g).scope false))) := by
  have hcs : ∀ (s : Nat), (cancelScope st s false).groups = st.groups :=
    fun s => (cframe_cancelScope st s false).groups
  have hrf : ∀ (f : Nat) (v : FutSt), (resolveFut st f v).groups = st.groups :=
    fun f v => (frame_resolveFut st f v).groups
  by_cases ho : o = .none
  · subst ho
    left
    unfold taskDoneTail at he
    simp only [] at he
    split at he
    · split at he
      · simp only [Option.some.injEq] at he; subst he
        exact ⟨GLe.refl _, rfl, .inl rfl⟩
      · simp only [Option.some.injEq] at he; subst he
        exact ⟨gle_resolveFut _ _ _, hrf _ _, .inl rfl⟩
    · simp only [Option.some.injEq] at he; subst he
      exact ⟨GLe.refl _, rfl, .inl rfl⟩
  · rw [taskDoneTail_err st g u o sfo ho] at he
    unfold taskDoneTailErr at he
    -- the common end
    have fin : ∀ st'', some (if effCancelled (if o.isCancelledError then st else routeErr st g u o)
          (st.groups g).scope then (if o.isCancelledError then st else routeErr st g u o)
        else cancelScope (if o.isCancelledError then st else routeErr st g u o)
          (st.groups g).scope false) = some st'' →
        (GLe st st'' ∧ st''.groups = st.groups ∧ o.isCancelledError = true) ∨
        (o.isCancelledError = false ∧
          ((effCancelled (routeErr st g u o) (st.groups g).scope = true ∧ st'' = routeErr st g u o) ∨
          (effCancelled (routeErr st g u o) (st.groups g).scope = false ∧
            st'' = cancelScope (routeErr st g u o) (st.groups g).scope false))) := by
      intro st'' h
      by_cases hce : o.isCancelledError = true
      · simp only [hce, if_true, Option.some.injEq] at h
        subst h
        left
        refine ⟨?_, ?_, hce⟩
        · split
          · exact GLe.refl _
          · exact gle_cancelScope _ _ _
        · split
          · rfl
          · exact hcs _
      · have hce' : o.isCancelledError = false := by simpa using hce
        simp only [hce', Bool.false_eq_true, if_false, Option.some.injEq] at h
        subst h
        right
        refine ⟨hce', ?_⟩
        split
        · rename_i heff; exact .inl ⟨heff, rfl⟩
        · rename_i heff; exact .inr ⟨by simpa using heff, rfl⟩
    simp only [] at he
    split at he
    · rcases fin _ he with ⟨h1, h2, h3⟩ | ⟨h1, h2⟩
      · exact .inl ⟨h1, h2, .inr (.inl h3)⟩
      · exact .inr ⟨ho, h1, .inl rfl, h2⟩
    · rename_i sf
      split at he
      · rename_i hc
        simp only [Option.some.injEq] at he; subst he
        exact .inl ⟨GLe.refl _, rfl, .inr (.inl hc.2)⟩
      · split at he
        · rename_i hd
          rcases fin _ he with ⟨h1, h2, h3⟩ | ⟨h1, h2⟩
          · exact .inl ⟨h1, h2, .inr (.inl h3)⟩
          · exact .inr ⟨ho, h1, .inr ⟨sf, rfl, hd⟩, h2⟩
        · rename_i hd
          simp only [Option.some.injEq] at he; subst he
          exact .inl ⟨gle_resolveFut _ _ _, hrf _ _,
            .inr (.inr ⟨sf, rfl, by simpa using hd, rfl⟩)⟩

theorem runTaskDone_shape {st st' : State} {u : Nat} (he : runTaskDone st u = some st') :
    ∃ g sc o, (st.tasks u).group = some g ∧ (st.tasks u).scope = some sc ∧
      (st.tasks u).outcome = some o ∧
      taskDoneTail (taskDoneMid (taskDoneCore st u g sc) g) g u o (st.tasks u).startFut =
        some st' := by
  rw [runTaskDone_eq'] at he
  split at he
  · rename_i g sc o hg hsc ho
    exact ⟨g, sc, o, hg, hsc, ho, he⟩
  · contradiction

/-- the first part of `__aexit__`, as a `GLe` followed by the recording of the body's exception -/
theorem aexitPrep_shape (st : State) (g : Nat) (ev : ExcVal) :
    (GLe st (aexitPrep st g ev) ∧ (aexitPrep st g ev).groups = st.groups ∧
      (ev = .none ∨ ev.isCancelledError = true)) ∨
    (ev ≠ .none ∧ ev.isCancelledError = false ∧
      aexitPrep st g ev = (cancelScope st (st.groups g).scope false).setGroup g (fun x =>
        { x with exceptions := x.exceptions ++ ev.leaves, bodyErrs := ev.leaves })) := by
  unfold aexitPrep
  by_cases h1 : ev = .none
  · left; simp [h1]; exact GLe.refl _
  · by_cases h2 : ev.isCancelledError = true
    · left
      simp only [ne_eq, h1, not_false_eq_true, if_true, h2]
      exact ⟨gle_cancelScope _ _ _, (cframe_cancelScope _ _ _).groups, .inr trivial⟩
    · right
      have h2' : ev.isCancelledError = false := by simpa using h2
      simp [h1, h2']

/-! ### a task that is done stays as it is -/

/-- every task that is done in `a` is done in `st`, with the same outcome and the same
`TaskHandle` result fields -/
def DoneFix (a st : State) : Prop :=
  ∀ u, (a.tasks u).st = .done → (st.tasks u).st = .done ∧
    (st.tasks u).outcome = (a.tasks u).outcome ∧ (st.tasks u).finished = (a.tasks u).finished ∧
    (st.tasks u).hexc = (a.tasks u).hexc

theorem DoneFix.mono {a st b : State} (h : DoneFix a st)
    (hb : ∀ u, (st.tasks u).st = .done → (b.tasks u).st = .done ∧
      (b.tasks u).outcome = (st.tasks u).outcome ∧ (b.tasks u).finished = (st.tasks u).finished ∧
      (b.tasks u).hexc = (st.tasks u).hexc) : DoneFix a b := by
  intro u hu
  have h1 := h u hu
  have h2 := hb u h1.1
  exact ⟨h2.1, h2.2.1.trans h1.2.1, h2.2.2.1.trans h1.2.2.1, h2.2.2.2.trans h1.2.2.2⟩

theorem DoneFix.gle {a st b : State} (h : DoneFix a st) (l : GLe st b) : DoneFix a b :=
  h.mono (fun u hu => ⟨(l.tasks u).done.mpr hu, (l.tasks u).outcome,
    ((l.tasks u).fin_done hu).1, ((l.tasks u).fin_done hu).2.1⟩)

theorem DoneFix.of_tasks {a st b : State} (h : DoneFix a st) (hb : b.tasks = st.tasks) :
    DoneFix a b :=
  h.mono (fun u hu => by rw [hb]; exact ⟨hu, rfl, rfl, rfl⟩)

theorem doneFix_closed (a : State) : Closed (DoneFix a) := by
  constructor
  · intro x y q _ l; exact q.gle l
  · intro st g gs hs sf q _ _ _ _ hd _ _ _ _
    refine q.mono (fun u hu => ?_)
    have : u ≠ st.nTasks := by intro e; subst e; rw [hd] at hu; contradiction
    simp [spawnCore, this, hu]
  · intro st st' u q _ _ he
    obtain ⟨g, sc, o, _, _, _, ht⟩ := runTaskDone_shape he
    have q1 : DoneFix a (taskDoneCore st u g sc) := by
      refine q.mono (fun v hv => ?_)
      unfold taskDoneCore
      by_cases hvu : v = u
      · subst hvu; simp [hv]
      · simp [hvu, hv]
    have q2 := q1.gle (gle_taskDoneMid _ g)
    rcases taskDoneTail_shape ht with ⟨l, _, _⟩ | ⟨_, _, _, ⟨_, rfl⟩ | ⟨_, rfl⟩⟩
    · exact q2.gle l
    · exact q2.of_tasks rfl
    · exact (q2.of_tasks (b := routeErr _ g u o) rfl).gle (gle_cancelScope _ _ _)
  · intro st t o q _ hr _
    refine q.mono (fun u hu => ?_)
    have : u ≠ t := by intro e; subst e; rw [hr] at hu; contradiction
    simp [this, hu]
  · intro st t g ev q _ _ _ _ _ _ _
    rcases aexitPrep_shape st g ev with ⟨l, _, _⟩ | ⟨_, _, e⟩
    · exact q.gle l
    · rw [e]; exact (q.gle (gle_cancelScope _ _ _)).of_tasks rfl
  · intro st g q _ _ _; exact q.of_tasks rfl
  · intro st g q _ _ _; exact q.of_tasks rfl
  · intro st B s q _ _ hT _ _ _ _ _ _ _ _; exact q.of_tasks hT

/-- a task that is done is done after every transition, with unchanged outcome and
`TaskHandle` fields -/
theorem step_doneFix {st st' : State} {e : Ev} {o : Out} (h : GInv st) (w : WF st)
    (hs : step st e = some (st', o)) : DoneFix st st' :=
  closed_step (doneFix_closed st) (fun _ hu => ⟨hu, rfl, rfl, rfl⟩) h w hs

/-! ### every child of a group has a `TaskHandle` -/

def HasHandle (st : State) : Prop :=
  ∀ u g, (st.tasks u).group = some g → (st.tasks u).hscope.isSome = true

theorem HasHandle.mono {st b : State} (h : HasHandle st)
    (hb : ∀ u, (b.tasks u).group = (st.tasks u).group ∧ (b.tasks u).hscope = (st.tasks u).hscope) :
    HasHandle b := by
  intro u g hg
  rw [(hb u).1] at hg; rw [(hb u).2]; exact h u g hg

theorem hasHandle_closed : Closed HasHandle := by
  constructor
  · intro x y q _ l; exact q.mono (fun u => ⟨(l.tasks u).group, (l.tasks u).hscope⟩)
  · intro st g gs hs sf q _ _ _ _ _ _ _ _ _ u g' hg
    by_cases hu : u = st.nTasks
    · subst hu; simp [spawnCore]
    · have : (st.tasks u).group = some g' := by simpa [spawnCore, hu] using hg
      simpa [spawnCore, hu] using q u g' this
  · intro st st' u q _ _ he
    obtain ⟨g, sc, o, _, _, _, ht⟩ := runTaskDone_shape he
    have q1 : HasHandle (taskDoneCore st u g sc) := by
      refine q.mono (fun v => ?_)
      unfold taskDoneCore
      by_cases hvu : v = u
      · subst hvu; simp
      · simp [hvu]
    have q2 := q1.mono (fun v => ⟨((gle_taskDoneMid _ g).tasks v).group,
      ((gle_taskDoneMid _ g).tasks v).hscope⟩)
    rcases taskDoneTail_shape ht with ⟨l, _, _⟩ | ⟨_, _, _, ⟨_, rfl⟩ | ⟨_, rfl⟩⟩
    · exact q2.mono (fun v => ⟨(l.tasks v).group, (l.tasks v).hscope⟩)
    · exact q2.mono (fun v => ⟨rfl, rfl⟩)
    · exact (q2.mono (b := routeErr _ g u o) (fun v => ⟨rfl, rfl⟩)).mono
        (fun v => ⟨((gle_cancelScope _ _ _).tasks v).group, ((gle_cancelScope _ _ _).tasks v).hscope⟩)
  · intro st t o q _ _ _
    refine q.mono (fun u => ?_)
    by_cases hu : u = t
    · subst hu; simp
    · simp [hu]
  · intro st t g ev q _ _ _ _ _ _ _
    rcases aexitPrep_shape st g ev with ⟨l, _, _⟩ | ⟨_, _, e⟩
    · exact q.mono (fun v => ⟨(l.tasks v).group, (l.tasks v).hscope⟩)
    · rw [e]
      exact q.mono (fun v => ⟨((gle_cancelScope _ _ _).tasks v).group,
        ((gle_cancelScope _ _ _).tasks v).hscope⟩)
  · intro st g q _ _ _; exact q.mono (fun v => ⟨rfl, rfl⟩)
  · intro st g q _ _ _; exact q.mono (fun v => ⟨rfl, rfl⟩)
  · intro st B s q _ _ hT _ _ _ _ _ _ _ _; exact q.mono (fun v => by rw [hT]; exact ⟨rfl, rfl⟩)

theorem hasHandle_reach {st : State} (h : Reach st) : HasHandle st := by
  refine closed_reach hasHandle_closed ?_ h
  intro u g hg
  simp only [init] at hg
  split at hg <;> simp at hg

end AnyioModel.Kernel
