/-
Frame lemmas for the kernel model: which parts of the state each helper of
`Kernel/Scope.lean` leaves unchanged.

Two relations between a state `a` and a later state `b`:

* `Frame a b` (strict): what `resolveFut`, `taskCancel`, `taskUncancel`, `hitTask`,
  `deliverGo`, `deliver`, `restartList`, `restartInParent` do.  All *structural* scope fields
  are unchanged (`SameScopeStruct`: everything except `pending` and `deliver`), all counters,
  `groups`, `futWaiter`, `now`, `cycle`, `running`, `timers`, `cur` are unchanged, `ready` only
  grows (by `wakeup` handles of blocked tasks and `deliver` handles of non-empty scopes), tasks
  change only as described by `TaskFrame`, futures only go from pending to done.
* `CFrame a b` (weak): additionally allows what `cancelScope` / `armTimeout` / the tail of
  `exitScope` do: `cancelCalled` may be set (never reset), `caught` may be set, `timer`,
  `byDeadline`, `cancelTime` arbitrary, `timeout` handles removed or added.

`enterScope`, `exitScope`, `setShield`, `setDeadline` are described as an explicit pure update
(`enterPre`, `exitPre`, a `setScope`) followed by a `CFrame`.
-/
import AnyioModel.Kernel.Step

namespace AnyioModel.Kernel

/-! ### projections of the small accessors -/

section proj
variable (st : State) (t s g f : Nat) (ft : Task → Task) (fs : Scope → Scope) (fg : Group → Group)
  (v : FutSt) (h : Handle)

@[simp, grind =] theorem setTask_tasks : (st.setTask t ft).tasks = upd st.tasks t (ft (st.tasks t)) := rfl
@[simp, grind =] theorem setTask_scopes : (st.setTask t ft).scopes = st.scopes := rfl
@[simp, grind =] theorem setTask_groups : (st.setTask t ft).groups = st.groups := rfl
@[simp, grind =] theorem setTask_futs : (st.setTask t ft).futs = st.futs := rfl
@[simp, grind =] theorem setTask_futWaiter : (st.setTask t ft).futWaiter = st.futWaiter := rfl
@[simp, grind =] theorem setTask_ready : (st.setTask t ft).ready = st.ready := rfl
@[simp, grind =] theorem setTask_cur : (st.setTask t ft).cur = st.cur := rfl
@[simp, grind =] theorem setTask_timers : (st.setTask t ft).timers = st.timers := rfl
@[simp, grind =] theorem setTask_running : (st.setTask t ft).running = st.running := rfl
@[simp, grind =] theorem setTask_now : (st.setTask t ft).now = st.now := rfl
@[simp, grind =] theorem setTask_cycle : (st.setTask t ft).cycle = st.cycle := rfl
@[simp, grind =] theorem setTask_nTasks : (st.setTask t ft).nTasks = st.nTasks := rfl
@[simp, grind =] theorem setTask_nScopes : (st.setTask t ft).nScopes = st.nScopes := rfl
@[simp, grind =] theorem setTask_nFuts : (st.setTask t ft).nFuts = st.nFuts := rfl
@[simp, grind =] theorem setTask_nGroups : (st.setTask t ft).nGroups = st.nGroups := rfl

@[simp, grind =] theorem setScope_scopes : (st.setScope s fs).scopes = upd st.scopes s (fs (st.scopes s)) := rfl
@[simp, grind =] theorem setScope_tasks : (st.setScope s fs).tasks = st.tasks := rfl
@[simp, grind =] theorem setScope_groups : (st.setScope s fs).groups = st.groups := rfl
@[simp, grind =] theorem setScope_futs : (st.setScope s fs).futs = st.futs := rfl
@[simp, grind =] theorem setScope_futWaiter : (st.setScope s fs).futWaiter = st.futWaiter := rfl
@[simp, grind =] theorem setScope_ready : (st.setScope s fs).ready = st.ready := rfl
@[simp, grind =] theorem setScope_cur : (st.setScope s fs).cur = st.cur := rfl
@[simp, grind =] theorem setScope_timers : (st.setScope s fs).timers = st.timers := rfl
@[simp, grind =] theorem setScope_running : (st.setScope s fs).running = st.running := rfl
@[simp, grind =] theorem setScope_now : (st.setScope s fs).now = st.now := rfl
@[simp, grind =] theorem setScope_cycle : (st.setScope s fs).cycle = st.cycle := rfl
@[simp, grind =] theorem setScope_nTasks : (st.setScope s fs).nTasks = st.nTasks := rfl
@[simp, grind =] theorem setScope_nScopes : (st.setScope s fs).nScopes = st.nScopes := rfl
@[simp, grind =] theorem setScope_nFuts : (st.setScope s fs).nFuts = st.nFuts := rfl
@[simp, grind =] theorem setScope_nGroups : (st.setScope s fs).nGroups = st.nGroups := rfl

@[simp, grind =] theorem setGroup_groups : (st.setGroup g fg).groups = upd st.groups g (fg (st.groups g)) := rfl
@[simp, grind =] theorem setGroup_tasks : (st.setGroup g fg).tasks = st.tasks := rfl
@[simp, grind =] theorem setGroup_scopes : (st.setGroup g fg).scopes = st.scopes := rfl
@[simp, grind =] theorem setGroup_futs : (st.setGroup g fg).futs = st.futs := rfl
@[simp, grind =] theorem setGroup_futWaiter : (st.setGroup g fg).futWaiter = st.futWaiter := rfl
@[simp, grind =] theorem setGroup_ready : (st.setGroup g fg).ready = st.ready := rfl
@[simp, grind =] theorem setGroup_cur : (st.setGroup g fg).cur = st.cur := rfl
@[simp, grind =] theorem setGroup_timers : (st.setGroup g fg).timers = st.timers := rfl
@[simp, grind =] theorem setGroup_running : (st.setGroup g fg).running = st.running := rfl
@[simp, grind =] theorem setGroup_now : (st.setGroup g fg).now = st.now := rfl
@[simp, grind =] theorem setGroup_cycle : (st.setGroup g fg).cycle = st.cycle := rfl
@[simp, grind =] theorem setGroup_nTasks : (st.setGroup g fg).nTasks = st.nTasks := rfl
@[simp, grind =] theorem setGroup_nScopes : (st.setGroup g fg).nScopes = st.nScopes := rfl
@[simp, grind =] theorem setGroup_nFuts : (st.setGroup g fg).nFuts = st.nFuts := rfl
@[simp, grind =] theorem setGroup_nGroups : (st.setGroup g fg).nGroups = st.nGroups := rfl

@[simp, grind =] theorem setFut_futs : (st.setFut f v).futs = upd st.futs f v := rfl
@[simp, grind =] theorem setFut_tasks : (st.setFut f v).tasks = st.tasks := rfl
@[simp, grind =] theorem setFut_scopes : (st.setFut f v).scopes = st.scopes := rfl
@[simp, grind =] theorem setFut_groups : (st.setFut f v).groups = st.groups := rfl
@[simp, grind =] theorem setFut_futWaiter : (st.setFut f v).futWaiter = st.futWaiter := rfl
@[simp, grind =] theorem setFut_ready : (st.setFut f v).ready = st.ready := rfl
@[simp, grind =] theorem setFut_cur : (st.setFut f v).cur = st.cur := rfl
@[simp, grind =] theorem setFut_timers : (st.setFut f v).timers = st.timers := rfl
@[simp, grind =] theorem setFut_running : (st.setFut f v).running = st.running := rfl
@[simp, grind =] theorem setFut_now : (st.setFut f v).now = st.now := rfl
@[simp, grind =] theorem setFut_cycle : (st.setFut f v).cycle = st.cycle := rfl
@[simp, grind =] theorem setFut_nTasks : (st.setFut f v).nTasks = st.nTasks := rfl
@[simp, grind =] theorem setFut_nScopes : (st.setFut f v).nScopes = st.nScopes := rfl
@[simp, grind =] theorem setFut_nFuts : (st.setFut f v).nFuts = st.nFuts := rfl
@[simp, grind =] theorem setFut_nGroups : (st.setFut f v).nGroups = st.nGroups := rfl

@[simp, grind =] theorem schedule_ready : (st.schedule h).ready = st.ready ++ [h] := rfl
@[simp, grind =] theorem schedule_tasks : (st.schedule h).tasks = st.tasks := rfl
@[simp, grind =] theorem schedule_scopes : (st.schedule h).scopes = st.scopes := rfl
@[simp, grind =] theorem schedule_groups : (st.schedule h).groups = st.groups := rfl
@[simp, grind =] theorem schedule_futs : (st.schedule h).futs = st.futs := rfl
@[simp, grind =] theorem schedule_futWaiter : (st.schedule h).futWaiter = st.futWaiter := rfl
@[simp, grind =] theorem schedule_cur : (st.schedule h).cur = st.cur := rfl
@[simp, grind =] theorem schedule_timers : (st.schedule h).timers = st.timers := rfl
@[simp, grind =] theorem schedule_running : (st.schedule h).running = st.running := rfl
@[simp, grind =] theorem schedule_now : (st.schedule h).now = st.now := rfl
@[simp, grind =] theorem schedule_cycle : (st.schedule h).cycle = st.cycle := rfl
@[simp, grind =] theorem schedule_nTasks : (st.schedule h).nTasks = st.nTasks := rfl
@[simp, grind =] theorem schedule_nScopes : (st.schedule h).nScopes = st.nScopes := rfl
@[simp, grind =] theorem schedule_nFuts : (st.schedule h).nFuts = st.nFuts := rfl
@[simp, grind =] theorem schedule_nGroups : (st.schedule h).nGroups = st.nGroups := rfl

@[simp, grind =] theorem unschedule_ready : (st.unschedule h).ready = st.ready.filter (· ≠ h) := rfl
@[simp, grind =] theorem unschedule_cur : (st.unschedule h).cur = st.cur.filter (· ≠ h) := rfl
@[simp, grind =] theorem unschedule_timers :
    (st.unschedule h).timers = st.timers.filter (·.2 ≠ h) := rfl
@[simp, grind =] theorem unschedule_tasks : (st.unschedule h).tasks = st.tasks := rfl
@[simp, grind =] theorem unschedule_scopes : (st.unschedule h).scopes = st.scopes := rfl
@[simp, grind =] theorem unschedule_groups : (st.unschedule h).groups = st.groups := rfl
@[simp, grind =] theorem unschedule_futs : (st.unschedule h).futs = st.futs := rfl
@[simp, grind =] theorem unschedule_futWaiter : (st.unschedule h).futWaiter = st.futWaiter := rfl
@[simp, grind =] theorem unschedule_running : (st.unschedule h).running = st.running := rfl
@[simp, grind =] theorem unschedule_now : (st.unschedule h).now = st.now := rfl
@[simp, grind =] theorem unschedule_cycle : (st.unschedule h).cycle = st.cycle := rfl
@[simp, grind =] theorem unschedule_nTasks : (st.unschedule h).nTasks = st.nTasks := rfl
@[simp, grind =] theorem unschedule_nScopes : (st.unschedule h).nScopes = st.nScopes := rfl
@[simp, grind =] theorem unschedule_nFuts : (st.unschedule h).nFuts = st.nFuts := rfl
@[simp, grind =] theorem unschedule_nGroups : (st.unschedule h).nGroups = st.nGroups := rfl

end proj

/-! ### the relations -/

/-- what the cancellation machinery may change in a task: `st` only from `blocked f` to
`woken f`; `mustCancel`, `mcAnyio`, `ncancel`, `nNative`, `nAnyio`, `nUncancel` freely -/
structure TaskFrame (x y : Task) : Prop where
  st : y.st = x.st ∨ ∃ f, x.st = .blocked f ∧ y.st = .woken f
  hasState : y.hasState = x.hasState
  scope : y.scope = x.scope
  lib : y.lib = x.lib
  group : y.group = x.group
  startFut : y.startFut = x.startFut
  hscope : y.hscope = x.hscope
  finished : y.finished = x.finished
  hwaiters : y.hwaiters = x.hwaiters
  hexc : y.hexc = x.hexc
  outcome : y.outcome = x.outcome
  doneCbRun : y.doneCbRun = x.doneCbRun

theorem TaskFrame.refl (x : Task) : TaskFrame x x := by
  constructor <;> simp

theorem TaskFrame.trans {x y z : Task} (h1 : TaskFrame x y) (h2 : TaskFrame y z) :
    TaskFrame x z := by
  obtain ⟨a1, a2, a3, a4, a5, a6, a7, a8, a9, a10, a11, a12⟩ := h1
  obtain ⟨b1, b2, b3, b4, b5, b6, b7, b8, b9, b10, b11, b12⟩ := h2
  constructor <;> grind

theorem TaskFrame.st_done {x y : Task} (h : TaskFrame x y) : y.st = .done ↔ x.st = .done := by
  have := h.st; grind
theorem TaskFrame.st_created {x y : Task} (h : TaskFrame x y) :
    y.st = .created ↔ x.st = .created := by
  have := h.st; grind
theorem TaskFrame.st_running {x y : Task} (h : TaskFrame x y) :
    y.st = .running ↔ x.st = .running := by
  have := h.st; grind
theorem TaskFrame.st_yielded {x y : Task} (h : TaskFrame x y) :
    y.st = .yielded ↔ x.st = .yielded := by
  have := h.st; grind
theorem TaskFrame.st_blocked {x y : Task} (h : TaskFrame x y) {f} :
    y.st = .blocked f → x.st = .blocked f := by
  have := h.st; grind
theorem TaskFrame.st_woken {x y : Task} (h : TaskFrame x y) {f} :
    x.st = .woken f → y.st = .woken f := by
  have := h.st; grind

/-- all fields of a scope except `pending` and `deliver` agree -/
structure ScopeStructEq (x y : Scope) : Prop where
  exists_ : y.exists_ = x.exists_
  parent : y.parent = x.parent
  shield : y.shield = x.shield
  cancelCalled : y.cancelCalled = x.cancelCalled
  active : y.active = x.active
  entered : y.entered = x.entered
  host : y.host = x.host
  tasks : y.tasks = x.tasks
  children : y.children = x.children
  deadline : y.deadline = x.deadline
  timer : y.timer = x.timer
  chain : y.chain = x.chain
  caught : y.caught = x.caught
  byDeadline : y.byDeadline = x.byDeadline
  cancelTime : y.cancelTime = x.cancelTime

theorem ScopeStructEq.refl (x : Scope) : ScopeStructEq x x := by constructor <;> rfl

theorem ScopeStructEq.trans {x y z : Scope} (h1 : ScopeStructEq x y) (h2 : ScopeStructEq y z) :
    ScopeStructEq x z := by
  cases h1; cases h2; constructor <;> simp [*]

/-- same number of scopes, and every scope agrees on its structural fields -/
def SameScopeStruct (a b : State) : Prop :=
  b.nScopes = a.nScopes ∧ ∀ s, ScopeStructEq (a.scopes s) (b.scopes s)

theorem SameScopeStruct.refl (a : State) : SameScopeStruct a a :=
  ⟨rfl, fun _ => ScopeStructEq.refl _⟩

theorem SameScopeStruct.trans {a b c : State} (h1 : SameScopeStruct a b)
    (h2 : SameScopeStruct b c) : SameScopeStruct a c :=
  ⟨h2.1.trans h1.1, fun s => (h1.2 s).trans (h2.2 s)⟩

/-- the fields of a scope that only `__enter__`, `__exit__`, the `shield`/`deadline` setters and
task spawning/completion change -/
structure ScopeForestEq (x y : Scope) : Prop where
  exists_ : y.exists_ = x.exists_
  parent : y.parent = x.parent
  shield : y.shield = x.shield
  cancelCalled : x.cancelCalled = true → y.cancelCalled = true
  active : y.active = x.active
  entered : y.entered = x.entered
  host : y.host = x.host
  tasks : y.tasks = x.tasks
  children : y.children = x.children
  deadline : y.deadline = x.deadline
  chain : y.chain = x.chain
  caught : x.caught = true → y.caught = true

theorem ScopeForestEq.refl (x : Scope) : ScopeForestEq x x := by constructor <;> simp

theorem ScopeForestEq.trans {x y z : Scope} (h1 : ScopeForestEq x y) (h2 : ScopeForestEq y z) :
    ScopeForestEq x z := by
  cases h1; cases h2; constructor <;> simp_all

theorem ScopeStructEq.forest {x y : Scope} (h : ScopeStructEq x y) : ScopeForestEq x y := by
  cases h; constructor <;> simp_all

/-- a handle that the cancellation machinery may add to `ready` -/
def NewH (a : State) (h : Handle) : Prop :=
  (∃ t f, h = .wakeup t ∧ ((a.tasks t).st = .blocked f ∨ (a.tasks t).st = .woken f)) ∨
  (∃ s, h = .deliver s ∧ ((a.scopes s).tasks ≠ [] ∨ (a.scopes s).children ≠ []))

/-- strict frame: see the header -/
structure Frame (a b : State) : Prop where
  scopes : ∀ s, ScopeStructEq (a.scopes s) (b.scopes s)
  tasks : ∀ t, TaskFrame (a.tasks t) (b.tasks t)
  futs : ∀ f, (a.futs f).done = true → b.futs f = a.futs f
  futWaiter : b.futWaiter = a.futWaiter
  groups : b.groups = a.groups
  nTasks : b.nTasks = a.nTasks
  nScopes : b.nScopes = a.nScopes
  nFuts : b.nFuts = a.nFuts
  nGroups : b.nGroups = a.nGroups
  now : b.now = a.now
  cycle : b.cycle = a.cycle
  running : b.running = a.running
  timers : b.timers = a.timers
  cur : b.cur = a.cur
  ready : ∃ l, b.ready = a.ready ++ l ∧ ∀ h ∈ l, NewH a h

theorem Frame.refl (a : State) : Frame a a := by
  constructor <;> first | rfl | (intros; first | exact ScopeStructEq.refl _ | exact TaskFrame.refl _ | rfl) | skip
  exact ⟨[], by simp, by simp⟩

theorem NewH.mono {a b : State} (ht : ∀ t, TaskFrame (a.tasks t) (b.tasks t))
    (hs : ∀ s, (b.scopes s).tasks = (a.scopes s).tasks ∧ (b.scopes s).children = (a.scopes s).children)
    {h : Handle} (hn : NewH b h) : NewH a h := by
  rcases hn with ⟨t, f, rfl, hb⟩ | ⟨s, rfl, hb⟩
  · refine .inl ⟨t, f, rfl, ?_⟩
    have := (ht t).st; grind
  · refine .inr ⟨s, rfl, ?_⟩
    rw [(hs s).1, (hs s).2] at hb; exact hb

theorem Frame.trans {a b c : State} (h1 : Frame a b) (h2 : Frame b c) : Frame a c := by
  obtain ⟨l1, e1, n1⟩ := h1.ready
  obtain ⟨l2, e2, n2⟩ := h2.ready
  constructor
  · exact fun s => (h1.scopes s).trans (h2.scopes s)
  · exact fun t => (h1.tasks t).trans (h2.tasks t)
  · intro f hf
    have := h1.futs f hf
    rw [h2.futs f (this ▸ hf), this]
  · rw [h2.futWaiter, h1.futWaiter]
  · rw [h2.groups, h1.groups]
  · rw [h2.nTasks, h1.nTasks]
  · rw [h2.nScopes, h1.nScopes]
  · rw [h2.nFuts, h1.nFuts]
  · rw [h2.nGroups, h1.nGroups]
  · rw [h2.now, h1.now]
  · rw [h2.cycle, h1.cycle]
  · rw [h2.running, h1.running]
  · rw [h2.timers, h1.timers]
  · rw [h2.cur, h1.cur]
  · refine ⟨l1 ++ l2, by rw [e2, e1, List.append_assoc], ?_⟩
    intro h hm
    rcases List.mem_append.mp hm with hm | hm
    · exact n1 h hm
    · exact NewH.mono h1.tasks (fun s => ⟨(h1.scopes s).tasks, (h1.scopes s).children⟩) (n2 h hm)

theorem Frame.sameScopeStruct {a b : State} (h : Frame a b) : SameScopeStruct a b :=
  ⟨h.nScopes, h.scopes⟩

/-! ### building blocks -/

theorem Frame.of_setTask (st : State) (t : Nat) (f : Task → Task)
    (h : TaskFrame (st.tasks t) (f (st.tasks t))) : Frame st (st.setTask t f) := by
  constructor <;> try rfl
  · intro s; exact ScopeStructEq.refl _
  · intro u
    by_cases hu : u = t
    · subst hu; simpa using h
    · simpa [hu] using TaskFrame.refl _
  · intros; rfl
  · exact ⟨[], by simp, by simp⟩

theorem Frame.of_setScope (st : State) (s : Nat) (f : Scope → Scope)
    (h : ScopeStructEq (st.scopes s) (f (st.scopes s))) : Frame st (st.setScope s f) := by
  constructor <;> try rfl
  · intro u
    by_cases hu : u = s
    · subst hu; simpa using h
    · simpa [hu] using ScopeStructEq.refl _
  · intro u; exact TaskFrame.refl _
  · intros; rfl
  · exact ⟨[], by simp, by simp⟩

theorem Frame.of_setFut (st : State) (f : Nat) (v : FutSt) (h : (st.futs f).done = false) :
    Frame st (st.setFut f v) := by
  constructor <;> try rfl
  · intro u; exact ScopeStructEq.refl _
  · intro u; exact TaskFrame.refl _
  · intro g hg
    by_cases hgf : g = f
    · subst hgf; simp [h] at hg
    · simp [hgf]
  · exact ⟨[], by simp, by simp⟩

theorem Frame.of_schedule (st : State) (h : Handle) (hn : NewH st h) :
    Frame st (st.schedule h) := by
  constructor <;> try rfl
  · intro u; exact ScopeStructEq.refl _
  · intro u; exact TaskFrame.refl _
  · intros; rfl
  · exact ⟨[h], by simp, by simpa using hn⟩

/-! ### `resolveFut`, `taskCancel`, `taskUncancel` -/

theorem frame_resolveFut (st : State) (f : Nat) (v : FutSt) : Frame st (resolveFut st f v) := by
  unfold resolveFut
  split
  · exact Frame.refl _
  · rename_i hd
    have h1 := Frame.of_setFut st f v (by simpa using hd)
    simp only []
    split
    · rename_i t ht
      split
      · rename_i hb
        refine h1.trans (((Frame.of_setTask _ t _ ?_)).trans (Frame.of_schedule _ _ ?_))
        · constructor <;> simp_all
        · left; exact ⟨t, f, rfl, by simp⟩
      · exact h1
    · exact h1

theorem frame_taskCancel (st : State) (t : Nat) (a : Bool) : Frame st (taskCancel st t a) := by
  unfold taskCancel
  simp only []
  split
  · exact Frame.refl _
  · have h1 : Frame st (st.setTask t (fun x =>
        { x with ncancel := x.ncancel + 1,
                 nNative := if a then x.nNative else x.nNative + 1,
                 nAnyio := if a then x.nAnyio + 1 else x.nAnyio })) :=
      Frame.of_setTask _ _ _ (by constructor <;> simp)
    split
    · exact h1.trans (frame_resolveFut _ _ _)
    · exact h1.trans (Frame.of_setTask _ _ _ (by constructor <;> simp))

theorem frame_taskUncancel (st : State) (t n : Nat) : Frame st (taskUncancel st t n) :=
  Frame.of_setTask _ _ _ (by constructor <;> simp)

/-! ### `_deliver_cancellation` -/

theorem foldl_frame {α β : Type} (f : State × β → α → State × β)
    (hf : ∀ acc x, Frame acc.1 (f acc x).1) (l : List α) (acc : State × β) :
    Frame acc.1 (l.foldl f acc).1 := by
  induction l generalizing acc with
  | nil => exact Frame.refl _
  | cons x l ih => exact (hf acc x).trans (ih _)

theorem frame_hitTask (origin s : Nat) (acc : State × Bool) (t : Nat) :
    Frame acc.1 (hitTask origin s acc t).1 := by
  unfold hitTask
  simp only []
  split
  · exact Frame.refl _
  · split
    · exact Frame.refl _
    · split
      · split
        · exact Frame.refl _
        · simp only []
          split
          · exact ((frame_taskCancel _ _ _).trans
              (Frame.of_setScope _ _ _ (by constructor <;> rfl))).trans
              (Frame.of_setTask _ _ _ (by constructor <;> simp))
          · exact (frame_taskCancel _ _ _).trans
              (Frame.of_setTask _ _ _ (by constructor <;> simp))
      · exact Frame.refl _

theorem frame_deliverGo (fuel : Nat) (st : State) (origin s : Nat) :
    Frame st (deliverGo fuel st origin s).1 := by
  induction fuel generalizing st s with
  | zero => exact Frame.refl _
  | succ n ih =>
    unfold deliverGo
    simp only []
    refine Frame.trans (b := ((st.scopes s).tasks.foldl (hitTask origin s) (st, false)).1)
      (foldl_frame (hitTask origin s) (frame_hitTask origin s) _ (st, false)) ?_
    apply foldl_frame
    intro acc c
    split
    · exact ih _ _
    · exact Frame.refl _

theorem deliverGo_true {fuel : Nat} {st : State} {origin s : Nat}
    (h : (deliverGo fuel st origin s).2 = true) :
    (st.scopes s).tasks ≠ [] ∨ (st.scopes s).children ≠ [] := by
  cases fuel with
  | zero => simp [deliverGo] at h
  | succ n =>
    unfold deliverGo at h
    by_cases h1 : (st.scopes s).tasks = []
    · by_cases h2 : (st.scopes s).children = []
      · simp [h1, h2] at h
      · exact .inr h2
    · exact .inl h1

theorem frame_deliver (st : State) (origin : Nat) : Frame st (deliver st origin) := by
  unfold deliver
  simp only []
  have h1 := frame_deliverGo (st.nScopes + 1) st origin origin
  split
  · rename_i hr
    have h2 := deliverGo_true hr
    refine h1.trans ((Frame.of_setScope _ _ _ (by constructor <;> rfl)).trans
      (Frame.of_schedule _ _ ?_))
    right
    refine ⟨origin, rfl, ?_⟩
    simpa [(h1.scopes origin).tasks, (h1.scopes origin).children] using h2
  · exact h1.trans (Frame.of_setScope _ _ _ (by constructor <;> rfl))

theorem frame_restartList (st : State) (l : List Nat) : Frame st (restartList st l) := by
  induction l with
  | nil => exact Frame.refl _
  | cons s rest ih =>
    unfold restartList
    split
    · split
      · exact Frame.refl _
      · exact frame_deliver _ _
    · split
      · exact Frame.refl _
      · exact ih

theorem frame_restartInParent (st : State) (s : Nat) : Frame st (restartInParent st s) :=
  frame_restartList _ _

/-! ### the weak frame -/

structure CFrame (a b : State) : Prop where
  scopes : ∀ s, ScopeForestEq (a.scopes s) (b.scopes s)
  tasks : ∀ t, TaskFrame (a.tasks t) (b.tasks t)
  futs : ∀ f, (a.futs f).done = true → b.futs f = a.futs f
  futWaiter : b.futWaiter = a.futWaiter
  groups : b.groups = a.groups
  nTasks : b.nTasks = a.nTasks
  nScopes : b.nScopes = a.nScopes
  nFuts : b.nFuts = a.nFuts
  nGroups : b.nGroups = a.nGroups
  now : b.now = a.now
  cycle : b.cycle = a.cycle
  running : b.running = a.running
  cur : ∀ h ∈ b.cur, h ∈ a.cur
  timers : ∀ p ∈ b.timers, p ∈ a.timers ∨ ∃ s, p.2 = .timeout s ∧ (a.scopes s).deadline.isSome
  ready : ∀ h ∈ b.ready, h ∈ a.ready ∨ NewH a h

theorem Frame.cframe {a b : State} (h : Frame a b) : CFrame a b := by
  obtain ⟨l, hl, hn⟩ := h.ready
  constructor
  · exact fun s => (h.scopes s).forest
  · exact h.tasks
  · exact h.futs
  · exact h.futWaiter
  · exact h.groups
  · exact h.nTasks
  · exact h.nScopes
  · exact h.nFuts
  · exact h.nGroups
  · exact h.now
  · exact h.cycle
  · exact h.running
  · rw [h.cur]; exact fun _ h => h
  · rw [h.timers]; exact fun _ h => .inl h
  · rw [hl]; intro x hx
    rcases List.mem_append.mp hx with hx | hx
    · exact .inl hx
    · exact .inr (hn x hx)

theorem CFrame.refl (a : State) : CFrame a a := (Frame.refl a).cframe

theorem CFrame.trans {a b c : State} (h1 : CFrame a b) (h2 : CFrame b c) : CFrame a c := by
  constructor
  · exact fun s => (h1.scopes s).trans (h2.scopes s)
  · exact fun t => (h1.tasks t).trans (h2.tasks t)
  · intro f hf
    have := h1.futs f hf
    rw [h2.futs f (this ▸ hf), this]
  · rw [h2.futWaiter, h1.futWaiter]
  · rw [h2.groups, h1.groups]
  · rw [h2.nTasks, h1.nTasks]
  · rw [h2.nScopes, h1.nScopes]
  · rw [h2.nFuts, h1.nFuts]
  · rw [h2.nGroups, h1.nGroups]
  · rw [h2.now, h1.now]
  · rw [h2.cycle, h1.cycle]
  · rw [h2.running, h1.running]
  · exact fun x hx => h1.cur x (h2.cur x hx)
  · intro p hp
    rcases h2.timers p hp with hp | ⟨s, hs, hd⟩
    · exact h1.timers p hp
    · exact .inr ⟨s, hs, by rw [← (h1.scopes s).deadline]; exact hd⟩
  · intro x hx
    rcases h2.ready x hx with hx | hx
    · exact h1.ready x hx
    · exact .inr (NewH.mono h1.tasks
        (fun s => ⟨(h1.scopes s).tasks, (h1.scopes s).children⟩) hx)

theorem CFrame.of_setScope (st : State) (s : Nat) (f : Scope → Scope)
    (h : ScopeForestEq (st.scopes s) (f (st.scopes s))) : CFrame st (st.setScope s f) := by
  constructor <;> try rfl
  · intro u
    by_cases hu : u = s
    · subst hu; simpa using h
    · simpa [hu] using ScopeForestEq.refl _
  · intro u; exact TaskFrame.refl _
  · intros; rfl
  · exact fun _ h => h
  · exact fun _ h => .inl h
  · exact fun _ h => .inl h

theorem CFrame.of_unschedule (st : State) (h : Handle) : CFrame st (st.unschedule h) := by
  constructor <;> try rfl
  · intro u; exact ScopeForestEq.refl _
  · intro u; exact TaskFrame.refl _
  · intros; rfl
  · intro x hx; simp at hx; exact hx.1
  · intro x hx; simp at hx; exact .inl hx.1
  · intro x hx; simp at hx; exact .inl hx.1

/-- applying the same update of one scope on both sides, when the update respects
`ScopeForestEq` and keeps `tasks`, `children`, `deadline` -/
theorem CFrame.congr_setScope {a b : State} (h : CFrame a b) (s : Nat) (f : Scope → Scope)
    (hf : ∀ x y, ScopeForestEq x y → ScopeForestEq (f x) (f y))
    (hk : ∀ x, (f x).tasks = x.tasks ∧ (f x).children = x.children ∧ (f x).deadline = x.deadline) :
    CFrame (a.setScope s f) (b.setScope s f) := by
  have key : ∀ u, (upd a.scopes s (f (a.scopes s)) u).tasks = (a.scopes u).tasks ∧
      (upd a.scopes s (f (a.scopes s)) u).children = (a.scopes u).children ∧
      (upd a.scopes s (f (a.scopes s)) u).deadline = (a.scopes u).deadline := by
    intro u
    by_cases hu : u = s
    · subst hu; simpa using hk _
    · simp [hu]
  constructor
  · intro u
    by_cases hu : u = s
    · subst hu; simpa using hf _ _ (h.scopes u)
    · simpa [hu] using h.scopes u
  · exact h.tasks
  · exact h.futs
  · exact h.futWaiter
  · exact h.groups
  · exact h.nTasks
  · exact h.nScopes
  · exact h.nFuts
  · exact h.nGroups
  · exact h.now
  · exact h.cycle
  · exact h.running
  · exact h.cur
  · intro p hp
    rcases h.timers p hp with hp | ⟨u, hu, hd⟩
    · exact .inl hp
    · exact .inr ⟨u, hu, by simpa [(key u).2.2] using hd⟩
  · intro x hx
    rcases h.ready x hx with hx | hx
    · exact .inl hx
    · right
      rcases hx with hx | ⟨u, rfl, hu⟩
      · exact .inl hx
      · exact .inr ⟨u, rfl, by simpa [(key u).1, (key u).2.1] using hu⟩

/-! ### `cancelScope`, `armTimeout` -/

theorem cframe_cancelScope (st : State) (s : Nat) (b : Bool) : CFrame st (cancelScope st s b) := by
  unfold cancelScope
  split
  · exact CFrame.refl _
  · have h1 : CFrame st (if (st.scopes s).timer then
        (st.unschedule (.timeout s)).setScope s (fun x => { x with timer := false }) else st) := by
      split
      · exact (CFrame.of_unschedule _ _).trans
          (CFrame.of_setScope _ _ _ (by constructor <;> simp))
      · exact CFrame.refl _
    simp only []
    refine h1.trans ?_
    generalize (if (st.scopes s).timer then _ else st) = st1
    have h2 : CFrame st1 (st1.setScope s (fun x =>
        { x with cancelCalled := true, byDeadline := b, cancelTime := st1.now })) :=
      CFrame.of_setScope _ _ _ (by constructor <;> simp)
    split
    · exact h2.trans (frame_deliver _ _).cframe
    · exact h2

theorem cancelScope_cancelCalled (st : State) (s : Nat) (b : Bool) :
    ((cancelScope st s b).scopes s).cancelCalled = true := by
  unfold cancelScope
  split
  · simp_all
  · simp only []
    generalize (if (st.scopes s).timer then _ else st) = st1
    split
    · rw [((frame_deliver _ _).scopes s).cancelCalled]; simp
    · simp

theorem cframe_armTimeout (st : State) (s : Nat) : CFrame st (armTimeout st s) := by
  unfold armTimeout
  split
  · exact CFrame.refl _
  · rename_i d hd
    split
    · exact cframe_cancelScope _ _ _
    · constructor <;> try rfl
      · intro u
        by_cases hu : u = s
        · subst hu; simp; constructor <;> simp
        · simpa [hu] using ScopeForestEq.refl _
      · intro u; exact TaskFrame.refl _
      · intros; rfl
      · exact fun _ h => h
      · intro p hp
        simp at hp
        rcases hp with hp | rfl
        · exact .inl hp
        · exact .inr ⟨s, rfl, by simp [hd]⟩
      · exact fun _ h => .inl h

/-- `cancelScope st s b` touches the structural fields of no scope other than `s` -/
theorem cancelScope_other (st : State) (s : Nat) (b : Bool) {x : Nat} (hx : x ≠ s) :
    ScopeStructEq (st.scopes x) ((cancelScope st s b).scopes x) := by
  unfold cancelScope
  split
  · exact ScopeStructEq.refl _
  · simp only []
    have h1 : ScopeStructEq (st.scopes x) ((if (st.scopes s).timer then
        (st.unschedule (.timeout s)).setScope s (fun x => { x with timer := false })
        else st).scopes x) := by
      split
      · simpa [hx] using ScopeStructEq.refl _
      · exact ScopeStructEq.refl _
    refine h1.trans ?_
    generalize (if (st.scopes s).timer then _ else st) = st1
    split
    · refine ScopeStructEq.trans ?_ ((frame_deliver _ _).scopes x)
      simpa [hx] using ScopeStructEq.refl _
    · simpa [hx] using ScopeStructEq.refl _

/-- the scope itself: when `cancel()` takes effect -/
theorem cancelScope_self (st : State) (s : Nat) (b : Bool)
    (hc : (st.scopes s).cancelCalled = false) :
    let y := (cancelScope st s b).scopes s
    y.cancelCalled = true ∧ y.timer = false ∧ y.byDeadline = b ∧ y.cancelTime = st.now ∧
      y.caught = (st.scopes s).caught := by
  unfold cancelScope
  simp only [hc, Bool.false_eq_true, if_false]
  have h1 : ((if (st.scopes s).timer then
        (st.unschedule (.timeout s)).setScope s (fun x => { x with timer := false })
        else st).scopes s).timer = false ∧ ((if (st.scopes s).timer then
        (st.unschedule (.timeout s)).setScope s (fun x => { x with timer := false })
        else st).scopes s).caught = (st.scopes s).caught ∧ (if (st.scopes s).timer then
        (st.unschedule (.timeout s)).setScope s (fun x => { x with timer := false })
        else st).now = st.now := by
    split <;> simp_all
  generalize (if (st.scopes s).timer then _ else st) = st1 at h1
  split
  · have h2 := (frame_deliver (st1.setScope s (fun x =>
        { x with cancelCalled := true, byDeadline := b, cancelTime := st1.now })) s).scopes s
    rw [h2.cancelCalled, h2.timer, h2.byDeadline, h2.cancelTime, h2.caught]
    simp [h1]
  · simp [h1]

theorem cancelScope_noop (st : State) (s : Nat) (b : Bool)
    (hc : (st.scopes s).cancelCalled = true) : cancelScope st s b = st := by
  simp [cancelScope, hc]

/-! ### `setShield`, `setDeadline` -/

theorem frame_setShield (st : State) (s : Nat) (b : Bool) :
    Frame (st.setScope s (fun x => { x with shield := b })) (setShield st s b) := by
  unfold setShield
  split
  · rename_i h
    constructor <;> try rfl
    · intro u
      by_cases hu : u = s
      · subst hu; simp; constructor <;> simp [h]
      · simpa [hu] using ScopeStructEq.refl _
    · intro u; exact TaskFrame.refl _
    · intros; rfl
    · exact ⟨[], by simp, by simp⟩
  · simp only []
    split
    · exact Frame.refl _
    · exact frame_restartInParent _ _

theorem cframe_setDeadline (st : State) (s : Nat) (d : Option Nat) :
    CFrame (st.setScope s (fun x => { x with deadline := d })) (setDeadline st s d) := by
  unfold setDeadline
  simp only []
  generalize st.setScope s (fun x => { x with deadline := d }) = st0
  have h1 : CFrame st0 (if (st0.scopes s).timer then
      (st0.unschedule (.timeout s)).setScope s (fun x => { x with timer := false }) else st0) := by
    split
    · exact (CFrame.of_unschedule _ _).trans
        (CFrame.of_setScope _ _ _ (by constructor <;> simp))
    · exact CFrame.refl _
  generalize (if (st0.scopes s).timer then _ else st0) = st1 at h1
  split
  · exact h1.trans (cframe_armTimeout _ _)
  · exact h1

/-! ### `enterScope` -/

/-- the structural updates of `__enter__`, before `_timeout()` -/
def enterCore (st : State) (t s : Nat) : State :=
  let tk := st.tasks t
  let st := st.setScope s (fun x => { x with host := some t, tasks := t :: x.tasks })
  if !tk.hasState then
    (st.setTask t (fun x => { x with hasState := true, scope := some s })).setScope s
      (fun x => { x with chain := [s] })
  else
    let pchain : List Nat := match tk.scope with
      | some p => (st.scopes p).chain
      | none => []
    let st := st.setScope s (fun x => { x with parent := tk.scope, chain := s :: pchain })
    let st := st.setTask t (fun x => { x with scope := some s })
    match tk.scope with
    | some p =>
      st.setScope p (fun x => { x with children := s :: x.children, tasks := x.tasks.erase t })
    | none => st

/-- all structural updates of `__enter__` -/
def enterPre (st : State) (t s : Nat) : State :=
  (enterCore st t s).setScope s (fun x => { x with active := true, entered := true })

theorem enterScope_eq (st : State) (t s : Nat) :
    enterScope st t s =
      if (st.scopes s).active ∨ (st.scopes s).entered then none else
      let st3 := (armTimeout (enterCore st t s) s).setScope s
        (fun x => { x with active := true, entered := true })
      some (if (st3.scopes s).cancelCalled then deliver st3 s else st3) := rfl

/-- `__enter__` = the pure update `enterPre`, then cancellation machinery -/
theorem enterScope_spec {st st' : State} {t s : Nat} (h : enterScope st t s = some st') :
    (st.scopes s).active = false ∧ (st.scopes s).entered = false ∧
      CFrame (enterPre st t s) st' := by
  rw [enterScope_eq] at h
  split at h
  · contradiction
  · rename_i hg
    simp only [Option.some.injEq] at h
    refine ⟨by simpa using fun h => hg (.inl h), by simpa using fun h => hg (.inr h), ?_⟩
    subst h
    have h1 : CFrame (enterPre st t s) ((armTimeout (enterCore st t s) s).setScope s
        (fun x => { x with active := true, entered := true })) := by
      apply CFrame.congr_setScope (cframe_armTimeout _ _)
      · intro x y hxy; cases hxy; constructor <;> simp_all
      · intro x; simp
    split
    · exact h1.trans (frame_deliver _ _).cframe
    · exact h1

/-! ### `exitScope` -/

/-- the structural updates of `__exit__` before `_restart_cancellation_in_parent` -/
def exitCore (st : State) (t s : Nat) : State :=
  let sc := st.scopes s
  let st := st.setScope s (fun x => { x with active := false })
  let st :=
    if sc.timer then (st.unschedule (.timeout s)).setScope s (fun x => { x with timer := false })
    else st
  let st := st.setScope s (fun x => { x with tasks := x.tasks.erase t })
  let st :=
    match sc.parent with
    | some p =>
      st.setScope p (fun x => { x with children := x.children.erase s, tasks := t :: x.tasks })
    | none => st
  st.setTask t (fun x => { x with scope := sc.parent })

/-- all structural updates of `__exit__` -/
def exitPre (st : State) (t s : Nat) : State :=
  (exitCore st t s).setScope s (fun x => { x with host := none })

/-- the part of `__exit__` after `_restart_cancellation_in_parent` -/
def exitTail (st : State) (t s : Nat) (ev : ExcVal) : State × ExitResult :=
  let sc := st.scopes s
  let fin := fun (st : State) => st.setScope s (fun x => { x with host := none })
  if sc.cancelCalled ∧ !parentVisible st s then
    let st := taskUncancel st t sc.pending
    let st := st.setScope s (fun x => { x with pending := 0 })
    match ev with
    | .group es =>
      let cancels := es.filter (· = .cancelAnyio)
      let rest := es.filter (· ≠ .cancelAnyio)
      if cancels = [] then (fin st, .passed)
      else
        let st := st.setScope s (fun x => { x with caught := true })
        if rest = [] then (fin st, .swallowed) else (fin st, .raised rest)
    | .one .cancelAnyio =>
      (fin (st.setScope s (fun x => { x with caught := true })), .swallowed)
    | _ => (fin st, .passed)
  else
    let st :=
      if sc.pending > 0 then
        let drop := fun (st : State) =>
          st.setTask t (fun x => { x with nDropped := x.nDropped + sc.pending })
        let st :=
          match sc.parent with
          | some p =>
            if (st.scopes p).host = some t then
              st.setScope p (fun x => { x with pending := x.pending + sc.pending })
            else drop st
          | none => drop st
        st.setScope s (fun x => { x with pending := 0 })
      else st
    (fin st, .passed)

/-- literal copy of the end of `exitScope` -/
def exitTailO (st : State) (t s : Nat) (ev : ExcVal) : Option (State × ExitResult) :=
  let sc := st.scopes s
  let fin := fun (st : State) => st.setScope s (fun x => { x with host := none })
  if sc.cancelCalled ∧ !parentVisible st s then
    let st := taskUncancel st t sc.pending
    let st := st.setScope s (fun x => { x with pending := 0 })
    match ev with
    | .group es =>
      let cancels := es.filter (· = .cancelAnyio)
      let rest := es.filter (· ≠ .cancelAnyio)
      if cancels = [] then some (fin st, .passed)
      else
        let st := st.setScope s (fun x => { x with caught := true })
        if rest = [] then some (fin st, .swallowed) else some (fin st, .raised rest)
    | .one .cancelAnyio =>
      some (fin (st.setScope s (fun x => { x with caught := true })), .swallowed)
    | _ => some (fin st, .passed)
  else
    let st :=
      if sc.pending > 0 then
        let drop := fun (st : State) =>
          st.setTask t (fun x => { x with nDropped := x.nDropped + sc.pending })
        let st :=
          match sc.parent with
          | some p =>
            if (st.scopes p).host = some t then
              st.setScope p (fun x => { x with pending := x.pending + sc.pending })
            else drop st
          | none => drop st
        st.setScope s (fun x => { x with pending := 0 })
      else st
    some (fin st, .passed)

theorem exitTailO_eq (st : State) (t s : Nat) (ev : ExcVal) :
    exitTailO st t s ev = some (exitTail st t s ev) := by
  unfold exitTailO exitTail
  simp only []
  split
  · split
    · split
      · rfl
      · split <;> rfl
    · rfl
    · rfl
  · rfl

theorem exitScope_eq (st : State) (t s : Nat) (ev : ExcVal) :
    exitScope st t s ev =
      if !(st.scopes s).active ∨ (st.scopes s).host ≠ some t ∨ !(st.tasks t).hasState ∨
          (st.tasks t).scope ≠ some s then none
      else some (exitTail (restartInParent (exitCore st t s) s) t s ev) := by
  rw [← exitTailO_eq]; rfl

theorem exitTail_cframe (st : State) (t s : Nat) (ev : ExcVal) :
    ∃ x, (exitTail st t s ev).1 = x.setScope s (fun y => { y with host := none }) ∧
      CFrame st x := by
  have hu := (frame_taskUncancel st t (st.scopes s).pending).cframe
  have hp : ∀ (a : State) (u : Nat) (f : Scope → Scope),
      (∀ y, ScopeStructEq y (f y)) → CFrame a (a.setScope u f) :=
    fun a u f hf => (Frame.of_setScope a u f (hf _)).cframe
  have hc : ∀ (a : State), CFrame a (a.setScope s (fun y => { y with caught := true })) :=
    fun a => CFrame.of_setScope _ _ _ (by constructor <;> simp)
  have h0 : ∀ (a : State), CFrame a (a.setScope s (fun y => { y with pending := 0 })) :=
    fun a => hp a s _ (fun y => by constructor <;> rfl)
  unfold exitTail
  simp only []
  split
  · split
    · split
      · exact ⟨_, rfl, hu.trans (h0 _)⟩
      · split
        · exact ⟨_, rfl, (hu.trans (h0 _)).trans (hc _)⟩
        · exact ⟨_, rfl, (hu.trans (h0 _)).trans (hc _)⟩
    · exact ⟨_, rfl, (hu.trans (h0 _)).trans (hc _)⟩
    · exact ⟨_, rfl, hu.trans (h0 _)⟩
  · refine ⟨_, rfl, ?_⟩
    split
    · refine CFrame.trans ?_ (h0 _)
      have hd : ∀ (a : State) (n : Nat),
          CFrame a (a.setTask t (fun x => { x with nDropped := x.nDropped + n })) :=
        fun a n => (Frame.of_setTask _ _ _ (by constructor <;> simp)).cframe
      split
      · split
        · exact hp _ _ _ (fun y => by constructor <;> rfl)
        · exact hd _ _
      · exact hd _ _
    · exact CFrame.refl _

/-- `__exit__` = its guard, the pure update `exitPre`, then cancellation machinery -/
theorem exitScope_spec {st st' : State} {t s : Nat} {ev : ExcVal} {r : ExitResult}
    (h : exitScope st t s ev = some (st', r)) :
    (st.scopes s).active = true ∧ (st.scopes s).host = some t ∧ (st.tasks t).hasState = true ∧
      (st.tasks t).scope = some s ∧ CFrame (exitPre st t s) st' := by
  rw [exitScope_eq] at h
  split at h
  · contradiction
  · rename_i hg
    simp only [Option.some.injEq] at h
    have hg' : (st.scopes s).active = true ∧ (st.scopes s).host = some t ∧
        (st.tasks t).hasState = true ∧ (st.tasks t).scope = some s := by
      simpa using hg
    refine ⟨hg'.1, hg'.2.1, hg'.2.2.1, hg'.2.2.2, ?_⟩
    obtain ⟨x, hx, hcf⟩ := exitTail_cframe (restartInParent (exitCore st t s) s) t s ev
    have : st' = x.setScope s (fun y => { y with host := none }) := by
      rw [← hx, h]
    rw [this]
    apply CFrame.congr_setScope ((frame_restartInParent _ _).cframe.trans hcf)
    · intro x y hxy; cases hxy; constructor <;> simp_all
    · intro x; simp

end AnyioModel.Kernel
