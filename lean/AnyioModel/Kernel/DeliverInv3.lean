/-
Delivery of cancellation, part 3: the liveness invariant `DI` and its preservation by the
cancellation machinery of `Kernel/Scope.lean` (`deliver`, `restartList`, `cancelScope`,
`armTimeout`, `setShield`, `setDeadline`).

`DI st`:
* `live`: every active, cancelled scope `o` from which a delivery would still find a task that is
  not done (`needs st o`) has its `_cancel_handle` set (`deliver = true`);
* `sched`: `deliver = true` implies that a `Handle.deliver o` is scheduled (`ready ++ cur`);
* `bw`: `BW`.
-/
import AnyioModel.Kernel.DeliverInv2

namespace AnyioModel.Kernel

def LiveAt (st : State) (o : Nat) : Prop :=
  (st.scopes o).active = true → (st.scopes o).cancelCalled = true → needs st o →
    (st.scopes o).deliver = true

def Sched (st : State) : Prop :=
  ∀ o, (st.scopes o).deliver = true → Handle.deliver o ∈ st.ready ++ st.cur

structure DI (st : State) : Prop where
  live : ∀ o, LiveAt st o
  sched : Sched st
  bw : BW st

/-! ### `needs` can only shrink -/

/-- everything `needs` reads changes in the direction that makes `needs` smaller -/
structure NLe (a b : State) : Prop where
  active : ∀ s, (b.scopes s).active = true → (a.scopes s).active = true
  parent : ∀ s, (b.scopes s).active = true → (b.scopes s).parent = (a.scopes s).parent
  shield : ∀ s, (b.scopes s).active = true → (b.scopes s).shield = false →
    (a.scopes s).shield = false
  cc : ∀ s, (b.scopes s).active = true → (b.scopes s).cancelCalled = false →
    (a.scopes s).cancelCalled = false
  tasks : ∀ s t, t ∈ (b.scopes s).tasks → t ∈ (a.scopes s).tasks
  done : ∀ t, (a.tasks t).st = .done → (b.tasks t).st = .done

theorem NLe.refl (a : State) : NLe a a :=
  ⟨fun _ h => h, fun _ _ => rfl, fun _ _ h => h, fun _ _ h => h, fun _ _ h => h, fun _ h => h⟩

theorem NLe.trans {a b c : State} (h1 : NLe a b) (h2 : NLe b c) : NLe a c := by
  constructor
  · exact fun s h => h1.active s (h2.active s h)
  · intro s h; rw [h2.parent s h, h1.parent s (h2.active s h)]
  · exact fun s h h' => h1.shield s (h2.active s h) (h2.shield s h h')
  · exact fun s h h' => h1.cc s (h2.active s h) (h2.cc s h h')
  · exact fun s t h => h1.tasks s t (h2.tasks s t h)
  · exact fun t h => h2.done t (h1.done t h)

theorem NLe.reachDown {a b : State} (h : NLe a b) {o c : Nat} (r : reachDown b o c) :
    reachDown a o c := by
  induction r with
  | refl => exact .refl
  | step h1 h2 h3 h4 _ ih =>
    exact .step (by rw [← h.parent _ h2]; exact h1) (h.active _ h2) (h.shield _ h2 h3)
      (h.cc _ h2 h4) ih

theorem NLe.needs {a b : State} (h : NLe a b) {o : Nat} (n : needs b o) : needs a o := by
  obtain ⟨c, t, hr, ht, hd⟩ := n
  exact ⟨c, t, h.reachDown hr, h.tasks c t ht, fun hd' => hd (h.done t hd')⟩

theorem NLe.of_cframe {a b : State} (f : CFrame a b) : NLe a b := by
  constructor
  · intro s h; rw [← (f.scopes s).active]; exact h
  · intro s _; exact (f.scopes s).parent
  · intro s _ h; rw [← (f.scopes s).shield]; exact h
  · intro s _ h
    cases hc : (a.scopes s).cancelCalled
    · rfl
    · rw [(f.scopes s).cancelCalled hc] at h; cases h
  · intro s t h; rw [← (f.scopes s).tasks]; exact h
  · intro t h; exact (f.tasks t).st_done.mpr h

theorem Frame.needs_iff {a b : State} (f : Frame a b) (o : Nat) : needs b o ↔ needs a o := by
  constructor
  · exact (NLe.of_cframe f.cframe).needs
  · rintro ⟨c, t, hr, ht, hd⟩
    refine ⟨c, t, reachDown_congr (fun s => ⟨(f.scopes s).parent, (f.scopes s).active,
      (f.scopes s).shield, (f.scopes s).cancelCalled⟩) hr, by rw [(f.scopes c).tasks]; exact ht, ?_⟩
    intro hd'; exact hd ((f.tasks t).st_done.mp hd')

/-! ### what the machinery guarantees without looking at the forest -/

/-- a piece of cancellation machinery that delivers at most from origin `o` -/
structure DW (a b : State) (o : Nat) : Prop where
  sc : ∀ x, (b.scopes x).parent = (a.scopes x).parent ∧
    (b.scopes x).active = (a.scopes x).active ∧ (b.scopes x).shield = (a.scopes x).shield ∧
    (b.scopes x).tasks = (a.scopes x).tasks ∧
    ((a.scopes x).cancelCalled = true → (b.scopes x).cancelCalled = true)
  done : ∀ t, (b.tasks t).st = .done ↔ (a.tasks t).st = .done
  same : ∀ x, x ≠ o → (b.scopes x).deliver = (a.scopes x).deliver ∧
    (b.scopes x).cancelCalled = (a.scopes x).cancelCalled
  hk : ∀ x, Handle.deliver x ∈ a.ready ++ a.cur → Handle.deliver x ∈ b.ready ++ b.cur
  self : (b.scopes o).deliver = true →
    (a.scopes o).deliver = true ∨ Handle.deliver o ∈ b.ready ++ b.cur
  bw : BW a → BW b

theorem DW.refl (a : State) (o : Nat) : DW a a o :=
  ⟨fun _ => ⟨rfl, rfl, rfl, rfl, fun h => h⟩, fun _ => Iff.rfl, fun _ _ => ⟨rfl, rfl⟩,
    fun _ h => h, fun h => .inl h, fun h => h⟩

theorem DW.act {a b : State} {o : Nat} (h : DW a b o) (x : Nat) :
    (b.scopes x).active = (a.scopes x).active := (h.sc x).2.1

theorem DW.nle {a b : State} {o : Nat} (h : DW a b o) : NLe a b := by
  constructor
  · intro s hs; rw [← h.act]; exact hs
  · intro s _; exact (h.sc s).1
  · intro s _ hs; rw [← (h.sc s).2.2.1]; exact hs
  · intro s _ hs
    cases hc : (a.scopes s).cancelCalled
    · rfl
    · rw [(h.sc s).2.2.2.2 hc] at hs; cases hs
  · intro s t ht; rw [← (h.sc s).2.2.2.1]; exact ht
  · intro t ht; exact (h.done t).mpr ht

theorem DW.trans {a b c : State} {o : Nat} (h1 : DW a b o) (h2 : DW b c o) : DW a c o := by
  constructor
  · intro x
    obtain ⟨a1, a2, a3, a4, a5⟩ := h1.sc x
    obtain ⟨b1, b2, b3, b4, b5⟩ := h2.sc x
    exact ⟨b1.trans a1, b2.trans a2, b3.trans a3, b4.trans a4, fun h => b5 (a5 h)⟩
  · intro t; rw [h2.done, h1.done]
  · intro x hx
    exact ⟨(h2.same x hx).1.trans (h1.same x hx).1, (h2.same x hx).2.trans (h1.same x hx).2⟩
  · exact fun x h => h2.hk x (h1.hk x h)
  · intro h
    rcases h2.self h with h | h
    · rcases h1.self h with h | h
      · exact .inl h
      · exact .inr (h2.hk o h)
    · exact .inr h
  · exact fun h => h2.bw (h1.bw h)

/-- entering (`active := true, entered := true`) on both sides -/
theorem DW.congr_activate {a b : State} {o : Nat} (h : DW a b o) (s : Nat) :
    DW (a.setScope s (fun x => { x with active := true, entered := true }))
      (b.setScope s (fun x => { x with active := true, entered := true })) o := by
  constructor
  · intro x
    obtain ⟨a1, a2, a3, a4, a5⟩ := h.sc x
    by_cases hx : x = s
    · subst hx; simpa using ⟨a1, a3, a4, a5⟩
    · simpa [hx] using ⟨a1, a2, a3, a4, a5⟩
  · exact h.done
  · intro x hx
    by_cases hxs : x = s
    · subst hxs; simpa using h.same x hx
    · simpa [hxs] using h.same x hx
  · exact h.hk
  · intro hd
    have : (b.scopes o).deliver = true := by
      by_cases hos : o = s
      · subst hos; simpa using hd
      · simpa [hos] using hd
    rcases h.self this with h' | h'
    · left
      by_cases hos : o = s
      · subst hos; simpa using h'
      · simpa [hos] using h'
    · exact .inr h'
  · exact h.bw

/-- inert for `DI`: nothing is delivered, no flag changes -/
structure DF (a b : State) : Prop where
  nle : NLe a b
  same : ∀ x, (b.scopes x).deliver = (a.scopes x).deliver ∧
    ((b.scopes x).active = true → (b.scopes x).cancelCalled = true →
      (a.scopes x).cancelCalled = true)
  hk : ∀ x, Handle.deliver x ∈ a.ready ++ a.cur → Handle.deliver x ∈ b.ready ++ b.cur
  bw : BW a → BW b

theorem DF.refl (a : State) : DF a a :=
  ⟨NLe.refl a, fun _ => ⟨rfl, fun _ h => h⟩, fun _ h => h, fun h => h⟩

theorem DF.trans {a b c : State} (h1 : DF a b) (h2 : DF b c) : DF a c := by
  constructor
  · exact h1.nle.trans h2.nle
  · intro x
    refine ⟨(h2.same x).1.trans (h1.same x).1, ?_⟩
    intro ha hc
    exact (h1.same x).2 (h2.nle.active x ha) ((h2.same x).2 ha hc)
  · exact fun x h => h2.hk x (h1.hk x h)
  · exact fun h => h2.bw (h1.bw h)

theorem LiveAt.mono {a b : State} {o : Nat} (h : LiveAt a o) (n : NLe a b)
    (hc : (b.scopes o).active = true → (b.scopes o).cancelCalled = true →
      (a.scopes o).cancelCalled = true)
    (hd : (b.scopes o).deliver = (a.scopes o).deliver) : LiveAt b o := by
  intro ha hcc hn
  rw [hd]
  exact h (n.active o ha) (hc ha hcc) (n.needs hn)

theorem DI.df {a b : State} (h : DI a) (f : DF a b) : DI b := by
  constructor
  · intro o
    exact (h.live o).mono f.nle (f.same o).2 (f.same o).1
  · intro o ho
    rw [(f.same o).1] at ho
    exact f.hk o (h.sched o ho)
  · exact f.bw h.bw

/-- `DI` after a piece of machinery that delivers only from `o`, once `LiveAt _ o` is settled -/
theorem di_of_dw {a b : State} {o : Nat} (hl : ∀ x, x ≠ o → LiveAt a x) (hs : Sched a)
    (hb : BW a) (d : DW a b o) (ho : LiveAt b o) : DI b := by
  constructor
  · intro x
    by_cases hx : x = o
    · subst hx; exact ho
    · exact (hl x hx).mono d.nle (fun _ h => by rw [← (d.same x hx).2]; exact h) (d.same x hx).1
  · intro x hd
    by_cases hx : x = o
    · subst hx
      rcases d.self hd with h | h
      · exact d.hk x (hs x h)
      · exact h
    · rw [(d.same x hx).1] at hd
      exact d.hk x (hs x hd)
  · exact d.bw hb

/-! ### `deliver` -/

theorem hit1_deliverFlag (o : Nat) (x : State) (p : Nat × Nat) (s : Nat) :
    ((hit1 o x p).scopes s).deliver = (x.scopes s).deliver := by
  unfold hit1
  split
  · unfold hitDo
    split
    · by_cases hs : s = o
      · subst hs; simp [taskCancel_scopes]
      · simp [taskCancel_scopes, hs]
    · simp [taskCancel_scopes]
  · rfl

theorem deliverGo_deliverFlag (n : Nat) (a : State) (o s x : Nat) :
    ((deliverGo n a o s).1.scopes x).deliver = (a.scopes x).deliver := by
  rw [deliverGo_eq]
  simp only []
  generalize visitP a n s = l
  induction l generalizing a with
  | nil => rfl
  | cons p l ih => rw [List.foldl_cons, ih, hit1_deliverFlag]

theorem deliver_flag_self (a : State) (o : Nat) :
    ((deliver a o).scopes o).deliver = (deliverGo (a.nScopes + 1) a o o).2 := by
  unfold deliver
  simp only []
  split <;> simp_all

theorem deliver_flag_other (a : State) (o : Nat) {x : Nat} (hx : x ≠ o) :
    ((deliver a o).scopes x).deliver = (a.scopes x).deliver := by
  unfold deliver
  simp only []
  split <;> simp [hx, deliverGo_deliverFlag]

theorem bw_deliver {a : State} (bw : BW a) (o : Nat) : BW (deliver a o) := by
  have := bw_deliverGo bw (a.nScopes + 1) o o
  unfold deliver
  simp only []
  split <;> exact this

theorem mem_ready_cur_frame {a b : State} (f : Frame a b) {h : Handle}
    (hm : h ∈ a.ready ++ a.cur) : h ∈ b.ready ++ b.cur := by
  obtain ⟨l, hl, _⟩ := f.ready
  rw [hl, f.cur]
  simp only [List.mem_append] at hm ⊢
  rcases hm with hm | hm
  · exact .inl (.inl hm)
  · exact .inr hm

theorem dw_deliver (a : State) (o : Nat) : DW a (deliver a o) o := by
  have f := frame_deliver a o
  constructor
  · intro x
    exact ⟨(f.scopes x).parent, (f.scopes x).active, (f.scopes x).shield, (f.scopes x).tasks,
      fun h => by rw [(f.scopes x).cancelCalled]; exact h⟩
  · exact fun t => (f.tasks t).st_done
  · intro x hx
    exact ⟨deliver_flag_other a o hx, (f.scopes x).cancelCalled⟩
  · exact fun x h => mem_ready_cur_frame f h
  · intro h
    right
    rw [deliver_flag_self] at h
    unfold deliver
    simp only [h, if_true]
    simp
  · exact fun bw => bw_deliver bw o

/-- after `deliver`, `_cancel_handle` is set iff some live task is still reachable -/
theorem deliver_flag {a : State} (w : Tree a) (o : Nat) :
    ((deliver a o).scopes o).deliver = true ↔ needs a o := by
  rw [deliver_flag_self]; exact deliverGo_flag w o

theorem liveAt_deliver {a : State} (w : Tree a) (o : Nat) : LiveAt (deliver a o) o := by
  intro _ _ hn
  exact (deliver_flag w o).mpr (((frame_deliver a o).needs_iff o).mp hn)

theorem di_deliver {a : State} (w : Tree a) (h : DI a) (o : Nat) : DI (deliver a o) :=
  di_of_dw (fun x _ => h.live x) h.sched h.bw (dw_deliver a o) (liveAt_deliver w o)

/-! ### `_restart_cancellation_in_parent` -/

/-- the scope whose delivery `restartList` restarts: the first cancelled scope of the list that is
met before any shield -/
def restartTarget (st : State) : List Nat → Option Nat
  | [] => none
  | s :: rest =>
    if (st.scopes s).cancelCalled then some s
    else if (st.scopes s).shield then none
    else restartTarget st rest

theorem restartList_eq (st : State) (l : List Nat) :
    restartList st l =
      match restartTarget st l with
      | none => st
      | some x => if (st.scopes x).deliver then st else deliver st x := by
  induction l with
  | nil => rfl
  | cons s rest ih =>
    unfold restartList restartTarget
    split
    · rfl
    · split
      · rfl
      · exact ih

/-- walking up from a scope that `o` reaches, the restart finds `o` -/
theorem restartTarget_of_reachDown {st : State} (w : Tree st) {o p : Nat}
    (r : reachDown st o p) (hc : (st.scopes o).cancelCalled = true)
    (he : (st.scopes o).entered = true) : restartTarget st (st.scopes p).chain = some o := by
  induction r with
  | refl =>
    rw [w.chain_spec o he]
    simp [restartTarget, hc]
  | @step c q hp ha hs hcc _ ih =>
    have e := w.chain_spec c (w.active_entered c ha)
    rw [hp] at e
    simp only [] at e
    rw [e]
    simp [restartTarget, hcc, hs, ih]

theorem di_restartList {a : State} (w : Tree a) (h : DI a) (l : List Nat) :
    DI (restartList a l) := by
  rw [restartList_eq]
  split
  · exact h
  · split
    · exact h
    · exact di_deliver w h _

/-- the form used after a structural change: every origin whose `needs` may have grown is the
one the restart finds -/
theorem di_restart_fix {a : State} (w : Tree a) (l : List Nat) (hs : Sched a) (hb : BW a)
    (hl : ∀ o, LiveAt a o ∨ restartTarget a l = some o) : DI (restartList a l) := by
  rw [restartList_eq]
  split
  · rename_i hn
    refine ⟨fun o => ?_, hs, hb⟩
    rcases hl o with h | h
    · exact h
    · rw [hn] at h; cases h
  · rename_i x hx
    have hl' : ∀ o, o ≠ x → LiveAt a o := by
      intro o ho
      rcases hl o with h | h
      · exact h
      · rw [hx] at h; cases h; exact absurd rfl ho
    split
    · rename_i hd
      refine ⟨fun o => ?_, hs, hb⟩
      by_cases ho : o = x
      · subst ho; exact fun _ _ _ => hd
      · exact hl' o ho
    · exact di_of_dw hl' hs hb (dw_deliver a x) (liveAt_deliver w x)

theorem dw_restartList (a : State) (l : List Nat) : ∃ o, DW a (restartList a l) o := by
  rw [restartList_eq]
  split
  · exact ⟨0, DW.refl _ _⟩
  · rename_i x _
    split
    · exact ⟨x, DW.refl _ _⟩
    · exact ⟨x, dw_deliver a x⟩

/-! ### `cancel()`, `_timeout()` -/

theorem DF.of_eq {a b : State} (h1 : b.scopes = a.scopes) (h2 : b.tasks = a.tasks)
    (h3 : b.futs = a.futs) (h4 : b.futWaiter = a.futWaiter)
    (hk : ∀ x, Handle.deliver x ∈ a.ready ++ a.cur → Handle.deliver x ∈ b.ready ++ b.cur) :
    DF a b := by
  refine ⟨?_, fun x => by rw [h1]; exact ⟨rfl, fun _ h => h⟩, hk, ?_⟩
  · constructor <;> simp [h1, h2]
  · intro bw t f; rw [h2, h3, h4]; exact bw t f

/-- updating fields of a scope that `DI` does not read -/
theorem DF.of_setScope (a : State) (s : Nat) (f : Scope → Scope)
    (hf : (f (a.scopes s)).parent = (a.scopes s).parent ∧
      (f (a.scopes s)).active = (a.scopes s).active ∧
      (f (a.scopes s)).shield = (a.scopes s).shield ∧
      (f (a.scopes s)).cancelCalled = (a.scopes s).cancelCalled ∧
      (f (a.scopes s)).tasks = (a.scopes s).tasks ∧
      (f (a.scopes s)).deliver = (a.scopes s).deliver) : DF a (a.setScope s f) := by
  have key : ∀ x, ((a.setScope s f).scopes x).parent = (a.scopes x).parent ∧
      ((a.setScope s f).scopes x).active = (a.scopes x).active ∧
      ((a.setScope s f).scopes x).shield = (a.scopes x).shield ∧
      ((a.setScope s f).scopes x).cancelCalled = (a.scopes x).cancelCalled ∧
      ((a.setScope s f).scopes x).tasks = (a.scopes x).tasks ∧
      ((a.setScope s f).scopes x).deliver = (a.scopes x).deliver := by
    intro x
    by_cases hx : x = s
    · subst hx; simpa using hf
    · simp [hx]
  refine ⟨?_, fun x => ⟨(key x).2.2.2.2.2, fun _ h => by rw [← (key x).2.2.2.1]; exact h⟩,
    fun _ h => h, fun bw => bw⟩
  constructor
  · intro x h; rw [← (key x).2.1]; exact h
  · intro x _; exact (key x).1
  · intro x _ h; rw [← (key x).2.2.1]; exact h
  · intro x _ h; rw [← (key x).2.2.2.1]; exact h
  · intro x t h; rw [← (key x).2.2.2.2.1]; exact h
  · exact fun _ h => h

theorem DF.of_unschedule_timeout (a : State) (s : Nat) : DF a (a.unschedule (.timeout s)) := by
  refine DF.of_eq (a := a) (b := a.unschedule (.timeout s)) rfl rfl rfl rfl ?_
  intro x hx
  simp only [unschedule_ready, unschedule_cur, List.mem_append, List.mem_filter] at hx ⊢
  rcases hx with hx | hx
  · exact .inl ⟨hx, by simp⟩
  · exact .inr ⟨hx, by simp⟩

/-- nothing that `DI` reads changes -/
theorem DW.of_eq {a b : State} (o : Nat)
    (hs : ∀ x, (b.scopes x).parent = (a.scopes x).parent ∧
      (b.scopes x).active = (a.scopes x).active ∧ (b.scopes x).shield = (a.scopes x).shield ∧
      (b.scopes x).tasks = (a.scopes x).tasks ∧
      (b.scopes x).cancelCalled = (a.scopes x).cancelCalled ∧
      (b.scopes x).deliver = (a.scopes x).deliver)
    (h2 : b.tasks = a.tasks) (h3 : b.futs = a.futs) (h4 : b.futWaiter = a.futWaiter)
    (hk : ∀ x, Handle.deliver x ∈ a.ready ++ a.cur → Handle.deliver x ∈ b.ready ++ b.cur) :
    DW a b o := by
  refine ⟨fun x => ?_, fun t => by rw [h2], fun x _ => ⟨(hs x).2.2.2.2.2, (hs x).2.2.2.2.1⟩, hk,
    fun h => .inl (by rw [← (hs o).2.2.2.2.2]; exact h), ?_⟩
  · obtain ⟨a1, a2, a3, a4, a5, _⟩ := hs x
    exact ⟨a1, a2, a3, a4, fun h => by rw [a5]; exact h⟩
  · intro bw t f; rw [h2, h3, h4]; exact bw t f

/-- the state of `cancel()` just before the delivery -/
def cancelPre (a : State) (s : Nat) (b : Bool) : State :=
  let st1 := if (a.scopes s).timer then
      (a.unschedule (.timeout s)).setScope s (fun x => { x with timer := false }) else a
  st1.setScope s (fun x => { x with cancelCalled := true, byDeadline := b, cancelTime := st1.now })

theorem cancelScope_eq (a : State) (s : Nat) (b : Bool) :
    cancelScope a s b =
      if (a.scopes s).cancelCalled then a
      else if ((cancelPre a s b).scopes s).host.isSome then deliver (cancelPre a s b) s
      else cancelPre a s b := rfl

theorem cancelPre_scope_other (a : State) (s : Nat) (b : Bool) {x : Nat} (hx : x ≠ s) :
    ((cancelPre a s b).scopes x) = a.scopes x := by
  unfold cancelPre
  simp only []
  split <;> simp [hx]

theorem cancelPre_scope_self (a : State) (s : Nat) (b : Bool) :
    ((cancelPre a s b).scopes s).parent = (a.scopes s).parent ∧
    ((cancelPre a s b).scopes s).active = (a.scopes s).active ∧
    ((cancelPre a s b).scopes s).shield = (a.scopes s).shield ∧
    ((cancelPre a s b).scopes s).cancelCalled = true ∧
    ((cancelPre a s b).scopes s).tasks = (a.scopes s).tasks ∧
    ((cancelPre a s b).scopes s).deliver = (a.scopes s).deliver ∧
    ((cancelPre a s b).scopes s).host = (a.scopes s).host ∧
    ((cancelPre a s b).scopes s).children = (a.scopes s).children ∧
    ((cancelPre a s b).scopes s).entered = (a.scopes s).entered ∧
    ((cancelPre a s b).scopes s).chain = (a.scopes s).chain := by
  unfold cancelPre
  simp only []
  split <;> simp

theorem dw_cancelPre (a : State) (s : Nat) (b : Bool) : DW a (cancelPre a s b) s := by
  have hs := cancelPre_scope_self a s b
  have ho := fun x (hx : x ≠ s) => cancelPre_scope_other a s b hx
  have hk : ∀ x, Handle.deliver x ∈ a.ready ++ a.cur →
      Handle.deliver x ∈ (cancelPre a s b).ready ++ (cancelPre a s b).cur := by
    intro x hx
    unfold cancelPre
    simp only []
    split
    · exact (DF.of_unschedule_timeout a s).hk x hx
    · exact hx
  have ht : (cancelPre a s b).tasks = a.tasks := by
    unfold cancelPre; simp only []; split <;> rfl
  have hf : (cancelPre a s b).futs = a.futs := by
    unfold cancelPre; simp only []; split <;> rfl
  have hw : (cancelPre a s b).futWaiter = a.futWaiter := by
    unfold cancelPre; simp only []; split <;> rfl
  have key : ∀ x, ((cancelPre a s b).scopes x).parent = (a.scopes x).parent ∧
      ((cancelPre a s b).scopes x).active = (a.scopes x).active ∧
      ((cancelPre a s b).scopes x).shield = (a.scopes x).shield ∧
      ((cancelPre a s b).scopes x).tasks = (a.scopes x).tasks ∧
      ((cancelPre a s b).scopes x).deliver = (a.scopes x).deliver := by
    intro x
    by_cases hx : x = s
    · subst hx; exact ⟨hs.1, hs.2.1, hs.2.2.1, hs.2.2.2.2.1, hs.2.2.2.2.2.1⟩
    · rw [ho x hx]; exact ⟨rfl, rfl, rfl, rfl, rfl⟩
  constructor
  · intro x
    refine ⟨(key x).1, (key x).2.1, (key x).2.2.1, (key x).2.2.2.1, ?_⟩
    intro h
    by_cases hx : x = s
    · subst hx; exact hs.2.2.2.1
    · rw [ho x hx]; exact h
  · intro t; rw [ht]
  · intro x hx; rw [ho x hx]; exact ⟨rfl, rfl⟩
  · exact hk
  · intro h; left; rw [← (key s).2.2.2.2]; exact h
  · intro bw t f; rw [ht, hf, hw]; exact bw t f

theorem dw_cancelScope (a : State) (s : Nat) (b : Bool) : DW a (cancelScope a s b) s := by
  rw [cancelScope_eq]
  split
  · exact DW.refl _ _
  · split
    · exact (dw_cancelPre a s b).trans (dw_deliver _ _)
    · exact dw_cancelPre a s b

theorem tree_cancelPre {a : State} (w : Tree a) (s : Nat) (b : Bool) : Tree (cancelPre a s b) := by
  have hs := cancelPre_scope_self a s b
  apply w.congr
  · unfold cancelPre; simp only []; split <;> rfl
  · intro x
    by_cases hx : x = s
    · subst hx
      exact ⟨hs.2.2.2.2.2.2.2.1, hs.2.1, hs.1, hs.2.2.2.2.2.2.2.2.1, hs.2.2.2.2.2.2.2.2.2⟩
    · rw [cancelPre_scope_other a s b hx]; exact ⟨rfl, rfl, rfl, rfl, rfl⟩

theorem liveAt_cancelScope {a : State} (w : Tree a) (s : Nat) (b : Bool)
    (hh : (a.scopes s).host = none → (a.scopes s).active = false) (hl : LiveAt a s) :
    LiveAt (cancelScope a s b) s := by
  rw [cancelScope_eq]
  split
  · exact hl
  · split
    · exact liveAt_deliver (tree_cancelPre w s b) s
    · rename_i hn
      intro ha
      have hs := cancelPre_scope_self a s b
      rw [hs.2.2.2.2.2.2.1] at hn
      rw [hs.2.1, hh (by cases hx : (a.scopes s).host <;> simp_all)] at ha
      cases ha

theorem di_cancelScope {a : State} (w : Tree a) (h : DI a) (s : Nat) (b : Bool)
    (hh : (a.scopes s).host = none → (a.scopes s).active = false) : DI (cancelScope a s b) :=
  di_of_dw (fun x _ => h.live x) h.sched h.bw (dw_cancelScope a s b)
    (liveAt_cancelScope w s b hh (h.live s))

theorem df_addTimer (a : State) (s : Nat) (d : Nat) :
    DF a { a.setScope s (fun x => { x with timer := true }) with
        timers := a.timers ++ [(d, .timeout s)] } := by
  refine (DF.of_setScope a s (fun x => { x with timer := true })
    ⟨rfl, rfl, rfl, rfl, rfl, rfl⟩).trans ?_
  exact DF.of_eq rfl rfl rfl rfl (fun _ h => h)

theorem dw_armTimeout (a : State) (s : Nat) : DW a (armTimeout a s) s := by
  unfold armTimeout
  split
  · exact DW.refl _ _
  · split
    · exact dw_cancelScope _ _ _
    · refine DW.of_eq s (fun x => ?_) rfl rfl rfl (fun _ h => h)
      by_cases hx : x = s
      · subst hx; simp
      · simp [hx]

theorem di_armTimeout {a : State} (w : Tree a) (h : DI a) (s : Nat)
    (hh : (a.scopes s).host = none → (a.scopes s).active = false) : DI (armTimeout a s) := by
  unfold armTimeout
  split
  · exact h
  · split
    · exact di_cancelScope w h s true hh
    · exact h.df (df_addTimer a s _)

/-! ### the `shield` and `deadline` setters -/

/-- un-shielding `s` adds to what `o` reaches only scopes below `s` -/
theorem reachDown_unshield {a : State} {s o c : Nat}
    (r : reachDown (a.setScope s (fun x => { x with shield := false })) o c) :
    reachDown a o c ∨
      (reachDown (a.setScope s (fun x => { x with shield := false })) o s ∧ s ≠ o) := by
  induction r with
  | refl => exact .inl .refl
  | @step c p hp ha hs hc hr ih =>
    rcases ih with ih | ih
    · by_cases hcs : c = s
      · subst hcs
        by_cases hco : c = o
        · subst hco; exact .inl .refl
        · exact .inr ⟨.step hp ha hs hc hr, hco⟩
      · left
        simp only [setScope_scopes, upd_other _ _ _ _ hcs] at hp ha hs hc
        exact .step hp ha hs hc ih
    · exact .inr ih

theorem tree_setScope {a : State} (w : Tree a) (s : Nat) (f : Scope → Scope)
    (hf : (f (a.scopes s)).children = (a.scopes s).children ∧
      (f (a.scopes s)).active = (a.scopes s).active ∧
      (f (a.scopes s)).parent = (a.scopes s).parent ∧
      (f (a.scopes s)).entered = (a.scopes s).entered ∧
      (f (a.scopes s)).chain = (a.scopes s).chain) : Tree (a.setScope s f) := by
  refine w.congr (b := a.setScope s f) rfl ?_
  intro x
  by_cases hx : x = s
  · subst hx; simpa using hf
  · simp [hx]

theorem di_setShield {a : State} (w : Tree a) (h : DI a) (s : Nat) (b : Bool) :
    DI (setShield a s b) := by
  unfold setShield
  split
  · exact h
  · rename_i hne
    simp only []
    cases b
    · -- un-shield: restart delivery in the nearest cancelled ancestor
      simp only [Bool.false_eq_true, if_false]
      have w1 : Tree (a.setScope s (fun x => { x with shield := false })) :=
        tree_setScope w s _ ⟨rfl, rfl, rfl, rfl, rfl⟩
      have key : ∀ x, ((a.setScope s (fun x => { x with shield := false })).scopes x).active =
            (a.scopes x).active ∧
          ((a.setScope s (fun x => { x with shield := false })).scopes x).cancelCalled =
            (a.scopes x).cancelCalled ∧
          ((a.setScope s (fun x => { x with shield := false })).scopes x).tasks =
            (a.scopes x).tasks ∧
          ((a.setScope s (fun x => { x with shield := false })).scopes x).deliver =
            (a.scopes x).deliver ∧
          ((a.setScope s (fun x => { x with shield := false })).scopes x).entered =
            (a.scopes x).entered := by
        intro x
        by_cases hx : x = s
        · subst hx; simp
        · simp [hx]
      unfold restartInParent
      apply di_restart_fix w1 _ (fun o ho => by rw [(key o).2.2.2.1] at ho; exact h.sched o ho)
        h.bw
      intro o
      by_cases hn : (a.scopes o).active = true ∧ (a.scopes o).cancelCalled = true ∧
          needs (a.setScope s (fun x => { x with shield := false })) o
      · obtain ⟨hact, hcc, c, t, hr, ht, hd⟩ := hn
        rcases reachDown_unshield hr with hr' | ⟨hr', hso⟩
        · left
          intro _ _ _
          rw [(key o).2.2.2.1]
          exact h.live o hact hcc ⟨c, t, hr', by rw [← (key c).2.2.1]; exact ht, hd⟩
        · right
          cases hr' with
          | refl => exact absurd rfl hso
          | @step _ p hp ha hs hc hrp =>
            have e := w1.chain_spec s (w1.active_entered s ha)
            rw [hp] at e
            simp only [] at e
            rw [e, List.tail_cons]
            exact restartTarget_of_reachDown w1 hrp (by rw [(key o).2.1]; exact hcc)
              (by rw [(key o).2.2.2.2]; exact w.active_entered o hact)
      · left
        intro h1 h2 h3
        rw [(key o).1] at h1
        rw [(key o).2.1] at h2
        exact absurd ⟨h1, h2, h3⟩ hn
    · -- shield: less is reachable
      simp only [if_true]
      have hb : (a.scopes s).shield = false := by
        cases hx : (a.scopes s).shield
        · rfl
        · exact absurd hx hne
      apply h.df
      have key : ∀ x, ((a.setScope s (fun x => { x with shield := true })).scopes x).active =
            (a.scopes x).active ∧
          ((a.setScope s (fun x => { x with shield := true })).scopes x).cancelCalled =
            (a.scopes x).cancelCalled ∧
          ((a.setScope s (fun x => { x with shield := true })).scopes x).tasks =
            (a.scopes x).tasks ∧
          ((a.setScope s (fun x => { x with shield := true })).scopes x).deliver =
            (a.scopes x).deliver ∧
          ((a.setScope s (fun x => { x with shield := true })).scopes x).parent =
            (a.scopes x).parent ∧
          (((a.setScope s (fun x => { x with shield := true })).scopes x).shield = false →
            (a.scopes x).shield = false) := by
        intro x
        by_cases hx : x = s
        · subst hx; simp
        · simp [hx]
      refine ⟨?_, fun x => ⟨(key x).2.2.2.1, fun _ hc => by rw [← (key x).2.1]; exact hc⟩,
        fun _ h => h, fun bw => bw⟩
      constructor
      · intro x hx; rw [← (key x).1]; exact hx
      · intro x _; exact (key x).2.2.2.2.1
      · intro x _ hx; exact (key x).2.2.2.2.2 hx
      · intro x _ hx; rw [← (key x).2.1]; exact hx
      · intro x t ht; rw [← (key x).2.2.1]; exact ht
      · exact fun _ h => h

theorem di_setDeadline {a : State} (w : Tree a) (h : DI a) (s : Nat) (d : Option Nat)
    (hh : (a.scopes s).host = none → (a.scopes s).active = false) : DI (setDeadline a s d) := by
  unfold setDeadline
  simp only []
  have h0 := h.df (DF.of_setScope a s (fun x => { x with deadline := d })
    ⟨rfl, rfl, rfl, rfl, rfl, rfl⟩)
  have w0 : Tree (a.setScope s (fun x => { x with deadline := d })) :=
    tree_setScope w s _ ⟨rfl, rfl, rfl, rfl, rfl⟩
  have hh0 : ((a.setScope s (fun x => { x with deadline := d })).scopes s).host = none →
      ((a.setScope s (fun x => { x with deadline := d })).scopes s).active = false := by
    simpa using hh
  generalize a.setScope s (fun x => { x with deadline := d }) = a0 at h0 w0 hh0
  have h1 : DI (if (a0.scopes s).timer then
      (a0.unschedule (.timeout s)).setScope s (fun x => { x with timer := false }) else a0) ∧
      Tree (if (a0.scopes s).timer then
      (a0.unschedule (.timeout s)).setScope s (fun x => { x with timer := false }) else a0) ∧
      (((if (a0.scopes s).timer then
      (a0.unschedule (.timeout s)).setScope s (fun x => { x with timer := false }) else a0).scopes
        s).host = none → ((if (a0.scopes s).timer then
      (a0.unschedule (.timeout s)).setScope s (fun x => { x with timer := false }) else a0).scopes
        s).active = false) := by
    split
    · refine ⟨(h0.df (DF.of_unschedule_timeout a0 s)).df
        (DF.of_setScope _ s _ ⟨rfl, rfl, rfl, rfl, rfl, rfl⟩), ?_, by simpa using hh0⟩
      have w1 : Tree (a0.unschedule (.timeout s)) :=
        w0.congr (b := a0.unschedule (.timeout s)) rfl (fun _ => ⟨rfl, rfl, rfl, rfl, rfl⟩)
      exact tree_setScope w1 s (fun x => { x with timer := false }) ⟨rfl, rfl, rfl, rfl, rfl⟩
    · exact ⟨h0, w0, hh0⟩
  generalize (if (a0.scopes s).timer then _ else a0) = a1 at h1
  split
  · exact di_armTimeout h1.2.1 h1.1 s h1.2.2
  · exact h1.1

end AnyioModel.Kernel
