/-
`WF`, part 4: `enterScope` and `exitScope` preserve `WF`.
-/
import AnyioModel.Kernel.WF3
namespace AnyioModel.Kernel

theorem eq_upd_of_agree {α : Type} {f g : Nat → α} {k : Nat} (h : ∀ x, x ≠ k → g x = f x) :
    g = upd f k (g k) := by
  funext x; by_cases hx : x = k
  · subst hx; simp
  · simp [hx, h x hx]

theorem eq_upd2_of_agree {α : Type} {f g : Nat → α} {k1 k2 : Nat}
    (h : ∀ x, x ≠ k1 → x ≠ k2 → g x = f x) (hk : k1 ≠ k2) :
    g = upd (upd f k1 (g k1)) k2 (g k2) := by
  funext x; by_cases hx : x = k2
  · subst hx; simp
  · by_cases hx1 : x = k1
    · subst hx1; simp [hx]
    · simp [hx, hx1, h x hx1 hx]

theorem forest_enterPre {st : State} {t s : Nat} (h : WF st)
    (he : (st.scopes s).entered = false) (hx : (st.scopes s).exists_ = true)
    (hc : (st.tasks t).st ≠ .created) (hd : (st.tasks t).st ≠ .done) :
    Forest (enterPre st t s).scopes (enterPre st t s).tasks := by
  have hne := h.not_entered s he
  have eT : (enterPre st t s).tasks = upd st.tasks t ((enterPre st t s).tasks t) := by
    apply eq_upd_of_agree
    intro x hx
    unfold enterPre enterCore
    simp only []
    split
    · simp [hx]
    · split <;> simp [hx]
  cases hA : (st.tasks t).hasState
  · have eS : (enterPre st t s).scopes = upd st.scopes s ((enterPre st t s).scopes s) := by
      apply eq_upd_of_agree
      intro x hx
      simp [enterPre, enterCore, hA, hx]
    rw [eS, eT]
    apply h.forest.enter_none he hc hd (.inl hA) <;>
      simp [enterPre, enterCore, hA, hne, hx]
  · cases hB : (st.tasks t).scope with
    | none =>
      have eS : (enterPre st t s).scopes = upd st.scopes s ((enterPre st t s).scopes s) := by
        apply eq_upd_of_agree
        intro x hx
        simp [enterPre, enterCore, hA, hB, hx]
      rw [eS, eT]
      apply h.forest.enter_none he hc hd (.inr hB) <;>
        simp [enterPre, enterCore, hA, hB, hne, hx]
    | some p =>
      have hps : p ≠ s := by
        rintro rfl; have := h.entered_of_task_scope hB; simp_all
      have eS : (enterPre st t s).scopes =
          upd (upd st.scopes s ((enterPre st t s).scopes s)) p ((enterPre st t s).scopes p) := by
        apply eq_upd2_of_agree _ (Ne.symm hps)
        intro x hx1 hx2
        simp [enterPre, enterCore, hA, hB, hx1, hx2]
      rw [eS, eT]
      apply h.forest.enter_some he hc hd hB <;>
        simp [enterPre, enterCore, hA, hB, hne, hx, hps, Ne.symm hps]

theorem enterPre_frame (st : State) (t s : Nat) :
    (enterPre st t s).nTasks = st.nTasks ∧ (enterPre st t s).nScopes = st.nScopes ∧
    (enterPre st t s).nFuts = st.nFuts ∧ (enterPre st t s).nGroups = st.nGroups ∧
    (enterPre st t s).groups = st.groups ∧ (enterPre st t s).futWaiter = st.futWaiter ∧
    (enterPre st t s).running = st.running ∧ (enterPre st t s).ready = st.ready ∧
    (enterPre st t s).cur = st.cur ∧ (enterPre st t s).timers = st.timers ∧
    (enterPre st t s).futs = st.futs ∧ (enterPre st t s).now = st.now ∧
    (enterPre st t s).cycle = st.cycle := by
  unfold enterPre enterCore
  simp only []
  split
  · simp
  · split <;> simp

theorem enterPre_task (st : State) (t s u : Nat) :
    let x := (enterPre st t s).tasks u
    let y := st.tasks u
    x.st = y.st ∧ x.hscope = y.hscope ∧ x.group = y.group ∧ x.startFut = y.startFut ∧
      x.outcome = y.outcome ∧ x.lib = y.lib ∧ x.finished = y.finished ∧
      x.hwaiters = y.hwaiters ∧ x.hexc = y.hexc ∧ x.mustCancel = y.mustCancel ∧
      (u ≠ t → x = y) := by
  unfold enterPre enterCore
  simp only []
  by_cases hu : u = t
  · subst hu
    split
    · simp
    · split <;> simp
  · split
    · simp [hu]
    · split <;> simp [hu]

theorem enterPre_scope (st : State) (t s x : Nat) :
    ((enterPre st t s).scopes x).exists_ = (st.scopes x).exists_ ∧
    ((enterPre st t s).scopes x).deadline = (st.scopes x).deadline ∧
    ((enterPre st t s).scopes x).shield = (st.scopes x).shield ∧
    ((enterPre st t s).scopes x).cancelCalled = (st.scopes x).cancelCalled := by
  unfold enterPre enterCore
  simp only []
  by_cases hx : x = s
  · subst hx
    split
    · simp
    · split
      · rename_i p hp
        by_cases hps : x = p
        · subst hps; simp
        · simp [hps]
      · simp
  · split
    · simp [hx]
    · split
      · rename_i p hp
        by_cases hps : x = p
        · subst hps; simp [hx]
        · simp [hps, hx]
      · simp [hx]

theorem wf_enterPre {st : State} {t s : Nat} (h : WF st)
    (he : (st.scopes s).entered = false) (hx : (st.scopes s).exists_ = true)
    (hr : (st.tasks t).st = .running) : WF (enterPre st t s) := by
  have f := enterPre_frame st t s
  have ht : t < st.nTasks := h.running_lt ((h.running_spec t).mpr hr)
  refine h.of_forest f.1 f.2.1 f.2.2.1 f.2.2.2.1 f.2.2.2.2.1 f.2.2.2.2.2.1 f.2.2.2.2.2.2.1
    (by rw [f.2.2.2.2.2.2.2.1]; exact fun _ h => h)
    (by rw [f.2.2.2.2.2.2.2.2.1]; exact fun _ h => h)
    (by rw [f.2.2.2.2.2.2.2.2.2.1]; exact fun _ h => h)
    (fun u => ?_) (fun u hu => ?_) (fun x => ?_)
    (forest_enterPre h he hx (by simp [hr]) (by simp [hr]))
  · have := enterPre_task st t s u
    exact ⟨this.1, this.2.1, this.2.2.1, this.2.2.2.1, this.2.2.2.2.1⟩
  · have := (enterPre_task st t s u).2.2.2.2.2.2.2.2.2.2 (by omega)
    rw [this]; exact ⟨rfl, rfl⟩
  · have := enterPre_scope st t s x
    exact ⟨this.1, this.2.1⟩

theorem wf_enterScope {st st' : State} {t s : Nat} (h : WF st)
    (hx : (st.scopes s).exists_ = true) (hr : (st.tasks t).st = .running)
    (he : enterScope st t s = some st') : WF st' := by
  obtain ⟨_, h2, h3⟩ := enterScope_spec he
  exact wf_cframe (wf_enterPre h h2 hx hr) h3

/-! ### exit -/

theorem forest_exitPre {st : State} {t s : Nat} (h : WF st)
    (ha : (st.scopes s).active = true) (hh : (st.scopes s).host = some t)
    (hs : (st.tasks t).scope = some s) :
    Forest (exitPre st t s).scopes (exitPre st t s).tasks := by
  have hen := h.active_entered s ha
  have hex := h.entered_exists s hen
  have hts := h.task_scope t s hs
  have eT : (exitPre st t s).tasks = upd st.tasks t ((exitPre st t s).tasks t) := by
    apply eq_upd_of_agree
    intro x hx
    cases hB : (st.scopes s).parent <;> cases hT : (st.scopes s).timer <;>
      simp [exitPre, exitCore, hx, hB, hT]
  cases hB : (st.scopes s).parent with
  | none =>
    have eS : (exitPre st t s).scopes = upd st.scopes s ((exitPre st t s).scopes s) := by
      apply eq_upd_of_agree
      intro x hx
      cases hT : (st.scopes s).timer <;> simp [exitPre, exitCore, hx, hB, hT]
    rw [eS, eT]
    apply h.forest.exit_none ha hh hs hB
    all_goals (cases hT : (st.scopes s).timer <;> simp [exitPre, exitCore, hB, hT, hen, hex, hts])
  | some p =>
    have hps : p ≠ s := by rintro rfl; exact h.parent_ne hB
    have eS : (exitPre st t s).scopes =
        upd (upd st.scopes s ((exitPre st t s).scopes s)) p ((exitPre st t s).scopes p) := by
      apply eq_upd2_of_agree _ (Ne.symm hps)
      intro x hx1 hx2
      cases hT : (st.scopes s).timer <;> simp [exitPre, exitCore, hx1, hx2, hB, hT]
    rw [eS, eT]
    apply h.forest.exit_some ha hh hs hB
    all_goals (cases hT : (st.scopes s).timer <;>
      simp [exitPre, exitCore, hB, hT, hen, hex, hts, hps, Ne.symm hps])

theorem exitPre_frame (st : State) (t s : Nat) :
    (exitPre st t s).nTasks = st.nTasks ∧ (exitPre st t s).nScopes = st.nScopes ∧
    (exitPre st t s).nFuts = st.nFuts ∧ (exitPre st t s).nGroups = st.nGroups ∧
    (exitPre st t s).groups = st.groups ∧ (exitPre st t s).futWaiter = st.futWaiter ∧
    (exitPre st t s).running = st.running ∧ (∀ x ∈ (exitPre st t s).ready, x ∈ st.ready) ∧
    (∀ x ∈ (exitPre st t s).cur, x ∈ st.cur) ∧ (∀ x ∈ (exitPre st t s).timers, x ∈ st.timers) ∧
    (exitPre st t s).futs = st.futs ∧ (exitPre st t s).now = st.now ∧
    (exitPre st t s).cycle = st.cycle := by
  cases hB : (st.scopes s).parent <;> cases hT : (st.scopes s).timer <;>
    simp [exitPre, exitCore, hB, hT] <;> grind

theorem exitPre_task (st : State) (t s u : Nat) :
    (exitPre st t s).tasks u =
      if u = t then { st.tasks t with scope := (st.scopes s).parent } else st.tasks u := by
  by_cases hu : u = t <;> cases hB : (st.scopes s).parent <;> cases hT : (st.scopes s).timer <;>
    simp [exitPre, exitCore, hB, hT, hu]

theorem exitPre_scope (st : State) (t s x : Nat) :
    ((exitPre st t s).scopes x).exists_ = (st.scopes x).exists_ ∧
    ((exitPre st t s).scopes x).deadline = (st.scopes x).deadline ∧
    ((exitPre st t s).scopes x).shield = (st.scopes x).shield ∧
    ((exitPre st t s).scopes x).cancelCalled = (st.scopes x).cancelCalled := by
  cases hB : (st.scopes s).parent <;> cases hT : (st.scopes s).timer <;>
    simp only [exitPre, exitCore, hB, hT, setScope_scopes, setTask_scopes, unschedule_scopes,
      Bool.false_eq_true, if_false, if_true] <;>
    grind

theorem wf_exitPre {st : State} {t s : Nat} (h : WF st)
    (ha : (st.scopes s).active = true) (hh : (st.scopes s).host = some t)
    (hs : (st.tasks t).scope = some s) : WF (exitPre st t s) := by
  have f := exitPre_frame st t s
  have ht : t < st.nTasks := h.host_lt hh
  refine h.of_forest f.1 f.2.1 f.2.2.1 f.2.2.2.1 f.2.2.2.2.1 f.2.2.2.2.2.1 f.2.2.2.2.2.2.1
    f.2.2.2.2.2.2.2.1 f.2.2.2.2.2.2.2.2.1 f.2.2.2.2.2.2.2.2.2.1
    (fun u => ?_) (fun u hu => ?_) (fun x => ?_) (forest_exitPre h ha hh hs)
  · rw [exitPre_task]; split <;> simp_all
  · rw [exitPre_task, if_neg (by omega)]; exact ⟨rfl, rfl⟩
  · have := exitPre_scope st t s x
    exact ⟨this.1, this.2.1⟩

theorem wf_exitScope {st st' : State} {t s : Nat} {ev : ExcVal} {r : ExitResult} (h : WF st)
    (he : exitScope st t s ev = some (st', r)) : WF st' := by
  obtain ⟨h1, h2, _, h4, h5⟩ := exitScope_spec he
  exact wf_cframe (wf_exitPre h h1 h2 h4) h5

end AnyioModel.Kernel
