/-
Delivery of cancellation, part 10: `SR` for every transition, and the three invariants it gives:

* `DC`: a scheduled `deliver o` handle implies `cancelCalled o`;
* `BM`: a blocked task has no `_must_cancel`;
* `NT`: no timer carries a `deliver` handle.
-/
import AnyioModel.Kernel.DeliverInv9

namespace AnyioModel.Kernel

/-- the state a transition works on after the loop has taken the handle out of the batch -/
def stepPre (st : State) : Ev → State
  | .run x => { st with cur := st.cur.erase x }
  | _ => st

def DC (st : State) : Prop :=
  ∀ o, Handle.deliver o ∈ st.ready ++ st.cur → (st.scopes o).cancelCalled = true

def BM (st : State) : Prop :=
  ∀ t f, (st.tasks t).st = .blocked f → (st.tasks t).mustCancel = false

def NT (st : State) : Prop :=
  ∀ p ∈ st.timers, ∀ o, p.2 ≠ Handle.deliver o

macro "sr_leaf" h:ident : tactic => `(tactic| first
  | contradiction
  | (simp only [Option.some.injEq, Prod.mk.injEq] at $h:ident; rcases $h:ident with ⟨h1, _⟩; subst h1; sr; done))

theorem sr_aexit {st st' : State} {g : Nat} {ev : ExcVal} {o : Out} (w : WF st)
    (hs : step st (.aexit g ev) = some (st', o)) : SR st st' := by
  rw [step_aexit'] at hs
  split at hs
  · contradiction
  · rename_i t hr
    split at hs
    · contradiction
    · have w1 := wfr_aexitPrep' ⟨w, hr⟩ g ev
      have h0 : SR st (aexitPrep' st g ev) := by
        unfold aexitPrep'
        split
        · simp only []
          split <;> sr
        · exact SR.refl _
      simp only [] at hs
      split at hs
      · have h1 : SR st (newScope (aexitPrep' st g ev) true none).1 :=
          h0.trans (sr_newScope _ _ _ w1.1.noFresh)
        split at hs
        · contradiction
        · simp only [Option.some.injEq, Prod.mk.injEq] at hs
          obtain ⟨rfl, _⟩ := hs
          sr
      · exact h0.trans (sr_aexitAfterChk w1 hs)

theorem sr_step {st st' : State} {e : Ev} {o : Out} (w : WF st) (hdc : DC st) (hnt : NT st)
    (hs : step st e = some (st', o)) : SR (stepPre st e) st' := by
  cases e with
  | beginCycle now =>
    simp only [step] at hs
    split at hs
    · contradiction
    · rename_i hg
      simp only [Option.some.injEq, Prod.mk.injEq] at hs
      obtain ⟨rfl, _⟩ := hs
      have hc : st.cur = [] := by
        cases hc : st.cur with
        | nil => rfl
        | cons a l => exact absurd (.inr (.inl (by simp [hc]))) hg
      simp only [stepPre]
      constructor
      · intro x hx
        simp only [hc, List.append_nil] at hx
        simp only [List.nil_append, List.mem_append]
        exact .inl hx
      · exact fun _ _ h => h
      · intro x hx
        simp only [List.nil_append, List.mem_append] at hx
        rcases hx with hx | hx
        · exact .inl (List.mem_append_left _ hx)
        · exfalso
          simp only [dueTimers, List.mem_map, List.mem_filter] at hx
          obtain ⟨p, ⟨hp, _⟩, hp2⟩ := hx
          exact hnt p hp x hp2
      · exact fun _ _ h1 h2 => ⟨h1, h2⟩
      · intro x hx; rw [hc] at hx; cases hx
      · intro p hp
        simp only [List.mem_filter] at hp
        exact .inl hp.1
  | run x =>
    simp only [step] at hs
    split at hs
    · contradiction
    · rename_i hg
      have hrun : st.running = none := by
        cases hr : st.running <;> simp_all
      have hxc : x ∈ st.cur := by
        apply Classical.byContradiction; intro hx; exact hg (.inr hx)
      have hok := w.cur_ok x hxc
      have w1 : WF { st with cur := st.cur.erase x } :=
        wf_shrinkCur w _ (fun y hy => List.mem_of_mem_erase hy)
      simp only [stepPre]
      cases x with
      | step t =>
        simp only [] at hs
        split at hs
        · rename_i hst
          refine sr_runTask w1 hrun hok ?_ hs
          rcases hst with hst | hst <;> simp_all
        · contradiction
      | wakeup t =>
        simp only [] at hs
        split at hs
        · rename_i f hst
          refine sr_runTask w1 hrun hok ?_ hs
          simp_all
        · contradiction
      | deliver s =>
        simp only [Option.some.injEq, Prod.mk.injEq] at hs
        obtain ⟨rfl, _⟩ := hs
        exact sr_deliver _ _ (hdc s (List.mem_append_right _ hxc))
      | timeout s =>
        simp only [Option.some.injEq, Prod.mk.injEq] at hs
        obtain ⟨rfl, _⟩ := hs
        sr
      | sleepDone f =>
        simp only [Option.some.injEq, Prod.mk.injEq] at hs
        obtain ⟨rfl, _⟩ := hs
        sr
      | taskDone u =>
        simp only [] at hs
        split at hs
        · rename_i st1 htd
          simp only [Option.some.injEq, Prod.mk.injEq] at hs
          obtain ⟨rfl, _⟩ := hs
          exact sr_runTaskDone htd
        · contradiction
  | mkScope sh d =>
    simp only [step, Option.some.injEq, Prod.mk.injEq] at hs
    obtain ⟨rfl, _⟩ := hs
    exact sr_newScope _ _ _ w.noFresh
  | mkFut =>
    simp only [step, Option.some.injEq, Prod.mk.injEq] at hs
    obtain ⟨rfl, _⟩ := hs
    exact (sr_newFut st).trans (SR.of_fields rfl rfl rfl rfl rfl)
  | mkGroup =>
    simp only [step, Option.some.injEq, Prod.mk.injEq] at hs
    obtain ⟨rfl, _⟩ := hs
    exact (sr_newScope st false none w.noFresh).trans (SR.of_fields rfl rfl rfl rfl rfl)
  | sleep d =>
    simp only [step] at hs
    repeat' (first | split at hs | simp only [] at hs)
    all_goals first
      | contradiction
      | (simp only [Option.some.injEq, Prod.mk.injEq] at hs; obtain ⟨rfl, _⟩ := hs
         refine SR.trans ?_ (sr_blockOn _ _ _)
         refine SR.trans ?_ (sr_setTask _ _ _ (fun x => by simp))
         exact (sr_newFut st).trans (sr_addTimer _ _ _ (fun o e => by cases e)))
  | shieldedChk =>
    simp only [step] at hs
    split at hs
    · contradiction
    · split at hs
      · contradiction
      · have h1 : SR st (newScope st true none).1 := sr_newScope _ _ _ w.noFresh
        split at hs
        · contradiction
        · simp only [Option.some.injEq, Prod.mk.injEq] at hs
          obtain ⟨rfl, _⟩ := hs
          sr
  | spawn g =>
    simp only [step] at hs
    repeat' (first | split at hs | simp only [] at hs)
    all_goals first
      | sr_leaf hs
      | (simp only [Option.some.injEq, Prod.mk.injEq] at hs; obtain ⟨rfl, _⟩ := hs
         exact sr_spawn _ _ _ w.noFresh)
  | start g =>
    simp only [step] at hs
    repeat' (first | split at hs | simp only [] at hs)
    all_goals first
      | sr_leaf hs
      | (simp only [Option.some.injEq, Prod.mk.injEq] at hs; obtain ⟨rfl, _⟩ := hs
         refine SR.trans ?_ (sr_blockOn _ _ _)
         refine SR.trans ?_ (sr_setTask _ _ _ (fun x => by simp))
         exact (sr_newFut st).trans (sr_spawn _ _ _ (wf_newFut w).noFresh))
  | aexit g ev => exact sr_aexit w hs
  | finish o' =>
    simp only [step] at hs
    repeat' (first | split at hs | simp only [] at hs)
    all_goals first
      | contradiction
      | (simp only [Option.some.injEq, Prod.mk.injEq] at hs; obtain ⟨rfl, _⟩ := hs
         exact sr_finishTask ‹_›)
  | handleWait u =>
    simp only [step] at hs
    repeat' (first | split at hs | simp only [] at hs)
    all_goals sr_leaf hs
  | _ =>
    simp only [step] at hs
    repeat' (first | split at hs | simp only [] at hs)
    all_goals sr_leaf hs

/-! ### the invariants -/

theorem dc_step {st st' : State} {e : Ev} {o : Out} (w : WF st) (hdc : DC st) (hnt : NT st)
    (hs : step st e = some (st', o)) : DC st' := by
  have r := sr_step w hdc hnt hs
  have hsub : ∀ x, Handle.deliver x ∈ (stepPre st e).ready ++ (stepPre st e).cur →
      Handle.deliver x ∈ st.ready ++ st.cur := by
    intro x hx
    cases e <;> try exact hx
    simp only [stepPre, List.mem_append] at hx ⊢
    rcases hx with hx | hx
    · exact .inl hx
    · exact .inr (List.mem_of_mem_erase hx)
  have hsc : (stepPre st e).scopes = st.scopes := by cases e <;> rfl
  intro x hx
  rcases r.dh x hx with h | h
  · exact r.cc x h (by rw [hsc]; exact hdc x (hsub x h))
  · exact h

theorem bm_step {st st' : State} {e : Ev} {o : Out} (w : WF st) (hdc : DC st) (hnt : NT st)
    (hb : BM st) (hs : step st e = some (st', o)) : BM st' := by
  have r := sr_step w hdc hnt hs
  have hst : (stepPre st e).tasks = st.tasks := by cases e <;> rfl
  intro t f h1
  cases hm : (st'.tasks t).mustCancel
  · rfl
  · obtain ⟨h2, h3⟩ := r.bm t f h1 hm
    rw [hst] at h2 h3
    rw [hb t f h2] at h3; cases h3

theorem nt_step {st st' : State} {e : Ev} {o : Out} (w : WF st) (hdc : DC st) (hnt : NT st)
    (hs : step st e = some (st', o)) : NT st' := by
  have r := sr_step w hdc hnt hs
  have hst : (stepPre st e).timers = st.timers := by cases e <;> rfl
  intro p hp
  rcases r.tm p hp with h | h
  · rw [hst] at h; exact hnt p h
  · exact h

theorem dbn_reach {st : State} (hr : Reach st) : DC st ∧ BM st ∧ NT st := by
  induction hr with
  | start h =>
    subst h
    refine ⟨?_, ?_, ?_⟩
    · intro o ho; simp [init] at ho
    · intro t f hb
      by_cases ht : t = 0 <;> simp [init, ht] at hb
    · intro p hp; simp [init] at hp
  | next hr hs ih =>
    have w := wf_reach hr
    exact ⟨dc_step w ih.1 ih.2.2 hs, bm_step w ih.1 ih.2.2 ih.2.1 hs, nt_step w ih.1 ih.2.2 hs⟩

/-- a `deliver` handle stays in the current batch until the loop runs it or the batch is over -/
theorem step_keeps_deliver {st st' : State} {e : Ev} {out : Out} (hr : Reach st)
    (hs : step st e = some (st', out)) {o : Nat} (ho : Handle.deliver o ∈ st.cur)
    (he : e ≠ .run (.deliver o)) : Handle.deliver o ∈ st'.cur := by
  obtain ⟨h1, _, h3⟩ := dbn_reach hr
  have r := sr_step (wf_reach hr) h1 h3 hs
  apply r.ck o
  cases e <;> try exact ho
  rename_i x
  simp only [stepPre]
  exact (List.mem_erase_of_ne (fun e' => he (by rw [e']))).mpr ho

end AnyioModel.Kernel
